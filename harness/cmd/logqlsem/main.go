// logqlsem: the data side of the C07 failing-input search.
//
//	logqlsem --mode gen --seed S --n N --out cases.jsonl
//	    LogQL log queries of the fragment that coq/model/LogqlSem.v gives a reference meaning to
//	    (matchers, line filters, label filters before any parser), with query contexts. The SQL is NOT
//	    produced here: the cases go through harness/cmd/logqlsql (real parser + real planner), which
//	    adds the SQL text and the parsed script as terms of the model.
//	logqlsem --mode regroups --seed S --n N --out regroups.jsonl
//	    the `| regexp` stage: generated expressions with flat, nested and mixed named / plain capture groups go
//	    through the planner's own expression parser (ParserPlanner.parseRe: the stripped expression it sends and
//	    the label names it pairs with the groups, the same values the planner model takes as its oracle and the
//	    text correspondence ties to the SQL); the reference is Go's regexp: group i = i-th opening parenthesis
//	    (SubexpNames), values = the groups of the FIRST match (x[1] over extractAllGroupsHorizontal).
//	logqlsem --mode enrich --seed S --cases withsql.jsonl --out enriched.jsonl
//	    for every case: the implementation's SQL parsed back into the object tree of coq/model/Sql.v
//	    (harness/sqlparse, validated on the model side by render(tree) = text), small databases built
//	    from the strings of the query (label values and lines that hit, miss and nearly hit every
//	    matcher / filter; absent labels; window edges; ties; other sample types), and the oracle
//	    tables the evaluation needs, computed with the real libraries: regexp.MatchString for every
//	    (string of the database, pattern of the query), strconv.ParseFloat for every label value /
//	    numeric literal (as order-preserving ranks).
package main

import (
	"bytes"
	"encoding/json"
	"flag"
	"fmt"
	"math"
	"math/rand"
	"regexp"
	"sort"
	"strconv"
	"strings"
	"text/template"
	"unicode/utf8"

	"github.com/metrico/qryn/reader/logql/logql_parser"
	"github.com/metrico/qryn/reader/logql/logql_transpiler_v2/clickhouse_planner"
	"github.com/metrico/qryn/reader/logql/logql_transpiler_v2/shared"
	sql "github.com/metrico/qryn/reader/utils/sql_select"
	"verif/harness/coqx"
	"verif/harness/hx"
	"verif/harness/sqlparse"
)

type Ctx struct {
	FromNs   int64 `json:"from_ns"`
	ToNs     int64 `json:"to_ns"`
	Limit    int64 `json:"limit"`
	Asc      bool  `json:"asc"`
	Cluster  bool  `json:"cluster"`
	Type     uint8 `json:"type"`
	Finalize bool  `json:"finalize"`
	StepMs   int64 `json:"step_ms"`
	// TZ: the zone of the reader process for this case (IANA name; "" = the zone of the harness process, UTC in the check).
	// harness logqlsql plans the statement with time.Local set to it; nothing on the data side depends on it: the writer
	// dates the index rows by the UTC day, the reference meaning has no zone.
	TZ string `json:"tz,omitempty"`
	// NoCHFinalize (round 8): harness logqlsql builds the PlannerContext WITHOUT the flag CHFinalize (the zero value of the
	// field): MainFinalizerPlanner.Process returns the select under the outermost one (five columns, ORDER BY timestamp_ns,
	// LIMIT). The reference meaning does not know the flag (theorem logql_log_correct_any_finalize).
	NoCHFinalize bool `json:"no_ch_finalize,omitempty"`
}

type Series struct {
	Day    int64       `json:"day"`
	Fp     int64       `json:"fp"`
	Labels [][2]string `json:"labels"`
	Type   int64       `json:"type"`
}
type Sample struct {
	Fp   int64  `json:"fp"`
	Ts   int64  `json:"ts"`
	Line string `json:"line"`
	Type int64  `json:"type"`
}
type DB struct {
	Series  []Series `json:"series"`
	Samples []Sample `json:"samples"`
}

type Case struct {
	ID    int      `json:"id"`
	Query string   `json:"query"`
	Ctx   Ctx      `json:"ctx"`
	Runs  int      `json:"runs"`
	Class []string `json:"class"`
	// re-execution (round 7, seeded C07-g): Runs = 1 + len(Rewin) Process calls on the ONE plan object, run k > 0 asks for the
	// window Rewin[k-1] (what a tail does every tick). harness logqlsql returns one statement per run and the context of the
	// later runs as terms (CtxMLRuns); enrich then judges the LAST statement against the LAST window: Ctx becomes that window,
	// FirstCtx / FirstSQL keep what the plan was first processed with.
	Rewin     [][2]int64 `json:"rewin,omitempty"`
	CtxMLRuns []string   `json:"ctx_ml_runs,omitempty"`
	FirstCtx  *Ctx       `json:"first_ctx,omitempty"`
	FirstSQL  string     `json:"first_sql,omitempty"`
	AstML     string     `json:"ast_ml,omitempty"`
	CtxML     string     `json:"ctx_ml,omitempty"`
	SQL       []string   `json:"sql,omitempty"`
	Err       string     `json:"err,omitempty"`
	ErrText   string     `json:"err_text,omitempty"`
	// added by enrich
	Skip   string   `json:"skip,omitempty"`
	TreeML string   `json:"tree_ml,omitempty"`
	ReML   string   `json:"re_ml,omitempty"`
	PfML   string   `json:"pf_ml,omitempty"`
	JgML   string   `json:"jg_ml,omitempty"`
	RgML   string   `json:"rg_ml,omitempty"`
	Stages []string `json:"stages,omitempty"` // line | label | json | drop, in pipeline order
	DbsML  string   `json:"dbs_ml,omitempty"`
	Dbs    []DB     `json:"dbs,omitempty"`
}

// ---------------------------------------------------------------- generator (mode gen)

var labelNames = []string{"a", "job", "level", "_x1", "status"}
var plainVals = []string{"b", "api", "error", "x", "200", "it", "d.*", "a|b", "^x$", "", "foo bar", "1.5", "10"}
var nastyVals = []string{"it's", "'q'", "''", "a\\b", "100%", "a_b", "%", "_", "\\%", "a\"b", "x\\", "\\", "'", "(?i)abc", "ab.c", "a\\.b", "[0-9]+", "(?i)a.c", "%%", "\\_", "50%_", "'%'"}

func pick(r *rand.Rand, xs []string) string { return xs[r.Intn(len(xs))] }
func val(r *rand.Rand) string {
	if r.Intn(3) == 0 {
		return pick(r, nastyVals)
	}
	return pick(r, plainVals)
}
func quoted(r *rand.Rand, s string) string {
	ok := true
	for i := 0; i < len(s); i++ {
		if s[i] == '`' || s[i] == '\\' || s[i] < 32 || s[i] >= 127 {
			ok = false
		}
	}
	if ok && r.Intn(4) == 0 {
		return "`" + s + "`"
	}
	b, _ := json.Marshal(s)
	return string(b)
}
func genMatchers(r *rand.Rand) string {
	n := 1 + r.Intn(3)
	switch r.Intn(16) {
	case 0:
		n = 4 + r.Intn(5)
	case 1:
		n = 9 + r.Intn(4) // more than eight: the bitmask was a UInt8 before fix 052673d
	}
	var ms []string
	for i := 0; i < n; i++ {
		op := []string{"=", "=", "!=", "=~", "!~"}[r.Intn(5)]
		ms = append(ms, pick(r, labelNames)+op+quoted(r, val(r)))
	}
	return "{" + strings.Join(ms, ",") + "}"
}
func genSimpleLF(r *rand.Rand) string {
	l := pick(r, labelNames)
	if r.Intn(2) == 0 {
		op := []string{"=", "!=", "=~", "!~"}[r.Intn(4)]
		return l + op + quoted(r, val(r))
	}
	op := []string{"==", "!=", ">", ">=", "<", "<="}[r.Intn(6)]
	num := []string{"1", "0", "200", "1.5", "10.25", "007", "3.", "0.0000001", "10"}[r.Intn(9)]
	return l + " " + op + " " + num
}
func genLF(r *rand.Rand, depth int) string {
	head := ""
	if depth < 2 && r.Intn(4) == 0 {
		head = "(" + genLF(r, depth+1) + ")"
	} else {
		head = genSimpleLF(r)
	}
	if depth < 3 && r.Intn(3) == 0 {
		return head + []string{" and ", " or "}[r.Intn(2)] + genLF(r, depth+1)
	}
	return head
}
func genFilter(r *rand.Rand, class *[]string) string {
	if r.Intn(5) < 2 {
		*class = append(*class, "linefilter")
		op := []string{"|=", "!=", "|~", "!~"}[r.Intn(4)]
		return " " + op + " " + quoted(r, val(r))
	}
	*class = append(*class, "labelfilter")
	return " | " + genLF(r, 0)
}

var jsonPaths = []string{"a", "a.b", "level", "msg", "x.y.z", `["k 1"]`, `a["b"].c`, "n", "a[0]", "l[1].b"}

func genJson(r *rand.Rand, class *[]string) string {
	*class = append(*class, "json")
	n := 1 + r.Intn(3)
	var ps []string
	used := map[string]bool{}
	for i := 0; i < n; i++ {
		l := pick(r, labelNames)
		if used[l] {
			continue
		}
		used[l] = true
		ps = append(ps, l+"="+quoted(r, pick(r, jsonPaths)))
	}
	return " | json " + strings.Join(ps, ", ")
}

func genDrop(r *rand.Rand, class *[]string) string {
	*class = append(*class, "drop")
	n := 1 + r.Intn(2)
	var ps []string
	for i := 0; i < n; i++ {
		if r.Intn(2) == 0 {
			ps = append(ps, pick(r, labelNames))
		} else {
			ps = append(ps, pick(r, labelNames)+"="+quoted(r, val(r)))
		}
	}
	return " | drop " + strings.Join(ps, ",")
}

// ---- the regexp stage: expressions with named / plain / nested groups whose names are labels the filters read, and a
// builder of lines the expression matches with given captured texts
type reTmpl struct {
	re    string
	names []string          // the named groups
	class map[string]string // what a captured text of the group looks like
	build func(v map[string]string) string
}

var reTmpls = []reTmpl{
	{`(?P<level>\w+) (?P<status>\d+)`, []string{"level", "status"}, map[string]string{"level": `^\w+$`, "status": `^\d+$`},
		func(v map[string]string) string { return v["level"] + " " + v["status"] }},
	{`(?P<a>(?P<_x1>\d+)\.\d+) (?P<job>\w+)`, []string{"a", "_x1", "job"}, map[string]string{"_x1": `^\d+$`, "job": `^\w+$`},
		func(v map[string]string) string { return v["_x1"] + ".5 " + v["job"] }},
	{`x(y)(?P<job>z.*)`, []string{"job"}, map[string]string{"job": `^z.*$`},
		func(v map[string]string) string { return "xy" + v["job"] }},
	{`lvl=(?P<level>[a-z]*) st=(?P<status>[0-9.]*)`, []string{"level", "status"}, map[string]string{"level": `^[a-z]*$`, "status": `^[0-9.]*$`},
		func(v map[string]string) string { return "lvl=" + v["level"] + " st=" + v["status"] }},
	{`((?P<a>a+)b)`, []string{"a"}, map[string]string{"a": `^a+$`},
		func(v map[string]string) string { return "-" + v["a"] + "b-" }},
	{`(?P<status>[0-9]+)`, []string{"status"}, map[string]string{"status": `^[0-9]+$`},
		func(v map[string]string) string { return "took 7 ms, code " + v["status"] }},
	{`(?P<job>it's)>(b)`, []string{"job"}, map[string]string{"job": `^it's$`},
		func(v map[string]string) string { return "<it's>b" }},
	// groups that capture nothing ((?i), (?:...)) and an empty named group: since the repair regexp-noncapturing-group
	{`(?i)(?P<level>[a-z]+) (?:took|in) (?P<status>\d+)`, []string{"level", "status"}, map[string]string{"level": `^[a-z]+$`, "status": `^\d+$`},
		func(v map[string]string) string { return v["level"] + " took " + v["status"] }},
	{`(?P<job>)x(?P<a>a+)`, []string{"job", "a"}, map[string]string{"a": `^a+$`},
		func(v map[string]string) string { return "x" + v["a"] }},
	{`(?P<level>[a-z]+):(?P<_x1>(?P<status>\d)\d*)`, []string{"level", "_x1", "status"}, map[string]string{"level": `^[a-z]+$`, "_x1": `^\d+$`},
		func(v map[string]string) string { return v["level"] + ":" + v["_x1"] }},
}

func reTmplOf(src string) *reTmpl {
	for i := range reTmpls {
		if reTmpls[i].re == src {
			return &reTmpls[i]
		}
	}
	return nil
}

func genRegexp(r *rand.Rand, class *[]string) string {
	*class = append(*class, "regexp")
	return " | regexp " + quoted(r, reTmpls[r.Intn(len(reTmpls))].re)
}

// a regexp stage, a label filter on a label it writes, then a stage that rewrites or removes labels, filters around
func genRegexpQuery(r *rand.Rand) (string, []string) {
	var class []string
	q := genMatchers(r)
	for i := r.Intn(2); i > 0; i-- {
		q += genFilter(r, &class)
	}
	t := reTmpls[r.Intn(len(reTmpls))]
	class = append(class, "regexp")
	q += " | regexp " + quoted(r, t.re)
	l := t.names[r.Intn(len(t.names))]
	switch r.Intn(5) {
	case 0:
		q += " | " + l + "!=" + quoted(r, pick(r, []string{"error", "200", "api", "zabc", "a", "7"}))
	case 1:
		q += " | " + l + "=~" + quoted(r, pick(r, []string{"e.*", "[0-9]+", "^a+$", "z"}))
	case 2:
		q += " | " + l + []string{" >= ", " < ", " == "}[r.Intn(3)] + pick(r, []string{"200", "7", "1.5", "10"})
	default:
		q += " | " + l + "=" + quoted(r, pick(r, []string{"error", "200", "api", "zabc", "aa", "7", "info"}))
	}
	class = append(class, "labelfilter")
	for i := r.Intn(3); i > 0; i-- {
		switch r.Intn(5) {
		case 0:
			q += genDrop(r, &class)
		case 1:
			q += " | drop " + l
			class = append(class, "drop")
		case 2:
			q += genJson(r, &class)
		case 3:
			q += genRegexp(r, &class)
		default:
			q += genFilter(r, &class)
		}
	}
	return q, class
}

// queries with json parameters and drop: mostly in the order the theorem covers (filters ; json+ ; drop* ;
// filters*), sometimes in any order (where the planners are known to deviate)
// a label filter, then line filter(s), then a stage that REWRITES the label the filter read (drop L / json L=other path):
// the filter must be decided on the value the label had where the filter is written (the select is renewed in front of the
// relabelling stage whatever kind of filter precedes it)
func genRelabelAfterFilters(r *rand.Rand) (string, []string) {
	class := []string{"relabel-after-filters"}
	q := genMatchers(r)
	l := pick(r, labelNames)
	v := pick(r, []string{"b", "api", "error", "200", "1.5", "it"})
	lf := func() string {
		switch r.Intn(6) {
		case 0:
			return " | " + l + "!=" + quoted(r, v)
		case 1:
			return " | " + l + "=~" + quoted(r, v)
		case 2:
			return " | " + l + " >= 1"
		default:
			return " | " + l + "=" + quoted(r, v)
		}
	}
	line := func() string {
		w := pick(r, []string{"b", "x", "it", "api", "msg"})
		switch r.Intn(4) {
		case 0:
			return " != " + quoted(r, "zz"+w)
		case 1:
			return " |~ " + quoted(r, w)
		default:
			return " |= " + quoted(r, w)
		}
	}
	variant := r.Intn(3)
	switch variant {
	case 0: // json sets L, the filter reads it, line filters, L is rewritten
		if r.Intn(3) == 0 {
			q += genFilter(r, &class)
		}
		q += " | json " + l + "=" + quoted(r, pick(r, jsonPaths))
		class = append(class, "json")
	case 1: // the filter reads a stream label behind a drop of another label
		o := pick(r, labelNames)
		for o == l {
			o = pick(r, labelNames)
		}
		q += " | drop " + o
		class = append(class, "drop")
	default: // the filter reads a stream label behind a json stage that sets another label
		o := pick(r, labelNames)
		for o == l {
			o = pick(r, labelNames)
		}
		q += " | json " + o + "=" + quoted(r, pick(r, jsonPaths))
		class = append(class, "json")
	}
	q += lf()
	class = append(class, "labelfilter")
	for i := 1 + r.Intn(2); i > 0; i-- {
		q += line()
		class = append(class, "linefilter")
	}
	switch r.Intn(3) {
	case 0:
		q += " | drop " + l
		class = append(class, "drop")
	case 1:
		q += " | drop " + l + "=" + quoted(r, v)
		class = append(class, "drop")
	default:
		q += " | json " + l + "=" + quoted(r, pick(r, jsonPaths))
		class = append(class, "json")
	}
	if r.Intn(3) == 0 {
		q += genFilter(r, &class)
	}
	return q, class
}

// a label FILTER that compares a label with the empty string, over streams that lack the label: LogQL reads a missing label
// as "" (`{sel} | env=""` = the streams WITHOUT env), and so does every read the planners emit for a filter (JSONExtractString
// over the labels document in front of the parsers, labels['env'] behind them). The analogue of the absent-label MATCHER
// finding, on the side where the code is right: an "index lookup" of the pair (env, "") in time_series_gin would find nothing
// (seeded C07-d). The selector accepts no "" (absent_guard holds), the filtered label is mostly not one of the selector's.
func genEmptyLabelFilter(r *rand.Rand) (string, []string) {
	class := []string{"empty-label-filter", "labelfilter"}
	sel := [][2]string{{"a", "b"}, {"job", "api"}, {"level", "error"}, {"status", "200"}, {"_x1", "it"}}
	k := r.Intn(len(sel))
	q := "{" + sel[k][0] + "=" + quoted(r, sel[k][1])
	k2 := -1
	if r.Intn(3) == 0 {
		k2 = (k + 1 + r.Intn(len(sel)-1)) % len(sel)
		q += "," + sel[k2][0] + []string{"=", "=~"}[r.Intn(2)] + quoted(r, sel[k2][1])
	}
	q += "}"
	l := pick(r, labelNames)
	for try := 0; try < 8 && (l == sel[k][0] || (k2 >= 0 && l == sel[k2][0])); try++ {
		l = pick(r, labelNames)
	}
	empty := []string{`""`, "``"}[r.Intn(2)]
	other := pick(r, labelNames)
	for other == l {
		other = pick(r, labelNames)
	}
	lf := func() string {
		switch r.Intn(12) {
		case 0:
			return l + "!=" + empty
		case 1:
			return l + "=~" + quoted(r, pick(r, []string{"", "^$", ".*", ".+"}))
		case 2:
			return l + "!~" + quoted(r, pick(r, []string{".+", "^$", "x"}))
		case 3:
			return "(" + l + "=" + empty + ")"
		case 4:
			return l + "=" + empty + " or " + l + "=" + quoted(r, pick(r, []string{"b", "api", "x"}))
		case 5:
			return l + "=" + empty + " and " + other + "=" + empty
		default:
			return l + "=" + empty // the one shape an index lookup would be tempted by
		}
	}
	if r.Intn(4) == 0 { // a line filter in front: the label filter is still pushed down to the series table
		class = append(class, "linefilter")
		q += " " + []string{"|=", "!="}[r.Intn(2)] + " " + quoted(r, pick(r, []string{"x", "it", "hello"}))
	}
	if r.Intn(6) == 0 { // behind a parser the filter reads labels['l']: absent = '' as well
		q += " | json " + other + "=" + quoted(r, pick(r, jsonPaths))
		class = append(class, "json")
	}
	q += " | " + lf()
	switch r.Intn(6) {
	case 0:
		q += " | " + other + "=" + empty
	case 1:
		q += genFilter(r, &class)
	case 2:
		q += genDrop(r, &class)
	case 3:
		q += genJson(r, &class)
	}
	return q, class
}

// `| line_format "tmpl"` (round 5): the line becomes the template executed over the current labels; every later stage reads
// the new line and the query returns it. Templates: no field, one field, two fields, a field printed twice, braces / quote /
// percent / backslash in the text (format() patterns and string literals escape them), a JSON document (a json stage behind
// it reads the formatted line), the text a regexp template matches. In front: nothing, filters, json / regexp / drop (the
// template then prints extracted or dropped labels). Behind: line filters whose value is cut out of the rendered template
// (so that label values decide them), json / regexp stages over the formatted line with a filter on what they extract, label
// filters, drop, a second line_format. From a PRNG stream of its own.
func genLineFormat(r *rand.Rand) (string, []string) {
	class := []string{"line-format"}
	sel := [][2]string{{"a", "b"}, {"job", "api"}, {"level", "error"}, {"status", "200"}, {"_x1", "it"}}
	q := ""
	if r.Intn(4) == 0 {
		q = genMatchers(r)
	} else {
		k := r.Intn(len(sel))
		q = "{" + sel[k][0] + "=" + quoted(r, sel[k][1]) + "}"
	}
	L := pick(r, labelNames)
	M := pick(r, labelNames)
	for M == L {
		M = pick(r, labelNames)
	}
	pool := []string{"b", "api", "error", "200", "1.5", "it", "10"}
	switch r.Intn(7) {
	case 0:
		q += genFilter(r, &class)
	case 1:
		q += " " + []string{"|=", "!=", "|~"}[r.Intn(3)] + " " + quoted(r, pick(r, []string{"x", "it", "hello", "a"}))
		class = append(class, "linefilter")
	case 2:
		q += " | json " + L + "=" + quoted(r, pick(r, jsonPaths))
		class = append(class, "json")
	case 3:
		q += genRegexp(r, &class)
	case 4:
		q += " | drop " + pick(r, []string{L, M, L + "=" + quoted(r, pick(r, pool))})
		class = append(class, "drop")
	}
	tk := r.Intn(9)
	tmpl := []string{
		pick(r, []string{"zzz", "done {x}"}),
		"{{." + L + "}}",
		"{{." + L + "}}: done {x}",
		"lvl={{." + L + "}} st={{." + M + "}}",
		`{"k":"{{.` + L + `}}","n":"{{.` + M + `}}"}`,
		"{{." + L + "}} {{." + L + "}}",
		"it's 100% {{." + L + "}}\\ _",
		"{{ ." + L + " }}}{",
		"<{{." + M + "}}|{{." + L + "}}>",
	}[tk]
	q += " | line_format " + quoted(r, tmpl)
	render := func(lv, mv string) string {
		t := tplField.ReplaceAllStringFunc(tmpl, func(m string) string {
			if tplField.FindStringSubmatch(m)[1] == L {
				return lv
			}
			return mv
		})
		return t
	}
	for n := r.Intn(3); n > 0; n-- {
		switch k := r.Intn(10); {
		case k < 4: // a line filter on the formatted line
			full := render(pick(r, pool), pick(r, pool))
			v := full
			switch r.Intn(4) {
			case 0:
				v = full[:(len(full)+1)/2]
			case 1:
				v = full[len(full)/2:]
			case 2:
				v = pick(r, pool)
			}
			op := []string{"|=", "|=", "!=", "|~", "!~"}[r.Intn(5)]
			if op == "|~" || op == "!~" {
				if r.Intn(2) == 0 {
					v = regexp.QuoteMeta(v)
				} else {
					v = pick(r, []string{"^" + regexp.QuoteMeta(v), "[0-9]+", "e.*o", "^lvl=[a-z]+ ", "\\d\\.5"})
				}
			}
			q += " " + op + " " + quoted(r, v)
			class = append(class, "linefilter")
		case k == 4 && tk == 4: // a json stage over the formatted document
			y := pick(r, labelNames)
			q += " | json " + y + "=" + quoted(r, pick(r, []string{"k", "n", "zz"})) + " | " + y + []string{"=", "!=", "=~"}[r.Intn(3)] + quoted(r, pick(r, pool))
			class = append(class, "json", "labelfilter")
		case k == 4 && tk == 3: // a regexp stage over the formatted line
			q += " | regexp " + quoted(r, reTmpls[3].re) + " | " + pick(r, []string{"level", "status"}) + []string{"=", "!="}[r.Intn(2)] + quoted(r, pick(r, pool))
			class = append(class, "regexp", "labelfilter")
		case k == 4 || k == 5:
			q += " | " + L + []string{"=", "!=", "=~"}[r.Intn(3)] + quoted(r, pick(r, pool))
			class = append(class, "labelfilter")
		case k == 6:
			q += " | drop " + L
			class = append(class, "drop")
		case k == 7:
			q += " | line_format " + quoted(r, pick(r, []string{"{{." + M + "}}!", "second", "{{." + L + "}}"}))
		case k == 8:
			q += genJson(r, &class)
		default:
			q += genFilter(r, &class)
		}
	}
	return q, class
}

func genParserQuery(r *rand.Rand) (string, []string) {
	if r.Intn(4) == 0 {
		return genRelabelAfterFilters(r)
	}
	if r.Intn(3) == 0 {
		return genRegexpQuery(r)
	}
	var class []string
	q := genMatchers(r)
	if r.Intn(4) == 0 {
		n := 1 + r.Intn(4)
		for i := 0; i < n; i++ {
			switch r.Intn(5) {
			case 0:
				q += genJson(r, &class)
			case 1:
				q += genDrop(r, &class)
			case 2:
				q += genRegexp(r, &class)
			default:
				q += genFilter(r, &class)
			}
		}
		return q, append(class, "anyorder")
	}
	for i := r.Intn(3); i > 0; i-- {
		q += genFilter(r, &class)
	}
	for i := 1 + r.Intn(2); i > 0; i-- {
		q += genJson(r, &class)
	}
	for i := r.Intn(2); i > 0; i-- {
		q += genDrop(r, &class)
	}
	for i := r.Intn(3); i > 0; i-- {
		q += genFilter(r, &class)
	}
	return q, class
}

// a label filter written BEHIND a json (with parameters) / regexp / drop stage: the filter LabelFilterPlanner evaluates in the
// samples pipeline over the select of the planners in front of it (seeded C07-g); filters of either kind around it
func genFilterBehindRelabel(r *rand.Rand) (string, []string) {
	class := []string{"filter-behind-relabel"}
	q := genMatchers(r)
	for i := r.Intn(2); i > 0; i-- {
		q += genFilter(r, &class)
	}
	switch r.Intn(3) {
	case 0:
		q += genJson(r, &class)
	case 1:
		q += genRegexp(r, &class)
	default:
		q += genDrop(r, &class)
	}
	class = append(class, "labelfilter")
	q += " | " + genLF(r, 0)
	for i := r.Intn(3); i > 0; i-- {
		switch r.Intn(4) {
		case 0:
			q += genDrop(r, &class)
		case 1:
			q += genJson(r, &class)
		default:
			q += genFilter(r, &class)
		}
	}
	return q, class
}

func genQuery(r *rand.Rand) (string, []string) {
	if r.Intn(5) < 2 {
		return genParserQuery(r)
	}
	var class []string
	q := genMatchers(r)
	n := []int{0, 1, 1, 2, 2, 3, 4}[r.Intn(7)]
	for i := 0; i < n; i++ {
		if r.Intn(5) < 3 {
			class = append(class, "linefilter")
			op := []string{"|=", "!=", "|~", "!~"}[r.Intn(4)]
			q += " " + op + " " + quoted(r, val(r))
		} else {
			class = append(class, "labelfilter")
			q += " | " + genLF(r, 0)
		}
	}
	return q, class
}

// ---------------------------------------------------------------- query strings

type qinfo struct {
	labels    []string // label names used anywhere
	labelVals map[string][]string
	patterns  []string // every regular expression of the query
	lineVals  []string // line filter values (|= != as text, |~ !~ as patterns)
	nums      []string // numeric literals, and the text sql.FloatVal prints for them
	nmatch    int
	cons      []constraint // every comparison on a label (matchers and label filters)
	jparams   []jparam     // json parameters: label and split path
	rparams   []rparam     // regexp stages
	stages    []string
	lfmts     []string // line_format templates
	prog      []pstage // the stages that change the line or the labels, in pipeline order (see reach)
}

// one stage of the pipeline as the table builder replays it (filters are not replayed: see reach)
type pstage struct {
	kind string // json | regexp | drop | line_format
	jps  []jparam
	rp   rparam
	drop [][2]string // name, value ("" = by name)
	tmpl string
}

type jparam struct {
	label string
	path  []string
}

// a regexp stage: the expression as written, what the planner's grammar makes of it (hook VerifParseRe), and the text with
// every `(?P<name>` replaced by `(` computed independently of the planner
type rparam struct {
	src, sent, naive string
	names            []string
}

var namedOpen = regexp.MustCompile(`\(\?P<[a-zA-Z_][0-9a-zA-Z_]*>`)

type constraint struct {
	name, op, val string
	num           bool
}

// holds: the LogQL meaning of one comparison on a label value (used only to steer the data generator)
func (c constraint) holds(v string) bool {
	if c.num {
		x, e1 := strconv.ParseFloat(v, 64)
		n, e2 := strconv.ParseFloat(c.val, 64)
		if e1 != nil || e2 != nil {
			return false
		}
		switch c.op {
		case "==":
			return x == n
		case "!=":
			return x != n
		case ">":
			return x > n
		case ">=":
			return x >= n
		case "<":
			return x < n
		case "<=":
			return x <= n
		}
		return false
	}
	switch c.op {
	case "=":
		return v == c.val
	case "!=":
		return v != c.val
	case "=~", "!~":
		re, err := regexp.Compile(c.val)
		if err != nil {
			return false
		}
		return re.MatchString(v) == (c.op == "=~")
	}
	return false
}

func unq(q *logql_parser.QuotedString) string {
	s, err := q.Unquote()
	if err != nil {
		panic("unquote: " + err.Error())
	}
	return s
}

func (qi *qinfo) addLabel(name, v string) {
	found := false
	for _, l := range qi.labels {
		if l == name {
			found = true
		}
	}
	if !found {
		qi.labels = append(qi.labels, name)
	}
	qi.labelVals[name] = append(qi.labelVals[name], v)
}

func (qi *qinfo) walkLF(f *logql_parser.LabelFilter) {
	if f.Head.SimpleHead != nil {
		s := f.Head.SimpleHead
		if s.StrVal != nil {
			v := unq(s.StrVal)
			qi.addLabel(s.Label.Name, v)
			qi.cons = append(qi.cons, constraint{s.Label.Name, s.Fn, v, false})
			if s.Fn == "=~" || s.Fn == "!~" {
				qi.patterns = append(qi.patterns, v)
			}
		} else {
			qi.addLabel(s.Label.Name, s.NumVal)
			qi.cons = append(qi.cons, constraint{s.Label.Name, s.Fn, s.NumVal, true})
			qi.nums = append(qi.nums, s.NumVal)
			if fv, err := strconv.ParseFloat(s.NumVal, 64); err == nil {
				qi.nums = append(qi.nums, floatValText(fv))
			}
		}
	} else if f.Head.ComplexHead != nil {
		qi.walkLF(f.Head.ComplexHead)
	}
	if f.Tail != nil {
		qi.walkLF(f.Tail)
	}
}

// floatValText is the text sql.FloatVal prints for v, taken from the real object: the literal the SQL carries
func floatValText(v float64) string {
	t, err := sql.NewFloatVal(v).String(&sql.Ctx{Params: map[string]sql.SQLObject{}, Result: map[string]sql.SQLObject{}})
	if err != nil {
		panic(err)
	}
	return t
}

// info returns nil when the query is outside the fragment
func info(script *logql_parser.LogQLScript) *qinfo {
	if script.StrSelector == nil {
		return nil
	}
	qi := &qinfo{labelVals: map[string][]string{}}
	for _, c := range script.StrSelector.StrSelCmds {
		v := unq(&c.Val)
		qi.addLabel(c.Label.Name, v)
		qi.cons = append(qi.cons, constraint{c.Label.Name, c.Op, v, false})
		if c.Op == "=~" || c.Op == "!~" {
			qi.patterns = append(qi.patterns, v)
		}
		qi.nmatch++
	}
	for i := range script.StrSelector.Pipelines {
		p := &script.StrSelector.Pipelines[i]
		switch {
		case p.LineFilter != nil:
			v := unq(&p.LineFilter.Val)
			qi.stages = append(qi.stages, "line")
			qi.lineVals = append(qi.lineVals, v)
			if p.LineFilter.Fn == "|~" || p.LineFilter.Fn == "!~" {
				qi.patterns = append(qi.patterns, v)
			}
		case p.LabelFilter != nil:
			qi.stages = append(qi.stages, "label")
			qi.walkLF(p.LabelFilter)
		case p.Parser != nil && p.Parser.Fn == "json" && len(p.Parser.ParserParams) > 0:
			qi.stages = append(qi.stages, "json")
			jp0 := len(qi.jparams)
			for _, pp := range p.Parser.ParserParams {
				label := ""
				if pp.Label != nil {
					label = pp.Label.Name
				}
				path, err := shared.JsonPathParamToArray(unq(&pp.Val))
				if err != nil {
					return nil
				}
				// an [n] part: the byte 0 followed by the digits of n+1, a key that begins with the byte 0: that byte doubled
				// (as harness logqlsql hands them to the planner model)
				if typed, terr := shared.JsonPathParamToTypedArray(unq(&pp.Val)); terr == nil {
					for i := range path {
						if i < len(typed) {
							if _, isIdx := typed[i].(int); isIdx {
								path[i] = "\x00" + path[i]
							} else if len(path[i]) > 0 && path[i][0] == 0 {
								path[i] = "\x00" + path[i]
							}
						}
					}
				}
				qi.jparams = append(qi.jparams, jparam{label, path})
				qi.addLabel(label, "")
			}
			qi.prog = append(qi.prog, pstage{kind: "json", jps: append([]jparam{}, qi.jparams[jp0:]...)})
		case p.Parser != nil && p.Parser.Fn == "regexp" && len(p.Parser.ParserParams) > 0:
			src := unq(&p.Parser.ParserParams[0].Val)
			var rp rparam
			var perr error
			if pn := hx.Catch(func() { rp.sent, rp.names, perr = clickhouse_planner.VerifParseRe(src) }); pn != "" || perr != nil {
				return nil // the planner answers with an error (or panics): there is no SQL
			}
			rp.src, rp.naive = src, namedOpen.ReplaceAllString(src, "(")
			qi.stages = append(qi.stages, "regexp")
			qi.rparams = append(qi.rparams, rp)
			qi.prog = append(qi.prog, pstage{kind: "regexp", rp: rp})
			for _, n := range rp.names {
				if n != "" {
					qi.addLabel(n, "")
				}
			}
		case p.Drop != nil:
			qi.stages = append(qi.stages, "drop")
			st := pstage{kind: "drop"}
			for _, dp := range p.Drop.Params {
				v := ""
				if dp.Val != nil {
					v = unq(dp.Val)
				}
				qi.addLabel(dp.Label.Name, v)
				st.drop = append(st.drop, [2]string{dp.Label.Name, v})
			}
			qi.prog = append(qi.prog, st)
		case p.LineFormat != nil:
			// `| line_format "tmpl"`: the line becomes the template executed over the current labels (round 5: inside the
			// search; LineFormatPlanner answers with an error for a template it does not support, then there is no SQL)
			t := unq(&p.LineFormat.Val)
			qi.stages = append(qi.stages, "line_format")
			qi.lfmts = append(qi.lfmts, t)
			qi.prog = append(qi.prog, pstage{kind: "line_format", tmpl: t})
			for _, m := range tplField.FindAllStringSubmatch(t, -1) {
				qi.addLabel(m[1], "")
			}
		default:
			return nil
		}
	}
	qi.steerFormatted(script)
	return qi
}

var tplField = regexp.MustCompile(`\{\{ *\.([A-Za-z_][A-Za-z0-9_]*) *\}\}`)
var tplJSONMember = regexp.MustCompile(`"([A-Za-z_][A-Za-z0-9_]*)": ?"?\{\{ *\.([A-Za-z_][A-Za-z0-9_]*) *\}\}`)

// steerFormatted: behind a line_format the line filters test the FORMATTED line and json parameters read it. The database
// builder only knows label values and stored lines, so the comparisons made on the formatted line are turned into candidate
// values of the labels the template prints: for a later line filter value v and a field {{.l}} between the texts `pre` and
// `post`, v without the part that overlaps `pre` / `post` is a value of l that makes the formatted line contain v; for a later
// json parameter y="k" over a template that prints "k":"{{.l}}", the comparisons the query makes on y are made on l too.
// (Steering only: what a case means is decided by the Coq reference.)
func (qi *qinfo) steerFormatted(script *logql_parser.LogQLScript) {
	if len(qi.lfmts) == 0 {
		return
	}
	ppl := script.StrSelector.Pipelines
	for i := range ppl {
		if ppl[i].LineFormat == nil {
			continue
		}
		t := unq(&ppl[i].LineFormat.Val)
		locs := tplField.FindAllStringSubmatchIndex(t, -1)
		for j := i + 1; j < len(ppl); j++ {
			if ppl[j].LineFormat != nil {
				break
			}
			if lf := ppl[j].LineFilter; lf != nil && (lf.Fn == "|=" || lf.Fn == "!=") {
				v := unq(&lf.Val)
				for k, loc := range locs {
					name := t[loc[2]:loc[3]]
					pre, post := t[:loc[0]], t[loc[1]:]
					if k > 0 {
						pre = t[locs[k-1][1]:loc[0]]
					}
					if k+1 < len(locs) {
						post = t[loc[1]:locs[k+1][0]]
					}
					w := v
					for n := len(w); n > 0; n-- { // the longest beginning of v that ends `pre`
						if strings.HasSuffix(pre, w[:n]) {
							w = w[n:]
							break
						}
					}
					for n := 0; n < len(w); n++ { // the longest end of v that begins `post`
						if strings.HasPrefix(post, w[n:]) {
							w = w[:n]
							break
						}
					}
					qi.labelVals[name] = append(qi.labelVals[name], w, w)
					qi.cons = append(qi.cons, constraint{name, map[string]string{"|=": "=", "!=": "!="}[lf.Fn], w, false})
				}
			}
			if ps := ppl[j].Parser; ps != nil && ps.Fn == "json" {
				for _, m := range tplJSONMember.FindAllStringSubmatch(t, -1) {
					for _, pp := range ps.ParserParams {
						if pp.Label == nil || unq(&pp.Val) != m[1] {
							continue
						}
						qi.labelVals[m[2]] = append(qi.labelVals[m[2]], qi.labelVals[pp.Label.Name]...)
						for _, c := range qi.cons {
							if c.name == pp.Label.Name {
								c.name = m[2]
								qi.cons = append(qi.cons, c)
							}
						}
					}
				}
			}
		}
	}
}

// reach: every line and every label value a sample can show to a later stage. The stages that change the line or the labels
// are replayed over the stored line and the stream's labels (json: jsonGet, a found value is written; regexp: the named
// groups of the first match, non-empty ones are written; drop; line_format: the REAL text/template over the label map);
// filters are not replayed - a filter only removes lines, so what is collected is a superset of what any stage meets. Used
// only to decide which rows the oracle tables (regexp.MatchString, ParseFloat, jsonGet, capture groups) need for a query with
// a line_format: the formatted lines are no stored lines. The reference answer itself is computed in Coq (run_lstages).
func reach(qi *qinfo, db DB) (lines []string, vals []string) {
	labelsOf := map[int64][][2]string{}
	for _, s := range db.Series {
		if _, ok := labelsOf[s.Fp]; !ok {
			labelsOf[s.Fp] = s.Labels
		}
	}
	for _, x := range db.Samples {
		line := x.Line
		ls := map[string]string{}
		for _, kv := range labelsOf[x.Fp] {
			ls[kv[0]] = kv[1]
		}
		for _, st := range qi.prog {
			switch st.kind {
			case "json":
				for _, jp := range st.jps {
					if v := jsonGet(line, jp.path); v != "" {
						ls[jp.label] = v
						vals = append(vals, v)
					}
				}
			case "regexp":
				for _, p := range []string{st.rp.sent, st.rp.naive} {
					re, err := regexp.Compile(p)
					if err != nil {
						continue
					}
					for k, v := range pairUp(st.rp.names, lastGroups(re, line)) {
						ls[k] = v
						vals = append(vals, v)
					}
					break
				}
			case "drop":
				for _, d := range st.drop {
					if v, ok := ls[d[0]]; ok && (d[1] == "" || d[1] == v) {
						delete(ls, d[0])
					}
				}
			case "line_format":
				// missingkey=zero: a label the stream lacks prints "" (what Loki and the in-process engine of /repo do -
				// internal_planner/planner_line_format.go - and what labels['x'] gives in ClickHouse); the default of
				// text/template would print "<no value>"
				tpl, err := template.New("t").Option("missingkey=zero").Parse(st.tmpl)
				if err != nil {
					continue
				}
				var b bytes.Buffer
				if err := tpl.Execute(&b, ls); err != nil {
					continue
				}
				line = b.String()
				lines = append(lines, line)
			}
		}
	}
	return lines, vals
}

// ---------------------------------------------------------------- databases

// The values are cut by CHARACTER, not by byte: cutting one byte out of a multi-byte character (v[1:] of "é") makes a value
// that is not UTF-8, which (a) the JSON lines this harness prints cannot carry (encoding/json writes U+FFFD, so the database
// of a replay would not be the database that was evaluated) and (b) made two different label sets - level="\xc3" and
// level="\xa9" - share one fingerprint while genDB keyed its fingerprint table by the JSON text (thorough tier, seed 20260930:
// {status="ab.c",level!="é"}, db#5 violated db_ok). A query string that is itself not UTF-8 keeps its byte-wise variants.
func nearMiss(v string) []string {
	res := []string{v, v + "x", "x" + v, strings.ToUpper(v)}
	if len(v) > 0 {
		_, first := utf8.DecodeRuneInString(v)
		_, last := utf8.DecodeLastRuneInString(v)
		res = append(res, v[:len(v)-last], v[first:])
		// the characters LIKE and regular expressions treat specially, replaced by an ordinary one
		for _, c := range []string{"%", "_", ".", "\\", "'", "*"} {
			if strings.Contains(v, c) {
				res = append(res, strings.ReplaceAll(v, c, "z"), strings.ReplaceAll(v, c, ""))
			}
		}
	}
	return res
}

func labelsKey(ls [][2]string) string {
	var b strings.Builder
	for _, kv := range ls {
		fmt.Fprintf(&b, "%d:%s=%d:%s;", len(kv[0]), kv[0], len(kv[1]), kv[1])
	}
	return b.String()
}

func fromDay(fromNs int64) int64 {
	x := fromNs - 1800*1000000000
	d := x / (86400 * 1000000000)
	if x%(86400*1000000000) < 0 {
		d--
	}
	return d
}

// extraTss: further timestamps genDB draws from (set by enrich for a re-execution case: instants of the window the plan was
// first processed with)
var extraTss []int64

func genDB(r *rand.Rand, qi *qinfo, c Ctx) DB {
	names := append([]string{}, qi.labels...)
	names = append(names, "zz")
	valsFor := func(name string) []string {
		vs := []string{"b", "1", "1.5", "200", "0.00000005", "abc", ""}
		for _, v := range qi.labelVals[name] {
			vs = append(vs, nearMiss(v)...)
			vs = append(vs, v, v, v) // the exact value is the most likely one
		}
		return vs
	}
	day := fromDay(c.FromNs)
	qtype := int64(c.Type)
	if qtype == 0 {
		qtype = 1
	}
	var db DB
	nser := 1 + r.Intn(3)
	type key string
	fpOf := map[key]int64{}
	for i := 0; i < nser; i++ {
		var ls [][2]string
		good := r.Intn(10) < 6 // a series meant to be selected: the query's own values, every label present
		for _, n := range names {
			if (good && r.Intn(20) < 19) || (!good && r.Intn(10) < 6) {
				v := pick(r, valsFor(n))
				if good { // look for a value that satisfies every comparison the query makes on this label
					cands := valsFor(n)
					best, bestN := v, -1
					for try := 0; try < 24; try++ {
						w := cands[r.Intn(len(cands))]
						k := 0
						for _, c := range qi.cons {
							if c.name == n && c.holds(w) {
								k++
							}
						}
						if k > bestN {
							best, bestN = w, k
						}
					}
					v = best
				}
				if v == "" && r.Intn(2) == 0 {
					continue // absent rather than empty
				}
				ls = append(ls, [2]string{n, v})
			}
		}
		// one fingerprint per label set, keyed by the exact BYTES of the pairs (not by their JSON text: encoding/json maps
		// every byte sequence that is not UTF-8 to U+FFFD, so different label sets would share a fingerprint)
		kb := labelsKey(ls)
		fp, ok := fpOf[key(kb)]
		if !ok {
			fp = int64(len(fpOf) + 1)
			fpOf[key(kb)] = fp
		}
		tp := []int64{qtype, qtype, qtype, 0, 3 - qtype}[r.Intn(5)]
		d := day + int64([]int{0, 0, 0, 1, 2}[r.Intn(5)])
		if c.TZ != "" && d > day+1 {
			// a case that runs under a process zone: more streams indexed ONLY on the first day the reader looks at (a day
			// bound printed in a zone east of UTC is already the next day there: seeded C07-f)
			d = day
		}
		db.Series = append(db.Series, Series{Day: d, Fp: fp, Labels: ls, Type: tp})
		if r.Intn(4) == 0 { // the same series written again on another day / with another type
			db.Series = append(db.Series, Series{Day: day - int64(r.Intn(3)), Fp: fp, Labels: ls, Type: []int64{qtype, 0, 3 - qtype}[r.Intn(3)]})
		}
	}
	lines := []string{"", "hello", "x"}
	for _, v := range qi.lineVals {
		for _, m := range nearMiss(v) {
			lines = append(lines, m, "pre "+m+" post")
		}
		lines = append(lines, v, "pre "+v+" post")
	}
	if len(qi.jparams) > 0 { // JSON documents carrying (or lacking) the extracted paths
		plain := append([]string{}, lines...)
		var docs []string
		for k := 0; k < 6; k++ {
			doc := map[string]interface{}{"msg": pick(r, plain)}
			seenLabel := map[string]bool{}
			for _, jp := range qi.jparams {
				if r.Intn(10) < 2 {
					continue // the path is missing
				}
				// a later parameter of a label already extracted: prefer a value that decides the comparisons on the
				// label the other way (a filter written between the two stages must see the first value)
				flip := seenLabel[jp.label] && r.Intn(4) != 0
				seenLabel[jp.label] = true
				cands := valsFor(jp.label)
				best, bestN := cands[r.Intn(len(cands))], -1
				for try := 0; try < 16; try++ {
					w := cands[r.Intn(len(cands))]
					n := 0
					for _, cn := range qi.cons {
						if cn.name == jp.label && cn.holds(w) != flip {
							n++
						}
					}
					if n > bestN {
						best, bestN = w, n
					}
				}
				var v interface{} = best
				if f, err := strconv.ParseFloat(best, 64); err == nil && r.Intn(3) == 0 && !math.IsNaN(f) && !math.IsInf(f, 0) {
					v = json.Number(best) // a JSON number: extracted as raw text
				} else if r.Intn(12) == 0 {
					v = map[string]interface{}{"nested": best}
				}
				pth := jp.path
				if r.Intn(8) == 0 {
					// an object member named like the index where the path expects an array item: a key is not an index
					pth = append([]string{}, jp.path...)
					for i := range pth {
						if n, ok := idxPart(pth[i]); ok {
							pth[i] = strconv.Itoa(n)
						}
					}
				}
				setPath(doc, pth, v)
			}
			b, err := json.Marshal(doc)
			if err == nil && json.Valid(b) {
				docs = append(docs, string(b))
			}
		}
		docs = append(docs, "{not json", `{"msg":"x"}`)
		lines = append(docs, docs...)
		lines = append(lines, plain[r.Intn(len(plain))])
	}
	if len(qi.rparams) > 0 { // lines the expressions match, capturing texts the later filters accept / nearly accept
		var rl []string
		for _, rp := range qi.rparams {
			t := reTmplOf(rp.src)
			if t == nil {
				continue
			}
			for k := 0; k < 5; k++ {
				vals := map[string]string{}
				for _, n := range t.names {
					cre, ok := t.class[n]
					if !ok {
						continue
					}
					cls := regexp.MustCompile(cre)
					var cands []string
					for _, w := range valsFor(n) {
						if cls.MatchString(w) {
							cands = append(cands, w)
						}
					}
					for _, w := range []string{"error", "info", "200", "404", "7", "zabc", "z", "aa", "a", "it's", "api", ""} {
						if cls.MatchString(w) {
							cands = append(cands, w)
						}
					}
					if len(cands) == 0 {
						cands = []string{"x"}
					}
					flip := r.Intn(3) == 0
					best, bestN := cands[r.Intn(len(cands))], -1
					for try := 0; try < 12; try++ {
						w := cands[r.Intn(len(cands))]
						k := 0
						for _, cn := range qi.cons {
							if cn.name == n && cn.holds(w) != flip {
								k++
							}
						}
						if k > bestN {
							best, bestN = w, k
						}
					}
					vals[n] = best
				}
				rl = append(rl, t.build(vals))
			}
		}
		if len(rl) > 0 {
			two := rl[r.Intn(len(rl))] + " " + rl[r.Intn(len(rl))] // two matches in one line: the FIRST one is extracted
			for _, l := range rl {
				lines = append(lines, l, l)
			}
			lines = append(lines, two, two, "pre "+rl[0]+" post")
		}
	}
	span := c.ToNs - c.FromNs
	tss := []int64{c.FromNs - 1, c.FromNs, c.FromNs + 1, c.FromNs + span/2, c.ToNs - 1, c.ToNs, c.ToNs + 1, c.FromNs + span/2, c.FromNs + span/3}
	nsam := 1 + r.Intn(4)
	if len(extraTss) > 0 {
		tss = append(tss, extraTss...)
		nsam++
	}
	for i := 0; i < nsam; i++ {
		s := db.Series[r.Intn(len(db.Series))]
		// db_ok: a sample has the type of a series row of its fingerprint that the reader still looks at
		var cands []Series
		for _, t := range db.Series {
			if t.Fp == s.Fp && t.Day >= day {
				cands = append(cands, t)
			}
		}
		if len(cands) == 0 {
			continue
		}
		t := cands[r.Intn(len(cands))]
		db.Samples = append(db.Samples, Sample{Fp: t.Fp, Ts: tss[r.Intn(len(tss))], Line: pick(r, lines), Type: t.Type})
	}
	return db
}

// idxPart: an [n] part of a path as the harness carries it (byte 0 + the digits of the 1-based index)
func idxPart(k string) (int, bool) {
	if len(k) > 1 && k[0] == 0 && k[1] != 0 {
		n, err := strconv.Atoi(k[1:])
		return n, err == nil
	}
	return 0, false
}

// keyPart: the object key a key part stands for (a key that begins with the byte 0 is carried with that byte doubled)
func keyPart(k string) string {
	if len(k) > 1 && k[0] == 0 && k[1] == 0 {
		return k[1:]
	}
	return k
}

// setPath writes v at the nested path: a key part makes / enters an object, an index part an array (padded)
func setPathV(cur interface{}, path []string, v interface{}) interface{} {
	if len(path) == 0 {
		return v
	}
	if n, ok := idxPart(path[0]); ok {
		arr, _ := cur.([]interface{})
		for len(arr) < n {
			arr = append(arr, "pad")
		}
		if n >= 1 {
			arr[n-1] = setPathV(arr[n-1], path[1:], v)
		}
		return arr
	}
	m, ok := cur.(map[string]interface{})
	if !ok {
		m = map[string]interface{}{}
	}
	m[keyPart(path[0])] = setPathV(m[keyPart(path[0])], path[1:], v)
	return m
}

func setPath(doc map[string]interface{}, path []string, v interface{}) {
	setPathV(doc, path, v)
}

// jsonGet is the oracle for if(JSONType(doc, path...) == 'String', JSONExtractString(doc, path...),
// JSONExtractRaw(doc, path...)): a string path element is an object key, a number (an [n] part) the n-th item of an
// array counted from 1; a string value is
// returned unquoted, any other value as its text, nothing (”) when the document is not JSON or the path is
// missing. (The trusted reading of those ClickHouse functions for the failing-input search.)
func jsonGet(line string, path []string) string {
	var cur json.RawMessage = json.RawMessage(line)
	if !json.Valid(cur) {
		return ""
	}
	for _, k := range path {
		if n, ok := idxPart(k); ok {
			// an integer argument: the n-th item of an array, counted from 1; anything else has no such item
			var arr []json.RawMessage
			if err := json.Unmarshal(cur, &arr); err != nil || n < 1 || n > len(arr) {
				return ""
			}
			cur = arr[n-1]
			continue
		}
		k = keyPart(k)
		var obj map[string]json.RawMessage
		if err := json.Unmarshal(cur, &obj); err != nil {
			return ""
		}
		next, ok := obj[k]
		if !ok {
			return ""
		}
		cur = next
	}
	var s string
	if err := json.Unmarshal(cur, &s); err == nil && len(cur) > 0 && cur[0] == '"' {
		return s
	}
	if string(cur) == "null" {
		return ""
	}
	return string(cur)
}

// allLines: the distinct lines the stages of the query can meet over these databases - the stored lines in database order
// and, for a query with a line_format, the formatted lines (reach)
func allLines(qi *qinfo, dbs []DB) []string {
	seen := map[string]bool{}
	var res []string
	for _, db := range dbs {
		for _, x := range db.Samples {
			if !seen[x.Line] {
				seen[x.Line] = true
				res = append(res, x.Line)
			}
		}
	}
	if len(qi.lfmts) > 0 {
		for _, db := range dbs {
			ls, _ := reach(qi, db)
			for _, l := range ls {
				if !seen[l] {
					seen[l] = true
					res = append(res, l)
				}
			}
		}
	}
	return res
}

func jgTable(qi *qinfo, dbs []DB) string {
	var res []string
	for _, line := range allLines(qi, dbs) {
		seenP := map[string]bool{}
		for _, jp := range qi.jparams {
			key := strings.Join(jp.path, "\x00")
			if seenP[key] {
				continue
			}
			seenP[key] = true
			var ps []string
			for _, p := range jp.path {
				ps = append(ps, y.Str(p))
			}
			res = append(res, y.Pair(y.Pair(y.Str(line), y.List(ps)), y.Str(jsonGet(line, jp.path))))
		}
	}
	return y.List(res)
}

// the capture groups of the FIRST match of the expression in the line (empty for a group that took no part / no match):
// arrayMap(x -> x[1], extractAllGroupsHorizontal(line, pattern)). Rows exist only for an expression that RE2
// accepts and that has a capture group (otherwise ClickHouse raises an exception).
func rgPatterns(qi *qinfo) []string {
	seen := map[string]bool{}
	var ps []string
	for _, rp := range qi.rparams {
		for _, p := range []string{rp.sent, rp.naive} {
			if !seen[p] {
				seen[p] = true
				ps = append(ps, p)
			}
		}
	}
	return ps
}

func rgTable(qi *qinfo, dbs []DB) string {
	var res []string
	for _, p := range rgPatterns(qi) {
		re, err := regexp.Compile(p)
		if err != nil || re.NumSubexp() == 0 {
			continue
		}
		for _, line := range allLines(qi, dbs) {
			var vs []string
			for _, v := range lastGroups(re, line) {
				vs = append(vs, y.Str(v))
			}
			res = append(res, y.Pair(y.Pair(y.Str(p), y.Str(line)), y.List(vs)))
		}
	}
	return y.List(res)
}

// ---------------------------------------------------------------- OCaml terms

var y = coqx.ML

func dbML(db DB) string {
	var gin, ser, sam []string
	for _, s := range db.Series {
		var ls []string
		for _, kv := range s.Labels {
			ls = append(ls, y.Pair(y.Str(kv[0]), y.Str(kv[1])))
			gin = append(gin, y.Rec("g_day", y.Z(s.Day), "g_key", y.Str(kv[0]), "g_val", y.Str(kv[1]), "g_fp", y.Z(s.Fp), "g_type", y.Z(s.Type)))
		}
		ser = append(ser, y.Rec("ts_day", y.Z(s.Day), "ts_fp", y.Z(s.Fp), "ts_labels", y.List(ls), "ts_type", y.Z(s.Type)))
	}
	for _, x := range db.Samples {
		sam = append(sam, y.Rec("x_fp", y.Z(x.Fp), "x_ts", y.Z(x.Ts), "x_line", y.Str(x.Line), "x_type", y.Z(x.Type)))
	}
	return y.Rec("d_gin", y.List(gin), "d_series", y.List(ser), "d_samples", y.List(sam))
}

// oracles: regexp for (subject, pattern); ParseFloat as ranks
func oracles(qi *qinfo, dbs []DB) (reML, pfML string, err error) {
	subj := map[string]bool{"": true}
	for _, db := range dbs {
		for _, s := range db.Series {
			for _, kv := range s.Labels {
				subj[kv[1]] = true
			}
		}
		for _, x := range db.Samples {
			subj[x.Line] = true
			for _, jp := range qi.jparams { // extracted values become label values
				subj[jsonGet(x.Line, jp.path)] = true
			}
			for _, p := range rgPatterns(qi) {
				if re, err := regexp.Compile(p); err == nil {
					for _, v := range lastGroups(re, x.Line) {
						subj[v] = true
					}
				}
			}
		}
		if len(qi.lfmts) > 0 { // formatted lines, and what json / regexp stages extract from them
			ls, vs := reach(qi, db)
			for _, l := range ls {
				subj[l] = true
				for _, jp := range qi.jparams {
					subj[jsonGet(l, jp.path)] = true
				}
				for _, p := range rgPatterns(qi) {
					if re, err := regexp.Compile(p); err == nil {
						for _, v := range lastGroups(re, l) {
							subj[v] = true
						}
					}
				}
			}
			for _, v := range vs {
				subj[v] = true
			}
		}
	}
	var subjects []string
	for s := range subj {
		subjects = append(subjects, s)
	}
	sort.Strings(subjects)
	var res []string
	seenP := map[string]bool{}
	for _, p := range qi.patterns {
		if seenP[p] {
			continue
		}
		seenP[p] = true
		re, e := regexp.Compile(p)
		if e != nil {
			return "", "", fmt.Errorf("pattern %q: %v", p, e)
		}
		for _, s := range subjects {
			res = append(res, y.Pair(y.Pair(y.Str(s), y.Str(p)), y.Bool(re.MatchString(s))))
		}
	}
	// numbers
	texts := map[string]bool{}
	for _, s := range subjects {
		texts[s] = true
	}
	for _, n := range qi.nums {
		texts[n] = true
	}
	vals := map[string]float64{}
	var distinct []float64
	for t := range texts {
		f, e := strconv.ParseFloat(t, 64)
		if e != nil || math.IsNaN(f) || math.IsInf(f, 0) {
			continue
		}
		// only plain decimal spellings: the two parsers are assumed to agree on those
		plain := t != ""
		for i := 0; i < len(t); i++ {
			if !(t[i] >= '0' && t[i] <= '9') && t[i] != '.' && !(i == 0 && t[i] == '-') {
				plain = false
			}
		}
		if !plain {
			continue
		}
		vals[t] = f
		distinct = append(distinct, f)
	}
	sort.Float64s(distinct)
	rank := func(f float64) int64 {
		k := int64(0)
		last := math.Inf(-1)
		for _, d := range distinct {
			if d != last {
				k++
				last = d
			}
			if d == f {
				return k
			}
		}
		return 0
	}
	var pf []string
	var ts []string
	for t := range texts {
		ts = append(ts, t)
	}
	sort.Strings(ts)
	for _, t := range ts {
		if f, ok := vals[t]; ok {
			pf = append(pf, y.Pair(y.Str(t), y.Some(y.Rec("qnum", y.Z(rank(f)), "qden", "XH"))))
		} else {
			pf = append(pf, y.Pair(y.Str(t), y.None()))
		}
	}
	return y.List(res), y.List(pf), nil
}

// ---------------------------------------------------------------- SQL text -> tree

// splitPlus: top-level " + " separated parts of t (outside quotes and parentheses)
func splitPlus(t string) []string {
	var parts []string
	depth, last := 0, 0
	for i := 0; i < len(t); i++ {
		switch t[i] {
		case '\'':
			i++
			for i < len(t) && t[i] != '\'' {
				if t[i] == '\\' {
					i++
				}
				i++
			}
		case '(', '[':
			depth++
		case ')', ']':
			depth--
		case ' ':
			if depth == 0 && strings.HasPrefix(t[i:], " + ") {
				parts = append(parts, t[last:i])
				last = i + 3
				i += 2
			}
		}
	}
	return append(parts, t[last:])
}

// the parser keeps `bitShiftLeft(c0, 0) + bitShiftLeft(c1, 1)` and `<expr> IS NOT NULL` as raw leaves; give
// them structure (the model side re-validates the whole tree by rendering it)
func parseExpr(t string) *sqlparse.Node {
	sub, err := sqlparse.Parse(" SELECT " + t)
	if err != nil || len(sub.Sel.Cols) != 1 {
		return nil
	}
	return sub.Sel.Cols[0]
}

func fix(n *sqlparse.Node) *sqlparse.Node {
	if n == nil {
		return nil
	}
	if n.Kind == "raw" && strings.HasSuffix(n.S, " IS NOT NULL") {
		if x := parseExpr(strings.TrimSuffix(n.S, " IS NOT NULL")); x != nil {
			return &sqlparse.Node{Kind: "sep", S: "", Kids: []*sqlparse.Node{fix(x), {Kind: "raw", S: " IS NOT NULL"}}}
		}
	}
	if n.Kind == "fn" && n.S == "groupBitOr" && len(n.Kids) == 1 && n.Kids[0].Kind == "raw" {
		parts := splitPlus(n.Kids[0].S)
		if len(parts) > 1 {
			sep := &sqlparse.Node{Kind: "sep", S: " + "}
			ok := true
			for _, p := range parts {
				x := parseExpr(p)
				if x == nil {
					ok = false
					break
				}
				sep.Kids = append(sep.Kids, x)
			}
			if ok {
				n.Kids[0] = sep
			}
		}
	}
	for i, k := range n.Kids {
		n.Kids[i] = fix(k)
	}
	n.L = fix(n.L)
	if n.Sel != nil {
		fixSel(n.Sel)
	}
	return n
}
func fixList(l []*sqlparse.Node) {
	for i, c := range l {
		l[i] = fix(c)
	}
}
func fixSel(s *sqlparse.Select) {
	fixList(s.Cols)
	s.From, s.Where, s.Prewhere, s.Having, s.Limit, s.Offset = fix(s.From), fix(s.Where), fix(s.Prewhere), fix(s.Having), fix(s.Limit), fix(s.Offset)
	fixList(s.GroupBy)
	fixList(s.OrderBy)
	for _, w := range s.Withs {
		fixSel(w.Q)
	}
	for i := range s.Joins {
		s.Joins[i].Table = fix(s.Joins[i].Table)
		s.Joins[i].On = fix(s.Joins[i].On)
	}
	for _, u := range s.Unions {
		fixSel(u)
	}
}

// ---------------------------------------------------------------- main

func enrich(c *Case, seed int64, ndb int) {
	if c.Err != "" || len(c.SQL) == 0 || c.AstML == "" {
		c.Skip = "no sql (" + c.Err + ")"
		return
	}
	script, err := logql_parser.Parse(c.Query)
	if err != nil {
		c.Skip = "parse"
		return
	}
	var qi *qinfo
	if p := hx.Catch(func() { qi = info(script) }); p != "" || qi == nil {
		c.Skip = "outside the fragment"
		return
	}
	extraTss = nil
	if k := len(c.Rewin); k > 0 && c.FirstCtx == nil {
		if len(c.SQL) <= k || len(c.CtxMLRuns) < k {
			c.Skip = "re-execution: the planner harness returned no statement for the last window"
			return
		}
		first := c.Ctx
		c.FirstCtx, c.FirstSQL = &first, c.SQL[0]
		c.Ctx.FromNs, c.Ctx.ToNs = c.Rewin[k-1][0], c.Rewin[k-1][1]
		c.CtxML = c.CtxMLRuns[k-1]
		c.SQL = []string{c.SQL[k]}
		// lines of the FIRST window too: a statement that still scans it returns them, the reference for the last window does not
		fs := first.ToNs - first.FromNs
		extraTss = []int64{first.FromNs, first.FromNs + fs/2, first.ToNs - 1, first.FromNs + fs/3}
	}
	tree, err := sqlparse.Parse(c.SQL[0])
	if err != nil {
		c.Skip = "sqlparse: " + err.Error()
		return
	}
	tree = fix(tree)
	c.TreeML = tree.ML()
	r := hx.Rand(seed*1000003 + int64(c.ID))
	if len(c.Dbs) == 0 { // a corpus case brings its own databases
		for i := 0; i < ndb; i++ {
			c.Dbs = append(c.Dbs, genDB(r, qi, c.Ctx))
		}
	}
	c.ReML, c.PfML, err = oracles(qi, c.Dbs)
	if err != nil {
		c.Skip = "oracle: " + err.Error()
		c.Dbs = nil
		return
	}
	c.JgML = jgTable(qi, c.Dbs)
	c.RgML = rgTable(qi, c.Dbs)
	c.Stages = qi.stages
	var ds []string
	for _, d := range c.Dbs {
		ds = append(ds, dbML(d))
	}
	c.DbsML = y.List(ds)
}

type SelfTest struct {
	ID       int    `json:"id"`
	Query    string `json:"query"`
	Dbs      int    `json:"dbs"`
	NonASCII int    `json:"non_ascii_values"`
	Bad      string `json:"bad,omitempty"`
}

var nonASCIIQueries = []string{
	"{status=\"ab.c\",level!=\"é\"} |~ `api`",
	"{app=\"日本\",level=~\"é|É\"} |= \"é\"",
	"{level=\"naïve\"} | level!=\"Ünï\" | status=\"€\" | drop level=\"é\"",
	"{a=\"é\"} | json level=\"msg\" | level=\"日本\" | line_format \"{{.level}}→{{.a}}\" |= \"本→é\"",
}

func isASCII(s string) bool {
	for i := 0; i < len(s); i++ {
		if s[i] >= 128 {
			return false
		}
	}
	return true
}

// dbProblem: what db_ok (model/LogqlSem.v) asks of a database, checked on the Go side byte by byte
func dbProblem(db DB, c Ctx) string {
	byFp := map[int64]string{}
	for _, s := range db.Series {
		k := labelsKey(s.Labels)
		if old, ok := byFp[s.Fp]; ok && old != k {
			return fmt.Sprintf("fingerprint %d has two label sets: %q and %q", s.Fp, old, k)
		}
		byFp[s.Fp] = k
		seen := map[string]bool{}
		for _, kv := range s.Labels {
			if seen[kv[0]] {
				return fmt.Sprintf("label %q twice in one series", kv[0])
			}
			seen[kv[0]] = true
			if !utf8.ValidString(kv[0]) || !utf8.ValidString(kv[1]) {
				return fmt.Sprintf("label %q=%q is not UTF-8 (the JSON line cannot carry it)", kv[0], kv[1])
			}
		}
	}
	day := fromDay(c.FromNs)
	for _, x := range db.Samples {
		ok := false
		for _, s := range db.Series {
			if s.Fp == x.Fp && s.Type == x.Type && s.Day >= day {
				ok = true
			}
		}
		if !ok {
			return fmt.Sprintf("sample of fingerprint %d type %d has no series row", x.Fp, x.Type)
		}
		if !utf8.ValidString(x.Line) {
			return fmt.Sprintf("line %q is not UTF-8", x.Line)
		}
	}
	return ""
}

// processZones: the zones of the class process-zone with their offsets in the generated period (December 2023: no zone
// below changes its offset there; the harness that plans the statement loads the zone by NAME, as TZ= does)
var processZones = []struct {
	name string
	off  int
}{{"Asia/Tokyo", 9 * 3600}, {"Asia/Tokyo", 9 * 3600}, {"Pacific/Kiritimati", 14 * 3600}, {"Australia/Sydney", 11 * 3600},
	{"Europe/Berlin", 3600}, {"Asia/Kolkata", 19800}, {"America/New_York", -5 * 3600}, {"Pacific/Pago_Pago", -11 * 3600}, {"UTC", 0}}

var mode = flag.String("mode", "gen", "gen | enrich | regroups | dbselftest")
var ndb = flag.Int("dbs", 6, "databases per case (enrich)")

// ---------------------------------------------------------------- regexp stage: capture groups and label names

type ReCase struct {
	ID        int               `json:"id"`
	Class     string            `json:"class"`
	Query     string            `json:"query"`
	Re        string            `json:"re"`
	Stripped  string            `json:"stripped"`
	ImplNames []string          `json:"impl_names"`
	RefNames  []string          `json:"ref_names"`
	Line      string            `json:"line"`
	Want      map[string]string `json:"want"`
	Got       map[string]string `json:"got"`
	Ok        bool              `json:"ok"`
	Why       string            `json:"why,omitempty"`
	// what the planner's grammar makes of the expression (compared with the Coq transcription model/LogqlRegexp.v re_plan)
	GoOk bool `json:"go_ok"`
}

var reAtoms = []string{`\w+`, `\d+`, `[a-z]+`, `[A-Z]+`, `=`, ` `, `x`, `\.`, `\S+`, `:`, `(?:x|=)`, `(?i)`, `(?:\d+ )`}
var reLines = []string{"a=1", "b=a x=2", "client 10.0.0.2 POST /", "k1=v1 k2=v2", "abc 123", "GET /x 200", "a:b c:d", "x.y=3", ""}

// genRe builds an expression; nested says whether a NAMED group contains another capture group
func genRe(r *rand.Rand, depth int, names *[]string, nested *bool, insideNamed bool) string {
	n := 1 + r.Intn(3)
	res := ""
	for i := 0; i < n; i++ {
		switch k := r.Intn(6); {
		case k < 3 || depth >= 3:
			res += pick(r, reAtoms)
		case k < 5:
			name := fmt.Sprintf("%s%d", pick(r, []string{"k", "v", "kv", "ip", "verb", "n"}), len(*names))
			*names = append(*names, name)
			if insideNamed {
				*nested = true
			}
			res += "(?P<" + name + ">" + genRe(r, depth+1, names, nested, true) + ")"
		default:
			if insideNamed {
				*nested = true
			}
			res += "(" + genRe(r, depth+1, names, nested, insideNamed) + ")"
		}
	}
	return res
}

// the capture groups of the FIRST match (x[1] over extractAllGroupsHorizontal since the repair regexp-last-match; it was the last)
func lastGroups(re *regexp.Regexp, line string) []string {
	vals := make([]string, re.NumSubexp())
	if m := re.FindStringSubmatch(line); m != nil {
		copy(vals, m[1:])
	}
	return vals
}
func pairUp(names, vals []string) map[string]string {
	res := map[string]string{}
	for i := range names {
		if i < len(vals) && names[i] != "" && vals[i] != "" {
			res[names[i]] = vals[i]
		}
	}
	return res
}

func regroupCase(r *rand.Rand, id int) ReCase {
	var names []string
	nested := false
	re := genRe(r, 0, &names, &nested, false)
	if len(names) == 0 {
		re += "(?P<k0>" + pick(r, reAtoms) + ")"
	}
	malformed := id%5 == 4
	if malformed { // damage the expression: the grammar's error paths (compared with the Coq transcription only)
		k := r.Intn(len(re))
		switch r.Intn(3) {
		case 0:
			re = re[:k] + re[k+1:]
		case 1:
			re = re[:k] + pick(r, []string{"(", ")", "?", "P", "<", ">", "\\", "(?P<", "(?P<a>)", "(?:", "\n"}) + re[k:]
		default:
			re = re[:k]
		}
	}
	c := ReCase{ID: id, Re: re, Class: "flat", Line: pick(r, reLines)}
	if nested {
		c.Class = "nested-in-named"
	}
	c.Query = `{a="b"} | regexp ` + strconv.Quote(re)
	var stripped string
	var implNames []string
	var perr error
	pn := hx.Catch(func() { stripped, implNames, perr = clickhouse_planner.VerifParseRe(re) })
	c.GoOk = pn == "" && perr == nil
	if c.GoOk {
		c.Stripped, c.ImplNames = stripped, implNames
	}
	if malformed {
		c.Class, c.Ok = "malformed", true
		return c
	}
	orig, err := regexp.Compile(re)
	if err != nil {
		c.Ok, c.Why = true, "not an RE2 expression: "+err.Error()
		c.Class = "invalid"
		return c
	}
	c.RefNames = orig.SubexpNames()[1:]
	if !c.GoOk {
		c.Why = "the planner's expression parser rejects a valid expression: " + fmt.Sprint(perr, pn)
		return c
	}
	sre, err := regexp.Compile(stripped)
	if err != nil {
		c.Why = "the expression the planner sends is not valid: " + err.Error()
		return c
	}
	if sre.NumSubexp() != orig.NumSubexp() {
		c.Why = fmt.Sprintf("the expression the planner sends has %d groups, the query's %d", sre.NumSubexp(), orig.NumSubexp())
		return c
	}
	// a line the expression matches, when one of the stock lines does
	for try := 0; try < len(reLines); try++ {
		if orig.MatchString(c.Line) {
			break
		}
		c.Line = reLines[(try+id)%len(reLines)]
	}
	c.Want = pairUp(c.RefNames, lastGroups(orig, c.Line))
	c.Got = pairUp(c.ImplNames, lastGroups(sre, c.Line))
	wb, _ := json.Marshal(c.Want)
	gb, _ := json.Marshal(c.Got)
	nb, _ := json.Marshal(c.RefNames)
	ib, _ := json.Marshal(c.ImplNames)
	c.Ok = string(wb) == string(gb) && string(nb) == string(ib)
	if !c.Ok {
		c.Why = "label names are not paired with the capture groups in opening-parenthesis order"
	}
	return c
}

func main() {
	f := hx.ParseFlags()
	out := hx.OpenOut(f.Out)
	defer out.Close()
	switch *mode {
	case "gen":
		r := hx.Rand(f.Seed)
		put := func(r *rand.Rand, i int, q string, class []string) {
			from := int64(1700000000)*1e9 + int64(r.Intn(4*86400))*1e9
			if r.Intn(6) == 0 { // windows next to midnight: the FormatFromDate margin
				from = (int64(19700+r.Intn(30))*86400 + int64(r.Intn(3600))) * 1e9
			}
			c := Case{ID: i, Query: q, Class: class, Runs: 1, Ctx: Ctx{
				FromNs: from, ToNs: from + int64(1+r.Intn(7200))*1e9,
				Limit: []int64{0, 0, 1, 2, 3, 100}[r.Intn(6)], Asc: r.Intn(2) == 0, Cluster: r.Intn(4) == 0,
				Type: []uint8{0, 1, 1, 2}[r.Intn(4)], Finalize: r.Intn(6) != 0, StepMs: 1000,
			}}
			// one case in five is planned under a process zone (a choice that draws nothing from r: the cases do not move)
			if rz := hx.Rand(f.Seed*65537 + int64(i)*31 + 7); rz.Intn(5) == 0 {
				c.Ctx.TZ = processZones[rz.Intn(len(processZones))].name
			}
			out.Put(c)
		}
		for i := 0; i < f.N; i++ {
			q, class := genQuery(r)
			put(r, i, q, class)
		}
		// one more class from a stream of its own (the cases above do not move): label filters against the empty string
		r2 := hx.Rand(f.Seed*7919 + 17)
		for i := 0; i < f.N/13+4; i++ {
			q, class := genEmptyLabelFilter(r2)
			put(r2, f.N+i, q, class)
		}
		// line_format pipelines, likewise from a stream of their own
		r3 := hx.Rand(f.Seed*104729 + 5)
		for i := 0; i < f.N/8+6; i++ {
			q, class := genLineFormat(r3)
			put(r3, 2*f.N+i, q, class)
		}
		// process zones (round 6), again from a stream of their own: queries of every class planned by a reader whose
		// process zone is not UTC, with a window that starts on the side of the UTC midnight where the calendar day of
		// that zone (30 minutes before the start: the margin of FormatFromDate) is not the UTC day the writer dated the
		// index rows by - a quarter exactly on the edge (local time 00:30, one nanosecond before / after), a few in UTC.
		r4 := hx.Rand(f.Seed*15485863 + 11)
		for i := 0; i < f.N/6+6; i++ {
			var q string
			var class []string
			switch r4.Intn(5) {
			case 0:
				q, class = genLineFormat(r4)
			case 1:
				q, class = genEmptyLabelFilter(r4)
			default:
				q, class = genQuery(r4)
			}
			z := processZones[r4.Intn(len(processZones))]
			day := int64(19700 + r4.Intn(30))
			off := int64(z.off)
			edge := ((1800-off)%86400 + 86400) % 86400 // the UTC time of day at which (start - 30 min) enters the next local day
			var tod int64
			switch k := r4.Intn(4); {
			case k == 0:
				tod = edge*1e9 + int64(r4.Intn(3)-1)
			case off > 0:
				tod = (edge+int64(r4.Intn(int(86400-edge))))*1e9 + int64(r4.Intn(2))*int64(r4.Intn(1e9))
			case off < 0:
				tod = (1800+int64(r4.Intn(int(edge-1800))))*1e9 + int64(r4.Intn(2))*int64(r4.Intn(1e9))
			default:
				tod = int64(r4.Intn(86400)) * 1e9
			}
			from := day*86400*1e9 + tod
			out.Put(Case{ID: 3*f.N + i, Query: q, Class: append(class, "process-zone"), Runs: 1, Ctx: Ctx{
				FromNs: from, ToNs: from + int64(1+r4.Intn(7200))*1e9,
				Limit: []int64{0, 0, 1, 2, 100}[r4.Intn(5)], Asc: r4.Intn(2) == 0, Cluster: r4.Intn(4) == 0,
				Type: []uint8{0, 1, 1, 2}[r4.Intn(4)], Finalize: r4.Intn(6) != 0, StepMs: 1000, TZ: z.name,
			}})
		}
		// re-execution (round 7, seeded C07-g), from a stream of its own: ONE plan object processed twice (rarely three times)
		// with different windows, as QueryRangeService.Tail does every second (from = last delivered timestamp + 1, to = now);
		// the LAST statement is judged against the LAST window. Half of the queries carry a label filter behind a json / regexp /
		// drop stage (LabelFilterPlanner in the samples pipeline), the rest are queries of every class. Windows: the next one
		// starts inside the previous one and ends later (tail), or starts where it ended, or lies before it.
		r5 := hx.Rand(f.Seed*32452843 + 13)
		for i := 0; i < f.N/6+6; i++ {
			var q string
			var class []string
			switch r5.Intn(6) {
			case 0:
				q, class = genLineFormat(r5)
			case 1:
				q, class = genQuery(r5)
			case 2:
				q, class = genParserQuery(r5)
			default:
				q, class = genFilterBehindRelabel(r5)
			}
			from := int64(1700000000)*1e9 + int64(r5.Intn(4*86400))*1e9 + int64(r5.Intn(2))*int64(r5.Intn(1e9))
			span := int64(1+r5.Intn(3600)) * 1e9
			c := Case{ID: 4*f.N + i, Query: q, Class: append(class, "re-execution"), Ctx: Ctx{
				FromNs: from, ToNs: from + span,
				Limit: []int64{0, 0, 1, 2, 100}[r5.Intn(5)], Asc: r5.Intn(2) == 0, Cluster: r5.Intn(4) == 0,
				Type: []uint8{0, 1, 1, 2}[r5.Intn(4)], Finalize: r5.Intn(6) != 0, StepMs: 1000,
			}}
			nwin := 1
			if r5.Intn(5) == 0 {
				nwin = 2
			}
			pf, pt := c.Ctx.FromNs, c.Ctx.ToNs
			for k := 0; k < nwin; k++ {
				var nf, nt int64
				sh := r5.Intn(6)
				switch sh {
				case 0: // the next window starts where the previous one ended
					nf, nt = pt, pt+int64(1+r5.Intn(3600))*1e9
				case 1, 2: // a window before the previous one
					if k == 0 && sh == 2 {
						// ... across a day bound of the series-index reads: the first window starts shortly after 00:30 UTC (its
						// date bound is that day), the next one ends where it starts and begins before 00:30 (its bound is the day
						// before): a date bound kept from the first call loses the streams indexed on the earlier day only
						edge := (int64(19700+r5.Intn(30))*86400 + 1800) * 1e9
						pf = edge + int64(r5.Intn(1800))*1e9
						pt = pf + span
						c.Ctx.FromNs, c.Ctx.ToNs = pf, pt
						nf, nt = edge-int64(1+r5.Intn(1800))*1e9, pf
						break
					}
					nt = pf - int64(r5.Intn(2))*int64(r5.Intn(600))*1e9
					nf = nt - int64(1+r5.Intn(3600))*1e9
				default: // tail: from = a delivered timestamp + 1, to = now
					nf = pf + 1 + r5.Int63n(pt-pf)
					nt = pt + int64(1+r5.Intn(30))*1e9 + int64(r5.Intn(2))*int64(r5.Intn(1e9))
				}
				c.Rewin = append(c.Rewin, [2]int64{nf, nt})
				pf, pt = nf, nt
			}
			c.Runs = 1 + len(c.Rewin)
			out.Put(c)
		}
		// the configuration branch `if !ctx.CHFinalize { return req, nil }` of MainFinalizerPlanner (round 8), from a stream of its
		// own: queries of every class planned with Plan(script, true) under a context that does NOT set the flag; the statement
		// is the operand of the usual outermost select and must still return exactly the matching lines (top-L with a limit).
		r6 := hx.Rand(f.Seed*49979687 + 19)
		for i := 0; i < f.N/8+6; i++ {
			var q string
			var class []string
			switch r6.Intn(6) {
			case 0:
				q, class = genLineFormat(r6)
			case 1:
				q, class = genEmptyLabelFilter(r6)
			case 2:
				q, class = genParserQuery(r6)
			case 3:
				q, class = genFilterBehindRelabel(r6)
			default:
				q, class = genQuery(r6)
			}
			from := int64(1700000000)*1e9 + int64(r6.Intn(4*86400))*1e9
			if r6.Intn(6) == 0 {
				from = (int64(19700+r6.Intn(30))*86400 + int64(r6.Intn(3600))) * 1e9
			}
			out.Put(Case{ID: 5*f.N + i, Query: q, Class: append(class, "ch-finalize-off"), Runs: 1, Ctx: Ctx{
				FromNs: from, ToNs: from + int64(1+r6.Intn(7200))*1e9,
				Limit: []int64{0, 1, 1, 2, 3, 100}[r6.Intn(6)], Asc: r6.Intn(2) == 0, Cluster: r6.Intn(4) == 0,
				Type: []uint8{0, 1, 1, 2}[r6.Intn(4)], Finalize: true, StepMs: 1000, NoCHFinalize: true,
			}})
		}
	case "dbselftest":
		// the database builder on queries with non-ASCII values: every database has ONE label set per fingerprint (compared
		// byte by byte), label names are distinct, every string is UTF-8 (so the JSON line of a case or a replay carries
		// exactly the database the OCaml term carries), a sample has a series row of its type on a day the reader looks at.
		// Regression of the thorough-tier failure of round 4 (a near miss cut one BYTE of "é"; two label sets shared a
		// fingerprint because the table was keyed by their JSON text).
		r := hx.Rand(f.Seed)
		for i, q := range nonASCIIQueries {
			res := SelfTest{ID: i, Query: q}
			script, err := logql_parser.Parse(q)
			if err != nil {
				res.Bad = "parse: " + err.Error()
				out.Put(res)
				continue
			}
			qi := info(script)
			if qi == nil {
				res.Bad = "outside the fragment"
				out.Put(res)
				continue
			}
			from := int64(1700273076911556508)
			c := Ctx{FromNs: from, ToNs: from + 3914e9, Type: uint8(i % 3), Finalize: true, StepMs: 1000}
			for k := 0; k < f.N && res.Bad == ""; k++ {
				db := genDB(r, qi, c)
				res.Dbs++
				res.Bad = dbProblem(db, c)
				for _, s := range db.Series {
					for _, kv := range s.Labels {
						if !isASCII(kv[1]) {
							res.NonASCII++
						}
					}
				}
			}
			out.Put(res)
		}
	case "regroups":
		r := hx.Rand(f.Seed)
		for i := 0; i < f.N; i++ {
			out.Put(regroupCase(r, i))
		}
	case "enrich":
		hx.ReadLines(f.Cases, func(b []byte) {
			var c Case
			if err := json.Unmarshal(b, &c); err != nil {
				panic(err)
			}
			enrich(&c, f.Seed, *ndb)
			out.Put(c)
		})
	default:
		panic("unknown mode " + *mode)
	}
}
