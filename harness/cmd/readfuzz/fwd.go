package main

// Modelled stream 2: the row / batch forwarding endpoints (coq/model/ReadFwd.v): Loki and Prometheus labels, label
// values, series; Tempo tags, tag values (v1, v2), search by tags, TraceQL search. The abstract description goes to
// the Coq model, which predicts the outcome class AND the number of SQL statements issued (bootstrap excluded).

import (
	"encoding/hex"
	"encoding/json"
	"fmt"
	"math/rand"
)

type FwdModel struct {
	Ep        string   `json:"ep"`  // always "fwd"
	Fep       string   `json:"fep"` // loki_labels | loki_values | loki_series | prom_labels | prom_values | prom_series | tempo_tags | tempo_values | tempo_tags_v2 | tempo_values_v2 | tempo_search_tags | tempo_traceql
	Start     Param    `json:"start"`
	End       Param    `json:"end"`
	AuxBad    bool     `json:"aux_bad"`
	Sel       string   `json:"sel"`  // none | ok | bad
	Rows      []string `json:"rows"` // ok | bad | t:<ns>:<nd>:<nt>
	FailAfter int      `json:"fail_after"`
	QueryErr  bool     `json:"query_err"`
	Cx        []*int64 `json:"cx"` // rows of the complexity statement (null = a cell that does not convert)
	CxErr     bool     `json:"cx_err"`
	BootFail  bool     `json:"boot_fail"`
}

var fwdEps = []string{"loki_labels", "loki_values", "loki_series", "prom_labels", "prom_values", "prom_series",
	"tempo_tags", "tempo_values", "tempo_tags_v2", "tempo_values_v2", "tempo_search_tags", "tempo_traceql", "tempo_traceql", "tempo_traceql"}

// selections that parse (and plan) / that do not, per endpoint family
var selTexts = map[string][2][]string{
	"logql":   {{`{a="b"}`, `{a=~"b.*", c!="d"}`}, {`{a="b"`, `{`, `{a=}`}},
	"promql":  {{`up`, `{job="a"}`, `up{job=~"a.*"}`}, {`{`, `up{`, `sum(`}},
	"traceql": {{`{.service.name="a"}`, `{duration>1s}`, `{.a="b" && name="x"}`}, {`{`, `{.a=`, `{.a="b"} |`}},
	"tags":    {{`a=b`, `service.name=x name=y`}, {}},
}

func fwdCase(r *rand.Rand, id int) *Case {
	m := &FwdModel{Ep: "fwd", Fep: fwdEps[r.Intn(len(fwdEps))], FailAfter: -1, Sel: "none"}
	c := &Case{ID: id, Method: "GET"}
	add := func(k, v string) { c.Params = append(c.Params, KV{k, v}) }
	// ---- time parameters
	unit := "s"
	timed := true
	switch m.Fep {
	case "loki_labels", "loki_values", "loki_series":
		unit = "ns"
	case "tempo_tags", "tempo_values":
		timed = false
	}
	pick := func(def int64) Param {
		switch r.Intn(12) {
		case 0:
			return Param{K: "absent"}
		case 1:
			return Param{K: "bad"}
		case 2:
			return num(0)
		case 3:
			return num(-5)
		case 4:
			return num(4000000000)
		}
		return num(def + int64(r.Intn(100)))
	}
	m.Start, m.End = Param{K: "absent"}, Param{K: "absent"}
	if timed {
		m.Start, m.End = pick(baseSec), pick(baseSec+300)
		for _, pe := range []struct {
			k string
			p Param
		}{{"start", m.Start}, {"end", m.End}} {
			switch pe.p.K {
			case "bad":
				add(pe.k, badNums[r.Intn(len(badNums))])
			case "num":
				if unit == "ns" && pe.p.V != 0 {
					add(pe.k, fmt.Sprintf("%d000000000", pe.p.V))
				} else {
					add(pe.k, fmt.Sprint(pe.p.V))
				}
			}
		}
	}
	// ---- selection
	selKey, family := "", ""
	switch m.Fep {
	case "loki_values", "loki_series", "prom_series":
		selKey, family = "match[]", "logql"
	case "prom_values":
		selKey, family = "match[]", "promql"
	case "tempo_tags_v2", "tempo_values_v2", "tempo_traceql":
		selKey, family = "q", "traceql"
	case "tempo_search_tags":
		selKey, family = "tags", "tags"
	}
	if selKey != "" {
		k := r.Intn(10)
		if m.Fep == "tempo_traceql" && k < 2 {
			k = 5 // without q the request is a search by tags
		}
		switch {
		case k < 2:
			m.Sel = "none"
		case k == 2 && len(selTexts[family][1]) > 0:
			m.Sel = "bad"
			add(selKey, selTexts[family][1][r.Intn(len(selTexts[family][1]))])
		default:
			m.Sel = "ok"
			add(selKey, selTexts[family][0][r.Intn(len(selTexts[family][0]))])
		}
	}
	// ---- path
	switch m.Fep {
	case "loki_labels":
		c.Path = []string{"/loki/api/v1/label", "/loki/api/v1/labels"}[r.Intn(2)]
	case "loki_values":
		c.Path = "/loki/api/v1/label/a/values"
	case "loki_series":
		c.Path = "/loki/api/v1/series"
	case "prom_labels":
		c.Path = "/api/v1/labels"
	case "prom_values":
		c.Path = []string{"/api/v1/label/job/values", "/api/v1/label/__name__/values"}[r.Intn(2)]
	case "prom_series":
		c.Path = "/api/v1/series"
	case "tempo_tags":
		c.Path = []string{"/api/search/tags", "/tempo/api/search/tags"}[r.Intn(2)]
	case "tempo_values":
		c.Path = []string{"/api/search/tag/a/values", "/api/search/tag/span.a/values", "/tempo/api/search/tag/resource.service.name/values"}[r.Intn(3)]
	case "tempo_tags_v2":
		c.Path = "/api/v2/search/tags"
	case "tempo_values_v2":
		c.Path = "/api/v2/search/tag/.a/values"
	case "tempo_search_tags", "tempo_traceql":
		c.Path = []string{"/api/search", "/tempo/api/search"}[r.Intn(2)]
		switch r.Intn(12) {
		case 0:
			m.AuxBad = true
			add([]string{"limit", "minDuration", "maxDuration"}[r.Intn(3)], "x")
		case 1:
			add("limit", []string{"0", "5", "-1"}[r.Intn(3)])
		case 2:
			add("minDuration", "1s")
			add("maxDuration", "0")
		}
	}
	// ---- result set of the main statement
	n := []int{0, 1, 3, 40, 150}[r.Intn(5)]
	traceql := m.Fep == "tempo_traceql"
	for i := 0; i < n; i++ {
		if traceql {
			ns := r.Intn(4)
			nd, nt := ns, ns
			switch r.Intn(10) {
			case 0: // longer duration / timestamp arrays (harmless before 51fb0f7, end the result since)
				nd = ns + r.Intn(3)
				nt = nd + r.Intn(3)
			case 1: // any lengths (an index out of range in a goroutine without recover before 51fb0f7)
				nd, nt = r.Intn(4), r.Intn(4)
			}
			m.Rows = append(m.Rows, fmt.Sprintf("t:%d:%d:%d", ns, nd, nt))
		} else {
			m.Rows = append(m.Rows, "ok")
		}
	}
	switch r.Intn(10) {
	case 0:
		m.QueryErr = true
	case 1:
		m.FailAfter = r.Intn(n + 1)
	case 2, 3:
		if n > 0 {
			m.Rows[r.Intn(n)] = "bad"
		}
	}
	cols := 1
	switch m.Fep {
	case "tempo_search_tags":
		cols = 5
	case "tempo_traceql":
		cols = 8
	}
	rs := ResultSet{Match: "", Cols: cols, FailAfter: m.FailAfter, QueryErr: m.QueryErr}
	for i, k := range m.Rows {
		var row []Cell
		switch cols {
		case 1:
			row = []Cell{{S: str(fmt.Sprintf("v%d\"\\", i))}}
		case 5:
			row = []Cell{{S: str("0123456789abcdef")}, {S: str("svc")}, {S: str("op")}, {I: i64(baseSec * 1000000000)}, {I: i64(12)}}
		case 8:
			var ns, nd, nt int
			fmt.Sscanf(k, "t:%d:%d:%d", &ns, &nd, &nt)
			ids := make([]string, ns)
			for j := range ids {
				ids[j] = fmt.Sprintf("%016x", j)
			}
			ds, ts := make([]int64, nd), make([]int64, nt)
			for j := range ds {
				ds[j] = int64(j + 1)
			}
			for j := range ts {
				ts[j] = int64(baseSec*1000000000) + int64(j)
			}
			row = []Cell{{S: str(hex.EncodeToString([]byte("0123456789abcdef")))}, {AS: ids}, {AI: ds}, {AI: ts},
				{I: i64(baseSec * 1000000000)}, {F: f64(1.5)}, {S: str("svc")}, {S: str("op")}}
		}
		if k == "bad" {
			row[0] = Cell{} // NULL: rows.Scan cannot convert it into a string
		}
		rs.Rows = append(rs.Rows, row)
	}
	c.Script = []ResultSet{rs}
	// ---- the TraceQL complexity statement (asked first; one integer column)
	if family == "traceql" {
		cx := ResultSet{Match: "_count", Cols: 1, FailAfter: -1}
		for i := r.Intn(3); i > 0; i-- {
			v := []int64{0, 5, 9999999, 10000000, 20000000, 35000001, -1}[r.Intn(7)]
			if r.Intn(15) == 0 {
				m.Cx = append(m.Cx, nil)
				cx.Rows = append(cx.Rows, []Cell{{}})
			} else {
				m.Cx = append(m.Cx, &v)
				cx.Rows = append(cx.Rows, []Cell{{I: i64(v)}})
			}
		}
		if r.Intn(15) == 0 {
			m.CxErr, cx.QueryErr = true, true
		}
		c.Script = []ResultSet{cx, rs}
	}
	c.Class = "fwd/" + m.Fep + "/" + m.Sel
	// ---- version cache, client
	switch r.Intn(10) {
	case 0, 1, 2:
		c.Cold = true
	case 3:
		c.Cold = true
		c.Boot = []Boot{{Settings: "fail"}, {Tables: "fail"}, {Settings: "rows", Tables: "fail"}, {Settings: "fail", Tables: "fail"}}[r.Intn(4)]
		m.BootFail = true
		c.Class += "+boot-fault"
	case 4:
		c.Cold = true
		c.Boot = []Boot{{Settings: "rows"}, {Tables: "rows"}}[r.Intn(2)]
	}
	if r.Intn(4) == 0 {
		k := []int{0, 1, 30, 500, 5000}[r.Intn(5)]
		c.AbortAfter = &k
		c.Class += "+client-gone"
	}
	b, _ := json.Marshal(m)
	c.Model = b
	return c
}
