package main

// Scripted database/sql driver + fake IDBRegistry. The reader code receives *sql.Rows produced by
// the real database/sql package; only the wire side (what ClickHouse would answer) is scripted.

import (
	"context"
	"database/sql"
	"database/sql/driver"
	"errors"
	"fmt"
	"io"
	"os"
	"strings"
	"sync"
	"sync/atomic"
	"time"

	"github.com/jmoiron/sqlx"
	clconfig "github.com/metrico/cloki-config/config"
	"github.com/metrico/qryn/reader/model"
	"github.com/metrico/qryn/reader/utils/dsn"
)

// Cell is one scripted value. Exactly one field is set (none = NULL).
type Cell struct {
	U     *uint64           `json:"u,omitempty"`
	I     *int64            `json:"i,omitempty"`
	F     *float64          `json:"f,omitempty"`
	S     *string           `json:"s,omitempty"`
	M     map[string]string `json:"m,omitempty"`
	AS    []string          `json:"as,omitempty"`
	AI    []int64           `json:"ai,omitempty"`
	B     *string           `json:"b,omitempty"`     // hex bytes delivered as a Go string
	LL    [][]string        `json:"ll,omitempty"`    // Array(Tuple(String, String)) as clickhouse-go delivers it: [][]interface{}
	T     []Cell            `json:"t,omitempty"`     // Tuple(...) as clickhouse-go delivers it: []interface{}
	AT    [][]Cell          `json:"at,omitempty"`    // Array(Tuple(...)): [][]interface{}; an empty array is `"at":[]` + Empty
	Empty string            `json:"empty,omitempty"` // "at" | "t": an EMPTY array / tuple of that kind (omitempty drops empty slices)
	I8    *int64            `json:"i8,omitempty"`    // Int8
}

func (c Cell) value() driver.Value {
	switch {
	case c.U != nil:
		return *c.U
	case c.I != nil:
		return *c.I
	case c.F != nil:
		return *c.F
	case c.S != nil:
		return *c.S
	case c.M != nil:
		return c.M
	case c.AS != nil:
		return c.AS
	case c.AI != nil:
		return c.AI
	case c.B != nil:
		return unhex(*c.B)
	case c.I8 != nil:
		return int8(*c.I8)
	case c.Empty == "at":
		return [][]interface{}{}
	case c.Empty == "t":
		return []interface{}{}
	case c.T != nil:
		res := make([]interface{}, len(c.T))
		for i, x := range c.T {
			res[i] = x.value()
		}
		return res
	case c.AT != nil:
		res := make([][]interface{}, len(c.AT))
		for i, tup := range c.AT {
			res[i] = make([]interface{}, len(tup))
			for j, x := range tup {
				res[i][j] = x.value()
			}
		}
		return res
	case c.LL != nil:
		res := make([][]interface{}, len(c.LL))
		for i, kv := range c.LL {
			for _, x := range kv {
				res[i] = append(res[i], x)
			}
		}
		return res
	}
	return nil
}

// ResultSet answers every statement whose text contains Match ("" matches all).
type ResultSet struct {
	Match     string   `json:"match"`
	Cols      int      `json:"cols"`
	Rows      [][]Cell `json:"rows"`
	FailAfter int      `json:"fail_after"`       // >=0: Next fails with an error after that many rows (rows.Err)
	QueryErr  bool     `json:"query_err"`        // the statement itself fails
	Repeat    int      `json:"repeat,omitempty"` // serve the row list this many times over (large result sets, compactly)
	// the database is still working on the statement when the caller gives up: QueryContext blocks until the statement's
	// context is cancelled (the client hung up, the limit was reached, a timeout fired) and then fails with ctx.Err()
	Stall bool `json:"stall,omitempty"`
}

// Boot scripts dbVersion.GetVersionInfo's two statements (issued on a cold version cache): "" = answered,
// "fail" = the statement fails, "rows" = the connection is lost while its rows are read
type Boot struct {
	Settings string `json:"settings,omitempty"`
	Tables   string `json:"tables,omitempty"`
}

type scriptT struct {
	sets []ResultSet
	boot Boot
}

func bootRows(mode string, cols int) (driver.Rows, error) {
	switch mode {
	case "fail":
		return nil, errors.New("scripted: bootstrap statement failed")
	case "rows":
		return &rowsT{rs: &ResultSet{Cols: cols, FailAfter: 0}}, nil
	}
	return &rowsT{rs: &ResultSet{Cols: cols, FailAfter: -1}}, nil
}

// the name under which dbVersion caches the version info: a fresh one makes the cache cold for this request
var curDBName atomic.Pointer[string]

var curScript atomic.Pointer[scriptT]
var logSQL = os.Getenv("READFUZZ_LOGSQL") != ""
var openRows int64 // result sets handed out and not yet closed (connection held)
var queriesSeen int64
var stmtsSeen int64 // statements other than GetVersionInfo's two bootstrap statements
var poolRebuilds int64 // how often StableSqlxDBWrapper closed its pool and asked GetDB for a new one
var stalledCh = make(chan struct{}, 64) // a statement has reached the database and is stalled there
const stallMax = 2500 * time.Millisecond // a stalled statement gives up by itself after this long (safety net of the harness)

type drv struct{}
type conn struct{}
type rowsT struct {
	rs      *ResultSet
	i       int
	closed  bool
	counted bool
	mtx     sync.Mutex
}

func (drv) Open(string) (driver.Conn, error) { return &conn{}, nil }
func (*conn) Prepare(string) (driver.Stmt, error) {
	return nil, errors.New("prepare not supported by the scripted driver")
}
func (*conn) Close() error              { return nil }
func (*conn) Begin() (driver.Tx, error) { return nil, errors.New("no tx") }
func (*conn) CheckNamedValue(*driver.NamedValue) error {
	return nil
}
func (*conn) QueryContext(ctx context.Context, q string, args []driver.NamedValue) (driver.Rows, error) {
	atomic.AddInt64(&queriesSeen, 1)
	if logSQL {
		fmt.Fprintln(os.Stderr, "SQL:", q)
	}
	sc := curScript.Load()
	if strings.Contains(q, "type='update'") {
		if sc != nil {
			return bootRows(sc.boot.Settings, 2)
		}
		return bootRows("", 2)
	}
	if strings.Contains(q, "SHOW TABLES") {
		if sc != nil {
			return bootRows(sc.boot.Tables, 1)
		}
		return bootRows("", 1)
	}
	atomic.AddInt64(&stmtsSeen, 1)
	if sc != nil {
		for i := range sc.sets {
			if strings.Contains(q, sc.sets[i].Match) {
				if sc.sets[i].QueryErr {
					return nil, errors.New("scripted: statement failed")
				}
				if sc.sets[i].Stall {
					select {
					case stalledCh <- struct{}{}:
					default:
					}
					select {
					case <-ctx.Done():
						return nil, ctx.Err()
					case <-time.After(stallMax):
						return nil, errors.New("scripted: statement timed out on the server")
					}
				}
				atomic.AddInt64(&openRows, 1)
				return &rowsT{rs: &sc.sets[i], counted: true}, nil
			}
		}
	}
	atomic.AddInt64(&openRows, 1)
	return &rowsT{rs: &ResultSet{Cols: 1, FailAfter: -1}, counted: true}, nil
}
func (*conn) ExecContext(ctx context.Context, q string, args []driver.NamedValue) (driver.Result, error) {
	return driver.RowsAffected(0), nil
}

func (r *rowsT) Columns() []string {
	res := make([]string, r.rs.Cols)
	for i := range res {
		res[i] = "c" + string(rune('a'+i%26))
	}
	return res
}
func (r *rowsT) Close() error {
	r.mtx.Lock()
	defer r.mtx.Unlock()
	if !r.closed {
		r.closed = true
		if r.counted {
			atomic.AddInt64(&openRows, -1)
		}
	}
	return nil
}
func (r *rowsT) Next(dest []driver.Value) error {
	if r.rs.FailAfter >= 0 && r.i >= r.rs.FailAfter {
		return errors.New("scripted: connection lost while reading rows")
	}
	total := len(r.rs.Rows)
	if r.rs.Repeat > 1 {
		total *= r.rs.Repeat
	}
	if r.i >= total {
		return io.EOF
	}
	row := r.rs.Rows[r.i%len(r.rs.Rows)]
	r.i++
	for i := range dest {
		if i < len(row) {
			dest[i] = row[i].value()
		} else {
			dest[i] = nil
		}
	}
	return nil
}

// ---------------------------------------------------------------- registry

// The session of the registry is the REAL dsn.StableSqlxDBWrapper (as reader/dbRegistry builds it: DB, GetDB, Name) over a
// database/sql pool on the scripted driver: every statement of the reader goes through its RWMutex and its
// close-and-reopen-the-pool error path. Only GetName is overridden (a fresh name per request = a cold version cache) and
// Close is a no-op (the harness keeps the registry for the life of the process).
type fakeDB struct {
	*dsn.StableSqlxDBWrapper
}

func (f *fakeDB) GetName() string {
	if p := curDBName.Load(); p != nil {
		return *p
	}
	return "verif"
}
func (f *fakeDB) Close() {}

type fakeRegistry struct {
	m *model.DataDatabasesMap
}

func (r *fakeRegistry) GetDB(ctx context.Context) (*model.DataDatabasesMap, error) { return r.m, nil }
func (r *fakeRegistry) Run()                                                       {}
func (r *fakeRegistry) Stop()                                                      {}
func (r *fakeRegistry) Ping() error                                                { return nil }

// the pool size of the request being served; a pool rebuilt by the wrapper gets the same size
var curMaxConns int32 = 64
var theWrapper *dsn.StableSqlxDBWrapper

func setPoolSize(n int) {
	if n <= 0 {
		n = 64
	}
	atomic.StoreInt32(&curMaxConns, int32(n))
	if theWrapper != nil {
		// between two requests of this process: nobody holds the wrapper's lock (a request that left it locked is
		// reported as stopped-serving by the probes that follow it)
		if db := theWrapper.DB; db != nil {
			db.SetMaxOpenConns(n)
		}
	}
}

func openPool() *sqlx.DB {
	db, err := sql.Open("verifscript", "")
	if err != nil {
		panic(err)
	}
	db.SetMaxOpenConns(int(atomic.LoadInt32(&curMaxConns)))
	db.SetConnMaxLifetime(time.Hour)
	return sqlx.NewDb(db, "clickhouse")
}

func newRegistry() *fakeRegistry {
	sql.Register("verifscript", drv{})
	getDB := func() *sqlx.DB {
		atomic.AddInt64(&poolRebuilds, 1)
		return openPool()
	}
	theWrapper = &dsn.StableSqlxDBWrapper{DB: openPool(), GetDB: getDB, Name: "n1"}
	return &fakeRegistry{m: &model.DataDatabasesMap{
		Config:  &clconfig.ClokiBaseDataBase{Name: "verif", Node: "n1"},
		Session: &fakeDB{theWrapper},
	}}
}
