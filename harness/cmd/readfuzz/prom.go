package main

// Modelled stream 3: the Prometheus query endpoints /api/v1/query_range and /api/v1/query (coq/model/ReadProm.v).
// The Coq model predicts what the controller decides before the PromQL engine runs -- 400 (parameters, step <= 0, a
// subquery of more than 11,000 steps: checkSubquerySteps, whose int64 sums wrap around), 500 (more than 11,000 points,
// a query that does not parse) -- or "the engine answers" (2xx or 5xx). The query is generated as a tree and rendered.

import (
	"encoding/json"
	"fmt"
	"math/rand"
	"strings"
	"time"
)

type PExpr struct {
	T string `json:"t"` // sel | mat | call | bin | sub
	A *PExpr `json:"a,omitempty"`
	B *PExpr `json:"b,omitempty"`
	R int64  `json:"r,omitempty"` // range, ns
	S int64  `json:"s,omitempty"` // step, ns (0 = default resolution)
}

type PromModel struct {
	Ep      string `json:"ep"` // always "prom"
	Instant bool   `json:"instant"`
	Now     int64  `json:"now"`
	Start   Param  `json:"start"` // seconds
	End     Param  `json:"end"`   // seconds (instant: the time parameter)
	Step    Param  `json:"step"`  // nanoseconds
	QKind   string `json:"qkind"` // missing | noparse | expr
	Expr    *PExpr `json:"expr,omitempty"`
	Shape   string `json:"shape"` // for the distribution: plain | sub-ok | sub-bound | sub-over | sub-wrap | sub-default
}

const (
	nsMs  = int64(1000000)
	nsSec = 1000 * nsMs
	nsDay = 86400 * nsSec
)

// a PromQL duration literal for ns (a whole number of milliseconds)
func promDur(ns int64) string {
	var b strings.Builder
	for _, u := range []struct {
		n int64
		s string
	}{{nsDay, "d"}, {3600 * nsSec, "h"}, {60 * nsSec, "m"}, {nsSec, "s"}, {nsMs, "ms"}} {
		if k := ns / u.n; k > 0 {
			fmt.Fprintf(&b, "%d%s", k, u.s)
			ns -= k * u.n
		}
	}
	if b.Len() == 0 {
		return "0s"
	}
	return b.String()
}

func (e *PExpr) render() string {
	switch e.T {
	case "sel":
		return `up{job="a"}`
	case "mat":
		return fmt.Sprintf(`up[%s]`, promDur(e.R))
	case "call":
		switch e.A.T {
		case "mat":
			return "rate(" + e.A.render() + ")"
		case "sub":
			return "max_over_time(" + e.A.render() + ")"
		}
		return "abs(" + e.A.render() + ")"
	case "bin":
		return "(" + e.A.render() + " + " + e.B.render() + ")"
	case "sub":
		if e.S == 0 {
			return fmt.Sprintf("%s[%s:]", e.A.render(), promDur(e.R))
		}
		return fmt.Sprintf("%s[%s:%s]", e.A.render(), promDur(e.R), promDur(e.S))
	}
	return "up"
}

// an instant-vector expression with at most `depth` nested subqueries
func genInst(r *rand.Rand, depth int, ranges, steps []int64) *PExpr {
	switch k := r.Intn(8); {
	case k == 0:
		return &PExpr{T: "sel"}
	case k == 1:
		return &PExpr{T: "call", A: &PExpr{T: "mat", R: []int64{60 * nsSec, 300 * nsSec, 30 * nsDay}[r.Intn(3)]}}
	case k == 2 && depth > 0:
		return &PExpr{T: "bin", A: genInst(r, depth-1, ranges, steps), B: genInst(r, depth-1, ranges, steps)}
	case k == 3:
		return &PExpr{T: "call", A: genInst(r, depth, ranges, steps)}
	case depth > 0:
		return &PExpr{T: "call", A: genSub(r, depth, ranges, steps)}
	}
	return &PExpr{T: "sel"}
}

func genSub(r *rand.Rand, depth int, ranges, steps []int64) *PExpr {
	return &PExpr{T: "sub", A: genInst(r, depth-1, ranges, steps), R: ranges[r.Intn(len(ranges))], S: steps[r.Intn(len(steps))]}
}

func hasSub(e *PExpr) bool {
	return e != nil && (e.T == "sub" || hasSub(e.A) || hasSub(e.B))
}

func promCase(r *rand.Rand, id int) *Case {
	m := &PromModel{Ep: "prom", Instant: r.Intn(2) == 0, Now: time.Now().Unix(), QKind: "expr", Shape: "plain"}
	c := &Case{ID: id, Method: "GET", Path: "/api/v1/query_range"}
	if m.Instant {
		c.Path = "/api/v1/query"
	}
	if r.Intn(4) == 0 {
		c.Method = "POST"
	}
	add := func(k, v string) { c.Params = append(c.Params, KV{k, v}) }
	// ---- query
	switch k := r.Intn(20); {
	case k == 0:
		m.QKind = "missing"
	case k == 1:
		m.QKind = "noparse"
		add("query", []string{`up[`, `sum(`, `up[5m:1m`, `max_over_time(up[5m:-1m])`, `up[0s:1s]`, "\x00"}[r.Intn(6)])
	default:
		var e *PExpr
		switch r.Intn(8) {
		case 0: // no subquery
			e = genInst(r, 0, nil, nil)
		case 1, 2: // comfortably inside
			m.Shape = "sub-ok"
			e = genInst(r, 2, []int64{300 * nsSec, 3600 * nsSec, 5000 * nsSec}, []int64{nsSec, 60 * nsSec, 15 * nsSec})
		case 3, 4: // at and just beyond the bound, alone and nested
			m.Shape = "sub-bound"
			e = &PExpr{T: "call", A: genSub(r, 2, []int64{11000 * nsSec, 11001 * nsSec, 5500 * nsSec, 5501 * nsSec, 10000 * nsSec, 11 * nsSec}, []int64{nsSec, nsMs})}
		case 5: // far beyond: these ran the reader out of memory
			m.Shape = "sub-over"
			e = &PExpr{T: "call", A: genSub(r, 2, []int64{30 * nsDay, 10 * nsDay, 1000 * nsDay}, []int64{nsMs, nsSec, 60 * nsSec})}
		case 6: // sums of ranges that leave int64: 100000 d + 100000 d + 13503 d 23:34:34 = 2^64 ns + 0.29 s
			m.Shape = "sub-wrap"
			lvl := []int64{100000 * nsDay, 100000 * nsDay, 13503*nsDay + (23*3600+34*60+34)*nsSec}
			e = &PExpr{T: "sel"}
			n := 2 + r.Intn(2)
			for i := n - 1; i >= 0; i-- {
				st := 50000 * nsDay
				if i == n-1 {
					st = []int64{nsMs, nsSec, 50000 * nsDay}[r.Intn(3)]
				}
				e = &PExpr{T: "call", A: &PExpr{T: "sub", A: e, R: lvl[(i+3-n)%3], S: st}}
			}
		default: // default resolution: the engine's interval function is nil in this reader
			m.Shape = "sub-default"
			e = genInst(r, 2, []int64{300 * nsSec, 30 * nsDay}, []int64{0, nsSec, nsMs})
		}
		if r.Intn(6) == 0 { // a bare subquery at the top (a range vector)
			e = genSub(r, 1, []int64{300 * nsSec, 11001 * nsSec}, []int64{nsSec, 60 * nsSec})
			m.Shape = "sub-top"
		}
		if !hasSub(e) {
			m.Shape = "plain"
		}
		m.Expr = e
		add("query", e.render())
	}
	// ---- time parameters
	tpick := func(def int64) (Param, string) {
		switch r.Intn(14) {
		case 0:
			return Param{K: "absent"}, ""
		case 1:
			return Param{K: "bad"}, []string{"abc", "-5", "1x", "1e3", "2023-13-01T00:00:00Z"}[r.Intn(5)]
		case 2:
			return num(0), []string{"0", "1..0", "0.9"}[r.Intn(3)] // digits and dots: ParseFloat's error is dropped
		case 3:
			return num(4000000000), "4000000000"
		case 4:
			return num(def), fmt.Sprintf("%d.75", def)
		}
		return num(def), fmt.Sprint(def)
	}
	var txt string
	if m.Instant {
		m.End, txt = tpick(baseSec + int64(r.Intn(600)))
		if m.End.K != "absent" {
			add("time", txt)
		}
		m.Start, m.Step = Param{K: "absent"}, Param{K: "absent"}
	} else {
		start := baseSec + int64(r.Intn(4))*7
		m.Start, txt = tpick(start)
		if m.Start.K != "absent" {
			add("start", txt)
		}
		win := []int64{300, 3600, 165000, 165001, 164985, 86400, 0, -30}[r.Intn(8)]
		m.End, txt = tpick(start + win)
		if m.End.K != "absent" {
			add("end", txt)
		}
		st := []struct {
			t  string
			ns int64
			ok bool
		}{{"15", 15 * nsSec, true}, {"15", 15 * nsSec, true}, {"1", nsSec, true}, {"60", 60 * nsSec, true}, {"0", 0, true}, {"-5", -5 * nsSec, true},
			{"0.001", nsMs, true}, {"1m", 60 * nsSec, true}, {"5s", 5 * nsSec, true}, {"abc", 0, false}, {"", 0, false}, {"1e3", 1000 * nsSec, true}, {"3600", 3600 * nsSec, true}}[r.Intn(13)]
		if st.ok {
			m.Step = Param{K: "num", V: st.ns}
		} else {
			m.Step = Param{K: "bad"}
		}
		if st.t != "" || r.Intn(2) == 0 {
			add("step", st.t)
		}
	}
	c.Class = "prom/" + map[bool]string{true: "instant", false: "range"}[m.Instant] + "/" + m.QKind + "/" + m.Shape
	c.Script = typedScript(r, "prom_samples")
	if r.Intn(3) == 0 {
		c.Cold = true
	}
	b, _ := json.Marshal(m)
	c.Model = b
	return c
}
