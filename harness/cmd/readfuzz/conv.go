package main

// Modelled stream 5: float -> int64 conversion of request parameters (coq/model/ReadConv.v). A generated Loki
// query_range request of stream 1 gets its start / end / step rewritten into a text that takes the float path of
// getRequiredNs / parseDuration: NaN, the infinities, 1e30, 2^63, -0, exponent forms of ordinary values. Where Go leaves
// the conversion implementation-defined the harness converts the same double itself and hands the value THIS platform
// produced to the model (which holds for any value); the outcome class is compared inside Coq.

import (
	"encoding/json"
	"math"
	"math/rand"
	"strconv"
	"time"
)

type CParam struct {
	K string `json:"k"` // absent | bad | exact | undef
	V int64  `json:"v"` // exact: the converted value (ns for start / end, ms for step); undef: what this platform's conversion gave
	T string `json:"t"` // the text sent
}

type ConvModel struct {
	Ep    string     `json:"ep"` // always "conv"
	Base  *ModelCase `json:"base"`
	Start CParam     `json:"cstart"`
	End   CParam     `json:"cend"`
	Step  CParam     `json:"cstep"`
}

var convTimes = []string{"NaN", "Inf", "-Inf", "+Inf", "infinity", "1e30", "-1e30", "1e19", "9223372036854775808", "-9223372036854775809",
	"9.3e18", "-0", "0.9", "1.7e18", "1.70000004e18", "1.70000034e18", "17000003.4e11", "1700000040000000000.0", "1e18", "-1.7e18", "1e400", "0x1p62"}

var convSteps = []string{"NaN", "Inf", "-Inf", "1e30", "9223372036.854775808", "9223372036.854775807", "9223372037", "1e10", "-0", "1e-30",
	"0.0005", "1.5e1", "15", "60.0", "1e2"}

// getRequiredNs on a non-empty text
func convNs(t string) CParam {
	f, err := strconv.ParseFloat(t, 64)
	if err != nil {
		return CParam{K: "bad", T: t}
	}
	if i, err := strconv.ParseInt(t, 10, 64); err == nil {
		return CParam{K: "exact", V: i, T: t}
	}
	if math.IsNaN(f) || f >= 9223372036854775808.0 || f < -9223372036854775808.0 {
		return CParam{K: "undef", V: int64(f), T: t}
	}
	return CParam{K: "exact", V: int64(f), T: t}
}

// getRequiredDuration (parseDuration on a decimal text) followed by int64(step * 1000)
func convStepMs(t string) CParam {
	d, err := strconv.ParseFloat(t, 64)
	if err != nil {
		return CParam{K: "bad", T: t} // the texts used here are no Prometheus durations either
	}
	ts := d * float64(time.Second)
	if ts > float64(math.MaxInt64) || ts < float64(math.MinInt64) {
		return CParam{K: "bad", T: t}
	}
	dur := time.Duration(ts)
	ms := int64(float64(dur.Nanoseconds()) / 1e9 * 1000)
	if math.IsNaN(ts) || ts >= 9223372036854775808.0 {
		return CParam{K: "undef", V: ms, T: t}
	}
	return CParam{K: "exact", V: ms, T: t}
}

func convCase(r *rand.Rand, id int) *Case {
	for {
		c := lokiCase1(r, id)
		if c == nil {
			continue
		}
		mc := &ModelCase{}
		if json.Unmarshal(c.Model, mc) != nil || mc.Ep != "loki_range" || mc.Start.K != "num" || mc.End.K != "num" || !mc.HasQuery {
			continue
		}
		if c.AbortAfter != nil || c.Tcp {
			continue
		}
		m := &ConvModel{Ep: "conv", Base: mc}
		m.Start = CParam{K: "exact", V: mc.Start.V * 1000000000}
		m.End = CParam{K: "exact", V: mc.End.V * 1000000000}
		switch mc.Step.K {
		case "absent":
			m.Step = CParam{K: "absent"}
		case "bad":
			m.Step = CParam{K: "bad"}
		default:
			m.Step = CParam{K: "exact", V: mc.Step.V}
		}
		set := func(k, v string) {
			for i := range c.Params {
				if c.Params[i].K == k {
					c.Params[i].V = v
					return
				}
			}
			c.Params = append(c.Params, KV{k, v})
		}
		ws, we, wt := r.Intn(10) < 6, r.Intn(10) < 3, r.Intn(10) < 3
		if !ws && !we && !wt {
			ws = true
		}
		if ws {
			t := convTimes[r.Intn(len(convTimes))]
			m.Start = convNs(t)
			set("start", t)
		}
		if we {
			t := convTimes[r.Intn(len(convTimes))]
			m.End = convNs(t)
			set("end", t)
		}
		if wt {
			t := convSteps[r.Intn(len(convSteps))]
			m.Step = convStepMs(t)
			set("step", t)
		}
		c.Class = "conv/" + mc.Shape + "/start=" + m.Start.K + ",end=" + m.End.K + ",step=" + m.Step.K
		b, _ := json.Marshal(m)
		c.Model = b
		return c
	}
}
