// readfuzz drives the REAL reader router (apirouterv1.Route*) in-process over a scripted database/sql
// driver and reports, per request, the outcome class {2xx,4xx,5xx,abort,crash,hang,leak}.
//
// parent mode (default): generates cases from --seed (or reads --cases), runs them in child processes
// (so that a process crash or a hang is an observation, not the end of the run) and prints one JSON line
// per case with the observations.
// worker mode (--worker): runs the cases of --cases sequentially in this process.
package main

import (
	"bufio"
	"bytes"
	"context"
	"encoding/hex"
	"encoding/json"
	"flag"
	"fmt"
	"net"
	"net/http"
	"net/http/httptest"
	"net/url"
	"os"
	"os/exec"
	"regexp"
	"runtime"
	"runtime/debug"
	"sort"
	"strings"
	"sync"
	"sync/atomic"
	"syscall"
	"time"

	"github.com/gorilla/mux"
	"github.com/gorilla/websocket"
	clconfig "github.com/metrico/cloki-config"
	"github.com/metrico/qryn/reader/config"
	apirouterv1 "github.com/metrico/qryn/reader/router"
	"github.com/metrico/qryn/reader/utils/logger"
	"github.com/sirupsen/logrus"
	"verif/harness/hx"
)

var stmts0 int64 // stmtsSeen when the current case started (one case at a time per process)
var rebuilds0 int64

type KV struct {
	K string `json:"k"`
	V string `json:"v"`
}

type Obs struct {
	Outcome  string   `json:"outcome"` // resp | abort | crash | hang
	Status   int      `json:"status"`
	Leaked   []string `json:"leaked,omitempty"` // qryn functions of goroutines still alive after the response
	RowsOpen int64    `json:"rows_open"`        // result sets still open (connection held) after the response
	Panic    string   `json:"panic,omitempty"`
	BodyLen  int      `json:"body_len"`
	BodyHead string   `json:"body_head,omitempty"` // first bytes of an error body
	JSONOk   bool     `json:"json_ok"`
	Ms       int64    `json:"ms"`
	Queries  int64    `json:"queries"`
	Stmts    int64    `json:"stmts"` // statements issued, GetVersionInfo's bootstrap statements not counted
	Followup string   `json:"followup,omitempty"` // a healthy request sent AFTER this one that was not answered (family: what)
	// live tail over a websocket: messages read before the client left or the server ended the session, how many of them
	// were empty (not a JSON document), and how the reading ended: client-left | server-closed | timeout
	// how often StableSqlxDBWrapper closed its connection pool and opened a new one while this request was served
	Rebuilds int64 `json:"rebuilds"`
	// a history: the observations of the later requests (Case.Then) served by the same process after this one, in order;
	// the history stops at the first request that is not answered
	Steps   []*Obs `json:"steps,omitempty"`
	// number of elements of the answer's "data" array (requests with expect_items only; -1 = the body is not such a document)
	Items   *int   `json:"items,omitempty"`
	WsMsgs  int    `json:"ws_msgs,omitempty"`
	WsEmpty int    `json:"ws_empty,omitempty"`
	WsEnd   string `json:"ws_end,omitempty"`
}

type Case struct {
	ID          int    `json:"id"`
	Class       string `json:"class"`
	Method      string `json:"method"`
	Path        string `json:"path"`
	Params      []KV   `json:"params"`
	Accept      string `json:"accept,omitempty"`
	Body        string `json:"body,omitempty"` // raw POST body (else the parameters are sent as a form)
	BodyHex     string `json:"body_hex,omitempty"` // raw POST body in hex (protobuf: not valid UTF-8, JSON transport would mangle it)
	ContentType string `json:"ctype,omitempty"`
	WaitMs      int    `json:"wait_ms,omitempty"` // how long goroutines may take to wind down after the response (default 900)
	// the client goes away: in-process, the ResponseWriter fails (and the request context is cancelled) once this many
	// bytes were written; with Tcp the request goes over a real connection that is reset after reading this many bytes
	AbortAfter *int            `json:"abort_after,omitempty"`
	Tcp        bool            `json:"tcp,omitempty"`
	Ws         bool            `json:"ws,omitempty"`   // with Tcp: a websocket client (live tail) that reads AbortAfter messages and drops the connection
	// the client hangs up while the database is still working on a statement: the request context is cancelled as soon as a
	// statement of the script marked `stall` has reached the driver (net/http does that when the connection goes away)
	HangUp bool `json:"hang_up,omitempty"`
	// size of the database/sql connection pool behind the wrapper while this request is served (0 = 64, the harness default;
	// production: max_open_connection). With 1, a request that asks for a second connection while it still holds an open
	// result set waits in database/sql.(*DB).conn for ever
	MaxConns int `json:"max_conns,omitempty"`
	// series endpoints over scripted label documents: how many series the answer must hold (the complete documents among the
	// rows); nil = not judged
	ExpectItems *int `json:"expect_items,omitempty"`
	// a history: requests served by the same process after this one, in this order (each with its own script)
	Then       []*Case         `json:"then,omitempty"`
	Boot       Boot            `json:"boot"`           // faults of dbVersion's two bootstrap statements
	Cold       bool            `json:"cold,omitempty"` // serve with a cold version cache (a database name never seen before)
	Script     []ResultSet     `json:"script"`
	Model      json.RawMessage `json:"model,omitempty"` // abstract description for the Coq model (nil = test-only case)
	Obs        *Obs            `json:"obs,omitempty"`
}

func unhex(s string) string {
	b, err := hex.DecodeString(s)
	if err != nil {
		return s
	}
	return string(b)
}

// ---------------------------------------------------------------- goroutine census

var reGor = regexp.MustCompile(`(?m)^goroutine (\d+) \[`)
var reFn = regexp.MustCompile(`(?m)^(github\.com/metrico/qryn/[^\s(]+(?:\([^)]*\))?[^\s(]*)\(`)

type gor struct {
	id   string
	text string
}

func census() map[string]gor {
	buf := make([]byte, 1<<20)
	for {
		n := runtime.Stack(buf, true)
		if n < len(buf) {
			buf = buf[:n]
			break
		}
		buf = make([]byte, 2*len(buf))
	}
	res := map[string]gor{}
	for _, blk := range strings.Split(string(buf), "\n\n") {
		m := reGor.FindStringSubmatch(blk)
		if m == nil {
			continue
		}
		if !strings.Contains(blk, "github.com/metrico/qryn/") {
			continue
		}
		if strings.Contains(blk, "dbVersion.throttle") || strings.Contains(blk, "main.runCase") || strings.Contains(blk, "main.census") {
			continue
		}
		res[m[1]] = gor{id: m[1], text: blk}
	}
	return res
}

func qrynFrames(text string) string {
	var fns []string
	for _, m := range reFn.FindAllStringSubmatch(text, -1) {
		f := strings.TrimPrefix(m[1], "github.com/metrico/qryn/")
		fns = append(fns, f)
		if len(fns) >= 2 {
			break
		}
	}
	return strings.Join(fns, " < ")
}

// ---------------------------------------------------------------- one case, in this process

var router *mux.Router
var leaksSeen int

func setup() {
	config.Cloki = clconfig.New(clconfig.CLOKI_READER, nil, "", "")
	logger.Logger.SetLevel(logrus.PanicLevel)
	logger.Logger.SetOutput(os.Stderr)
	reg := newRegistry()
	router = mux.NewRouter()
	apirouterv1.RouteQueryRangeApis(router, reg)
	apirouterv1.RouteSelectLabels(router, reg)
	apirouterv1.RouteSelectPrometheusLabels(router, reg)
	apirouterv1.RoutePrometheusQueryRange(router, reg, false)
	apirouterv1.RouteTempo(router, reg)
	apirouterv1.RouteMiscApis(router)
	apirouterv1.RouteProf(router, reg)
}

func buildRequest(c *Case, ctx context.Context) *http.Request {
	q := url.Values{}
	for _, kv := range c.Params {
		q.Add(kv.K, kv.V)
	}
	u := c.Path
	var body *bytes.Reader
	method := c.Method
	if method == "" {
		method = "GET"
	}
	if method == "POST" && c.BodyHex != "" {
		c.Body = unhex(c.BodyHex)
	}
	if method == "POST" && c.Body != "" {
		body = bytes.NewReader([]byte(c.Body))
		if len(q) > 0 {
			u += "?" + q.Encode()
		}
	} else if method == "POST" {
		body = bytes.NewReader([]byte(q.Encode()))
	} else {
		if len(q) > 0 {
			u += "?" + q.Encode()
		}
		body = bytes.NewReader(nil)
	}
	req, err := http.NewRequestWithContext(ctx, method, "http://qryn.local"+u, body)
	if err != nil {
		// not a well-formed request line: the server would answer 400 before routing
		return nil
	}
	if method == "POST" && c.Body == "" {
		req.Header.Set("Content-Type", "application/x-www-form-urlencoded")
	}
	if c.ContentType != "" {
		req.Header.Set("Content-Type", c.ContentType)
	}
	if c.Accept != "" {
		req.Header.Set("Accept", c.Accept)
	}
	return req
}

// abortWriter is a ResponseWriter whose client disappears after `limit` bytes: the write fails with EPIPE and, as
// net/http does when the connection is gone, the request context is cancelled.
type abortWriter struct {
	rec     *httptest.ResponseRecorder
	limit   int
	written int
	cancel  context.CancelFunc
	failed  bool
}

func (a *abortWriter) Header() http.Header { return a.rec.Header() }
func (a *abortWriter) WriteHeader(c int)   { a.rec.WriteHeader(c) }
func (a *abortWriter) Write(b []byte) (int, error) {
	if a.failed || a.written+len(b) > a.limit {
		if !a.failed {
			a.failed = true
			a.cancel()
		}
		return 0, syscall.EPIPE
	}
	a.written += len(b)
	return a.rec.Write(b)
}

var (
	tcpOnce   sync.Once
	tcpSrv    *httptest.Server
	tcpDone   sync.Map // case id -> chan string (handler finished; panic text)
	tcpStatus sync.Map
	wsObs     sync.Map // case id -> [3]{messages, empty messages, how the reading ended}
)

type statusWriter struct {
	http.ResponseWriter
	code int
}

func (s *statusWriter) WriteHeader(c int) { s.code = c; s.ResponseWriter.WriteHeader(c) }
func (s *statusWriter) Hijack() (net.Conn, *bufio.ReadWriter, error) {
	s.code = 101
	return s.ResponseWriter.(http.Hijacker).Hijack()
}

func tcpServer() *httptest.Server {
	tcpOnce.Do(func() {
		tcpSrv = httptest.NewServer(http.HandlerFunc(func(w http.ResponseWriter, r *http.Request) {
			id := r.Header.Get("X-Case")
			sw := &statusWriter{ResponseWriter: w, code: 200}
			defer func() {
				p := ""
				if rv := recover(); rv != nil {
					p = fmt.Sprint(rv)
				}
				tcpStatus.Store(id, sw.code)
				if ch, ok := tcpDone.Load(id); ok {
					ch.(chan string) <- p
				}
				if p != "" {
					panic(http.ErrAbortHandler)
				}
			}()
			router.ServeHTTP(sw, r)
		}))
	})
	return tcpSrv
}

// serveTCP sends the request over a real connection, reads abortAfter bytes of the answer and resets the connection
func serveTCP(c *Case, req *http.Request, deadline time.Duration) (outcome string, status int, panicText string) {
	srv := tcpServer()
	id := fmt.Sprint(c.ID)
	ch := make(chan string, 1)
	tcpDone.Store(id, ch)
	defer tcpDone.Delete(id)
	if c.Ws {
		u := "ws://" + srv.Listener.Addr().String() + req.URL.RequestURI()
		hdr := http.Header{}
		hdr.Set("X-Case", id)
		wc, resp, err := websocket.DefaultDialer.Dial(u, hdr)
		if err != nil {
			// no upgrade (bad query ...): an ordinary response
			select {
			case <-ch:
			case <-time.After(deadline):
				return "hang", 0, ""
			}
			st := 0
			if resp != nil {
				st = resp.StatusCode
			}
			return "resp", st, ""
		}
		n := 1
		if c.AbortAfter != nil {
			n = *c.AbortAfter
		}
		wsEnd, wsMsgs, wsEmpty := "client-left", 0, 0
		until := time.Now().Add(deadline)
		for i := 0; i < n; i++ {
			wc.SetReadDeadline(until)
			_, msg, err := wc.ReadMessage()
			if err != nil {
				wsEnd = "server-closed"
				if ne, ok := err.(net.Error); ok && ne.Timeout() {
					wsEnd = "timeout"
				}
				break
			}
			wsMsgs++
			if len(msg) == 0 {
				wsEmpty++
			}
		}
		wsObs.Store(id, [3]interface{}{wsMsgs, wsEmpty, wsEnd})
		wc.UnderlyingConn().Close() // no close frame: the client is simply gone
		select {
		case p := <-ch:
			if p != "" {
				return "abort", 0, p
			}
			return "resp", 101, ""
		case <-time.After(deadline + 3*time.Second):
			return "hang", 0, ""
		}
	}
	conn, err := net.Dial("tcp", srv.Listener.Addr().String())
	if err != nil {
		return "resp", 599, "dial: " + err.Error()
	}
	req.Header.Set("X-Case", id)
	req.Header.Set("Connection", "close")
	req.URL.Host = srv.Listener.Addr().String()
	req.Host = req.URL.Host
	go func() {
		_ = req.Write(conn)
		n := 1 << 30
		if c.AbortAfter != nil {
			n = *c.AbortAfter
		}
		buf := make([]byte, 4096)
		for n > 0 {
			k := len(buf)
			if k > n {
				k = n
			}
			conn.SetReadDeadline(time.Now().Add(deadline))
			m, err := conn.Read(buf[:k])
			n -= m
			if err != nil {
				break
			}
		}
		if tc, ok := conn.(*net.TCPConn); ok && c.AbortAfter != nil {
			tc.SetLinger(0) // RST: the peer's next write fails
		}
		conn.Close()
	}()
	select {
	case p := <-ch:
		st := 200
		if v, ok := tcpStatus.Load(id); ok {
			st = v.(int)
		}
		if p != "" {
			return "abort", 0, p
		}
		return "resp", st, ""
	case <-time.After(deadline):
		return "hang", 0, ""
	}
}

var coldSeq int64

func setCache(cold bool) {
	name := "verif"
	if cold {
		name = fmt.Sprintf("cold-%d-%d", os.Getpid(), atomic.AddInt64(&coldSeq, 1))
	}
	curDBName.Store(&name)
}

// ---- "keeps serving": after a request that met a fault, one healthy request per endpoint family must still be answered
var probes = []*Case{
	{Class: "probe/loki_range", Path: "/loki/api/v1/query_range", Params: []KV{{"query", `{a="b"}`}, {"start", "1700000040000000000"}, {"end", "1700000340000000000"}, {"limit", "10"}},
		Script: []ResultSet{{Cols: 4, FailAfter: -1, Rows: [][]Cell{{{U: u64(1)}, {M: map[string]string{"a": "b"}}, {S: str("x")}, {I: i64(1700000041000000000)}}}}}},
	{Class: "probe/loki_matrix", Path: "/loki/api/v1/query_range", Params: []KV{{"query", `rate({a="b"}[1m])`}, {"start", "1700000040000000000"}, {"end", "1700000340000000000"}, {"step", "15"}},
		Script: []ResultSet{{Cols: 4, FailAfter: -1, Rows: [][]Cell{{{U: u64(1)}, {M: map[string]string{"a": "b"}}, {F: f64(2)}, {I: i64(1700000041000000000)}}}}}},
	{Class: "probe/loki_labels", Path: "/loki/api/v1/labels", Script: []ResultSet{{Cols: 1, FailAfter: -1, Rows: [][]Cell{{{S: str("a")}}}}}},
	{Class: "probe/loki_series", Path: "/loki/api/v1/series", Params: []KV{{"match[]", `{a="b"}`}, {"start", "1700000040000000000"}, {"end", "1700000340000000000"}},
		Script: []ResultSet{{Cols: 1, FailAfter: -1, Rows: [][]Cell{{{S: str(`{"a":"b"}`)}}}}}},
	{Class: "probe/prom_labels", Path: "/api/v1/labels", Script: []ResultSet{{Cols: 1, FailAfter: -1, Rows: [][]Cell{{{S: str("a")}}}}}},
	{Class: "probe/tempo_tags", Path: "/api/search/tags", Script: []ResultSet{{Cols: 1, FailAfter: -1, Rows: [][]Cell{{{S: str("a")}}}}}},
	{Class: "probe/tempo_search", Path: "/api/search", Params: []KV{{"tags", "a=b"}, {"start", "1700000040"}, {"end", "1700000340"}},
		Script: []ResultSet{{Cols: 5, FailAfter: -1}}},
	{Class: "probe/tempo_trace", Path: "/api/traces/0123456789abcdef0123456789abcdef",
		Script: []ResultSet{{Cols: 7, FailAfter: -1, Rows: [][]Cell{{{S: str("0123456789abcdef")}, {S: str("01234567")}, {S: str("")}, {I: i64(1700000040000000000)}, {I: i64(1000)}, {I: i64(1)}, {S: str(zipOK)}}}}}},
}

func faulted(c *Case) bool {
	if c.Boot.Settings != "" || c.Boot.Tables != "" || c.AbortAfter != nil || c.HangUp {
		return true
	}
	for _, rs := range c.Script {
		if rs.QueryErr || rs.FailAfter >= 0 || rs.Stall {
			return true
		}
	}
	for _, st := range c.Then {
		if faulted(st) {
			return true
		}
	}
	return false
}

// a request whose statement the database refuses: it must be ANSWERED (whatever the status). StableSqlxDBWrapper takes its
// write lock on this path to rebuild the pool, so this is the request that finds a lock an earlier request left behind.
var dbErrorProbe = &Case{Class: "probe/db_error", Path: "/loki/api/v1/labels", Script: []ResultSet{{Cols: 1, FailAfter: -1, QueryErr: true}}}

// followUp serves the probes (first with a cold version cache, then warm) and reports the first one that is not answered
// with a 200 within the deadline; "" = the process keeps serving.
func followUp(deadline time.Duration) string {
	for round, cold := range []bool{true, true, false} {
		ps := probes
		if round == 0 {
			ps = []*Case{dbErrorProbe}
		}
		for _, p := range ps {
			if round == 2 && p.Class != "probe/loki_range" && p.Class != "probe/tempo_search" {
				continue // the warm round only repeats the users of the version cache
			}
			curScript.Store(&scriptT{sets: p.Script})
			setCache(cold)
			setPoolSize(0)
			ctx, cancel := context.WithCancel(context.Background())
			req := buildRequest(p, ctx)
			rec := httptest.NewRecorder()
			done := make(chan string, 1)
			go runInProcess(rec, req, done)
			select {
			case pn := <-done:
				cancel()
				if pn != "" {
					return p.Class + ": handler panic " + pn
				}
				if rec.Code != 200 && round != 0 {
					return fmt.Sprintf("%s: status %d", p.Class, rec.Code)
				}
			case <-time.After(deadline):
				cancel()
				return p.Class + ": not answered (blocked)"
			}
		}
	}
	return ""
}

// runCase returns nil when the handler did not return within the deadline (caller must exit).
func runCase(c *Case, deadline time.Duration) *Obs {
	obs := &Obs{}
	curScript.Store(&scriptT{sets: c.Script, boot: c.Boot})
	setCache(c.Cold)
	setPoolSize(c.MaxConns)
	base := census()
	rows0 := atomic.LoadInt64(&openRows)
	q0 := atomic.LoadInt64(&queriesSeen)
	stmts0 = atomic.LoadInt64(&stmtsSeen)
	rebuilds0 = atomic.LoadInt64(&poolRebuilds)
	ctx, cancel := context.WithCancel(context.Background())
	if c.HangUp {
		for len(stalledCh) > 0 {
			<-stalledCh
		}
		go func() {
			select {
			case <-stalledCh:
			case <-time.After(400 * time.Millisecond):
			case <-ctx.Done():
			}
			cancel()
		}()
	}
	req := buildRequest(c, ctx)
	if req == nil {
		cancel()
		obs.Outcome = "resp"
		obs.Status = 400
		return obs
	}
	rec := httptest.NewRecorder()
	var w http.ResponseWriter = rec
	if c.AbortAfter != nil && !c.Tcp {
		w = &abortWriter{rec: rec, limit: *c.AbortAfter, cancel: cancel}
	}
	done := make(chan string, 1)
	t0 := time.Now()
	if c.Tcp {
		oc, st, p := serveTCP(c, req, deadline)
		obs.Ms = time.Since(t0).Milliseconds()
		obs.Outcome, obs.Status, obs.Panic = oc, st, p
		if v, ok := wsObs.LoadAndDelete(fmt.Sprint(c.ID)); ok {
			w := v.([3]interface{})
			obs.WsMsgs, obs.WsEmpty, obs.WsEnd = w[0].(int), w[1].(int), w[2].(string)
		}
		if oc == "hang" {
			cancel()
			return obs
		}
		done <- "\x00tcp"
	} else {
		go runInProcess(w, req, done)
	}
	select {
	case p := <-done:
		if p == "\x00tcp" {
			break
		}
		obs.Ms = time.Since(t0).Milliseconds()
		if p != "" {
			obs.Outcome = "abort"
			obs.Panic = p
		} else {
			obs.Outcome = "resp"
			obs.Status = rec.Code
		}
	case <-time.After(deadline):
		cancel()
		obs.Outcome = "hang"
		obs.Ms = time.Since(t0).Milliseconds()
		return obs
	}
	return finishCase(c, obs, rec, cancel, base, rows0, q0)
}

func runInProcess(w http.ResponseWriter, req *http.Request, done chan string) {
	func() {
		// net/http recovers a handler panic, logs it and closes the connection: no HTTP response
		defer func() {
			if r := recover(); r != nil {
				done <- fmt.Sprint(r)
				return
			}
			done <- ""
		}()
		router.ServeHTTP(w, req)
	}()
}

func finishCase(c *Case, obs *Obs, rec *httptest.ResponseRecorder, cancel context.CancelFunc, base map[string]gor, rows0, q0 int64) *Obs {
	cancel() // what net/http does with the request context once the handler returned
	obs.BodyLen = rec.Body.Len()
	if obs.Status >= 400 {
		bh := rec.Body.Bytes()
		if len(bh) > 160 {
			bh = bh[:160]
		}
		obs.BodyHead = strings.ToValidUTF8(string(bh), "?")
	}
	var js interface{}
	obs.JSONOk = json.Unmarshal(rec.Body.Bytes(), &js) == nil
	if c.ExpectItems != nil {
		k := -1
		if doc, ok := js.(map[string]interface{}); ok && obs.JSONOk {
			if arr, ok := doc["data"].([]interface{}); ok {
				k = len(arr)
			}
		}
		obs.Items = &k
	}
	obs.Queries = atomic.LoadInt64(&queriesSeen) - q0
	obs.Stmts = atomic.LoadInt64(&stmtsSeen) - stmts0
	defer func() { obs.Rebuilds = atomic.LoadInt64(&poolRebuilds) - rebuilds0 }()
	// goroutines started for the request must be gone; give the scheduler a moment
	var left []gor
	waitMs := c.WaitMs
	if waitMs <= 0 {
		waitMs = 900
	}
	if leaksSeen >= 8 && waitMs > 200 {
		waitMs = 200 // leaks are established in this process: do not spend the budget waiting for more of them
	}
	tEnd := time.Now().Add(time.Duration(waitMs) * time.Millisecond)
	for i := 0; ; i++ {
		left = left[:0]
		for id, g := range census() {
			if _, ok := base[id]; !ok {
				left = append(left, g)
			}
		}
		if (len(left) == 0 && atomic.LoadInt64(&openRows) <= rows0) || time.Now().After(tEnd) {
			break
		}
		if i > 30 {
			i = 30
		}
		time.Sleep(time.Duration(2+i) * time.Millisecond)
	}
	for _, g := range left {
		obs.Leaked = append(obs.Leaked, qrynFrames(g.text))
	}
	if len(left) > 0 {
		leaksSeen++
	}
	sort.Strings(obs.Leaked)
	obs.RowsOpen = atomic.LoadInt64(&openRows) - rows0
	return obs
}

// ---------------------------------------------------------------- worker

type marker struct {
	Start *int `json:"start,omitempty"`
	ID    *int `json:"id,omitempty"`
	Obs   *Obs `json:"obs,omitempty"`
}

func worker(casesPath, outPath string, deadline time.Duration, memMB uint64) {
	if memMB > 0 {
		lim := syscall.Rlimit{Cur: memMB << 20, Max: memMB << 20}
		_ = syscall.Setrlimit(syscall.RLIMIT_AS, &lim)
	}
	setup()
	f, err := os.Create(outPath)
	if err != nil {
		panic(err)
	}
	put := func(m marker) {
		b, _ := json.Marshal(m)
		f.Write(append(b, '\n'))
	}
	var cases []*Case
	hx.ReadLines(casesPath, func(line []byte) {
		c := &Case{}
		if err := json.Unmarshal(line, c); err != nil {
			panic(err)
		}
		cases = append(cases, c)
	})
	for _, c := range cases {
		id := c.ID
		put(marker{Start: &id})
		obs := runCase(c, deadline)
		poisoned := obs.Outcome == "hang"
		for _, st := range c.Then {
			if poisoned {
				break
			}
			st.ID = id
			so := runCase(st, deadline)
			obs.Steps = append(obs.Steps, so)
			poisoned = so.Outcome == "hang"
		}
		if !poisoned && faulted(c) {
			obs.Followup = followUp(1500 * time.Millisecond)
		}
		put(marker{ID: &id, Obs: obs})
		if strings.HasSuffix(obs.Followup, "(blocked)") {
			f.Close()
			os.Exit(3) // a handler of the follow-up is still blocked: fresh process for the rest
		}
		var ms runtime.MemStats
		runtime.ReadMemStats(&ms)
		if ms.HeapAlloc > 256<<20 {
			debug.FreeOSMemory() // what an earlier request allocated must not decide the fate of a later one
		}
		if poisoned {
			f.Close()
			os.Exit(3) // the process is poisoned (a handler is still running): let the parent start a fresh one
		}
	}
	f.Close()
}

// ---------------------------------------------------------------- parent

var rePanicLine = regexp.MustCompile(`(?m)^(panic: .*|fatal error: .*)$`)

func runBatch(self string, batch []*Case, dir string, tag string, deadline time.Duration, memMB uint64) {
	rest := batch
	round := 0
	for len(rest) > 0 {
		round++
		cf := fmt.Sprintf("%s/%s_%d.cases", dir, tag, round)
		of := fmt.Sprintf("%s/%s_%d.out", dir, tag, round)
		o := hx.OpenOut(cf)
		for _, c := range rest {
			o.Put(c)
		}
		o.Close()
		ctx, cancel := context.WithTimeout(context.Background(), time.Duration(len(rest))*deadline+30*time.Second)
		cmd := exec.CommandContext(ctx, self, "--worker", "--cases", cf, "--out", of,
			"--deadline-ms", fmt.Sprint(deadline.Milliseconds()), "--mem-mb", fmt.Sprint(memMB))
		var stderr bytes.Buffer
		cmd.Stderr = &stderr
		cmd.Stdout = nil
		err := cmd.Run()
		timedOut := ctx.Err() != nil
		cancel()
		byID := map[int]*Case{}
		for _, c := range rest {
			byID[c.ID] = c
		}
		started := -1
		ndone := 0
		if _, e := os.Stat(of); e == nil {
			hx.ReadLines(of, func(line []byte) {
				var m marker
				if json.Unmarshal(line, &m) != nil {
					return
				}
				if m.Start != nil {
					started = *m.Start
				}
				if m.ID != nil && m.Obs != nil {
					byID[*m.ID].Obs = m.Obs
					ndone++
					started = -1
				}
			})
		}
		os.Remove(cf)
		os.Remove(of)
		if started >= 0 {
			// the process died (or was killed by the deadline) while serving this case
			msg := ""
			if m := rePanicLine.FindString(stderr.String()); m != "" {
				msg = m
			} else if err != nil {
				msg = err.Error()
			}
			oc := "crash"
			if timedOut {
				oc = "hang"
			}
			st := stderr.String()
			if len(st) > 1500 {
				st = st[:1500]
			}
			byID[started].Obs = &Obs{Outcome: oc, Panic: msg + " || " + firstQrynFrame(st)}
			ndone++
		}
		if ndone == 0 {
			// the worker could not even start: report and stop (harness failure, not an observation)
			fmt.Fprintln(os.Stderr, "worker failed to run:", err, stderr.String())
			os.Exit(2)
		}
		var nr []*Case
		hangs := 0
		for _, c := range batch {
			if c.Obs != nil && (c.Obs.Outcome == "hang" || strings.HasSuffix(c.Obs.Followup, "(blocked)") || (len(c.Obs.Steps) > 0 && c.Obs.Steps[len(c.Obs.Steps)-1].Outcome == "hang")) {
				hangs++
			}
		}
		for _, c := range rest {
			if c.Obs == nil {
				if hangs >= 3 {
					c.Obs = &Obs{Outcome: "skipped"} // the batch keeps hanging: enough evidence, keep the run short
					continue
				}
				nr = append(nr, c)
			}
		}
		rest = nr
	}
}

func firstQrynFrame(st string) string {
	for _, ln := range strings.Split(st, "\n") {
		if strings.HasPrefix(ln, "github.com/metrico/qryn/") {
			return strings.TrimPrefix(ln, "github.com/metrico/qryn/")
		}
	}
	return ""
}

func main() {
	isWorker := flag.Bool("worker", false, "run the cases of --cases in this process")
	deadlineMs := flag.Int("deadline-ms", 4000, "per-request deadline")
	memMB := flag.Uint64("mem-mb", 6144, "address-space limit of a worker (MiB), 0 = none")
	par := flag.Int("par", 6, "parallel workers")
	batchSz := flag.Int("batch", 60, "cases per worker process")
	budgetS := flag.Int("budget-s", 0, "overall time budget of the parent in seconds (0 = none): batches not started by then are skipped")
	qpContract := flag.Bool("qpcontract", false, "print the report on strconv.QuotedPrefix over the label-document rows of --seed (one JSON line) and exit")
	fastFillMode := flag.Bool("fastfill", false, "run the fastFill trials through the real FixPeriodPlanner (one JSON line each) and exit")
	fl := hx.ParseFlags()
	deadline := time.Duration(*deadlineMs) * time.Millisecond
	if *fastFillMode {
		out := hx.OpenOut(fl.Out)
		for _, t := range fastFillTrials(fl.N) {
			out.Put(t)
		}
		out.Close()
		return
	}
	if *qpContract {
		out := hx.OpenOut(fl.Out)
		out.Put(qpContractReport(fl.Seed, fl.N))
		out.Close()
		return
	}
	if *isWorker {
		worker(fl.Cases, fl.Out, deadline, *memMB)
		return
	}
	var cases []*Case
	if fl.Cases != "" {
		hx.ReadLines(fl.Cases, func(line []byte) {
			c := &Case{}
			if err := json.Unmarshal(line, c); err != nil {
				panic(err)
			}
			c.Obs = nil
			cases = append(cases, c)
		})
	} else {
		cases = generate(fl.Seed, fl.N)
	}
	self, err := os.Executable()
	if err != nil {
		panic(err)
	}
	dir, err := os.MkdirTemp("", "readfuzz")
	if err != nil {
		panic(err)
	}
	defer os.RemoveAll(dir)
	var wg sync.WaitGroup
	tStart := time.Now()
	sem := make(chan struct{}, *par)
	for k := 0; k*(*batchSz) < len(cases); k++ {
		lo, hi := k*(*batchSz), (k+1)*(*batchSz)
		if hi > len(cases) {
			hi = len(cases)
		}
		sem <- struct{}{}
		if *budgetS > 0 && time.Since(tStart) > time.Duration(*budgetS)*time.Second {
			<-sem
			for _, c := range cases[lo:hi] {
				c.Obs = &Obs{Outcome: "skipped"}
			}
			continue
		}
		wg.Add(1)
		go func(k int, b []*Case) {
			defer wg.Done()
			defer func() { <-sem }()
			runBatch(self, b, dir, fmt.Sprintf("b%d", k), deadline, *memMB)
		}(k, cases[lo:hi])
	}
	wg.Wait()
	out := hx.OpenOut(fl.Out)
	for _, c := range cases {
		out.Put(c)
	}
	out.Close()
}
