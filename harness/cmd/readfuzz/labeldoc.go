package main

// Stored label documents on the series endpoints (/loki/api/v1/series, /api/v1/series): QueryLabelsService.Series
// decodes every time_series row in its row-streaming goroutine (storedLabels: encoding/json, else the fallback for
// names and values written with strconv.Quote). That goroutine has no recover: whatever the decoder does with a row
// that is not a well-formed document decides whether the PROCESS survives. The rows here are therefore label documents
// in both stored forms (JSON, Go-quoted with escapes no JSON reader accepts) cut at EVERY byte position, and the same
// documents with one byte removed / replaced by a structural character. Part of modelled stream 2 (ReadFwd.v: a row
// that scans is forwarded or skipped, class 2xx, one statement); on top of the class the number of series answered is
// compared with the number of complete documents among the rows (cut documents only: exactly one of the prefixes of a
// document is a document).

import (
	"encoding/json"
	"fmt"
	"math/rand"
	"strconv"
	"strings"
)

var labelDocFixed = []string{
	`{"job":"b","level":"info"}`,
	`{"a": "b", "c": "d"}`,
	"{\"a\\x01\":\"b\\a\",\"c\":\"\\U000e0001\"}",
	`{"a":"}","b{":":,\" \\"}`,
}

var labelDocAlphabet = []string{"a", "b", "z", "0", " ", ":", ",", "{", "}", `"`, `\`, "\x01", "\a", "\v", "é", "\U000e0001", "\n", "'", "="}

func randLabelText(r *rand.Rand, min int) string {
	var sb strings.Builder
	for n := min + r.Intn(4); n > 0; n-- {
		sb.WriteString(labelDocAlphabet[r.Intn(len(labelDocAlphabet))])
	}
	return sb.String()
}

// a well-formed stored document: JSON as the writer stores it today, or the legacy strconv.Quote form
func randLabelDoc(r *rand.Rand) string {
	n := 1 + r.Intn(3)
	var names, vals []string
	for i := 0; i < n; i++ {
		names = append(names, []string{"job", "level", "a", "__name__"}[r.Intn(4)]+randLabelText(r, 0))
		vals = append(vals, randLabelText(r, 0))
	}
	if r.Intn(2) == 0 {
		m := map[string]string{}
		for i := range names {
			m[names[i]] = vals[i]
		}
		b, _ := json.Marshal(m)
		return string(b)
	}
	sep, col := ",", ":"
	if r.Intn(3) == 0 {
		sep, col = ", ", ": "
	}
	var parts []string
	for i := range names {
		parts = append(parts, strconv.Quote(names[i])+col+strconv.Quote(vals[i]))
	}
	return "{" + strings.Join(parts, sep) + "}"
}

func labelDocCase(id int, fep, kind, doc string, rows []string, expect int) *Case {
	c := &Case{ID: id, Method: "GET", Class: "fwd/" + fep + "/labeldoc-" + kind}
	m := &FwdModel{Ep: "fwd", Fep: fep, FailAfter: -1, Sel: "ok", Start: num(baseSec), End: num(baseSec + 300)}
	if fep == "loki_series" {
		c.Path = "/loki/api/v1/series"
		c.Params = []KV{{"start", fmt.Sprintf("%d000000000", baseSec)}, {"end", fmt.Sprintf("%d000000000", baseSec+300)}, {"match[]", `{a="b"}`}}
	} else {
		c.Path = "/api/v1/series"
		c.Params = []KV{{"start", fmt.Sprint(baseSec)}, {"end", fmt.Sprint(baseSec + 300)}, {"match[]", `{a="b"}`}}
	}
	rs := ResultSet{Match: "", Cols: 1, FailAfter: -1}
	for _, t := range rows {
		m.Rows = append(m.Rows, "ok")
		rs.Rows = append(rs.Rows, []Cell{{S: str(t)}})
	}
	c.Script = []ResultSet{rs}
	if expect >= 0 {
		c.ExpectItems = &expect
	}
	b, _ := json.Marshal(m)
	c.Model = b
	return c
}

// labelDocCases: per document and series endpoint one request whose rows are ALL prefixes of the document (the full
// document first and last, so that a reader that stops early shows), and one whose rows are the one-byte mutants.
func labelDocCases(seed int64, id0 int) []*Case {
	r := rand.New(rand.NewSource(seed ^ 0x6c626c646f63))
	docs := append([]string{}, labelDocFixed...)
	for i := 0; i < 4; i++ {
		docs = append(docs, randLabelDoc(r))
	}
	var res []*Case
	id := id0
	for k, doc := range docs {
		fep := []string{"loki_series", "prom_series"}[k%2]
		if k >= len(labelDocFixed) && r.Intn(2) == 0 {
			fep = []string{"loki_series", "prom_series"}[(k+1)%2]
		}
		cuts := []string{doc}
		for i := 0; i <= len(doc); i++ {
			cuts = append(cuts, doc[:i])
		}
		res = append(res, labelDocCase(id, fep, "cut", doc, cuts, 2))
		id++
		var muts []string
		for i := 0; i < len(doc); i++ {
			muts = append(muts, doc[:i]+doc[i+1:])
			muts = append(muts, doc[:i]+[]string{`"`, ":", ",", "}", "{", " ", `\`}[r.Intn(7)]+doc[i+1:])
		}
		res = append(res, labelDocCase(id, fep, "mutant", doc, muts, -1))
		id++
	}
	// the fixed documents also against the other endpoint
	for k, doc := range labelDocFixed {
		fep := []string{"loki_series", "prom_series"}[(k+1)%2]
		cuts := []string{doc}
		for i := 0; i <= len(doc); i++ {
			cuts = append(cuts, doc[:i])
		}
		res = append(res, labelDocCase(id, fep, "cut", doc, cuts, 2))
		id++
	}
	return res
}

// ---- round 8: strconv.QuotedPrefix against the contract model/ReadLabelDoc.v's termination theorem needs of it
// (consumes_something: err == nil -> 1 <= len(q) <= len(s); the real one returns at least the two quotes and a prefix of s),
// on EVERY suffix of every row the label-document requests of this run carry (cut documents and one-byte mutants), and a
// sample of (text, len(q) or 0) on suffixes of the cut rows that start with a double quote, for the comparison with
// ReadLabelDoc.qp_scan inside Coq. Pure function of the standard library: runs in the parent, no request involved.
type QPSample struct {
	Hex  string `json:"hex"`
	Real int    `json:"real"`
}

type QPReport struct {
	Rows       int        `json:"rows"`
	Calls      int        `json:"calls"`
	Accepted   int        `json:"accepted"`
	MinLen     int        `json:"min_len"`
	MaxLen     int        `json:"max_len"`
	Violations []string   `json:"violations"`
	Samples    []QPSample `json:"samples"`
}

func qpContractReport(seed int64, maxSamples int) *QPReport {
	rep := &QPReport{MinLen: -1, Violations: []string{}, Samples: []QPSample{}}
	seenRow := map[string]bool{}
	seenSample := map[string]bool{}
	var pool []QPSample
	for _, c := range labelDocCases(seed, 0) {
		cut := strings.Contains(c.Class, "labeldoc-cut")
		for _, row := range c.Script[0].Rows {
			t := ""
			if row[0].S != nil {
				t = *row[0].S
			}
			if seenRow[t] {
				continue
			}
			seenRow[t] = true
			rep.Rows++
			for i := 0; i <= len(t); i++ {
				s := t[i:]
				q, err := strconv.QuotedPrefix(s)
				rep.Calls++
				real := 0
				if err == nil {
					rep.Accepted++
					real = len(q)
					if len(q) < 2 || len(q) > len(s) || s[:len(q)] != q {
						if len(rep.Violations) < 5 {
							rep.Violations = append(rep.Violations, fmt.Sprintf("QuotedPrefix(%q) = %q", s, q))
						}
						if len(q) > len(s) {
							continue
						}
					}
					if rep.MinLen < 0 || len(q) < rep.MinLen {
						rep.MinLen = len(q)
					}
					if len(q) > rep.MaxLen {
						rep.MaxLen = len(q)
					}
				}
				if cut && len(s) > 0 && s[0] == '"' && !seenSample[s] {
					seenSample[s] = true
					pool = append(pool, QPSample{Hex: fmt.Sprintf("%x", s), Real: real})
				}
			}
		}
	}
	// an even pick over the pool (deterministic), so that accepted and refused texts of every document are among the samples
	if maxSamples <= 0 || len(pool) <= maxSamples {
		rep.Samples = append(rep.Samples, pool...)
	} else {
		for k := 0; k < maxSamples; k++ {
			rep.Samples = append(rep.Samples, pool[k*len(pool)/maxSamples])
		}
	}
	return rep
}
