package main

// Round 8: fastFill (planner_from_fix.go), the doubling loop of the goroutine FixPeriodPlanner.Process starts itself, driven
// through the REAL FixPeriodPlanner over one entry per trial (a fake upstream RequestProcessor feeds it): the entry's range
// window covers cells [a, a+n) of a series of `total` cells (step 1 s, start at the epoch), for every slice length n = 1..(--n)+1
// at several offsets, windows cut by the end of the series included. Observed: which cells of the answer hold the value.
// Compared inside Coq with model/ReadFastFill.v (ff_predicted: the slice through fast_fill_exec). In-process, no request: a
// panic here would be the harness's own (recovered per trial and reported as observed = [-1]).

import (
	"fmt"
	"os"
	"time"

	logql_transpiler_v2 "github.com/metrico/qryn/reader/logql/logql_transpiler_v2"
	"github.com/metrico/qryn/reader/logql/logql_transpiler_v2/shared"
)

type FFTrial struct {
	ID       int    `json:"id"`
	A        int    `json:"a"`
	N        int    `json:"n"`
	Total    int    `json:"total"`
	Observed []int  `json:"observed"`
	Err      string `json:"err,omitempty"`
}

type ffMain struct{ ts int64 }

func (f *ffMain) IsMatrix() bool { return true }
func (f *ffMain) Process(ctx *shared.PlannerContext, in chan []shared.LogEntry) (chan []shared.LogEntry, error) {
	out := make(chan []shared.LogEntry)
	go func() {
		defer close(out)
		out <- []shared.LogEntry{{TimestampNS: f.ts, Fingerprint: 7, Value: 1, Labels: map[string]string{"a": "b"}}}
	}()
	return out, nil
}

// one trial: range d seconds (slice of d+1 cells unless cut by the ends), the entry in window number q, series of total cells
func ffTrial(id int, d, q, total int) *FFTrial {
	sec := int64(time.Second)
	t := &FFTrial{ID: id, Total: total, Observed: []int{}}
	a, b := q*d, (q+1)*d // idxFrom, idxTo with _from = 0, step = 1 s
	if b > total-1 {
		b = total - 1
	}
	t.A, t.N = a, b-a+1
	// a panic in the planner's own goroutine ends this process: the last line on stderr names the trial
	fmt.Fprintf(os.Stderr, "fastfill trial id=%d range_s=%d window=%d cells=%d slice=[%d:%d]\n", id, d, q, total, a, b+1)
	ctx := &shared.PlannerContext{From: time.Unix(0, 0), To: time.Unix(0, int64(total-1)*sec), Step: time.Second}
	p := &logql_transpiler_v2.FixPeriodPlanner{Main: &ffMain{ts: int64(q*d)*sec + sec/2}, Duration: time.Duration(d) * time.Second}
	done := make(chan struct{})
	go func() {
		defer close(done)
		ch, err := p.Process(ctx, nil)
		if err != nil {
			t.Err = err.Error()
			return
		}
		for batch := range ch {
			for _, e := range batch {
				if e.Value == 1 {
					t.Observed = append(t.Observed, int(e.TimestampNS/sec))
				}
			}
		}
	}()
	select {
	case <-done:
	case <-time.After(5 * time.Second):
		t.Err = "no answer within 5 s"
		t.Observed = []int{-1}
	}
	return t
}

func fastFillTrials(maxRange int) []*FFTrial {
	var res []*FFTrial
	id := 0
	stuck := 0
	for d := 1; d <= maxRange && stuck < 2; d++ {
		for _, q := range []int{0, 1, 2} {
			t := ffTrial(id, d, q, 200)
			if t.Err != "" {
				stuck++ // a loop that does not end keeps its core: two witnesses are enough
			}
			res = append(res, t)
			id++
		}
	}
	if stuck >= 2 {
		return res
	}
	// windows cut by the end of the series: every slice length 1..20 once more, ending at the last cell
	for n := 1; n <= 20; n++ {
		d := 50
		total := d + n // window 1 = cells [50, 100] cut to [50, total-1]
		res = append(res, ffTrial(id, d, 1, total))
		id++
	}
	return res
}
