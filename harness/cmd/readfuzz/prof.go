package main

// Modelled stream 4: the Pyroscope read handlers (coq/model/ReadProf.v): outcome class AND number of SQL statements.
// Requests are well-formed most of the time (JSON with the field names encoding/json actually matches -- profile_typeID,
// label_selector -- or protobuf), so they reach planning, the statement, the row loops and the tree functions; the
// rest exercises every way the prelude refuses a request. Result sets are typed as the statement's columns are
// (ClickHouse cannot return anything else), their CONTENT is free: NULL cells, type ids with too few parts, payloads
// that do not decode, trees with cycles, self loops, shared ids, negative and huge values, empty arrays.

import (
	"encoding/hex"
	"encoding/json"
	"fmt"
	"math"
	"math/rand"
	"strings"

	"github.com/metrico/qryn/reader/prof"
	v1 "github.com/metrico/qryn/reader/prof/types/v1"
	"google.golang.org/protobuf/proto"
)

type TRow struct {
	P uint64 `json:"p"`
	F uint64 `json:"f"`
	I uint64 `json:"i"`
	S int64  `json:"s"`
	T int64  `json:"t"`
}

type PfRow struct {
	K    string      `json:"k"` // ok | null | short | badpayload | tree
	Tree []TRow      `json:"tree,omitempty"`
	Fns  [][2]uint64 `json:"fns,omitempty"` // (function id, name token)
}

type PfSide struct {
	Sel       string  `json:"sel"` // ok | noparse | noplan
	Rows      []PfRow `json:"rows"`
	FailAfter int     `json:"fail_after"`
	QueryErr  bool    `json:"query_err"`
}

type ProfModel struct {
	Ep         string `json:"ep"`  // always "prof"
	Pep        string `json:"pep"` // profile_types | label_names | label_values | merge_stacktraces | select_series | merge_profile | series | stats | settings | analyze | render_diff
	BodyOk     bool   `json:"body_ok"`
	TypeOk     bool   `json:"type_ok"`
	TypesEqual bool   `json:"types_equal"`
	Left       PfSide `json:"left"`
	Right      PfSide `json:"right"`
	Start      int64  `json:"start"`
	End        int64  `json:"end"`
	Step       int64  `json:"step"`      // int64(step) as THIS platform converts it
	StepText   string `json:"step_text"` // the double the client sent
	Cyclic     bool   `json:"cyclic,omitempty"`
}

var profEps = []string{"profile_types", "label_names", "label_values", "merge_stacktraces", "merge_stacktraces", "select_series", "select_series",
	"merge_profile", "series", "stats", "settings", "analyze", "render_diff", "render_diff", "render_diff"}

var profPaths = map[string]string{
	"profile_types": "/querier.v1.QuerierService/ProfileTypes", "label_names": "/querier.v1.QuerierService/LabelNames",
	"label_values": "/querier.v1.QuerierService/LabelValues", "merge_stacktraces": "/querier.v1.QuerierService/SelectMergeStacktraces",
	"select_series": "/querier.v1.QuerierService/SelectSeries", "merge_profile": "/querier.v1.QuerierService/SelectMergeProfile",
	"series": "/querier.v1.QuerierService/Series", "stats": "/querier.v1.QuerierService/GetProfileStats",
	"settings": "/settings.v1.SettingsService/Get", "analyze": "/querier.v1.QuerierService/AnalyzeQuery", "render_diff": "/pyroscope/render-diff",
}

const profTypeID = "process_cpu:cpu:nanoseconds:cpu:nanoseconds"

// selectors over the label `name`: parse and plan / do not parse / parse but do not plan
func profSel(r *rand.Rand, name string) (string, string) {
	switch k := r.Intn(20); {
	case k == 0:
		return []string{"", "{", "{" + name + "=}", name, "{" + name + `="b"`, "{" + name + `="b"} x`}[r.Intn(6)], "noparse"
	case k == 1:
		return []string{"{" + name + `=~"("}`, "{" + name + `="\x"}`, "{" + name + `!~"[a"}`}[r.Intn(3)], "noplan"
	}
	return []string{"{" + name + `="b"}`, "{" + name + `=~"b.*", c!="d"}`, "{" + name + "=`x`, service_name=\"s\"}", "{" + name + `="", d=~".*"}`,
		"{" + name + `!="b", __name__="process_cpu"}`, "{" + name + `=~"b|", __profile_type__="` + profTypeID + `",}`}[r.Intn(6)], "ok"
}

// a small tree over a small id space: cycles, self loops, ids shared between parents and duplicate keys are common
func genTree(r *rand.Rand) ([]TRow, [][2]uint64, bool) {
	n := []int{0, 1, 2, 4, 8, 14}[r.Intn(6)]
	ids := uint64(2 + r.Intn(6))
	vals := []int64{0, 1, 5, 7, 100, 1 << 62, -1, -5}
	var rows []TRow
	treeShaped := r.Intn(3) == 0
	for i := 0; i < n; i++ {
		t := TRow{P: uint64(r.Intn(int(ids))), F: uint64(r.Intn(5)), I: uint64(r.Intn(int(ids))), S: vals[r.Intn(len(vals)-2)], T: vals[r.Intn(len(vals)-2)]}
		if treeShaped {
			t.I = uint64(i + 1)
			t.P = uint64(r.Intn(i + 1))
		}
		if r.Intn(25) == 0 {
			t.S = vals[len(vals)-1-r.Intn(2)]
		}
		if r.Intn(10) == 0 {
			t.I = []uint64{0, math.MaxUint64, t.P}[r.Intn(3)]
		}
		rows = append(rows, t)
	}
	var fns [][2]uint64
	for i := r.Intn(6); i > 0; i-- {
		fns = append(fns, [2]uint64{uint64(r.Intn(6)), uint64(1 + r.Intn(4))})
	}
	// is some id reachable from itself? (evidence only)
	cyc := false
	kids := map[uint64][]uint64{}
	for _, t := range rows {
		kids[t.P] = append(kids[t.P], t.I)
	}
	for s := range kids {
		seen := map[uint64]bool{}
		st := append([]uint64(nil), kids[s]...)
		for len(st) > 0 {
			x := st[len(st)-1]
			st = st[:len(st)-1]
			if x == s {
				cyc = true
			}
			if !seen[x] {
				seen[x] = true
				st = append(st, kids[x]...)
			}
		}
	}
	return rows, fns, cyc
}

func treeCells(rows []TRow, fns [][2]uint64) []Cell {
	tc, fc := Cell{Empty: "at"}, Cell{Empty: "at"}
	if len(rows) > 0 {
		tc = Cell{}
		for _, t := range rows {
			tc.AT = append(tc.AT, []Cell{{U: u64(t.P)}, {U: u64(t.F)}, {U: u64(t.I)}, {I: i64(t.S)}, {I: i64(t.T)}})
		}
	}
	if len(fns) > 0 {
		fc = Cell{}
		for _, f := range fns {
			fc.AT = append(fc.AT, []Cell{{U: u64(f[0])}, {S: str(fmt.Sprintf("fn%d", f[1]))}})
		}
	}
	return []Cell{tc, fc}
}

var okPayload = func() string {
	p := &prof.Profile{
		SampleType:  []*prof.ValueType{{Type: 1, Unit: 2}},
		StringTable: []string{"", "cpu", "nanoseconds", "main"},
		Function:    []*prof.Function{{Id: 1, Name: 3}},
		Location:    []*prof.Location{{Id: 1, Line: []*prof.Line{{FunctionId: 1}}}},
		Sample:      []*prof.Sample{{LocationId: []uint64{1}, Value: []int64{5}}},
		PeriodType:  &prof.ValueType{Type: 1, Unit: 2},
	}
	b, err := proto.Marshal(p)
	if err != nil {
		panic(err)
	}
	return hex.EncodeToString(b)
}()

// one result set in the shape of the endpoint's statement; returns the abstract rows
func profRows(r *rand.Rand, pep string, side *PfSide, cyclic *bool) ResultSet {
	n := []int{0, 1, 1, 2, 5, 40}[r.Intn(6)]
	cols := map[string]int{"profile_types": 2, "label_names": 1, "label_values": 1, "merge_stacktraces": 2, "select_series": 4, "merge_profile": 1,
		"series": 3, "stats": 3, "analyze": 2, "render_diff": 2, "settings": 1}[pep]
	rs := ResultSet{Cols: cols, FailAfter: -1}
	for i := 0; i < n; i++ {
		k := "ok"
		switch r.Intn(14) {
		case 0:
			k = "null"
		case 1:
			switch pep {
			case "profile_types", "series":
				k = "short"
			case "merge_profile":
				k = "badpayload"
			}
		}
		var row []Cell
		pr := PfRow{K: k}
		tu := Cell{T: []Cell{{S: str("cpu")}, {S: str("nanoseconds")}}}
		tid := []string{"process_cpu:cpu:nanoseconds", "memory:space:bytes", "a:b:c:d", "::"}[r.Intn(4)]
		if k == "short" {
			tid = []string{"abc", "a:b", ""}[r.Intn(3)]
		}
		tags := Cell{AT: [][]Cell{{{S: str("a")}, {S: str("b")}}, {{S: str("service_name")}, {S: str("s")}}}}
		if r.Intn(4) == 0 {
			tags = Cell{Empty: "at"}
		}
		switch pep {
		case "profile_types":
			row = []Cell{{S: str(tid)}, tu}
		case "label_names", "label_values":
			row = []Cell{{S: str(fmt.Sprintf("v%d\"\\", i))}}
		case "merge_stacktraces", "render_diff":
			tr, fns, cyc := genTree(r)
			if k == "ok" {
				pr.K, pr.Tree, pr.Fns = "tree", tr, fns
				if cyc {
					*cyclic = true
				}
			}
			row = treeCells(tr, fns)
		case "select_series":
			row = []Cell{{I: i64(1700000000000 + int64(i)*15000)}, {U: u64(uint64(i / 3))}, tags, {F: f64([]float64{0, 1.5, -2, math.MaxFloat64}[r.Intn(4)])}}
		case "merge_profile":
			row = []Cell{{B: str([]string{okPayload, ""}[r.Intn(2)])}}
			if k == "badpayload" {
				row = []Cell{{B: str([]string{"ffff", "0a03"}[r.Intn(2)])}}
			}
		case "series":
			row = []Cell{tags, {S: str(tid)}, tu}
		case "stats":
			v := int64(r.Intn(2))
			row = []Cell{{I8: &v}, {I: i64(1700000000000)}, {I: i64(1700000300000)}}
		case "analyze":
			row = []Cell{{I: i64([]int64{0, 5, -5, math.MaxInt64}[r.Intn(4)])}, {I: i64(int64(r.Intn(9)) - 1)}}
		default:
			row = []Cell{{S: str("x")}}
		}
		if k == "null" {
			row[0] = Cell{}
		}
		rs.Rows = append(rs.Rows, row)
		side.Rows = append(side.Rows, pr)
	}
	side.FailAfter = -1
	switch r.Intn(10) {
	case 0:
		side.QueryErr, rs.QueryErr = true, true
	case 1:
		side.FailAfter = r.Intn(n + 1)
		rs.FailAfter = side.FailAfter
	}
	return rs
}

var profTimes = []int64{0, 1, -1, 1700000000000, 1700000300000, math.MinInt64, math.MaxInt64, 253402300800000, -62135596800001}

func profCase(r *rand.Rand, id int) *Case {
	m := &ProfModel{Ep: "prof", Pep: profEps[r.Intn(len(profEps))], BodyOk: true, TypeOk: true, TypesEqual: true}
	c := &Case{ID: id, Method: "POST", Path: profPaths[m.Pep]}
	m.Left.Sel, m.Right.Sel = "ok", "ok"
	m.Left.FailAfter, m.Right.FailAfter = -1, -1
	m.Start, m.End = profTimes[r.Intn(len(profTimes))], profTimes[r.Intn(len(profTimes))]
	if r.Intn(2) == 0 {
		m.Start, m.End = 1700000000000, 1700000300000
	}
	usesSel := m.Pep != "profile_types" && m.Pep != "stats" && m.Pep != "settings"
	usesType := m.Pep == "merge_stacktraces" || m.Pep == "select_series" || m.Pep == "merge_profile"
	tid := profTypeID
	if r.Intn(12) == 0 {
		tid = []string{"x", "", "a:b:c:d", "process_cpu"}[r.Intn(4)]
		m.TypeOk = false
	}
	if m.Pep == "render_diff" {
		c.Method = "GET"
		lsel, lk := profSel(r, "lft")
		rsel, rk := profSel(r, "rgt")
		for lsel == "" || lsel == "lft" || (lk == "noparse" && !strings.Contains(lsel, "{")) {
			lsel, lk = profSel(r, "lft")
		}
		for rsel == "" || rsel == "rgt" || (rk == "noparse" && !strings.Contains(rsel, "{")) {
			rsel, rk = profSel(r, "rgt")
		}
		m.Left.Sel, m.Right.Sel = lk, rk
		ltid, rtid := tid, tid
		lq, rq := ltid+lsel, rtid+rsel
		switch r.Intn(30) {
		case 0:
			m.TypesEqual = false
			rq = "memory:alloc_space:bytes:space:bytes" + rsel
		case 1:
			m.TypesEqual = false // no '{': detachTypeId refuses the query
			lq = ltid
		}
		if lq == "" || rq == "" {
			m.BodyOk = false // an empty query is a missing required parameter
		}
		ts := func(v int64) string { return fmt.Sprint(v) }
		c.Params = []KV{{"leftQuery", lq}, {"rightQuery", rq}, {"leftFrom", ts(m.Start)}, {"leftUntil", ts(m.End)},
			{"rightFrom", ts(profTimes[r.Intn(len(profTimes))])}, {"rightUntil", ts(profTimes[r.Intn(len(profTimes))])}}
		switch r.Intn(30) {
		case 0:
			m.BodyOk = false
			k := r.Intn(len(c.Params))
			c.Params = append(c.Params[:k:k], c.Params[k+1:]...)
		case 1:
			m.BodyOk = false
			c.Params[2+r.Intn(4)].V = []string{"1e3", "abc", "9223372036854775808", "1.5", "NaN", " 1"}[r.Intn(6)]
		case 2:
			m.BodyOk = false
			c.Params[r.Intn(len(c.Params))].V = ""
		}
		right := profRows(r, m.Pep, &m.Right, &m.Cyclic)
		right.Match = "'rgt'"
		left := profRows(r, m.Pep, &m.Left, &m.Cyclic)
		c.Script = []ResultSet{right, left}
	} else {
		sel, sk := `{a="b"}`, "ok"
		if usesSel {
			sel, sk = profSel(r, "a")
			m.Left.Sel = sk
		}
		if !usesType {
			m.TypeOk = true
		}
		step := []float64{15, 1, 0, -5, 0.5, 1e30, -1e30, math.Copysign(0, -1), 9223372036854775808.0, math.NaN(), math.Inf(1), math.Inf(-1)}[r.Intn(12)]
		m.StepText = fmt.Sprint(step)
		m.Step = int64(step) // implementation-defined beyond the range: whatever this platform does
		asProto := r.Intn(2) == 0
		jsonable := !math.IsNaN(step) && !math.IsInf(step, 0)
		if !jsonable {
			asProto = true
		}
		var msg proto.Message
		js := map[string]interface{}{"start": m.Start, "end": m.End}
		switch m.Pep {
		case "profile_types":
			msg = &prof.ProfileTypesRequest{Start: m.Start, End: m.End}
		case "label_names":
			msg = &v1.LabelNamesRequest{Matchers: []string{sel}, Start: m.Start, End: m.End}
			js["matchers"] = []string{sel}
		case "label_values":
			msg = &v1.LabelValuesRequest{Name: "a", Matchers: []string{sel}, Start: m.Start, End: m.End}
			js["matchers"], js["name"] = []string{sel}, "a"
		case "merge_stacktraces":
			msg = &prof.SelectMergeStacktracesRequest{ProfileTypeID: tid, LabelSelector: sel, Start: m.Start, End: m.End}
			js["profile_typeID"], js["label_selector"] = tid, sel
		case "select_series":
			msg = &prof.SelectSeriesRequest{ProfileTypeID: tid, LabelSelector: sel, Start: m.Start, End: m.End, Step: step, GroupBy: []string{"a"}[:r.Intn(2)]}
			js["profile_typeID"], js["label_selector"], js["step"] = tid, sel, step
		case "merge_profile":
			msg = &prof.SelectMergeProfileRequest{ProfileTypeID: tid, LabelSelector: sel, Start: m.Start, End: m.End}
			js["profile_typeID"], js["label_selector"] = tid, sel
		case "series":
			msg = &prof.SeriesRequest{Matchers: []string{sel}, LabelNames: []string{"a"}[:r.Intn(2)], Start: m.Start, End: m.End}
			js["matchers"] = []string{sel}
		case "analyze":
			msg = &prof.AnalyzeQueryRequest{Query: sel, Start: m.Start, End: m.End}
			js["query"] = sel
		default: // stats, settings: the body is not read
			msg = &prof.ProfileTypesRequest{}
		}
		if asProto {
			b, err := proto.Marshal(msg)
			if err != nil {
				panic(err)
			}
			c.Body, c.BodyHex = string(b), hex.EncodeToString(b)
			c.ContentType = []string{"application/proto", "application/grpc-web", ""}[r.Intn(3)]
			if c.Body == "" && c.ContentType == "" {
				c.ContentType = "application/proto"
			}
		} else {
			b, _ := json.Marshal(js)
			c.Body = string(b)
			c.ContentType = "application/json"
		}
		if m.Pep != "stats" && m.Pep != "settings" {
			switch r.Intn(14) {
			case 0: // not a message at all
				m.BodyOk = false
				if asProto {
					c.Body = []string{"\x00\x01\x02", "\x0a\xff", "\xff\xff\xff\xff"}[r.Intn(3)]
					c.BodyHex = hex.EncodeToString([]byte(c.Body))
				} else {
					c.BodyHex = ""
					c.Body = []string{`{"start":`, `[1]`, `{"start":"x"}`, `{"start":1e30}`, `{"end":1.5}`, ``, `nul`}[r.Intn(7)]
				}
			}
		}
		if c.Body == "" && m.BodyOk {
			// an empty protobuf body is the all-default message; buildRequest would send the (empty) parameters as a form
			c.Body, c.BodyHex, c.ContentType = "{}", "", "application/json"
			if m.BodyOk {
				// all defaults: no selector, no type id
				if usesSel {
					m.Left.Sel = "noparse"
				}
			}
		}
		c.Script = []ResultSet{profRows(r, m.Pep, &m.Left, &m.Cyclic)}
	}
	c.Class = "prof/" + m.Pep
	if !m.BodyOk {
		c.Class += "/bad-body"
	} else if m.Left.Sel != "ok" || (m.Pep == "render_diff" && m.Right.Sel != "ok") {
		c.Class += "/bad-selector"
	} else if !m.TypeOk || !m.TypesEqual {
		c.Class += "/bad-type"
	}
	if m.Cyclic {
		c.Class += "+cyclic-tree"
	}
	if r.Intn(5) == 0 {
		k := []int{0, 1, 64, 4000}[r.Intn(4)]
		c.AbortAfter = &k
		c.Class += "+client-gone"
	}
	if c.BodyHex != "" {
		c.Body = ""
	}
	b, _ := json.Marshal(m)
	c.Model = b
	return c
}
