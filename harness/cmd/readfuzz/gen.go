package main

import (
	"encoding/json"
	"fmt"
	"math/rand"
)

func u64(v uint64) *uint64   { return &v }
func i64(v int64) *int64     { return &v }
func f64(v float64) *float64 { return &v }
func str(v string) *string   { return &v }

// ---------------------------------------------------------------- abstract description handed to the Coq model

type Param struct {
	K string `json:"k"` // absent | bad | num
	V int64  `json:"v"` // start/end: seconds (sent as V*1e9 ns); step: milliseconds (sent as decimal seconds); limit: the integer
}

type MRow struct {
	Fp   uint64 `json:"fp"`
	Ts   int64  `json:"ts"`   // ns
	Val  int64  `json:"val"`  // sample value (matrix shapes), small integer
	Kind string `json:"kind"` // ok | bad (a cell of the wrong type: rows.Scan fails) | nojson (log line that is not JSON)
}

type ModelCase struct {
	Ep        string `json:"ep"`    // loki_range | loki_instant
	Shape     string `json:"shape"` // log | log_json | rate | agg_json | parse_error
	DurS      int64  `json:"dur_s"` // range of the LogQL range vector in seconds (matrix shapes)
	HasQuery  bool   `json:"has_query"`
	Start     Param  `json:"start"`
	End       Param  `json:"end"`
	Step      Param  `json:"step"`
	Limit     Param  `json:"limit"`
	Rows      []MRow `json:"rows"`
	FailAfter int    `json:"fail_after"`
	QueryErr  bool   `json:"query_err"`
}

var badNums = []string{"abc", "1x", "--1", "1e", "0x", "1_0"}

func (p Param) timeText(r *rand.Rand) (string, bool) {
	switch p.K {
	case "absent":
		return "", false
	case "bad":
		return badNums[r.Intn(len(badNums))], true
	}
	if p.V == 0 {
		return "0", true
	}
	return fmt.Sprintf("%d000000000", p.V), true
}

func (p Param) milliText(r *rand.Rand) (string, bool) {
	switch p.K {
	case "absent":
		return "", false
	case "bad":
		return badNums[r.Intn(len(badNums))], true
	}
	m := p.V
	neg := m < 0
	if neg {
		m = -m
	}
	s := fmt.Sprintf("%d", m/1000)
	if m%1000 != 0 {
		fr := fmt.Sprintf("%03d", m%1000)
		for len(fr) > 0 && fr[len(fr)-1] == '0' {
			fr = fr[:len(fr)-1]
		}
		s += "." + fr
	}
	if neg {
		s = "-" + s
	}
	return s, true
}

func (p Param) intText(r *rand.Rand) (string, bool) {
	switch p.K {
	case "absent":
		return "", false
	case "bad":
		return badNums[r.Intn(len(badNums))], true
	}
	return fmt.Sprint(p.V), true
}

func num(v int64) Param { return Param{K: "num", V: v} }

const baseSec = int64(1700000000)

var queries = map[string][]string{
	"log":         {`{a="b"}`, `{a="b", c=~"d.*"}`, `{a="b"} |= "x"`, `{a="b"} | json x="y"`},
	"log_json":    {`{a="b"} | json`, `{a="b"} | logfmt`, `{a="b"} | json | x="1"`},
	"rate":        {`rate({a="b"}[%s])`, `count_over_time({a="b"}[%s])`, `sum by (a) (rate({a="b"}[%s]))`, `bytes_rate({a="b"} |= "x" [%s])`},
	"agg_json":    {`sum by (x) (count_over_time({a="b"} | json [%s]))`, `count_over_time({a="b"} | json [%s])`, `rate({a="b"} | json [%s])`},
	"parse_error": {`{a="b"`, `rate({a="b"})`, `{`, `sum(`, `{a="b"} | json |`, "\x00\xff"},
}

func durText(s int64) string {
	if s%60 == 0 && s > 0 {
		return fmt.Sprintf("%dm", s/60)
	}
	return fmt.Sprintf("%ds", s)
}

func pickStep(r *rand.Rand) Param {
	switch r.Intn(12) {
	case 0:
		return Param{K: "absent"}
	case 1:
		return Param{K: "bad"}
	case 2:
		return num(0)
	case 3:
		return num(-1000 * int64(1+r.Intn(100)))
	case 4:
		return num(int64(1 + r.Intn(999))) // 0.001 .. 0.999 s
	case 5:
		return num(1000 * 1000000000) // huge
	default:
		return num(1000 * []int64{1, 5, 15, 30, 60, 300, 3600}[r.Intn(7)])
	}
}

func pickRange(r *rand.Rand) (Param, Param) {
	startS := baseSec + int64(r.Intn(1000))*15
	lenS := []int64{60, 300, 3600, 6 * 3600}[r.Intn(4)]
	s, e := num(startS), num(startS+lenS)
	switch r.Intn(16) {
	case 0:
		return Param{K: "absent"}, e
	case 1:
		return s, Param{K: "absent"}
	case 2:
		return Param{K: "bad"}, e
	case 3:
		return s, Param{K: "bad"}
	case 4:
		return e, s // reversed
	case 5:
		return num(0), e // from the epoch
	case 6:
		return num(0), num(0)
	case 7:
		return num(-startS), e
	case 8:
		return s, s
	case 9:
		return s, num(4000000000)
	}
	return s, e
}

func pickLimit(r *rand.Rand) Param {
	switch r.Intn(8) {
	case 0:
		return Param{K: "absent"}
	case 1:
		return Param{K: "bad"}
	case 2:
		return num(0)
	case 3:
		return num(-5)
	case 4:
		return num(int64(1 + r.Intn(4)))
	}
	return num([]int64{10, 100, 1000, 5000}[r.Intn(4)])
}

func truncS(t, d int64) int64 {
	if d <= 0 {
		return t
	}
	q := t / d
	if t%d < 0 {
		q--
	}
	return q * d
}

// rows of the main statement: a faithful database only returns rows inside the window [fromS,toS) of the statement
func genRows(r *rand.Rand, mc *ModelCase, fromS, toS int64) {
	mc.FailAfter = -1
	switch r.Intn(12) {
	case 1:
		mc.QueryErr = true
	}
	if toS <= fromS {
		return
	}
	n := 0
	switch r.Intn(6) {
	case 0:
		n = 0
	case 1:
		n = 1
	case 2:
		n = 100 + r.Intn(3) - 1 // around the batch size of Scan
	case 3:
		n = 200 + r.Intn(120)
	default:
		n = 2 + r.Intn(12)
	}
	nfp := 1 + r.Intn(3)
	span := toS - fromS
	perFp := n/nfp + 1
	for i := 0; i < n; i++ {
		fp := uint64(1 + i/perFp)
		if r.Intn(40) == 0 {
			fp = 0
		}
		// ascending inside a stream; whole seconds plus a few ns
		off := (span * int64(i%perFp)) / int64(perFp)
		ts := (fromS+off)*1000000000 + int64(r.Intn(3))
		mc.Rows = append(mc.Rows, MRow{Fp: fp, Ts: ts, Val: int64(r.Intn(4)), Kind: "ok"})
	}
	switch r.Intn(10) {
	case 0:
		if n > 0 {
			mc.Rows[r.Intn(n)].Kind = "bad"
		}
	case 1:
		mc.FailAfter = r.Intn(n + 1)
	case 2, 3:
		if n > 0 && (mc.Shape == "log_json" || mc.Shape == "agg_json") {
			mc.Rows[r.Intn(n)].Kind = "nojson"
		}
	}
}

func lokiCase(r *rand.Rand, id int) *Case {
	mc := &ModelCase{Ep: "loki_range", HasQuery: true}
	shapes := []string{"log", "log", "log_json", "log_json", "rate", "rate", "rate", "agg_json", "agg_json", "parse_error"}
	mc.Shape = shapes[r.Intn(len(shapes))]
	if r.Intn(6) == 0 {
		mc.Ep = "loki_instant"
	}
	mc.DurS = []int64{60, 300, 5, 1, 3600}[r.Intn(5)]
	q := queries[mc.Shape][r.Intn(len(queries[mc.Shape]))]
	if mc.Shape == "rate" || mc.Shape == "agg_json" {
		q = fmt.Sprintf(q, durText(mc.DurS))
	}
	if r.Intn(25) == 0 {
		mc.HasQuery = false
	}
	mc.Start, mc.End = pickRange(r)
	mc.Step = pickStep(r)
	mc.Limit = pickLimit(r)
	fromS, toS := baseSec, baseSec+300
	if mc.Start.K == "num" {
		fromS = mc.Start.V
	}
	if mc.End.K == "num" {
		toS = mc.End.V
	}
	if mc.Ep == "loki_instant" {
		fromS = toS - 300
	}
	if mc.Shape == "rate" || mc.Shape == "agg_json" {
		fromS, toS = truncS(fromS, mc.DurS), truncS(toS, mc.DurS)+mc.DurS
	}
	genRows(r, mc, fromS, toS)
	c := &Case{ID: id, Class: mc.Ep + "/" + mc.Shape, Method: "GET"}
	if mc.Ep == "loki_range" {
		c.Path = "/loki/api/v1/query_range"
	} else {
		c.Path = "/loki/api/v1/query"
	}
	if mc.HasQuery {
		c.Params = append(c.Params, KV{"query", q})
	}
	add := func(k string, s string, ok bool) {
		if ok {
			c.Params = append(c.Params, KV{k, s})
		}
	}
	if mc.Ep == "loki_range" {
		s, ok := mc.Start.timeText(r)
		add("start", s, ok)
		s, ok = mc.End.timeText(r)
		add("end", s, ok)
	} else {
		// the instant endpoint takes `time` (integer ns; 0 or absent = now): modelled through End
		if mc.End.K == "num" && mc.End.V <= 0 {
			mc.End = num(baseSec)
		}
		if mc.End.K == "absent" {
			mc.End = num(baseSec)
		}
		s, ok := mc.End.timeText(r)
		add("time", s, ok)
	}
	s, ok := mc.Step.milliText(r)
	add("step", s, ok)
	s, ok = mc.Limit.intText(r)
	add("limit", s, ok)
	matrix := mc.Shape == "rate"
	rs := ResultSet{Match: "", Cols: 4, FailAfter: mc.FailAfter, QueryErr: mc.QueryErr}
	for _, row := range mc.Rows {
		lbl := map[string]string{"a": "b", "fp": fmt.Sprint(row.Fp)}
		cells := []Cell{{U: u64(row.Fp)}, {M: lbl}}
		if matrix {
			cells = append(cells, Cell{F: f64(float64(row.Val))})
		} else {
			if row.Kind == "nojson" {
				cells = append(cells, Cell{S: str("plain text line")})
			} else {
				cells = append(cells, Cell{S: str(fmt.Sprintf(`{"x":"%d","msg":"m%d"}`, row.Val, row.Ts%97))})
			}
		}
		cells = append(cells, Cell{I: i64(row.Ts)})
		if row.Kind == "bad" {
			cells[0] = Cell{S: str("not-a-number")}
		}
		rs.Rows = append(rs.Rows, cells)
	}
	c.Script = []ResultSet{rs}
	b, _ := json.Marshal(mc)
	c.Model = b
	return c
}

func generate(seed int64, n int) []*Case {
	r := hx_rand(seed)
	var res []*Case
	for i := 0; i < n; i++ {
		res = append(res, lokiCase(r, i))
	}
	return res
}

func hx_rand(seed int64) *rand.Rand { return rand.New(rand.NewSource(seed)) }
