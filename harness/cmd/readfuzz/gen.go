package main

import (
	"encoding/hex"
	"encoding/json"
	"fmt"
	"math/rand"
	"os"
	"strings"
	"time"
)

func u64(v uint64) *uint64   { return &v }
func i64(v int64) *int64     { return &v }
func f64(v float64) *float64 { return &v }
func str(v string) *string   { return &v }

// ---------------------------------------------------------------- abstract description handed to the Coq model

type Param struct {
	K string `json:"k"` // absent | bad | num
	V int64  `json:"v"` // start/end/time: seconds (sent as V*1e9 ns); step: milliseconds (sent as decimal seconds); limit: the integer
}

type MRow struct {
	Fp   uint64 `json:"fp"`
	Ts   int64  `json:"ts"`   // ns
	Val  int64  `json:"val"`  // sample value (matrix shapes), small integer
	Kind string `json:"kind"` // ok | bad (a cell of the wrong type: rows.Scan fails) | nojson (log line that is not JSON)
}

type ModelCase struct {
	Ep        string   `json:"ep"`    // loki_range | loki_instant | tempo_trace
	Shape     string   `json:"shape"` // log | log_json | rate | agg_json | parse_error
	DurS      int64    `json:"dur_s"` // range of the LogQL range vector in seconds (matrix shapes)
	HasQuery  bool     `json:"has_query"`
	Start     Param    `json:"start"`
	End       Param    `json:"end"`
	Step      Param    `json:"step"`
	Limit     Param    `json:"limit"`
	Rows      []MRow   `json:"rows"`
	FailAfter int      `json:"fail_after"`
	QueryErr  bool     `json:"query_err"`
	BootFail  bool     `json:"boot_fail"`       // cold version cache and one of dbVersion's two statements fails
	Outside   bool     `json:"outside,omitempty"` // some row lies outside the window of the statement
	Spans     []string `json:"spans,omitempty"` // tempo_trace: ok | decode_err | panic | unknown
}

var badNums = []string{"abc", "1x", "--1", "1e", "0x", "1..0"}

func (p Param) timeText(r *rand.Rand) (string, bool) {
	switch p.K {
	case "absent":
		return "", false
	case "bad":
		return badNums[r.Intn(len(badNums))], true
	}
	if p.V == 0 {
		return "0", true
	}
	return fmt.Sprintf("%d000000000", p.V), true
}

func (p Param) milliText(r *rand.Rand) (string, bool) {
	switch p.K {
	case "absent":
		return "", false
	case "bad":
		return badNums[r.Intn(len(badNums))], true
	}
	m := p.V
	neg := m < 0
	if neg {
		m = -m
	}
	s := fmt.Sprintf("%d", m/1000)
	if m%1000 != 0 {
		fr := fmt.Sprintf("%03d", m%1000)
		for len(fr) > 0 && fr[len(fr)-1] == '0' {
			fr = fr[:len(fr)-1]
		}
		s += "." + fr
	}
	if neg {
		s = "-" + s
	}
	return s, true
}

func (p Param) intText(r *rand.Rand) (string, bool) {
	switch p.K {
	case "absent":
		return "", false
	case "bad":
		return badNums[r.Intn(len(badNums))], true
	}
	return fmt.Sprint(p.V), true
}

func num(v int64) Param { return Param{K: "num", V: v} }

const baseSec = int64(1700000040) // a multiple of 3600? no: of 60 (and of 5): buckets of the generated ranges align with it or not on purpose

var queries = map[string][]string{
	"log":         {`{a="b"}`, `{a="b", c=~"d.*"}`, `{a="b"} |= "x"`, `{a="b"} | json x="y"`},
	"log_json":    {`{a="b"} | json`, `{a="b"} | logfmt`},
	"rate":        {`rate({a="b"}[%s])`, `count_over_time({a="b"}[%s])`, `sum by (a) (rate({a="b"}[%s]))`, `bytes_rate({a="b"} |= "x" [%s])`},
	"agg_json":    {`count_over_time({a="b"} | json [%s])`, `rate({a="b"} | json [%s])`, `bytes_over_time({a="b"} | json [%s])`},
	"parse_error": {`{a="b"`, `rate({a="b"})`, `{`, `sum(`, `{a="b"} | json |`, "\x00\xff", `rate({a="b"}[0s])`, `quantile_over_time(0.5, {a="b"} | json | unwrap x [1m])`},
}

func durText(s int64) string {
	if s%60 == 0 && s > 0 {
		return fmt.Sprintf("%dm", s/60)
	}
	return fmt.Sprintf("%ds", s)
}

func pickStep(r *rand.Rand) Param {
	switch r.Intn(12) {
	case 0:
		return Param{K: "absent"}
	case 1:
		return Param{K: "bad"}
	case 2:
		return num(0)
	case 3:
		return num(-1000 * int64(1+r.Intn(100)))
	case 4:
		return num(int64(1 + r.Intn(999))) // 0.001 .. 0.999 s
	case 5:
		return num(1000 * []int64{1000000000, 1000000, 900000}[r.Intn(3)]) // huge: 1e9 s, 1e6 s, 9e5 s
	default:
		return num(1000 * []int64{1, 5, 15, 30, 60, 300, 3600}[r.Intn(7)])
	}
}

func pickRange(r *rand.Rand) (Param, Param) {
	startS := baseSec + int64(r.Intn(1000))*15
	// 165000 s = 11,000 points at step 15 (the cap of FixPeriodPlanner), 99999 / 100000 s = the cap on range windows at [1s]
	lenS := []int64{60, 300, 3600, 6 * 3600, 60, 300, 3600, 165000, 165015, 99999, 100000, 7 * 86400, 400 * 86400}[r.Intn(13)]
	s, e := num(startS), num(startS+lenS)
	switch r.Intn(16) {
	case 0:
		return Param{K: "absent"}, e
	case 1:
		return s, Param{K: "absent"}
	case 2:
		return Param{K: "bad"}, e
	case 3:
		return s, Param{K: "bad"}
	case 4:
		return e, s // reversed
	case 5:
		return num(0), e // from the epoch
	case 6:
		return num(0), num(0)
	case 7:
		return num(-startS), e
	case 8:
		return s, s
	case 9:
		return s, num(4000000000)
	case 10:
		// more than 292 years: end - start does not fit int64 nanoseconds (it wrapped around in FixPeriodPlanner: fix 7e7939d)
		return num(-5000000000), num([]int64{5000000000, 4300000000, 4223372036}[r.Intn(3)])
	}
	return s, e
}

func pickLimit(r *rand.Rand) Param {
	switch r.Intn(8) {
	case 0:
		return Param{K: "absent"}
	case 1:
		return Param{K: "bad"}
	case 2:
		return num(0)
	case 3:
		return num(-5)
	case 4:
		return num(int64(1 + r.Intn(4)))
	}
	return num([]int64{10, 100, 1000, 5000}[r.Intn(4)])
}

func truncS(t, d int64) int64 {
	if d <= 0 {
		return t
	}
	q := t / d
	if t%d < 0 {
		q--
	}
	return q * d
}

// rows of the main statement: a faithful database only returns rows inside the window [fromS,toS) of the statement
func genRows(r *rand.Rand, mc *ModelCase, fromS, toS int64) {
	mc.FailAfter = -1
	if r.Intn(12) == 1 {
		mc.QueryErr = true
	}
	if toS <= fromS {
		return
	}
	n := 0
	switch r.Intn(6) {
	case 0:
		n = 0
	case 1:
		n = 1
	case 2:
		n = 100 + r.Intn(3) - 1 // around the batch size of Scan
	case 3:
		n = 200 + r.Intn(120)
	default:
		n = 2 + r.Intn(12)
	}
	nfp := 1 + r.Intn(3)
	span := toS - fromS
	perFp := n/nfp + 1
	zeroFirst := r.Intn(20) == 0
	for i := 0; i < n; i++ {
		fp := uint64(1 + i/perFp)
		if zeroFirst && fp == 1 {
			fp = 0 // a series whose fingerprint is 0, first in the result set
		}
		// ascending inside a stream; whole seconds plus a few ns
		off := (span * int64(i%perFp)) / int64(perFp)
		ts := (fromS+off)*1000000000 + int64(r.Intn(3))
		mc.Rows = append(mc.Rows, MRow{Fp: fp, Ts: ts, Val: int64(r.Intn(4)), Kind: "ok"})
	}
	// rows OUTSIDE the window of the statement (a database that evaluates the WHERE clause does not return them; the
	// pipelines must survive them all the same): the first row of the result earlier, the last one later
	if n > 0 && r.Intn(8) == 0 {
		mc.Rows[0].Ts = []int64{(fromS - 1 - int64(r.Intn(5000))) * 1000000000, 0, -5000000000, fromS*1000000000 - 1}[r.Intn(4)]
		mc.Outside = true
	}
	if n > 0 && r.Intn(8) == 0 {
		mc.Rows[n-1].Ts = []int64{(toS + 1 + int64(r.Intn(5000))) * 1000000000, 4000000000000000000, toS*1000000000 + 1}[r.Intn(3)]
		mc.Outside = true
	}
	switch r.Intn(10) {
	case 0:
		if n > 0 {
			mc.Rows[r.Intn(n)].Kind = "bad"
		}
	case 1:
		mc.FailAfter = r.Intn(n + 1)
	case 2, 3:
		if n > 0 && (mc.Shape == "log_json" || mc.Shape == "agg_json") {
			mc.Rows[r.Intn(n)].Kind = "nojson"
		}
	}
}


func lokiCase(r *rand.Rand, id int) *Case {
	for {
		c := lokiCase1(r, id)
		if c != nil {
			return c
		}
	}
}

func lokiCase1(r *rand.Rand, id int) *Case {
	mc := &ModelCase{Ep: "loki_range", HasQuery: true}
	shapes := []string{"log", "log", "log_json", "log_json", "rate", "rate", "rate", "agg_json", "agg_json", "parse_error"}
	mc.Shape = shapes[r.Intn(len(shapes))]
	if r.Intn(6) == 0 {
		mc.Ep = "loki_instant"
	}
	mc.DurS = []int64{60, 300, 5, 1, 3600}[r.Intn(5)]
	q := queries[mc.Shape][r.Intn(len(queries[mc.Shape]))]
	if mc.Shape == "rate" || mc.Shape == "agg_json" {
		q = fmt.Sprintf(q, durText(mc.DurS))
	}
	if r.Intn(25) == 0 {
		mc.HasQuery = false
	}
	mc.Start, mc.End = pickRange(r)
	mc.Step = pickStep(r)
	wraps := mc.Start.K == "num" && mc.Start.V == -5000000000
	if wraps && r.Intn(3) > 0 {
		// few points by the (saturating) cap, yet end - start wraps around in int64
		mc.Step = num(1000 * []int64{1000000000, 1000000, 900000}[r.Intn(3)])
		mc.DurS = 3600
	}
	mc.Limit = pickLimit(r)
	if mc.Ep == "loki_instant" {
		// the instant endpoint takes `time` (integer ns; 0 or absent = now): modelled through End, kept explicit and positive
		if mc.End.K != "bad" && (mc.End.K == "absent" || mc.End.V <= 0) {
			mc.End = num(baseSec)
		}
		mc.Start = Param{K: "absent"}
	}
	fromS, toS := baseSec, baseSec+300
	if mc.Start.K == "num" {
		fromS = mc.Start.V
	}
	if mc.End.K == "num" {
		toS = mc.End.V
	}
	if mc.Ep == "loki_instant" {
		fromS = toS - 300
	}
	matrix := mc.Shape == "rate" || mc.Shape == "agg_json"
	huge := false
	if matrix {
		stepMs := int64(1000)
		if mc.Step.K == "num" {
			stepMs = mc.Step.V
		}
		if stepMs > 0 && toS >= fromS {
			pts := float64(toS-fromS)*1000/float64(stepMs) + 1
			huge = huge || pts > 4e5
		}
		aFrom, aTo := truncS(fromS, mc.DurS), truncS(toS, mc.DurS)+mc.DurS
		huge = huge || float64(aTo-aFrom)/float64(mc.DurS)*2 > 4e5
		fromS, toS = aFrom, aTo
	}
	genRows(r, mc, fromS, toS)
	c := &Case{ID: id, Class: mc.Ep + "/" + mc.Shape, Method: "GET"}
	if huge {
		c.Class += "+wide-window" // more than 4e5 points or range windows: refused by the planner since 5180be1
	}
	if mc.Outside {
		c.Class += "+rows-outside-window"
	}
	if wraps && mc.Ep == "loki_range" {
		c.Class += "+window-wraps-int64"
	}
	if mc.Ep == "loki_range" {
		c.Path = "/loki/api/v1/query_range"
	} else {
		c.Path = "/loki/api/v1/query"
	}
	if mc.HasQuery {
		c.Params = append(c.Params, KV{"query", q})
	}
	add := func(k string, s string, ok bool) {
		if ok {
			c.Params = append(c.Params, KV{k, s})
		}
	}
	if mc.Ep == "loki_range" {
		s, ok := mc.Start.timeText(r)
		add("start", s, ok)
		s, ok = mc.End.timeText(r)
		add("end", s, ok)
	} else {
		s, ok := mc.End.timeText(r)
		add("time", s, ok)
	}
	s, ok := mc.Step.milliText(r)
	add("step", s, ok)
	s, ok = mc.Limit.intText(r)
	add("limit", s, ok)
	rs := ResultSet{Match: "", Cols: 4, FailAfter: mc.FailAfter, QueryErr: mc.QueryErr}
	for _, row := range mc.Rows {
		lbl := map[string]string{"a": "b", "fp": fmt.Sprint(row.Fp)}
		cells := []Cell{{U: u64(row.Fp)}, {M: lbl}}
		if mc.Shape == "rate" {
			cells = append(cells, Cell{F: f64(float64(row.Val))})
		} else if row.Kind == "nojson" {
			cells = append(cells, Cell{S: str("plain text line")})
		} else {
			cells = append(cells, Cell{S: str(fmt.Sprintf(`{"x":"%d","msg":"m%d"}`, row.Val, row.Ts%97))})
		}
		cells = append(cells, Cell{I: i64(row.Ts)})
		if row.Kind == "bad" {
			cells[0] = Cell{S: str("not-a-number")}
		}
		rs.Rows = append(rs.Rows, cells)
	}
	c.Script = []ResultSet{rs}
	switch r.Intn(10) {
	case 0, 1, 2:
		c.Cold = true // the version cache is refreshed by this request
	case 3:
		c.Cold = true
		c.Boot = []Boot{{Settings: "fail"}, {Tables: "fail"}, {Settings: "rows", Tables: "fail"}, {Settings: "fail", Tables: "fail"}}[r.Intn(4)]
		mc.BootFail = true
		c.Class += "+boot-fault"
	case 4:
		c.Cold = true
		c.Boot = []Boot{{Settings: "rows"}, {Tables: "rows"}}[r.Intn(2)] // rows.Err is not looked at: as if the tables were empty
	}
	if !huge && r.Intn(4) == 0 {
		// the client goes away after that many bytes of the answer (the outcome class stays what the model says)
		k := []int{0, 1, 70, 500, 5000}[r.Intn(5)]
		c.AbortAfter = &k
		c.Class += "+client-gone"
	}
	b, _ := json.Marshal(mc)
	c.Model = b
	return c
}

// ---------------------------------------------------------------- Tempo: GET /api/traces/{id}

const zipOK = `{"id":"1","traceId":"2","name":"n","kind":"CLIENT","localEndpoint":{"serviceName":"s"},"tags":{"k":"v"}}`

func tempoCase(r *rand.Rand, id int) *Case {
	mc := &ModelCase{Ep: "tempo_trace"}
	n := r.Intn(8)
	tid, sid := "0123456789abcdef", "01234567"
	rs := ResultSet{Match: "", Cols: 7, FailAfter: -1}
	for i := 0; i < n; i++ {
		t, s, pt, payload := tid, sid, int64(1), zipOK
		kind := "ok"
		switch r.Intn(12) {
		case 0:
			kind, payload = "decode_err", "{"
		case 1:
			kind, pt, payload = "panic", 2, "" // parseOTLP: payload[0]
		case 2:
			kind, t = "panic", "0123" // traceId[:16]
		case 3:
			kind, s = "panic", "01" // id[:8]
		case 4:
			kind, pt = "unknown", int64(3+r.Intn(5))
		case 5:
			kind, pt, payload = "decode_err", 2, "{garbage"
		case 6:
			kind, pt, payload = "decode_err", 2, "\x01\x02garbage"
		}
		mc.Spans = append(mc.Spans, kind)
		rs.Rows = append(rs.Rows, []Cell{{S: str(t)}, {S: str(s)}, {S: str("")}, {I: i64(baseSec * 1000000000)}, {I: i64(1000)}, {I: i64(pt)}, {S: str(payload)}})
	}
	c := &Case{ID: id, Class: "tempo_trace", Method: "GET", Path: []string{"/api/traces/", "/tempo/api/traces/"}[r.Intn(2)] + "0123456789abcdef0123456789abcdef"}
	if r.Intn(3) == 0 {
		c.Accept = "application/protobuf"
	}
	c.Script = []ResultSet{rs}
	if r.Intn(4) == 0 {
		k := []int{0, 1, 100, 400}[r.Intn(4)]
		c.AbortAfter = &k
		c.Class += "+client-gone"
	}
	b, _ := json.Marshal(mc)
	c.Model = b
	return c
}

// ---------------------------------------------------------------- test-only stream: every other read endpoint, mutated and random query bytes

var validQueries = []string{
	`{a="b"}`, `{a="b"} |= "x" != "y"`, `{a=~"b.*", c!="d"} | json | line_format "{{.x}}"`, `rate({a="b"}[1m])`,
	`sum by (a) (count_over_time({a="b"} | logfmt [5m]))`, `avg_over_time({a="b"} | json | unwrap x [1m]) by (a)`,
	`topk(3, rate({a="b"}[1m]))`, `{a="b"} | json | label_format z="{{.x}}" | drop a`, `absent_over_time({a="b"}[1m])`,
	`max by (x) (max_over_time({a="b"} | json | unwrap x [1m])) > 1`, `{a="b"} | regexp "(?P<x>\\d+)"`,
	`up`, `rate(http_requests_total{job="a"}[5m])`, `sum by (job) (up) / 2`, `histogram_quantile(0.9, rate(x_bucket[1m]))`,
	`{.service.name="a"}`, `{.http.status>=200 && name="x"} | count() > 1`, `{duration>1s} || {name=~"a.*"}`,
	`process_cpu:cpu:nanoseconds:cpu:nanoseconds{service_name="a"}`,
}

var insBytes = []byte("{}[]()|=~!\"\\ ,.0a\x00\xff")

func mutate(r *rand.Rand, s string) string {
	b := []byte(s)
	for k := 1 + r.Intn(3); k > 0; k-- {
		switch r.Intn(5) {
		case 0:
			if len(b) > 0 {
				i := r.Intn(len(b))
				b = append(b[:i], b[i+1:]...)
			}
		case 1:
			i := r.Intn(len(b) + 1)
			b = append(b[:i], append([]byte{insBytes[r.Intn(len(insBytes))]}, b[i:]...)...)
		case 2:
			if len(b) > 0 {
				b[r.Intn(len(b))] ^= byte(1 << uint(r.Intn(8)))
			}
		case 3:
			if len(b) > 1 {
				i := r.Intn(len(b) - 1)
				b = b[:i+1]
			}
		case 4:
			i := r.Intn(len(b) + 1)
			j := r.Intn(len(b) + 1)
			if i > j {
				i, j = j, i
			}
			b = append(b[:j:j], append(append([]byte{}, b[i:j]...), b[j:]...)...)
		}
	}
	return string(b)
}

func randBytes(r *rand.Rand) string {
	b := make([]byte, r.Intn(40))
	for i := range b {
		b[i] = byte(r.Intn(256))
	}
	return string(b)
}

func randCell(r *rand.Rand) Cell {
	switch r.Intn(9) {
	case 0:
		return Cell{U: u64(uint64(r.Intn(5)))}
	case 1:
		return Cell{I: i64(baseSec*1000000000 + int64(r.Intn(300))*1000000000)}
	case 2:
		return Cell{F: f64(float64(r.Intn(7)) - 2)}
	case 3:
		return Cell{S: str([]string{"", "x", `{"a":"b"}`, "[1,2]", "0123456789abcdef", "a=b c=d"}[r.Intn(6)])}
	case 4:
		return Cell{M: map[string]string{"a": "b", "__name__": "up"}}
	case 5:
		return Cell{AS: []string{"a", "b"}[:r.Intn(3)]}
	case 6:
		return Cell{AI: []int64{1, 2, 3}[:r.Intn(4)]}
	case 7:
		return Cell{I: i64(int64(r.Intn(5)) - 1)}
	}
	return Cell{}
}

func randScript(r *rand.Rand) []ResultSet {
	cols := 1 + r.Intn(9)
	rs := ResultSet{Match: "", Cols: cols, FailAfter: -1}
	n := []int{0, 1, 3, 120}[r.Intn(4)]
	proto := make([]Cell, cols)
	for j := range proto {
		proto[j] = randCell(r)
	}
	for i := 0; i < n; i++ {
		row := make([]Cell, cols)
		for j := range row {
			if r.Intn(6) == 0 {
				row[j] = randCell(r)
			} else {
				row[j] = proto[j]
			}
		}
		rs.Rows = append(rs.Rows, row)
	}
	switch r.Intn(8) {
	case 0:
		rs.QueryErr = true
	case 1:
		rs.FailAfter = r.Intn(n + 1)
	}
	return []ResultSet{rs}
}

// typed result sets for the endpoints whose scanners we know, so that the happy paths are exercised too
func typedScript(r *rand.Rand, kind string) []ResultSet {
	rs := ResultSet{Match: "", FailAfter: -1}
	n := []int{0, 1, 5, 150}[r.Intn(4)]
	switch kind {
	case "strings":
		rs.Cols = 1
		for i := 0; i < n; i++ {
			rs.Rows = append(rs.Rows, []Cell{{S: str(fmt.Sprintf("v%d\"\\", i))}})
		}
	case "prom_samples": // fingerprint, value, timestamp_ms (CLokiQuerier.Select) -- and labels for the series statement
		rs.Cols = 3
		for i := 0; i < n; i++ {
			rs.Rows = append(rs.Rows, []Cell{{U: u64(uint64(1 + i/50))}, {F: f64(float64(i % 7))}, {I: i64((baseSec + int64(i%50)*15) * 1000)}})
		}
	case "search": // trace_id, root service, root name, start, duration
		rs.Cols = 5
		for i := 0; i < n; i++ {
			rs.Rows = append(rs.Rows, []Cell{{S: str("0123456789abcdef")}, {S: str("svc")}, {S: str("op")}, {I: i64(baseSec * 1000000000)}, {I: i64(12)}})
		}
	case "traceql": // trace_id, span_ids[], durations[], timestamps[], start, duration ms, root service, root name
		rs.Cols = 8
		for i := 0; i < n; i++ {
			k := r.Intn(4)
			ids := make([]string, k)
			ds := make([]int64, k)
			ts := make([]int64, k)
			for j := range ids {
				ids[j] = fmt.Sprintf("%016x", j)
				ds[j] = int64(j)
				ts[j] = int64(j)
			}
			// the three array columns come from groupArray over the same rows: equal lengths (a database that
			// returned unequal ones would crash TraceQLRequestProcessor's goroutine at timestampsNs[i]; not generated)
			rs.Rows = append(rs.Rows, []Cell{{S: str(hex.EncodeToString([]byte("0123456789abcdef")))}, {AS: ids}, {AI: ds}, {AI: ts},
				{I: i64(baseSec * 1000000000)}, {F: f64(1.5)}, {S: str("svc")}, {S: str("op")}})
		}
	}
	switch r.Intn(10) {
	case 0:
		rs.QueryErr = true
	case 1:
		rs.FailAfter = r.Intn(n + 1)
	}
	if kind == "prom_samples" {
		// the labels of the selected fingerprints are fetched by a second statement (labelsGetter.Fetch)
		ls := ResultSet{Match: "JSONExtractKeysAndValues", Cols: 2, FailAfter: -1}
		for fp := 1; fp <= 1+n/50; fp++ {
			ls.Rows = append(ls.Rows, []Cell{{U: u64(uint64(fp))}, {LL: [][]string{{"__name__", "up"}, {"job", fmt.Sprintf("j%d", fp)}}}})
		}
		switch r.Intn(12) {
		case 0:
			ls.QueryErr = true
		case 1:
			ls.Rows = append(ls.Rows, []Cell{{U: u64(9)}, {S: str("not an array")}})
		}
		return []ResultSet{ls, rs}
	}
	if kind == "traceql" {
		// the complexity estimate is asked first (one integer column); above 10M the request is split by time
		cx := ResultSet{Match: "_count", Cols: 1, FailAfter: -1}
		for i := r.Intn(3); i > 0; i-- {
			cx.Rows = append(cx.Rows, []Cell{{I: i64([]int64{0, 5, 20000000, -1}[r.Intn(4)])}})
		}
		return []ResultSet{cx, rs}
	}
	return []ResultSet{rs}
}

func pickQuery(r *rand.Rand) (string, string) {
	switch r.Intn(10) {
	case 0:
		return randBytes(r), "random"
	case 1, 2, 3, 4:
		return mutate(r, validQueries[r.Intn(len(validQueries))]), "mutated"
	}
	return validQueries[r.Intn(len(validQueries))], "valid"
}

func oddNum(r *rand.Rand, base int64) string {
	switch r.Intn(12) {
	case 0:
		return ""
	case 1:
		return "0"
	case 2:
		return fmt.Sprint(-base)
	case 3:
		return "99999999999999999999"
	case 4:
		return "NaN"
	case 5:
		return "1e400"
	case 6:
		return badNums[r.Intn(len(badNums))]
	case 7:
		return "2023-11-14T22:13:20Z"
	}
	return fmt.Sprint(base + int64(r.Intn(600)))
}

func testCase(r *rand.Rand, id int) *Case {
	c := &Case{ID: id, Method: "GET"}
	q, qk := pickQuery(r)
	add := func(k, v string) {
		if v != "" || r.Intn(4) == 0 {
			c.Params = append(c.Params, KV{k, v})
		}
	}
	ep := r.Intn(17)
	switch ep {
	case 0, 1: // Loki log/matrix queries with arbitrary text; the step stays positive and the range small (modelled stream covers the rest)
		c.Class = "test/loki_range/" + qk
		c.Path = "/loki/api/v1/query_range"
		add("query", q)
		add("start", fmt.Sprintf("%d000000000", baseSec))
		add("end", fmt.Sprintf("%d000000000", baseSec+300))
		add("step", []string{"1", "15", "0.5", "60", "1m", "abc", ""}[r.Intn(7)])
		add("limit", []string{"", "0", "10", "-1", "x"}[r.Intn(5)])
		add("direction", []string{"", "forward", "backward", "x"}[r.Intn(4)])
		c.Script = lokiScript(r)
	case 2:
		c.Class = "test/loki_instant/" + qk
		c.Path = "/loki/api/v1/query"
		add("query", q)
		add("time", []string{"", "0", fmt.Sprintf("%d000000000", baseSec), "abc", "-5"}[r.Intn(5)])
		add("step", []string{"", "1", "15"}[r.Intn(3)])
		c.Script = lokiScript(r)
	case 3:
		c.Class = "test/loki_labels"
		c.Path = []string{"/loki/api/v1/label", "/loki/api/v1/labels", "/loki/api/v1/label/a/values", "/loki/api/v1/label/%00/values"}[r.Intn(4)]
		if r.Intn(3) == 0 {
			c.Method = "POST"
		}
		add("start", oddNum(r, baseSec*1000000000))
		add("end", oddNum(r, (baseSec+300)*1000000000))
		add("query", q)
		c.Script = typedScript(r, "strings")
	case 4:
		c.Class = "test/series/" + qk
		c.Path = []string{"/loki/api/v1/series", "/api/v1/series"}[r.Intn(2)]
		c.Params = append(c.Params, KV{"match[]", q})
		if r.Intn(3) == 0 {
			c.Params = append(c.Params, KV{"match[]", validQueries[r.Intn(len(validQueries))]})
		}
		add("start", oddNum(r, baseSec))
		add("end", oddNum(r, baseSec+300))
		c.Script = typedScript(r, "strings")
	case 5, 6: // Prometheus range: the controller must answer 400 for a step <= 0
		c.Path = "/api/v1/query_range"
		if r.Intn(3) == 0 {
			c.Method = "POST"
		}
		add("query", q)
		add("start", oddNum(r, baseSec))
		add("end", oddNum(r, baseSec+300))
		step := []string{"15", "1", "60", "0", "-5", "0.0", "-0.5s", "1m", "abc", ""}[r.Intn(10)]
		c.Params = append(c.Params, KV{"step", step})
		c.Class = "test/prom_range/" + qk
		c.Script = typedScript(r, "prom_samples")
		if r.Intn(4) == 0 {
			// wide window x small step: more than 11,000 points must be refused, a wide window with a large step served
			c.Class = "test/prom_range_wide/" + qk
			c.Params = []KV{{"query", q}, {"start", []string{"0", "-1700000000", "1"}[r.Intn(3)]}, {"end", fmt.Sprint(baseSec + 300)},
				{"step", []string{"1", "0.001", "15", "154546", "200000", "1000d"}[r.Intn(6)]}}
		}
	case 7:
		c.Class = "test/prom_instant/" + qk
		c.Path = "/api/v1/query"
		if r.Intn(5) == 0 {
			// subqueries / ranges over a wide window with a small resolution: bounded by the engine's sample limit and timeout
			q, qk = []string{`count_over_time(up[10d:1s])`, `max_over_time(rate(up[1m])[1000d:1m])`, `sum(count_over_time(up[100y]))`, `up[30d:1s]`, `up[30d:1ms]` /* recorded finding promql-subquery-steps-unbounded */}[r.Intn(5)], "wide"
			c.Class = "test/prom_instant_wide"
		}
		add("query", q)
		add("time", oddNum(r, baseSec))
		c.Script = typedScript(r, "prom_samples")
	case 8:
		c.Class = "test/prom_labels"
		c.Path = []string{"/api/v1/labels", "/api/v1/label/job/values", "/api/v1/label/__name__/values", "/api/v1/metadata", "/api/v1/rules", "/api/v1/query_exemplars"}[r.Intn(6)]
		add("start", oddNum(r, baseSec))
		add("end", oddNum(r, baseSec+300))
		c.Params = append(c.Params, KV{"match[]", q})
		c.Script = typedScript(r, "strings")
	case 9:
		c.Class = "test/tempo_tags"
		c.Path = []string{"/api/search/tags", "/tempo/api/search/tags", "/api/search/tag/a/values", "/api/search/tag/span.a/values",
			"/api/search/tag/resource.service.name/values", "/api/v2/search/tags", "/api/v2/search/tag/.a/values", "/api/echo"}[r.Intn(8)]
		add("start", oddNum(r, baseSec))
		add("end", oddNum(r, baseSec+300))
		add("limit", []string{"", "0", "-1", "5", "999999", "x"}[r.Intn(6)])
		add("q", q)
		c.Script = typedScript(r, "strings")
	case 10, 11:
		c.Class = "test/tempo_search/" + qk
		c.Path = []string{"/api/search", "/tempo/api/search"}[r.Intn(2)]
		if r.Intn(2) == 0 {
			add("q", q)
			c.Script = typedScript(r, "traceql")
		} else {
			add("tags", []string{"", "a=b", "a=b c=d", "service.name=x name=y", "=", "a", "\x00"}[r.Intn(7)])
			c.Script = typedScript(r, "search")
		}
		add("start", oddNum(r, baseSec))
		add("end", oddNum(r, baseSec+300))
		add("limit", []string{"", "0", "-1", "5", "x"}[r.Intn(5)])
		add("minDuration", []string{"", "1s", "0", "-1s", "x"}[r.Intn(5)])
		add("maxDuration", []string{"", "1s", "0", "x"}[r.Intn(4)])
	case 12:
		c.Class = "test/tempo_trace_id"
		c.Path = "/api/traces/" + []string{"0123456789abcdef0123456789abcdef", "0123", "zz", strings.Repeat("a", 64), "%00", "0123456789abcdef0123456789abcde"}[r.Intn(6)]
		if r.Intn(3) == 0 {
			c.Path += "/json"
		}
		add("start", oddNum(r, baseSec))
		add("end", oddNum(r, baseSec+300))
		c.Script = randScript(r)
	case 13:
		c.Class = "test/prof"
		c.Method = "POST"
		c.Path = []string{"/querier.v1.QuerierService/ProfileTypes", "/querier.v1.QuerierService/LabelNames", "/querier.v1.QuerierService/LabelValues",
			"/querier.v1.QuerierService/SelectMergeStacktraces", "/querier.v1.QuerierService/SelectSeries", "/querier.v1.QuerierService/SelectMergeProfile",
			"/querier.v1.QuerierService/Series", "/querier.v1.QuerierService/GetProfileStats", "/settings.v1.SettingsService/Get",
			"/querier.v1.QuerierService/AnalyzeQuery"}[r.Intn(10)]
		c.Body = []string{`{}`, `{"start":1700000000000,"end":1700000300000}`, `{"start":"x"}`, ``, `{"profileTypeID":"process_cpu:cpu:nanoseconds:cpu:nanoseconds","labelSelector":"{a=\"b\"}","start":1700000000000,"end":1700000300000,"step":15}`,
			`{"profileTypeID":"x","labelSelector":"{","start":0,"end":0,"step":0}`, `{"name":"a","matchers":["{a=\"b\"}"],"start":1,"end":2}`, "\x00\x01\x02"}[r.Intn(8)]
		c.ContentType = []string{"application/json", "application/proto", ""}[r.Intn(3)]
		c.Script = randScript(r)
	case 14:
		c.Class = "test/any_endpoint_random_rows/" + qk
		c.Path = []string{"/loki/api/v1/query_range", "/loki/api/v1/query", "/api/v1/query_range", "/api/search", "/loki/api/v1/series", "/pyroscope/render-diff", "/api/v1/status/buildinfo"}[r.Intn(7)]
		add("query", q)
		add("q", q)
		add("match[]", q)
		add("start", fmt.Sprintf("%d000000000", baseSec))
		add("end", fmt.Sprintf("%d000000000", baseSec+300))
		add("step", "15")
		c.Script = randScript(r)
	case 15:
		if r.Intn(2) == 0 {
			return tcpResetCase(r, id)
		}
		fallthrough
	default:
		c.Class = "test/tail_no_upgrade"
		c.Path = "/loki/api/v1/tail"
		c.WaitMs = 2500 // the tail goroutine notices the closed watcher at its next one-second tick
		add("query", q)
		c.Script = lokiScript(r)
	}
	switch r.Intn(10) {
	case 0, 1, 2:
		c.Cold = true
	case 3:
		c.Cold = true
		c.Boot = []Boot{{Settings: "fail"}, {Tables: "fail"}, {Settings: "rows"}, {Tables: "rows"}, {Settings: "rows", Tables: "fail"}}[r.Intn(5)]
		c.Class += "+boot-fault"
	}
	if r.Intn(5) == 0 && c.WaitMs == 0 {
		k := []int{0, 1, 64, 1000, 20000}[r.Intn(5)]
		c.AbortAfter = &k
		c.Class += "+client-gone"
	}
	return c
}

// a real TCP client that reads a few KiB of a multi-megabyte answer and resets the connection
func tcpResetCase(r *rand.Rand, id int) *Case {
	c := &Case{ID: id, Method: "GET", Tcp: true}
	k := []int{0, 100, 4096, 65536, 300000}[r.Intn(5)]
	c.AbortAfter = &k
	big := func(cols int, row []Cell, n int) []ResultSet {
		rows := make([][]Cell, 0, 50)
		for i := 0; i < 50; i++ {
			rows = append(rows, row)
		}
		return []ResultSet{{Match: "", Cols: cols, FailAfter: -1, Rows: rows, Repeat: n / 50}}
	}
	t0, t1 := fmt.Sprintf("%d000000000", baseSec), fmt.Sprintf("%d000000000", baseSec+300)
	line := strings.Repeat("x", 120)
	switch r.Intn(7) {
	case 5:
		c.Class = "test/tcp_reset/prom_range"
		c.Path = "/api/v1/query_range"
		c.Params = []KV{{"query", "up"}, {"start", fmt.Sprint(baseSec)}, {"end", fmt.Sprint(baseSec + 3000)}, {"step", "1"}}
		c.Script = big(3, []Cell{{U: u64(1)}, {F: f64(1)}, {I: i64(baseSec * 1000)}}, 20000)
	case 6:
		// live tail over a websocket: read a message or two, then the client is gone (the ticker goroutine notices at its next tick)
		c.Class = "test/ws_tail_client_gone"
		c.Ws = true
		k := r.Intn(3)
		c.AbortAfter = &k
		c.WaitMs = 2500
		c.Path = "/loki/api/v1/tail"
		c.Params = []KV{{"query", []string{`{a="b"}`, `{a="b"} | json`, `{a="b"} |= "x"`}[r.Intn(3)]}}
		c.Script = []ResultSet{{Match: "", Cols: 4, FailAfter: -1, Rows: [][]Cell{{{U: u64(1)}, {M: map[string]string{"a": "b"}}, {S: str(`{"x":"1"}`)}, {I: i64(time.Now().UnixNano())}}}}}
		switch r.Intn(3) {
		case 1:
			// the statement of the first tick fails: the tail goroutine ends, the handler must end the session (not spin)
			c.Class = "test/ws_tail_db_error"
			c.Script[0].QueryErr = true
			k = 3000
		case 2:
			// a cell that cannot be scanned: an error entry, sent to the client, then the tail goroutine ends
			c.Class = "test/ws_tail_bad_cell"
			c.Script[0].Rows = [][]Cell{{{U: u64(1)}, {M: map[string]string{"a": "b"}}, {I: i64(5)}, {S: str("x")}}}
			k = 3000
		}
	case 0:
		c.Class = "test/tcp_reset/loki_range_log"
		c.Path = "/loki/api/v1/query_range"
		c.Params = []KV{{"query", `{a="b"}`}, {"start", t0}, {"end", t1}, {"limit", "1000000"}}
		c.Script = big(4, []Cell{{U: u64(1)}, {M: map[string]string{"a": "b"}}, {S: str(line)}, {I: i64((baseSec + 1) * 1000000000)}}, 150000)
	case 1:
		c.Class = "test/tcp_reset/loki_range_json"
		c.Path = "/loki/api/v1/query_range"
		c.Params = []KV{{"query", `{a="b"} | json`}, {"start", t0}, {"end", t1}, {"limit", "1000000"}}
		c.Script = big(4, []Cell{{U: u64(1)}, {M: map[string]string{"a": "b"}}, {S: str(`{"k":"` + line + `"}`)}, {I: i64((baseSec + 1) * 1000000000)}}, 100000)
	case 2:
		c.Class = "test/tcp_reset/loki_instant"
		c.Path = "/loki/api/v1/query"
		c.Params = []KV{{"query", `{a="b"}`}, {"time", t1}, {"limit", "1000000"}}
		c.Script = big(4, []Cell{{U: u64(1)}, {M: map[string]string{"a": "b"}}, {S: str(line)}, {I: i64((baseSec + 1) * 1000000000)}}, 150000)
	case 3:
		c.Class = "test/tcp_reset/tempo_trace"
		c.Path = "/api/traces/0123456789abcdef0123456789abcdef"
		c.Script = big(7, []Cell{{S: str("0123456789abcdef")}, {S: str("01234567")}, {S: str("")}, {I: i64(baseSec * 1000000000)}, {I: i64(1000)}, {I: i64(1)}, {S: str(zipOK)}}, 40000)
	default:
		c.Class = "test/tcp_reset/loki_labels"
		c.Path = "/loki/api/v1/label/a/values"
		c.Script = big(1, []Cell{{S: str(line)}}, 150000)
	}
	return c
}

// result sets in the shape of the LogQL scanners, contents unconstrained apart from the time window
func lokiScript(r *rand.Rand) []ResultSet {
	rs := ResultSet{Match: "", Cols: 4, FailAfter: -1}
	n := []int{0, 1, 7, 130, 320}[r.Intn(5)]
	msgs := []string{`{"x":"1","y":2}`, `x=1 y="2"`, `plain`, ``, `{"x":{"z":[1,2]}}`, `{"x":"9e999"}`, "\xff\xfe", `{"x":null}`}
	strCol := r.Intn(2) == 0
	for i := 0; i < n; i++ {
		var labels map[string]string
		if r.Intn(12) != 0 {
			labels = map[string]string{"a": "b", "s": fmt.Sprint(i / 40)}
		}
		row := []Cell{{U: u64(uint64(i / 40))}, {M: labels}}
		if strCol {
			row = append(row, Cell{S: str(msgs[r.Intn(len(msgs))])})
		} else {
			row = append(row, Cell{F: f64(float64(r.Intn(5)))})
		}
		row = append(row, Cell{I: i64((baseSec+int64(i%40)*7)*1000000000 + int64(r.Intn(2)))})
		rs.Rows = append(rs.Rows, row)
	}
	switch r.Intn(10) {
	case 0:
		rs.QueryErr = true
	case 1:
		rs.FailAfter = r.Intn(n + 1)
	}
	return []ResultSet{rs}
}

// sweep: every read endpoint, with typical parameters and with none, against a database whose statement fails,
// that ends before the first row, and that answers nothing -- deterministic, part of every run
func sweepCases(id0 int) []*Case {
	type ep struct {
		method, path string
		params       []KV
		body         string
	}
	t0, t1 := fmt.Sprintf("%d000000000", baseSec), fmt.Sprintf("%d000000000", baseSec+300)
	s0, s1 := fmt.Sprint(baseSec), fmt.Sprint(baseSec+300)
	eps := []ep{
		{"GET", "/loki/api/v1/query_range", []KV{{"query", `{a="b"}`}, {"start", t0}, {"end", t1}}, ""},
		{"GET", "/loki/api/v1/query_range", []KV{{"query", `rate({a="b"} | json [1m])`}, {"start", t0}, {"end", t1}, {"step", "15"}}, ""},
		{"GET", "/loki/api/v1/query", []KV{{"query", `rate({a="b"}[1m])`}, {"time", t1}}, ""},
		{"GET", "/loki/api/v1/labels", []KV{{"start", t0}, {"end", t1}}, ""},
		{"GET", "/loki/api/v1/label", nil, ""},
		{"GET", "/loki/api/v1/label/a/values", []KV{{"start", t0}, {"end", t1}}, ""},
		{"GET", "/loki/api/v1/series", []KV{{"match[]", `{a="b"}`}, {"start", t0}, {"end", t1}}, ""},
		{"POST", "/loki/api/v1/series", []KV{{"match[]", `{a="b"}`}}, ""},
		{"GET", "/api/v1/query_range", []KV{{"query", "up"}, {"start", s0}, {"end", s1}, {"step", "15"}}, ""},
		{"GET", "/api/v1/query", []KV{{"query", `rate(up[1m])`}, {"time", s1}}, ""},
		{"GET", "/api/v1/labels", []KV{{"start", s0}, {"end", s1}}, ""},
		{"GET", "/api/v1/label/job/values", []KV{{"match[]", "up"}}, ""},
		{"GET", "/api/v1/series", []KV{{"match[]", "up"}, {"start", s0}, {"end", s1}}, ""},
		{"GET", "/api/v1/metadata", nil, ""},
		{"GET", "/api/traces/0123456789abcdef0123456789abcdef", nil, ""},
		{"GET", "/api/traces/0123456789abcdef0123456789abcdef/json", []KV{{"start", s0}, {"end", s1}}, ""},
		{"GET", "/api/search/tags", nil, ""},
		{"GET", "/api/search/tag/a/values", nil, ""},
		{"GET", "/api/v2/search/tags", nil, ""},
		{"GET", "/api/v2/search/tags", []KV{{"start", s0}, {"end", s1}, {"q", `{.a="b"}`}}, ""},
		{"GET", "/api/v2/search/tag/a/values", nil, ""},
		{"GET", "/api/v2/search/tag/a/values", []KV{{"start", s0}, {"end", s1}, {"q", `{.a="b"}`}}, ""},
		{"GET", "/api/search", []KV{{"tags", "a=b"}, {"start", s0}, {"end", s1}}, ""},
		{"GET", "/api/search", []KV{{"q", `{.a="b"}`}, {"start", s0}, {"end", s1}}, ""},
		{"GET", "/api/search", nil, ""},
		{"POST", "/querier.v1.QuerierService/ProfileTypes", nil, `{"start":1700000000000,"end":1700000300000}`},
		{"POST", "/querier.v1.QuerierService/LabelNames", nil, `{"start":1700000000000,"end":1700000300000}`},
		{"POST", "/querier.v1.QuerierService/LabelValues", nil, `{"name":"a","start":1700000000000,"end":1700000300000}`},
		{"POST", "/querier.v1.QuerierService/SelectMergeStacktraces", nil, `{"profileTypeID":"process_cpu:cpu:nanoseconds:cpu:nanoseconds","labelSelector":"{a=\"b\"}","start":1700000000000,"end":1700000300000}`},
		{"POST", "/querier.v1.QuerierService/SelectSeries", nil, `{"profileTypeID":"process_cpu:cpu:nanoseconds:cpu:nanoseconds","labelSelector":"{a=\"b\"}","start":1700000000000,"end":1700000300000,"step":15}`},
		{"POST", "/querier.v1.QuerierService/SelectMergeProfile", nil, `{"profileTypeID":"process_cpu:cpu:nanoseconds:cpu:nanoseconds","labelSelector":"{a=\"b\"}","start":1700000000000,"end":1700000300000}`},
		{"POST", "/querier.v1.QuerierService/Series", nil, `{"matchers":["{a=\"b\"}"],"start":1700000000000,"end":1700000300000}`},
		{"POST", "/querier.v1.QuerierService/GetProfileStats", nil, `{}`},
		{"POST", "/querier.v1.QuerierService/AnalyzeQuery", nil, `{"query":"{a=\"b\"}","start":1700000000000,"end":1700000300000}`},
		{"GET", "/pyroscope/render-diff", []KV{{"leftQuery", `process_cpu:cpu:nanoseconds:cpu:nanoseconds{a="b"}`}, {"rightQuery", `process_cpu:cpu:nanoseconds:cpu:nanoseconds{a="c"}`}, {"leftFrom", s0}, {"leftUntil", s1}, {"rightFrom", s0}, {"rightUntil", s1}}, ""},
	}
	var res []*Case
	id := id0
	for _, e := range eps {
		for k, db := range []string{"statement-fails", "ends-at-once", "no-rows", "boot-settings-fails", "boot-tables-fails"} {
			c := &Case{ID: id, Class: "test/sweep/" + db, Method: e.method, Path: e.path, Params: e.params, Body: e.body}
			if e.body != "" {
				c.ContentType = "application/json"
			}
			rs := ResultSet{Match: "", Cols: 1, FailAfter: -1}
			switch k {
			case 0:
				rs.QueryErr = true
			case 1:
				rs.FailAfter = 0
			case 3:
				c.Cold, c.Boot = true, Boot{Settings: "fail"}
			case 4:
				c.Cold, c.Boot = true, Boot{Tables: "fail"}
			}
			c.Script = []ResultSet{rs}
			res = append(res, c)
			id++
		}
	}
	return res
}

// generate: n modelled cases (Loki range/instant, Tempo trace) followed by 2.5 n test-only cases
func generate(seed int64, n int) []*Case {
	r := rand.New(rand.NewSource(seed))
	var res []*Case
	for i := 0; i < n; i++ {
		if i%8 == 7 {
			res = append(res, tempoCase(r, i))
		} else {
			res = append(res, lokiCase(r, i))
		}
	}
	for i := 0; i < n*5/2; i++ {
		res = append(res, testCase(r, n+i))
	}
	res = append(res, sweepCases(n+n*5/2)...)
	// modelled stream 2: the forwarding endpoints (labels, series, Tempo tags / search, TraceQL), 2n/3 cases
	for i := 0; i < n*2/3; i++ {
		res = append(res, fwdCase(r, n+n*5/2+1000+i))
	}
	// modelled stream 3: the Prometheus query endpoints (controller decisions, subquery steps), n/2 cases
	for i := 0; i < n/2; i++ {
		res = append(res, promCase(r, n+n*5/2+1000+n+i))
	}
	// modelled stream 4: the Pyroscope read handlers (class and statements issued; coq/model/ReadProf.v), n/2 cases
	for i := 0; i < n/2; i++ {
		res = append(res, profCase(r, n+n*5/2+1000+2*n+i))
	}
	// modelled stream 5: float -> int64 conversion of start / end / step on Loki query_range (coq/model/ReadConv.v), n/4 cases
	for i := 0; i < n/4; i++ {
		res = append(res, convCase(r, n+n*5/2+1000+3*n+i))
	}
	// modelled stream 6: histories through the real StableSqlxDBWrapper (coq/model/ReadPool.v), n/6 histories of 2..6 requests
	for i := 0; i < n/6; i++ {
		res = append(res, poolCase(r, n+n*5/2+1000+4*n+i))
	}
	// stream 2, deterministic part: stored label documents cut at every byte position on the series endpoints
	res = append(res, labelDocCases(seed, n*9+3000)...)
	decoratePool(seed, res)
	return res
}

// decoratePool gives a share of the generated requests a SMALL connection pool (database/sql SetMaxOpenConns on the pool
// behind the real wrapper; production: max_open_connection): 1 for about a quarter of them (half of the TraceQL
// searches, whose complexity evaluation is followed by further statements), 2 for a few. A request that asks for a
// connection while an open result set of its own still holds one can only be seen with the pool exhausted. The draws come
// from a stream of their own, so the requests themselves are the ones generated before pools were varied.
func decoratePool(seed int64, cases []*Case) {
	if os.Getenv("READFUZZ_MAXCONNS") != "" {
		var k int
		fmt.Sscan(os.Getenv("READFUZZ_MAXCONNS"), &k)
		for _, c := range cases {
			c.MaxConns = k
			for _, st := range c.Then {
				st.MaxConns = k
			}
		}
		return
	}
	r := rand.New(rand.NewSource(seed ^ 0x706f6f6c))
	for _, c := range cases {
		k := r.Intn(16)
		heavy := strings.HasPrefix(c.Class, "fwd/tempo_traceql") || strings.HasPrefix(c.Class, "fwd/tempo_tags_v2") || strings.HasPrefix(c.Class, "fwd/tempo_values_v2")
		switch {
		case k < 4 || (heavy && k < 8):
			c.MaxConns = 1
		case k == 8:
			c.MaxConns = 2
		}
		for _, st := range c.Then {
			st.MaxConns = c.MaxConns
		}
	}
}
