package main

// Modelled stream 6: HISTORIES of requests served by one process through the real dsn.StableSqlxDBWrapper
// (coq/model/ReadPool.v). What one request does to the wrapper's RWMutex and to the connection pool is visible only to
// LATER requests: a read lock left behind by a request whose statement failed with its context already cancelled is
// harmless until a statement fails for a genuine reason -- that request waits for the write lock for ever, and from then
// on every reader waits behind the pending writer (seeded change C12-e).
//
// A history is 2..6 requests taken from the healthy probes of every endpoint family, each with one event:
//   ok        the database answers
//   dberr     the database refuses the statement (QueryContext fails, context alive)         -> pool rebuilt once
//   stall     the database is still working when the client hangs up: the context is
//             cancelled mid-statement and QueryContext fails with context.Canceled          -> pool rebuilt once
//   gone      the client is gone when the first byte is written (statement already answered)
//   rowsfail  the connection is lost while the rows are read (rows.Next fails, not QueryContext)
// The model predicts, per request, "answered" and the number of pool rebuilds; the healthy probes of followUp run after
// the last request.

import (
	"encoding/json"
	"math/rand"
)

var poolEvents = []string{"ok", "dberr", "stall", "gone", "rowsfail"}

func poolStep(r *rand.Rand, ev string) (*Case, string) {
	p := probes[r.Intn(len(probes))]
	c := &Case{Class: "pool/" + p.Class[len("probe/"):] + "+" + ev, Method: p.Method, Path: p.Path, Params: p.Params}
	for _, rs := range p.Script {
		c.Script = append(c.Script, rs)
	}
	switch ev {
	case "dberr":
		c.Script[0].QueryErr = true
	case "stall":
		c.Script[0].Stall = true
		c.HangUp = true
	case "gone":
		z := 0
		c.AbortAfter = &z
	case "rowsfail":
		c.Script[0].FailAfter = 0
	}
	return c, p.Class[len("probe/"):]
}

type poolModel struct {
	Ep     string   `json:"ep"`
	Events []string `json:"events"`
	Eps    []string `json:"eps"`
}

func poolCase(r *rand.Rand, id int) *Case {
	n := 2 + r.Intn(5)
	var evs, eps []string
	var steps []*Case
	// a third of the histories contain the pattern the wrapper is there for: a caller that gave up, later a database error
	pattern := r.Intn(3) == 0
	for i := 0; i < n; i++ {
		ev := poolEvents[r.Intn(len(poolEvents))]
		if pattern && i == 0 {
			ev = "stall"
		}
		if pattern && i == n-2 && n > 2 {
			ev = "dberr"
		}
		if pattern && i == n-1 {
			ev = []string{"ok", "dberr"}[r.Intn(2)]
		}
		st, ep := poolStep(r, ev)
		steps = append(steps, st)
		evs = append(evs, ev)
		eps = append(eps, ep)
	}
	c := steps[0]
	c.ID = id
	c.Then = steps[1:]
	c.Class = "pool/history"
	if pattern {
		c.Class += "+gave-up-then-db-error"
	}
	m, _ := json.Marshal(poolModel{Ep: "pool", Events: evs, Eps: eps})
	c.Model = m
	return c
}
