// Level 3, a TEST (nothing is compared with the model): real timers (PushInterval 2 ms), round robins of two
// workers, a fake ClickHouse that answers after a short random delay with a random outcome, and concurrent HTTP
// clients.  The event log (blocks, returns of Do, answers, in the order they were taken under one mutex) is handed
// to the C01/C02 monitors.
package main

import (
	"github.com/metrico/qryn/writer/utils/helpers"
	"encoding/hex"
	"fmt"
	"math/rand"
	"sync"
	"time"

	controllerv1 "github.com/metrico/qryn/writer/controller"
	"github.com/metrico/qryn/writer/config"
	"github.com/metrico/qryn/writer/model"
	"github.com/metrico/qryn/writer/service"
	"github.com/metrico/qryn/writer/service/registry"
	"net/http"
)

func runSoak(id int, seed int64, clients, pushes int) *Case2 {
	r := rand.New(rand.NewSource(seed))
	c := &Case2{ID: id, Class: "soak", Attempts: 3}
	n := len(l2kinds)
	pars := make([]int, n)
	for i := range pars {
		pars[i] = 4 // two sync and two async fetch loops per service: with real timers the async ones dial as well
	}
	b := newBench(pars, nil)
	b.soak = rand.New(rand.NewSource(seed + 1))
	b2 := &bench2{bench: b, rid: map[string]int64{}, nextRid: 1, status: map[int]int{}, keyRid: map[uint64]int64{},
		byRows: map[string][][2]int{}, bound: map[helpers.SizeGetter][2]int{}, taken: map[[2]int]bool{}, pushOf: map[int64]int{}}
	b.l2 = b2
	rn := &runner2{c: c, b: b2}
	maps := make([]map[string]service.IInsertServiceV2, n)
	for i, kind := range l2kinds {
		sv := newService(kind, model.InsertServiceOpts{Session: b.factory(i), Node: node2, Interval: 2 * time.Millisecond,
			ParallelNum: 2, MaxQueueSize: 400})
		mm := sv.(*service.InsertServiceV2Multimodal)
		mm.Init()
		go mm.Run()
		rn.svcs = append(rn.svcs, mm)
		maps[i] = map[string]service.IInsertServiceV2{"n": sv}
	}
	controllerv1.Registry = registry.NewStaticServiceRegistry(maps[gSeries], maps[gSamples],
		map[string]service.IInsertServiceV2{}, maps[gSpans], maps[gTags], maps[gProfile])
	controllerv1.FPCache = fpCache2
	config.Cloki.Setting.SYSTEM_SETTINGS.RetryAttempts = c.Attempts
	config.Cloki.Setting.SYSTEM_SETTINGS.RetryTimeoutS = 0
	cfg := controllerv1.NewMiddlewareConfig(controllerv1.WithExtraMiddlewareDefault...)
	rn.handlers = map[string]func(w http.ResponseWriter, r *http.Request){
		"loki": controllerv1.PushStreamV2(cfg), "lokiproto": controllerv1.PushStreamV2(cfg), "zipkin": controllerv1.PushV2(cfg),
		"prom": controllerv1.WriteStreamV2(cfg), "otlp": controllerv1.OTLPPushV2(cfg), "profile": controllerv1.PushProfileV2(cfg),
	}
	// the pushes, parsed once beforehand so that their rows are known
	uniq := seed % 1000 * 1000000
	for h := 0; h < clients*pushes; h++ {
		tag := fmt.Sprintf("soak%dh%d", id, h)
		var hr HReq
		switch x := r.Intn(10); {
		case x < 4:
			body, rows := lokiBody(r, tag, &uniq)
			hr = HReq{Route: "loki", Body: hex.EncodeToString([]byte(body))}
			c.Rows += rows
		case x < 7:
			body, rows := zipkinBody(r, tag, &uniq)
			hr = HReq{Route: "zipkin", Body: hex.EncodeToString([]byte(body))}
			c.Rows += rows
		case x < 8:
			body, rows := promBody(r, tag, &uniq)
			hr = HReq{Route: "prom", Body: hex.EncodeToString(body)}
			c.Rows += rows
		case x < 9:
			body, rows := otlpBody(r, tag, &uniq)
			hr = HReq{Route: "otlp", Body: hex.EncodeToString(body)}
			c.Rows += rows
		default:
			body, q, rows := profileBody(r, tag, &uniq)
			hr = HReq{Route: "profile", Body: hex.EncodeToString(body), Query: q}
			c.Rows += rows
		}
		hr.Items = b2.dryParse(&hr)
		hr.Body = "" // not needed for the evaluation; keeps the case small
		c.Reqs = append(c.Reqs, hr)
	}
	bodies := make([]HReq, len(c.Reqs))
	// bodies were dropped from the case; rebuild the requests to send from a second, identical generator run
	r2 := rand.New(rand.NewSource(seed))
	uniq2 := seed % 1000 * 1000000
	for h := range bodies {
		tag := fmt.Sprintf("soak%dh%d", id, h)
		switch x := r2.Intn(10); {
		case x < 4:
			body, _ := lokiBody(r2, tag, &uniq2)
			bodies[h] = HReq{Route: "loki", Body: hex.EncodeToString([]byte(body))}
		case x < 7:
			body, _ := zipkinBody(r2, tag, &uniq2)
			bodies[h] = HReq{Route: "zipkin", Body: hex.EncodeToString([]byte(body))}
		case x < 8:
			body, _ := promBody(r2, tag, &uniq2)
			bodies[h] = HReq{Route: "prom", Body: hex.EncodeToString(body)}
		case x < 9:
			body, _ := otlpBody(r2, tag, &uniq2)
			bodies[h] = HReq{Route: "otlp", Body: hex.EncodeToString(body)}
		default:
			body, q, _ := profileBody(r2, tag, &uniq2)
			bodies[h] = HReq{Route: "profile", Body: hex.EncodeToString(body), Query: q}
		}
	}
	var wg sync.WaitGroup
	for cl := 0; cl < clients; cl++ {
		wg.Add(1)
		go func(cl int) {
			defer wg.Done()
			for k := 0; k < pushes; k++ {
				h := cl*pushes + k
				rn.serve(h, &bodies[h])
			}
		}(cl)
	}
	done := make(chan struct{})
	go func() { wg.Wait(); close(done) }()
	select {
	case <-done:
		c.Drained = true // every push was answered while the database kept answering
	case <-time.After(60 * time.Second):
		b.fail("soak: pushes still unanswered after 60 s")
	}
	evs := b2.take2raw()
	c.Obs = [][]Ev2{evs}
	b.mu.Lock()
	b.soak = nil
	b.mu.Unlock()
	for _, sv := range rn.svcs {
		sv.Stop()
	}
	waitGone()
	c.Err = b.trouble
	return c
}
