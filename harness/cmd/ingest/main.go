// ingest drives the REAL insert services of writer/service (built through writer/service/impl over a fake
// ch_wrapper.IChClientFactory) with scripts of operations and prints, per operation, the events it observed:
// Request calls and how they completed their promise, V3Session() calls, the block handed to client.Do,
// the return of Do, promise completions.  No hook is needed: PushInterval is one hour, flushes happen only
// through SyncService.PlanFlush() and the size trigger, the fake Do blocks until the script lets it return.
// After every operation the harness waits until every goroutine of the service under test is parked
// (goroutine dump), so the run is a deterministic linearisation of the steps of coq/model/Ingest.v.
package main

import (
	"os"
	"sync/atomic"
	"context"
	"encoding/binary"
	"encoding/json"
	"errors"
	"flag"
	"fmt"
	"io"
	"math/rand"
	"regexp"
	"runtime"
	"sort"
	"strconv"
	"strings"
	"sync"
	"time"

	"github.com/ClickHouse/ch-go"
	"github.com/ClickHouse/ch-go/proto"
	"github.com/ClickHouse/clickhouse-go/v2/lib/driver"
	clconfig "github.com/metrico/cloki-config"
	"github.com/metrico/qryn/writer/ch_wrapper"
	"github.com/metrico/qryn/writer/config"
	"github.com/metrico/qryn/writer/model"
	"github.com/metrico/qryn/writer/service"
	"github.com/metrico/qryn/writer/service/impl"
	"github.com/metrico/qryn/writer/utils/helpers"
	"github.com/metrico/qryn/writer/utils/logger"
	"github.com/metrico/qryn/writer/utils/promise"
	"verif/harness/hx"
)

// ---------------------------------------------------------------------------------------------- data

// Run = [start, count]: count consecutive row ids. A column is a list of runs.
type Run [2]int64
type Col []Run

type SvcCfg struct {
	Kind string `json:"kind"` // samples series metrics spans tags profile
	MaxQ int64  `json:"maxq"`
	Par  int    `json:"par,omitempty"` // ParallelNum (workers of the round robin); 0 = 1
}

type Op struct {
	T    string `json:"t"` // req plan send ret stop mreq (mreq: PlanFlush, then a Request that arrives WHILE the flush waits for its next column set)
	S    int    `json:"s"`
	P    int    `json:"p,omitempty"`    // promise number (req)
	Cols []Col  `json:"cols,omitempty"` // req: row ids per column
	Sz   int64  `json:"sz,omitempty"`
	Ok   bool   `json:"ok,omitempty"` // ret: outcome of the Do
}

type Ev struct {
	T    string `json:"t"` // req dial swap send done res
	S    int    `json:"s"`
	P    int    `json:"p,omitempty"`
	Cols []Col  `json:"cols,omitempty"` // send: decoded values per column
	Ok   bool   `json:"ok"`
	Imm  *bool  `json:"imm,omitempty"` // req: how Request itself completed the promise
	L2   *Ev2   `json:"-"`
}

type Case struct {
	ID       int      `json:"id"`
	Class    string   `json:"class"`
	Svcs     []SvcCfg `json:"svcs"`
	Attempts int      `json:"attempts"`
	Dials    [][]bool `json:"dials"`
	Ops      []Op     `json:"ops"`
	Obs      [][]Ev   `json:"obs"`
	Err      string   `json:"err,omitempty"` // harness-level trouble (no quiescence, script not executable)
	Rows     int      `json:"rows"`          // total rows submitted (coverage)
	Drained  bool     `json:"drained"`       // the script ends with a complete drain: every accepted promise must be completed
}

var kinds = []string{"samples", "series", "metrics", "spans", "tags", "profile"}
var ncols = map[string]int{"samples": 5, "series": 4, "metrics": 4, "spans": 9, "tags": 7, "profile": 13}
var keycol = map[string]int{"samples": 1, "series": 1, "metrics": 1, "spans": 0, "tags": 0, "profile": 0}
var profArr = map[int]bool{3: true, 6: true, 10: true, 11: true, 12: true}

func expand(c Col) []int64 {
	var out []int64
	for _, r := range c {
		for i := int64(0); i < r[1]; i++ {
			out = append(out, r[0]+i)
		}
	}
	return out
}

func compress(v []int64) Col {
	out := Col{}
	for _, x := range v {
		if n := len(out); n > 0 && out[n-1][0]+out[n-1][1] == x {
			out[n-1][1]++
		} else {
			out = append(out, Run{x, 1})
		}
	}
	return out
}

// ---------------------------------------------------------------------------------------------- encoding of row ids

func istr(v int64) string  { return strconv.FormatInt(v, 10) }
func ibytes(v int64) []byte { return []byte(istr(v)) }
func fixed(v int64, n int) []byte {
	b := make([]byte, n)
	binary.BigEndian.PutUint64(b[n-8:], uint64(v))
	return b
}
func unfixed(b []byte) int64 { return int64(binary.BigEndian.Uint64(b[len(b)-8:])) }

// day: the Date field of row v.  Odd ids are days BEFORE 1970-01-01 (id 1 = 1969-12-31, id 3 = 1969-12-30, ...), even ids are
// days from 1970-01-01 on (id 0 = the epoch itself): half of the rows of every series / tags request carry a pre-1970 date (a sample
// with a negative timestamp), which ClickHouse's Date stores modulo 2^16.  undate reads the id back from the stored value
// (ids below 65536: the generator stays below 45000).  Added after the seeded change C02-e (ProcessRequest dropping the date and
// labels of pre-1970 series rows while fingerprint / type are appended): every date of the old encoding was after 1970.
func day(v int64) time.Time {
	if v%2 != 0 {
		return time.Unix(-((v-1)/2+1)*86400, 0).UTC()
	}
	return time.Unix(v/2*86400, 0).UTC()
}
func undate(x uint16) int64 {
	if x >= 32768 {
		return 2*(65535-int64(x)) + 1
	}
	return 2 * int64(x)
}
func atoi(s string) int64 {
	v, err := strconv.ParseInt(s, 10, 64)
	if err != nil {
		return -1
	}
	return v
}

// sgn: the Int64 fields (timestamps, durations) of odd rows are NEGATIVE (a timestamp before 1970); decodeCol takes the absolute value
func sgns(v []int64) []int64 {
	o := make([]int64, len(v))
	for i, x := range v {
		o[i] = x
		if x%2 != 0 {
			o[i] = -x
		}
	}
	return o
}
func u8s(v []int64) []uint8 {
	o := make([]uint8, len(v))
	for i, x := range v {
		o[i] = uint8(x % 128)
	}
	return o
}
func i8s(v []int64) []int8 {
	o := make([]int8, len(v))
	for i, x := range v {
		o[i] = int8(x % 128)
	}
	return o
}
func u64s(v []int64) []uint64 {
	o := make([]uint64, len(v))
	for i, x := range v {
		o[i] = uint64(x)
	}
	return o
}
func f64s(v []int64) []float64 {
	o := make([]float64, len(v))
	for i, x := range v {
		o[i] = float64(x)
	}
	return o
}
func strs(v []int64) []string {
	o := make([]string, len(v))
	for i, x := range v {
		o[i] = istr(x)
	}
	return o
}
func bytess(v []int64) [][]byte {
	o := make([][]byte, len(v))
	for i, x := range v {
		o[i] = ibytes(x)
	}
	return o
}
func fixeds(v []int64, n int) [][]byte {
	o := make([][]byte, len(v))
	for i, x := range v {
		o[i] = fixed(x, n)
	}
	return o
}
func days(v []int64) []time.Time {
	o := make([]time.Time, len(v))
	for i, x := range v {
		o[i] = day(x)
	}
	return o
}

// buildReq turns per-column row ids into the request struct of the service kind.
func buildReq(kind string, cols []Col, sz int64) (helpers.SizeGetter, error) {
	c := make([][]int64, ncols[kind])
	for i := range c {
		if i < len(cols) {
			c[i] = expand(cols[i])
		}
	}
	switch kind {
	case "samples":
		return &model.TimeSamplesData{MType: u8s(c[0]), MFingerprint: u64s(c[1]), MTimestampNS: sgns(c[2]),
			MMessage: strs(c[3]), MValue: f64s(c[4]), Size: int(sz)}, nil
	case "metrics":
		return &model.TimeSamplesData{MType: u8s(c[0]), MFingerprint: u64s(c[1]), MTimestampNS: sgns(c[2]),
			MValue: f64s(c[3]), Size: int(sz)}, nil
	case "series":
		return &model.TimeSeriesData{MType: u8s(c[0]), MDate: days(c[1]), MFingerprint: u64s(c[2]),
			MLabels: strs(c[3]), Size: int(sz)}, nil
	case "spans":
		return &model.TempoSamples{MTraceId: fixeds(c[0], 16), MSpanId: fixeds(c[1], 8), MParentId: strs(c[2]),
			MName: strs(c[3]), MTimestampNs: sgns(c[4]), MDurationNs: sgns(c[5]), MServiceName: strs(c[6]),
			MPayloadType: i8s(c[7]), MPayload: bytess(c[8]), Size: int(sz)}, nil
	case "tags":
		return &model.TempoTag{MDate: days(c[0]), MKey: strs(c[1]), MVal: strs(c[2]), MTraceId: fixeds(c[3], 16),
			MSpanId: fixeds(c[4], 8), MTimestampNs: sgns(c[5]), MDurationNs: sgns(c[6]), Size: int(sz)}, nil
	case "profile":
		for j := range profArr {
			if len(c[j]) != 1 {
				return nil, fmt.Errorf("profile array column %d must carry exactly one value", j)
			}
		}
		return &model.ProfileData{TimestampNs: u64s(c[0]), Ptype: strs(c[1]), ServiceName: strs(c[2]),
			SamplesTypesUnits: []model.StrStr{{Str1: istr(c[3][0]), Str2: "u"}},
			PeriodType:        strs(c[4]), PeriodUnit: strs(c[5]),
			Tags:       []model.StrStr{{Str1: istr(c[6][0]), Str2: "t"}},
			DurationNs: u64s(c[7]), PayloadType: strs(c[8]), Payload: bytess(c[9]),
			ValuesAgg: []model.ValuesAgg{{ValueStr: istr(c[10][0]), ValueInt64: 1, ValueInt32: 1}},
			Tree:      []model.TreeRootStructure{{Field1: uint64(c[11][0])}},
			Function:  []model.Function{{ValueInt64: uint64(c[12][0]), ValueStr: "f"}},
			Size:      int(sz)}, nil
	}
	return nil, fmt.Errorf("unknown kind %s", kind)
}

// decodeCol reads the row ids back out of a column handed to client.Do.
func decodeCol(d proto.ColInput) ([]int64, error) {
	var o []int64
	switch c := d.(type) {
	case proto.ColUInt8:
		for _, x := range c {
			o = append(o, int64(x))
		}
	case proto.ColInt8:
		for _, x := range c {
			o = append(o, int64(x))
		}
	case proto.ColUInt64:
		for _, x := range c {
			o = append(o, int64(x))
		}
	case proto.ColInt64:
		for _, x := range c {
			if x < 0 {
				x = -x
			}
			o = append(o, x)
		}
	case proto.ColFloat64:
		for _, x := range c {
			o = append(o, int64(x))
		}
	case proto.ColDate:
		for _, x := range c {
			o = append(o, undate(uint16(x)))
		}
	case *proto.ColStr:
		for i := 0; i < c.Rows(); i++ {
			o = append(o, atoi(c.Row(i)))
		}
	case *proto.ColFixedStr:
		for i := 0; i < c.Rows(); i++ {
			o = append(o, unfixed(c.Row(i)))
		}
	case *proto.ColArr[model.StrStr]:
		for i := 0; i < c.Rows(); i++ {
			r := c.Row(i)
			if len(r) != 1 {
				return nil, fmt.Errorf("array value of length %d", len(r))
			}
			o = append(o, atoi(r[0].Str1))
		}
	case *proto.ColArr[model.ValuesAgg]:
		for i := 0; i < c.Rows(); i++ {
			r := c.Row(i)
			if len(r) != 1 {
				return nil, fmt.Errorf("array value of length %d", len(r))
			}
			o = append(o, atoi(r[0].ValueStr))
		}
	case *proto.ColArr[model.TreeRootStructure]:
		for i := 0; i < c.Rows(); i++ {
			r := c.Row(i)
			if len(r) != 1 {
				return nil, fmt.Errorf("array value of length %d", len(r))
			}
			o = append(o, int64(r[0].Field1))
		}
	case *proto.ColArr[model.Function]:
		for i := 0; i < c.Rows(); i++ {
			r := c.Row(i)
			if len(r) != 1 {
				return nil, fmt.Errorf("array value of length %d", len(r))
			}
			o = append(o, int64(r[0].ValueInt64))
		}
	default:
		return nil, fmt.Errorf("column type %T not decoded", d)
	}
	return o, nil
}

// ---------------------------------------------------------------------------------------------- the bench

type bench struct {
	mu       sync.Mutex
	events   []Ev
	dials    [][]bool
	release  []chan bool // per service: outcome for the blocked Do
	inflight []bool
	goahead  []chan bool // per service: lets the OnBeforeInsert callback return
	before   []bool      // the worker sits in OnBeforeInsert (after swapBuffers, before client.Do)
	l2       *bench2     // level 2: rows are recognised by content
	base     []int         // per service: index of its first worker
	par      []int         // per service: number of workers
	wnext    []int         // per service: workers seen so far
	wmap     map[int64]int // fetch-loop goroutine -> worker index (in order of first appearance within the service)
	soak     *rand.Rand    // soak test: Do answers by itself after a short random delay with a random outcome
	errText  map[int]int   // per worker: which of errTexts the blocked Do fails with (level 2; 0 = the default)
	trouble  string
}

func (b *bench) log(e Ev) {
	b.mu.Lock()
	b.events = append(b.events, e)
	b.mu.Unlock()
}
func (b *bench) fail(s string) {
	b.mu.Lock()
	if b.trouble == "" {
		b.trouble = s
	}
	b.mu.Unlock()
}

type fakeClient struct {
	b *bench
	s int // service
}

func gid() int64 {
	var buf [64]byte
	n := runtime.Stack(buf[:], false)
	f := strings.Fields(string(buf[:n]))
	if len(f) < 2 {
		return -1
	}
	v, _ := strconv.ParseInt(f[1], 10, 64)
	return v
}

// worker names the fetch loop that is calling (factory, OnBeforeInsert and Do all run on it). Call with b.mu held.
func (b *bench) worker(svc int) int {
	g := gid()
	if w, ok := b.wmap[g]; ok {
		return w
	}
	w := b.base[svc] + b.wnext[svc]
	if b.wnext[svc] >= b.par[svc] {
		b.trouble = "more fetch loops than workers on a service"
		w = b.base[svc]
	}
	b.wnext[svc]++
	b.wmap[g] = w
	return w
}

var errInsert = errors.New("scripted insert failure")

// the error texts a failing INSERT is answered with (level 2 and the soak test): what ch-go / the net package
// really return when ClickHouse or the connection to it dies.  The handlers must answer an error status whatever
// the text is.
var errTexts = []string{
	"scripted insert failure",
	"write tcp 10.0.0.5:51234->10.0.0.9:9000: write: connection reset by peer",
	"read tcp 10.0.0.5:51234->10.0.0.9:9000: read: connection reset by peer",
	"write tcp 10.0.0.5:51234->10.0.0.9:9000: write: broken pipe",
	"EOF",
	"unexpected EOF",
	"read tcp 10.0.0.5:51234->10.0.0.9:9000: i/o timeout",
	"context deadline exceeded",
	"dial tcp: lookup clickhouse on 10.0.0.2:53: read udp 10.0.0.5:40000->10.0.0.2:53: i/o timeout",
	"code: 241, message: Memory limit (total) exceeded",
	"connection reset by peer",
	"handshake: clickhouse: connection refused",
}

func insertErr(i int) error {
	if i <= 0 || i >= len(errTexts) {
		return errInsert
	}
	return errors.New(errTexts[i])
}
var errDial = errors.New("scripted connection refused")

func (c *fakeClient) Do(ctx context.Context, q ch.Query) error {
	var ev Ev
	c.b.mu.Lock()
	w := c.b.worker(c.s)
	c.b.mu.Unlock()
	if c.b.l2 != nil {
		e2 := (&fakeClient2{fakeClient: *c, b2: c.b.l2}).doLevel2(q.Input)
		ev = Ev{T: "send", S: w, L2: &e2}
	} else {
		cols := make([]Col, len(q.Input))
		for i, in := range q.Input {
			v, err := decodeCol(in.Data)
			if err != nil {
				c.b.fail("decode: " + err.Error())
			}
			cols[i] = compress(v)
		}
		ev = Ev{T: "send", S: w, Cols: cols}
	}
	c.b.mu.Lock()
	c.b.events = append(c.b.events, ev)
	if c.b.inflight[w] {
		c.b.trouble = "two concurrent Do calls on one worker"
	}
	c.b.inflight[w] = true
	if c.b.soak != nil {
		// every random choice is drawn before the lock is released: the end of the soak sets c.b.soak to nil
		delay := time.Duration(c.b.soak.Intn(300)) * time.Microsecond
		ok := c.b.soak.Intn(4) != 0
		var et int
		if !ok {
			et = c.b.soak.Intn(len(errTexts))
		}
		c.b.mu.Unlock()
		time.Sleep(delay)
		c.b.mu.Lock()
		c.b.inflight[w] = false
		c.b.events = append(c.b.events, Ev{T: "done", S: w, Ok: ok})
		c.b.mu.Unlock()
		if ok {
			return nil
		}
		return insertErr(et)
	}
	c.b.mu.Unlock()
	ok := <-c.b.release[w]
	if ok {
		return nil
	}
	c.b.mu.Lock()
	et := c.b.errText[w]
	c.b.mu.Unlock()
	return insertErr(et)
}
func (c *fakeClient) Ping(ctx context.Context) error { return nil }
func (c *fakeClient) Close() error                   { return nil }
func (c *fakeClient) Exec(ctx context.Context, query string, args ...any) error {
	return errors.New("not implemented")
}
func (c *fakeClient) Scan(ctx context.Context, req string, args []any, dest ...interface{}) error {
	return errors.New("not implemented")
}
func (c *fakeClient) DropIfEmpty(ctx context.Context, name string) error { return nil }
func (c *fakeClient) TableExists(ctx context.Context, name string) (bool, error) {
	return false, nil
}
func (c *fakeClient) GetDBExec(env map[string]string) func(ctx context.Context, query string, args ...[]interface{}) error {
	return nil
}
func (c *fakeClient) GetVersion(ctx context.Context, k uint64) (uint64, error) { return 0, nil }
func (c *fakeClient) GetSetting(ctx context.Context, tp string, name string) (string, error) {
	return "", nil
}
func (c *fakeClient) PutSetting(ctx context.Context, tp string, name string, value string) error {
	return nil
}
func (c *fakeClient) GetFirst(req string, first ...interface{}) error { return nil }
func (c *fakeClient) GetList(req string) ([]string, error)             { return nil, nil }
func (c *fakeClient) Query(ctx context.Context, query string, args ...interface{}) (driver.Rows, error) {
	return nil, errors.New("not implemented")
}
func (c *fakeClient) QueryRow(ctx context.Context, query string, args ...interface{}) driver.Row {
	return nil
}

func (b *bench) factory(s int) ch_wrapper.IChClientFactory {
	return func() (ch_wrapper.IChClient, error) {
		b.mu.Lock()
		w := b.worker(s)
		ok := true
		if len(b.dials[w]) > 0 {
			ok = b.dials[w][0]
			b.dials[w] = b.dials[w][1:]
		}
		b.events = append(b.events, Ev{T: "dial", S: w, Ok: ok})
		b.mu.Unlock()
		if !ok {
			return nil, errDial
		}
		return &fakeClient{b: b, s: s}, nil
	}
}

// beforeInsert is the OnBeforeInsert option of the real services: it runs in fetchLoopIteration right after
// swapBuffers took a portion and before client.Do is called. The harness parks the worker here so that the script
// can interleave Requests (and anything else) with that window.
func (b *bench) beforeInsert(s int) func() {
	return func() {
		b.mu.Lock()
		w := b.worker(s)
		b.events = append(b.events, Ev{T: "swap", S: w})
		b.before[w] = true
		b.mu.Unlock()
		<-b.goahead[w]
	}
}

func newService(kind string, opts model.InsertServiceOpts) service.IInsertServiceV2 {
	switch kind {
	case "samples":
		return impl.NewSamplesInsertService(opts)
	case "series":
		return impl.NewTimeSeriesInsertService(opts)
	case "metrics":
		return impl.NewMetricsInsertService(opts)
	case "spans":
		return impl.NewTempoSamplesInsertService(opts)
	case "tags":
		return impl.NewTempoTagsInsertService(opts)
	case "profile":
		return impl.NewProfileSamplesInsertService(opts)
	}
	panic("kind " + kind)
}

// ---------------------------------------------------------------------------------------------- quiescence

var goHdr = regexp.MustCompile(`^goroutine \d+ \[([^\],]+)`)

// markers of the goroutines that belong to the system under test
// (a goroutine that has not started yet shows only its go-statement wrapper and its "created by" line)
var ours = []string{"writer/service.(*InsertServiceV2).Run", "created by main.(*runner", "created by main.(*spySvc",
	"created by github.com/metrico/qryn/writer/controller", "created by github.com/metrico/qryn/writer/utils/unmarshal"}

// parked reports whether every goroutine of the system under test is blocked on a channel (select in Run,
// the fake Do waiting for its release, Promise.Get); running is the number of fetch-loop goroutines alive.
func parked() (quiet bool, running int) { return parkedAt(nil) }

// the places a goroutine of the system under test may be blocked on a MUTEX during the operation "mreq": the fetch loop waiting for the
// column-pool mutex the harness holds (inside acquireColumns), and the Request that arrived meanwhile waiting for the service mutex
var atPool = []string{"writer/service.StartAcq"}
var atPoolOrRequest = []string{"writer/service.StartAcq", "writer/service.(*InsertServiceV2).Request"}

// parkedAt: like parked, but a goroutine blocked in sync.Mutex.Lock below one of the listed functions counts as parked too
func parkedAt(mutexAt []string) (quiet bool, running int) {
	buf := make([]byte, 1<<20)
	for {
		n := runtime.Stack(buf, true)
		if n < len(buf) {
			buf = buf[:n]
			break
		}
		buf = make([]byte, 2*len(buf))
	}
	quiet = true
	for _, g := range strings.Split(string(buf), "\n\n") {
		mine := false
		for _, m := range ours {
			if strings.Contains(g, m) {
				mine = true
				break
			}
		}
		if !mine {
			continue
		}
		if strings.Contains(g, ours[0]) {
			running++
		}
		m := goHdr.FindStringSubmatch(g)
		if m == nil {
			quiet = false
			continue
		}
		switch m[1] {
		case "chan receive":
		case "sync.Mutex.Lock", "semacquire":
			held := false
			for _, f := range mutexAt {
				if strings.Contains(g, f) {
					held = true
				}
			}
			if !held {
				quiet = false
			}
		case "select":
			// retry-go waits for its (zero) delay in a select on time.After: that is not a parked goroutine
			if strings.Contains(g, "avast/retry-go") && !strings.Contains(g, "promise.(*Promise") {
				quiet = false
			}
		default:
			quiet = false
		}
	}
	return
}

// watchdog: a change that dead-locks the system under test (a mutex held across the OnBeforeInsert hook ...) leaves the main
// goroutine blocked for good; after 75 s without any operation completing the script being run is written out as broken and
// the harness exits, instead of hanging until the checker's 15-minute timeout
var (
	wdBeat int64
	wdCur  func(msg string) // writes the current case with its error
	wdMu   sync.Mutex
)

func watchdog() {
	last, since := int64(-1), time.Now()
	for {
		time.Sleep(time.Second)
		b := atomic.LoadInt64(&wdBeat)
		if b != last {
			last, since = b, time.Now()
			continue
		}
		if time.Since(since) > 75*time.Second {
			wdMu.Lock()
			f := wdCur
			wdMu.Unlock()
			if f != nil {
				f("watchdog: no operation completed within 75 s (dead-lock in the system under test?)")
			}
			os.Exit(0)
		}
	}
}

func waitQuiet() error { return waitQuietAt(nil) }

func waitQuietAt(mutexAt []string) error {
	atomic.AddInt64(&wdBeat, 1)
	defer atomic.AddInt64(&wdBeat, 1)
	deadline := time.Now().Add(30 * time.Second)
	for i := 0; ; i++ {
		q, _ := parkedAt(mutexAt)
		if q {
			// twice in a row with a yield in between: nothing was in the middle of being woken
			runtime.Gosched()
			if q2, _ := parkedAt(mutexAt); q2 {
				return nil
			}
		}
		if time.Now().After(deadline) {
			return errors.New("no quiescence within 30s")
		}
		if i < 50 {
			runtime.Gosched()
		} else {
			time.Sleep(100 * time.Microsecond)
		}
	}
}

func waitGone() {
	deadline := time.Now().Add(30 * time.Second)
	for {
		_, r := parked()
		if r == 0 || time.Now().After(deadline) {
			return
		}
		time.Sleep(200 * time.Microsecond)
	}
}

func watch(b *bench, p int, pr *promise.Promise[uint32]) {
	_, err := pr.Get()
	b.log(Ev{T: "res", P: p, Ok: err == nil})
}

// canonical order of the events of one operation: the call, the return of Do, completions by promise number,
// then per worker its dials and its send
func canon(evs []Ev) []Ev {
	rank := func(e Ev) int {
		switch e.T {
		case "req":
			return 0
		case "done":
			return 1
		case "res":
			return 2
		}
		return 3
	}
	sort.SliceStable(evs, func(i, j int) bool {
		a, c := evs[i], evs[j]
		if rank(a) != rank(c) {
			return rank(a) < rank(c)
		}
		switch rank(a) {
		case 2:
			return a.P < c.P
		case 3:
			return a.S < c.S
		}
		return false
	})
	return evs
}

// ---------------------------------------------------------------------------------------------- running a script

type runner struct {
	c     *Case
	b     *bench
	svcs  []*service.InsertServiceV2Multimodal
	nextP int
}

func newBench(pars []int, dials [][]bool) *bench {
	b := &bench{wmap: map[int64]int{}, errText: map[int]int{}}
	w := 0
	for _, p := range pars {
		if p < 1 {
			p = 1
		}
		b.base = append(b.base, w)
		b.par = append(b.par, p)
		b.wnext = append(b.wnext, 0)
		w += p
	}
	b.dials = make([][]bool, w)
	b.release = make([]chan bool, w)
	b.inflight = make([]bool, w)
	b.goahead = make([]chan bool, w)
	b.before = make([]bool, w)
	for i := range b.release {
		b.release[i] = make(chan bool)
		b.goahead[i] = make(chan bool)
		if i < len(dials) {
			b.dials[i] = append([]bool(nil), dials[i]...)
		}
	}
	return b
}

func (b *bench) workers() int { return len(b.release) }

func start(c *Case) *runner {
	pars := make([]int, len(c.Svcs))
	for i, sc := range c.Svcs {
		pars[i] = sc.Par
	}
	b := newBench(pars, c.Dials)
	r := &runner{c: c, b: b, nextP: 1}
	for i, sc := range c.Svcs {
		node := &model.DataDatabasesMap{}
		node.Node = "n"
		node.WriteTimeout = 30
		sv := newService(sc.Kind, model.InsertServiceOpts{Session: b.factory(i), Node: node, Interval: time.Hour,
			ParallelNum: b.par[i], MaxQueueSize: sc.MaxQ, OnBeforeInsert: b.beforeInsert(i)})
		mm := sv.(*service.InsertServiceV2Multimodal)
		mm.Init()
		go mm.Run()
		r.svcs = append(r.svcs, mm)
	}
	// wait until the fetch loops (sync + async workers of each service) are in their select
	deadline := time.Now().Add(10 * time.Second)
	for {
		q, run := parked()
		if q && run == 2*b.workers() {
			break
		}
		if time.Now().After(deadline) {
			b.fail("services did not start")
			break
		}
		time.Sleep(50 * time.Microsecond)
	}
	return r
}

func (r *runner) take() []Ev {
	r.b.mu.Lock()
	evs := r.b.events
	r.b.events = nil
	r.b.mu.Unlock()
	return canon(evs)
}

// do executes one operation and returns what was observed until the system was quiet again
func (r *runner) do(o *Op) []Ev {
	b := r.b
	early := false
	switch o.T {
	case "req":
		req, err := buildReq(r.c.Svcs[o.S].Kind, o.Cols, o.Sz)
		if err != nil {
			b.fail(err.Error())
			return nil
		}
		var pr *promise.Promise[uint32]
		if p := hx.Catch(func() { pr = r.svcs[o.S].Request(req, service.INSERT_MODE_SYNC) }); p != "" {
			b.fail("panic in Request: " + p)
			return nil
		}
		b.log(Ev{T: "req", S: o.S, P: o.P})
		go watch(b, o.P, pr)
	case "plan":
		r.svcs[o.S].SyncService.PlanFlush()
	case "mreq":
		// A Request that arrives while a flush of the same service is between taking what waits and installing the next column set.
		// The column pools of ALL insert services are guarded by one mutex (service.StartAcq / FinishAcq, taken inside every
		// acquireColumns): the harness holds it -- standing in for another service that is acquiring its columns at that moment --,
		// plans the flush, waits until the fetch loop is blocked on that mutex (or parked: nothing waited, no connection ...), submits
		// the request from a goroutine of its own, waits until that goroutine has returned or is blocked on the service mutex, and only
		// then releases the pool.  swapBuffers holds the service mutex across acquireColumns, so the request is served AFTER the swap
		// (the model: SPlan, the fetch loop's steps, then SRequest); a swap in two critical sections lets it in between
		// (model/IngestSwap2.v, two_step_swap_refuted): its rows travel in the block being taken, its promise waits for the next one.
		req, err := buildReq(r.c.Svcs[o.S].Kind, o.Cols, o.Sz)
		if err != nil {
			b.fail(err.Error())
			return nil
		}
		service.StartAcq()
		released := false
		release := func() {
			if !released {
				released = true
				service.FinishAcq()
			}
		}
		defer release()
		r.svcs[o.S].SyncService.PlanFlush()
		if err := waitQuietAt(atPool); err != nil {
			b.fail("mreq, flush planned: " + err.Error())
			return nil
		}
		go func() {
			var pr *promise.Promise[uint32]
			if p := hx.Catch(func() { pr = r.svcs[o.S].Request(req, service.INSERT_MODE_SYNC) }); p != "" {
				b.fail("panic in Request: " + p)
				return
			}
			b.log(Ev{T: "req", S: o.S, P: o.P})
			go watch(b, o.P, pr)
		}()
		if err := waitQuietAt(atPoolOrRequest); err != nil {
			b.fail("mreq, request submitted: " + err.Error())
			return nil
		}
		// early: Request has RETURNED while the pool is still held -- it was served before the flush could install its next column set
		// (or there is no flush in progress).  Otherwise it waits for the service mutex, which the fetch loop holds across acquireColumns:
		// it is served after that critical section.  The two orders cannot be told from the log (the "swap" event is written by the
		// OnBeforeInsert hook, concurrently with the request's return), so the order of the events of this operation is fixed below.
		b.mu.Lock()
		for _, e := range b.events {
			if e.T == "req" && e.P == o.P {
				early = true
			}
		}
		b.mu.Unlock()
		release()
	case "send":
		b.mu.Lock()
		bf := b.before[o.S]
		b.before[o.S] = false
		b.mu.Unlock()
		if !bf {
			b.fail("send without a worker in OnBeforeInsert")
			return nil
		}
		b.goahead[o.S] <- true
	case "ret":
		b.mu.Lock()
		fl := b.inflight[o.S]
		b.inflight[o.S] = false
		b.mu.Unlock()
		if !fl {
			b.fail("ret without a blocked Do")
			return nil
		}
		b.log(Ev{T: "done", S: o.S, Ok: o.Ok})
		b.release[o.S] <- o.Ok
	case "stop":
		r.svcs[o.S].SyncService.Stop()
	}
	if err := waitQuiet(); err != nil {
		b.fail(err.Error())
	}
	evs := r.take()
	if o.T == "mreq" && !early {
		// the request was served after the critical section of the flush in progress: the worker's dials and its swap come first
		var first, rest []Ev
		for _, e := range evs {
			if e.T == "dial" || e.T == "swap" {
				first = append(first, e)
			} else {
				rest = append(rest, e)
			}
		}
		evs = append(first, rest...)
	}
	if o.T == "req" || o.T == "mreq" {
		// a completion seen before any Do returned was made by Request itself
		for i := range evs {
			if evs[i].T == "req" {
				for _, e := range evs {
					if e.T == "res" && e.P == o.P {
						ok := e.Ok
						evs[i].Imm = &ok
					}
				}
			}
		}
	}
	return evs
}

func (r *runner) finish() {
	// let every parked worker go on and every blocked Do fail, stop everything, wait for the fetch loops to exit
	for round := 0; round < 2; round++ {
		for s := 0; s < r.b.workers(); s++ {
			r.b.mu.Lock()
			bf := r.b.before[s]
			r.b.before[s] = false
			fl := r.b.inflight[s]
			r.b.inflight[s] = false
			r.b.mu.Unlock()
			if bf {
				r.b.goahead[s] <- true
			}
			if fl {
				r.b.release[s] <- false
			}
		}
		waitQuiet()
	}
	for _, sv := range r.svcs {
		sv.Stop()
	}
	// a Stop during a dial-failure sleep or a late Do: keep releasing
	deadline := time.Now().Add(30 * time.Second)
	for time.Now().Before(deadline) {
		_, run := parked()
		if run == 0 {
			break
		}
		for s := 0; s < r.b.workers(); s++ {
			select {
			case r.b.release[s] <- false:
			default:
			}
			select {
			case r.b.goahead[s] <- true:
			default:
			}
		}
		time.Sleep(200 * time.Microsecond)
	}
	waitGone()
	r.b.mu.Lock()
	r.c.Err = r.b.trouble
	r.b.mu.Unlock()
}

func runScript(c *Case) {
	r := start(c)
	c.Obs = nil
	for i := range c.Ops {
		c.Obs = append(c.Obs, r.do(&c.Ops[i]))
		if r.b.trouble != "" {
			break
		}
	}
	r.finish()
}

// ---------------------------------------------------------------------------------------------- generation

type gen struct {
	seed    int64
	r       *rand.Rand
	nextRid int64
	quick   bool
}

func (g *gen) rids(n int64) Run {
	s := g.nextRid
	g.nextRid += n
	return Run{s, n}
}

// a request of the given kind; class says how it was made
func (g *gen) request(kind string, malformed bool, large bool) (cols []Col, sz int64, rows int, class string) {
	r := g.r
	nc := ncols[kind]
	var n int64
	switch x := r.Intn(20); {
	case x == 0:
		n, class = 0, "empty"
	case x < 8:
		n, class = 1, "one"
	case x < 19:
		n, class = 2+int64(r.Intn(5)), "few"
	default:
		if g.nextRid < 30000 && large {
			n, class = 2000+int64(r.Intn(largeSpan)), "large"
		} else {
			n, class = 7, "few"
		}
	}
	if kind == "profile" && (n > 1 || n == 0) && !malformed {
		n, class = 1, "one" // a profile request is one row
	}
	run := g.rids(n)
	cols = make([]Col, nc)
	for j := range cols {
		if n > 0 {
			cols[j] = Col{run}
		} else {
			cols[j] = Col{}
		}
	}
	sz = 10*n + int64(r.Intn(7)) + 1
	if n == 0 {
		sz = 0
	}
	if kind == "profile" {
		// the five array columns always carry exactly one value
		one := Run{run[0], 1}
		if n == 0 {
			one = g.rids(1)
		}
		for j := range profArr {
			cols[j] = Col{one}
		}
	}
	rows = int(n)
	if !malformed {
		return
	}
	class = "malformed-" + class
	scalar := []int{}
	for j := 0; j < nc; j++ {
		if !(kind == "profile" && profArr[j]) {
			scalar = append(scalar, j)
		}
	}
	j := scalar[r.Intn(len(scalar))]
	switch r.Intn(5) {
	case 0: // one column one value longer
		extra := g.rids(1)
		if kind == "series" && j == 1 {
			j = 3 // a longer date column would index MLabels out of range (a panic, not modelled as a run)
		}
		cols[j] = append(append(Col{}, cols[j]...), extra)
	case 1: // one column empty
		if kind == "series" && j == 3 && n > 0 {
			j = 2
		}
		cols[j] = Col{}
	case 2: // key column empty, the rest stays: accepted as "nothing inserted"
		j = keycol[kind]
		if kind == "series" {
			cols[3] = Col{}
		}
		cols[j] = Col{}
	case 3: // a column holding another request's row
		if n > 0 && !(kind == "series" && (j == 1 || j == 3)) {
			cols[j] = Col{g.rids(n)}
		}
	case 4: // size accounted as zero although rows exist
		sz = 0
	}
	return
}

func (g *gen) newCase(id int) *Case {
	r := g.r
	c := &Case{ID: id, Attempts: 1}
	g.nextRid = 1
	ns := 1 + r.Intn(3)
	parallel := r.Intn(4) == 0 // a quarter of the scripts has round robins of 2..3 workers
	nw := 0
	for i := 0; i < ns; i++ {
		mq := int64(0)
		switch r.Intn(4) {
		case 0:
			mq = int64(20 + r.Intn(60)) // size trigger within reach
		case 1:
			mq = 1 << 30
		}
		par := 1
		if parallel && r.Intn(3) != 0 {
			par = 2 + r.Intn(2)
		}
		c.Svcs = append(c.Svcs, SvcCfg{Kind: kinds[r.Intn(len(kinds))], MaxQ: mq, Par: par})
		for k := 0; k < par; k++ {
			c.Dials = append(c.Dials, []bool{})
		}
		nw += par
	}
	malformed := !parallel && r.Intn(5) == 0
	c.Class = "wf"
	if malformed {
		c.Class = "malformed"
	}
	if parallel {
		c.Class = "wf+parallel"
	}
	if r.Intn(40) == 0 { // a refused connection costs a real second
		c.Dials[r.Intn(nw)] = []bool{false}
		c.Class += "+dialfail"
	}
	return c
}

// generate-and-run: the next operation is chosen knowing which workers are parked in OnBeforeInsert or in Do.
// req / plan / stop name a service, send / ret name a worker.
func (g *gen) runGenerated(c *Case) {
	r := g.r
	rn := start(c)
	b := rn.b
	malformed := strings.HasPrefix(c.Class, "malformed")
	parallel := strings.Contains(c.Class, "parallel")
	nops := 4 + r.Intn(11)
	if parallel {
		nops += 4
	}
	stopped := make([]bool, len(c.Svcs))
	state := func(w int) (fl, bf bool) {
		b.mu.Lock()
		defer b.mu.Unlock()
		return b.inflight[w], b.before[w]
	}
	svcBusy := func(s int) bool {
		for w := b.base[s]; w < b.base[s]+b.par[s]; w++ {
			if fl, bf := state(w); fl || bf {
				return true
			}
		}
		return false
	}
	step := func(o Op) []Ev {
		c.Ops = append(c.Ops, o)
		evs := rn.do(&c.Ops[len(c.Ops)-1])
		c.Obs = append(c.Obs, evs)
		return evs
	}
	// mid-swap scenario (one service in the script, one worker, not stopped): [a request so that something waits,] then a request that
	// arrives WHILE the planned flush waits for its next column set (op mreq), then the block taken is sent and answered, the next flush
	// planned, sent and answered with the OPPOSITE outcome -- a swap that is not one critical section answers the second request with the
	// outcome of the wrong block.  Every step is taken only if the state allows it (the script stays executable whatever the code does).
	midswap := func(s int) {
		w := b.base[s]
		kind := c.Svcs[s].Kind
		newReq := func(t string) {
			cols, sz, rows, _ := g.request(kind, false, false)
			if len(expand(cols[keycol[kind]])) == 0 {
				cols, sz, rows = make([]Col, ncols[kind]), 11, 1
				one := g.rids(1)
				for j := range cols {
					cols[j] = Col{one}
				}
			}
			step(Op{T: t, S: s, P: rn.nextP, Cols: cols, Sz: sz})
			rn.nextP++
			c.Rows += rows
		}
		if fl, bf := state(w); !fl && !bf && r.Intn(4) != 0 {
			newReq("req")
		}
		newReq("mreq")
		first := r.Intn(2) == 0
		for k, ok := range []bool{first, !first} {
			if _, bf := state(w); bf && b.trouble == "" {
				step(Op{T: "send", S: w})
			}
			if fl, _ := state(w); fl && b.trouble == "" {
				step(Op{T: "ret", S: w, Ok: ok})
			}
			if k == 0 && b.trouble == "" {
				step(Op{T: "plan", S: s})
			}
		}
	}
	// overload scenario (round 8; one worker, not stopped, well-formed script): ClickHouse stalls on the previous block (its Do stays
	// blocked, when there is one) or simply no flush comes while 4..7 requests arrive whose ACCOUNTED sizes (helpers.SizeGetter: what the
	// parsers measured on the bodies; the service never looks at the bytes) are 13..30 MiB each, so that more than 50 MiB -- the unused
	// constant BANDWITH_LIMIT of writer/service -- and up to ~200 MiB pile up in ONE InsertServiceV2 between two flushes; then recovery:
	// the stalled Do returns, the pile is flushed, sent and answered.  The model accounts any size (Z) and knows no other threshold than
	// maxQueueSize: every request with rows is registered as waiting for the block its rows are in.
	overload := func(s int) {
		w := b.base[s]
		kind := c.Svcs[s].Kind
		if fl, bf := state(w); !fl && !bf && r.Intn(2) == 0 {
			// something in flight first: a small request, flushed, its Do left blocked
			cols, sz, rows, _ := g.request(kind, false, false)
			if len(expand(cols[keycol[kind]])) > 0 {
				step(Op{T: "req", S: s, P: rn.nextP, Cols: cols, Sz: sz})
				rn.nextP++
				c.Rows += rows
				step(Op{T: "plan", S: s})
				if _, bf := state(w); bf && b.trouble == "" {
					step(Op{T: "send", S: w})
				}
			}
		}
		n := 4 + r.Intn(4)
		for k := 0; k < n && b.trouble == ""; k++ {
			cols, _, rows, _ := g.request(kind, false, false)
			if len(expand(cols[keycol[kind]])) == 0 {
				cols, rows = make([]Col, ncols[kind]), 1
				one := g.rids(1)
				for j := range cols {
					cols[j] = Col{one}
				}
			}
			sz := int64(13<<20) + 1 + r.Int63n(17<<20)
			step(Op{T: "req", S: s, P: rn.nextP, Cols: cols, Sz: sz})
			rn.nextP++
			c.Rows += rows
		}
		// recovery: whatever is in flight returns, the pile is flushed and answered
		ok := r.Intn(3) != 0
		for k := 0; k < 2 && b.trouble == ""; k++ {
			if _, bf := state(w); bf && b.trouble == "" {
				step(Op{T: "send", S: w})
			}
			if fl, _ := state(w); fl && b.trouble == "" {
				step(Op{T: "ret", S: w, Ok: ok || k == 1})
			}
			if k == 0 && b.trouble == "" {
				step(Op{T: "plan", S: s})
			}
		}
	}
	for i := 0; i < nops && b.trouble == ""; i++ {
		s := r.Intn(len(c.Svcs))
		w := b.base[s] + r.Intn(b.par[s])
		x := r.Intn(100)
		fl, bf := state(w)
		switch {
		case x >= 84 && x < 88 && b.par[s] == 1 && !stopped[s] && !malformed && !strings.Contains(c.Class, "+overload"):
			overload(s)
			i += 4
			c.Class += "+overload"
		case x >= 88 && x < 97 && b.par[s] == 1 && !stopped[s] && !malformed:
			midswap(s)
			i += 3
			if !strings.Contains(c.Class, "+midswap") {
				c.Class += "+midswap"
			}
		case bf && x < 40:
			step(Op{T: "send", S: w})
		case fl && x < 45:
			step(Op{T: "ret", S: w, Ok: r.Intn(3) != 0})
		case x < 70:
			// very large requests only in well-formed scripts (the monitors' fast paths need whole rows)
			cols, sz, rows, _ := g.request(c.Svcs[s].Kind, malformed && r.Intn(3) == 0, !malformed)
			if parallel && len(expand(cols[keycol[c.Svcs[s].Kind]])) == 0 {
				continue // which worker served a request that left no row cannot be told afterwards
			}
			step(Op{T: "req", S: s, P: rn.nextP, Cols: cols, Sz: sz})
			rn.nextP++
			c.Rows += rows
		case x < 97:
			step(Op{T: "plan", S: s})
		default:
			if stopped[s] || svcBusy(s) || b.par[s] > 1 {
				// Stop while a Do is blocked is observed by Run only after that Do returned, in a random
				// order with a pending flush: not a deterministic script
				step(Op{T: "plan", S: s})
			} else {
				step(Op{T: "stop", S: s})
				stopped[s] = true
			}
		}
	}
	// drain: let every parked worker send, every blocked Do return with success, flush what is left, until a
	// whole round of PlanFlush produces nothing
	anyStop := false
	for _, st := range stopped {
		anyStop = anyStop || st
	}
	for round := 0; round < 6 && b.trouble == ""; round++ {
		busy := false
		for s := range c.Svcs {
			for w := b.base[s]; w < b.base[s]+b.par[s]; w++ {
				for k := 0; k < 4 && b.trouble == ""; k++ {
					fl, bf := state(w)
					if bf {
						step(Op{T: "send", S: w})
					} else if fl {
						step(Op{T: "ret", S: w, Ok: true})
					} else {
						break
					}
					busy = true
				}
			}
			if !stopped[s] && b.trouble == "" {
				if len(step(Op{T: "plan", S: s})) > 0 {
					busy = true
				}
			}
		}
		if !busy {
			c.Drained = !anyStop
			break
		}
	}
	rn.finish()
}

// largeSpan: a request of the class "large" has 2000 .. 2000+largeSpan rows (the quick tier passes a smaller span)
var largeSpan = 9000

func main() {
	level := flag.Int("level", 1, "1 = service scripts, 2 = HTTP handlers with retry, 3 = soak, 4 = parser cells (scripted decoder behind the real batching handlers)")
	flag.IntVar(&largeSpan, "largespan", 9000, "rows of a large request: 2000 .. 2000+largespan")
	f := hx.ParseFlags()
	config.Cloki = clconfig.New(clconfig.CLOKI_WRITER, nil, "", "")
	service.CreateColPools(0)
	logger.Logger.SetOutput(io.Discard)
	out := hx.OpenOut(f.Out)
	defer out.Close()
	watch := func(put func(msg string)) {
		wdMu.Lock()
		wdCur = func(msg string) { put(msg); out.Close() }
		wdMu.Unlock()
		atomic.AddInt64(&wdBeat, 1)
	}
	go watchdog()
	if *level == 3 {
		initLevel2()
		for i := 0; i < f.N; i++ {
			out.Put(runSoak(i, f.Seed+int64(i), 16, 6))
		}
		return
	}
	if *level == 4 {
		initLevel2()
		if f.Cases != "" {
			hx.ReadLines(f.Cases, func(b []byte) {
				var c CellCase
				if err := json.Unmarshal(b, &c); err != nil {
					panic(err)
				}
				watch(func(msg string) { c.Err = msg; out.Put(c) })
				runCells(&c)
				out.Put(c)
			})
			return
		}
		r := hx.Rand(f.Seed)
		for i := 0; i < f.N; i++ {
			c := genCells(r, i)
			watch(func(msg string) { c.Err = msg; out.Put(c) })
			runCells(c)
			out.Put(c)
		}
		return
	}
	if *level == 2 {
		initLevel2()
		if f.Cases != "" {
			hx.ReadLines(f.Cases, func(b []byte) {
				var c Case2
				if err := json.Unmarshal(b, &c); err != nil {
					panic(err)
				}
				watch(func(msg string) { c.Err = msg; out.Put(c) })
				runScript2(&c)
				out.Put(c)
			})
			return
		}
		g := &gen{r: hx.Rand(f.Seed), seed: f.Seed}
		uniq := f.Seed % 1000 * 1000000
		for i := 0; i < f.N; i++ {
			c := &Case2{ID: i}
			watch(func(msg string) { c.Err = msg; out.Put(c) })
			g.runGenerated2(c, &uniq)
			out.Put(c)
		}
		return
	}
	if f.Cases != "" {
		hx.ReadLines(f.Cases, func(b []byte) {
			var c Case
			if err := json.Unmarshal(b, &c); err != nil {
				panic(err)
			}
			watch(func(msg string) { c.Err = msg; out.Put(c) })
			runScript(&c)
			out.Put(c)
		})
		return
	}
	g := &gen{r: hx.Rand(f.Seed)}
	for i := 0; i < f.N; i++ {
		c := g.newCase(i)
		watch(func(msg string) { c.Err = msg; out.Put(c) })
		g.runGenerated(c)
		out.Put(c)
	}
}
