// Level 2: the REAL HTTP push handlers of writer/controller (PushStreamV2 = Loki push, PushV2 = Tempo/Zipkin
// push), i.e. doParse / doPush with avast/retry-go, wired through registry.NewStaticServiceRegistry to real
// insert services over the scripted fake client of level 1.  What a body makes the parser emit (chunks,
// sub-requests, rows) is learnt by running the same exported parser once beforehand; every row is identified by
// its full content, so the blocks observed at the fake client can be mapped back to the rows of the pushes.
package main

import (
	"context"
	"encoding/binary"
	"encoding/hex"
	"fmt"
	"io"
	"math/rand"
	"net/http"
	"net/http/httptest"
	"net/url"
	"sort"
	"strings"
	"sync"
	"time"

	"bytes"

	"github.com/ClickHouse/ch-go/proto"
	"github.com/golang/snappy"
	pprof_proto "github.com/google/pprof/profile"
	"github.com/metrico/qryn/writer/utils/proto/logproto"
	"github.com/metrico/qryn/writer/utils/proto/prompb"
	v11 "go.opentelemetry.io/proto/otlp/common/v1"
	resv1 "go.opentelemetry.io/proto/otlp/resource/v1"
	trace "go.opentelemetry.io/proto/otlp/trace/v1"
	gproto "google.golang.org/protobuf/proto"
	controllerv1 "github.com/metrico/qryn/writer/controller"
	"github.com/metrico/qryn/writer/config"
	"github.com/metrico/qryn/writer/model"
	"github.com/metrico/qryn/writer/service"
	"github.com/metrico/qryn/writer/service/registry"
	"github.com/metrico/qryn/writer/utils/helpers"
	"github.com/metrico/qryn/writer/utils/numbercache"
	"github.com/metrico/qryn/writer/utils/promise"
	"github.com/metrico/qryn/writer/utils/unmarshal"
)

// groups (= workers, one each) of a level-2 case, in this order
var l2kinds = []string{"series", "samples", "tags", "spans", "profile"}

const (
	gSeries = iota
	gSamples
	gTags
	gSpans
	gProfile
)

type SubReq struct {
	G    int     `json:"g"`
	Kind string  `json:"kind"`
	Rids []int64 `json:"rids"`
	Sz   int64   `json:"sz"`
}
type Item struct {
	Chunk []SubReq `json:"chunk,omitempty"`
	Err   bool     `json:"err,omitempty"`
}
type HReq struct {
	Route string `json:"route"` // loki | zipkin | lokiproto | prom | otlp | profile
	Body  string `json:"body"`  // hex (as sent on the wire)
	Gen   string `json:"gen,omitempty"` // instead of body: "bigzipkin:<spans>:<pad bytes>:<first id>:<tag>" (synthesised, > 1 MiB)
	Query string `json:"query,omitempty"`
	Items []Item `json:"items"` // what the parser emits for this body (learnt by a dry run)
	Ts    string `json:"ts,omitempty"` // timestamp classes of the body (stamp): usual / pre1970 / epoch / far-future, one letter per stream
}
type Op2 struct {
	T  string `json:"t"` // http plan send ret
	H  int    `json:"h,omitempty"`
	S  int    `json:"s"`
	Ok bool   `json:"ok,omitempty"`
	E  int    `json:"e,omitempty"` // ret with ok = false: index of the error text (errTexts) the INSERT fails with
}
type Ev2 struct {
	T      string  `json:"t"` // dial swap send done answer sreq sres conf
	S      int     `json:"s"`
	H      int     `json:"h,omitempty"`
	I      int     `json:"i,omitempty"` // sreq / sres: position of the sub-request among those of push h
	K      int     `json:"k,omitempty"` // sreq / sres: attempt number (calls of Request for this sub-request before this one)
	N      int     `json:"n,omitempty"` // sreq / sres: rows of the request (a request without rows cannot be told apart from another one)
	Ok     bool    `json:"ok"`
	Rids   []int64 `json:"rids,omitempty"`   // send: the rows of the block, in block order; conf: the series row whose key ConfirmSeries entered into the cache (-1: a key no push of the script explains)
	Counts []int   `json:"counts,omitempty"` // send: rows per column when they differ
	Status int     `json:"status,omitempty"`
}
type Case2 struct {
	ID       int      `json:"id"`
	Class    string   `json:"class"`
	Attempts int      `json:"attempts"`
	Dials    [][]bool `json:"dials"`
	Reqs     []HReq   `json:"reqs"`
	Ops      []Op2    `json:"ops"`
	Obs      [][]Ev2  `json:"obs"`
	Drained  bool     `json:"drained"`
	Err      string   `json:"err,omitempty"`
	Rows     int      `json:"rows"`
	Repeat   bool     `json:"repeat,omitempty"` // the script pushes the same series more than once (the parsers read the announcement cache)
}

// wire returns the bytes sent on the wire for a push
func (hr *HReq) wire() []byte {
	if hr.Gen != "" {
		var n, pad int
		var first int64
		var tag string
		parts := strings.SplitN(hr.Gen, ":", 5)
		if len(parts) == 5 && parts[0] == "bigzipkin" {
			fmt.Sscan(parts[1], &n)
			fmt.Sscan(parts[2], &pad)
			fmt.Sscan(parts[3], &first)
			tag = parts[4]
			return bigZipkin(n, pad, first, tag)
		}
	}
	b, _ := hex.DecodeString(hr.Body)
	return b
}

// bigZipkin: n spans with one small and one large tag each; the parser accounts payload + tag values, so
// pad*2*n > 1 MiB makes onSpan cut the request into several chunks
func bigZipkin(n, pad int, first int64, tag string) []byte {
	var sb strings.Builder
	sb.WriteString("[")
	for i := 0; i < n; i++ {
		id := first + int64(i)
		if i > 0 {
			sb.WriteString(",")
		}
		filler := strings.Repeat(fmt.Sprintf("%06d", id%1000000), pad/6+1)[:pad]
		fmt.Fprintf(&sb, `{"traceId":"%032x","id":"%016x","name":"big-%s-%d","timestamp":%d,"duration":%d,"localEndpoint":{"serviceName":"svc-%s"},"tags":{"k":"v%d","pad":"%s"}}`,
			id, id, tag, id, 1700000000000000+id, 10+id%7, tag, id, filler)
	}
	sb.WriteString("]")
	return []byte(sb.String())
}

// ---------------------------------------------------------------------------------------------- row contents

func fmtBytes(b []byte) string { return hex.EncodeToString(b) }

// reqRowKeys renders every row of a request struct as one string (all columns but dates, whose zone handling
// is C04's business); nil when the arrays are not equally long.
func reqRowKeys(kind string, r helpers.SizeGetter) ([]string, bool) {
	var cols [][]string
	add := func(n int, f func(i int) string) {
		c := make([]string, n)
		for i := range c {
			c[i] = f(i)
		}
		cols = append(cols, c)
	}
	switch kind {
	case "samples":
		d := r.(*model.TimeSamplesData)
		add(len(d.MType), func(i int) string { return fmt.Sprint(d.MType[i]) })
		add(len(d.MFingerprint), func(i int) string { return fmt.Sprint(d.MFingerprint[i]) })
		add(len(d.MTimestampNS), func(i int) string { return fmt.Sprint(d.MTimestampNS[i]) })
		add(len(d.MMessage), func(i int) string { return d.MMessage[i] })
		add(len(d.MValue), func(i int) string { return fmt.Sprint(d.MValue[i]) })
	case "series":
		d := r.(*model.TimeSeriesData)
		add(len(d.MType), func(i int) string { return fmt.Sprint(d.MType[i]) })
		add(len(d.MDate), func(i int) string { return "" })
		add(len(d.MFingerprint), func(i int) string { return fmt.Sprint(d.MFingerprint[i]) })
		add(len(d.MLabels), func(i int) string { return d.MLabels[i] })
	case "spans":
		d := r.(*model.TempoSamples)
		add(len(d.MTraceId), func(i int) string { return fmtBytes(d.MTraceId[i]) })
		add(len(d.MSpanId), func(i int) string { return fmtBytes(d.MSpanId[i]) })
		add(len(d.MParentId), func(i int) string { return d.MParentId[i] })
		add(len(d.MName), func(i int) string { return d.MName[i] })
		add(len(d.MTimestampNs), func(i int) string { return fmt.Sprint(d.MTimestampNs[i]) })
		add(len(d.MDurationNs), func(i int) string { return fmt.Sprint(d.MDurationNs[i]) })
		add(len(d.MServiceName), func(i int) string { return d.MServiceName[i] })
		add(len(d.MPayloadType), func(i int) string { return fmt.Sprint(d.MPayloadType[i]) })
		add(len(d.MPayload), func(i int) string { return string(d.MPayload[i]) })
	case "tags":
		d := r.(*model.TempoTag)
		add(len(d.MDate), func(i int) string { return "" })
		add(len(d.MKey), func(i int) string { return d.MKey[i] })
		add(len(d.MVal), func(i int) string { return d.MVal[i] })
		add(len(d.MTraceId), func(i int) string { return fmtBytes(d.MTraceId[i]) })
		add(len(d.MSpanId), func(i int) string { return fmtBytes(d.MSpanId[i]) })
		add(len(d.MTimestampNs), func(i int) string { return fmt.Sprint(d.MTimestampNs[i]) })
		add(len(d.MDurationNs), func(i int) string { return fmt.Sprint(d.MDurationNs[i]) })
	case "profile":
		d := r.(*model.ProfileData)
		one := func(v interface{}) { add(1, func(i int) string { return fmt.Sprint(v) }) }
		add(len(d.TimestampNs), func(i int) string { return fmt.Sprint(d.TimestampNs[i]) })
		add(len(d.Ptype), func(i int) string { return d.Ptype[i] })
		add(len(d.ServiceName), func(i int) string { return d.ServiceName[i] })
		one(d.SamplesTypesUnits)
		add(len(d.PeriodType), func(i int) string { return d.PeriodType[i] })
		add(len(d.PeriodUnit), func(i int) string { return d.PeriodUnit[i] })
		one(d.Tags)
		add(len(d.DurationNs), func(i int) string { return fmt.Sprint(d.DurationNs[i]) })
		add(len(d.PayloadType), func(i int) string { return d.PayloadType[i] })
		add(len(d.Payload), func(i int) string { return string(d.Payload[i]) })
		one(d.ValuesAgg)
		one(treeKey(d.Tree))
		one(d.Function)
	default:
		return nil, false
	}
	return joinCols(cols)
}

// treeKey renders a call tree without the second value of the value tuples: service.ColTupleTreeValueAdapter.Row
// (only used to read a column back, as here) returns the first value twice
func treeKey(tr []model.TreeRootStructure) string {
	var sb strings.Builder
	for _, n := range tr {
		fmt.Fprintf(&sb, "(%d %d %d", n.Field1, n.Field2, n.Field3)
		for _, v := range n.ValueArrTuple {
			fmt.Fprintf(&sb, " %s:%d", v.ValueStr, v.FirstValueInt64)
		}
		sb.WriteString(")")
	}
	return sb.String()
}

func joinCols(cols [][]string) ([]string, bool) {
	n := len(cols[0])
	for _, c := range cols {
		if len(c) != n {
			return nil, false
		}
	}
	keys := make([]string, n)
	for i := range keys {
		parts := make([]string, len(cols))
		for j := range cols {
			parts[j] = cols[j][i]
		}
		keys[i] = strings.Join(parts, "\x00")
	}
	return keys, true
}

func colStrings(d proto.ColInput) []string {
	var o []string
	switch c := d.(type) {
	case proto.ColUInt8:
		for _, x := range c {
			o = append(o, fmt.Sprint(x))
		}
	case proto.ColInt8:
		for _, x := range c {
			o = append(o, fmt.Sprint(x))
		}
	case proto.ColUInt64:
		for _, x := range c {
			o = append(o, fmt.Sprint(x))
		}
	case proto.ColInt64:
		for _, x := range c {
			o = append(o, fmt.Sprint(x))
		}
	case proto.ColFloat64:
		for _, x := range c {
			o = append(o, fmt.Sprint(x))
		}
	case proto.ColDate:
		for range c {
			o = append(o, "")
		}
	case *proto.ColStr:
		for i := 0; i < c.Rows(); i++ {
			o = append(o, c.Row(i))
		}
	case *proto.ColFixedStr:
		for i := 0; i < c.Rows(); i++ {
			o = append(o, fmtBytes(c.Row(i)))
		}
	case *proto.ColArr[model.StrStr]:
		for i := 0; i < c.Rows(); i++ {
			o = append(o, fmt.Sprint(c.Row(i)))
		}
	case *proto.ColArr[model.ValuesAgg]:
		for i := 0; i < c.Rows(); i++ {
			o = append(o, fmt.Sprint(c.Row(i)))
		}
	case *proto.ColArr[model.TreeRootStructure]:
		for i := 0; i < c.Rows(); i++ {
			o = append(o, treeKey(c.Row(i)))
		}
	case *proto.ColArr[model.Function]:
		for i := 0; i < c.Rows(); i++ {
			o = append(o, fmt.Sprint(c.Row(i)))
		}
	default:
		for i := 0; i < d.Rows(); i++ {
			o = append(o, "?")
		}
	}
	return o
}

// ---------------------------------------------------------------------------------------------- the level-2 bench

type bench2 struct {
	*bench
	rid     map[string]int64 // group + row content -> row id
	nextRid int64
	status  map[int]int
	owner   map[int64][2]int // row id -> (push, position of the sub-request) that submitted it
	tries   map[[2]int]int   // Request calls seen per sub-request
	keyRid  map[uint64]int64 // announcement-cache key -> the series row it stands for (learnt by running ConfirmSeries on the dry-run output)
	// the same series pushed twice gives two sub-requests with the same rows: a request object is bound to the first
	// sub-request with these rows that no other object is bound to (pushes are served one at a time, in order)
	byRows  map[string][][2]int        // group + row ids -> sub-requests (push, position), in order of learning
	bound   map[helpers.SizeGetter][2]int
	taken   map[[2]int]bool
	pushOf  map[int64]int // goroutine of an HTTP handler -> its push (ConfirmSeries runs on it)
	cache   *numbercache.Cache[uint64]
}

// spySvc stands between doPush and the real service: it sees every Request call (which sub-request, which attempt)
// and how the promise it returned was completed -- the retry count and the contents of the promise store
type spySvc struct {
	service.IInsertServiceV2
	b *bench2
	g int
}

func (s *spySvc) Request(req helpers.SizeGetter, mode int) *promise.Promise[uint32] {
	h, i, nrows := -1, -1, 0
	if keys, ok := reqRowKeys(l2kinds[s.g], req); ok && len(keys) > 0 {
		nrows = len(keys)
		s.b.mu.Lock()
		if o, known := s.b.bound[req]; known {
			h, i = o[0], o[1]
		} else {
			var ids []int64
			for _, k := range keys {
				ids = append(ids, s.b.rid[fmt.Sprint(s.g)+"|"+k])
			}
			for _, o := range s.b.byRows[fmt.Sprint(s.g, ids)] {
				if !s.b.taken[o] {
					s.b.taken[o] = true
					s.b.bound[req] = o
					h, i = o[0], o[1]
					break
				}
			}
			if h < 0 {
				// the parser left rows out (announcement cache): the sub-request of the first row's owner, as before
				if id, known := s.b.rid[fmt.Sprint(s.g)+"|"+keys[0]]; known {
					if o, ok := s.b.owner[id]; ok {
						h, i = o[0], o[1]
					}
				}
			}
		}
		s.b.mu.Unlock()
	}
	s.b.mu.Lock()
	k := s.b.tries[[2]int{h, i}]
	s.b.tries[[2]int{h, i}] = k + 1
	s.b.events = append(s.b.events, Ev{T: "sreq", L2: &Ev2{T: "sreq", S: s.g, H: h, I: i, K: k, N: nrows}})
	s.b.mu.Unlock()
	p := s.IInsertServiceV2.Request(req, mode)
	go func() {
		_, err := p.Get()
		s.b.log(Ev{T: "sres", L2: &Ev2{T: "sres", S: s.g, H: h, I: i, K: k, N: nrows, Ok: err == nil}})
	}()
	return p
}

// spyCache stands between doParse / the parsers and the real announcement cache: every CheckAndSet (only ConfirmSeries
// calls it since /repo 00ba95e) is logged as a "conf" event with the series row the key stands for and the push that owns it
type spyCache struct {
	inner numbercache.ICache[uint64]
	b     *bench2
}

func (c *spyCache) CheckAndSet(key uint64) bool {
	g := gid()
	c.b.mu.Lock()
	id, known := c.b.keyRid[key]
	h := -1
	if !known {
		id = -1
	} else if p, ok := c.b.pushOf[g]; ok {
		h = p // ConfirmSeries runs on the handler goroutine of the push
	} else if o, ok := c.b.owner[id]; ok {
		h = o[0]
	}
	c.b.events = append(c.b.events, Ev{T: "conf", L2: &Ev2{T: "conf", H: h, Rids: []int64{id}}})
	c.b.mu.Unlock()
	return c.inner.CheckAndSet(key)
}
func (c *spyCache) Has(key uint64) bool { return c.inner.Has(key) }
func (c *spyCache) DB(db string) numbercache.ICache[uint64] {
	return &spyCache{inner: c.inner.DB(db), b: c.b}
}

// keyRecorder is handed to unmarshal.ConfirmSeries on the dry-run output to learn the cache key of every series row
type keyRecorder struct{ keys []uint64 }

func (k *keyRecorder) CheckAndSet(key uint64) bool         { k.keys = append(k.keys, key); return false }
func (k *keyRecorder) Has(key uint64) bool                 { return false }
func (k *keyRecorder) DB(string) numbercache.ICache[uint64] { return k }

// learn records which sub-request of which push owns the rows of the items of push h
func (b *bench2) learn(h int, items []Item) {
	b.mu.Lock()
	defer b.mu.Unlock()
	i := 0
	for _, it := range items {
		if it.Err {
			break
		}
		for _, sr := range it.Chunk {
			for _, id := range sr.Rids {
				if _, dup := b.owner[id]; !dup {
					b.owner[id] = [2]int{h, i}
				}
			}
			if len(sr.Rids) > 0 {
				k := fmt.Sprint(sr.G, sr.Rids)
				b.byRows[k] = append(b.byRows[k], [2]int{h, i})
			}
			i++
		}
	}
}

// Do of the level-2 client: rows are recognised by content
type fakeClient2 struct {
	fakeClient
	b2 *bench2
}

func (c *fakeClient2) doLevel2(input proto.Input) Ev2 {
	cols := make([][]string, len(input))
	counts := make([]int, len(input))
	for i, in := range input {
		cols[i] = colStrings(in.Data)
		counts[i] = len(cols[i])
	}
	ev := Ev2{T: "send", S: c.s}
	keys, ok := joinCols(cols)
	if !ok {
		ev.Counts = counts
		return ev
	}
	c.b2.mu.Lock()
	for _, k := range keys {
		id, known := c.b2.rid[fmt.Sprint(c.s)+"|"+k]
		if !known {
			id = -1
		}
		ev.Rids = append(ev.Rids, id)
	}
	c.b2.mu.Unlock()
	return ev
}

// the events of level 2 are kept in bench.events as Ev with the Ev2 payload smuggled in L2
// take2raw: the events in the order they were logged
func (b *bench2) take2raw() []Ev2 {
	b.mu.Lock()
	evs := b.events
	b.events = nil
	b.mu.Unlock()
	out := make([]Ev2, 0, len(evs))
	for _, e := range evs {
		switch e.T {
		case "send":
			x := *e.L2
			x.S = e.S
			out = append(out, x)
		case "sreq", "sres", "conf":
			out = append(out, *e.L2)
		case "answer":
			out = append(out, Ev2{T: "answer", H: e.P, Ok: e.Ok, Status: int(e.S)})
		default:
			out = append(out, Ev2{T: e.T, S: e.S, Ok: e.Ok})
		}
	}
	return out
}

func (b *bench2) take2() []Ev2 {
	b.mu.Lock()
	evs := b.events
	b.events = nil
	b.mu.Unlock()
	out := make([]Ev2, 0, len(evs))
	for _, e := range evs {
		switch e.T {
		case "send", "sreq", "sres", "conf":
			out = append(out, *e.L2)
		case "answer":
			out = append(out, Ev2{T: "answer", H: e.P, Ok: e.Ok, Status: int(e.S)})
		default:
			out = append(out, Ev2{T: e.T, S: e.S, Ok: e.Ok})
		}
	}
	rank := func(e Ev2) int {
		switch e.T {
		case "done":
			return 0
		case "answer":
			return 1
		case "sreq", "sres", "conf":
			return 3
		}
		return 2
	}
	sort.SliceStable(out, func(i, j int) bool {
		a, c := out[i], out[j]
		if rank(a) != rank(c) {
			return rank(a) < rank(c)
		}
		if rank(a) == 1 {
			return a.H < c.H
		}
		if rank(a) == 2 {
			return a.S < c.S
		}
		return false
	})
	return out
}

type runner2 struct {
	c        *Case2
	b        *bench2
	svcs     []*service.InsertServiceV2Multimodal
	handlers map[string]func(w http.ResponseWriter, r *http.Request)
}

var fpCache2 *numbercache.Cache[uint64]
var node2 *model.DataDatabasesMap

func parserCtx() context.Context {
	ctx := context.WithValue(context.Background(), "META", "")
	return context.WithValue(ctx, "TTL_DAYS", uint16(0))
}

// dryParse runs the exported parser of the route on the body and turns its output into model items, giving
// every emitted row an id
func (b *bench2) dryParse(hr *HReq) []Item {
	route := hr.Route
	body := hr.wire()
	var ch chan *model.ParserResponse
	cache := numbercache.NewCache[uint64](time.Hour, func(v uint64) []byte {
		x := make([]byte, 8)
		binary.LittleEndian.PutUint64(x, v)
		return x
	}, map[string]*model.DataDatabasesMap{"n": node2})
	defer cache.Stop()
	unsnap := func() []byte {
		if u, err := snappy.Decode(nil, body); err == nil {
			return u
		}
		return body
	}
	switch route {
	case "loki":
		ch = unmarshal.DecodePushRequestStringV2(parserCtx(), bytes.NewReader(body), cache.DB("n"))
	case "zipkin":
		ch = unmarshal.UnmarshalZipkinJSONV2(parserCtx(), bytes.NewReader(body), cache.DB("n"))
	case "lokiproto":
		ch = unmarshal.UnmarshalProtoV2(parserCtx(), bytes.NewReader(unsnap()), cache.DB("n"))
	case "prom":
		ch = unmarshal.UnmarshallMetricsWriteProtoV2(parserCtx(), bytes.NewReader(unsnap()), cache.DB("n"))
	case "otlp":
		ch = unmarshal.UnmarshalOTLPV2(parserCtx(), bytes.NewReader(body), cache.DB("n"))
	case "profile":
		ctx := parserCtx()
		q, _ := url.ParseQuery(hr.Query)
		for _, k := range []string{"from", "name", "until"} {
			ctx = context.WithValue(ctx, k, q.Get(k))
		}
		ch = unmarshal.UnmarshalBinaryStreamProfileProtoV2(ctx, bytes.NewReader(body), cache.DB("n"))
	}
	var items []Item
	for resp := range ch {
		if resp.Error != nil {
			items = append(items, Item{Err: true})
			go func() {
				for range ch {
				}
			}()
			break
		}
		var chunk []SubReq
		add := func(g int, r helpers.SizeGetter) {
			if r == nil {
				return
			}
			kind := l2kinds[g]
			keys, ok := reqRowKeys(kind, r)
			if !ok {
				b.fail("the parser emitted a request that is not a table (" + kind + ")")
				return
			}
			sr := SubReq{G: g, Kind: kind, Sz: r.GetSize()}
			var ckeys []uint64
			if ts, ok := r.(*model.TimeSeriesData); ok {
				rec := &keyRecorder{}
				unmarshal.ConfirmSeries(ts, rec)
				ckeys = rec.keys
			}
			b.mu.Lock()
			for j, k := range keys {
				full := fmt.Sprint(g) + "|" + k
				id, known := b.rid[full]
				if !known {
					id = b.nextRid
					b.nextRid++
					b.rid[full] = id
				}
				sr.Rids = append(sr.Rids, id)
				if j < len(ckeys) {
					b.keyRid[ckeys[j]] = id
				}
			}
			b.mu.Unlock()
			chunk = append(chunk, sr)
		}
		// the order of the five doPush calls of doParse
		add(gSeries, resp.TimeSeriesRequest)
		add(gSamples, resp.SamplesRequest)
		add(gTags, resp.SpansAttrsRequest)
		add(gSpans, resp.SpansRequest)
		add(gProfile, resp.ProfileRequest)
		items = append(items, Item{Chunk: chunk})
	}
	return items
}

func start2(c *Case2) *runner2 {
	n := len(l2kinds)
	b := newBench(make([]int, n), c.Dials)
	b2 := &bench2{bench: b, rid: map[string]int64{}, nextRid: 1, status: map[int]int{}, owner: map[int64][2]int{}, tries: map[[2]int]int{}, keyRid: map[uint64]int64{},
		byRows: map[string][][2]int{}, bound: map[helpers.SizeGetter][2]int{}, taken: map[[2]int]bool{}, pushOf: map[int64]int{}}
	// every script has an announcement cache of its own (the real numbercache): what a parser finds in it is what the
	// pushes of THIS script confirmed, also when the script is run again (corpus, replay, shrinking)
	b2.cache = numbercache.NewCache[uint64](time.Hour, func(v uint64) []byte {
		x := make([]byte, 8)
		binary.LittleEndian.PutUint64(x, v)
		return x
	}, map[string]*model.DataDatabasesMap{"n": node2})
	b.l2 = b2
	r := &runner2{c: c, b: b2}
	maps := make([]map[string]service.IInsertServiceV2, n)
	for i, kind := range l2kinds {
		sv := newService(kind, model.InsertServiceOpts{Session: b.factory(i), Node: node2, Interval: time.Hour,
			ParallelNum: 1, MaxQueueSize: 0, OnBeforeInsert: b.beforeInsert(i)})
		mm := sv.(*service.InsertServiceV2Multimodal)
		mm.Init()
		go mm.Run()
		r.svcs = append(r.svcs, mm)
		maps[i] = map[string]service.IInsertServiceV2{"n": &spySvc{IInsertServiceV2: sv, b: b2, g: i}}
	}
	controllerv1.Registry = registry.NewStaticServiceRegistry(maps[gSeries], maps[gSamples],
		map[string]service.IInsertServiceV2{}, maps[gSpans], maps[gTags], maps[gProfile])
	controllerv1.FPCache = &spyCache{inner: b2.cache, b: b2}
	config.Cloki.Setting.SYSTEM_SETTINGS.RetryAttempts = c.Attempts
	config.Cloki.Setting.SYSTEM_SETTINGS.RetryTimeoutS = 0
	cfg := controllerv1.NewMiddlewareConfig(controllerv1.WithExtraMiddlewareDefault...)
	r.handlers = map[string]func(w http.ResponseWriter, r *http.Request){
		"loki":      controllerv1.PushStreamV2(cfg),
		"lokiproto": controllerv1.PushStreamV2(cfg),
		"zipkin":    controllerv1.PushV2(cfg),
		"prom":      controllerv1.WriteStreamV2(cfg),
		"otlp":      controllerv1.OTLPPushV2(cfg),
		"profile":   controllerv1.PushProfileV2(cfg),
	}
	deadline := time.Now().Add(10 * time.Second)
	for {
		q, run := parked()
		if q && run == 2*n {
			break
		}
		if time.Now().After(deadline) {
			b.fail("services did not start")
			break
		}
		time.Sleep(50 * time.Microsecond)
	}
	return r
}

func (r *runner2) serve(h int, req *HReq) {
	r.b.mu.Lock()
	r.b.pushOf[gid()] = h
	r.b.mu.Unlock()
	body := req.wire()
	target := "/push"
	if req.Query != "" {
		target += "?" + req.Query
	}
	hr := httptest.NewRequest("POST", target, bytes.NewReader(body))
	switch req.Route {
	case "lokiproto", "prom":
		hr.Header.Set("Content-Type", "application/x-protobuf")
	case "otlp":
		hr.Header.Set("Content-Type", "application/x-protobuf")
	case "profile":
		hr.Header.Set("Content-Type", "binary/octet-stream")
	default:
		hr.Header.Set("Content-Type", "application/json")
	}
	w := httptest.NewRecorder()
	r.handlers[req.Route](w, hr)
	io.Copy(io.Discard, w.Result().Body)
	code := w.Code
	r.b.log(Ev{T: "answer", P: h, Ok: code >= 200 && code < 300, S: code})
}

func (r *runner2) do(o *Op2) []Ev2 {
	b := r.b
	switch o.T {
	case "http":
		go r.serve(o.H, &r.c.Reqs[o.H])
	case "plan":
		r.svcs[o.S].SyncService.PlanFlush()
	case "send":
		b.mu.Lock()
		bf := b.before[o.S]
		b.before[o.S] = false
		b.mu.Unlock()
		if !bf {
			b.fail("send without a worker in OnBeforeInsert")
			return nil
		}
		b.goahead[o.S] <- true
	case "ret":
		b.mu.Lock()
		fl := b.inflight[o.S]
		b.inflight[o.S] = false
		b.mu.Unlock()
		if !fl {
			b.fail("ret without a blocked Do")
			return nil
		}
		b.log(Ev{T: "done", S: o.S, Ok: o.Ok})
		b.mu.Lock()
		b.errText[o.S] = o.E
		b.mu.Unlock()
		b.release[o.S] <- o.Ok
	}
	if err := waitQuiet(); err != nil {
		b.fail(err.Error())
	}
	return b.take2()
}

func (r *runner2) finish() {
	r.b.cache.Stop()
	(&runner{b: r.b.bench, svcs: r.svcs, c: &Case{}}).finish()
	r.c.Err = r.b.trouble
}

func runScript2(c *Case2) {
	r := start2(c)
	for i := range c.Reqs {
		c.Reqs[i].Items = r.b.dryParse(&c.Reqs[i])
		r.b.learn(i, c.Reqs[i].Items)
	}
	c.Obs = nil
	for i := range c.Ops {
		c.Obs = append(c.Obs, r.do(&c.Ops[i]))
		if r.b.trouble != "" {
			break
		}
	}
	r.finish()
}

// ---------------------------------------------------------------------------------------------- generation

// stamp draws the time (seconds since 1970) the entries of one stream / span / series of a generated body are dated with: mostly a
// usual one, one time in four an unusual one -- BEFORE 1970 (a device with an unset clock; a negative timestamp, accepted by the Loki
// JSON push, remote write and Zipkin), the epoch itself, or far in the future (2100; 2150 = beyond the last day ClickHouse's Date
// holds; 2255 = close to the largest int64 nanosecond).  Added after the seeded change C02-e, which only misbehaved for a series row
// dated before 1970: every generated timestamp used to be in November 2023.  The classes drawn are recorded per body (HReq.Ts).
var stampMu sync.Mutex
var stampLog []byte

func stamp(r *rand.Rand) int64 {
	sec, cl := int64(1700000000), byte('u')
	if r.Intn(4) == 0 {
		switch r.Intn(6) {
		case 0, 1:
			sec, cl = -int64(1+r.Intn(3000))*86400+int64(r.Intn(86400)), 'p' // 1961 .. 1969
		case 2:
			sec, cl = -int64(1+r.Intn(86400)), 'p' // 1969-12-31
		case 3:
			sec, cl = 0, 'e'
		default:
			sec, cl = []int64{4102444800, 5700000000, 9000000000}[r.Intn(3)], 'f'
		}
	}
	stampMu.Lock()
	stampLog = append(stampLog, cl)
	stampMu.Unlock()
	return sec
}
func takeStamps() string {
	stampMu.Lock()
	defer stampMu.Unlock()
	s := string(stampLog)
	stampLog = nil
	return s
}

func lokiBody(r *rand.Rand, tag string, uniq *int64) (string, int) {
	ns := 1 + r.Intn(2)
	var streams []string
	rows := 0
	for s := 0; s < ns; s++ {
		nv := 1 + r.Intn(4)
		var vals []string
		base := stamp(r) * 1000000000
		for v := 0; v < nv; v++ {
			*uniq++
			vals = append(vals, fmt.Sprintf(`["%d","line %s %d"]`, base+*uniq, tag, *uniq))
			rows++
		}
		streams = append(streams, fmt.Sprintf(`{"stream":{"job":"%s","s":"%d"},"values":[%s]}`, tag, s, strings.Join(vals, ",")))
	}
	return fmt.Sprintf(`{"streams":[%s]}`, strings.Join(streams, ",")), rows
}

// lokiRepeatBody: one or two streams whose labels depend on tag only (the same series in every push of the script), all
// entries within one day, fresh lines
func lokiRepeatBody(r *rand.Rand, tag string, uniq *int64) (string, int) {
	ns := 1 + r.Intn(2)
	var streams []string
	rows := 0
	for s := 0; s < ns; s++ {
		nv := 1 + r.Intn(3)
		var vals []string
		for v := 0; v < nv; v++ {
			*uniq++
			vals = append(vals, fmt.Sprintf(`["%d","line %s %d"]`, 1700000000000000000+*uniq, tag, *uniq))
			rows++
		}
		streams = append(streams, fmt.Sprintf(`{"stream":{"job":"%s","s":"%d"},"values":[%s]}`, tag, s, strings.Join(vals, ",")))
	}
	return fmt.Sprintf(`{"streams":[%s]}`, strings.Join(streams, ",")), rows
}

func zipkinBody(r *rand.Rand, tag string, uniq *int64) (string, int) {
	n := 1 + r.Intn(3)
	var spans []string
	for i := 0; i < n; i++ {
		*uniq++
		spans = append(spans, fmt.Sprintf(`{"traceId":"%032x","id":"%016x","name":"op-%s","timestamp":%d,"duration":%d,"localEndpoint":{"serviceName":"svc-%s"},"tags":{"k%d":"v%d"}}`,
			*uniq, *uniq, tag, stamp(r)*1000000+*uniq, 10+*uniq%7, tag, *uniq%3, *uniq))
	}
	return "[" + strings.Join(spans, ",") + "]", n
}

func lokiProtoBody(r *rand.Rand, tag string, uniq *int64) ([]byte, int) {
	req := &logproto.PushRequest{}
	rows := 0
	for s := 0; s < 1+r.Intn(2); s++ {
		st := &logproto.StreamAdapter{Labels: fmt.Sprintf(`{job="%s", s="%d"}`, tag, s)}
		sec := stamp(r)
		for v := 0; v < 1+r.Intn(3); v++ {
			*uniq++
			st.Entries = append(st.Entries, &logproto.EntryAdapter{
				Timestamp: &logproto.Timestamp{Seconds: sec, Nanos: int32(*uniq % 1000000000)},
				Line:      fmt.Sprintf("pline %s %d", tag, *uniq)})
			rows++
		}
		req.Streams = append(req.Streams, st)
	}
	b, _ := gproto.Marshal(req)
	return snappy.Encode(nil, b), rows
}

func promBody(r *rand.Rand, tag string, uniq *int64) ([]byte, int) {
	req := &prompb.WriteRequest{}
	rows := 0
	for s := 0; s < 1+r.Intn(2); s++ {
		ts := &prompb.TimeSeries{Labels: []*prompb.Label{{Name: "__name__", Value: "m_" + tag}, {Name: "s", Value: fmt.Sprint(s)}}}
		ms := stamp(r) * 1000
		for v := 0; v < 1+r.Intn(3); v++ {
			*uniq++
			ts.Samples = append(ts.Samples, &prompb.Sample{Value: float64(*uniq), Timestamp: ms + *uniq})
			rows++
		}
		req.Timeseries = append(req.Timeseries, ts)
	}
	b, _ := gproto.Marshal(req)
	return snappy.Encode(nil, b), rows
}

func otlpBody(r *rand.Rand, tag string, uniq *int64) ([]byte, int) {
	str := func(k, v string) *v11.KeyValue {
		return &v11.KeyValue{Key: k, Value: &v11.AnyValue{Value: &v11.AnyValue_StringValue{StringValue: v}}}
	}
	n := 1 + r.Intn(3)
	var spans []*trace.Span
	for i := 0; i < n; i++ {
		*uniq++
		tid := make([]byte, 16)
		sid := make([]byte, 8)
		binary.BigEndian.PutUint64(tid[8:], uint64(*uniq))
		binary.BigEndian.PutUint64(sid, uint64(*uniq))
		ns := stamp(r) * 1000000000 // a time before 1970 becomes a uint64 above the int64 range
		spans = append(spans, &trace.Span{TraceId: tid, SpanId: sid, Name: "op-" + tag,
			StartTimeUnixNano: uint64(ns + *uniq), EndTimeUnixNano: uint64(ns + 500 + *uniq),
			Attributes: []*v11.KeyValue{str("k", fmt.Sprint(*uniq))}})
	}
	td := &trace.TracesData{ResourceSpans: []*trace.ResourceSpans{{
		Resource:   &resv1.Resource{Attributes: []*v11.KeyValue{str("service.name", "svc-"+tag)}},
		ScopeSpans: []*trace.ScopeSpans{{Spans: spans}}}}}
	b, _ := gproto.Marshal(td)
	return b, n
}

func profileBody(r *rand.Rand, tag string, uniq *int64) ([]byte, string, int) {
	*uniq++
	fn := &pprof_proto.Function{ID: 1, Name: "main.f_" + tag, SystemName: "main.f_" + tag, Filename: "f.go"}
	fn2 := &pprof_proto.Function{ID: 2, Name: "main.g", SystemName: "main.g", Filename: "g.go"}
	loc := &pprof_proto.Location{ID: 1, Address: 0x10, Line: []pprof_proto.Line{{Function: fn, Line: 1}}}
	loc2 := &pprof_proto.Location{ID: 2, Address: 0x20, Line: []pprof_proto.Line{{Function: fn2, Line: 2}}}
	p := &pprof_proto.Profile{
		SampleType: []*pprof_proto.ValueType{{Type: "cpu", Unit: "nanoseconds"}},
		PeriodType: &pprof_proto.ValueType{Type: "cpu", Unit: "nanoseconds"}, Period: 10,
		Sample: []*pprof_proto.Sample{{Location: []*pprof_proto.Location{loc, loc2}, Value: []int64{10 + *uniq%50}},
			{Location: []*pprof_proto.Location{loc2}, Value: []int64{5}}},
		Location: []*pprof_proto.Location{loc, loc2}, Function: []*pprof_proto.Function{fn, fn2},
	}
	var buf bytes.Buffer
	p.Write(&buf)
	from := stamp(r) + *uniq
	q := url.Values{"from": {fmt.Sprint(from)}, "until": {fmt.Sprint(from + 10)}, "name": {"app_" + tag + "{c=" + tag + "}"}}
	return buf.Bytes(), q.Encode(), 1
}

func (g *gen) runGenerated2(c *Case2, uniq *int64) {
	r := g.r
	c.Attempts = r.Intn(4)
	if r.Intn(3) == 0 {
		c.Attempts = 1 + r.Intn(3)
	}
	for i := 0; i < len(l2kinds); i++ {
		c.Dials = append(c.Dials, []bool{})
	}
	c.Class = fmt.Sprintf("attempts=%d", c.Attempts)
	// two scripted classes beside the random ones (by case number, so that every run has them):
	//  exhaust : every INSERT fails, with one of the error texts of errTexts, until every push is answered
	//  bigspans: one Zipkin push above the parser's 1 MiB chunk threshold (several chunks) whose first INSERT fails
	class := ""
	switch c.ID % 10 {
	case 2, 7:
		class = "exhaust"
		c.Attempts = 1 + r.Intn(3)
	case 3:
		class = "bigspans"
		c.Attempts = 2 + r.Intn(2)
	case 5:
		//  repeat  : the same series (labels, day) pushed two or three times: the parsers read the announcement cache.
		//            seq: the next push arrives after the one before was stored, answered and confirmed (its series row is left out);
		//            inflight: it arrives while the one before waits for its INSERTs (both carry the row);
		//            failfirst: the INSERT of the first push's series row fails for good (error answer, nothing confirmed), the next carries the row again
		//            inflightfail (round 8, seeded C01-h): as inflight -- all pushes wait in the SAME time_series batch, each carrying the row --, and the
		//                      INSERT of that batch (and of every retry) fails until every push is answered: each of them must get the error
		class = "repeat " + []string{"seq", "inflight", "failfirst", "inflightfail"}[(c.ID/10+int(g.seed%4)+4)%4]
		c.Attempts = 1 + r.Intn(3)
		c.Repeat = true
	}
	if class != "" {
		c.Class = fmt.Sprintf("%s attempts=%d", class, c.Attempts)
	}
	rn := start2(c)
	nreq := 1 + r.Intn(4)
	answers := 0
	step := func(o Op2) []Ev2 {
		c.Ops = append(c.Ops, o)
		evs := rn.do(&c.Ops[len(c.Ops)-1])
		c.Obs = append(c.Obs, evs)
		for _, e := range evs {
			if e.T == "answer" {
				answers++
			}
		}
		return evs
	}
	newReq := func() {
		h := len(c.Reqs)
		tag := fmt.Sprintf("c%dh%d", c.ID, h)
		var hr HReq
		switch x := r.Intn(20); {
		case x < 5:
			body, rows := lokiBody(r, tag, uniq)
			hr = HReq{Route: "loki", Body: hex.EncodeToString([]byte(body))}
			c.Rows += rows
		case x < 9:
			body, rows := zipkinBody(r, tag, uniq)
			hr = HReq{Route: "zipkin", Body: hex.EncodeToString([]byte(body))}
			c.Rows += rows
		case x < 11:
			body, rows := lokiProtoBody(r, tag, uniq)
			hr = HReq{Route: "lokiproto", Body: hex.EncodeToString(body)}
			c.Rows += rows
		case x < 14:
			body, rows := promBody(r, tag, uniq)
			hr = HReq{Route: "prom", Body: hex.EncodeToString(body)}
			c.Rows += rows
		case x < 16:
			body, rows := otlpBody(r, tag, uniq)
			hr = HReq{Route: "otlp", Body: hex.EncodeToString(body)}
			c.Rows += rows
		case x < 18:
			body, q, rows := profileBody(r, tag, uniq)
			hr = HReq{Route: "profile", Body: hex.EncodeToString(body), Query: q}
			c.Rows += rows
		default:
			hr = HReq{Route: []string{"loki", "zipkin"}[r.Intn(2)], Body: hex.EncodeToString([]byte(`{"streams":[{"stream":{"a":`))}
		}
		hr.Ts = takeStamps()
		hr.Items = rn.b.dryParse(&hr)
		rn.b.learn(h, hr.Items)
		c.Reqs = append(c.Reqs, hr)
		step(Op2{T: "http", H: h})
	}
	state := func(s int) (bool, bool) {
		rn.b.mu.Lock()
		defer rn.b.mu.Unlock()
		return rn.b.inflight[s], rn.b.before[s]
	}
	nops := 6 + r.Intn(14)
	switch class {
	case "exhaust":
		nops = 0
		for k := 1 + r.Intn(2); k > 0; k-- {
			newReq()
		}
		// the error texts of this script: a reset connection in every second script of the class
		var pick []int
		if (c.ID/5+int(g.seed))%2 == 0 {
			pick = []int{1, 2, 10}
		} else {
			pick = []int{3, 4, 5, 6, 7, 8, 9, 11, 0}
		}
		et := pick[(c.ID/10+int(g.seed/2))%len(pick)]
		for round := 0; round < 40 && rn.b.trouble == "" && answers < len(c.Reqs); round++ {
			for s := range l2kinds {
				fl, bf := state(s)
				switch {
				case bf:
					step(Op2{T: "send", S: s})
				case fl:
					step(Op2{T: "ret", S: s, Ok: false, E: et})
				default:
					step(Op2{T: "plan", S: s})
				}
			}
		}
	case "repeat seq", "repeat inflight", "repeat failfirst", "repeat inflightfail":
		nops = r.Intn(5)
		tag := fmt.Sprintf("c%drep", c.ID)
		repReq := func() {
			h := len(c.Reqs)
			body, rows := lokiRepeatBody(r, tag, uniq)
			hr := HReq{Route: "loki", Body: hex.EncodeToString([]byte(body))}
			c.Rows += rows
			hr.Items = rn.b.dryParse(&hr)
			rn.b.learn(h, hr.Items)
			c.Reqs = append(c.Reqs, hr)
			step(Op2{T: "http", H: h})
		}
		// one flush of worker s: plan, call of Do, return with ok
		flush := func(s int, ok bool) {
			step(Op2{T: "plan", S: s})
			if _, bf := state(s); bf {
				step(Op2{T: "send", S: s})
			}
			if fl, _ := state(s); fl {
				step(Op2{T: "ret", S: s, Ok: ok, E: r.Intn(len(errTexts))})
			}
		}
		npush := 2 + r.Intn(2)
		for k := 0; k < npush && rn.b.trouble == ""; k++ {
			repReq()
			switch class {
			case "repeat seq":
				for round := 0; round < 6 && answers < len(c.Reqs) && rn.b.trouble == ""; round++ {
					flush(gSeries, true)
					flush(gSamples, true)
				}
			case "repeat failfirst":
				if k == 0 {
					for round := 0; round < 6 && answers < len(c.Reqs) && rn.b.trouble == ""; round++ {
						flush(gSeries, false)
						flush(gSamples, true)
					}
				}
			case "repeat inflightfail":
				if k == npush-1 {
					// every push of the script is queued in the open time_series batch; the samples are stored, the series INSERTs are refused
					// (one error text per script) until the retries of every push are used up
					et := r.Intn(len(errTexts))
					for round := 0; round < 8 && answers < len(c.Reqs) && rn.b.trouble == ""; round++ {
						flush(gSamples, true)
						step(Op2{T: "plan", S: gSeries})
						if _, bf := state(gSeries); bf {
							step(Op2{T: "send", S: gSeries})
						}
						if fl, _ := state(gSeries); fl {
							step(Op2{T: "ret", S: gSeries, Ok: false, E: et})
						}
					}
				}
			}
		}
	case "bigspans":
		nops = 0
		n := 40 + r.Intn(20)
		h := len(c.Reqs)
		hr := HReq{Route: "zipkin", Gen: fmt.Sprintf("bigzipkin:%d:%d:%d:c%dh%d", n, 30000, *uniq+1, c.ID, h)}
		*uniq += int64(n)
		c.Rows += n
		hr.Items = rn.b.dryParse(&hr)
		rn.b.learn(h, hr.Items)
		c.Reqs = append(c.Reqs, hr)
		step(Op2{T: "http", H: h})
		if r.Intn(3) == 0 {
			newReq()
		}
		// the first INSERT of the span tags and / or of the spans fails: the chunks are submitted again
		order := []int{gTags, gSpans}
		if r.Intn(2) == 0 {
			order = []int{gSpans, gTags}
		}
		for k, s := range order {
			if k == 1 && r.Intn(3) == 0 {
				break
			}
			step(Op2{T: "plan", S: s})
			if _, bf := state(s); bf {
				step(Op2{T: "send", S: s})
			}
			if fl, _ := state(s); fl {
				step(Op2{T: "ret", S: s, Ok: false, E: r.Intn(len(errTexts))})
			}
		}
	}
	for i := 0; i < nops && rn.b.trouble == ""; i++ {
		s := r.Intn(len(l2kinds))
		rn.b.mu.Lock()
		fl, bf := rn.b.inflight[s], rn.b.before[s]
		rn.b.mu.Unlock()
		x := r.Intn(100)
		switch {
		case len(c.Reqs) < nreq && x < 30:
			newReq()
		case bf && x < 70:
			step(Op2{T: "send", S: s})
		case fl && x < 80:
			if ok := r.Intn(5) < 2; ok {
				step(Op2{T: "ret", S: s, Ok: true})
			} else {
				step(Op2{T: "ret", S: s, Ok: false, E: r.Intn(len(errTexts))})
			}
		case !bf && !fl:
			// a flush planned while a Do is out would race with the retries once that Do returns
			step(Op2{T: "plan", S: s})
		}
	}
	if len(c.Reqs) == 0 {
		newReq()
	}
	// drain with successful inserts until a whole round does nothing
	for round := 0; round < 12 && rn.b.trouble == ""; round++ {
		busy := false
		for s := range l2kinds {
			for k := 0; k < 4 && rn.b.trouble == ""; k++ {
				rn.b.mu.Lock()
				fl, bf := rn.b.inflight[s], rn.b.before[s]
				rn.b.mu.Unlock()
				if bf {
					step(Op2{T: "send", S: s})
				} else if fl {
					step(Op2{T: "ret", S: s, Ok: true})
				} else {
					break
				}
				busy = true
			}
			if rn.b.trouble == "" && len(step(Op2{T: "plan", S: s})) > 0 {
				busy = true
			}
		}
		if !busy {
			c.Drained = true
			break
		}
	}
	rn.finish()
}

func initLevel2() {
	node2 = &model.DataDatabasesMap{}
	node2.Node = "n"
	node2.WriteTimeout = 30
	fpCache2 = numbercache.NewCache[uint64](time.Hour, func(v uint64) []byte {
		x := make([]byte, 8)
		binary.LittleEndian.PutUint64(x, v)
		return x
	}, map[string]*model.DataDatabasesMap{"n": node2})
}
