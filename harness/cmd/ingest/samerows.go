package main

// Level 5 (C01 round 8x): service scripts in which requests carry rows that ANOTHER request has already queued -- in the open batch of
// the same worker, or in the batch of another worker of the round robin.  The random scripts of level 1 give every request row ids of
// its own, so a ProcessRequest closure whose decision depends on what the batch (or a table shared by the workers) already holds behaves
// there exactly like the unchanged one.  Here: request 1 with fresh rows, request 2 = the same rows again / one of them / a fresh row
// followed by the rows of request 1 (on a round robin always the last form: the worker that served it is recognised by the fresh row),
// optionally a third copy; flush; the INSERTs are answered (the first one mostly refused); the rows of request 1 are submitted once more
// (what a retry does) and everything is drained.  The model (Ingest.eff takes no worker state: request_with_rows_joins_the_batch,
// a_request_with_rows_waits_whatever_is_queued_elsewhere) must explain every event; the C01 monitors run on the observed events.

import (
	"flag"
	"io"
	"math/rand"
	"os"
	"sync/atomic"

	clconfig "github.com/metrico/cloki-config"
	"github.com/metrico/qryn/writer/config"
	"github.com/metrico/qryn/writer/service"
	"github.com/metrico/qryn/writer/utils/logger"
	"verif/harness/hx"
)

// Entry point `ingest --samerows --seed S --n N --out F`.  Dispatched from init() so that main() -- shared with the C02 slice, which was
// being extended at the same time -- stays untouched; replays and shrinking of these scripts use the ordinary `--cases` path of level 1
// (the operations are the ordinary req / plan / send / ret).
func init() {
	for _, a := range os.Args[1:] {
		if a == "--samerows" || a == "-samerows" {
			sameRowsMain()
			os.Exit(0)
		}
	}
}

func sameRowsMain() {
	flag.Bool("samerows", false, "level 5: service scripts whose requests repeat rows another request has queued")
	f := hx.ParseFlags()
	config.Cloki = clconfig.New(clconfig.CLOKI_WRITER, nil, "", "")
	service.CreateColPools(0)
	logger.Logger.SetOutput(io.Discard)
	out := hx.OpenOut(f.Out)
	go watchdog()
	g := &gen{r: hx.Rand(f.Seed)}
	for i := 0; i < f.N; i++ {
		c := sameRowsCase(g.r, i)
		wdMu.Lock()
		wdCur = func(msg string) { c.Err = msg; out.Put(c); out.Close() }
		wdMu.Unlock()
		atomic.AddInt64(&wdBeat, 1)
		g.runSameRows(c)
		out.Put(c)
	}
	out.Close()
}

func sameRowsCase(r *rand.Rand, id int) *Case {
	c := &Case{ID: id, Attempts: 1, Class: "samerows"}
	par := 1
	if id%2 == 1 {
		par = 2 + r.Intn(2)
	}
	kind := kinds[(id/2)%len(kinds)]
	if par > 1 && kind == "profile" {
		kind = "series" // a profile request is one row: the fresh-row-first form needs two
	}
	if par > 1 {
		c.Class = "samerows+parallel"
	}
	c.Svcs = []SvcCfg{{Kind: kind, MaxQ: 0, Par: par}}
	for k := 0; k < par; k++ {
		c.Dials = append(c.Dials, []bool{})
	}
	if r.Intn(3) == 0 { // a bystander service
		c.Svcs = append(c.Svcs, SvcCfg{Kind: kinds[r.Intn(len(kinds))], MaxQ: 0, Par: 1})
		c.Dials = append(c.Dials, []bool{})
	}
	return c
}

func tableOf(kind string, runs ...Run) []Col {
	cols := make([]Col, ncols[kind])
	for j := range cols {
		cols[j] = append(Col{}, runs...)
	}
	return cols
}

func (g *gen) runSameRows(c *Case) {
	r := g.r
	g.nextRid = 1
	rn := start(c)
	b := rn.b
	kind := c.Svcs[0].Kind
	par := b.par[0]
	state := func(w int) (fl, bf bool) {
		b.mu.Lock()
		defer b.mu.Unlock()
		return b.inflight[w], b.before[w]
	}
	step := func(o Op) []Ev {
		c.Ops = append(c.Ops, o)
		evs := rn.do(&c.Ops[len(c.Ops)-1])
		c.Obs = append(c.Obs, evs)
		return evs
	}
	req := func(cols []Col, rows int) {
		if b.trouble != "" {
			return
		}
		step(Op{T: "req", S: 0, P: rn.nextP, Cols: cols, Sz: int64(10*rows + 1 + r.Intn(7))})
		rn.nextP++
		c.Rows += rows
	}
	// answer what the workers of service 0 hold: parked in OnBeforeInsert -> send, blocked in Do -> ret with the outcome given
	answer := func(outcome func(k int) bool) {
		k := 0
		for w := b.base[0]; w < b.base[0]+par; w++ {
			if _, bf := state(w); bf && b.trouble == "" {
				step(Op{T: "send", S: w})
			}
			if fl, _ := state(w); fl && b.trouble == "" {
				step(Op{T: "ret", S: w, Ok: outcome(k)})
				k++
			}
		}
	}
	n := int64(1 + r.Intn(3))
	if kind == "profile" {
		n = 1
	}
	if par > 1 {
		n = 2 + int64(r.Intn(2))
	}
	first := g.rids(n)
	// on a round robin the check tells which worker served a request by the FIRST row of its key column: that row is never repeated
	rest := Run{first[0] + 1, n - 1}
	cols1 := tableOf(kind, first)
	req(cols1, int(n))
	form := r.Intn(3)
	if par > 1 {
		form = 2
	}
	if kind == "profile" {
		form = 0
	}
	switch form {
	case 0: // the same rows again
		req(cols1, int(n))
		c.Class += "+same"
	case 1: // one of them
		req(tableOf(kind, Run{first[0] + int64(r.Intn(int(n))), 1}), 1)
		c.Class += "+subset"
	case 2: // a fresh row, then the rows of request 1
		if par > 1 {
			req(tableOf(kind, g.rids(1), rest), int(n))
		} else {
			req(tableOf(kind, g.rids(1), first), int(n)+1)
		}
		c.Class += "+freshfirst"
	}
	if r.Intn(3) == 0 {
		if par > 1 {
			req(tableOf(kind, g.rids(1), rest), int(n))
		} else {
			req(cols1, int(n))
		}
	}
	if len(c.Svcs) > 1 && r.Intn(2) == 0 && b.trouble == "" {
		kb := c.Svcs[1].Kind
		same := first
		if kb == "profile" {
			same = Run{first[0], 1} // a profile request is one row
		}
		step(Op{T: "req", S: 1, P: rn.nextP, Cols: tableOf(kb, same), Sz: 11}) // the same ids on another service: no relation at all
		rn.nextP++
		c.Rows += int(same[1])
	}
	if b.trouble == "" {
		step(Op{T: "plan", S: 0})
	}
	// the first INSERT answered is refused in three scripts of four, the others are accepted: the worker whose block lacks a row must not
	// report it stored
	refuseFirst := r.Intn(4) != 0
	answer(func(k int) bool { return !(k == 0 && refuseFirst) })
	// the rows once more (what the retry of a refused sub-push submits), and a request with rows of its own
	req(cols1, int(n))
	if r.Intn(2) == 0 {
		req(tableOf(kind, g.rids(1)), 1)
	}
	if b.trouble == "" {
		step(Op{T: "plan", S: 0})
	}
	second := r.Intn(3) != 0
	answer(func(k int) bool { return second })
	// drain
	for round := 0; round < 6 && b.trouble == ""; round++ {
		busy := false
		for s := range c.Svcs {
			for w := b.base[s]; w < b.base[s]+b.par[s]; w++ {
				for k := 0; k < 4 && b.trouble == ""; k++ {
					fl, bf := state(w)
					if bf {
						step(Op{T: "send", S: w})
					} else if fl {
						step(Op{T: "ret", S: w, Ok: true})
					} else {
						break
					}
					busy = true
				}
			}
			if b.trouble == "" {
				if len(step(Op{T: "plan", S: s})) > 0 {
					busy = true
				}
			}
		}
		if !busy {
			c.Drained = true
			break
		}
	}
	rn.finish()
}
