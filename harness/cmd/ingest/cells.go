// Level 4 ("cells"): the REAL parserDoer (goroutine, channel, tamePanic) with the real batching handlers onSpan / onEntries
// behind a SCRIPTED decoder whose every call hands over values that carry the identity of the call (and of the position
// inside the call): what the parser sends is read back cell by cell -- which call / position each element of each slice
// field of each request came from -- and compared with the cell-level interpreter of coq/model/IngestBridge.v over the
// regenerated append programs (span_items / logs_items).  This is the dynamic side of parser_requests_are_tables: the i-th
// values of all columns of a request come from the same submitted row, chunk by chunk.
package main

import (
	"context"
	"errors"
	"fmt"
	"math/rand"
	"strconv"
	"strings"
	"time"

	"github.com/metrico/qryn/writer/model"
	"github.com/metrico/qryn/writer/utils/numbercache"
	"github.com/metrico/qryn/writer/utils/unmarshal"
)

type SpanCall struct {
	Tid   int `json:"tid"`   // len(traceId)
	Sid   int `json:"sid"`   // len(spanId)
	Keys  int `json:"keys"`  // len(key)
	Vals  int `json:"vals"`  // len(val)
	Pad   int `json:"pad"`   // extra payload bytes
	Bytes int `json:"bytes"` // what the call adds to spans.Size + attrs.Size when it runs to its end (computed from the strings handed over)
}
type LogCall struct {
	Ts       int  `json:"ts"`    // len(timestampsNS)
	Msg      int  `json:"msg"`   // len(message)
	Val      int  `json:"val"`   // len(value)
	Types    int  `json:"types"` // len(types)
	LblShort bool `json:"lbl_short,omitempty"`
	BadType  bool `json:"bad_type,omitempty"`
	MsgLen   int  `json:"msg_len"`
	Series   int  `json:"series"` // series rows the call announces (fresh labels, one day, one sample type: 1 iff it has timestamps and types)
	Bytes    int  `json:"bytes"`  // what the call adds to spl.Size + ts.Size when it runs to its end
}

// an observed cell: the call it came from and the position inside the call; -2 = this column cannot tell
type OCell [2]int
type OSub struct {
	Kind string    `json:"kind"` // spans tags samples series
	Cols [][]OCell `json:"cols"` // in the order of the service's serialize()/toIFace()
}
type OItem struct {
	Err   bool   `json:"err,omitempty"`
	Chunk []OSub `json:"chunk,omitempty"`
}
type CellCase struct {
	ID    int        `json:"id"`
	Kind  string     `json:"kind"` // spans | logs
	Spans []SpanCall `json:"spans,omitempty"`
	Logs  []LogCall  `json:"logs,omitempty"`
	End   string     `json:"end"` // "" | err | panic : how Decode ends after the calls
	Items []OItem    `json:"items"`
	Err   string     `json:"err,omitempty"`
}

func num(s string, prefix string) (int, int) {
	s = strings.TrimPrefix(s, prefix)
	if i := strings.IndexAny(s, ": "); i >= 0 {
		s = s[:i]
	}
	p := strings.SplitN(s, "_", 2)
	n, err := strconv.Atoi(p[0])
	if err != nil {
		return -1, -1
	}
	if len(p) == 1 {
		return n, -2
	}
	i, err := strconv.Atoi(p[1])
	if err != nil {
		return n, -1
	}
	return n, i
}
func idBytes(n, w int) []byte {
	b := make([]byte, w)
	for k := 0; k < 4 && k < w; k++ {
		b[k] = byte(n >> (8 * k))
	}
	return b
}
func idOf(b []byte) int {
	n := 0
	for k := 0; k < 4 && k < len(b); k++ {
		n |= int(b[k]) << (8 * k)
	}
	return n
}

type cellSpans struct {
	c      *CellCase
	onSpan unmarshal.VerifC05OnSpan
}

func (s *cellSpans) SetOnEntry(h unmarshal.VerifC05OnSpan) { s.onSpan = h }
func endCells(end string) error {
	switch end {
	case "err":
		return errors.New("scripted decoder: error")
	case "panic":
		var m map[string]int
		m["scripted decoder panic"] = 1
	}
	return nil
}
func spanArgs(n int, c *SpanCall) (parent, name, svc string, payload []byte, keys, vals []string) {
	parent, name, svc = fmt.Sprintf("p%d", n), fmt.Sprintf("n%d", n), fmt.Sprintf("s%d", n)
	payload = []byte(fmt.Sprintf("P%d:", n) + strings.Repeat("x", c.Pad))
	keys, vals = make([]string, c.Keys), make([]string, c.Vals)
	for i := range keys {
		keys[i] = fmt.Sprintf("k%d_%d", n, i)
	}
	for i := range vals {
		vals[i] = fmt.Sprintf("v%d_%d", n, i)
	}
	return
}
func (s *cellSpans) Decode() error {
	for n := range s.c.Spans {
		c := &s.c.Spans[n]
		parent, name, svc, payload, keys, vals := spanArgs(n, c)
		if err := s.onSpan(idBytes(n, c.Tid), idBytes(n, c.Sid), int64(n)*1000000000, int64(n), parent, name, svc, payload, keys, vals); err != nil {
			return err
		}
	}
	return endCells(s.c.End)
}

type cellLogs struct {
	c         *CellCase
	only      int // >= 0: only this call (the dry run that learns fingerprint and label text of a call)
	onEntries unmarshal.VerifC05OnEntries
}

func (s *cellLogs) SetOnEntries(h unmarshal.VerifC05OnEntries) { s.onEntries = h }

const cellDay = int64(1700006400) * 1000000000 // 2023-11-15T00:00:00Z in ns

func logArgs(id, n int, c *LogCall) (labels [][]string, ts []int64, msg []string, val []float64, types []uint8) {
	labels = [][]string{{"job", fmt.Sprintf("cells%dn%d", id, n)}}
	if c.LblShort {
		labels = append(labels, []string{"short"})
	}
	ts, msg, val, types = make([]int64, c.Ts), make([]string, c.Msg), make([]float64, c.Val), make([]uint8, c.Types)
	for r := range ts {
		ts[r] = cellDay + int64(n)*100000 + int64(r)
	}
	for r := range msg {
		m := fmt.Sprintf("m%d_%d:", n, r)
		if len(m) < c.MsgLen {
			m += strings.Repeat("y", c.MsgLen-len(m))
		}
		msg[r] = m
	}
	for r := range val {
		val[r] = float64(n*100000 + r)
	}
	for r := range types {
		types[r] = 1
		if c.BadType && r == len(types)-1 {
			types[r] = 7
		}
	}
	return
}
func (s *cellLogs) Decode() error {
	for n := range s.c.Logs {
		if s.only >= 0 && n != s.only {
			continue
		}
		labels, ts, msg, val, types := logArgs(s.c.ID, n, &s.c.Logs[n])
		if err := s.onEntries(labels, ts, msg, val, types); err != nil {
			return err
		}
	}
	if s.only >= 0 {
		return nil
	}
	return endCells(s.c.End)
}

func newCellCache() *numbercache.Cache[uint64] {
	return numbercache.NewCache[uint64](time.Hour, func(v uint64) []byte {
		x := make([]byte, 8)
		for k := 0; k < 8; k++ {
			x[k] = byte(v >> (8 * k))
		}
		return x
	}, map[string]*model.DataDatabasesMap{"n": node2})
}

func runCells(c *CellCase) {
	c.Items = nil
	cache := newCellCache()
	defer cache.Stop()
	var ch chan *model.ParserResponse
	fpOf := map[uint64]int{}
	lblOf := map[string]int{}
	switch c.Kind {
	case "spans":
		for n := range c.Spans {
			sc := &c.Spans[n]
			parent, name, svc, payload, keys, vals := spanArgs(n, sc)
			sc.Bytes = 49 + len(parent) + len(name) + len(svc) + len(payload)
			for i := range keys {
				if i < len(vals) {
					sc.Bytes += 40 + len(keys[i]) + len(vals[i])
				}
			}
		}
		fn := unmarshal.Build(unmarshal.VerifC05WithSpansParser(func(ctx *unmarshal.ParserCtx) unmarshal.VerifC05SpansParser { return &cellSpans{c: c} }))
		ch = fn(parserCtx(), strings.NewReader(""), cache.DB("n"))
	case "logs":
		// learn, call by call, the fingerprint and the label text of the call (a stream of that call alone: one row, nothing to line up)
		for n := range c.Logs {
			lc := &c.Logs[n]
			lc.Series, lc.Bytes = 0, 0
			if lc.LblShort || lc.BadType || lc.Msg < lc.Ts {
				continue // the call panics
			}
			dry := newCellCache()
			fn := unmarshal.Build(unmarshal.VerifC05WithLogsParser(func(ctx *unmarshal.ParserCtx) unmarshal.VerifC05LogsParser { return &cellLogs{c: c, only: n} }))
			for resp := range fn(parserCtx(), strings.NewReader(""), dry.DB("n")) {
				if resp.Error != nil {
					continue
				}
				if ts, ok := resp.TimeSeriesRequest.(*model.TimeSeriesData); ok && len(ts.MLabels) == 1 && len(ts.MFingerprint) == 1 {
					fpOf[ts.MFingerprint[0]] = n
					lblOf[ts.MLabels[0]] = n
					lc.Series = 1
					lc.Bytes += 14 + len(ts.MLabels[0])
				}
				if spl, ok := resp.SamplesRequest.(*model.TimeSamplesData); ok && len(spl.MFingerprint) > 0 {
					fpOf[spl.MFingerprint[0]] = n
				}
			}
			dry.Stop()
			_, _, msg, _, _ := logArgs(c.ID, n, lc)
			for r := 0; r < lc.Ts; r++ {
				lc.Bytes += len(msg[r]) + 26
			}
		}
		fn := unmarshal.Build(unmarshal.VerifC05WithLogsParser(func(ctx *unmarshal.ParserCtx) unmarshal.VerifC05LogsParser { return &cellLogs{c: c, only: -1} }))
		ch = fn(parserCtx(), strings.NewReader(""), cache.DB("n"))
	default:
		c.Err = "unknown kind"
		return
	}
	blind := func(n int) []OCell {
		l := make([]OCell, n)
		for i := range l {
			l[i] = OCell{-2, -2}
		}
		return l
	}
	for resp := range ch {
		if resp.Error != nil {
			c.Items = append(c.Items, OItem{Err: true})
			go func() {
				for range ch {
				}
			}()
			break
		}
		var chunk []OSub
		// the order of the five doPush calls of doParse
		if ts, ok := resp.TimeSeriesRequest.(*model.TimeSeriesData); ok {
			// serialize: type, date, fingerprint, labels
			sub := OSub{Kind: "series", Cols: [][]OCell{blind(len(ts.MType)), blind(len(ts.MDate)), nil, nil}}
			for _, fp := range ts.MFingerprint {
				n, ok := fpOf[fp]
				if !ok {
					n = -1
				}
				sub.Cols[2] = append(sub.Cols[2], OCell{n, -2})
			}
			for _, l := range ts.MLabels {
				n, ok := lblOf[l]
				if !ok {
					n = -1
				}
				sub.Cols[3] = append(sub.Cols[3], OCell{n, -2})
			}
			chunk = append(chunk, sub)
		}
		if spl, ok := resp.SamplesRequest.(*model.TimeSamplesData); ok {
			// serialize: type, fingerprint, timestamp_ns, string, value
			sub := OSub{Kind: "samples", Cols: [][]OCell{blind(len(spl.MType)), nil, nil, nil, nil}}
			for _, fp := range spl.MFingerprint {
				n, ok := fpOf[fp]
				if !ok {
					n = -1
				}
				sub.Cols[1] = append(sub.Cols[1], OCell{n, -2})
			}
			for _, t := range spl.MTimestampNS {
				x := t - cellDay
				sub.Cols[2] = append(sub.Cols[2], OCell{int(x / 100000), int(x % 100000)})
			}
			for _, m := range spl.MMessage {
				n, r := num(m, "m")
				sub.Cols[3] = append(sub.Cols[3], OCell{n, r})
			}
			for _, v := range spl.MValue {
				sub.Cols[4] = append(sub.Cols[4], OCell{int(v) / 100000, int(v) % 100000})
			}
			chunk = append(chunk, sub)
		}
		if tg, ok := resp.SpansAttrsRequest.(*model.TempoTag); ok {
			// toIFace: date, key, val, trace_id, span_id, timestamp_ns, duration
			sub := OSub{Kind: "tags", Cols: make([][]OCell, 7)}
			for _, d := range tg.MDate {
				sub.Cols[0] = append(sub.Cols[0], OCell{int(d.Unix()), -2})
			}
			for _, k := range tg.MKey {
				n, i := num(k, "k")
				sub.Cols[1] = append(sub.Cols[1], OCell{n, i})
			}
			for _, v := range tg.MVal {
				n, i := num(v, "v")
				sub.Cols[2] = append(sub.Cols[2], OCell{n, i})
			}
			for _, b := range tg.MTraceId {
				sub.Cols[3] = append(sub.Cols[3], OCell{idOf(b), -2})
			}
			for _, b := range tg.MSpanId {
				sub.Cols[4] = append(sub.Cols[4], OCell{idOf(b), -2})
			}
			for _, t := range tg.MTimestampNs {
				sub.Cols[5] = append(sub.Cols[5], OCell{int(t / 1000000000), -2})
			}
			for _, t := range tg.MDurationNs {
				sub.Cols[6] = append(sub.Cols[6], OCell{int(t), -2})
			}
			chunk = append(chunk, sub)
		}
		if sp, ok := resp.SpansRequest.(*model.TempoSamples); ok {
			// toIFace: trace_id, span_id, parent_id, name, timestamp_ns, duration_ns, service_name, payload_type, payload
			sub := OSub{Kind: "spans", Cols: make([][]OCell, 9)}
			for _, b := range sp.MTraceId {
				sub.Cols[0] = append(sub.Cols[0], OCell{idOf(b), -1})
			}
			for _, b := range sp.MSpanId {
				sub.Cols[1] = append(sub.Cols[1], OCell{idOf(b), -1})
			}
			for _, s := range sp.MParentId {
				n, _ := num(s, "p")
				sub.Cols[2] = append(sub.Cols[2], OCell{n, -1})
			}
			for _, s := range sp.MName {
				n, _ := num(s, "n")
				sub.Cols[3] = append(sub.Cols[3], OCell{n, -1})
			}
			for _, t := range sp.MTimestampNs {
				sub.Cols[4] = append(sub.Cols[4], OCell{int(t / 1000000000), -1})
			}
			for _, t := range sp.MDurationNs {
				sub.Cols[5] = append(sub.Cols[5], OCell{int(t), -1})
			}
			for _, s := range sp.MServiceName {
				n, _ := num(s, "s")
				sub.Cols[6] = append(sub.Cols[6], OCell{n, -1})
			}
			sub.Cols[7] = blind(len(sp.MPayloadType))
			for _, p := range sp.MPayload {
				n, _ := num(string(p), "P")
				sub.Cols[8] = append(sub.Cols[8], OCell{n, -1})
			}
			chunk = append(chunk, sub)
		}
		c.Items = append(c.Items, OItem{Chunk: chunk})
	}
}

var _ = context.Background

func genCells(r *rand.Rand, id int) *CellCase {
	c := &CellCase{ID: id}
	if r.Intn(5) == 0 {
		c.End = []string{"err", "panic"}[r.Intn(2)]
	}
	big := id%4 == 1 // flushes: payloads / messages that cross 1 MiB after a few calls
	if id%2 == 0 {
		c.Kind = "spans"
		for n, k := 0, 1+r.Intn(7); n < k; n++ {
			sc := SpanCall{Tid: 16, Sid: 8, Keys: r.Intn(4)}
			sc.Vals = sc.Keys
			switch r.Intn(40) {
			case 0:
				sc.Tid = []int{0, 15, 17, 32}[r.Intn(4)]
			case 1:
				sc.Sid = []int{0, 7, 9, 16}[r.Intn(4)]
			case 2:
				sc.Vals = sc.Keys + 1 + r.Intn(2)
			case 3:
				if sc.Keys > 0 {
					sc.Vals = r.Intn(sc.Keys)
				}
			}
			if big {
				sc.Pad = 250000 + r.Intn(400000)
			} else {
				sc.Pad = r.Intn(60)
			}
			c.Spans = append(c.Spans, sc)
		}
		return c
	}
	c.Kind = "logs"
	for n, k := 0, 1+r.Intn(6); n < k; n++ {
		rows := r.Intn(5)
		lc := LogCall{Ts: rows, Msg: rows, Val: rows, Types: rows, MsgLen: 8 + r.Intn(30)}
		switch r.Intn(30) {
		case 0:
			lc.Msg = rows + 1 + r.Intn(2) // one message more: passes the index checks, tears the samples request
		case 1:
			if rows > 0 {
				lc.Msg = r.Intn(rows) // message[i] panics
			}
		case 2:
			lc.Val = rows + 1
		case 3:
			lc.Types = rows + 1
		case 4:
			lc.LblShort = true
		case 5:
			lc.BadType = rows > 0
		}
		if big {
			lc.MsgLen = 120000 + r.Intn(200000)
		}
		c.Logs = append(c.Logs, lc)
	}
	return c
}
