// pipefuzz drives the REAL pipeline around the decoders -- controller Build / doParse / doPush, the
// parserDoer goroutine with tamePanic, the unbuffered channel, onSpan / onProfile -- with a SCRIPTED
// decoder: the script says what the decoder hands to the batching handler (any id widths, any number of
// keys and values, any sizes) and how it ends (returns nil, returns a typed or an untyped error, panics).
// The insert services are recorders: for every request that reaches them they note the length of every
// column. Property C05 (model/IngestPipe.v: run_prog / sys_run / sent_batches with the decoder as oracle).
//
// Each case is printed BEFORE it runs (line {"begin":id}): if the process dies, the case in progress is the
// failing input. Observations: status class, the batches received (column lengths, in struct-field
// order), goroutines left behind.
package main

import (
	"bytes"
	"context"
	"encoding/json"
	"flag"
	"fmt"
	"io"
	"math/rand"
	"net/http"
	"net/http/httptest"
	"os"
	"runtime"
	"strings"
	"sync"
	"time"
	"unsafe"

	clconfig "github.com/metrico/cloki-config"
	cfgbase "github.com/metrico/cloki-config/config"
	"github.com/metrico/qryn/writer/config"
	controllerv1 "github.com/metrico/qryn/writer/controller"
	"github.com/metrico/qryn/writer/model"
	"github.com/metrico/qryn/writer/service"
	customErrors "github.com/metrico/qryn/writer/utils/errors"
	"github.com/metrico/qryn/writer/utils/helpers"
	"github.com/metrico/qryn/writer/utils/logger"
	"github.com/metrico/qryn/writer/utils/numbercache"
	"github.com/metrico/qryn/writer/utils/promise"
	"github.com/metrico/qryn/writer/utils/unmarshal"

	"verif/harness/hx"
)

// ------------------------------------------------------------------ case format

type Event struct {
	Op string `json:"op"` // span | profile | entries | err | panic
	// span
	Tid   int `json:"tid,omitempty"`
	Sid   int `json:"sid,omitempty"`
	Keys  int `json:"keys,omitempty"`
	Vals  int `json:"vals,omitempty"`
	Bytes int `json:"bytes,omitempty"` // span: len(name); profile: len of the single tag value
	// entries: lengths of the four slices handed to onEntries, the sample type of every entry (>= 3: out of range),
	// bytes per message, days the timestamps are spread over, a label pair with a single string
	NTs      int  `json:"nts,omitempty"`
	NMsg     int  `json:"nmsg,omitempty"`
	NVal     int  `json:"nval,omitempty"`
	NTypes   int  `json:"ntypes,omitempty"`
	Type     int  `json:"type,omitempty"`
	MsgLen   int  `json:"msglen,omitempty"`
	Days     int  `json:"days,omitempty"`
	LblShort bool `json:"lbl_short,omitempty"`
	// err
	Typed bool `json:"typed,omitempty"` // a QrynError with code 400 instead of a plain error
}

type Batch struct {
	Svc  string `json:"svc"`  // spans | attrs | prof
	Cols []int  `json:"cols"` // length of every slice column, in struct-field order
}

type Obs struct {
	Outcome string  `json:"outcome"` // 2xx 4xx 5xx abort hang leak
	Status  int     `json:"status"`
	Batches []Batch `json:"batches"`
	Detail  string  `json:"detail,omitempty"`
}

type Case struct {
	ID     int     `json:"id"`
	Kind   string  `json:"kind"` // spans | prof | logs
	Class  string  `json:"class"`
	Events []Event `json:"events"`
	// what the model needs per event and the harness computes: bytes added to the batch size,
	// and (entries) the (day, type) pairs the call announces
	Sizes  []int `json:"sizes"`
	Series []int `json:"series,omitempty"`
	// the insert service of this name (spans | attrs | prof | spl | ts) answers every request with an error
	FailSvc string `json:"fail_svc,omitempty"`
	Obs   *Obs  `json:"obs,omitempty"`
}

// ------------------------------------------------------------------ recording insert services

type recorder struct {
	name string
	mtx  sync.Mutex
	got  []Batch
	fail bool
}

func (r *recorder) Run()                            {}
func (r *recorder) Stop()                           {}
func (r *recorder) Ping() (time.Time, error)        { return time.Now(), nil }
func (r *recorder) GetState(insertMode int) int     { return 0 }
func (r *recorder) GetNodeName() string             { return "n1" }
func (r *recorder) Init()                           {}
func (r *recorder) PlanFlush()                      {}
func (r *recorder) take() []Batch {
	r.mtx.Lock()
	defer r.mtx.Unlock()
	g := r.got
	r.got = nil
	return g
}

func (r *recorder) Request(req helpers.SizeGetter, insertMode int) *promise.Promise[uint32] {
	b := Batch{Svc: r.name}
	switch x := req.(type) {
	case *model.TempoSamples:
		b.Cols = []int{len(x.MTraceId), len(x.MSpanId), len(x.MTimestampNs), len(x.MDurationNs), len(x.MParentId), len(x.MName),
			len(x.MServiceName), len(x.MPayloadType), len(x.MPayload)}
	case *model.TempoTag:
		b.Cols = []int{len(x.MTraceId), len(x.MSpanId), len(x.MTimestampNs), len(x.MDurationNs), len(x.MDate), len(x.MKey), len(x.MVal)}
	case *model.ProfileData:
		b.Cols = []int{len(x.TimestampNs), len(x.Ptype), len(x.ServiceName), len(x.PeriodType), len(x.PeriodUnit), len(x.DurationNs),
			len(x.PayloadType), len(x.Payload)}
	case *model.TimeSamplesData:
		b.Cols = []int{len(x.MFingerprint), len(x.MTimestampNS), len(x.MMessage), len(x.MValue), len(x.MTTLDays), len(x.MType)}
	case *model.TimeSeriesData:
		b.Cols = []int{len(x.MDate), len(x.MLabels), len(x.MFingerprint), len(x.MTTLDays), len(x.MType)}
	default:
		b.Svc += fmt.Sprintf(":unexpected %T", req)
	}
	r.mtx.Lock()
	r.got = append(r.got, b)
	fail := r.fail
	r.mtx.Unlock()
	if fail {
		return promise.Fulfilled[uint32](fmt.Errorf("scripted insert failure"), 0)
	}
	return promise.Fulfilled[uint32](nil, 0)
}

type reg struct{ ts, spl, tags, spans, prof *recorder }

func (r *reg) GetTimeSeriesService(id string) (service.IInsertServiceV2, error)    { return r.ts, nil }
func (r *reg) GetSamplesService(id string) (service.IInsertServiceV2, error)       { return r.spl, nil }
func (r *reg) GetMetricsService(id string) (service.IInsertServiceV2, error)       { return r.spl, nil }
func (r *reg) GetSpansService(id string) (service.IInsertServiceV2, error)         { return r.spans, nil }
func (r *reg) GetSpansSeriesService(id string) (service.IInsertServiceV2, error)   { return r.tags, nil }
func (r *reg) GetProfileInsertService(id string) (service.IInsertServiceV2, error) { return r.prof, nil }
func (r *reg) Run()                                                                {}
func (r *reg) Stop()                                                               {}

// ------------------------------------------------------------------ scripted decoders

var current []Event // the script of the request in progress (requests run one at a time)

func endOf(ev Event) error {
	switch ev.Op {
	case "err":
		if ev.Typed {
			return customErrors.New400Error("scripted decoder: typed error")
		}
		return fmt.Errorf("scripted decoder: plain error")
	case "panic":
		var m map[string]int
		m["scripted decoder panic"] = 1 // assignment to entry in nil map
	}
	return nil
}

type scriptedSpans struct{ onSpan unmarshal.VerifC05OnSpan }

func (s *scriptedSpans) SetOnEntry(h unmarshal.VerifC05OnSpan) { s.onSpan = h }
func (s *scriptedSpans) Decode() error {
	for i, ev := range current {
		if ev.Op != "span" {
			return endOf(ev)
		}
		keys := make([]string, ev.Keys)
		vals := make([]string, ev.Vals)
		for k := range keys {
			keys[k] = fmt.Sprintf("k%d", k)
		}
		for k := range vals {
			vals[k] = "v"
		}
		err := s.onSpan(make([]byte, ev.Tid), make([]byte, ev.Sid), 1700000000000000000+int64(i), 1000, "", strings.Repeat("n", ev.Bytes), "", nil, keys, vals)
		if err != nil {
			return err
		}
	}
	return nil
}

type scriptedProf struct{ onProfile unmarshal.VerifC05OnProfile }

func (s *scriptedProf) SetOnProfile(h unmarshal.VerifC05OnProfile) { s.onProfile = h }
func (s *scriptedProf) Decode() error {
	for i, ev := range current {
		if ev.Op != "profile" {
			return endOf(ev)
		}
		err := s.onProfile(1700000000000000000+uint64(i), "cpu", "svc", nil, "cpu", "ns",
			[]model.StrStr{{Str1: "t", Str2: strings.Repeat("v", ev.Bytes)}}, 1000, "0", []byte("payload"), nil, nil, nil)
		if err != nil {
			return err
		}
	}
	return nil
}

type scriptedLogs struct{ onEntries unmarshal.VerifC05OnEntries }

const day0 = int64(1700000000) / 86400 * 86400 * 1000000000

func entryLabels(ev Event, id, i int) [][]string {
	if ev.LblShort {
		return [][]string{{"only-one-string"}}
	}
	return [][]string{{"e", fmt.Sprintf("%d_%d", id, i)}}
}

func daysOf(ev Event) int {
	d := ev.Days
	if d < 1 {
		d = 1
	}
	if d > ev.NTs {
		d = ev.NTs
	}
	return d
}

var currentID int

func (s *scriptedLogs) SetOnEntries(h unmarshal.VerifC05OnEntries) { s.onEntries = h }
func (s *scriptedLogs) Decode() error {
	for i, ev := range current {
		if ev.Op != "entries" {
			return endOf(ev)
		}
		ts := make([]int64, ev.NTs)
		for k := range ts {
			ts[k] = day0 + int64(k%daysOf(ev))*86400*1000000000 + int64(k)
		}
		msg := make([]string, ev.NMsg)
		for k := range msg {
			msg[k] = strings.Repeat("m", ev.MsgLen)
		}
		types := make([]uint8, ev.NTypes)
		for k := range types {
			types[k] = uint8(ev.Type)
		}
		if err := s.onEntries(entryLabels(ev, currentID, i), ts, msg, make([]float64, ev.NVal), types); err != nil {
			return err
		}
	}
	return nil
}

// bytes the model accounts per event (what onSpan adds to Size / the size onProfile computes is derived in Coq)
func sizesOf(kind string, evs []Event) []int {
	out := make([]int, len(evs))
	for i, ev := range evs {
		switch ev.Op {
		case "span":
			n := 49 + ev.Bytes
			for k := 0; k < ev.Keys && k < ev.Vals; k++ {
				n += 40 + len(fmt.Sprintf("k%d", k)) + 1
			}
			out[i] = n
		case "profile":
			out[i] = 1 + ev.Bytes // len(tag.Str1) + len(tag.Str2) of THIS profile (the tags of the last profile count)
		}
	}
	return out
}

// entries: (day, type) pairs announced (fresh labels: every pair is new) and the bytes accounted
func entriesSizes(id int, evs []Event) ([]int, []int) {
	sizes, series := make([]int, len(evs)), make([]int, len(evs))
	for i, ev := range evs {
		if ev.Op != "entries" {
			continue
		}
		if ev.NTypes > 0 && ev.Type < 3 {
			series[i] = daysOf(ev)
		}
		sizes[i] = ev.NTs * (ev.MsgLen + 26)
		if !ev.LblShort {
			sizes[i] += series[i] * (14 + len(unmarshal.VerifC04EncodeLabels(entryLabels(ev, id, i))))
		}
	}
	return sizes, series
}

// ------------------------------------------------------------------ the routes under test

func setup() (*reg, http.HandlerFunc, http.HandlerFunc, http.HandlerFunc) {
	logger.Logger.SetOutput(io.Discard)
	config.Cloki = clconfig.New(clconfig.CLOKI_WRITER, nil, "", "")
	config.Cloki.Setting.SYSTEM_SETTINGS.RetryAttempts = 1
	config.Cloki.Setting.SYSTEM_SETTINGS.RetryTimeoutS = 0
	r := &reg{&recorder{name: "ts"}, &recorder{name: "spl"}, &recorder{name: "attrs"}, &recorder{name: "spans"}, &recorder{name: "prof"}}
	controllerv1.Registry = r
	controllerv1.FPCache = numbercache.NewCache[uint64](time.Minute*30, func(val uint64) []byte {
		return unsafe.Slice((*byte)(unsafe.Pointer(&val)), 8)
	}, map[string]*model.DataDatabasesMap{"n1": {ClokiBaseDataBase: cfgbase.ClokiBaseDataBase{Node: "n1", Name: "qryn", WriteTimeout: 5}}})
	spansFn := unmarshal.Build(unmarshal.VerifC05WithSpansParser(func(ctx *unmarshal.ParserCtx) unmarshal.VerifC05SpansParser {
		return &scriptedSpans{}
	}))
	profFn := unmarshal.Build(unmarshal.VerifC05WithProfileParser(func(ctx *unmarshal.ParserCtx) unmarshal.VerifC05ProfilesParser {
		return &scriptedProf{}
	}))
	spans := controllerv1.Build(controllerv1.WithOverallContextMiddleware, controllerv1.VerifC05WithTracesService,
		controllerv1.VerifC05WithSimpleParser("*", controllerv1.Parser(spansFn)), controllerv1.VerifC05WithOkStatusAndBody(202, nil))
	prof := controllerv1.Build(controllerv1.WithOverallContextMiddleware, controllerv1.VerifC05WithTSAndSampleService,
		controllerv1.VerifC05WithSimpleParser("*", controllerv1.Parser(profFn)), controllerv1.VerifC05WithOkStatusAndBody(200, []byte("{}")))
	logsFn := unmarshal.Build(unmarshal.VerifC05WithLogsParser(func(ctx *unmarshal.ParserCtx) unmarshal.VerifC05LogsParser {
		return &scriptedLogs{}
	}))
	logs := controllerv1.Build(controllerv1.WithOverallContextMiddleware, controllerv1.VerifC05WithTSAndSampleService,
		controllerv1.VerifC05WithSimpleParser("*", controllerv1.Parser(logsFn)), controllerv1.VerifC05WithOkStatusAndBody(204, nil))
	return r, spans, prof, logs
}

func classOf(status int) string {
	switch {
	case status >= 200 && status < 300:
		return "2xx"
	case status >= 400 && status < 500:
		return "4xx"
	case status >= 500 && status < 600:
		return "5xx"
	}
	return fmt.Sprintf("status-%d", status)
}

func serve(h http.HandlerFunc, deadline time.Duration) (string, int, string) {
	req := httptest.NewRequest("POST", "/x", bytes.NewReader(nil)).WithContext(context.Background())
	rec := httptest.NewRecorder()
	done := make(chan string, 1)
	go func() {
		defer func() {
			if p := recover(); p != nil {
				buf := make([]byte, 4096)
				done <- fmt.Sprint("handler panic: ", p, "\n", string(buf[:runtime.Stack(buf, false)]))
			}
		}()
		h(rec, req)
		done <- ""
	}()
	select {
	case p := <-done:
		if p != "" {
			return "abort", 0, p
		}
		return classOf(rec.Code), rec.Code, ""
	case <-time.After(deadline):
		return "hang", 0, "no response within " + deadline.String()
	}
}

// ------------------------------------------------------------------ generator

func pick(r *rand.Rand, xs ...int) int { return xs[r.Intn(len(xs))] }

func genEnd(r *rand.Rand, evs []Event) ([]Event, string) {
	switch r.Intn(8) {
	case 0:
		return append(evs, Event{Op: "err", Typed: true}), "err-typed"
	case 1:
		return append(evs, Event{Op: "err"}), "err-plain"
	case 2, 3:
		return append(evs, Event{Op: "panic"}), "panic"
	}
	return evs, "nil"
}

func genLogs(r *rand.Rand, c *Case, n int, tags map[string]bool) {
	c.Kind = "logs"
	for i := 0; i < n; i++ {
		k := r.Intn(5)
		ev := Event{Op: "entries", NTs: k, NMsg: k, NVal: k, NTypes: k, Type: 1 + r.Intn(2), MsgLen: r.Intn(100), Days: 1 + r.Intn(2)}
		switch r.Intn(16) {
		case 0:
			ev.NMsg = k + 1 + r.Intn(2) // more messages than timestamps: passes the index checks
			tags["unequal"] = true
		case 1:
			if k > 0 {
				ev.NMsg = r.Intn(k) // fewer: message[i] panics after the appends
				tags["unequal"] = true
			}
		case 2:
			ev.NVal = pick(r, 0, k+1, k+3)
			tags["unequal"] = ev.NVal != k || tags["unequal"]
		case 3:
			ev.NTypes = pick(r, 0, k+1)
			tags["unequal"] = ev.NTypes != k || tags["unequal"]
		case 4:
			ev.Type = 3 + r.Intn(250) // tps[t] out of range
			tags["bad-type"] = ev.NTypes > 0 || tags["bad-type"]
		case 5:
			ev.Type = 0
		case 6:
			ev.LblShort = true
			tags["lbl-short"] = true
		case 7, 8:
			ev.MsgLen = 150000 + r.Intn(200000) // a few of these flush
			tags["big"] = true
		}
		c.Events = append(c.Events, ev)
	}
}

func genCase(r *rand.Rand, id int) Case {
	c := Case{ID: id}
	n := r.Intn(7)
	tags := map[string]bool{}
	if r.Intn(5) < 2 {
		genLogs(r, &c, n, tags)
	} else if r.Intn(3) > 0 {
		c.Kind = "spans"
		for i := 0; i < n; i++ {
			ev := Event{Op: "span", Tid: 16, Sid: 8, Keys: r.Intn(5), Bytes: r.Intn(200)}
			ev.Vals = ev.Keys
			switch r.Intn(14) {
			case 0:
				ev.Tid = pick(r, 0, 1, 8, 15, 17, 32)
				tags["width"] = true
			case 1:
				ev.Sid = pick(r, 0, 4, 7, 9, 16)
				tags["width"] = true
			case 2:
				if ev.Keys > 0 {
					ev.Vals = r.Intn(ev.Keys) // fewer values than keys: val[i] panics in the middle of the appends
					tags["short-vals"] = true
				}
			case 3:
				ev.Vals = ev.Keys + 1 + r.Intn(3)
				tags["long-vals"] = true
			case 4, 5:
				ev.Bytes = 300000 + r.Intn(500000) // three of these flush
				tags["big"] = true
			}
			c.Events = append(c.Events, ev)
		}
	} else {
		c.Kind = "prof"
		for i := 0; i < n; i++ {
			ev := Event{Op: "profile", Bytes: r.Intn(100)}
			if r.Intn(6) == 0 {
				ev.Bytes = 1048576 + r.Intn(1000) // over 1 MiB: flush
				tags["big"] = true
			}
			c.Events = append(c.Events, ev)
		}
	}
	var end string
	c.Events, end = genEnd(r, c.Events)
	c.Class = c.Kind + "/end-" + end
	for _, k := range []string{"width", "short-vals", "long-vals", "unequal", "bad-type", "lbl-short", "big"} {
		if tags[k] {
			c.Class += "/" + k
		}
	}
	if r.Intn(6) == 0 {
		c.FailSvc = map[string][]string{"spans": {"spans", "attrs"}, "prof": {"prof"}, "logs": {"spl", "ts"}}[c.Kind][r.Intn(2)%len(map[string][]string{"spans": {"spans", "attrs"}, "prof": {"prof"}, "logs": {"spl", "ts"}}[c.Kind])]
		c.Class += "/insert-fails-" + c.FailSvc
	}
	fillSizes(&c)
	return c
}

func fillSizes(c *Case) {
	if c.Kind == "logs" {
		c.Sizes, c.Series = entriesSizes(c.ID, c.Events)
		return
	}
	c.Sizes = sizesOf(c.Kind, c.Events)
}

// ------------------------------------------------------------------ main

func main() {
	genOnly := flag.Bool("gen-only", false, "print the generated cases without running them")
	f := hx.ParseFlags()
	var cases []Case
	if f.Cases != "" {
		hx.ReadLines(f.Cases, func(line []byte) {
			var c Case
			if err := json.Unmarshal(line, &c); err != nil {
				panic(err)
			}
			c.Obs = nil
			fillSizes(&c)
			cases = append(cases, c)
		})
	} else {
		r := hx.Rand(f.Seed)
		for i := 0; i < f.N; i++ {
			cases = append(cases, genCase(r, i))
		}
	}
	devnull, _ := os.OpenFile(os.DevNull, os.O_WRONLY, 0)
	stdout := os.Stdout
	os.Stdout = devnull // the repository prints from some paths
	var out *os.File // unbuffered: every line is written before the next case runs
	if f.Out != "-" && f.Out != "" {
		var err error
		if out, err = os.Create(f.Out); err != nil {
			panic(err)
		}
	}
	emit := func(v interface{}) {
		b, _ := json.Marshal(v)
		if out != nil {
			out.Write(append(b, '\n'))
			return
		}
		stdout.Write(append(b, '\n'))
	}
	if *genOnly {
		for i := range cases {
			emit(&cases[i])
		}
		return
	}
	rg, spans, prof, logs := setup()
	// warm up, then the goroutine baseline
	current = nil
	serve(spans, 10*time.Second)
	serve(prof, 10*time.Second)
	serve(logs, 10*time.Second)
	time.Sleep(30 * time.Millisecond)
	for _, r := range []*recorder{rg.ts, rg.spl, rg.tags, rg.spans, rg.prof} {
		r.take()
	}
	baseline := runtime.NumGoroutine()
	for i := range cases {
		c := &cases[i]
		emit(map[string]int{"begin": c.ID})
		current = c.Events
		currentID = c.ID
		for _, r := range []*recorder{rg.spans, rg.tags, rg.prof, rg.spl, rg.ts} {
			r.mtx.Lock()
			r.fail = c.FailSvc != "" && r.name == c.FailSvc
			r.mtx.Unlock()
		}
		h := spans
		if c.Kind == "prof" {
			h = prof
		} else if c.Kind == "logs" {
			h = logs
		}
		outcome, status, detail := serve(h, 5*time.Second)
		o := &Obs{Outcome: outcome, Status: status, Detail: detail}
		leaked := true
		for k := 0; k < 5000; k++ { // up to 5 s: machine load must not look like a goroutine left behind
			if runtime.NumGoroutine() <= baseline {
				leaked = false
				break
			}
			time.Sleep(time.Millisecond)
		}
		if leaked && outcome != "hang" {
			o.Outcome = "leak"
			buf := make([]byte, 1<<16)
			o.Detail = fmt.Sprintf("goroutines %d > baseline %d after response %d\n%s", runtime.NumGoroutine(), baseline, status, buf[:runtime.Stack(buf, true)])
			if len(o.Detail) > 3000 {
				o.Detail = o.Detail[:3000]
			}
		}
		// batches in the order the services saw them, spans service first for equal positions
		for _, r := range []*recorder{rg.spans, rg.tags, rg.prof, rg.spl, rg.ts} {
			o.Batches = append(o.Batches, r.take()...)
		}
		c.Obs = o
		emit(c)
		if o.Outcome == "hang" || o.Outcome == "leak" {
			// the goroutine census is off from here on: stop, the check reports this case
			break
		}
	}
	if out != nil {
		out.Close()
	}
}
