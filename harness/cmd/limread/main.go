// Command limread: the REAL helpers.LimitDecoded (writer/utils/helpers/limitedBuffer.go) -- the reader
// WithOverallContextMiddleware puts around gzip.NewReader / snappy.NewReader -- over a scripted decompressor, driven by a
// scripted consumer.  Every Read's (n, error class) is printed; checks/c05.py compares them inside Coq with lim_run of
// model/IngestFraming.v and applies the oracle (never more than the limit delivered, no EOF beyond it).
package main

import (
	"encoding/json"
	"errors"
	"io"

	custom_errors "github.com/metrico/qryn/writer/utils/errors"
	"github.com/metrico/qryn/writer/utils/helpers"

	"verif/harness/hx"
)

type Case struct {
	ID      int       `json:"id"`
	Class   string    `json:"class"`
	Global  int       `json:"global"`  // argument of helpers.SetGlobalLimit (pbPool.limit = Global / 2)
	Decoded int       `json:"decoded"` // bytes the scripted decompressor has
	Calls   [][2]int  `json:"calls"`   // (len(p), chunk): chunk <= 0 = the decompressor fails
	Obs     []ReadObs `json:"obs,omitempty"`
}

type ReadObs struct {
	N   int    `json:"n"`
	Err string `json:"err"` // nil eof under toolong other
}

var errCorrupt = errors.New("scripted: corrupt stream")

// scripted decompressor: rem bytes to go; the driver sets chunk before every call of the limiter
type scripted struct {
	rem, chunk int
	calls      int
}

func (s *scripted) Read(p []byte) (int, error) {
	s.calls++
	if s.chunk <= 0 {
		return 0, errCorrupt
	}
	if s.rem <= 0 {
		return 0, io.EOF
	}
	n := len(p)
	if s.chunk < n {
		n = s.chunk
	}
	if s.rem < n {
		n = s.rem
	}
	for i := 0; i < n; i++ {
		p[i] = 'x'
	}
	s.rem -= n
	return n, nil
}

func classify(err error) string {
	switch {
	case err == nil:
		return "nil"
	case err == io.EOF:
		return "eof"
	case err == errCorrupt:
		return "under"
	}
	var q custom_errors.IQrynError
	if errors.As(err, &q) && q.GetCode() == 400 {
		return "toolong"
	}
	return "other"
}

func run(c *Case) {
	helpers.SetGlobalLimit(c.Global)
	s := &scripted{rem: c.Decoded}
	rd := helpers.LimitDecoded(s)
	c.Obs = nil
	for _, call := range c.Calls {
		s.chunk = call[1]
		p := make([]byte, call[0])
		n, err := rd.Read(p)
		c.Obs = append(c.Obs, ReadObs{N: n, Err: classify(err)})
	}
}

func main() {
	f := hx.ParseFlags()
	out := hx.OpenOut(f.Out)
	defer out.Close()
	if f.Cases != "" {
		hx.ReadLines(f.Cases, func(line []byte) {
			var c Case
			if err := json.Unmarshal(line, &c); err != nil {
				panic(err)
			}
			run(&c)
			out.Put(&c)
		})
		return
	}
	r := hx.Rand(f.Seed)
	for i := 0; i < f.N; i++ {
		c := Case{ID: i}
		c.Global = r.Intn(132)
		limit := c.Global / 2
		switch r.Intn(4) {
		case 0:
			c.Decoded, c.Class = r.Intn(limit+1), "within"
		case 1:
			c.Decoded, c.Class = limit+1+r.Intn(8), "just-over"
		case 2:
			c.Decoded, c.Class = limit, "exact"
		default:
			c.Decoded, c.Class = limit+1+r.Intn(400), "over"
		}
		nc := 1 + r.Intn(12)
		for k := 0; k < nc; k++ {
			plen := r.Intn(limit + 6)
			if r.Intn(6) == 0 {
				plen = 0
			} else if r.Intn(5) == 0 {
				plen = 512 + r.Intn(4096) // io.ReadAll's first buffer and beyond
			}
			chunk := 1 + r.Intn(70)
			if r.Intn(3) == 0 {
				chunk = 1 << 20
			}
			if r.Intn(25) == 0 {
				chunk = -r.Intn(2)
				c.Class += "+corrupt"
			}
			c.Calls = append(c.Calls, [2]int{plen, chunk})
		}
		run(&c)
		out.Put(&c)
	}
}
