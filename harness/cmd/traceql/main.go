// traceql drives the real TraceQL parser and the ClickHouse planners of
// reader/traceql/transpiler/clickhouse_transpiler and prints, per query: the parsed script (as
// the AST of coq/model/Traceql.v), the SQL text, and the SQL object tree (walked by reflection,
// read-only) so that the check can evaluate the statement the implementation really built.
package main

import (
	"encoding/json"
	"fmt"
	"math/rand"
	"reflect"
	"strconv"
	"strings"
	"time"
	"unsafe"

	"github.com/metrico/qryn/reader/logql/logql_transpiler_v2/clickhouse_planner"
	"github.com/metrico/qryn/reader/logql/logql_transpiler_v2/shared"
	traceql_parser "github.com/metrico/qryn/reader/traceql/parser"
	"github.com/metrico/qryn/reader/traceql/transpiler/clickhouse_transpiler"
	sql "github.com/metrico/qryn/reader/utils/sql_select"
	"verif/harness/hx"
)

type J = map[string]interface{}

// floatText: the text sql.FloatVal prints for a float64 (the library value the model is compared with outside
// its own domain; inside the domain model/Traceql.v computes it itself and the check compares both)
func floatText(f float64) string {
	s, _ := sql.NewFloatVal(f).String(nil)
	return s
}

// ---------------------------------------------------------------- script -> JSON (model AST)
func valJ(v traceql_parser.Value) J {
	r := J{"t": v.TimeVal, "f": v.FVal, "s": nil, "unq": nil, "ffmt": nil, "dur": nil}
	if v.StrVal != nil {
		r["s"] = hx.Hex(v.StrVal.Str)
		if u, err := v.StrVal.Unquote(); err == nil {
			r["unq"] = hx.Hex(u)
		}
	}
	if v.FVal != "" {
		if f, err := strconv.ParseFloat(v.FVal, 64); err == nil {
			r["ffmt"] = floatText(f)
		}
	}
	if v.TimeVal != "" {
		if d, err := time.ParseDuration(v.TimeVal); err == nil {
			r["dur"] = d.Nanoseconds()
		}
	}
	return r
}

func expJ(e *traceql_parser.AttrSelectorExp) interface{} {
	if e == nil {
		return nil
	}
	r := J{"head": nil, "chead": expJ(e.ComplexHead), "andor": e.AndOr, "tail": expJ(e.Tail)}
	if e.Head != nil {
		// key: the REAL AttrSelector.String() -- the identity under which analyzeCond de-duplicates the terms of a selector
		r["head"] = J{"label": e.Head.Label, "op": e.Head.Op, "val": valJ(e.Head.Val), "key": hx.Hex(e.Head.String())}
	}
	return r
}

func scriptJ(s *traceql_parser.TraceQLScript) interface{} {
	if s == nil {
		return nil
	}
	var agg interface{}
	if a := s.Head.Aggregator; a != nil {
		cv := a.Num + a.Measurement
		aj := J{"fn": a.Fn, "attr": a.Attr, "cmp": a.Cmp, "num": a.Num, "meas": a.Measurement, "ffmt": nil, "durf": nil}
		if f, err := strconv.ParseFloat(cv, 64); err == nil {
			aj["ffmt"] = floatText(f)
		}
		if d, err := time.ParseDuration(cv); err == nil {
			aj["durf"] = floatText(float64(d.Nanoseconds()))
		}
		agg = aj
	}
	return J{"head": J{"attr": expJ(s.Head.AttrSelector), "agg": agg}, "andor": s.AndOr, "tail": scriptJ(s.Tail)}
}

// ---------------------------------------------------------------- SQL object tree -> JSON
func list(v reflect.Value) []interface{} {
	r := []interface{}{}
	for i := 0; i < v.Len(); i++ {
		r = append(r, tree(v.Index(i)))
	}
	return r
}

func tree(v reflect.Value) interface{} {
	for v.Kind() == reflect.Interface || v.Kind() == reflect.Ptr {
		if v.IsNil() {
			return nil
		}
		v = v.Elem()
	}
	if v.Kind() != reflect.Struct {
		return J{"k": "unknown", "type": v.Type().String()}
	}
	f := v.FieldByName
	switch v.Type().String() {
	case "sql.Select":
		withs := []interface{}{}
		ws := f("withs")
		for i := 0; i < ws.Len(); i++ {
			w := ws.Index(i).Elem()
			withs = append(withs, J{"alias": w.FieldByName("alias").String(), "q": tree(w.FieldByName("query"))})
		}
		joins := []interface{}{}
		js := f("joins")
		for i := 0; i < js.Len(); i++ {
			j := js.Index(i).Elem()
			joins = append(joins, J{"tp": j.FieldByName("tp").String(), "table": tree(j.FieldByName("table")), "on": tree(j.FieldByName("on"))})
		}
		settings := J{}
		if st := f("settings"); st.Kind() == reflect.Map {
			for _, k := range st.MapKeys() {
				settings[k.String()] = st.MapIndex(k).String()
			}
		}
		return J{"k": "select", "distinct": f("distinct").Bool(), "cols": list(f("columns")), "from": tree(f("from")),
			"where": tree(f("where")), "prewhere": tree(f("preWhere")), "having": tree(f("having")),
			"groupby": list(f("groupBy")), "orderby": list(f("orderBy")), "limit": tree(f("limit")), "offset": tree(f("offset")),
			"withs": withs, "withs_nil": f("withs").IsNil(), "joins": joins, "settings": settings}
	case "sql.LogicalOp":
		return J{"k": "lop", "fn": f("fn").String(), "cl": list(f("clauses"))}
	case "sql.RawObject":
		return J{"k": "raw", "s": f("val").String()}
	case "sql.StringVal":
		return J{"k": "str", "s": hx.Hex(f("val").String())}
	case "sql.IntVal":
		return J{"k": "int", "v": strconv.FormatInt(f("val").Int(), 10)}
	case "sql.FloatVal":
		return J{"k": "float", "s": floatText(f("val").Float())}
	case "sql.Col":
		return J{"k": "col", "e": tree(f("expr")), "alias": f("alias").String()}
	case "sql.OrderBy":
		return J{"k": "ord", "e": tree(f("col")), "desc": f("direction").Int() != sql.ORDER_BY_DIRECTION_ASC}
	case "sql.In":
		return J{"k": "in", "l": tree(f("leftSide")), "r": list(f("rightSide"))}
	case "sql.WithRef":
		return J{"k": "wref", "alias": f("ref").Elem().FieldByName("alias").String()}
	case "clickhouse_transpiler.bitSet":
		return J{"k": "bitset", "terms": list(f("terms"))}
	case "clickhouse_transpiler.bitAnd":
		return J{"k": "bitand", "l": tree(f("left")), "r": tree(f("right"))}
	case "clickhouse_transpiler.groupBitOr":
		return J{"k": "groupbitor", "e": tree(f("left")), "alias": f("alias").String()}
	case "clickhouse_transpiler.matchRe":
		return J{"k": "matchre", "field": tree(f("field")), "re": hx.Hex(f("re").String())}
	case "clickhouse_transpiler.sqlAttrValue":
		return J{"k": "attrvalue", "attr": hx.Hex(f("attr").String())}
	case "clickhouse_transpiler.intersect":
		return J{"k": "intersect", "sels": list(f("selects"))}
	case "clickhouse_transpiler.union":
		return J{"k": "union", "sels": list(f("selects"))}
	}
	return unknownObj(v)
}

// unknownObj: a planner-local SQL object the model has no constructor for.  Its own String() is called (read-only; the value
// sits in an unexported field, hence the unsafe re-typing of its address) so that the check can still read the fragment as a
// generic function call and hand the statement to the evaluator instead of giving up on the whole query.
func unknownObj(v reflect.Value) (res interface{}) {
	r := J{"k": "unknown", "type": v.Type().String()}
	res = r
	defer func() { _ = recover() }()
	if !v.CanAddr() {
		return
	}
	if o, ok := reflect.NewAt(v.Type(), unsafe.Pointer(v.UnsafeAddr())).Interface().(sql.SQLObject); ok {
		if txt, err := o.String(&sql.Ctx{Params: map[string]sql.SQLObject{}, Result: map[string]sql.SQLObject{}}); err == nil {
			r["text"] = hx.Hex(txt)
		}
	}
	return
}

// ---------------------------------------------------------------- one case
type Ctx struct {
	FromNs    int64    `json:"from_ns"`
	ToNs      int64    `json:"to_ns"`
	Limit     int64    `json:"limit"`
	IsCluster bool     `json:"is_cluster"`
	RfMax     int      `json:"rf_max"`
	RfI       int      `json:"rf_i"`
	Cached    []string `json:"cached"`
	FromDate  string   `json:"from_date"` // filled by the harness: what time.Format gives here
	ToDate    string   `json:"to_date"`
	FfdFrom   string   `json:"ffd_from"` // clickhouse_planner.FormatFromDate(From/To), used by AllValuesRequestPlanner
	FfdTo     string   `json:"ffd_to"`
}

type Case struct {
	ID    int             `json:"id"`
	Class string          `json:"class"`
	Q     string          `json:"q"`    // hex of the query text
	Mode  string          `json:"mode"` // plan | tags | values | eval (eval: PlanEval, the complexity estimate; only through --cases, the generator does not emit it)
	Key   string          `json:"key"`  // values mode
	Ctx   Ctx             `json:"ctx"`
	Calls int             `json:"calls"`         // how many times Process is called on the same planner (ComplexRequestProcessor re-uses it)
	Dbs   json.RawMessage `json:"dbs,omitempty"` // corpus cases: attribute-index contents for the semantic oracle (passed through)
	// observations
	ParseErr string        `json:"parse_err,omitempty"`
	Ast      interface{}   `json:"ast,omitempty"`
	PlanErr  string        `json:"plan_err,omitempty"`
	Obs      []interface{} `json:"obs,omitempty"` // per call: {err|sql,tree}
	Panic    string        `json:"panic,omitempty"`
}

func pctx(c *Ctx) *shared.PlannerContext {
	from := time.Unix(0, c.FromNs).UTC()
	to := time.Unix(0, c.ToNs).UTC()
	c.FromDate = from.Format("2006-01-02")
	c.ToDate = to.Format("2006-01-02")
	c.FfdFrom = clickhouse_planner.FormatFromDate(from)
	c.FfdTo = clickhouse_planner.FormatFromDate(to)
	return &shared.PlannerContext{
		IsCluster: c.IsCluster, From: from, To: to, Limit: c.Limit,
		TracesAttrsTable: "tempo_traces_attrs_gin", TracesAttrsDistTable: "tempo_traces_attrs_gin_dist",
		TracesTable: "tempo_traces", TracesDistTable: "tempo_traces_dist",
		TracesKVTable: "tempo_traces_kv", TracesKVDistTable: "tempo_traces_kv_dist",
		VersionInfo:  map[string]int64{},
		RandomFilter: shared.RandomFilter{Max: c.RfMax, I: c.RfI}, CachedTraceIds: c.Cached,
	}
}

func run(c *Case) {
	c.ParseErr, c.Ast, c.PlanErr, c.Obs, c.Panic = "", nil, "", nil, ""
	q := hx.UnHex(c.Q)
	c.Panic = hx.Catch(func() {
		script, err := traceql_parser.Parse(q)
		if err != nil {
			c.ParseErr = err.Error()
			return
		}
		c.Ast = scriptJ(script)
		var pl shared.SQLRequestPlanner
		switch c.Mode {
		case "tags":
			pl, err = clickhouse_transpiler.PlanTagsV2(script)
		case "values":
			pl, err = clickhouse_transpiler.PlanValuesV2(script, c.Key)
		case "eval":
			pl, err = clickhouse_transpiler.PlanEval(script)
		default:
			pl, err = clickhouse_transpiler.Plan(script)
		}
		if err != nil {
			c.PlanErr = err.Error()
			return
		}
		if c.Calls < 1 {
			c.Calls = 1
		}
		for i := 0; i < c.Calls; i++ {
			cx := c.Ctx
			if i > 0 && cx.RfMax > 0 { // the i-th portion of ComplexRequestProcessor
				cx.RfI = (cx.RfI + i) % cx.RfMax
			}
			sel, err := pl.Process(pctx(&cx))
			c.Ctx.FromDate, c.Ctx.ToDate, c.Ctx.FfdFrom, c.Ctx.FfdTo = cx.FromDate, cx.ToDate, cx.FfdFrom, cx.FfdTo
			if err != nil {
				// the planner keeps partial state after an error; ComplexRequestProcessor stops there too
				c.Obs = append(c.Obs, J{"err": err.Error(), "rf_i": cx.RfI})
				break
			}
			s, err := sel.String(&sql.Ctx{Params: map[string]sql.SQLObject{}, Result: map[string]sql.SQLObject{}})
			if err != nil {
				c.Obs = append(c.Obs, J{"err": "string: " + err.Error(), "rf_i": cx.RfI, "tree": tree(reflect.ValueOf(sel))})
				break
			}
			c.Obs = append(c.Obs, J{"sql": hx.Hex(s), "rf_i": cx.RfI, "tree": tree(reflect.ValueOf(sel))})
		}
	})
}

// ---------------------------------------------------------------- generator (grammar driven)
var keys = []string{"a", "b", "http.status", "x-y", "svc_1", "k"}
// the last three values of strs and the last two of res begin / end with a quote character: quote() writes them as a literal
// WITHOUT a backslash whose content begins or ends with the OTHER quote character (round 8, seeded C11-h)
var strs = []string{"v", "w", "", "it's", `a\b`, "%d", "x y", "GET", "200", `q"t`, `"ok"`, "`ls`", `"`}
var res = []string{"v.*", "^a", "[0-9]+", "a|b", ".+", "my_service", "100%", "a_b", "GET", `"o."`, "`l.`"}
var nums = []string{"0", "1", "5", "10", "200", "3.5", "0.25", "-1", "-2.5", "100000", "1.", "0.000001", "12345.678901", "0.0000001", "7.1234567"}
var durs = []string{"1s", "5ms", "100us", "2m", "1h", "1.5s", "0.5ms", "10ns", "0s", "3d", "250ms", "1.25h"}
var sops = []string{"=", "!=", "=~", "!~"}
var nops = []string{"=", "!=", ">", "<", ">=", "<="}
var aggs = []string{"count", "sum", "min", "max", "avg"}

func pick(r *rand.Rand, l []string) string { return l[r.Intn(len(l))] }

func quote(r *rand.Rand, s string) string {
	if r.Intn(5) == 0 && !strings.ContainsAny(s, "`\\") {
		return "`" + s + "`"
	}
	if strings.Contains(s, "\"") && !strings.ContainsAny(s, "`\\") && r.Intn(2) == 0 {
		return "`" + s + "`" // a double quote needs no escape between back-ticks: no backslash in the literal
	}
	return strconv.Quote(s) // ASCII, no control characters in the pools: a JSON string as well
}

func label(r *rand.Rand) string {
	k := pick(r, keys)
	switch r.Intn(10) {
	case 0, 1, 2:
		return "span." + k
	case 3, 4:
		return "resource." + k
	case 5, 6, 7, 8:
		return "." + k
	}
	return "name"
}

func sp(r *rand.Rand) string {
	if r.Intn(3) == 0 {
		return ""
	}
	return " "
}

func term(r *rand.Rand, pool *[]string, weird bool) string {
	if len(*pool) > 0 && r.Intn(4) == 0 { // repeated term (exercise de-duplication)
		return (*pool)[r.Intn(len(*pool))]
	}
	var t string
	switch x := r.Intn(20); {
	case x < 3:
		t = "duration" + sp(r) + pick(r, nops) + sp(r) + pick(r, durs)
	case x < 11:
		op := pick(r, sops)
		v := pick(r, strs)
		if op == "=~" || op == "!~" {
			v = pick(r, res)
		}
		t = label(r) + sp(r) + op + sp(r) + quote(r, v)
	case x < 18:
		t = label(r) + sp(r) + pick(r, nops) + sp(r) + pick(r, nums)
	default:
		if !weird {
			t = label(r) + sp(r) + pick(r, nops) + sp(r) + pick(r, nums)
			break
		}
		switch r.Intn(6) { // terms the planners reject or treat specially
		case 0:
			t = pick(r, keys) + " = " + quote(r, "v") // no prefix: unsupported attribute
		case 1:
			t = label(r) + " =~ " + pick(r, nums) // regex operator on a number
		case 2:
			t = label(r) + " > " + quote(r, "v") // ordering on a string
		case 3:
			t = label(r) + " = " + pick(r, durs) // duration value on an attribute
		case 4:
			t = "duration > " + pick(r, nums) // number on duration
		default:
			t = "duration =~ " + pick(r, durs)
		}
	}
	*pool = append(*pool, t)
	return t
}

func exp(r *rand.Rand, depth int, pool *[]string, weird bool) string {
	var h string
	if depth > 0 && r.Intn(4) == 0 {
		h = "(" + exp(r, depth-1, pool, weird) + ")"
	} else {
		h = term(r, pool, weird)
	}
	if depth > 0 && r.Intn(2) == 0 {
		op := " && "
		if r.Intn(2) == 0 {
			op = " || "
		}
		return h + op + exp(r, depth-1, pool, weird)
	}
	return h
}

func selector(r *rand.Rand, weird bool, class *string) string {
	var pool []string
	depth := r.Intn(4)
	s := "{" + exp(r, depth, &pool, weird) + "}"
	if r.Intn(3) == 0 {
		fn := pick(r, aggs)
		attr := ""
		cmpv := pick(r, nums)
		switch {
		case fn == "count":
		case r.Intn(3) == 0:
			attr = "duration"
			cmpv = pick(r, durs)
		default:
			attr = label(r)
			if attr == "name" {
				attr = ".a"
			}
		}
		if weird && r.Intn(5) == 0 {
			attr = "" // sum() / avg() ... without an attribute: the grammar allows it
		}
		if fn == "count" && r.Intn(4) == 0 {
			attr = label(r) // count(.a): the attribute is carried along but not used
		}
		if weird && r.Intn(4) == 0 {
			if attr == "duration" {
				cmpv = pick(r, nums)
			} else {
				cmpv = pick(r, durs)
			}
		}
		s += " | " + fn + "(" + attr + ") " + pick(r, nops) + " " + cmpv
		*class += "+agg"
	}
	return s
}

// a selector with 9..12 DISTINCT terms (one bit each; past bit 7 the width of the bit arithmetic matters):
// a conjunction, a disjunction, or eight terms and a choice between the ninth and tenth
func wide(r *rand.Rand) string {
	n := 9 + r.Intn(4)
	ts := make([]string, n)
	for i := range ts {
		k := fmt.Sprintf(".k%d", i)
		switch r.Intn(6) {
		case 0:
			ts[i] = k + " != " + quote(r, "v")
		case 1:
			ts[i] = k + " " + pick(r, nops) + " " + pick(r, []string{"1", "5", "10"})
		default:
			ts[i] = k + " = " + quote(r, pick(r, []string{"v", "w", "200"}))
		}
	}
	switch r.Intn(4) {
	case 0:
		return "{" + strings.Join(ts, " && ") + "}"
	case 1:
		return "{" + strings.Join(ts, " || ") + "}"
	case 2:
		return "{(" + strings.Join(ts[:n-2], " && ") + ") && (" + ts[n-2] + " || " + ts[n-1] + ")}"
	}
	q := ts[0]
	for _, t := range ts[1:] {
		if r.Intn(2) == 0 {
			q += " && " + t
		} else {
			q += " || " + t
		}
	}
	return "{" + q + "}"
}

// ---------------------------------------------------------------- confusable terms (round 6)
// Two (or three) terms of ONE selector with the same label and the same operator whose literals are different but easy to
// conflate: analyzeCond de-duplicates terms under AttrSelector.String(), so anything that printing might identify (a cut
// after N bytes, trimming, case folding, unquoting, unicode normalisation, number normalisation) silently replaces the
// second condition by the first.  A deterministic grid: every kind x every operator family, the rest drawn from r.
var longBase = "/api/v2/tenants/0123456789abcdef/projects/fedcba9876543210/regions/eu-central-1/clusters/prod-blue-7/namespaces/billing_core/services/invoice-renderer/endpoints/render_pdf/versions/2024-11-05/shards/000042/replicas/r3/paths/home/qryn/data/traces/"

func longPrefix(n int) string {
	s := longBase
	for len(s) < n {
		s += longBase
	}
	return s[:n]
}

// prefix lengths around the sizes at which a printer might cut (the quote of the token counts as one byte: 47/48/49 ...)
var cutLens = []int{30, 46, 47, 48, 49, 62, 63, 64, 65, 100, 127, 128, 129, 254, 255, 256, 257, 300, 520}

type confKind struct {
	name string
	vals func(r *rand.Rand, g int) []string // the literal TOKENS (quoted), at least two
	num  bool                               // numeric / duration literals (numeric operators)
}

func dq(s string) string { return strconv.Quote(s) }

var confKinds = []confKind{
	{"long-common-prefix", func(r *rand.Rand, g int) []string {
		p := longPrefix(cutLens[g%len(cutLens)])
		return []string{dq(p + "orders"), dq(p + "invoices"), dq(p + "health")}
	}, false},
	{"long-last-byte", func(r *rand.Rand, g int) []string {
		p := longPrefix(cutLens[g%len(cutLens)])
		return []string{dq(p + "A"), dq(p + "B")}
	}, false},
	{"long-ticked", func(r *rand.Rand, g int) []string {
		p := longPrefix(cutLens[g%len(cutLens)])
		return []string{"`" + p + "x1`", "`" + p + "x2`", dq(p + "x2")}
	}, false},
	{"long-proper-prefix", func(r *rand.Rand, g int) []string { // one literal is a prefix of the other
		p := longPrefix(cutLens[g%len(cutLens)])
		return []string{dq(p), dq(p + "z"), dq(p + "zz")}
	}, false},
	{"trailing-space", func(r *rand.Rand, g int) []string { return []string{dq("v"), dq("v "), dq(" v"), dq("v  ")} }, false},
	{"case", func(r *rand.Rand, g int) []string { return []string{dq("GET"), dq("get"), dq("Get")} }, false},
	{"empty-blank", func(r *rand.Rand, g int) []string { return []string{dq(""), dq(" "), "``"} }, false},
	{"unicode-normal-forms", func(r *rand.Rand, g int) []string { // NFC / NFD / ASCII fold
		return []string{"\"caf\u00e9\"", "\"cafe\u0301\"", "\"cafe\"", "\"caf\u00c9\"", `"caf\u00e9"`}
	}, false},
	{"escapes", func(r *rand.Rand, g int) []string { // same or different value behind different spellings
		return []string{`"a\tb"`, `"a b"`, `"a\\tb"`, `"atb"`, `"a\u0009b"`}
	}, false},
	{"quotes", func(r *rand.Rand, g int) []string { return []string{`"q\"t"`, "`q\"t`", `"qt"`, `"q't"`} }, false},
	{"other-quote-at-ends", func(r *rand.Rand, g int) []string { // the content begins / ends with the other quote character; no backslash
		// in the first six (the JSON round trip of Unquote must give the content back byte for byte), the escaped spellings beside them
		return []string{"`\"ok\"`", "\"`ls`\"", "`\"ok`", "`ok\"`", "\"`ls\"", "\"ls`\"", `"\"ok\""`, `"ok"`, "`ls`", "`\"\"ok\"\"`", "\"``\"", "`\"`"}
	}, false},
	{"quote-kinds-same-value", func(r *rand.Rand, g int) []string { return []string{`"w"`, "`w`", `"W"`} }, false},
	{"percent-underscore", func(r *rand.Rand, g int) []string { return []string{dq("a_b"), dq("a%b"), dq("aXb"), dq("a-b")} }, false},
	{"numbers-same-value", func(r *rand.Rand, g int) []string { return []string{"1", "1.0", "1.00", "01"} }, true},
	{"numbers-near", func(r *rand.Rand, g int) []string { return []string{"0.5", "0.50", "0.51", "-0.5"} }, true},
	{"numbers-long", func(r *rand.Rand, g int) []string { // long tokens of small numbers: leading zeros (digits beyond what a float64 keeps would leave the
		// domain in which the oracle can tell the literal from its float: the reference meaning is over exact decimals)
		z := strings.Repeat("0", cutLens[g%len(cutLens)])
		return []string{z + "1", z + "2", z + "1.5", "-" + z + "2"}
	}, true},
	{"same-literal-other-operator", func(r *rand.Rand, g int) []string { return []string{dq("v"), dq("v"), dq("v")} }, false},
	{"same-number-other-operator", func(r *rand.Rand, g int) []string { return []string{"5", "5", "5"} }, true},
	{"same-literal-other-label", func(r *rand.Rand, g int) []string { return []string{dq("v"), dq("v"), dq("v")} }, false},
	{"numbers-zero", func(r *rand.Rand, g int) []string { return []string{"0", "-0", "0.0", "0."} }, true},
}

func confusable(r *rand.Rand, g int, c *Case) string {
	// even grid points: the four long-literal kinds (the first four of confKinds) x every cut length; odd ones: the other kinds
	h := g / 2
	var k confKind
	var vals []string
	if g%2 == 0 {
		k = confKinds[h%4]
		vals = k.vals(r, h) // length index h % len(cutLens): 4 and 19 are coprime, every (kind, length) pair comes up
	} else {
		k = confKinds[4+h%(len(confKinds)-4)]
		vals = k.vals(r, h)
	}
	lab := []string{".url", "span.http.url", "resource.svc_1", "name", ".k"}[(h/3+r.Intn(2))%5]
	var ops []string
	if k.num {
		ops = nops
		if lab == "name" {
			lab = ".n"
		}
	} else {
		ops = sops
	}
	op := ops[(h+h/4)%len(ops)]
	n := 2
	if len(vals) > 2 && r.Intn(3) == 0 {
		n = 3
	}
	// which literals, in which order (the FIRST one wins a collision)
	perm := r.Perm(len(vals))[:n]
	ts := make([]string, n)
	for i, j := range perm {
		ts[i] = lab + sp(r) + op + sp(r) + vals[j]
	}
	switch k.name {
	case "same-literal-other-operator", "same-number-other-operator": // the key must keep the operator
		p2 := r.Perm(len(ops))
		for i := range ts {
			ts[i] = lab + sp(r) + ops[p2[i%len(p2)]] + sp(r) + vals[0]
		}
	case "same-literal-other-label": // ... and the label, byte for byte
		labs := []string{".k", ".K", ".k-1", ".k_1", ".k.1", "span.k1", ".span"}
		p2 := r.Perm(len(labs))
		for i := range ts {
			ts[i] = labs[p2[i]] + sp(r) + op + sp(r) + vals[0]
		}
	}
	// the connective under which a lost term shows: || for positive operators, && for negative ones; sometimes the other
	con := " || "
	if op == "!=" || op == "!~" {
		con = " && "
	}
	if r.Intn(6) == 0 {
		if con == " || " {
			con = " && "
		} else {
			con = " || "
		}
	}
	q := strings.Join(ts, con)
	switch r.Intn(6) {
	case 0:
		q = "(" + ts[0] + ")" + con + "(" + strings.Join(ts[1:], con) + ")"
	case 1:
		q = ts[0] + con + "(.other = \"x\" && " + ts[0] + ")" + con + strings.Join(ts[1:], con) // a genuine repeat beside the confusable pair
	}
	q = "{" + q + "}"
	switch r.Intn(8) {
	case 0:
		q += " | count() > 0"
		c.Class += "+agg"
	case 1:
		q = q + " && {.zz != \"zz-none\"}"
	case 2:
		q = "{.zz = \"zz-none\"} || " + q
	}
	c.Class = "confusable:" + k.name + c.Class
	return q
}

// every confEvery-th case is the next point of the confusable grid
const confEvery = 10

func gen(r *rand.Rand, id int) Case {
	c := Case{ID: id, Mode: "plan", Calls: 1}
	weird := r.Intn(8) == 0
	var q string
	switch x := r.Intn(21); {
	case id%confEvery == confEvery-1:
		weird = false
		q = confusable(r, id/confEvery, &c)
	case x == 20:
		c.Class = "wide"
		q = wide(r)
	case x < 11:
		c.Class = "single"
		q = selector(r, weird, &c.Class)
	case x < 16:
		c.Class = "pair"
		op := " && "
		if r.Intn(2) == 0 {
			op = " || "
		}
		q = selector(r, weird, &c.Class) + op + selector(r, weird, &c.Class)
	case x < 18:
		c.Class = "chain"
		n := 3 + r.Intn(2)
		for i := 0; i < n; i++ {
			if i > 0 {
				if r.Intn(2) == 0 {
					q += " && "
				} else {
					q += " || "
				}
			}
			q += selector(r, weird, &c.Class)
		}
	case x < 19:
		c.Class = "empty"
		switch r.Intn(4) {
		case 0:
			q = "{}"
		case 1:
			q = "{} | count() > 1"
		case 2:
			q = "{} || " + selector(r, false, &c.Class)
		default:
			q = selector(r, false, &c.Class) + " && {}"
		}
	default:
		c.Class = "malformed"
		q = selector(r, true, &c.Class)
		switch r.Intn(5) {
		case 0:
			q = strings.Replace(q, "}", "", 1)
		case 1:
			q = strings.Replace(q, "&&", "&& &&", 1) + " &&"
		case 2:
			q = q + " " + selector(r, false, &c.Class) // two selectors without an operator
		case 3:
			q = strings.Replace(q, " && ", " ", 1) // two terms without an operator
		default:
			q = q + " ||"
		}
	}
	if weird {
		c.Class += "+weird"
	}
	c.Q = hx.Hex(q)
	// context
	base := int64(1700000000) * 1e9
	c.Ctx.FromNs = base + int64(r.Intn(5))*3600e9 + int64(r.Intn(3))*123456789
	c.Ctx.ToNs = c.Ctx.FromNs + int64(1+r.Intn(72))*3600e9
	c.Ctx.Limit = int64([]int{0, 1, 3, 20, 100}[r.Intn(5)])
	c.Ctx.IsCluster = r.Intn(4) == 0
	if r.Intn(4) == 0 {
		c.Ctx.RfMax = 2 + r.Intn(3)
		c.Ctx.RfI = r.Intn(c.Ctx.RfMax)
		for i := r.Intn(3); i > 0; i-- {
			c.Ctx.Cached = append(c.Ctx.Cached, fmt.Sprintf("%032x", r.Int63()))
		}
		c.Calls = 1 + r.Intn(3)
		c.Class += "+portions"
	}
	if strings.HasPrefix(c.Class, "confusable") && r.Intn(3) != 0 {
		c.Ctx.Limit = int64([]int{0, 20, 100}[r.Intn(3)]) // mostly: every matching trace must come back
	}
	switch r.Intn(12) {
	case 0:
		c.Mode = "tags"
	case 1:
		c.Mode = "values"
		c.Key = pick(r, keys)
	}
	return c
}

func main() {
	f := hx.ParseFlags()
	out := hx.OpenOut(f.Out)
	defer out.Close()
	if f.Cases != "" {
		hx.ReadLines(f.Cases, func(b []byte) {
			var c Case
			if err := json.Unmarshal(b, &c); err != nil {
				panic(err)
			}
			run(&c)
			out.Put(c)
		})
		return
	}
	r := hx.Rand(f.Seed)
	for i := 0; i < f.N; i++ {
		c := gen(r, i)
		run(&c)
		out.Put(c)
	}
}
