// replan (C14): the SQL text of repeated and interleaved translations.
//
// For every case (a LogQL query, a TraceQL query or a profile selector with a context) the real
// planners are driven in the ways the reader drives them:
//
//	tail    ONE plan object, Process once per window, a NEW PlannerContext per call
//	        (QueryRangeService.Tail; for TraceQL: ComplexRequestProcessor, one ctx, one call per portion)
//	reuse   ONE plan object, ONE PlannerContext whose window is moved
//	fresh   a new plan object and a new context per window  (the reference)
//	fresh2  the same again after every other case has been translated (history independence)
//	conc    the same again from 16 goroutines that translate all cases in a shuffled order at once
//
//	top     the entry points the services call with the query text, the same text translated again and again
//	        (sequentially between other queries and from the soak goroutines): chain description + SQL
//
// Only the texts are recorded; checks/c14.py compares them with each other (the property's oracle)
// and with the planner model.
package main

import (
	"encoding/json"
	"flag"
	"fmt"
	"math/rand"
	"reflect"
	"sort"
	"strings"
	"sync"
	"time"
	"unsafe"

	"github.com/metrico/cloki-config/config"
	"github.com/metrico/qryn/reader/logql/logql_parser"
	logql_transpiler_v2 "github.com/metrico/qryn/reader/logql/logql_transpiler_v2"
	"github.com/metrico/qryn/reader/logql/logql_transpiler_v2/clickhouse_planner"
	"github.com/metrico/qryn/reader/logql/logql_transpiler_v2/shared"
	"github.com/metrico/qryn/reader/model"
	prof_parser "github.com/metrico/qryn/reader/prof/parser"
	prof_shared "github.com/metrico/qryn/reader/prof/shared"
	prof_transpiler "github.com/metrico/qryn/reader/prof/transpiler"
	v1 "github.com/metrico/qryn/reader/prof/types/v1"
	traceql_parser "github.com/metrico/qryn/reader/traceql/parser"
	traceql_transpiler "github.com/metrico/qryn/reader/traceql/transpiler"
	"github.com/metrico/qryn/reader/traceql/transpiler/clickhouse_transpiler"
	sql "github.com/metrico/qryn/reader/utils/sql_select"
	"github.com/prometheus/prometheus/model/labels"
	"github.com/metrico/qryn/reader/utils/tables"
	"verif/harness/hx"
)

type Ctx struct {
	FromNs   int64 `json:"from_ns"`
	ToNs     int64 `json:"to_ns"`
	Limit    int64 `json:"limit"`
	Asc      bool  `json:"asc"`
	Cluster  bool  `json:"cluster"`
	Type     uint8 `json:"type"`
	Finalize bool  `json:"finalize"`
	StepMs   int64 `json:"step_ms"`
}

type Case struct {
	ID      int        `json:"id"`
	Lang    string     `json:"lang"` // logql | traceql | prof
	Mode    string     `json:"mode,omitempty"`
	Query   string     `json:"query"`
	Ctx     Ctx        `json:"ctx"`
	Windows [][2]int64 `json:"windows"` // one (from_ns, to_ns) per execution
	Class   []string   `json:"class,omitempty"`
	// TraceQL: what the context of execution i asks for: 0 = portion i of len(Windows) with the trace ids found so far (the loop of
	// ComplexRequestProcessor), 1 = a plain execution (RandomFilter.Max == 0: SimpleRequestProcessor), 2 = portion i without cached
	// ids. Absent = all 0 (one window: plain). One plan object meets these contexts in turn (tail, reuse); fresh plans meet the same.
	Sched []int `json:"sched,omitempty"`
	// observations: one text per window; "!<kind>: <message>" for an error
	Tail   []string `json:"tail,omitempty"`
	Reuse  []string `json:"reuse,omitempty"`
	Fresh  []string `json:"fresh,omitempty"`
	Fresh2 []string `json:"fresh2,omitempty"`
	Conc   []string `json:"conc,omitempty"`
	// the entry points the services call with the query TEXT (logql_transpiler_v2.Transpile, traceql_transpiler.Plan*,
	// prof/transpiler.Plan*): translation #1, #2 (after all other cases), then one per soak goroutine that differs (or #1);
	// each is the description of the whole processor chain: the in-process stages with their parameters and the SQL
	Top []string `json:"top,omitempty"`
	// profile cases: the selectors as the real parser delivered them (value unquoted) and the gin table of the context
	ProfSels []ProfSel `json:"prof_sels,omitempty"`
	ProfGin  string    `json:"prof_gin,omitempty"`
	// the five profile table names of the context: series gin, series gin dist, series, series dist, profiles dist
	ProfTables []string `json:"prof_tables,omitempty"`
	// TraceQL cases: the context of every execution as C11's model takes it (tqcalls.go)
	TqCalls []TqCall `json:"tq_calls,omitempty"`
	Err    string   `json:"err,omitempty"` // parse | plan
}

type ProfSel struct {
	Name string `json:"name"`
	Op   string `json:"op"`
	Val  string `json:"val"` // hex
	E    bool   `json:"e"`   // the Prometheus matcher of the selector matches "" (the oracle StreamSelectorPlanner.Process asks)
}

// a plan object of any of the three languages
type plan struct {
	p    shared.SQLRequestPlanner
	sels []ProfSel
}

func mkCtx(c *Case, w [2]int64, portion int) *shared.PlannerContext {
	pc := &shared.PlannerContext{
		IsCluster:  c.Ctx.Cluster,
		From:       time.Unix(0, w[0]),
		To:         time.Unix(0, w[1]),
		OrderASC:   c.Ctx.Asc,
		Limit:      c.Ctx.Limit,
		CHFinalize: true,
		Step:       time.Duration(c.Ctx.StepMs) * time.Millisecond,
		Type:       c.Ctx.Type,
		CHSqlCtx:   &sql.Ctx{Params: map[string]sql.SQLObject{}, Result: map[string]sql.SQLObject{}},
	}
	db := &model.DataDatabasesMap{Config: &config.ClokiBaseDataBase{Name: "qryn"}}
	if c.Ctx.Cluster {
		db.Config.ClusterName = "cl1"
	}
	tables.PopulateTableNames(pc, db)
	pc.VersionInfo = map[string]int64{}
	if c.Lang == "traceql" {
		setPortion(pc, c, portion)
	}
	return pc
}

// ComplexRequestProcessor: portion i of len(Windows); the ids found so far are handed to the next portion
func setPortion(pc *shared.PlannerContext, c *Case, portion int) {
	kind := 0
	if portion < len(c.Sched) {
		kind = c.Sched[portion]
	}
	if kind == 1 || (len(c.Sched) == 0 && len(c.Windows) < 2) {
		pc.RandomFilter = shared.RandomFilter{}
		pc.CachedTraceIds = nil
		return
	}
	max := len(c.Windows)
	if max < 2 {
		max = 2
	}
	pc.RandomFilter = shared.RandomFilter{Max: max, I: portion % max}
	var ids []string
	if kind == 0 {
		for k := 0; k < portion; k++ {
			ids = append(ids, fmt.Sprintf("%032x", 0x1000+c.ID*16+k))
		}
	}
	pc.CachedTraceIds = ids
}

func build(c *Case) (pl *plan, kind string, err error) {
	p := hx.Catch(func() {
		switch c.Lang {
		case "logql":
			var script *logql_parser.LogQLScript
			script, err = logql_parser.Parse(c.Query)
			if err != nil {
				kind = "parse"
				return
			}
			var sp shared.SQLRequestPlanner
			sp, err = clickhouse_planner.Plan(script, c.Ctx.Finalize)
			if err != nil {
				kind = "plan"
				return
			}
			pl = &plan{p: sp}
		case "traceql":
			var script *traceql_parser.TraceQLScript
			script, err = traceql_parser.Parse(c.Query)
			if err != nil {
				kind = "parse"
				return
			}
			var sp shared.SQLRequestPlanner
			switch c.Mode {
			case "tags":
				sp, err = clickhouse_transpiler.PlanTagsV2(script)
			case "values":
				sp, err = clickhouse_transpiler.PlanValuesV2(script, "k")
			case "eval":
				sp, err = clickhouse_transpiler.PlanEval(script)
			default:
				sp, err = clickhouse_transpiler.Plan(script)
			}
			if err != nil {
				kind = "plan"
				return
			}
			pl = &plan{p: sp}
		case "prof":
			var script *prof_parser.Script
			script, err = prof_parser.Parse(c.Query)
			if err != nil {
				kind = "parse"
				return
			}
			tid := &prof_shared.TypeId{Tp: "process_cpu", SampleType: "cpu", SampleUnit: "nanoseconds", PeriodType: "cpu", PeriodUnit: "nanoseconds"}
			var sp shared.SQLRequestPlanner
			var sels []ProfSel
			for _, sl := range script.Selectors {
				v, uerr := sl.Val.Unquote()
				if uerr != nil {
					kind, err = "parse", uerr
					return
				}
				ps := ProfSel{Name: sl.Name, Op: sl.Op, Val: hx.Hex(v)}
				if mt, ok := map[string]labels.MatchType{"=": labels.MatchEqual, "!=": labels.MatchNotEqual, "=~": labels.MatchRegexp, "!~": labels.MatchNotRegexp}[sl.Op]; ok {
					if pm, merr := labels.NewMatcher(mt, sl.Name, v); merr == nil {
						ps.E = pm.Matches("")
					}
				}
				sels = append(sels, ps)
			}
			switch c.Mode {
			case "selector": // the bare fingerprint selection every profile request starts with
				sp = &prof_transpiler.StreamSelectorPlanner{Selectors: script.Selectors}
			case "label_names":
				sp, err = prof_transpiler.PlanLabelNames([]*prof_parser.Script{script})
			case "label_names_all":
				sp, err = prof_transpiler.PlanLabelNames(nil)
			case "label_names2", "series2":
				var second *prof_parser.Script
				second, err = prof_parser.Parse(`{job="x2"}`)
				if err != nil {
					kind = "parse"
					return
				}
				if c.Mode == "series2" {
					sp, err = prof_transpiler.PlanSeries([]*prof_parser.Script{script, second}, nil)
				} else {
					sp, err = prof_transpiler.PlanLabelNames([]*prof_parser.Script{script, second})
				}
			case "series_all":
				sp, err = prof_transpiler.PlanSeries(nil, []string{"a"})
			case "select_series_avg":
				sp, err = prof_transpiler.PlanSelectSeries(script, tid, nil, v1.TimeSeriesAggregationType_TIME_SERIES_AGGREGATION_TYPE_AVERAGE, 60)
			case "label_values":
				sp, err = prof_transpiler.PlanLabelValues([]*prof_parser.Script{script}, "job")
			case "merge_traces":
				sp, err = prof_transpiler.PlanMergeTraces(script, tid)
			case "select_series":
				sp, err = prof_transpiler.PlanSelectSeries(script, tid, []string{"a", "job"}, v1.TimeSeriesAggregationType_TIME_SERIES_AGGREGATION_TYPE_SUM, 15)
			case "merge_profiles":
				sp, err = prof_transpiler.PlanMergeProfiles(script, tid)
			case "analyze":
				sp, err = prof_transpiler.PlanAnalyzeQuery(script)
			default:
				sp, err = prof_transpiler.PlanSeries([]*prof_parser.Script{script}, []string{"a"})
			}
			if err != nil {
				kind = "plan"
				return
			}
			pl = &plan{p: sp, sels: sels}
		default:
			kind, err = "plan", fmt.Errorf("unknown language %q", c.Lang)
		}
	})
	if p != "" {
		return nil, "plan", fmt.Errorf("panic: %s", p)
	}
	return
}

func text(c *Case, pl *plan, pc *shared.PlannerContext) string {
	var out string
	p := hx.Catch(func() {
		sel, err := pl.p.Process(pc)
		if err != nil {
			out = "!process: " + err.Error()
			return
		}
		var opts []int
		if c.Ctx.Cluster && c.Lang == "logql" {
			opts = []int{sql.STRING_OPT_INLINE_WITH}
		}
		s, err := sel.String(&sql.Ctx{Params: map[string]sql.SQLObject{}, Result: map[string]sql.SQLObject{}}, opts...)
		if err != nil {
			out = "!string: " + err.Error()
			return
		}
		out = s
	})
	if p != "" {
		return "!panic: " + p
	}
	return out
}

// one plan object, a new context per call
func runTail(c *Case) []string {
	pl, _, err := build(c)
	if err != nil {
		return nil
	}
	var res []string
	if c.Lang == "traceql" { // ComplexRequestProcessor keeps ONE ctx and rewrites its fields per portion
		pc := mkCtx(c, c.Windows[0], 0)
		for i, w := range c.Windows {
			pc.From, pc.To = time.Unix(0, w[0]), time.Unix(0, w[1])
			setPortion(pc, c, i)
			res = append(res, text(c, pl, pc))
		}
		return res
	}
	for i, w := range c.Windows {
		res = append(res, text(c, pl, mkCtx(c, w, i)))
	}
	return res
}

// one plan object, one context whose window is moved
func runReuse(c *Case) []string {
	pl, _, err := build(c)
	if err != nil {
		return nil
	}
	var res []string
	pc := mkCtx(c, c.Windows[0], 0)
	for i, w := range c.Windows {
		pc.From, pc.To = time.Unix(0, w[0]), time.Unix(0, w[1])
		if c.Lang == "traceql" {
			setPortion(pc, c, i)
		}
		res = append(res, text(c, pl, pc))
	}
	return res
}

// a new plan object and a new context per window
func runFresh(c *Case) []string {
	var res []string
	for i, w := range c.Windows {
		pl, kind, err := build(c)
		if err != nil {
			res = append(res, "!"+kind+": "+err.Error())
			continue
		}
		res = append(res, text(c, pl, mkCtx(c, w, i)))
	}
	return res
}


// ---------------------------------------------------------------- top-level entry points

var sqlPlannerType = reflect.TypeOf((*shared.SQLRequestPlanner)(nil)).Elem()

func exported(v reflect.Value) reflect.Value {
	if v.CanInterface() {
		return v
	}
	if v.CanAddr() {
		return reflect.NewAt(v.Type(), unsafe.Pointer(v.UnsafeAddr())).Elem()
	}
	return v
}

// describe prints a processor chain: qryn structs with all their fields, everything else by type name;
// the outermost SQL planner met on the way is replaced by the statement it renders for pc
func describe(c *Case, v reflect.Value, pc func() *shared.PlannerContext, seen map[uintptr]bool, depth int, b *strings.Builder) {
	if depth > 40 {
		b.WriteString("<deep>")
		return
	}
	if !v.IsValid() {
		b.WriteString("nil")
		return
	}
	v = exported(v)
	if (v.Kind() == reflect.Interface || v.Kind() == reflect.Ptr) && !v.IsNil() && v.Type().Implements(sqlPlannerType) && v.CanInterface() {
		if sp, ok := v.Interface().(shared.SQLRequestPlanner); ok && sp != nil {
			b.WriteString("SQL{" + text(c, &plan{p: sp}, pc()) + "}")
			return
		}
	}
	switch v.Kind() {
	case reflect.Interface:
		if v.IsNil() {
			b.WriteString("nil")
			return
		}
		describe(c, v.Elem(), pc, seen, depth+1, b)
	case reflect.Ptr:
		if v.IsNil() {
			b.WriteString("nil")
			return
		}
		if seen[v.Pointer()] {
			b.WriteString("<cycle>")
			return
		}
		seen[v.Pointer()] = true
		b.WriteString("&")
		describe(c, v.Elem(), pc, seen, depth+1, b)
		delete(seen, v.Pointer())
	case reflect.Struct:
		t := v.Type()
		b.WriteString(t.String())
		if !strings.HasPrefix(t.PkgPath(), "github.com/metrico/qryn") {
			return
		}
		b.WriteString("{")
		for i := 0; i < v.NumField(); i++ {
			if i > 0 {
				b.WriteString(" ")
			}
			b.WriteString(t.Field(i).Name + ":")
			describe(c, v.Field(i), pc, seen, depth+1, b)
		}
		b.WriteString("}")
	case reflect.Slice, reflect.Array:
		if v.Kind() == reflect.Slice && v.IsNil() {
			b.WriteString("nil")
			return
		}
		b.WriteString("[")
		for i := 0; i < v.Len(); i++ {
			if i > 0 {
				b.WriteString(" ")
			}
			describe(c, v.Index(i), pc, seen, depth+1, b)
		}
		b.WriteString("]")
	case reflect.Map:
		var parts []string
		it := v.MapRange()
		for it.Next() {
			var kb, vb strings.Builder
			describe(c, it.Key(), pc, seen, depth+1, &kb)
			describe(c, it.Value(), pc, seen, depth+1, &vb)
			parts = append(parts, kb.String()+":"+vb.String())
		}
		sort.Strings(parts)
		b.WriteString("map[" + strings.Join(parts, " ") + "]")
	case reflect.String:
		b.WriteString(fmt.Sprintf("%q", v.String()))
	case reflect.Bool:
		b.WriteString(fmt.Sprint(v.Bool()))
	case reflect.Int, reflect.Int8, reflect.Int16, reflect.Int32, reflect.Int64:
		b.WriteString(fmt.Sprint(v.Int()))
	case reflect.Uint, reflect.Uint8, reflect.Uint16, reflect.Uint32, reflect.Uint64, reflect.Uintptr:
		b.WriteString(fmt.Sprint(v.Uint()))
	case reflect.Float32, reflect.Float64:
		b.WriteString(fmt.Sprint(v.Float()))
	case reflect.Func:
		if v.IsNil() {
			b.WriteString("nil")
		} else {
			b.WriteString("func")
		}
	default:
		b.WriteString(v.Type().String())
	}
}

// one translation of the query TEXT through the entry point the services call
func runTop(c *Case) string {
	var out string
	p := hx.Catch(func() {
		var root interface{}
		var err error
		switch c.Lang {
		case "logql":
			root, err = logql_transpiler_v2.Transpile(c.Query)
		case "traceql":
			var script *traceql_parser.TraceQLScript
			script, err = traceql_parser.Parse(c.Query)
			if err == nil {
				switch c.Mode {
				case "tags":
					root, err = traceql_transpiler.PlanTagsV2(script)
				case "values":
					root, err = traceql_transpiler.PlanValuesV2(script, "k")
				default:
					root, err = traceql_transpiler.Plan(script)
				}
			}
		default:
			var pl *plan
			pl, _, err = build(c)
			if err == nil {
				root = pl.p
			}
		}
		if err != nil {
			out = "!transpile: " + err.Error()
			return
		}
		var b strings.Builder
		describe(c, reflect.ValueOf(root), func() *shared.PlannerContext { return mkCtx(c, c.Windows[0], 0) }, map[uintptr]bool{}, 0, &b)
		out = b.String()
	})
	if p != "" {
		return "!panic: " + p
	}
	return out
}

func run(c *Case) {
	c.Tail, c.Reuse, c.Fresh, c.Fresh2, c.Conc, c.Top, c.Err = nil, nil, nil, nil, nil, nil, ""
	if len(c.Windows) == 0 {
		c.Windows = [][2]int64{{c.Ctx.FromNs, c.Ctx.ToNs}}
	}
	c.Top = []string{runTop(c)}
	pc0 := mkCtx(c, c.Windows[0], 0)
	c.ProfGin = pc0.ProfilesSeriesGinTable
	if c.Lang == "prof" {
		c.ProfTables = []string{pc0.ProfilesSeriesGinTable, pc0.ProfilesSeriesGinDistTable, pc0.ProfilesSeriesTable, pc0.ProfilesSeriesDistTable, pc0.ProfilesDistTable}
	}
	pl0, kind, err := build(c)
	if err != nil {
		c.Err = kind + ": " + err.Error()
		return
	}
	c.ProfSels = pl0.sels
	if c.Lang == "traceql" {
		c.TqCalls = tqCalls(c)
	}
	c.Fresh = runFresh(c)
	c.Tail = runTail(c)
	c.Reuse = runReuse(c)
}

// 16 goroutines translate every case (new plans) in shuffled orders at the same time
func soak(cases []*Case, seed int64, workers int, share int) {
	res := make([][][]string, workers)
	tops := make([][]string, workers)
	var wg sync.WaitGroup
	for w := 0; w < workers; w++ {
		wg.Add(1)
		go func(w int) {
			defer wg.Done()
			r := rand.New(rand.NewSource(seed + int64(w)*7919))
			order := r.Perm(len(cases))
			res[w] = make([][]string, len(cases))
			tops[w] = make([]string, len(cases))
			for _, i := range order {
				if (i+w)%share == 0 {
					tops[w][i] = runTop(cases[i])
				}
				if cases[i].Err != "" || (i+w)%share != 0 { // every case is translated by workers/share goroutines
					continue
				}
				if tailWorker(w, share) { // half of them re-execute one plan object, the others plan afresh
					res[w][i] = runTail(cases[i])
				} else {
					res[w][i] = runFresh(cases[i])
				}
			}
		}(w)
	}
	wg.Wait()
	// record, per case, the first result that differs from the sequential one (or the sequential one)
	for i, c := range cases {
		ct := c.Top[0]
		for w := 0; w < workers; w++ {
			if (i+w)%share == 0 && tops[w][i] != c.Top[0] {
				ct = tops[w][i]
				break
			}
		}
		c.Top = append(c.Top, ct)
		if c.Err != "" {
			continue
		}
		c.Conc = c.Fresh
		for w := 0; w < workers; w++ {
			if (i+w)%share != 0 {
				continue
			}
			want := c.Fresh
			if tailWorker(w, share) {
				want = c.Tail
			}
			if !same(res[w][i], want) {
				c.Conc = res[w][i]
				if c.Conc == nil {
					c.Conc = []string{}
				}
				break
			}
		}
	}
}

func tailWorker(w, share int) bool { return (w/share)%2 == 0 }

func same(a, b []string) bool {
	if len(a) != len(b) {
		return false
	}
	for i := range a {
		if a[i] != b[i] {
			return false
		}
	}
	return true
}

// ---------------------------------------------------------------- generators (TraceQL, profile selectors, LogQL metric wrappers)
func pick(r *rand.Rand, xs []string) string { return xs[r.Intn(len(xs))] }

var tqKeys = []string{"a", "b", "http.status", "svc_1", "span.x", ".y", "resource.z"}
var tqStr = []string{"v", "w", "it's", "GET", "200", `a\b`}
var tqNum = []string{"0", "1", "200", "3.5", "-1"}
var tqDur = []string{"1s", "5ms", "2m", "1.5s"}

func tqLabel(r *rand.Rand) string {
	k := pick(r, tqKeys)
	switch r.Intn(8) {
	case 0, 1, 2:
		return "span." + k
	case 3, 4:
		return "resource." + k
	case 5, 6:
		return "." + k
	}
	return "name"
}

func tqTerm(r *rand.Rand) string {
	switch r.Intn(5) {
	case 0:
		return "duration " + pick(r, []string{">", "<", ">=", "<=", "=", "!="}) + " " + pick(r, tqDur)
	case 1, 2:
		return tqLabel(r) + " " + pick(r, []string{"=", "!=", "=~", "!~"}) + fmt.Sprintf(" %q", pick(r, tqStr))
	default:
		return tqLabel(r) + " " + pick(r, []string{"=", "!=", ">", "<", ">=", "<="}) + " " + pick(r, tqNum)
	}
}

func tqSelector(r *rand.Rand, class *[]string) string {
	n := 1 + r.Intn(3)
	var ts []string
	for i := 0; i < n; i++ {
		ts = append(ts, tqTerm(r))
	}
	s := "{" + strings.Join(ts, pick(r, []string{" && ", " || "})) + "}"
	if r.Intn(2) == 0 {
		fn := pick(r, []string{"count", "sum", "min", "max", "avg"})
		attr, cmp := "", pick(r, tqNum)
		if fn != "count" {
			if r.Intn(4) == 0 {
				attr, cmp = "duration", pick(r, tqDur)
			} else {
				attr = tqLabel(r)
				if attr == "name" {
					attr = ".a"
				}
			}
		}
		s += " | " + fn + "(" + attr + ") " + pick(r, []string{">", "<", ">=", "=", "!="}) + " " + cmp
		*class = append(*class, "agg")
	}
	return s
}

func genTraceQL(r *rand.Rand) (string, []string) {
	var class []string
	q := tqSelector(r, &class)
	for n := r.Intn(3); n > 0; n-- {
		q += pick(r, []string{" && ", " || "}) + tqSelector(r, &class)
		class = append(class, "complex")
	}
	return q, class
}

var profVals = []string{"b", "api", "it's", "a.*", "x|y", "", "foo bar", `q\"t`}

func genProf(r *rand.Rand) string {
	n := 1 + r.Intn(3)
	var ms []string
	for i := 0; i < n; i++ {
		v := pick(r, profVals)
		if v == "" || r.Intn(3) > 0 {
			ms = append(ms, pick(r, []string{"a", "job", "service_name", "_x1"})+pick(r, []string{"=", "!=", "=~", "!~"})+`"`+v+`"`)
		} else if !strings.ContainsAny(v, "`") {
			ms = append(ms, pick(r, []string{"a", "job"})+pick(r, []string{"=", "!="})+"`"+v+"`")
		}
	}
	if len(ms) == 0 {
		ms = []string{`a="b"`}
	}
	return "{" + strings.Join(ms, pick(r, []string{",", ", "})) + "}"
}

var logSel = []string{`{a="b"}`, `{job=~"api.*",level!="debug"}`, `{a="b"} |= "err"`, `{a="b"} |~ "a\\.b"`, `{a="b"} !~ "(?i)abc"`,
	`{a="b"} | level="error"`, `{a="b"} | json x="x"`, `{a="b"} | level="error" | json x="x" | x="1"`, `{a="b"} | json | x="1"`,
	`{a="b"} | logfmt`, `{a="b"} | regexp "(?P<m>\\w+)"`, `{a="b"} | line_format "{{.a}}"`, `{a="b"} | drop a`, `{a="b"} | level="x" | drop level`}
// a breakpoint stage (json without parameters, logfmt, line_format) preceded by stages that stay in ClickHouse:
// logql_transpiler_v2.Plan splits the script there
func breakSel(r *rand.Rand) string {
	pre := []string{` |= "` + pick(r, []string{"err", "error", "x y", "GET"}) + `"`, ` != "debug"`, ` |~ "a\\.b"`, ` !~ "(?i)abc"`,
		` | level="` + pick(r, []string{"error", "warn"}) + `"`, ` | json x="x"`, ` | drop a`}
	q := `{` + pick(r, []string{"a", "app", "job"}) + `="` + pick(r, []string{"b", "shop", "api"}) + `"}`
	for n := 1 + r.Intn(3); n > 0; n-- {
		q += pick(r, pre)
	}
	q += pick(r, []string{" | json", " | logfmt", ` | line_format "{{.a}}"`, ` | json | x="1"`, ` | logfmt | line_format "{{.msg}}"`})
	return q
}

var unwrapSel = []string{`{a="b"} | unwrap v`, `{a="b"} | json x="x" | unwrap x`, `{a="b"} | level="error" | unwrap v`, `{a="b"} | logfmt | unwrap dur`}

func genLogQLMetric(r *rand.Rand) (string, []string) {
	dur := pick(r, []string{"1m", "5m", "30s", "1h"})
	class := []string{"metric"}
	var q string
	switch r.Intn(4) {
	case 0:
		q = pick(r, []string{"rate", "count_over_time", "bytes_rate", "bytes_over_time", "absent_over_time"}) + "(" + pick(r, logSel) + "[" + dur + "])"
	case 1:
		q = pick(r, []string{"sum_over_time", "avg_over_time", "max_over_time", "min_over_time", "first_over_time", "last_over_time", "rate"}) +
			"(" + pick(r, unwrapSel) + " [" + dur + "])" + pick(r, []string{"", " by (a)", " without (a)"})
		class = append(class, "unwrap")
	case 2:
		q = "quantile_over_time(0.5, " + pick(r, unwrapSel) + " [" + dur + "])" + pick(r, []string{"", " by (a)"})
		class = append(class, "quantile")
	default:
		q = "rate(" + pick(r, logSel) + "[" + dur + "])"
	}
	if r.Intn(2) == 0 {
		q = pick(r, []string{"sum", "min", "max", "avg", "count"}) + pick(r, []string{"", " by (a)", " without (job)", " by (a, job)"}) + " (" + q + ")"
		class = append(class, "agg")
	}
	if r.Intn(4) == 0 {
		q = pick(r, []string{"topk", "bottomk"}) + "(3, " + q + ")"
		class = append(class, "topk")
	}
	if r.Intn(4) == 0 {
		q += " " + pick(r, []string{">", "<", "==", "!="}) + " " + pick(r, []string{"1", "0.5", "100"})
		class = append(class, "cmp")
	}
	return q, class
}

// windows: k executions; mostly one second apart (live tail), sometimes across the FormatFromDate day boundary
func genWindows(r *rand.Rand, k int) [][2]int64 {
	from := int64(1700000000)*1e9 + int64(r.Intn(4*86400))*1e9 + int64(r.Intn(2))*int64(r.Intn(1e9))
	step := int64(1e9)
	switch r.Intn(4) {
	case 0: // the date bound changes between two executions (from - 30 min crosses midnight UTC)
		day := int64(19700 + r.Intn(30))
		from = (day*86400+1800)*1e9 - int64(1+r.Intn(k))*1e9 + int64(r.Intn(2))*5e8
	case 1:
		step = int64(1+r.Intn(3600)) * 1e9
	}
	width := int64(1+r.Intn(7200)) * 1e9
	var ws [][2]int64
	for i := 0; i < k; i++ {
		ws = append(ws, [2]int64{from + int64(i)*step, from + int64(i)*step + width})
	}
	return ws
}

func generate(seed int64, n int) []*Case {
	r := hx.Rand(seed)
	var cases []*Case
	for i := 0; i < n; i++ {
		c := &Case{ID: i}
		mixed := false
		switch x := r.Intn(10); {
		case x < 4:
			c.Lang = "logql"
			if k := r.Intn(6); k < 2 {
				c.Query = pick(r, logSel)
				c.Class = []string{"log"}
			} else if k == 2 {
				c.Query = breakSel(r)
				c.Class = []string{"log", "breakpoint"}
				switch r.Intn(4) {
				case 0:
					c.Query = pick(r, []string{"rate", "count_over_time", "absent_over_time"}) + "(" + c.Query + " [5m])"
					c.Class = []string{"metric", "breakpoint"}
				case 1:
					c.Query = "absent_over_time(" + strings.SplitN(c.Query, " | json", 2)[0] + " [5m])"
					c.Class = []string{"metric", "breakpoint"}
				}
			} else {
				c.Query, c.Class = genLogQLMetric(r)
			}
		case x < 8:
			c.Lang = "traceql"
			c.Query, c.Class = genTraceQL(r)
			c.Mode = []string{"plan", "plan", "plan", "tags", "values", "eval"}[r.Intn(6)]
			mixed = hx.Rand(seed*131 + int64(i)).Intn(2) == 0
		default:
			c.Lang = "prof"
			c.Query = genProf(r)
			c.Mode = []string{"selector", "selector", "label_names", "label_values", "merge_traces", "select_series", "merge_profiles", "analyze", "series"}[r.Intn(9)]
			if rm := hx.Rand(seed*977 + int64(i)); rm.Intn(3) == 0 {
				c.Mode = []string{"label_names_all", "label_names2", "series2", "series_all", "select_series_avg"}[rm.Intn(5)]
			}
		}
		k := 1 + r.Intn(5)
		c.Windows = genWindows(r, k)
		c.Ctx = Ctx{FromNs: c.Windows[0][0], ToNs: c.Windows[0][1], Limit: []int64{0, 1, 100, 5000}[r.Intn(4)], Asc: r.Intn(2) == 0,
			Cluster: r.Intn(4) == 0, Type: []uint8{0, 1, 1, 2}[r.Intn(4)], Finalize: r.Intn(5) != 0, StepMs: []int64{1000, 15000, 60000}[r.Intn(3)]}
		if c.Lang == "traceql" && c.Ctx.Limit == 0 {
			c.Ctx.Limit = 20
		}
		if mixed {
			// one prepared plan meets plain executions and portions of a complex request in any order
			rs := hx.Rand(seed*131 + int64(i) + 7)
			if len(c.Windows) < 2 {
				c.Windows = genWindows(rs, 2+rs.Intn(3))
			}
			for range c.Windows {
				c.Sched = append(c.Sched, []int{0, 1, 1, 2}[rs.Intn(4)])
			}
			c.Class = append(c.Class, "mixed-contexts")
		}
		cases = append(cases, c)
	}
	return cases
}

func main() {
	share := flag.Int("soak-share", 1, "each case is translated by 16/share of the 16 soak goroutines (1, 2 or 4)")
	fixp := flag.Bool("fixperiod", false, "print the windows one FixPeriodPlanner hands down when executed again under one context / fresh contexts, and exit")
	f := hx.ParseFlags()
	out := hx.OpenOut(f.Out)
	defer out.Close()
	if *fixp {
		out.Put(fixPeriod())
		for _, c := range fixCases(f.Seed, f.N) {
			out.Put(c)
		}
		return
	}
	var cases []*Case
	if f.Cases != "" {
		hx.ReadLines(f.Cases, func(b []byte) {
			c := &Case{}
			if err := json.Unmarshal(b, c); err != nil {
				panic(err)
			}
			if c.Lang == "" {
				c.Lang = "logql"
			}
			cases = append(cases, c)
		})
	} else {
		cases = generate(f.Seed, f.N)
	}
	for _, c := range cases {
		run(c)
	}
	// history independence: translate everything again, last case first
	for i := len(cases) - 1; i >= 0; i-- {
		cases[i].Top = append(cases[i].Top, runTop(cases[i]))
		if cases[i].Err == "" {
			cases[i].Fresh2 = runFresh(cases[i])
		}
	}
	soak(cases, f.Seed, 16, *share)
	for _, c := range cases {
		out.Put(c)
	}
}
