package main

// TraceQL: the context of every execution of a case in the shape C11's model takes (TraceqlPlan.ctx), so that the check can
// compare the statement of the n-th Process call on ONE real plan object with TraceqlPlan.plan q mode ctx_n n.

import (
	"github.com/metrico/qryn/reader/logql/logql_transpiler_v2/clickhouse_planner"
)

type TqCall struct {
	FromNs    int64    `json:"from_ns"`
	ToNs      int64    `json:"to_ns"`
	Limit     int64    `json:"limit"`
	IsCluster bool     `json:"is_cluster"`
	RfMax     int      `json:"rf_max"`
	RfI       int      `json:"rf_i"`
	Cached    []string `json:"cached"`
	FromDate  string   `json:"from_date"`
	ToDate    string   `json:"to_date"`
	FfdFrom   string   `json:"ffd_from"`
	FfdTo     string   `json:"ffd_to"`
	// attrs, attrs dist, traces, traces dist, kv dist
	Tables []string `json:"tables"`
}

func tqCalls(c *Case) []TqCall {
	var res []TqCall
	for i, w := range c.Windows {
		pc := mkCtx(c, w, i)
		res = append(res, TqCall{
			FromNs: pc.From.UnixNano(), ToNs: pc.To.UnixNano(), Limit: pc.Limit, IsCluster: pc.IsCluster,
			RfMax: pc.RandomFilter.Max, RfI: pc.RandomFilter.I, Cached: pc.CachedTraceIds,
			FromDate: pc.From.Format("2006-01-02"), ToDate: pc.To.Format("2006-01-02"),
			FfdFrom: clickhouse_planner.FormatFromDate(pc.From), FfdTo: clickhouse_planner.FormatFromDate(pc.To),
			Tables: []string{pc.TracesAttrsTable, pc.TracesAttrsDistTable, pc.TracesTable, pc.TracesDistTable, pc.TracesKVDistTable},
		})
	}
	return res
}
