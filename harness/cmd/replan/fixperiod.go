package main

// FixPeriodPlanner (the post-processor of every matrix query) rewrites the From/To of the PlannerContext it is handed:
// From is rounded down to a multiple of the range (idempotent), To is rounded down and moved up by one range (NOT idempotent).
// `--fixperiod` executes one FixPeriodPlanner twice under ONE context and twice under fresh contexts and prints the window the
// inner processor saw each time. No entry point of the reader executes a matrix chain twice under one context (Tail is refused
// for matrix queries, QueryRange/QueryInstant build a context per request): the observation is recorded, not judged.

import (
	"time"

	logql_transpiler_v2 "github.com/metrico/qryn/reader/logql/logql_transpiler_v2"
	"github.com/metrico/qryn/reader/logql/logql_transpiler_v2/shared"
)

type windowRecorder struct{ seen [][2]int64 }

func (w *windowRecorder) IsMatrix() bool { return true }
func (w *windowRecorder) Process(ctx *shared.PlannerContext, in chan []shared.LogEntry) (chan []shared.LogEntry, error) {
	w.seen = append(w.seen, [2]int64{ctx.From.UnixNano(), ctx.To.UnixNano()})
	out := make(chan []shared.LogEntry)
	close(out)
	return out, nil
}

type FixPeriodObs struct {
	RangeNs    int64      `json:"range_ns"`
	Window     [2]int64   `json:"window"`         // execution i runs on this window moved by i hours (fresh contexts)
	OneContext [][2]int64 `json:"one_context"`    // what Main saw in execution 1, 2, 3 under ONE context
	Fresh      [][2]int64 `json:"fresh_contexts"` // ... under a new context per execution
}

func fixPeriod() FixPeriodObs {
	d := 5 * time.Minute
	from, to := int64(1700000123)*1e9, int64(1700003723)*1e9
	mk := func(i int) *shared.PlannerContext {
		sh := int64(i) * int64(time.Hour)
		return &shared.PlannerContext{From: time.Unix(0, from+sh), To: time.Unix(0, to+sh), Step: 15 * time.Second}
	}
	drain := func(ch chan []shared.LogEntry, err error) {
		if err == nil {
			for range ch {
			}
		}
	}
	one := &windowRecorder{}
	p := &logql_transpiler_v2.FixPeriodPlanner{Main: one, Duration: d}
	pc := mk(0)
	for i := 0; i < 3; i++ {
		drain(p.Process(pc, nil))
	}
	fresh := &windowRecorder{}
	p2 := &logql_transpiler_v2.FixPeriodPlanner{Main: fresh, Duration: d}
	for i := 0; i < 3; i++ {
		drain(p2.Process(mk(i), nil))
	}
	return FixPeriodObs{RangeNs: d.Nanoseconds(), Window: [2]int64{from, to}, OneContext: one.seen, Fresh: fresh.seen}
}
