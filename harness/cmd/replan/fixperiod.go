package main

// FixPeriodPlanner (the post-processor of every matrix query) rewrites the From/To of the PlannerContext it is handed:
// From is rounded down to a multiple of the range (idempotent), To is rounded down and moved up by one range (NOT idempotent).
// `--fixperiod` executes one FixPeriodPlanner twice under ONE context and twice under fresh contexts and prints the window the
// inner processor saw each time. No entry point of the reader executes a matrix chain twice under one context (Tail is refused
// for matrix queries, QueryRange/QueryInstant build a context per request): the observation is recorded, not judged.

import (
	"math/rand"
	"time"

	logql_transpiler_v2 "github.com/metrico/qryn/reader/logql/logql_transpiler_v2"
	"github.com/metrico/qryn/reader/logql/logql_transpiler_v2/shared"
)

type windowRecorder struct{ seen [][2]int64 }

func (w *windowRecorder) IsMatrix() bool { return true }
func (w *windowRecorder) Process(ctx *shared.PlannerContext, in chan []shared.LogEntry) (chan []shared.LogEntry, error) {
	w.seen = append(w.seen, [2]int64{ctx.From.UnixNano(), ctx.To.UnixNano()})
	out := make(chan []shared.LogEntry)
	close(out)
	return out, nil
}

type FixPeriodObs struct {
	RangeNs    int64      `json:"range_ns"`
	Window     [2]int64   `json:"window"`         // execution i runs on this window moved by i hours (fresh contexts)
	OneContext [][2]int64 `json:"one_context"`    // what Main saw in execution 1, 2, 3 under ONE context
	Fresh      [][2]int64 `json:"fresh_contexts"` // ... under a new context per execution
}

func fixPeriod() FixPeriodObs {
	d := 5 * time.Minute
	from, to := int64(1700000123)*1e9, int64(1700003723)*1e9
	mk := func(i int) *shared.PlannerContext {
		sh := int64(i) * int64(time.Hour)
		return &shared.PlannerContext{From: time.Unix(0, from+sh), To: time.Unix(0, to+sh), Step: 15 * time.Second}
	}
	drain := func(ch chan []shared.LogEntry, err error) {
		if err == nil {
			for range ch {
			}
		}
	}
	one := &windowRecorder{}
	p := &logql_transpiler_v2.FixPeriodPlanner{Main: one, Duration: d}
	pc := mk(0)
	for i := 0; i < 3; i++ {
		drain(p.Process(pc, nil))
	}
	fresh := &windowRecorder{}
	p2 := &logql_transpiler_v2.FixPeriodPlanner{Main: fresh, Duration: d}
	for i := 0; i < 3; i++ {
		drain(p2.Process(mk(i), nil))
	}
	return FixPeriodObs{RangeNs: d.Nanoseconds(), Window: [2]int64{from, to}, OneContext: one.seen, Fresh: fresh.seen}
}

// ---- generated cases for the in-Coq comparison with model/ReplanFix.v (round 8) ----
// One real FixPeriodPlanner object per case over a window recorder: K executions under ONE context object, then the same object
// again under a NEW context per execution. Per execution: the window Main saw (nil: Main not called = refused) and the From/To
// of the caller's context after the call.

type FixExec struct {
	Seen  *[2]int64 `json:"seen"`
	After [2]int64  `json:"after"`
}

type FixCase struct {
	Id        int64      `json:"id"`
	RangeNs   int64      `json:"range_ns"`
	Ctx       [3]int64   `json:"ctx"` // from, to, step (ns)
	K         int        `json:"k"`
	One       []FixExec  `json:"one"`
	FreshCtxs [][3]int64 `json:"fresh_ctxs"`
	Fresh     []FixExec  `json:"fresh"`
	Class     []string   `json:"class"`
}

func fixExec(p *logql_transpiler_v2.FixPeriodPlanner, rec *windowRecorder, pc *shared.PlannerContext) FixExec {
	n := len(rec.seen)
	ch, err := p.Process(pc, nil)
	if err == nil {
		for range ch {
		}
	}
	e := FixExec{After: [2]int64{pc.From.UnixNano(), pc.To.UnixNano()}}
	if len(rec.seen) > n {
		w := rec.seen[len(rec.seen)-1]
		e.Seen = &w
	}
	if (err != nil) != (e.Seen == nil) {
		panic("FixPeriodPlanner: error and Main call disagree")
	}
	return e
}

func fixCases(seed int64, n int) []FixCase {
	rnd := rand.New(rand.NewSource(seed*31 + 8))
	sec := int64(time.Second)
	pick := func(xs ...int64) int64 { return xs[rnd.Intn(len(xs))] }
	var out []FixCase
	for i := 0; i < n; i++ {
		c := FixCase{Id: int64(i)}
		d := pick(sec, 7*sec, 15*sec, 60*sec, 300*sec, 3600*sec, 86400*sec, 1+rnd.Int63n(1e12), 1+rnd.Int63n(1e4))
		step := pick(sec, 15*sec, 60*sec, 1+rnd.Int63n(1e11), sec, 15*sec)
		var from int64
		switch rnd.Intn(8) {
		case 0:
			from = rnd.Int63n(1e12)
			c.Class = append(c.Class, "near-epoch")
		case 1:
			from = -rnd.Int63n(1e15)
			c.Class = append(c.Class, "before-1970")
		case 2:
			from = (1700000000*sec + rnd.Int63n(1e15)) / d * d
			c.Class = append(c.Class, "from-on-grid")
		default:
			from = 1700000000*sec + rnd.Int63n(1e15) - 5e14
		}
		var span int64
		switch rnd.Intn(10) {
		case 0:
			span = -1 - rnd.Int63n(3600*sec)
			c.Class = append(c.Class, "to-before-from")
		case 1:
			span = 0
			c.Class = append(c.Class, "empty-window")
		case 2:
			span = 11000*step + rnd.Int63n(2*step+1) - step // around the 11000 points guard
			c.Class = append(c.Class, "at-guard")
		case 3:
			span = 11000*step - rnd.Int63n(3*d+1) // accepted first, refused after the drift
			if span < 0 {
				span = 0
			}
			c.Class = append(c.Class, "drifts-into-guard")
		case 4:
			span = rnd.Int63n(1e17)
		default:
			span = rnd.Int63n(11000*step + 1)
		}
		switch rnd.Intn(12) {
		case 0:
			step = 0
			c.Class = append(c.Class, "step-0")
		case 1:
			step = -step
			c.Class = append(c.Class, "step-negative")
		}
		to := from + span
		if (to/d*d+d)%d != 0 || from/d*d > from && from >= 0 {
			panic("generator")
		}
		c.RangeNs, c.Ctx, c.K = d, [3]int64{from, to, step}, 1+rnd.Intn(4)
		mk := func(x [3]int64) *shared.PlannerContext {
			return &shared.PlannerContext{From: time.Unix(0, x[0]), To: time.Unix(0, x[1]), Step: time.Duration(x[2])}
		}
		rec := &windowRecorder{}
		p := &logql_transpiler_v2.FixPeriodPlanner{Main: rec, Duration: time.Duration(d)}
		pc := mk(c.Ctx)
		for j := 0; j < c.K; j++ {
			c.One = append(c.One, fixExec(p, rec, pc))
		}
		// the same object (already executed K times) under a new context per execution
		for j, m := 0, 1+rnd.Intn(3); j < m; j++ {
			sh := int64(j) * pick(sec, 3600*sec, d, d/2+1)
			x := [3]int64{from + sh, to + sh, c.Ctx[2]}
			if j > 0 && rnd.Intn(4) == 0 {
				x = c.Ctx // the very window again
			}
			c.FreshCtxs = append(c.FreshCtxs, x)
			c.Fresh = append(c.Fresh, fixExec(p, rec, mk(x)))
		}
		accepted := 0
		for _, e := range c.One {
			if e.Seen != nil {
				accepted++
			}
		}
		switch {
		case accepted == 0:
			c.Class = append(c.Class, "refused")
		case accepted < c.K:
			c.Class = append(c.Class, "accepted-then-refused")
		case c.K > 1:
			c.Class = append(c.Class, "accepted-again")
		default:
			c.Class = append(c.Class, "accepted-once")
		}
		out = append(out, c)
	}
	return out
}
