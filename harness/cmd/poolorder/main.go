// poolorder: source-order obligation for C15. In the given directories of the repository, every
// value handed back to a pool (jsoniter ReturnStream / ReturnIterator, sync.Pool Put) outside a
// defer must not be used afterwards in the same function, and neither must a slice obtained from
// its Buffer() before: the pool owns that memory from then on and another request may be writing
// into it (a response writer blocked on a slow client still reads it).
// Usage: poolorder <dir>...   prints one JSON object {"sites":n,"deferred":n,"violations":[...]}.
package main

import (
	"encoding/json"
	"fmt"
	"go/ast"
	"go/parser"
	"go/token"
	"os"
	"path/filepath"
	"sort"
	"strings"
)

type Violation struct {
	File string `json:"file"`
	Line int    `json:"line"`
	Func string `json:"func"`
	What string `json:"what"`
}

var giveBack = map[string]bool{"ReturnStream": true, "ReturnIterator": true, "Put": true}

func main() {
	fset := token.NewFileSet()
	res := struct {
		Sites      int         `json:"sites"`
		Deferred   int         `json:"deferred"`
		Files      int         `json:"files"`
		Violations []Violation `json:"violations"`
	}{Violations: []Violation{}}
	for _, dir := range os.Args[1:] {
		names, _ := filepath.Glob(filepath.Join(dir, "*.go"))
		sort.Strings(names)
		for _, name := range names {
			if strings.HasSuffix(name, "_test.go") {
				continue
			}
			f, err := parser.ParseFile(fset, name, nil, 0)
			if err != nil {
				fmt.Fprintln(os.Stderr, err)
				os.Exit(2)
			}
			res.Files++
			for _, d := range f.Decls {
				fd, ok := d.(*ast.FuncDecl)
				if !ok || fd.Body == nil {
					continue
				}
				checkFunc(fset, name, fd, &res.Sites, &res.Deferred, &res.Violations)
			}
		}
	}
	b, _ := json.Marshal(res)
	fmt.Println(string(b))
}

type site struct {
	obj      *ast.Object
	name     string
	pos, end token.Pos
}

func checkFunc(fset *token.FileSet, file string, fd *ast.FuncDecl, nsites, ndeferred *int, out *[]Violation) {
	deferred := map[*ast.CallExpr]bool{}
	ast.Inspect(fd.Body, func(n ast.Node) bool {
		if d, ok := n.(*ast.DeferStmt); ok {
			deferred[d.Call] = true
		}
		return true
	})
	var lits []*ast.FuncLit
	var gos []*ast.GoStmt
	ast.Inspect(fd.Body, func(n ast.Node) bool {
		switch x := n.(type) {
		case *ast.FuncLit:
			lits = append(lits, x)
		case *ast.GoStmt:
			gos = append(gos, x)
		}
		return true
	})
	insideLit := func(p token.Pos) bool {
		for _, l := range lits {
			if l.Pos() <= p && p < l.End() {
				return true
			}
		}
		return false
	}
	var sites []site
	aliases := map[*ast.Object][]*ast.Object{} // pooled value -> variables holding its Buffer()
	assigns := map[*ast.Object][]token.Pos{}   // re-assignments (a fresh Borrow)
	ast.Inspect(fd.Body, func(n ast.Node) bool {
		switch x := n.(type) {
		case *ast.CallExpr:
			sel, ok := x.Fun.(*ast.SelectorExpr)
			if !ok || !giveBack[sel.Sel.Name] || len(x.Args) != 1 {
				return true
			}
			id, ok := x.Args[0].(*ast.Ident)
			if !ok || id.Obj == nil {
				return true
			}
			if deferred[x] {
				*ndeferred++
				// (added for C06, seeded change C06-g) a give-back deferred in the function itself runs when the function RETURNS: a goroutine the
				// function started and that uses the pooled value goes on using it afterwards
				if !insideLit(x.Pos()) {
					for _, g := range gos {
						ast.Inspect(g, func(m ast.Node) bool {
							if u, ok := m.(*ast.Ident); ok && u.Obj == id.Obj {
								*out = append(*out, Violation{File: file, Line: fset.Position(u.Pos()).Line, Func: fd.Name.Name,
									What: fmt.Sprintf("%s is used by a goroutine started at line %d, but is given back to the pool when %s returns (deferred at line %d)",
										id.Name, fset.Position(g.Pos()).Line, fd.Name.Name, fset.Position(x.Pos()).Line)})
								return false
							}
							return true
						})
					}
				}
				return true
			}
			*nsites++
			sites = append(sites, site{id.Obj, id.Name, x.Pos(), x.End()})
		case *ast.AssignStmt:
			for i, lhs := range x.Lhs {
				lid, ok := lhs.(*ast.Ident)
				if !ok || lid.Obj == nil {
					continue
				}
				if x.Tok == token.ASSIGN {
					assigns[lid.Obj] = append(assigns[lid.Obj], x.Pos())
				}
				if i < len(x.Rhs) || len(x.Rhs) == 1 {
					rhs := x.Rhs[0]
					if i < len(x.Rhs) {
						rhs = x.Rhs[i]
					}
					ast.Inspect(rhs, func(m ast.Node) bool {
						if c, ok := m.(*ast.CallExpr); ok {
							if s, ok := c.Fun.(*ast.SelectorExpr); ok && s.Sel.Name == "Buffer" {
								if v, ok := s.X.(*ast.Ident); ok && v.Obj != nil {
									aliases[v.Obj] = append(aliases[v.Obj], lid.Obj)
								}
							}
						}
						return true
					})
				}
			}
		}
		return true
	})
	for _, s := range sites {
		watch := map[*ast.Object]string{s.obj: s.name}
		for _, a := range aliases[s.obj] {
			if a.Pos() < s.pos {
				watch[a] = a.Name + " (= " + s.name + ".Buffer())"
			}
		}
		ast.Inspect(fd.Body, func(n ast.Node) bool {
			id, ok := n.(*ast.Ident)
			if !ok || id.Obj == nil || id.Pos() <= s.end {
				return true
			}
			what, ok := watch[id.Obj]
			if !ok {
				return true
			}
			for _, p := range assigns[s.obj] { // borrowed afresh in between
				if p > s.end && p <= id.Pos() {
					return true
				}
			}
			*out = append(*out, Violation{File: file, Line: fset.Position(id.Pos()).Line, Func: fd.Name.Name,
				What: fmt.Sprintf("%s is used after it was given back to the pool at line %d", what, fset.Position(s.pos).Line)})
			return true
		})
	}
}
