package main

// Bodies whose reader fails part-way (property C03: no 2xx with a prefix of the rows). The wire bytes of a well-formed
// body are wrapped the way WithOverallContextMiddleware wraps a request body -- gzip.NewReader / snappy.NewReader for
// Content-Encoding gzip / snappy -- after the compressed stream was truncated or had one byte flipped; "plain" is an
// uncompressed body whose connection breaks (net/http then returns io.ErrUnexpectedEOF from Body.Read).

import (
	"bytes"
	"compress/gzip"
	"io"
	"math/rand"

	"github.com/golang/snappy"
)

type Cut struct {
	Enc      string `json:"enc"`            // gzip | snappy | plain
	Kind     string `json:"kind"`           // truncate | flip | fail
	Permille int    `json:"permille"`       // where, in thousandths of the (compressed) stream
	Snap     bool   `json:"snap,omitempty"` // plain: move the break back to just behind a line end, if there is one
	At       int    `json:"at,omitempty"`   // filled in by the run: the byte offset
	Of       int    `json:"of,omitempty"`   // ... of so many bytes
	// filled in by the run: what the parser saw of the reader
	ReadErr   string `json:"read_err,omitempty"`   // the error (other than io.EOF) a Read returned
	ReadBytes int    `json:"read_bytes,omitempty"` // decoded bytes handed to the parser
	// the reader ended with a clean io.EOF before the whole body was delivered: a framed snappy stream cut between two
	// chunks is a valid, shorter stream -- nobody can tell; such a request is not judged
	CleanPrefix bool `json:"clean_prefix,omitempty"`
}

// readRecorder notes what the parser gets to see of the body
type readRecorder struct {
	r      io.Reader
	n      int
	err    error
	sawEOF bool
}

func (x *readRecorder) Read(p []byte) (int, error) {
	n, err := x.r.Read(p)
	x.n += n
	if err == io.EOF {
		x.sawEOF = true
	} else if err != nil && x.err == nil {
		x.err = err
	}
	return n, err
}

type failingReader struct {
	r   io.Reader
	err error
}

func (f *failingReader) Read(p []byte) (int, error) {
	n, err := f.r.Read(p)
	if err == io.EOF {
		return n, f.err
	}
	return n, err
}

func genCut(r *rand.Rand) *Cut {
	c := &Cut{Permille: r.Intn(1001)}
	switch r.Intn(5) {
	case 0, 1:
		c.Enc = "gzip"
	case 2, 3:
		c.Enc = "snappy"
	default:
		c.Enc = "plain"
	}
	if c.Enc == "plain" {
		c.Kind, c.Snap = "fail", r.Intn(2) == 0
	} else if r.Intn(3) == 0 {
		c.Kind = "flip"
	} else {
		c.Kind = "truncate"
	}
	if r.Intn(6) == 0 {
		c.Permille = 990 + r.Intn(11) // in the trailer / the last block
	}
	return c
}

func cutReader(wire []byte, c *Cut) (io.Reader, error) {
	var comp []byte
	switch c.Enc {
	case "gzip":
		var b bytes.Buffer
		w := gzip.NewWriter(&b)
		w.Write(wire)
		w.Close()
		comp = b.Bytes()
	case "snappy":
		var b bytes.Buffer
		w := snappy.NewBufferedWriter(&b)
		w.Write(wire)
		w.Close()
		comp = b.Bytes()
	default:
		comp = wire
	}
	at := len(comp) * c.Permille / 1000
	if c.Snap {
		if i := bytes.LastIndexByte(comp[:at], '\n'); i >= 0 {
			at = i + 1
		}
	}
	c.At, c.Of = at, len(comp)
	var stream io.Reader
	switch c.Kind {
	case "flip":
		d := append([]byte{}, comp...)
		if at >= len(d) {
			at = len(d) - 1
		}
		if at >= 0 {
			d[at] ^= 0x20
		}
		stream = bytes.NewReader(d)
	case "fail":
		stream = &failingReader{bytes.NewReader(comp[:at]), io.ErrUnexpectedEOF}
	default:
		stream = bytes.NewReader(comp[:at])
	}
	switch c.Enc {
	case "gzip":
		return gzip.NewReader(stream)
	case "snappy":
		return snappy.NewReader(stream), nil
	}
	return stream, nil
}
