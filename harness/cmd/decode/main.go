// decode drives the exported log/metric ingest parsers of writer/utils/unmarshal
// (DecodePushRequestStringV2, UnmarshalProtoV2, UnmarshallMetricsWriteProtoV2, UnmarshalInfluxDBLogsV2,
// UnmarshallDatadogV2JSONV2, UnmarshallDatadogMetricsV2JSONV2, UnmarshalOTLPLogsV2) with generated
// abstract bodies serialised to the real wire formats, and prints, per case, the abstract body, the
// sequence of parser responses (one chunk of sample columns per response) and the label-set ->
// fingerprint table read off the TimeSeries rows of the same responses (the fingerprint is an oracle
// of the C03 model). Every case also carries its own Coq text (field "coq") for coq/model/Decode.v.
package main

import (
	"bytes"
	"context"
	"encoding/json"
	"fmt"
	"io"
	"math"
	"math/rand"
	"os"
	"strconv"
	"strings"
	"time"

	clconfig "github.com/metrico/cloki-config"
	"github.com/metrico/qryn/writer/config"
	"github.com/metrico/qryn/writer/model"
	"github.com/metrico/qryn/writer/utils/logger"
	"github.com/metrico/qryn/writer/utils/numbercache"
	"github.com/metrico/qryn/writer/utils/unmarshal"
	"verif/harness/hx"
)

// ---------------------------------------------------------------- abstract bodies

type KV struct {
	K Str `json:"k"`
	V Str `json:"v"`
}

// Loki push (JSON in both layouts, protobuf)
type LEntry struct {
	Ts   int64    `json:"ts"`
	Line *Str     `json:"line,omitempty"`
	Val  *float64 `json:"val,omitempty"`
}
type LStream struct {
	Labels  []KV     `json:"labels"`
	Entries []LEntry `json:"entries"`
}

// Prometheus remote write
type PSample struct {
	TsMs int64   `json:"ts"`
	Val  float64 `json:"val"`
}
type PSeries struct {
	Labels  []KV      `json:"labels"`
	Samples []PSample `json:"samples"`
}

// Influx line protocol
type IField struct {
	Name Str     `json:"name"`
	Kind string  `json:"kind"` // int | float | str | bool | uint
	I    int64   `json:"i,omitempty"`
	F    float64 `json:"f,omitempty"`
	S    Str     `json:"s,omitempty"`
}
type ILine struct {
	Meas   Str      `json:"meas"`
	Tags   []KV     `json:"tags"`
	Fields []IField `json:"fields"`
	Ts     int64    `json:"ts"`              // in units of the precision
	NoTs   bool     `json:"no_ts,omitempty"` // the line is written without a timestamp: the parser stamps it with the clock truncated to the precision
}

// Datadog logs
type DDLog struct {
	Tags     []KV  `json:"tags"`
	TagsText *Str  `json:"tags_text,omitempty"` // the ddtags text as sent, when it is not the plain k:v,k:v writing of Tags
	Source   *Str  `json:"ddsource,omitempty"`
	Service  *Str  `json:"service,omitempty"`
	Hostname *Str  `json:"hostname,omitempty"`
	SType    *Str  `json:"source_type,omitempty"`
	Message  Str   `json:"message"`
	TsMs     int64 `json:"ts"`
}

// Datadog metrics
type DDPoint struct {
	TsS  int64   `json:"ts"`
	Val  float64 `json:"val"`
	NoTs bool    `json:"no_ts,omitempty"` // a leading point written without a timestamp: the clock reading of the points array
}
type DDSeries struct {
	Metric    *Str      `json:"metric,omitempty"`
	Resources [][]KV    `json:"resources"`
	Points    []DDPoint `json:"points"`
}

// OTLP logs
type OVal struct {
	Kind  string `json:"kind"`        // str | bool | int | none | double | bytes | arr | kv
	S     Str    `json:"s,omitempty"` // str: the text; bytes: the bytes
	B     bool   `json:"b,omitempty"`
	I     int64  `json:"i,omitempty"`
	F     uint64 `json:"f,omitempty"` // double: IEEE-754 bits
	Items []OVal `json:"items,omitempty"`
	KVs   []OKV  `json:"kvs,omitempty"`
}
type OKV struct {
	K Str  `json:"k"`
	V OVal `json:"v"`
}
type ORecord struct {
	Attrs    []OKV  `json:"attrs"`
	Severity Str    `json:"severity"`
	Body     *Str   `json:"body,omitempty"`
	BodyV    *OVal  `json:"body_value,omitempty"` // a body that is not a string value
	Ts       uint64 `json:"ts"`
}
type OScope struct {
	HasScope bool      `json:"has_scope"`
	Attrs    []OKV     `json:"attrs"`
	Records  []ORecord `json:"records"`
}
type OResLog struct {
	HasRes bool     `json:"has_res"`
	Attrs  []OKV    `json:"attrs"`
	Scopes []OScope `json:"scopes"`
}

type Body struct {
	Loki      []LStream  `json:"loki,omitempty"`
	Prw       []PSeries  `json:"prw,omitempty"`
	Influx    []ILine    `json:"influx,omitempty"`
	Precision int64      `json:"precision,omitempty"` // ns per unit (influx)
	DDLog     []DDLog    `json:"ddlog,omitempty"`
	DDMet     []DDSeries `json:"ddmet,omitempty"`
	Otlp      []OResLog  `json:"otlp,omitempty"`
	ND        []NDLine   `json:"nd,omitempty"`     // ddcf / esbulk: one JSON object (or nothing) per line
	NDCtx     Str        `json:"nd_ctx,omitempty"` // ddcf: the ddsource of the route; esbulk: its target
}

// ---------------------------------------------------------------- observations

type Chunk struct {
	Ts      []int64  `json:"ts"`
	Fp      []uint64 `json:"fp"`
	Msg     []Str    `json:"msg"`
	Val     []uint64 `json:"val"` // IEEE-754 bits
	TTL     []uint16 `json:"ttl"`
	Type    []uint8  `json:"type"`
	SplSize int      `json:"spl_size"`
	NSeries int      `json:"nseries"`
	TsSize  int      `json:"ts_size"`
}
type FpRow struct {
	Labels []KV   `json:"labels"`
	Fp     uint64 `json:"fp"`
	EncLen int    `json:"enclen"`
}
type Obs struct {
	Chunks []Chunk `json:"chunks"`
	Err    string  `json:"err"` // "" | "panic" | "error"
	ErrMsg string  `json:"errmsg,omitempty"`
	FpTab  []FpRow `json:"fptab"`
	// indices of the responses whose content at the end of the request differs from their content when received
	Changed []int `json:"changed_after_receive,omitempty"`
	// the clock (UnixNano) just before the parser was started and just after its channel was closed
	T0 int64 `json:"t0,omitempty"`
	T1 int64 `json:"t1,omitempty"`
}

type Case struct {
	ID       int    `json:"id"`
	Class    string `json:"class"`
	Proto    string `json:"proto"` // loki_json | loki_pb | prw | influx | ddlog | ddmet | otlp
	WSeed    int64  `json:"wseed"` // every serialisation choice (layout, key order, timestamp syntax) derives from it
	CtxTTL   uint16 `json:"ctx_ttl"`
	KeyOrder string `json:"key_order,omitempty"` // Loki JSON: "entries-first" / "labels-first": where the entry arrays of a stream object stand relative to its label members
	Reads    int    `json:"reads,omitempty"`     // > 0: the parser reads the body through a reader that returns 1..Reads bytes per call (sizes from a PRNG seeded by WSeed)
	Split    bool   `json:"split,omitempty"`     // Loki JSON: labels / entries of a stream may be spread over two members of the stream object
	Hist     int    `json:"hist,omitempty"`      // > 0: this body is step Step of history Hist: bodies decoded one after another in this process
	Step     int    `json:"step,omitempty"`
	Cache    string `json:"cache,omitempty"` // "" = never-hit cache (clustered deployment); "set" = remembers every (day, fingerprint, type) of the request; "shared" = one such cache for all steps of the history
	Body     Body   `json:"body"`
	Wire     string `json:"wire_hex,omitempty"` // the bytes handed to the parser (only kept when small)
	Obs      Obs    `json:"obs"`
	NRows    int    `json:"nrows"` // number of entries submitted (for coverage accounting)
	// number of label buffers with a __ttl_days__ label in a non-final position that reach onEntries more than once
	TTLMulti int    `json:"ttl_multi,omitempty"`
	Coq      string `json:"coq,omitempty"`

	// the reader the parser gets fails part-way: a truncated / corrupted compressed stream, a connection that breaks
	Cut *Cut `json:"cut,omitempty"`

	Damage   bool   `json:"damage,omitempty"` // Loki JSON: one edit is applied to the document tree before it is rendered
	CoqJ     string `json:"coqj,omitempty"`   // Loki JSON / Datadog logs: the case with its document tree (jcase of coq/model/LokiJson.v, dcase of DatadogJson.v)
	TreeKind string `json:"tree_kind,omitempty"`

	members [][]member // Loki JSON: the members of every stream object in the order they were written
	doc     *JV        // Loki JSON: the document
}

// ---------------------------------------------------------------- running the real parsers

// fpCache of a clustered deployment: CheckAndSet never reports a hit, so every (day, fingerprint)
// yields its time_series row and the label-set -> fingerprint table is complete for every case.
type missCache struct{}

func (missCache) CheckAndSet(uint64) bool              { return false }
func (missCache) Has(uint64) bool                      { return false }
func (missCache) DB(string) numbercache.ICache[uint64] { return missCache{} }

// fpCache of a standalone deployment within one request: a set of the keys seen
type setCache struct{ seen map[uint64]bool }

func (c *setCache) CheckAndSet(k uint64) bool {
	if os.Getenv("C03_DEBUG") != "" {
		fmt.Fprintln(os.Stderr, "cache key", k, c.seen[k])
	}
	if c.seen[k] {
		return true
	}
	c.seen[k] = true
	return false
}
func (c *setCache) Has(k uint64) bool                    { return c.seen[k] }
func (c *setCache) DB(string) numbercache.ICache[uint64] { return c }

// smallReader hands the body over in short reads (1..max bytes per call), as a network connection does
type smallReader struct {
	r   io.Reader
	rng *rand.Rand
	max int
}

func (s *smallReader) Read(p []byte) (int, error) {
	n := 1 + s.rng.Intn(s.max)
	if n > len(p) {
		n = len(p)
	}
	return s.r.Read(p[:n])
}

func parserOf(proto string) unmarshal.ParsingFunction {
	switch proto {
	case "loki_json":
		return unmarshal.DecodePushRequestStringV2
	case "loki_pb":
		return unmarshal.UnmarshalProtoV2
	case "prw":
		return unmarshal.UnmarshallMetricsWriteProtoV2
	case "influx":
		return unmarshal.UnmarshalInfluxDBLogsV2
	case "ddlog":
		return unmarshal.UnmarshallDatadogV2JSONV2
	case "ddmet":
		return unmarshal.UnmarshallDatadogMetricsV2JSONV2
	case "otlp":
		return unmarshal.UnmarshalOTLPLogsV2
	case "ddcf":
		return unmarshal.UnmarshallDatadogCFJSONV2
	case "esbulk":
		return unmarshal.ElasticBulkUnmarshalV2
	}
	panic("unknown proto " + proto)
}

// digest of everything a response carries (FNV-1a over lengths and contents of all columns)
func digest(r *model.ParserResponse) uint64 {
	h := uint64(14695981039346656037)
	w := func(v uint64) {
		for i := 0; i < 8; i++ {
			h ^= v & 0xff
			h *= 1099511628211
			v >>= 8
		}
	}
	ws := func(s string) {
		w(uint64(len(s)))
		for i := 0; i < len(s); i++ {
			h ^= uint64(s[i])
			h *= 1099511628211
		}
	}
	if r.SamplesRequest != nil {
		s := r.SamplesRequest.(*model.TimeSamplesData)
		w(uint64(len(s.MTimestampNS)))
		for _, v := range s.MTimestampNS {
			w(uint64(v))
		}
		w(uint64(len(s.MFingerprint)))
		for _, v := range s.MFingerprint {
			w(v)
		}
		w(uint64(len(s.MMessage)))
		for _, v := range s.MMessage {
			ws(v)
		}
		w(uint64(len(s.MValue)))
		for _, v := range s.MValue {
			w(math.Float64bits(v))
		}
		w(uint64(len(s.MTTLDays)))
		for _, v := range s.MTTLDays {
			w(uint64(v))
		}
		w(uint64(len(s.MType)))
		for _, v := range s.MType {
			w(uint64(v))
		}
		w(uint64(s.Size))
	}
	if r.TimeSeriesRequest != nil {
		t := r.TimeSeriesRequest.(*model.TimeSeriesData)
		w(uint64(len(t.MLabels)))
		for _, v := range t.MLabels {
			ws(v)
		}
		for _, v := range t.MFingerprint {
			w(v)
		}
		for _, v := range t.MType {
			w(uint64(v))
		}
		for _, v := range t.MTTLDays {
			w(uint64(v))
		}
		for _, v := range t.MDate {
			w(uint64(v.Unix()))
		}
		w(uint64(t.Size))
	}
	return h
}

func parseEncLabels(s string) ([]KV, bool) {
	// encodeLabels: "{" + join(Quote(k) ":" Quote(v), ",") + "}"
	if len(s) < 2 || s[0] != '{' || s[len(s)-1] != '}' {
		return nil, false
	}
	s = s[1 : len(s)-1]
	var out []KV
	for len(s) > 0 {
		qk, err := strconv.QuotedPrefix(s)
		if err != nil {
			return nil, false
		}
		s = s[len(qk):]
		if len(s) == 0 || s[0] != ':' {
			return nil, false
		}
		s = s[1:]
		qv, err := strconv.QuotedPrefix(s)
		if err != nil {
			return nil, false
		}
		s = s[len(qv):]
		k, e1 := strconv.Unquote(qk)
		v, e2 := strconv.Unquote(qv)
		if e1 != nil || e2 != nil {
			return nil, false
		}
		out = append(out, KV{Str(k), Str(v)})
		if len(s) > 0 {
			if s[0] != ',' {
				return nil, false
			}
			s = s[1:]
		}
	}
	return out, true
}

// per history: the announcement cache shared by its steps and the label-set table accumulated so far (a series
// announced in an earlier step is not announced again)
type histState struct {
	cache *setCache
	tab   []FpRow
	seen  map[string]bool
}

var histStates = map[int]*histState{}

func run(c *Case) {
	wire := serialise(c)
	if len(wire) <= 4096 {
		c.Wire = hx.Hex(string(wire))
	} else {
		c.Wire = ""
	}
	ctx := context.Background()
	if c.CtxTTL != 0 {
		ctx = context.WithValue(ctx, "TTL_DAYS", c.CtxTTL)
	}
	if c.Proto == "influx" {
		ctx = context.WithValue(ctx, "precision", time.Duration(c.Body.Precision))
	}
	if c.Proto == "ddcf" {
		ctx = context.WithValue(ctx, "ddsource", string(c.Body.NDCtx))
	}
	if c.Proto == "esbulk" {
		ctx = context.WithValue(ctx, "target", string(c.Body.NDCtx))
	}
	c.Obs = Obs{Chunks: []Chunk{}, FpTab: []FpRow{}}
	seen := map[string]bool{}
	var hs *histState
	if c.Cache == "shared" {
		hs = histStates[c.Hist]
		if hs == nil {
			hs = &histState{cache: &setCache{seen: map[uint64]bool{}}, seen: map[string]bool{}}
			histStates[c.Hist] = hs
		}
		seen = hs.seen
		c.Obs.FpTab = append(c.Obs.FpTab, hs.tab...)
	}
	done := make(chan struct{})
	var confirm []*model.TimeSeriesData
	var ch chan *model.ParserResponse
	go func() {
		defer close(done)
		var cache numbercache.ICache[uint64] = missCache{}
		if c.Cache == "set" {
			cache = &setCache{seen: map[uint64]bool{}}
		}
		if hs != nil {
			cache = hs.cache
		}
		var body io.Reader = bytes.NewReader(wire)
		var rec *readRecorder
		if c.Cut != nil {
			var err error
			defer func() {
				if rec != nil {
					c.Cut.ReadBytes = rec.n
					if rec.err != nil {
						c.Cut.ReadErr = rec.err.Error()
					}
					c.Cut.CleanPrefix = rec.err == nil && rec.sawEOF && rec.n < len(wire)
				}
			}()
			if body, err = cutReader(wire, c.Cut); err == nil {
				rec = &readRecorder{r: body}
				body = rec
			} else {
				// the content-encoding reader refuses the stream before the parser sees a byte (WithOverallContextMiddleware returns the error)
				c.Obs.Err, c.Obs.ErrMsg = "error", "content-encoding reader: "+err.Error()
				c.Obs.T0 = time.Now().UnixNano()
				c.Obs.T1 = c.Obs.T0
				return
			}
		}
		if c.Reads > 0 && c.Cut == nil {
			max := c.Reads
			if len(wire) > 100000 && max < 1000 {
				max *= 100 // long bodies: pieces of up to 100 .. 30000 bytes
			}
			body = &smallReader{r: body, rng: rand.New(rand.NewSource(c.WSeed ^ 0x5eed)), max: max}
		}
		c.Obs.T0 = time.Now().UnixNano()
		ch = parserOf(c.Proto)(ctx, body, cache)
		// The real consumer (controller.doParse -> doPush goroutines, with retries) still holds the responses it
		// received while the parser goes on: every response is kept BY REFERENCE until the channel is closed and
		// its columns are read only then. A digest taken at receive time tells whether a response already sent
		// was changed afterwards (chunks_stable).
		var held []*model.ParserResponse
		var atReceive []uint64
		for r := range ch {
			if r.Error != nil {
				if strings.HasPrefix(r.Error.Error(), "panic:") {
					c.Obs.Err = "panic"
				} else {
					c.Obs.Err = "error"
				}
				c.Obs.ErrMsg = r.Error.Error()
				if len(c.Obs.ErrMsg) > 300 {
					c.Obs.ErrMsg = c.Obs.ErrMsg[:300]
				}
				continue
			}
			held = append(held, r)
			atReceive = append(atReceive, digest(r))
		}
		c.Obs.T1 = time.Now().UnixNano()
		for i, r := range held {
			if digest(r) != atReceive[i] {
				c.Obs.Changed = append(c.Obs.Changed, i)
			}
			var k Chunk
			if r.SamplesRequest != nil {
				s := r.SamplesRequest.(*model.TimeSamplesData)
				k.Ts = append([]int64{}, s.MTimestampNS...)
				k.Fp = append([]uint64{}, s.MFingerprint...)
				k.Msg = make([]Str, len(s.MMessage))
				for i, m := range s.MMessage {
					k.Msg[i] = Str(m)
				}
				k.Val = make([]uint64, len(s.MValue))
				for i, v := range s.MValue {
					k.Val[i] = math.Float64bits(v)
				}
				k.TTL = append([]uint16{}, s.MTTLDays...)
				k.Type = append([]uint8{}, s.MType...)
				k.SplSize = s.Size
			}
			if r.TimeSeriesRequest != nil {
				t := r.TimeSeriesRequest.(*model.TimeSeriesData)
				k.NSeries = len(t.MLabels)
				if os.Getenv("C03_DEBUG") != "" {
					fmt.Fprintln(os.Stderr, "series rows", t.MDate, t.MType, t.MFingerprint, t.MLabels)
				}
				k.TsSize = t.Size
				for i, l := range t.MLabels {
					key := l + "\x00" + strconv.FormatUint(t.MFingerprint[i], 10)
					if seen[key] {
						continue
					}
					seen[key] = true
					kvs, ok := parseEncLabels(l)
					if !ok {
						panic("cannot read back encoded labels " + l)
					}
					c.Obs.FpTab = append(c.Obs.FpTab, FpRow{Labels: kvs, Fp: t.MFingerprint[i], EncLen: len(l)})
				}
			}
			c.Obs.Chunks = append(c.Obs.Chunks, k)
		}
	}()
	select {
	case <-done:
	case <-time.After(60 * time.Second):
		c.Obs.Err = "timeout"
	}
	if hs != nil {
		hs.tab = append([]FpRow{}, c.Obs.FpTab...)
		// controller.doParse: once every insert of the request has succeeded the series rows are confirmed in the cache
		if c.Obs.Err == "" {
			for _, ts := range confirm {
				unmarshal.ConfirmSeries(ts, hs.cache)
			}
		}
	}
	if c.Proto == "influx" {
		influxFieldOrder(c)
	}
	c.NRows = countEntries(c)
	c.TTLMulti = ttlMulti(c)
	c.Coq = coqCase(c)
	c.CoqJ = ""
	if c.Proto == "loki_json" && c.doc != nil {
		rfc, ls, ds := docOracles(*c.doc)
		c.CoqJ = fmt.Sprintf("JCase (%s)\n    %s %v %s %s %s", c.Coq, c.doc.coq(), !c.Damage, rfc, ls, ds)
		c.TreeKind = "jcase"
	}
	if c.Proto == "ddlog" && c.doc != nil {
		written := !c.Damage
		for _, e := range c.Body.DDLog {
			if e.TagsText != nil {
				written = false
			}
		}
		c.CoqJ = fmt.Sprintf("DCase (%s)\n    %s %v %s", c.Coq, c.doc.coq(), written, tagLetters(*c.doc))
		c.TreeKind = "dcase"
	}
	if c.Proto == "ddcf" || c.Proto == "esbulk" {
		c.CoqJ = fmt.Sprintf("WCase (%s)\n    %s %s %v", c.Coq, cstr(c.Body.NDCtx), ndCoqLines(c), !c.Damage)
		c.TreeKind = "wcase"
	}
	if c.Cut != nil {
		if c.TreeKind == "wcase" {
			c.TreeKind = "wfcase"
		} else if c.TreeKind == "dcase" {
			c.TreeKind = "dfcase" // a free-form ddtags text is read by the model's walk, not by the harness
		} else {
			c.CoqJ, c.TreeKind = c.Coq, "fcase"
		}
		return
	}
	if c.Proto == "ddmet" && c.doc != nil {
		c.CoqJ = fmt.Sprintf("MCase (%s)\n    %s %v", c.Coq, c.doc.coq(), !c.Damage)
		c.TreeKind = "mcase"
	}
}

func countEntries(c *Case) int {
	n := 0
	for _, s := range c.Body.Loki {
		n += len(s.Entries)
	}
	for _, s := range c.Body.Prw {
		n += len(s.Samples)
	}
	for _, l := range c.Body.Influx {
		num, msg := 0, false
		for _, f := range l.Fields {
			if string(f.Name) == "message" {
				msg = true
			}
			if f.Kind == "int" || f.Kind == "uint" || f.Kind == "float" {
				num++
			}
		}
		if msg {
			num = 1 // a "message" line is one log entry
		}
		n += num
	}
	n += len(c.Body.DDLog)
	if len(c.Body.ND) > 0 {
		n += ndEntries(c)
	}
	for _, s := range c.Body.DDMet {
		n += len(s.Points)
	}
	for _, r := range c.Body.Otlp {
		for _, s := range r.Scopes {
			n += len(s.Records)
		}
	}
	return n
}

func main() {
	f := hx.ParseFlags()
	logger.Logger.SetOutput(io.Discard) // recovered panics are reported through the response channel
	config.Cloki = clconfig.New(clconfig.CLOKI_WRITER, nil, "", "")
	switch os.Getenv("C03_MODE") {
	case "labels":
		labelsMain(f)
		return
	case "time":
		timeMain(f)
		return
	case "ndjson":
		ndjsonMain(f)
		return
	case "reqopts":
		reqoptsMain(f)
		return
	}
	out := hx.OpenOut(f.Out)
	defer out.Close()
	if f.Cases != "" {
		hx.ReadLines(f.Cases, func(b []byte) {
			var c Case
			if err := json.Unmarshal(b, &c); err != nil {
				panic(fmt.Sprintf("bad case line: %v", err))
			}
			run(&c)
			out.Put(c)
		})
		return
	}
	r := hx.Rand(f.Seed)
	if os.Getenv("C03_ONLY") == "lokidoc" {
		// small Loki JSON documents only, two of three with one edit in the tree: volume for the walk of model/LokiJson.v
		for i := 0; i < f.N; i++ {
			c := Case{ID: 3000000 + i, WSeed: r.Int63(), Proto: "loki_json"}
			if i%7 == 3 { // two of seven are Datadog log / metric documents (walks of model/DatadogJson.v)
				c.Proto = "ddlog"
				genDDLog(r, &c)
			} else if i%7 == 4 {
				c.Proto = "ddmet"
				genDDMet(r, &c)
			} else if i%7 == 5 { // two of seven are newline-delimited bodies (walks of model/NdjsonWalk.v)
				c.Proto = "ddcf"
			} else if i%7 == 6 {
				c.Proto = "esbulk"
			} else {
				genLoki(r, &c, false)
			}
			if i%3 != 0 {
				c.Damage = true
				flag(&c, "damaged-document")
			}
			if c.Proto == "ddcf" {
				genCF(r, &c)
			}
			if c.Proto == "esbulk" {
				genES(r, &c)
			}
			setReads(&c)
			run(&c)
			out.Put(c)
		}
		return
	}
	for i := 0; i < f.N; {
		var cs []Case
		if every := envInt("C03_HISTORY_EVERY", 16); i%every == 5%every {
			cs = genHistory(r, i, f.N)
		}
		if len(cs) == 0 {
			cs = []Case{gen(r, i)}
		}
		for k := range cs {
			run(&cs[k])
			out.Put(cs[k])
		}
		i += len(cs)
	}
}
