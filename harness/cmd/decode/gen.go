package main

import (
	"fmt"
	"math"
	"math/rand"
	"os"
	"strconv"
	"strings"
)

// the two flush thresholds as read from the source by translate/gen_decode_consts (checks/c03.py passes them in
// the environment): the bodies meant to cross them are sized relative to them
var thresholdBytes = envInt("C03_THRESHOLD", 1<<20)
var flushLimit = envInt("C03_FLUSH_LIMIT", 1000)

func envInt(name string, def int) int {
	if v, err := strconv.Atoi(os.Getenv(name)); err == nil && v > 0 {
		return v
	}
	return def
}

var namesAny = []string{"app", "job", "level", "host", "instance", "_private", "x9", "9lives", "with-dash",
	"dotted.name", "héllo", "名前", "a b", "__name__", "CamelCase", "é", "k8s/pod", "1", "-"}
var namesIdent = []string{"app", "job", "level", "host", "instance", "_private", "x9", "héllo", "名前",
	"__name__", "CamelCase", "é", "env", "pod"}
var valuesAny = []string{"api", "prod", "us-east-1", "a\"quote", "back\\slash", "line\nbreak", "üñí", "",
	"{}", "1", "web-01", "tab\there", "café ☃", "x=y,z"}

func pick(r *rand.Rand, xs []string) string { return xs[r.Intn(len(xs))] }

// flag adds a feature tag to the class name of a case (once)
func flag(c *Case, f string) {
	if !strings.Contains("+"+c.Class+"+", "+"+f+"+") {
		c.Class += "+" + f
	}
}

func genValue(r *rand.Rand) string {
	switch r.Intn(12) {
	case 0:
		return "L" + strings.Repeat("v", 99) // exactly 100 bytes: kept
	case 1:
		return "M" + strings.Repeat("w", 100+r.Intn(60)) // > 100 bytes: truncated + "..."
	case 2:
		return strings.Repeat("é", 49) + "a" + pick(r, []string{"éé", "名前", "𝒳x", "☃☃"}) // the cut at byte 100 falls inside a rune
	}
	return pick(r, valuesAny)
}

func genLabels(r *rand.Rand, ident bool, ttl bool) []KV {
	pool := namesAny
	if ident {
		pool = namesIdent
	}
	n := 1 + r.Intn(4)
	if !ident && r.Intn(15) == 0 {
		n = 0
	}
	var out []KV
	used := map[string]bool{}
	for i := 0; i < n; i++ {
		k := pick(r, pool)
		if used[k] && r.Intn(8) != 0 {
			continue
		}
		used[k] = true
		out = append(out, KV{Str(k), Str(genValue(r))})
	}
	if ident && len(out) == 0 {
		out = append(out, KV{"app", "x"})
	}
	if ttl && r.Intn(10) == 0 {
		v := pick(r, []string{"7", "0", "abc", "40000", "-1", "+30", "32767", "", "1_0"})
		pos := r.Intn(len(out) + 1)
		out = append(out[:pos], append([]KV{{"__ttl_days__", Str(v)}}, out[pos:]...)...)
	}
	return out
}

var ttlValues = []string{"7", "0", "abc", "40000", "-1", "+30", "32767", "", "1_0", "7", "30", "365"}

// withTTL inserts a __ttl_days__ label; nonFinal: at a position that is not the last one (a label follows it), so that a
// callee that compacts the caller's label buffer in place shifts the labels behind it
func withTTL(r *rand.Rand, l []KV, nonFinal bool) []KV {
	for _, kv := range l {
		if string(kv.K) == "__ttl_days__" {
			return l
		}
	}
	pos := r.Intn(len(l) + 1)
	if nonFinal && len(l) > 0 {
		pos = r.Intn(len(l))
	}
	out := append([]KV{}, l[:pos]...)
	out = append(out, KV{"__ttl_days__", Str(pick(r, ttlValues))})
	return append(out, l[pos:]...)
}

// ttlMulti counts the label buffers of the body that carry a __ttl_days__ label in a non-final position AND are handed
// to the onEntries callback more than once (a remote-write series whose samples straddle a flush of the running point
// counter; an Influx metric line with two or more numeric fields): the inputs on which a callee that rewrites the
// caller's label buffer shows
func ttlMulti(c *Case) int {
	nonFinal := func(l []KV, extra int) bool {
		for i, kv := range l {
			if string(kv.K) == "__ttl_days__" && i < len(l)-1+extra {
				return true
			}
		}
		return false
	}
	n := 0
	switch c.Proto {
	case "prw":
		points := 0
		for _, s := range c.Body.Prw {
			calls, open := 0, 0
			for range s.Samples {
				points++
				open++
				if points >= flushLimit {
					calls++
					points, open = 0, 0
				}
			}
			if open > 0 {
				calls++
			}
			if calls >= 2 && nonFinal(s.Labels, 0) {
				n++
			}
		}
	case "influx":
		for _, l := range c.Body.Influx {
			num, msg := 0, false
			for _, f := range l.Fields {
				if f.Kind == "int" || f.Kind == "uint" || f.Kind == "float" {
					num++
				}
				if string(f.Name) == "message" {
					msg = true
				}
			}
			if !msg && num >= 2 && nonFinal(l.Tags, 1) {
				n++
			}
		}
	}
	return n
}

var floats = []float64{0, 1, -1, 2.5, 0.1, 1e300, 5e-324, -2.5e-7, 123456789, 1e21, 3.141592653589793, 42, math.MaxFloat64, math.Copysign(0, -1)}

func genFloat(r *rand.Rand) float64 {
	switch r.Intn(4) {
	case 0:
		return float64(r.Intn(2000) - 1000)
	case 1:
		return r.NormFloat64() * 1e6
	}
	return floats[r.Intn(len(floats))]
}

const day = int64(86400) * 1000000000

func genTs(r *rand.Rand, spread int) int64 {
	base := int64(1700000000) * 1000000000
	switch spread {
	case 0:
		return base + r.Int63n(3600*1000000000)
	case 1:
		return base + r.Int63n(4*day)
	}
	return r.Int63n(20*day) - 10*day // around the epoch, both signs
}

func sp(s string) *Str        { x := Str(s); return &x }
func fp64(v float64) *float64 { return &v }

var lines = []string{"hello", "", "GET /index.html 200", "a\"b\\c", "multi\nline", "ünicöde ☃", "level=info msg=\"x\"", "{\"json\":true}"}

func genLine(r *rand.Rand) string {
	if r.Intn(10) == 0 {
		return fmt.Sprintf("id-%d-", r.Intn(1000)) + strings.Repeat("z", r.Intn(300))
	}
	return pick(r, lines)
}

func genLokiEntries(r *rand.Rand, n int, spread int, pbOnly bool) []LEntry {
	es := make([]LEntry, 0, n)
	mode := r.Intn(6) // 0,1: lines only; 2: mixed; 3: metrics mostly; 4,5: a line in every entry, a value in some ("values" layout with both types)
	if pbOnly {
		mode = 0
	}
	for i := 0; i < n; i++ {
		e := LEntry{Ts: genTs(r, spread)}
		switch {
		case mode <= 1:
			e.Line = sp(genLine(r))
		case mode >= 4:
			e.Line = sp(genLine(r))
			if r.Intn(2) == 0 {
				e.Val = fp64(genFloat(r))
			}
		case mode == 2:
			switch r.Intn(4) {
			case 0:
				e.Line = sp(genLine(r))
			case 1:
				e.Line = sp(genLine(r))
				e.Val = fp64(genFloat(r))
			case 2:
				e.Val = fp64(genFloat(r))
			}
		default:
			e.Val = fp64(genFloat(r))
			if r.Intn(5) == 0 {
				e.Line = sp(genLine(r))
			}
		}
		es = append(es, e)
	}
	return es
}

func nEntries(r *rand.Rand) int {
	switch r.Intn(14) {
	case 0:
		return 0
	case 1, 2:
		return 1
	}
	return 1 + r.Intn(7)
}

func genLoki(r *rand.Rand, c *Case, pb bool) {
	c.Class = "small"
	if !pb && r.Intn(6) == 0 {
		c.Split = true
		flag(c, "split-members")
	}
	ns := 1 + r.Intn(4)
	if r.Intn(20) == 0 {
		ns = 0
		c.Class = "no-streams"
	}
	spread := r.Intn(3)
	if pb && spread == 2 {
		spread = 1
	}
	for i := 0; i < ns; i++ {
		s := LStream{Labels: genLabels(r, pb || r.Intn(2) == 0, true)}
		if i > 0 && r.Intn(6) == 0 {
			s.Labels = append([]KV{}, c.Body.Loki[r.Intn(i)].Labels...) // a second stream with the same label set
			flag(c, "dup-stream")
		}
		s.Entries = genLokiEntries(r, nEntries(r), spread, pb)
		if len(s.Entries) == 0 {
			flag(c, "empty-stream")
			s.Entries = []LEntry{}
		}
		c.Body.Loki = append(c.Body.Loki, s)
	}
}

// bodies that cross the 1 MiB flush threshold of onEntries
func genLokiBig(r *rand.Rand, c *Case, kind int) {
	total := 0
	if kind == 0 {
		c.Class = "big-lines"
		want := thresholdBytes + thresholdBytes/4 + r.Intn(thresholdBytes)
		if os.Getenv("C03_TIER") == "thorough" && r.Intn(3) == 0 {
			want = 4*thresholdBytes + r.Intn(2*thresholdBytes) // 5 MiB class
		}
		for i := 0; total < want; i++ {
			s := LStream{Labels: []KV{{"app", Str(fmt.Sprintf("big%d", i))}, {"job", "j"}}}
			if r.Intn(3) == 0 {
				s.Labels = withTTL(r, s.Labels, true)
				flag(c, "ttl-label")
			}
			ne := 1 + r.Intn(3)
			for j := 0; j < ne; j++ {
				l := fmt.Sprintf("s%d-e%d-", i, j) + strings.Repeat("x", thresholdBytes/4+r.Intn(thresholdBytes/8+1))
				s.Entries = append(s.Entries, LEntry{Ts: genTs(r, 0), Line: sp(l)})
				total += len(l)
			}
			c.Body.Loki = append(c.Body.Loki, s)
		}
		return
	}
	c.Class = "many-entries"
	want := thresholdBytes + thresholdBytes/2 + r.Intn(thresholdBytes/2+1)
	for i := 0; total < want; i++ {
		s := LStream{Labels: []KV{{"app", Str(fmt.Sprintf("m%d", i%17))}}}
		if i%17 < 6 && r.Intn(2) == 0 {
			s.Labels = withTTL(r, append(s.Labels, KV{"job", "j"}), true)
			flag(c, "ttl-label")
		}
		ne := 70 + r.Intn(30)
		for j := 0; j < ne; j++ {
			l := fmt.Sprintf("l%d-", j) + strings.Repeat("y", 520+r.Intn(400))
			s.Entries = append(s.Entries, LEntry{Ts: genTs(r, 0), Line: sp(l)})
			total += len(l) + 26
		}
		c.Body.Loki = append(c.Body.Loki, s)
	}
}

// genLokiLong: streams of 999 / 1000 / 1500 / 2500 short entries in one push (a decoder that hands a stream over in portions must
// hand every portion over with the stream's own labels, wherever the label key stands in the stream object)
func genLokiLong(r *rand.Rand, c *Case, keyOrder string) {
	c.Class = "long-streams+" + keyOrder
	c.KeyOrder = keyOrder
	ns := []int{flushLimit - 1, flushLimit, flushLimit + flushLimit/2, 2*flushLimit + flushLimit/2}
	r.Shuffle(len(ns), func(i, j int) { ns[i], ns[j] = ns[j], ns[i] })
	for i, n := range ns {
		s := LStream{Labels: []KV{{"app", Str(fmt.Sprintf("long%d", i))}, {"job", "j"}}}
		if i == 1 {
			s.Labels = withTTL(r, s.Labels, true)
		}
		t := genTs(r, 0)
		for j := 0; j < n; j++ {
			t += int64(1 + r.Intn(1000))
			e := LEntry{Ts: t, Line: sp(fmt.Sprintf("l%d", j))}
			if j%500 == 7 {
				e.Val = fp64(float64(j))
			}
			s.Entries = append(s.Entries, e)
		}
		c.Body.Loki = append(c.Body.Loki, s)
	}
}

func genPrw(r *rand.Rand, c *Case, kind int) {
	mk := func(i int, n int) PSeries {
		s := PSeries{Labels: []KV{{"__name__", Str(pick(r, []string{"up", "http_requests_total", "go:gc", "9bad"}))}, {"instance", Str(fmt.Sprintf("i%d", i))}}}
		if r.Intn(3) == 0 {
			s.Labels = append(s.Labels, genLabels(r, false, true)...)
		}
		if kind != 0 && r.Intn(2) == 0 {
			s.Labels = withTTL(r, s.Labels, r.Intn(4) != 0)
		}
		t := int64(1700000000000) + r.Int63n(1000000)
		s.Samples = []PSample{}
		for j := 0; j < n; j++ {
			t += int64(r.Intn(60000))
			s.Samples = append(s.Samples, PSample{TsMs: t, Val: genFloat(r)})
		}
		return s
	}
	switch kind {
	case 0:
		c.Class = "small"
		ns := r.Intn(5)
		for i := 0; i < ns; i++ {
			n := r.Intn(6)
			if r.Intn(8) == 0 {
				n = 0
				flag(c, "empty-series")
			}
			c.Body.Prw = append(c.Body.Prw, mk(i, n))
		}
	case 1: // 999 one-sample series, then one series with two samples: the 1000th point falls inside the last series
		c.Class = "flush-mid-series-999+2"
		for i := 0; i < flushLimit; i++ {
			n := 1
			if i == flushLimit-1 {
				n = 2
			}
			s := mk(i, n)
			s.Labels = []KV{{"i", Str(fmt.Sprintf("%d", i))}}
			if i == flushLimit-1 || r.Intn(50) == 0 {
				s.Labels = withTTL(r, append(s.Labels, KV{"job", "j"}), true)
			}
			c.Body.Prw = append(c.Body.Prw, s)
		}
	case 2: // the running point counter crosses 1000 inside some series
		c.Class = "flush-mid-series"
		total := 0
		for i := 0; total < flushLimit+r.Intn(flushLimit*3/2); i++ {
			n := 1 + r.Intn(flushLimit*9/20+1)
			c.Body.Prw = append(c.Body.Prw, mk(i, n))
			total += n
		}
	case 3: // the 1000th point is the last sample of a series
		c.Class = "flush-at-series-end"
		a := 1
		if flushLimit > 2 {
			a = 1 + r.Intn(flushLimit-2)
		}
		c.Body.Prw = append(c.Body.Prw, mk(0, a), mk(1, flushLimit-a), mk(2, 1+r.Intn(5)))
	case 7: // smallest body whose one series is handed to onEntries twice: flushLimit+1..+3 samples, the label in front of the others
		c.Class = "ttl-label-across-flush"
		s := mk(0, flushLimit+1+r.Intn(3))
		s.Labels = []KV{{"__name__", "up"}, {"__ttl_days__", Str(pick(r, []string{"7", "30", "abc", "0"}))}, {"instance", "i0"}}
		if r.Intn(2) == 0 {
			s.Labels = []KV{{"__ttl_days__", Str(pick(r, []string{"7", "365"}))}, {"__name__", "up"}}
		}
		c.Body.Prw = append(c.Body.Prw, s)
		if r.Intn(2) == 0 {
			c.Body.Prw = append(c.Body.Prw, mk(1, 1+r.Intn(3)))
		}
	case 8: // several series: the point counter crosses its limit dozens of times and the sample bytes cross the size threshold too
		c.Class = "both-thresholds"
		total := envInt("C03_THRESHOLD", 1<<20)/26 + flushLimit + r.Intn(2*flushLimit)
		ns := 3 + r.Intn(4)
		for i := 0; i < ns; i++ {
			// a fixed scrape interval and a constant value per series: the case text stays small (arithmetic progressions)
			s := mk(i, 0)
			t, step, v := int64(1700000000000)+r.Int63n(1000000), int64(1000*(1+r.Intn(30))), genFloat(r)
			for j := total/ns + r.Intn(50); j > 0; j-- {
				s.Samples = append(s.Samples, PSample{TsMs: t, Val: v})
				t += step
			}
			c.Body.Prw = append(c.Body.Prw, s)
		}
	case 5: // the 1000th point is the first of several samples of the second series
		c.Class = "flush-mid-series-999+k"
		c.Body.Prw = append(c.Body.Prw, mk(0, flushLimit-1), mk(1, 2+r.Intn(4)))
	default:
		c.Class = "long-series"
		c.Body.Prw = append(c.Body.Prw, mk(0, 2*flushLimit+r.Intn(flushLimit*3/2)), mk(1, r.Intn(3)))
	}
}

var influxNames = []string{"cpu", "mem", "disk-io", "net.eth0", "load1", "9p", "usage_idle", "température"}
var influxVals = []string{"a", "server01", "us-west", "1", "x-y", "z.w", "café"}

func genInflux(r *rand.Rand, c *Case) {
	c.Class = "metrics"
	c.Body.Precision = []int64{1, 1000, 1000000, 1000000000}[r.Intn(4)]
	nl := 1 + r.Intn(5)
	for i := 0; i < nl; i++ {
		l := ILine{Meas: Str(pick(r, influxNames)), Tags: []KV{}}
		used := map[string]bool{}
		for j := r.Intn(4); j > 0; j-- {
			k := pick(r, influxNames)
			if used[k] {
				continue
			}
			used[k] = true
			v := pick(r, influxVals)
			if r.Intn(10) == 0 {
				v = strings.Repeat("t", 95+r.Intn(20))
			}
			l.Tags = append(l.Tags, KV{Str(k), Str(v)})
		}
		if r.Intn(4) == 0 {
			// the tag is never the last label of a metric line: __name__ is appended behind the tags
			l.Tags = withTTL(r, l.Tags, false)
			for j := range l.Tags {
				if string(l.Tags[j].K) == "__ttl_days__" && l.Tags[j].V == "" {
					l.Tags[j].V = "14" // line protocol has no empty tag values
				}
			}
			flag(c, "ttl-tag")
		}
		l.Ts = genTs(r, r.Intn(2)) / c.Body.Precision
		if r.Intn(6) == 0 {
			l.NoTs = true
			flag(c, "clock-stamped")
		}
		if r.Intn(4) == 0 {
			l.Fields = []IField{{Name: "message", Kind: "str", S: Str(pick(r, []string{"hello world", "x", "a=b c", "with \"quotes\"", "über", "null", "tab\there", "back\\slash", ""}))}}
			flag(c, "message")
			if r.Intn(8) == 0 {
				// the only field, and not a string: rendered as message=<value>
				l.Fields[0] = IField{Name: "message", Kind: pick(r, []string{"int", "uint", "bool"}), I: int64(r.Intn(2000))}
				flag(c, "single-non-string-message")
			} else if r.Intn(2) == 0 {
				// further fields: the text of the row is their logfmt rendering, "message" first, the others in Go's map order
				flag(c, "message-with-fields")
				if r.Intn(6) == 0 {
					l.Fields[0] = IField{Name: "message", Kind: "int", I: r.Int63n(2000) - 1000}
				}
				usedF := map[string]bool{}
				for j := 1 + r.Intn(3); j > 0; j-- {
					name := pick(r, []string{"level", "status code", "k=v", "ünï", "n", "q\"uote", "host"})
					if usedF[name] {
						continue
					}
					usedF[name] = true
					f := IField{Name: Str(name)}
					switch r.Intn(9) {
					case 0, 1:
						f.Kind, f.I = "int", r.Int63()-(1<<62)
					case 2:
						f.Kind, f.I = "uint", r.Int63()
					case 3:
						f.Kind, f.I = "bool", int64(r.Intn(2))
					case 4:
						f.Kind, f.F = "float", float64(r.Intn(2000))/8
						flag(c, "float-in-message-line")
					default:
						f.Kind, f.S = "str", Str(pick(r, []string{"info", "two words", "a=b", "null", "ü", "say \"hi\"", "x\ty", "", "\ufffd", "plain-text_1.2"}))
					}
					l.Fields = append(l.Fields, f)
				}
			}
		} else {
			usedF := map[string]bool{}
			nf := 1 + r.Intn(4)
			for j := 0; j < nf; j++ {
				name := pick(r, []string{"value", "usage", "count", "free-bytes", "p99.9", "1m", "rate", "température"})
				if usedF[name] {
					continue
				}
				usedF[name] = true
				f := IField{Name: Str(name)}
				switch r.Intn(10) {
				case 0:
					f.Kind, f.I = "uint", int64(r.Intn(100000))
					flag(c, "unsigned")
				case 1:
					f.Kind, f.I = "bool", int64(r.Intn(2))
				case 2:
					f.Kind, f.S = "str", Str(pick(r, influxVals))
				case 3, 4, 5:
					f.Kind, f.I = "int", r.Int63n(1<<40)-(1<<39)
				default:
					f.Kind, f.F = "float", float64(r.Intn(200000)-100000)/64
				}
				l.Fields = append(l.Fields, f)
			}
		}
		c.Body.Influx = append(c.Body.Influx, l)
	}
}

var ddKeys = []string{"env", "team", "version", "region", "k8s_pod", "app.kubernetes.io/name", "région", "k", "a-b.c", "win\\path", "名前", "x9"}
var ddVals = []string{"prod", "core", "1.2.3", "eu-1", "pod-7f9c", "a/b", "x_y", "host:8080", "a:b:c", "_", "9", "ü", "c:\\dir", "-", "..", "::"}

// pieces of ddtags texts outside the plain k:v,k:v writing: what the pattern makes of them is for the model to say
var ddTagSoup = []string{"env:prod", "__ttl_days__:7", "_x:1", "bad", "9x:1", "a b:c", "k:v w", ",", " ", "k:", ":v", "k::v", "é:ü", "k:v:w", "a:b/c", "x-y.z:1", "_k:v", "k:_",
	"日本:語", "\ufffd:1", "k:\ufffd", "k:v,", ",,", "Env:Prod", "team:core ", " team:core", "a:b;c:d", "k=v", "k:v\n", "x:1,y:2", "ключ:значение", "٣:٣", "a٣:٣b"}

func genTagsText(r *rand.Rand) string {
	var sb strings.Builder
	for n := 1 + r.Intn(5); n > 0; n-- {
		sb.WriteString(ddTagSoup[r.Intn(len(ddTagSoup))])
		if r.Intn(3) != 0 {
			sb.WriteString(",")
		}
	}
	return sb.String()
}

func genDDLog(r *rand.Rand, c *Case) {
	c.Class = "logs"
	n := 1 + r.Intn(5)
	opt := func(xs []string) *Str {
		switch r.Intn(6) {
		case 0, 1:
			return nil
		case 2:
			if r.Intn(3) == 0 {
				return sp("")
			}
		}
		return sp(pick(r, xs))
	}
	for i := 0; i < n; i++ {
		e := DDLog{Tags: []KV{}, Message: Str(genLine(r)), TsMs: genTs(r, r.Intn(2)) / 1000000}
		if r.Intn(6) == 0 {
			e.TsMs = 0 // no timestamp member: the row is stamped with time.Now()
			flag(c, "clock-stamped")
		}
		used := map[string]bool{}
		for j := r.Intn(4); j > 0; j-- {
			k := pick(r, ddKeys)
			if used[k] {
				continue
			}
			used[k] = true
			e.Tags = append(e.Tags, KV{Str(k), Str(pick(r, ddVals))})
		}
		if r.Intn(4) == 0 {
			e.TagsText = sp(genTagsText(r))
			e.Tags = []KV{}
			flag(c, "free-tags-text")
		}
		e.Source = opt([]string{"nginx", "java", "go"})
		e.Service = opt([]string{"web", "payments", "auth"})
		e.Hostname = opt([]string{"h1", "i-0abc", "node.local"})
		if r.Intn(3) == 0 {
			e.SType = sp(pick(r, []string{"kubernetes", "docker", "syslog"}))
		} else {
			for _, p := range c.Body.DDLog {
				if p.SType != nil {
					flag(c, "source_type-then-none")
				}
			}
		}
		c.Body.DDLog = append(c.Body.DDLog, e)
	}
}

func genDDMet(r *rand.Rand, c *Case) {
	c.Class = "metrics"
	n := 1 + r.Intn(4)
	for i := 0; i < n; i++ {
		s := DDSeries{Points: []DDPoint{}, Resources: [][]KV{}}
		if r.Intn(10) != 0 {
			s.Metric = sp(pick(r, []string{"system.load.1", "app.requests", "custom_metric", "9starts.with.digit"}))
		}
		for j := r.Intn(3); j > 0; j-- {
			res := []KV{{"name", Str(pick(r, []string{"host-a", "host-b", "db1"}))}}
			if r.Intn(2) == 0 {
				res = append(res, KV{"type", Str(pick(r, []string{"host", "container"}))})
			}
			s.Resources = append(s.Resources, res)
		}
		np := 1 + r.Intn(5)
		if r.Intn(10) == 0 {
			np = 0
			flag(c, "empty-series")
		}
		t := int64(1700000000) + r.Int63n(200000)
		stamped := 0
		if r.Intn(6) == 0 {
			stamped = 1 + r.Intn(2) // leading points without a timestamp: the clock reading of the points array
			flag(c, "clock-stamped")
		}
		for j := 0; j < np; j++ {
			t += int64(r.Intn(100))
			s.Points = append(s.Points, DDPoint{TsS: t, Val: genFloat(r), NoTs: j < stamped})
		}
		c.Body.DDMet = append(c.Body.DDMet, s)
	}
}

var otlpKeys = []string{"service.name", "host.name", "k8s.pod.name", "9x", "", "level", "http.method", "custom_attr", "été", "service_name"}

func genOKVs(r *rand.Rand, max int, c *Case) []OKV {
	out := []OKV{}
	for j := r.Intn(max + 1); j > 0; j-- {
		kv := OKV{K: Str(pick(r, otlpKeys))}
		if r.Intn(14) == 0 {
			kv.K = "__ttl_days__"
			flag(c, "ttl-attr")
			if r.Intn(2) == 0 {
				kv.V = OVal{Kind: "int", I: int64(r.Intn(400))}
			} else {
				kv.V = OVal{Kind: "str", S: Str(pick(r, ttlValues))}
			}
			out = append(out, kv)
			continue
		}
		switch r.Intn(15) {
		case 12, 13, 14:
			kv.V = genOTree(r, 0)
			flag(c, "attr-"+kv.V.Kind)
		case 0:
			kv.V = OVal{Kind: "bool", B: r.Intn(2) == 0}
		case 1, 2:
			kv.V = OVal{Kind: "int", I: r.Int63n(2000000) - 1000000}
		case 3:
			if r.Intn(3) == 0 {
				kv.V = OVal{Kind: "none"}
				flag(c, "attr-without-value")
				break
			}
			fallthrough
		default:
			v := pick(r, valuesAny)
			if r.Intn(12) == 0 {
				v = strings.Repeat("o", 101+r.Intn(30)) // not truncated on this path
			}
			kv.V = OVal{Kind: "str", S: Str(v)}
		}
		out = append(out, kv)
	}
	return out
}

var otlpDoubles = []float64{0, 1, -1, 0.1, 1.5, 100, 1e21, 1e20, 123456789012345680000, 1e-7, 5e-324, 1.7976931348623157e308, math.Inf(1), math.Inf(-1), math.NaN(), 3.141592653589793, -2.5e-10, 1 << 53}

// an any-value of a kind SanitizeValue renders by its own code: double / bytes / array / key-value list (nested to depth 2)
func genOTree(r *rand.Rand, depth int) OVal {
	k := r.Intn(8)
	if depth >= 2 && k >= 4 {
		k = r.Intn(4)
	}
	switch k {
	case 0, 1:
		if r.Intn(3) == 0 {
			return OVal{Kind: "double", F: r.Uint64()}
		}
		return OVal{Kind: "double", F: math.Float64bits(otlpDoubles[r.Intn(len(otlpDoubles))])}
	case 2, 3:
		b := make([]byte, r.Intn(9))
		for i := range b {
			b[i] = byte(r.Intn(256))
		}
		return OVal{Kind: "bytes", S: Str(b)}
	case 4, 5:
		v := OVal{Kind: "arr", Items: []OVal{}}
		for n := r.Intn(4); n > 0; n-- {
			v.Items = append(v.Items, genOLeaf(r, depth+1))
		}
		return v
	}
	v := OVal{Kind: "kv", KVs: []OKV{}}
	for n := r.Intn(4); n > 0; n-- {
		v.KVs = append(v.KVs, OKV{K: Str(pick(r, []string{"a", "b.c", "b_c", "b-c", "9", "", "ü", "<k>"})), V: genOLeaf(r, depth+1)})
	}
	return v
}

func genOLeaf(r *rand.Rand, depth int) OVal {
	switch r.Intn(6) {
	case 0:
		return OVal{Kind: "str", S: Str(pick(r, []string{"", "x", "a\"b", "<tag>&", "ünï\u2028", "line\nbreak", "\x7f\x01"}))}
	case 1:
		return OVal{Kind: "int", I: r.Int63n(2000) - 1000}
	case 2:
		return OVal{Kind: "bool", B: r.Intn(2) == 0}
	case 3:
		return OVal{Kind: "none"}
	}
	return genOTree(r, depth)
}

func genOtlp(r *rand.Rand, c *Case) {
	c.Class = "logs"
	nr := 1 + r.Intn(3)
	for i := 0; i < nr; i++ {
		rl := OResLog{HasRes: r.Intn(7) != 0, Attrs: []OKV{}, Scopes: []OScope{}}
		if rl.HasRes {
			rl.Attrs = genOKVs(r, 3, c)
		} else {
			flag(c, "no-resource")
		}
		for j := 1 + r.Intn(2); j > 0; j-- {
			sl := OScope{HasScope: r.Intn(7) != 0, Attrs: []OKV{}, Records: []ORecord{}}
			if sl.HasScope {
				sl.Attrs = genOKVs(r, 2, c)
			} else {
				flag(c, "no-scope")
			}
			for k := r.Intn(5); k > 0; k-- {
				rec := ORecord{Attrs: genOKVs(r, 3, c), Ts: uint64(genTs(r, r.Intn(2)))}
				if r.Intn(2) == 0 {
					rec.Severity = Str(pick(r, []string{"INFO", "WARN", "error"}))
				}
				if r.Intn(10) != 0 {
					rec.Body = sp(genLine(r))
				}
				if r.Intn(8) == 0 {
					rec.Body = nil
					v := genOLeaf(r, 0)
					if v.Kind != "str" {
						rec.BodyV = &v
						flag(c, "body-"+v.Kind)
					}
				}
				sl.Records = append(sl.Records, rec)
			}
			rl.Scopes = append(rl.Scopes, sl)
		}
		c.Body.Otlp = append(c.Body.Otlp, rl)
	}
}

func reserved(i int) bool {
	return i%400 == 159 || i%400 == 109 || i%400 == 259 || i%400 == 209 || i%400 == 309 || i%200 == 3 || i%400 == 9 || i%1000 == 501 || i%100 == 51 || i%40 == 2 || i%50 == 31
}

// genHistory draws a HISTORY: 2..5 bodies decoded one after another in this process (same parser objects, and for
// half of the histories one shared announcement cache). The bodies are built over a pool of streams that keeps
// growing: known streams come back in other orders and adjacencies, new streams (label strings never seen before
// in the process) are inserted directly after known ones. Every step is checked against the model of that body alone.
func genHistory(r *rand.Rand, start int, n int) []Case {
	steps := 2 + r.Intn(4)
	for k := 0; k < steps; k++ {
		if start+k >= n || reserved(start+k) {
			steps = k
			break
		}
	}
	if steps < 2 {
		return nil
	}
	hid := start + 1
	mode := r.Intn(8) // 0-2: Loki protobuf only; 3,4: Loki JSON only; 5: remote write only; 6,7: mixed protocols
	shared := r.Intn(2) == 0
	fresh := 0
	newStream := func() []KV {
		fresh++
		l := []KV{{"hist", Str(fmt.Sprintf("h%d", hid))}, {"app", Str(fmt.Sprintf("s%d", fresh))}}
		for j := r.Intn(3); j > 0; j-- {
			k := pick(r, []string{"env", "pod", "level", "job"})
			dup := false
			for _, x := range l {
				if string(x.K) == k {
					dup = true
				}
			}
			if !dup {
				l = append(l, KV{Str(k), Str(pick(r, []string{"prod", "dev", "a", "b-1", "x y"}))})
			}
		}
		if r.Intn(4) == 0 {
			l = withTTL(r, l, true)
		}
		return l
	}
	pool := [][]KV{newStream()}
	if r.Intn(2) == 0 {
		pool = append(pool, newStream())
	}
	var out []Case
	for k := 0; k < steps; k++ {
		c := Case{ID: start + k, WSeed: r.Int63(), Hist: hid, Step: k + 1, Class: "history"}
		if shared {
			c.Cache = "shared"
		} else if r.Intn(3) == 0 {
			c.Cache = "set"
		}
		// the streams of this body: known ones in a random order, new ones inserted directly after a known one
		perm := r.Perm(len(pool))
		cnt := 1 + r.Intn(len(pool))
		var seq [][]KV
		for _, idx := range perm[:cnt] {
			seq = append(seq, pool[idx])
			if k > 0 && r.Intn(2) == 0 {
				ns := newStream()
				seq = append(seq, ns)
				pool = append(pool, ns)
			}
		}
		proto := "loki_pb"
		switch {
		case mode <= 2:
		case mode <= 4:
			proto = "loki_json"
		case mode == 5:
			proto = "prw"
		default:
			proto = pick(r, []string{"loki_pb", "loki_pb", "loki_json", "prw", "otlp", "ddlog", "influx", "ddmet"})
		}
		c.Proto = proto
		switch proto {
		case "loki_pb", "loki_json":
			for _, l := range seq {
				c.Body.Loki = append(c.Body.Loki, LStream{Labels: append([]KV{}, l...), Entries: genLokiEntries(r, 1+r.Intn(3), 0, proto == "loki_pb")})
			}
		case "prw":
			for _, l := range seq {
				s := PSeries{Labels: append([]KV{{"__name__", "up"}}, l...), Samples: []PSample{}}
				t := int64(1700000000000) + r.Int63n(1000000)
				for j := 1 + r.Intn(3); j > 0; j-- {
					t += int64(r.Intn(60000))
					s.Samples = append(s.Samples, PSample{TsMs: t, Val: genFloat(r)})
				}
				c.Body.Prw = append(c.Body.Prw, s)
			}
		case "otlp":
			genOtlp(r, &c)
		case "ddlog":
			genDDLog(r, &c)
		case "influx":
			genInflux(r, &c)
		case "ddmet":
			genDDMet(r, &c)
		}
		c.Class = "history"
		if shared {
			c.Class += "+shared-cache"
		}
		if mode >= 6 {
			c.Class += "+mixed-protocols"
		}
		setReads(&c)
		out = append(out, c)
	}
	return out
}

// gen draws case number i. A few indices are reserved for the bodies that cross the two flush
// thresholds (1000 points in remote write, 1 MiB in onEntries) so that every run contains them.
func gen(r *rand.Rand, i int) Case {
	c := Case{ID: i, WSeed: r.Int63()}
	if r.Intn(25) == 0 {
		c.CtxTTL = uint16(1 + r.Intn(90))
	}
	if r.Intn(3) == 0 {
		c.Cache = "set"
	}
	switch {
	case i%400 == 159:
		c.Proto = "ddlog"
		genDDLogBig(r, &c)
	case i%400 == 109:
		c.Proto = "loki_json"
		genLokiLong(r, &c, "entries-first")
	case i%400 == 259:
		c.Proto = "loki_json"
		genLokiLong(r, &c, "labels-first")
	case i%400 == 209:
		c.Proto = "prw"
		genPrw(r, &c, 8)
	case i%400 == 309:
		c.Proto = pick(r, []string{"ddcf", "esbulk"})
		genNDBig(r, &c)
	case i%200 == 3:
		c.Proto = "loki_json"
		genLokiBig(r, &c, 0)
	case i%400 == 9:
		c.Proto = pick(r, []string{"loki_json", "loki_pb"})
		genLokiBig(r, &c, 1)
	case i%1000 == 501:
		c.Proto = "prw"
		genPrw(r, &c, 1)
	case i%100 == 51:
		c.Proto = "prw"
		genPrw(r, &c, 5)
	case i%40 == 2:
		c.Proto = "prw"
		genPrw(r, &c, []int{2, 3, 4, 6}[r.Intn(4)])
	case i%50 == 31:
		c.Proto = "prw"
		genPrw(r, &c, 7)
	default:
		switch r.Intn(16) {
		case 14:
			c.Proto = "ddcf"
			if r.Intn(5) == 0 {
				c.Damage = true
				flag(&c, "damaged-document")
			}
			genCF(r, &c)
		case 15:
			c.Proto = "esbulk"
			if r.Intn(5) == 0 {
				c.Damage = true
				flag(&c, "damaged-document")
			}
			genES(r, &c)
		case 0, 1, 2:
			c.Proto = "loki_json"
			genLoki(r, &c, false)
			if r.Intn(4) == 0 {
				c.Damage = true // one edit in the document tree: a wrong type, a missing / repeated / renamed member, a bad timestamp text
				flag(&c, "damaged-document")
			}
		case 3, 4:
			c.Proto = "loki_pb"
			genLoki(r, &c, true)
		case 5, 6:
			c.Proto = "prw"
			genPrw(r, &c, 0)
		case 7, 8:
			c.Proto = "influx"
			genInflux(r, &c)
		case 9, 10:
			c.Proto = "ddlog"
			genDDLog(r, &c)
			if r.Intn(5) == 0 {
				c.Damage = true
				flag(&c, "damaged-document")
			}
		case 11:
			c.Proto = "ddmet"
			genDDMet(r, &c)
			if r.Intn(4) == 0 {
				c.Damage = true
				flag(&c, "damaged-document")
			}
		default:
			c.Proto = "otlp"
			genOtlp(r, &c)
		}
		// one body in seven is read through a reader that fails part-way (Content-Encoding gzip / snappy stream truncated or
		// corrupted, plain body whose connection breaks)
		if !c.Damage && r.Intn(7) == 0 {
			c.Cut = genCut(r)
			flag(&c, "cut-"+c.Cut.Enc+"-"+c.Cut.Kind)
		}
	}
	setReads(&c)
	return c
}

// jxBufferBytes: the size of the read buffer the JSON decoders give jx (jx.Decode(reader, 64*1024)); a body longer than
// that is decoded across buffer refills
const jxBufferBytes = 64 * 1024

// setReads: one body in three reaches the parser through a reader that returns short reads (1..Reads bytes per call, sizes
// drawn from a PRNG seeded by WSeed), the way an HTTP body arrives in pieces. Derived from WSeed alone, so the stream of
// generated bodies is the one of earlier rounds. A decoder that keeps a reference into its read buffer across a refill
// (jx StrBytes / Raw results, bufio.Scanner.Bytes) shows on small bodies this way.
func setReads(c *Case) {
	if c.Cut != nil || c.WSeed%3 != 0 || strings.HasPrefix(c.Class, "big-body") { // big-body: whole-buffer reads, the refills fall where the generator put them
		return
	}
	c.Reads = []int{1, 5, 16, 40, 100, 300, 1500, 5000}[(c.WSeed/3)%8]
}

// genDDLogBig: a Datadog logs body longer than the decoder's read buffer, every entry written with "message" as its FIRST key
// (the Datadog agent's order). Small entries are placed so that every multiple of the buffer size falls INSIDE one of them,
// between the end of its message value and its closing brace (filler entries with one long message in between; their lengths
// are found by rendering the body with the case's own serialisation seed); a last filler longer than the buffer follows, so
// the buffer is overwritten at least up to where the message stood. What a decoder keeps of an entry while it reads on must
// not live in the read buffer.
func genDDLogBig(r *rand.Rand, c *Case) {
	c.Class = "big-body+message-first"
	c.KeyOrder = "message-first"
	k := 2 + r.Intn(4)
	small := func(i int) DDLog {
		return DDLog{Tags: []KV{{"env", Str(pick(r, ddVals))}}, Message: Str(fmt.Sprintf("small-%d-marker %s", i, pick(r, []string{"GET /index.html 200", "request served in 4 ms", "level=info msg=x"}))),
			TsMs: 1700000000000 + int64(r.Intn(1000000)), Service: sp(pick(r, []string{"web", "payments", "auth"})), Hostname: sp("h1")}
	}
	filler := func(i int, n int) DDLog {
		return DDLog{Tags: []KV{}, Message: Str(fmt.Sprintf("filler-%d-", i) + strings.Repeat(string(rune('a'+i)), n)), TsMs: 1700000000000 + int64(r.Intn(1000000))}
	}
	for i := 1; i <= k; i++ {
		c.Body.DDLog = append(c.Body.DDLog, filler(i, jxBufferBytes-4096), small(i))
		for j := r.Intn(3); j > 0; j-- {
			c.Body.DDLog = append(c.Body.DDLog, small(100*i+j))
		}
	}
	c.Body.DDLog = append(c.Body.DDLog, filler(k+1, jxBufferBytes+1024+r.Intn(4096)), small(k+1))
	fi := 0
	for i := 1; i <= k; i++ {
		wire := string(ddLogJSON(c, rand.New(rand.NewSource(c.WSeed))))
		marker := fmt.Sprintf("small-%d-marker", i)
		at := strings.Index(wire, marker)
		end := at + strings.Index(wire[at:], "\"") + 1 // just behind the closing quote of the message value
		delta := i*jxBufferBytes - (1 + r.Intn(20)) - end
		for !strings.HasPrefix(string(c.Body.DDLog[fi].Message), fmt.Sprintf("filler-%d-", i)) {
			fi++
		}
		m := string(c.Body.DDLog[fi].Message)
		if delta >= 0 {
			m += strings.Repeat(m[len(m)-1:], delta)
		} else {
			m = m[:len(m)+delta]
		}
		c.Body.DDLog[fi].Message = Str(m)
	}
	c.doc = nil
}
