package main

// Timestamp mode (C03_MODE=time): the timestamp texts of the Loki JSON "entries" layout ("ts" / "timestamp") are handed
// to the real parseTime (hook VerifC03ParseTime) and to the model coq/model/LokiTime.v. time.Parse(time.RFC3339, .) is
// Go's library and an oracle of the model: the harness records its verdict on the same text.

import (
	"encoding/json"
	"fmt"
	"math"
	"math/rand"
	"strconv"
	"strings"
	"time"

	"github.com/metrico/qryn/writer/utils/unmarshal"
	"verif/harness/hx"
)

type TCase struct {
	ID    int    `json:"id"`
	Class string `json:"class"`
	Text  Str    `json:"text"`
	// the nanosecond timestamp the text was written from (integer and rfc3339 classes)
	HasWant bool  `json:"has_want"`
	Want    int64 `json:"want"`
	// time.Parse(time.RFC3339, text): the library's verdict on the same text
	RfcOK bool   `json:"rfc_ok"`
	RfcNs int64  `json:"rfc_ns"`
	ObsOK bool   `json:"obs_ok"`
	ObsNs int64  `json:"obs_ns"`
	Panic string `json:"panic,omitempty"`
	Coq   string `json:"coq,omitempty"`
}

func genNs(r *rand.Rand) int64 {
	switch r.Intn(8) {
	case 0:
		return r.Int63n(20*day) - 10*day // around the epoch, both signs
	case 1:
		return -r.Int63n(1 << 62) // far before 1970 (1823..1970)
	case 2:
		return []int64{0, 1, -1, 999999999, -999999999, 1000000000, math.MaxInt64, math.MinInt64, math.MaxInt64 - 1, math.MinInt64 + 1}[r.Intn(10)]
	case 3:
		return r.Int63()
	}
	return int64(1700000000)*1000000000 + r.Int63n(400*day)
}

func genTCase(r *rand.Rand, i int) TCase {
	c := TCase{ID: i}
	switch k := r.Intn(20); {
	case k < 7: // integer nanoseconds, as Loki clients write them
		ns := genNs(r)
		c.Class, c.HasWant, c.Want = "integer", true, ns
		t := strconv.FormatInt(ns, 10)
		switch r.Intn(8) {
		case 0:
			if ns >= 0 {
				t = "+" + t
				c.Class = "integer-plus-sign"
			}
		case 1:
			z := strings.Repeat("0", 1+r.Intn(3))
			if ns < 0 {
				t = "-" + z + t[1:]
			} else {
				t = z + t
			}
			c.Class = "integer-leading-zeros"
		}
		if ns < 0 {
			c.Class += "-negative"
		}
		c.Text = Str(t)
	case k < 13: // RFC 3339
		ns := genNs(r)
		c.Class, c.HasWant, c.Want = "rfc3339", true, ns
		tm := time.Unix(0, ns)
		switch r.Intn(4) {
		case 0:
			tm = tm.UTC()
		case 1:
			tm = tm.In(time.FixedZone("", (r.Intn(28)-14)*3600+r.Intn(4)*900))
		case 2:
			tm = tm.In(time.FixedZone("", r.Intn(2*86399)-86399)) // offsets with seconds are written to the minute: not exact
			c.HasWant = false
			c.Class = "rfc3339-odd-offset"
		default:
			tm = tm.UTC()
		}
		c.Text = Str(tm.Format(time.RFC3339Nano))
		if y := tm.Year(); y < 0 || y > 9999 {
			c.HasWant = false
			c.Class = "rfc3339-year-out-of-range"
		}
	case k < 16: // out of range / malformed integers
		c.Class = "integer-malformed"
		c.Text = Str(pick(r, []string{"", "+", "9223372036854775808", "99999999999999999999", "1_000", "0x10", "12a", " 12", "12 ", "1e9", "1.5",
			"1700000000.123", "١٢٣", "--1", "+-1", "18446744073709551615", "-", "-9223372036854775808", "-9223372036854775809", "-0", "-5", "-1700000000000000000"}))
	default:
		c.Class = "other"
		base := time.Unix(0, genNs(r)).UTC().Format(time.RFC3339Nano)
		switch r.Intn(6) {
		case 0:
			c.Text = Str(strings.Replace(base, "T", " ", 1))
		case 1:
			c.Text = Str(strings.ToLower(base))
		case 2:
			c.Text = Str(strings.TrimSuffix(base, "Z"))
		case 3:
			c.Text = Str(base[:10])
		case 4:
			c.Text = Str(strings.Replace(base, ".", ",", 1))
		default:
			c.Text = Str(damage(r, base))
		}
	}
	return c
}

func runTCase(c *TCase) {
	t := string(c.Text)
	if v, err := time.Parse(time.RFC3339, t); err == nil {
		c.RfcOK, c.RfcNs = true, v.UTC().UnixNano()
	} else {
		c.RfcOK, c.RfcNs = false, 0
	}
	c.ObsOK, c.ObsNs, c.Panic = false, 0, ""
	c.Panic = hx.Catch(func() {
		v, err := unmarshal.VerifC03ParseTime([]byte(t))
		if err == nil {
			c.ObsOK, c.ObsNs = true, v
		}
	})
	opt := func(ok bool, v int64) string {
		if !ok {
			return "None"
		}
		return "(Some " + cz(v) + ")"
	}
	c.Coq = fmt.Sprintf("TCase %d %s %s %s %s", c.ID, cstr(c.Text), opt(c.HasWant, c.Want), opt(c.RfcOK, c.RfcNs), opt(c.ObsOK && c.Panic == "", c.ObsNs))
}

func timeMain(f *hx.Flags) {
	out := hx.OpenOut(f.Out)
	defer out.Close()
	if f.Cases != "" {
		hx.ReadLines(f.Cases, func(b []byte) {
			var c TCase
			if err := json.Unmarshal(b, &c); err != nil {
				panic(fmt.Sprintf("bad case line: %v", err))
			}
			runTCase(&c)
			out.Put(c)
		})
		return
	}
	r := hx.Rand(f.Seed)
	for i := 0; i < f.N; i++ {
		c := genTCase(r, i)
		runTCase(&c)
		out.Put(c)
	}
}
