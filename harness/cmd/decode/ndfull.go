package main

// Full row content for the two line-by-line decoders (protos "ddcf": UnmarshallDatadogCFJSONV2, "esbulk":
// ElasticBulkUnmarshalV2). Every body line is a JSON object built as a tree (JV); the wire text of the line is its
// rendering and is also the text the row must carry. The trees go into the Coq case (coq/model/NdjsonWalk.v walks them
// the way decodeRootObj / decodeLine walk the jx tokens), the abstract lines of coq/model/Decode.v are what the walk
// makes of them. Both decoders stamp rows with time.Now(): see clockOf.

import (
	"fmt"
	"math/rand"
	"strconv"
	"strings"
)

type NDLine struct {
	Doc *JV `json:"doc,omitempty"` // nil: an empty line
}

func (l NDLine) text() string {
	if l.Doc == nil {
		return ""
	}
	var sb strings.Builder
	l.Doc.render(&sb)
	return sb.String()
}

var cfStrKeys = []string{"EventType", "Outcome", "ScriptName", "ActionType", "ActorType", "ResourceType"}
var cfVals = []string{"ok", "exception", "fetch", "worker-prod", "login", "user", "zone", "canceled", "scheduled", "名前", "a b", "x\"y", ""}

func ndJunk(r *rand.Rand) JV {
	switch r.Intn(6) {
	case 0:
		return JV{K: "null"}
	case 1:
		return JV{K: "bool", B: r.Intn(2) == 0}
	case 2:
		return jN(strconv.Itoa(r.Intn(100000)))
	case 3:
		return jA(jS(genLine(r)), jN("1.5"))
	case 4:
		return jO(kv("RayID", jS("7f"+strconv.Itoa(r.Intn(9999)))), kv("n", jN(strconv.Itoa(r.Intn(9)))))
	}
	return jS(pick(r, cfVals))
}

// one Cloudflare line; damage > 0 picks the malformation
func genCFLine(r *rand.Rand, c *Case, damage int) NDLine {
	var m []JKV
	switch r.Intn(12) {
	case 0: // no timestamp: the clock
		flag(c, "clock-stamped")
	case 1:
		m = append(m, kv("EventTimestampMs", jS("1700000000000"))) // a value of another type is skipped: the clock
		flag(c, "clock-stamped")
	case 2:
		m = append(m, kv("EventTimestampMs", jN("0"))) // zero counts as absent
		flag(c, "clock-stamped")
	case 3, 4:
		m = append(m, kv("When", jN(strconv.FormatInt(genTs(r, r.Intn(2)), 10))))
	case 5:
		m = append(m, kv("When", jN(strconv.FormatInt(genTs(r, 1), 10))), kv("EventTimestampMs", jN(strconv.FormatInt(genTs(r, 1)/1000000, 10))))
		flag(c, "two-timestamps")
	default:
		m = append(m, kv("EventTimestampMs", jN(strconv.FormatInt(genTs(r, r.Intn(2))/1000000, 10))))
	}
	for _, k := range cfStrKeys {
		if r.Intn(5) < 2 {
			m = append(m, kv(k, jS(pick(r, cfVals))))
			if r.Intn(12) == 0 {
				m = append(m, kv(k, jS(pick(r, cfVals)))) // a repeated key: the last one counts
				flag(c, "repeated-key")
			}
		}
	}
	if r.Intn(4) == 0 {
		m = append(m, kv("ActionResult", JV{K: "bool", B: r.Intn(2) == 0}))
	}
	for j := r.Intn(3); j > 0; j-- {
		m = append(m, kv(pick(r, []string{"Logs", "Event", "Exceptions", "ddsource", "scriptname", "message"}), ndJunk(r)))
	}
	switch damage {
	case 1:
		m = append(m, kv(pick(r, cfStrKeys), ndJunk2(r, "str")))
	case 2:
		m = append(m, kv("ActionResult", ndJunk2(r, "bool")))
	case 3:
		m = append(m, kv(pick(r, []string{"EventTimestampMs", "When"}), jN(pick(r, []string{"1.7e12", "1700000000000.5", "9223372036854775808", "-9223372036854775809"}))))
	case 4:
		return NDLine{}
	case 5:
		d := jA(jN("1"))
		return NDLine{Doc: &d}
	}
	o := shuffledObject(r, m)
	return NDLine{Doc: &o}
}

// a value that is NOT of kind not
func ndJunk2(r *rand.Rand, not string) JV {
	for {
		v := ndJunk(r)
		if v.K != not {
			return v
		}
	}
}

func genCF(r *rand.Rand, c *Case) {
	c.Class = "cloudflare"
	if c.Damage {
		flag(c, "damaged-document")
	}
	c.Body.NDCtx = Str(pick(r, []string{"cloudflare", "cf-worker", ""}))
	n := 1 + r.Intn(6)
	damageAt := -1
	if c.Damage {
		damageAt = r.Intn(n)
	}
	for i := 0; i < n; i++ {
		d := 0
		if i == damageAt {
			d = 1 + r.Intn(5)
		}
		c.Body.ND = append(c.Body.ND, genCFLine(r, c, d))
	}
}

func esDocLine(r *rand.Rand) NDLine {
	m := []JKV{kv("message", jS(genLine(r)))}
	if r.Intn(5) == 0 { // a document with a field named like a bulk action (class doc-with-action-key)
		m = append(m, kv(pick(r, []string{"index", "create", "update", "delete"}), ndJunk(r)))
	}
	for j := r.Intn(3); j > 0; j-- {
		m = append(m, kv(pick(r, []string{"level", "host", "n", "tags", "@timestamp", "doc", "_index", "type"}), ndJunk(r)))
	}
	o := shuffledObject(r, m)
	return NDLine{Doc: &o}
}

func genES(r *rand.Rand, c *Case) {
	c.Class = "bulk"
	if c.Damage {
		flag(c, "damaged-document")
	}
	c.Body.NDCtx = Str(pick(r, []string{"idx", "logs-2024", ""}))
	if r.Intn(6) == 0 {
		c.Body.ND = append(c.Body.ND, esDocLine(r)) // a document before any action line: no labels in force
		flag(c, "doc-before-action")
	}
	for n := 1 + r.Intn(5); n > 0; n-- {
		op := pick(r, []string{"index", "index", "create", "create", "delete", "update"})
		var am []JKV
		for _, k := range []string{"_id", "_index", "routing", "type", "pipeline"} {
			if r.Intn(3) == 0 {
				am = append(am, kv(k, jS(pick(r, []string{"7", "a-1", "logs", "elastic", "名", ""}))))
			}
		}
		if r.Intn(4) == 0 {
			am = append(am, kv(pick(r, []string{"retry_on_conflict", "version", "_id"}), ndJunk2(r, "str")))
		}
		action := []JKV{kv(op, shuffledObject(r, am))}
		if r.Intn(8) == 0 {
			action = append(action, kv(pick(r, []string{"index", "delete", "x"}), ndJunk(r))) // behind the first action key: skipped
			flag(c, "second-action-key")
		}
		if r.Intn(8) == 0 {
			action = append([]JKV{kv("x-opaque", ndJunk(r))}, action...)
		}
		a := jO(action...)
		if c.Damage && n == 1 {
			switch r.Intn(2) {
			case 0:
				a = jO(kv(pick(r, []string{"index", "create"}), ndJunk2(r, "obj"))) // the action value is no object
			default:
				a = jA(jS("index"))
			}
		}
		c.Body.ND = append(c.Body.ND, NDLine{Doc: &a})
		if r.Intn(10) == 0 {
			c.Body.ND = append(c.Body.ND, NDLine{})
			flag(c, "blank-line")
		}
		switch op {
		case "delete":
		default:
			c.Body.ND = append(c.Body.ND, esDocLine(r))
			if r.Intn(7) == 0 {
				c.Body.ND = append(c.Body.ND, esDocLine(r)) // a second document line under the same action
				flag(c, "two-docs-one-action")
			}
		}
	}
}

// a newline-delimited body whose lines cross the size threshold of onEntries: a few lines of 250-400 kB each
func genNDBig(r *rand.Rand, c *Case) {
	c.Class = "big-lines"
	th := envInt("C03_THRESHOLD", 1<<20)
	n := 4 + r.Intn(3)
	if c.Proto == "ddcf" {
		c.Body.NDCtx = "cloudflare"
		for i := 0; i < n; i++ {
			o := jO(kv("EventTimestampMs", jN(strconv.FormatInt(genTs(r, 0)/1000000, 10))), kv("ScriptName", jS(fmt.Sprintf("w%d", i%2))),
				kv("Logs", jA(jS(strings.Repeat("x", th/4+r.Intn(th/8))))), kv("Outcome", jS("ok")))
			c.Body.ND = append(c.Body.ND, NDLine{Doc: &o})
		}
		return
	}
	c.Body.NDCtx = "idx"
	for i := 0; i < n; i++ {
		a := jO(kv("index", jO(kv("_id", jS(strconv.Itoa(i%2))))))
		d := jO(kv("n", jN(strconv.Itoa(i))), kv("message", jS(strings.Repeat("y", th/4+r.Intn(th/8)))))
		c.Body.ND = append(c.Body.ND, NDLine{Doc: &a}, NDLine{Doc: &d})
	}
}

// the body: the lines joined by \n (or \r\n: bufio.ScanLines drops the \r), with or without a final line end
func ndWire(c *Case, r *rand.Rand) []byte {
	eol := "\n"
	if r.Intn(5) == 0 {
		eol = "\r\n"
	}
	var sb strings.Builder
	for i, l := range c.Body.ND {
		sb.WriteString(l.text())
		if i < len(c.Body.ND)-1 || r.Intn(3) != 0 || l.Doc == nil {
			sb.WriteString(eol)
		}
	}
	return []byte(sb.String())
}

// clockOf: the decoders of ddlog / ddcf / esbulk read time.Now() for every row. The readings are an oracle of the model
// (coq/model/Decode.v clock): a row whose timestamp lies between the clock just before the parser was started (T0) and just
// after its channel was closed (T1) is taken to be a reading; any other row gets T0 as its reading, so a row that should
// have been stamped but carries a time outside the request is seen by the row comparison.
func clockOf(c *Case, atLeast int) string {
	var nows []int64
	for _, k := range c.Obs.Chunks {
		for _, t := range k.Ts {
			if t >= c.Obs.T0 && t <= c.Obs.T1 {
				nows = append(nows, t)
			} else {
				nows = append(nows, c.Obs.T0)
			}
		}
	}
	for len(nows) < atLeast+4 {
		nows = append(nows, c.Obs.T0)
	}
	return fmt.Sprintf("(CK %s %s %s)", cz(c.Obs.T0), cz(c.Obs.T1), czs(nows))
}

func ndCoqLines(c *Case) string {
	xs := make([]string, len(c.Body.ND))
	for i, l := range c.Body.ND {
		if l.Doc == nil {
			xs[i] = `("", None)`
		} else {
			xs[i] = "(" + cstr(Str(l.text())) + ", Some " + l.Doc.coq() + ")"
		}
	}
	return clist(xs)
}

// number of lines that hold an entry, by the harness's own reading (coverage accounting only)
func ndEntries(c *Case) int {
	if c.Proto == "ddcf" {
		return len(c.Body.ND)
	}
	n, lbl, source := 0, false, false
	for _, l := range c.Body.ND {
		if l.Doc == nil {
			continue
		}
		if source {
			source = false
			n++
			continue
		}
		if l.Doc.K != "obj" {
			continue
		}
		act := ""
		for _, m := range l.Doc.O {
			if m.Key == "delete" || m.Key == "update" || m.Key == "index" || m.Key == "create" {
				act = m.Key
				break
			}
		}
		switch act {
		case "delete", "update":
			lbl = false
		case "index", "create":
			lbl, source = true, true
		default:
			if lbl {
				n++
			}
		}
	}
	return n
}
