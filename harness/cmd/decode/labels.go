package main

// Label-string mode (C03_MODE=labels): texts in the Loki label syntax {name="value", ...} are handed to the real
// parseLabelsLokiFormat (through the add-only hook VerifC03ParseLabelsLokiFormat) and to the model
// coq/model/LokiLabels.v. Three families: texts WRITTEN from a label list by writers of the syntax (the property
// demands that they are read back as that list), written texts damaged by a few byte edits, and token soups.

import (
	"encoding/json"
	"fmt"
	"math/rand"
	"os"
	"strconv"
	"strings"
	"unicode"
	"unicode/utf8"

	"github.com/metrico/qryn/writer/utils/unmarshal"
	"verif/harness/hx"
)

type LObs struct {
	Kind   string `json:"kind"` // ok | error | panic
	Labels []KV   `json:"labels,omitempty"`
	Msg    string `json:"msg,omitempty"`
}

type LCase struct {
	ID      int    `json:"id"`
	Class   string `json:"class"`
	Text    Str    `json:"text"`
	Buf     []KV   `json:"buf"`
	Src     []KV   `json:"src,omitempty"` // the label list the text was written from
	HasSrc  bool   `json:"has_src"`
	Letters []Str  `json:"letters"` // runes outside ASCII occurring in the text for which unicode.IsLetter holds
	Digits  []Str  `json:"digits"`
	Obs     LObs   `json:"obs"`
	Coq     string `json:"coq,omitempty"`
}

var lblNames = []string{"app", "job", "level", "host", "_private", "x9", "__name__", "CamelCase", "a", "_", "k8s_pod", "__ttl_days__", "A1_b2"}
var lblNamesUni = []string{"héllo", "名前", "é", "x٣", "ñ_1", "_é"} // identifiers of text/scanner, not of Loki
var lblValues = []string{"api", "prod", "us-east-1", "a\"quote", "back\\slash", "line\nbreak", "üñí", "", "{}", "1", "tab\there",
	"café ☃", "x=y,z", "a,b=\"c\"}", "/* not a comment */", "// neither", "`raw`", "'c'", "\x00nul", "\x7fdel", "bell\a", "\u200bzero-width",
	"\xff\xfe not utf-8", "half \xe2\x82", "𝒳 four bytes", "\ufeffbom", "}{", "\\", "\"", "\\\"", "\r\n", "\v\f\b"}

func genLblValue(r *rand.Rand) string {
	switch r.Intn(8) {
	case 0:
		n := r.Intn(12)
		b := make([]byte, n)
		for i := range b {
			b[i] = byte(r.Intn(256))
		}
		return string(b)
	case 1:
		alphabet := []string{"\"", "\\", "\n", "a", "é", "☃", "\x80", "\xc3", "}", ",", "=", " ", "\t", "x", "4", "1"}
		var sb strings.Builder
		for i := r.Intn(10); i > 0; i-- {
			sb.WriteString(alphabet[r.Intn(len(alphabet))])
		}
		return sb.String()
	}
	return pick(r, lblValues)
}

func genLblSet(r *rand.Rand, uni bool) []KV {
	n := 1 + r.Intn(4)
	out := make([]KV, 0, n)
	for i := 0; i < n; i++ {
		k := pick(r, lblNames)
		if uni && r.Intn(3) == 0 {
			k = pick(r, lblNamesUni)
		}
		out = append(out, KV{Str(k), Str(genLblValue(r))}) // repeated names are kept: the parser does not care
	}
	return out
}

// writeEscaped writes a value between double quotes choosing, byte by byte, among the forms the Go string syntax
// offers; bytes that are not part of a well-formed UTF-8 sequence are never written raw (they would not survive)
func writeEscaped(r *rand.Rand, v string) string {
	var sb strings.Builder
	sb.WriteByte('"')
	for i := 0; i < len(v); {
		c := v[i]
		if c >= utf8.RuneSelf {
			rn, w := utf8.DecodeRuneInString(v[i:])
			if rn == utf8.RuneError && w == 1 {
				if r.Intn(2) == 0 {
					fmt.Fprintf(&sb, "\\x%02x", c)
				} else {
					fmt.Fprintf(&sb, "\\%03o", c)
				}
				i++
				continue
			}
			switch r.Intn(6) {
			case 0:
				if rn <= 0xffff {
					fmt.Fprintf(&sb, "\\u%04x", rn)
				} else {
					fmt.Fprintf(&sb, "\\U%08X", rn)
				}
			case 1:
				for k := 0; k < w; k++ {
					fmt.Fprintf(&sb, "\\x%02X", v[i+k])
				}
			default:
				sb.WriteString(v[i : i+w])
			}
			i += w
			continue
		}
		simple := map[byte]string{'\a': `\a`, '\b': `\b`, '\f': `\f`, '\n': `\n`, '\r': `\r`, '\t': `\t`, '\v': `\v`, '\\': `\\`, '"': `\"`}
		must := c == '"' || c == '\\' || c == '\n'
		switch k := r.Intn(8); {
		case simple[c] != "" && (must && k < 5 || k == 0):
			sb.WriteString(simple[c])
		case k == 1 || must && k == 5:
			fmt.Fprintf(&sb, "\\x%02x", c)
		case k == 2 || must && k == 6:
			fmt.Fprintf(&sb, "\\%03o", c)
		case k == 3 || must:
			fmt.Fprintf(&sb, "\\u%04X", c)
		default:
			sb.WriteByte(c)
		}
		i++
	}
	sb.WriteByte('"')
	return sb.String()
}

var blanks = []string{"", "", "", " ", " ", "  ", "\t", "\n", "\r\n", " /* c */ ", "/**/", "// line\n", "/* * / ** */", " // {a=\"b\"}\n "}

// writeLabels: style 0 = name=strconv.Quote(value) joined by "," (the serialiser of the Loki protobuf bodies of this
// harness and of Prometheus' Labels.String apart from the blank); 1 = the same joined by ", "; 2 = escapes chosen at
// random; 3 = escapes at random and white space / comments between the tokens
func writeLabels(r *rand.Rand, ls []KV, style int) string {
	bl := func() string {
		if style == 3 {
			return blanks[r.Intn(len(blanks))]
		}
		return ""
	}
	var sb strings.Builder
	sb.WriteString(bl() + "{")
	for i, kv := range ls {
		if i > 0 {
			sb.WriteString(bl() + ",")
			if style == 1 {
				sb.WriteString(" ")
			}
		}
		sb.WriteString(bl() + string(kv.K) + bl() + "=" + bl())
		if style <= 1 {
			sb.WriteString(strconv.Quote(string(kv.V)))
		} else {
			sb.WriteString(writeEscaped(r, string(kv.V)))
		}
	}
	sb.WriteString(bl() + "}")
	if style == 3 && r.Intn(3) == 0 {
		sb.WriteString(bl())
	}
	return sb.String()
}

var soup = []string{"{", "}", "=", ",", "\"abc\"", "\"a\\\"b\"", "\"\"", "app", "job", "_x", "x1", "12", "1.5", ".5", "0x1f", "'c'", "'ab'", "`raw`",
	"/*c*/", "//c\n", "/", " ", "\n", "\t", "\"unterminated", "\\", "é", "名", "☃", "٣", "\ufeff", "\x00", "\xff", "\"\\q\"", "\"\\x4\"",
	"\"\\u00e9\"", "\"\\400\"", "\"\\377\"", "\"\\ud800\"", "\"\\U00110000\"", "\"a\nb\"", "/*", "*/", "-", "e", "1e5", "\"\\'\"", "..", "a.b", "a-b", "{a=\"b\"}"}

func damage(r *rand.Rand, t string) string {
	b := []byte(t)
	alphabet := []byte("{}=,\"\\ \n/*ab1_'`.\xc3\xa9\xff\x00")
	for k := 1 + r.Intn(3); k > 0; k-- {
		if len(b) == 0 {
			b = append(b, alphabet[r.Intn(len(alphabet))])
			continue
		}
		p := r.Intn(len(b))
		switch r.Intn(6) {
		case 0:
			b = append(b[:p], b[p+1:]...)
		case 1:
			b = append(b[:p], append([]byte{alphabet[r.Intn(len(alphabet))]}, b[p:]...)...)
		case 2:
			b[p] = alphabet[r.Intn(len(alphabet))]
		case 3:
			b = b[:p]
		case 4:
			q := p + r.Intn(len(b)-p)
			b = append(b[:q], append(append([]byte{}, b[p:q]...), b[q:]...)...)
		default:
			q := r.Intn(len(b))
			b[p], b[q] = b[q], b[p]
		}
	}
	return string(b)
}

func genLCase(r *rand.Rand, i int) LCase {
	c := LCase{ID: i, Buf: []KV{}}
	for k := r.Intn(5) - 2; k > 0; k-- {
		c.Buf = append(c.Buf, KV{Str(pick(r, lblNames)), Str(pick(r, lblValues))})
	}
	switch k := r.Intn(20); {
	case k < 9:
		style := r.Intn(4)
		ls := genLblSet(r, r.Intn(4) == 0)
		c.Class = fmt.Sprintf("written-style%d", style)
		c.Text = Str(writeLabels(r, ls, style))
		c.Src, c.HasSrc = ls, true
	case k < 15:
		ls := genLblSet(r, r.Intn(4) == 0)
		c.Class = "damaged"
		c.Text = Str(damage(r, writeLabels(r, ls, r.Intn(4))))
	default:
		c.Class = "soup"
		var sb strings.Builder
		if r.Intn(2) == 0 {
			sb.WriteString("{")
		}
		for n := r.Intn(9); n > 0; n-- {
			sb.WriteString(soup[r.Intn(len(soup))])
		}
		c.Text = Str(sb.String())
	}
	return c
}

func runLCase(c *LCase) {
	seenL, seenD := map[string]bool{}, map[string]bool{}
	c.Letters, c.Digits = []Str{}, []Str{}
	t := string(c.Text)
	for i := 0; i < len(t); {
		rn, w := utf8.DecodeRuneInString(t[i:])
		if rn >= utf8.RuneSelf && !(rn == utf8.RuneError && w == 1) {
			s := t[i : i+w]
			if unicode.IsLetter(rn) && !seenL[s] {
				seenL[s] = true
				c.Letters = append(c.Letters, Str(s))
			}
			if unicode.IsDigit(rn) && !seenD[s] {
				seenD[s] = true
				c.Digits = append(c.Digits, Str(s))
			}
		}
		i += w
	}
	buf := make([][]string, 0, len(c.Buf)+4)
	for _, kv := range c.Buf {
		buf = append(buf, []string{string(kv.K), string(kv.V)})
	}
	c.Obs = LObs{}
	p := hx.Catch(func() {
		out, err := unmarshal.VerifC03ParseLabelsLokiFormat([]byte(t), buf)
		if err != nil {
			c.Obs.Kind, c.Obs.Msg = "error", err.Error()
			if len(c.Obs.Msg) > 120 {
				c.Obs.Msg = c.Obs.Msg[:120]
			}
			return
		}
		c.Obs.Kind = "ok"
		c.Obs.Labels = []KV{}
		for _, l := range out {
			c.Obs.Labels = append(c.Obs.Labels, KV{Str(l[0]), Str(l[1])})
		}
	})
	if p != "" {
		c.Obs = LObs{Kind: "panic", Msg: p}
	}
	strs := func(xs []Str) string {
		ys := make([]string, len(xs))
		for i, x := range xs {
			ys[i] = cstr(x)
		}
		return clist(ys)
	}
	src := "None"
	if c.HasSrc {
		src = "(Some " + clabels(c.Src) + ")"
	}
	obs := "None"
	if c.Obs.Kind == "ok" {
		obs = "(Some " + clabels(c.Obs.Labels) + ")"
	}
	c.Coq = fmt.Sprintf("LCase %d %s %s %s %s %s %s", c.ID, cstr(c.Text), clabels(c.Buf), strs(c.Letters), strs(c.Digits), src, obs)
}

func labelsMain(f *hx.Flags) {
	// text/scanner reports token errors on os.Stderr when no handler is installed, as in the code under test
	if dn, err := os.OpenFile(os.DevNull, os.O_WRONLY, 0); err == nil {
		os.Stderr = dn
	}
	out := hx.OpenOut(f.Out)
	defer out.Close()
	if f.Cases != "" {
		hx.ReadLines(f.Cases, func(b []byte) {
			var c LCase
			if err := json.Unmarshal(b, &c); err != nil {
				panic(fmt.Sprintf("bad case line: %v", err))
			}
			runLCase(&c)
			out.Put(c)
		})
		return
	}
	r := hx.Rand(f.Seed)
	for i := 0; i < f.N; i++ {
		c := genLCase(r, i)
		runLCase(&c)
		out.Put(c)
	}
}
