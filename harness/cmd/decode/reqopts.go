package main

// Request-options mode (C03_MODE=reqopts): the glue between the HTTP request and the parser context, model
// coq/model/ReqOpts.v. Two kinds of cases:
//   - middleware only: a request with an X-Ttl-Days header text goes through the real WithOverallContextMiddleware
//     (its pre-request function, taken from the exported build option); TTL_DAYS is read from the request context;
//   - the Influx route: a request with header text, precision parameter text and a small line-protocol body goes through
//     the real handler controllerv1.PushInfluxV2 (middleware, services from a recording registry, the precision closure,
//     doParse with the real UnmarshalInfluxDBLogsV2, doPush); observed: the HTTP status, TTL_DAYS and precision of the
//     request context afterwards (the handler replaces *r in place), and the (timestamp, TTL) of every sample row the
//     samples service received.
// The generator knows what it wrote the texts from (want_*); texts outside the written classes carry no expectation and
// are compared with the model only.

import (
	"bytes"
	"encoding/json"
	"fmt"
	"math/rand"
	"net/http"
	"net/http/httptest"
	"net/url"
	"os"
	"strconv"
	"strings"
	"sync"
	"time"
	"unsafe"

	"github.com/metrico/qryn/writer/config"
	controllerv1 "github.com/metrico/qryn/writer/controller"
	"github.com/metrico/qryn/writer/model"
	"github.com/metrico/qryn/writer/service"
	"github.com/metrico/qryn/writer/utils/helpers"
	"github.com/metrico/qryn/writer/utils/numbercache"
	"github.com/metrico/qryn/writer/utils/promise"
	"verif/harness/hx"
)

type ORow struct {
	Ts  int64  `json:"ts"`
	TTL uint16 `json:"ttl"`
}

type OCase struct {
	ID     int    `json:"id"`
	Class  string `json:"class"`
	HasHdr bool   `json:"has_hdr"`
	Hdr    Str    `json:"hdr"`
	HasQ   bool   `json:"has_q"`
	Query  Str    `json:"query"`
	Influx bool   `json:"influx"`
	Lines  []ILine `json:"lines"`
	// expectations of the generator
	HasWantTTL  bool   `json:"has_want_ttl"`
	WantTTL     uint16 `json:"want_ttl"`
	HasWantPrec bool   `json:"has_want_prec"`
	WantPrec    int64  `json:"want_prec"`
	HasWantRows bool   `json:"has_want_rows"`
	WantRows    []ORow `json:"want_rows"`
	// observations
	Status  int    `json:"status"`
	ObsTTL  int    `json:"obs_ttl"` // -1: no TTL_DAYS in the context
	HasPrec bool   `json:"has_prec"`
	ObsPrec int64  `json:"obs_prec"`
	Rows    []ORow `json:"rows"`
	Panic   string `json:"panic,omitempty"`
	Coq     string `json:"coq,omitempty"`
}

// ---------------------------------------------------------------- a registry whose samples service records what it is sent

type recSvc struct {
	mu     *sync.Mutex
	rows   *[]ORow
	series *[]string // the label documents of the time_series rows handed over
}

func (s recSvc) Run()  {}
func (s recSvc) Stop() {}
func (s recSvc) Request(req helpers.SizeGetter, insertMode int) *promise.Promise[uint32] {
	if d, ok := req.(*model.TimeSamplesData); ok && s.rows != nil {
		s.mu.Lock()
		for i := range d.MTimestampNS {
			ttl := uint16(0xffff)
			if i < len(d.MTTLDays) {
				ttl = d.MTTLDays[i]
			}
			*s.rows = append(*s.rows, ORow{d.MTimestampNS[i], ttl})
		}
		s.mu.Unlock()
	}
	if d, ok := req.(*model.TimeSeriesData); ok && s.series != nil {
		s.mu.Lock()
		*s.series = append(*s.series, d.MLabels...)
		s.mu.Unlock()
	}
	return promise.Fulfilled[uint32](nil, 0)
}
func (s recSvc) Ping() (time.Time, error) { return time.Now(), nil }
func (s recSvc) GetState(int) int         { return 0 }
func (s recSvc) GetNodeName() string      { return "n1" }
func (s recSvc) Init()                    {}
func (s recSvc) PlanFlush()               {}

type recRegistry struct {
	spl, ts recSvc
}

func (r recRegistry) GetTimeSeriesService(string) (service.IInsertServiceV2, error)    { return r.ts, nil }
func (r recRegistry) GetSamplesService(string) (service.IInsertServiceV2, error)       { return r.spl, nil }
func (r recRegistry) GetMetricsService(string) (service.IInsertServiceV2, error)       { return recSvc{}, nil }
func (r recRegistry) GetSpansService(string) (service.IInsertServiceV2, error)         { return recSvc{}, nil }
func (r recRegistry) GetSpansSeriesService(string) (service.IInsertServiceV2, error)   { return recSvc{}, nil }
func (r recRegistry) GetProfileInsertService(string) (service.IInsertServiceV2, error) { return recSvc{}, nil }
func (r recRegistry) Run()                                                              {}
func (r recRegistry) Stop()                                                             {}

var (
	optMu     sync.Mutex
	optRows   []ORow
	optSeries []string
)

func reqoptsSetup() {
	config.Cloki.Setting.SYSTEM_SETTINGS.RetryAttempts = 1
	config.Cloki.Setting.SYSTEM_SETTINGS.RetryTimeoutS = 0
	helpers.SetGlobalLimit(256 << 20)
	controllerv1.Registry = recRegistry{spl: recSvc{mu: &optMu, rows: &optRows}, ts: recSvc{mu: &optMu, series: &optSeries}}
	controllerv1.FPCache = numbercache.NewCache[uint64](time.Minute*30, func(val uint64) []byte {
		return unsafe.Slice((*byte)(unsafe.Pointer(&val)), 8)
	}, map[string]*model.DataDatabasesMap{"n1": {}})
}

// ---------------------------------------------------------------- generator

var unitsNs = map[string]int64{"": 1, "ns": 1, "us": 1000, "ms": 1000000, "s": 1000000000}

func genHdr(r *rand.Rand, c *OCase) {
	switch k := r.Intn(20); {
	case k < 2: // no header
		c.Class += "hdr-absent"
		c.HasWantTTL, c.WantTTL = true, 0
	case k < 10: // written from a number, with leading zeros in one of four
		n := []int{0, 1, 7, 30, 255, 256, 365, 32767, 32768, 65535, r.Intn(65536), r.Intn(400)}[r.Intn(12)]
		t := strconv.Itoa(n)
		if r.Intn(4) == 0 {
			t = strings.Repeat("0", 1+r.Intn(25)) + t
		}
		c.HasHdr, c.Hdr = true, Str(t)
		c.HasWantTTL, c.WantTTL = true, uint16(n)
		c.Class += "hdr-number"
	case k < 13: // digits out of range: no TTL of its own
		t := []string{"65536", "65537", "70000", "99999", "131072", "4294967296", "18446744073709551616", "99999999999999999999999999", strconv.Itoa(65536 + r.Intn(1<<20))}[r.Intn(9)]
		c.HasHdr, c.Hdr = true, Str(t)
		c.Class += "hdr-out-of-range"
	default: // texts that are no plain decimal number
		base := strconv.Itoa([]int{0, 7, 30, 365, 65535}[r.Intn(5)])
		t := []string{"", "+" + base, "-" + base, " " + base, base + " ", "0x1e", "1_0", base + ".0", base + "d", "1e2", "٣٠", "１２", "seven", "\t" + base, base + "\x00", "0b11", "0o17", "--1", "3 0"}[r.Intn(19)]
		c.HasHdr, c.Hdr = true, Str(t)
		c.Class += "hdr-other-text"
	}
}

func genOCase(r *rand.Rand, i int) OCase {
	c := OCase{ID: i, Rows: []ORow{}, Lines: []ILine{}, WantRows: []ORow{}}
	genHdr(r, &c)
	if i%3 != 0 {
		c.Class = "middleware/" + c.Class
		return c
	}
	c.Influx = true
	c.Class = "influx-route/" + c.Class
	switch k := r.Intn(10); {
	case k < 1:
		c.Class += "+precision-absent"
		c.HasWantPrec, c.WantPrec = true, 1
	case k < 7:
		u := []string{"", "ns", "us", "ms", "s"}[r.Intn(5)]
		c.HasQ, c.Query = true, Str(u)
		c.HasWantPrec, c.WantPrec = true, unitsNs[u]
		c.Class += "+precision-unit"
	default:
		u := []string{"NS", "Ms", "S", "m", "h", "u", "n", "µs", "μs", "sec", "ns ", " ms", "1", "1000", "s,ms", "ms\n", "usec", "nsns", "\x00"}[r.Intn(19)]
		c.HasQ, c.Query = true, Str(u)
		c.Class += "+precision-other-text"
	}
	prec := c.WantPrec
	if prec == 0 {
		prec = 1
	}
	nl := 1 + r.Intn(3)
	for k := 0; k < nl; k++ {
		// a timestamp in units of the precision whose product with it fits int64: around 2023, both sides of the epoch, 0
		var ts int64
		switch r.Intn(5) {
		case 0:
			ts = r.Int63n(2000) - 1000
		case 1:
			ts = -(1700000000000000000 / prec) + r.Int63n(1000)
		default:
			ts = 1700000000000000000/prec + r.Int63n(86400*30*1000000000/prec+1)
		}
		l := ILine{Meas: Str(fmt.Sprintf("m%d", r.Intn(3))), Tags: []KV{{"host", Str(fmt.Sprintf("h%d", r.Intn(4)))}},
			Fields: []IField{{Name: "value", Kind: "int", I: r.Int63n(1000)}}, Ts: ts}
		lineTTL := uint16(0)
		if r.Intn(3) == 0 { // the line's own __ttl_days__ tag: in force only when the request has no TTL of its own
			lineTTL = uint16(1 + r.Intn(400))
			l.Tags = append(l.Tags, KV{"__ttl_days__", Str(strconv.Itoa(int(lineTTL)))})
		}
		if r.Intn(4) == 0 {
			l.Fields[0] = IField{Name: "load", Kind: "float", F: float64(r.Intn(1000)) / 8}
		}
		c.Lines = append(c.Lines, l)
		ttl := c.WantTTL
		if ttl == 0 {
			ttl = lineTTL
		}
		c.WantRows = append(c.WantRows, ORow{ts * prec, ttl})
	}
	// rows are expected only when both texts were written from known values
	c.HasWantRows = c.HasWantTTL && c.HasWantPrec
	if !c.HasWantRows {
		c.WantRows = []ORow{}
	}
	return c
}

// ---------------------------------------------------------------- running a case through the real code

func runOCase(c *OCase) {
	defer func() {
		if e := recover(); e != nil {
			c.Panic = fmt.Sprint(e)
		}
		c.Coq = coqOCase(c)
	}()
	c.Rows = []ORow{}
	c.ObsTTL, c.HasPrec, c.ObsPrec, c.Status = -1, false, 0, 0
	target := "/influx/api/v2/write"
	if c.HasQ {
		target += "?" + url.Values{"precision": {string(c.Query)}}.Encode()
	}
	var body []byte
	if c.Influx {
		body = influxLines(&Case{Body: Body{Influx: c.Lines}})
	}
	req := httptest.NewRequest("POST", target, bytes.NewReader(body))
	if c.HasHdr {
		req.Header["X-Ttl-Days"] = []string{string(c.Hdr)}
	}
	w := httptest.NewRecorder()
	if c.Influx {
		optMu.Lock()
		optRows = optRows[:0]
		optMu.Unlock()
		h := controllerv1.PushInfluxV2(controllerv1.NewMiddlewareConfig(controllerv1.WithOverallContextMiddleware))
		h(w, req)
		c.Status = w.Code
		optMu.Lock()
		c.Rows = append(c.Rows, optRows...)
		optMu.Unlock()
	} else {
		pc := controllerv1.WithOverallContextMiddleware(&controllerv1.PusherCtx{Parser: map[string]controllerv1.Requester{}})
		if len(pc.PreRequest) != 1 {
			panic("WithOverallContextMiddleware no longer adds exactly one pre-request function")
		}
		if err := pc.PreRequest[0](w, req); err != nil {
			panic("middleware: " + err.Error())
		}
	}
	if v, ok := req.Context().Value("TTL_DAYS").(uint16); ok {
		c.ObsTTL = int(v)
	}
	if v, ok := req.Context().Value("precision").(time.Duration); ok {
		c.HasPrec, c.ObsPrec = true, int64(v)
	}
}

func coqRows(rs []ORow) string {
	xs := make([]string, len(rs))
	for i, r := range rs {
		xs[i] = "(" + cz(r.Ts) + ", " + cn(uint64(r.TTL)) + ")"
	}
	return clist(xs)
}

func coqOCase(c *OCase) string {
	lines := "[]"
	if c.Influx {
		b := coqBody(&Case{Proto: "influx", Body: Body{Influx: c.Lines, Precision: 1}})
		// "BInflux <precision> <clock> <lines>": the lines are the last list of the body text
		if i := strings.Index(b, "[IL "); i >= 0 {
			lines = b[i:]
		}
	}
	optz := func(has bool, s string) string {
		if has {
			return "(Some " + s + ")"
		}
		return "None"
	}
	obsTTL := c.ObsTTL
	if obsTTL < 0 {
		obsTTL = 70000 // no TTL_DAYS in the context: never equal to a uint16
	}
	wantRows := "None"
	if c.HasWantRows {
		wantRows = "(Some " + coqRows(c.WantRows) + ")"
	}
	return fmt.Sprintf("OC %d %s %s %v %d %s %s %s %s %s %s %s", c.ID, cstr(c.Hdr), cstr(c.Query), c.Influx, c.Status,
		cn(uint64(obsTTL)), optz(c.HasPrec, cz(c.ObsPrec)), lines, coqRows(c.Rows),
		optz(c.HasWantTTL, cn(uint64(c.WantTTL))), optz(c.HasWantPrec, cz(c.WantPrec)), wantRows)
}

// ---------------------------------------------------------------- the ddsource parameter of the Cloudflare-Datadog route

type DCase struct {
	ID     int    `json:"id"`
	Class  string `json:"class"`
	HasQ   bool   `json:"has_q"`
	Query  Str    `json:"query"`
	Script Str    `json:"script"` // ScriptName of the one line: a label set of its own per case (the series row is announced once per label set)
	Want   Str    `json:"want"`
	Status int    `json:"status"`
	HasObs bool   `json:"has_obs"`
	Obs    Str    `json:"obs"`
	Series []string `json:"series"`
	Panic  string `json:"panic,omitempty"`
	Coq    string `json:"coq,omitempty"`
}

func genDCase(r *rand.Rand, i int) DCase {
	c := DCase{ID: i, Script: Str(fmt.Sprintf("worker-%d-%d", i, r.Intn(1000000)))}
	switch k := r.Intn(10); {
	case k < 2:
		c.Class, c.Want = "ddsource-route/absent", "unknown"
	case k < 4:
		c.Class, c.HasQ, c.Query, c.Want = "ddsource-route/empty", true, "", "unknown"
	default:
		v := []string{"cloudflare", "cf-worker", "unknown", "Unknown", "nginx", "a b", "a&b=c", "x/y?z", "ünïcode", "名前", "%41", "+", " ", "0", "null", "ddsource", "a,b", "\"quoted\"", "back\\slash", "new\nline"}[r.Intn(20)]
		c.Class, c.HasQ, c.Query, c.Want = "ddsource-route/written", true, Str(v), Str(v)
	}
	return c
}

func runDCase(c *DCase) {
	defer func() {
		if e := recover(); e != nil {
			c.Panic = fmt.Sprint(e)
		}
		obs := "None"
		if c.HasObs {
			obs = "(Some " + cstr(c.Obs) + ")"
		}
		c.Coq = fmt.Sprintf("DC %d %s %d %s (Some %s)", c.ID, cstr(c.Query), c.Status, obs, cstr(c.Want))
	}()
	c.HasObs, c.Obs, c.Status, c.Series = false, "", 0, []string{}
	target := "/cf/v1/insert"
	if c.HasQ {
		target += "?" + url.Values{"ddsource": {string(c.Query)}}.Encode()
	}
	line, _ := json.Marshal(map[string]any{"EventTimestampMs": 1700000000000 + int64(c.ID), "ScriptName": string(c.Script), "Outcome": "ok"})
	req := httptest.NewRequest("POST", target, bytes.NewReader(append(line, '\n')))
	w := httptest.NewRecorder()
	optMu.Lock()
	optSeries = optSeries[:0]
	optMu.Unlock()
	controllerv1.PushCfDatadogV2(controllerv1.NewMiddlewareConfig(controllerv1.WithOverallContextMiddleware))(w, req)
	c.Status = w.Code
	optMu.Lock()
	c.Series = append(c.Series, optSeries...)
	optMu.Unlock()
	for _, doc := range c.Series {
		var m map[string]string
		if err := json.Unmarshal([]byte(doc), &m); err != nil {
			panic("series label document is no JSON object of strings: " + doc)
		}
		if v, ok := m["ddsource"]; ok && !c.HasObs {
			c.HasObs, c.Obs = true, Str(v)
		}
	}
}

func reqoptsMain(f *hx.Flags) {
	reqoptsSetup()
	if os.Getenv("C03_REQOPTS") == "ddsource" {
		out := hx.OpenOut(f.Out)
		defer out.Close()
		r := hx.Rand(f.Seed)
		for i := 0; i < f.N; i++ {
			c := genDCase(r, i)
			runDCase(&c)
			out.Put(c)
		}
		return
	}
	out := hx.OpenOut(f.Out)
	defer out.Close()
	if f.Cases != "" {
		hx.ReadLines(f.Cases, func(b []byte) {
			var c OCase
			if err := json.Unmarshal(b, &c); err != nil {
				panic(fmt.Sprintf("bad case line: %v", err))
			}
			runOCase(&c)
			out.Put(c)
		})
		return
	}
	r := hx.Rand(f.Seed)
	for i := 0; i < f.N; i++ {
		c := genOCase(r, i)
		runOCase(&c)
		out.Put(c)
	}
}

var _ = http.StatusOK
