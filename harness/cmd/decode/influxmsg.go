package main

// Influx "message" lines with further fields: the text of the row is the logfmt rendering of the fields, "message" first,
// the others in the order Go's map iteration visited them. That order is not observable from outside, so it is read off the
// row: the fields of the case are put into the order whose rendering (by the logfmt library itself) is the text of the row.
// The model then renders the fields in that order with its own transcription of the encoder; when no order fits, the
// fields stay as generated and the model's text differs from the row.

import (
	"fmt"

	"github.com/go-logfmt/logfmt"
)

func fieldValue(f IField) interface{} {
	switch f.Kind {
	case "int":
		return f.I
	case "uint":
		return uint64(f.I)
	case "bool":
		return f.I != 0
	case "float":
		return f.F
	}
	return string(f.S)
}

func permutations(n int, f func([]int) bool) {
	idx := make([]int, n)
	for i := range idx {
		idx[i] = i
	}
	var rec func(k int) bool
	rec = func(k int) bool {
		if k == n {
			return f(idx)
		}
		for i := k; i < n; i++ {
			idx[k], idx[i] = idx[i], idx[k]
			if rec(k + 1) {
				return true
			}
			idx[k], idx[i] = idx[i], idx[k]
		}
		return false
	}
	rec(0)
}

func influxFieldOrder(c *Case) {
	var msgs []Str
	for _, k := range c.Obs.Chunks {
		msgs = append(msgs, k.Msg...)
	}
	row := 0
	for li := range c.Body.Influx {
		l := &c.Body.Influx[li]
		mi, num := -1, 0
		for i, f := range l.Fields {
			if string(f.Name) == "message" {
				mi = i
			}
			if f.Kind == "int" || f.Kind == "uint" || f.Kind == "float" {
				num++
			}
		}
		if mi < 0 {
			row += num
			continue
		}
		if len(l.Fields) > 1 && row < len(msgs) {
			var others []IField
			for i, f := range l.Fields {
				if i != mi {
					others = append(others, f)
				}
			}
			permutations(len(others), func(idx []int) bool {
				kvs := []interface{}{"message", fieldValue(l.Fields[mi])}
				for _, i := range idx {
					kvs = append(kvs, string(others[i].Name), fieldValue(others[i]))
				}
				b, err := logfmt.MarshalKeyvals(kvs...)
				if err != nil || string(b) != string(msgs[row]) {
					return false
				}
				fs := []IField{l.Fields[mi]}
				for _, i := range idx {
					fs = append(fs, others[i])
				}
				l.Fields = fs
				return true
			})
		}
		row++
	}
}

// linesRows: the number of rows every Influx line contributes (a message line one, any other line one per numeric field)
func lineRows(l *ILine) int {
	num := 0
	for _, f := range l.Fields {
		if string(f.Name) == "message" {
			return 1
		}
		if f.Kind == "int" || f.Kind == "uint" || f.Kind == "float" {
			num++
		}
	}
	return num
}

// influxClock: one clock reading per LINE. A line without a timestamp is stamped with time.Now().Truncate(precision): the
// reading is some instant of the request [T0, T1] whose truncation is the timestamp of the line's first row -- when there is
// none (the stamp is not a truncated instant of the request) the reading is T0 and the model's row differs from the observed one.
func influxClock(c *Case) string {
	var ts []int64
	for _, k := range c.Obs.Chunks {
		ts = append(ts, k.Ts...)
	}
	p := c.Body.Precision
	if p <= 0 {
		p = 1
	}
	nows := make([]int64, 0, len(c.Body.Influx)+4)
	row := 0
	for li := range c.Body.Influx {
		l := &c.Body.Influx[li]
		now := c.Obs.T0
		if l.NoTs && row < len(ts) {
			t := ts[row] // a multiple of the precision; instants truncated to it: [t, t+p)
			if t <= c.Obs.T1 && t+p > c.Obs.T0 {
				now = t
				if now < c.Obs.T0 {
					now = c.Obs.T0
				}
			}
		}
		nows = append(nows, now)
		row += lineRows(l)
	}
	for i := 0; i < 4; i++ {
		nows = append(nows, c.Obs.T0)
	}
	return fmt.Sprintf("(CK %s %s %s)", cz(c.Obs.T0), cz(c.Obs.T1), czs(nows))
}
