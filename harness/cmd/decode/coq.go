package main

import (
	"fmt"
	"math"
	"strconv"
	"strings"
)

// Coq text of a case for coq/model/Decode.v. The case file opens Z_scope. Elaborating a Coq term costs
// about 10 us per node (a 64-bit numeral has 64 nodes, a character 9), so numbers travel as primitive
// 63-bit integers (zi / z64 / n64 / zs1 / zs2 / ns1 / ns2 / smp), byte strings packed 7 bytes per integer
// (sp), long runs as (rep "c" n), constant columns run-length encoded (rl).

const listPiece = 3000 // longer list literals overflow coqc's stack

func clist(xs []string) string {
	if len(xs) <= listPiece {
		return "[" + strings.Join(xs, "; ") + "]"
	}
	var parts []string
	for i := 0; i < len(xs); i += listPiece {
		j := i + listPiece
		if j > len(xs) {
			j = len(xs)
		}
		parts = append(parts, "["+strings.Join(xs[i:j], "; ")+"]")
	}
	return "(" + strings.Join(parts, " ++ ") + ")%list"
}

func ilist(xs []string) string {
	if len(xs) <= listPiece {
		return clist(xs) + "%uint63"
	}
	var parts []string
	for i := 0; i < len(xs); i += listPiece {
		j := i + listPiece
		if j > len(xs) {
			j = len(xs)
		}
		parts = append(parts, "["+strings.Join(xs[i:j], "; ")+"]%uint63")
	}
	return "(" + strings.Join(parts, " ++ ") + ")%list"
}

// innerRun finds a run of at least 512 equal printable bytes inside s
func innerRun(s string) (int, int, bool) {
	if len(s) < 1024 {
		return 0, 0, false
	}
	for i := 0; i < len(s); {
		j := i
		for j < len(s) && s[j] == s[i] {
			j++
		}
		if j-i >= 512 && s[i] >= 0x20 && s[i] < 0x7f && s[i] != '"' && s[i] != '\\' {
			return i, j, true
		}
		i = j
	}
	return 0, 0, false
}

func cstr(s Str) string {
	if pre, c, n, ok := runSuffix(string(s)); ok {
		return fmt.Sprintf("(%s ++ rep \"%c\" %d%%N)%%string", cstr(Str(pre)), c, n)
	}
	if i, j, ok := innerRun(string(s)); ok {
		return fmt.Sprintf("(%s ++ rep \"%c\" %d%%N ++ %s)%%string", cstr(s[:i]), s[i], j-i, cstr(s[j:]))
	}
	if len(s) == 0 {
		return `""`
	}
	plain := len(s) <= 3
	for i := 0; i < len(s) && plain; i++ {
		if s[i] < 0x20 || s[i] >= 0x7f || s[i] == '"' {
			plain = false
		}
	}
	if plain {
		return `"` + string(s) + `"`
	}
	var ints []string
	for i := 0; i < len(s); i += 7 {
		j := i + 7
		if j > len(s) {
			j = len(s)
		}
		var v uint64
		for k := j - 1; k >= i; k-- {
			v = v<<8 | uint64(s[k])
		}
		v |= uint64(j-i) << 56
		ints = append(ints, strconv.FormatUint(v, 10))
	}
	return "(sp " + ilist(ints) + ")"
}

func hilo(v uint64) (string, string) {
	return strconv.FormatUint(v>>32, 10), strconv.FormatUint(v&0xffffffff, 10)
}

// scalar Z / N
func cz(n int64) string {
	if n >= 0 && n < 1<<20 {
		return strconv.FormatInt(n, 10)
	}
	if n >= 0 {
		return "(zi " + strconv.FormatInt(n, 10) + "%uint63)"
	}
	h, l := hilo(uint64(n))
	return "(z64 " + h + " " + l + ")"
}
func cn(n uint64) string {
	if n < 1<<20 {
		return strconv.FormatUint(n, 10) + "%N"
	}
	if n < 1<<62 {
		return "(ni " + strconv.FormatUint(n, 10) + "%uint63)"
	}
	h, l := hilo(n)
	return "(n64 " + h + " " + l + ")"
}

// list Z / list N
// apRuns splits xs into maximal arithmetic progressions (greedy); ok when that is much shorter than the list itself
func apRuns(xs []int64) ([][3]int64, bool) {
	if len(xs) < 256 {
		return nil, false
	}
	var runs [][3]int64
	for i := 0; i < len(xs); {
		if i+1 >= len(xs) {
			runs = append(runs, [3]int64{xs[i], 0, 1})
			break
		}
		d := xs[i+1] - xs[i]
		j := i + 1
		for j+1 < len(xs) && xs[j+1]-xs[j] == d {
			j++
		}
		runs = append(runs, [3]int64{xs[i], d, int64(j - i + 1)})
		i = j + 1
	}
	return runs, len(runs)*16 < len(xs)
}

func czs(xs []int64) string {
	if runs, ok := apRuns(xs); ok {
		parts := make([]string, len(runs))
		for i, r := range runs {
			parts[i] = fmt.Sprintf("ap_z %s %s %d%%uint63", cz(r[0]), cz(r[1]), r[2])
		}
		return "(" + strings.Join(parts, " ++ ") + ")%list"
	}
	one := true
	for _, x := range xs {
		if x < 0 {
			one = false
			break
		}
	}
	out := make([]string, 0, 2*len(xs))
	for _, x := range xs {
		if one {
			out = append(out, strconv.FormatInt(x, 10))
		} else {
			h, l := hilo(uint64(x))
			out = append(out, h, l)
		}
	}
	if one {
		return "(zs1 " + ilist(out) + ")"
	}
	return "(zs2 " + ilist(out) + ")"
}

func runs64(xs []uint64) int {
	n := 0
	for i := range xs {
		if i == 0 || xs[i] != xs[i-1] {
			n++
		}
	}
	return n
}

func cns(xs []uint64) string {
	if len(xs) >= 8 && runs64(xs)*4 <= len(xs) {
		var rs []string
		for i := 0; i < len(xs); {
			j := i
			for j < len(xs) && xs[j] == xs[i] {
				j++
			}
			rs = append(rs, fmt.Sprintf("(%s, %d%%uint63)", cn(xs[i]), j-i))
			i = j
		}
		return "(rl " + clist(rs) + ")"
	}
	one := true
	for _, x := range xs {
		if x >= 1<<62 {
			one = false
			break
		}
	}
	out := make([]string, 0, 2*len(xs))
	for _, x := range xs {
		if one {
			out = append(out, strconv.FormatUint(x, 10))
		} else {
			h, l := hilo(x)
			out = append(out, h, l)
		}
	}
	if one {
		return "(ns1 " + ilist(out) + ")"
	}
	return "(ns2 " + ilist(out) + ")"
}

func cstrs(xs []Str) string {
	nr := 0
	for i := range xs {
		if i == 0 || xs[i] != xs[i-1] {
			nr++
		}
	}
	if len(xs) >= 8 && nr*4 <= len(xs) {
		var rs []string
		for i := 0; i < len(xs); {
			j := i
			for j < len(xs) && xs[j] == xs[i] {
				j++
			}
			rs = append(rs, fmt.Sprintf("(%s, %d%%uint63)", cstr(xs[i]), j-i))
			i = j
		}
		return "(rl " + clist(rs) + ")"
	}
	out := make([]string, len(xs))
	for i, x := range xs {
		out[i] = cstr(x)
	}
	return clist(out)
}

func copt(s *Str) string {
	if s == nil {
		return "None"
	}
	return "(Some " + cstr(*s) + ")"
}

func clabels(l []KV) string {
	xs := make([]string, len(l))
	for i, kv := range l {
		xs[i] = "(" + cstr(kv.K) + ", " + cstr(kv.V) + ")"
	}
	return clist(xs)
}

func bits(v float64) uint64 { return math.Float64bits(v) }

func csamples(ts []int64, vals []float64) string {
	if runs, ok := apRuns(ts); ok && len(runs) == 1 {
		same := true
		for _, v := range vals {
			if bits(v) != bits(vals[0]) {
				same = false
				break
			}
		}
		if same {
			return fmt.Sprintf("(smp_ap %s %s %s %d%%uint63)", cz(runs[0][0]), cz(runs[0][1]), cn(bits(vals[0])), runs[0][2])
		}
	}
	out := make([]string, 0, 4*len(ts))
	for i := range ts {
		a, b := hilo(uint64(ts[i]))
		c, d := hilo(bits(vals[i]))
		out = append(out, a, b, c, d)
	}
	return "(smp " + ilist(out) + ")"
}

func coval(v OVal) string {
	switch v.Kind {
	case "str":
		return "(OStr " + cstr(v.S) + ")"
	case "bool":
		return "(OBool " + strconv.FormatBool(v.B) + ")"
	case "int":
		return "(OInt " + cz(v.I) + ")"
	case "double":
		return "(ODouble " + cn(v.F) + ")"
	case "bytes":
		return "(OBytes " + cstr(v.S) + ")"
	case "arr":
		xs := make([]string, len(v.Items))
		for i, x := range v.Items {
			xs[i] = coval(x)
		}
		return "(OArr " + clist(xs) + ")"
	case "kv":
		return "(OKv " + cokvs(v.KVs) + ")"
	}
	return "ONone"
}

func cokvs(l []OKV) string {
	xs := make([]string, len(l))
	for i, kv := range l {
		xs[i] = "(" + cstr(kv.K) + ", " + coval(kv.V) + ")"
	}
	return clist(xs)
}

func coqBody(c *Case) string {
	switch c.Proto {
	case "loki_json", "loki_pb":
		centries := func(xs []LEntry) string {
			es := make([]string, len(xs))
			for j, e := range xs {
				v := "None"
				if e.Val != nil {
					v = "(Some " + cn(bits(*e.Val)) + ")"
				}
				es[j] = fmt.Sprintf("LE %s %s %s", cz(e.Ts), copt(e.Line), v)
			}
			return clist(es)
		}
		if c.Proto == "loki_pb" {
			ss := make([]string, len(c.Body.Loki))
			for i, s := range c.Body.Loki {
				ss[i] = fmt.Sprintf("LS %s %s", clabels(s.Labels), centries(s.Entries))
			}
			return "BLokiPb " + clist(ss)
		}
		// the members of each stream object in the order the serialiser wrote them
		ss := make([]string, len(c.members))
		for i, ms := range c.members {
			xs := make([]string, len(ms))
			for j, m := range ms {
				switch m.kind {
				case "lbl":
					xs[j] = "MLbl " + clabels(m.labels)
				case "ent":
					xs[j] = "MEnt " + centries(m.entries)
				default:
					xs[j] = "MOther"
				}
			}
			ss[i] = clist(xs)
		}
		return "BLoki " + clist(ss)
	case "prw":
		ss := make([]string, len(c.Body.Prw))
		for i, s := range c.Body.Prw {
			ts := make([]int64, len(s.Samples))
			vs := make([]float64, len(s.Samples))
			for j, p := range s.Samples {
				ts[j], vs[j] = p.TsMs, p.Val
			}
			ss[i] = fmt.Sprintf("PS %s %s", clabels(s.Labels), csamples(ts, vs))
		}
		return "BPrw " + clist(ss)
	case "influx":
		ls := make([]string, len(c.Body.Influx))
		for i, l := range c.Body.Influx {
			fs := make([]string, len(l.Fields))
			msgLine := false
			for _, f := range l.Fields {
				if string(f.Name) == "message" {
					msgLine = true
				}
			}
			for j, f := range l.Fields {
				v := ""
				kind := f.Kind
				if msgLine && (kind == "int" || kind == "uint" || kind == "bool") {
					kind += "-text" // on a message line the field is rendered as text
				}
				switch kind {
				case "int-text":
					v = "FIntT " + cz(f.I)
				case "uint-text":
					v = "FUintT " + cn(uint64(f.I))
				case "bool-text":
					v = fmt.Sprintf("FBoolT %v", f.I != 0)
				case "int":
					v = "FNum " + cn(bits(float64(f.I)))
				case "float":
					v = "FNum " + cn(bits(f.F))
				case "uint":
					v = "FUint " + cn(bits(float64(uint64(f.I))))
				case "str":
					v = "FStr " + cstr(f.S)
				default:
					v = "FBool"
				}
				fs[j] = "(" + cstr(f.Name) + ", " + v + ")"
			}
			ts := "(Some " + cz(l.Ts) + ")"
			if l.NoTs {
				ts = "None"
			}
			ls[i] = fmt.Sprintf("IL %s %s %s %s", cstr(l.Meas), clabels(l.Tags), clist(fs), ts)
		}
		return fmt.Sprintf("BInflux %s %s %s", cz(c.Body.Precision), influxClock(c), clist(ls))
	case "ddlog":
		ls := make([]string, len(c.Body.DDLog))
		for i, e := range c.Body.DDLog {
			ls[i] = fmt.Sprintf("DL %s %s %s %s %s %s %s", clabels(e.Tags), copt(e.Source), copt(e.Service), copt(e.Hostname), copt(e.SType), cstr(e.Message), cz(e.TsMs))
		}
		return "BDDLog " + clockOf(c, len(ls)) + " " + clist(ls)
	case "ddcf":
		return "BCf " + cstr(c.Body.NDCtx) + " " + clockOf(c, len(c.Body.ND)) + " []"
	case "esbulk":
		return "BEs " + clockOf(c, len(c.Body.ND)) + " []"
	case "ddmet":
		ss := make([]string, len(c.Body.DDMet))
		for i, s := range c.Body.DDMet {
			rs := make([]string, len(s.Resources))
			for j, r := range s.Resources {
				rs[j] = clabels(r)
			}
			var ts []int64
			var vs []float64
			var stamped []uint64
			for _, p := range s.Points {
				if p.NoTs {
					stamped = append(stamped, bits(p.Val))
				} else {
					ts, vs = append(ts, p.TsS), append(vs, p.Val)
				}
			}
			ss[i] = fmt.Sprintf("DS %s %s %s %s", copt(s.Metric), clist(rs), csamples(ts, vs), cns(stamped))
		}
		return "BDDMet " + clockOf(c, 0) + " " + clist(ss)
	case "otlp":
		rs := make([]string, len(c.Body.Otlp))
		for i, r := range c.Body.Otlp {
			ss := make([]string, len(r.Scopes))
			for j, s := range r.Scopes {
				recs := make([]string, len(s.Records))
				for k, rec := range s.Records {
					body := "ONone"
					if rec.Body != nil {
						body = "(OStr " + cstr(*rec.Body) + ")"
					}
					if rec.BodyV != nil {
						body = coval(*rec.BodyV)
					}
					recs[k] = fmt.Sprintf("OR %s %s %s %s", cokvs(rec.Attrs), cstr(rec.Severity), body, cn(rec.Ts))
				}
				ss[j] = fmt.Sprintf("OS %t %s %s", s.HasScope, cokvs(s.Attrs), clist(recs))
			}
			rs[i] = fmt.Sprintf("ORL %t %s %s", r.HasRes, cokvs(r.Attrs), clist(ss))
		}
		return "BOtlp " + clist(rs)
	}
	panic("proto")
}

func coqChunk(k *Chunk) string {
	ttl := make([]uint64, len(k.TTL))
	for i, v := range k.TTL {
		ttl[i] = uint64(v)
	}
	typ := make([]uint64, len(k.Type))
	for i, v := range k.Type {
		typ[i] = uint64(v)
	}
	return fmt.Sprintf("CH %s %s %s %s %s %s %d %d%%N %d", czs(k.Ts), cns(k.Fp), cstrs(k.Msg), cns(k.Val), cns(ttl), cns(typ), k.SplSize, k.NSeries, k.TsSize)
}

func coqCase(c *Case) string {
	chunks := make([]string, len(c.Obs.Chunks))
	for i := range c.Obs.Chunks {
		chunks[i] = coqChunk(&c.Obs.Chunks[i])
	}
	tab := make([]string, len(c.Obs.FpTab))
	for i, r := range c.Obs.FpTab {
		tab[i] = fmt.Sprintf("FT %s %s %d", clabels(r.Labels), cn(r.Fp), r.EncLen)
	}
	err := "ENone"
	switch c.Obs.Err {
	case "panic":
		err = "EPanic"
	case "error", "timeout":
		err = "EError"
	}
	cache := "CMiss"
	if c.Cache == "set" {
		cache = "CSet"
	}
	if c.Cache == "shared" {
		cache = "CShared"
	}
	return fmt.Sprintf("Case %d (%s) %d%%N %s\n    %s\n    %s %s", c.ID, coqBody(c), c.CtxTTL, cache, clist(tab), clist(chunks), err)
}
