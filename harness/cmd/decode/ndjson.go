package main

// Newline-delimited mode (C03_MODE=ndjson): the two line-by-line decoders of writer/utils/unmarshal (Datadog logs sent
// by Cloudflare: UnmarshallDatadogCFJSONV2; Elasticsearch bulk: ElasticBulkUnmarshalV2) with bodies whose lines may be
// longer than bufio.Scanner's default 64 KiB token. Observation: for every row of the responses the index of the body
// line whose text it carries (-1: none). The oracle (coq/model/Ndjson.v): unless the request fails, the rows carry
// exactly the lines that hold an entry, each once, in order.

import (
	"bytes"
	"context"
	"encoding/json"
	"fmt"
	"math/rand"
	"strings"

	"github.com/metrico/qryn/writer/model"
	"github.com/metrico/qryn/writer/utils/unmarshal"
	"verif/harness/hx"
)

type NLine struct {
	Kind string `json:"kind"` // cf | action | doc | blank
	Len  int    `json:"len"`  // length of the filler inside the line
	Tag  string `json:"tag"`
}

type NCase struct {
	ID       int     `json:"id"`
	Class    string  `json:"class"`
	Proto    string  `json:"proto"` // ddcf | elastic_bulk
	Lines    []NLine `json:"lines"`
	Expected []int   `json:"expected"` // indices of the lines that hold an entry
	ObsRows  []int   `json:"obs_rows"`
	Err      string  `json:"err"`
	Coq      string  `json:"coq,omitempty"`
}

func (l NLine) text(i int) string {
	fill := strings.Repeat("x", l.Len)
	switch l.Kind {
	case "cf":
		return fmt.Sprintf(`{"EventTimestampMs":%d,"ScriptName":"w%s","Outcome":"ok","Logs":["%s"]}`, 1700000000000+int64(i), l.Tag, fill)
	case "action":
		return fmt.Sprintf(`{"index":{"_id":"%d%s"}}`, i, fill)
	case "doc":
		return fmt.Sprintf(`{"line":%d,"message":"%s%s"}`, i, l.Tag, fill)
	}
	return ""
}

func genNCase(r *rand.Rand, i int) NCase {
	c := NCase{ID: i, Proto: "ddcf", Class: "short-lines"}
	if r.Intn(2) == 0 {
		c.Proto = "elastic_bulk"
	}
	long := r.Intn(3) != 0
	n := 1 + r.Intn(6)
	longAt := -1
	if long {
		longAt = r.Intn(n)
		c.Class = fmt.Sprintf("line-over-64KiB-at-%d-of-%d", longAt, n)
	}
	for k := 0; k < n; k++ {
		ln := 10 + r.Intn(200)
		if k == longAt {
			ln = 65536 + r.Intn(70000)
		}
		tag := fmt.Sprintf("t%d", r.Intn(1000))
		if c.Proto == "ddcf" {
			c.Lines = append(c.Lines, NLine{"cf", ln, tag})
			c.Expected = append(c.Expected, len(c.Lines)-1)
		} else {
			c.Lines = append(c.Lines, NLine{"action", 0, ""}, NLine{"doc", ln, tag})
			c.Expected = append(c.Expected, len(c.Lines)-1)
		}
	}
	return c
}

func runNCase(c *NCase) {
	texts := make([]string, len(c.Lines))
	for i, l := range c.Lines {
		texts[i] = l.text(i)
	}
	body := strings.Join(texts, "\n") + "\n"
	ctx := context.Background()
	parser := unmarshal.UnmarshallDatadogCFJSONV2
	if c.Proto == "elastic_bulk" {
		parser = unmarshal.ElasticBulkUnmarshalV2
		ctx = context.WithValue(ctx, "target", "idx")
	} else {
		ctx = context.WithValue(ctx, "ddsource", "cloudflare")
	}
	c.ObsRows, c.Err = []int{}, ""
	index := map[string]int{}
	for i, t := range texts {
		index[t] = i
	}
	for r := range parser(ctx, bytes.NewReader([]byte(body)), missCache{}) {
		if r.Error != nil {
			c.Err = "error"
			if strings.HasPrefix(r.Error.Error(), "panic:") {
				c.Err = "panic"
			}
			continue
		}
		if r.SamplesRequest == nil {
			continue
		}
		for _, m := range r.SamplesRequest.(*model.TimeSamplesData).MMessage {
			if i, ok := index[m]; ok {
				c.ObsRows = append(c.ObsRows, i)
			} else {
				c.ObsRows = append(c.ObsRows, -1)
			}
		}
	}
	zs := func(xs []int) string {
		ys := make([]string, len(xs))
		for i, x := range xs {
			ys[i] = fmt.Sprintf("(%d)", x)
		}
		return clist(ys)
	}
	c.Coq = fmt.Sprintf("NCase %d %s %s %v", c.ID, zs(c.Expected), zs(c.ObsRows), c.Err != "")
}

func ndjsonMain(f *hx.Flags) {
	out := hx.OpenOut(f.Out)
	defer out.Close()
	if f.Cases != "" {
		hx.ReadLines(f.Cases, func(b []byte) {
			var c NCase
			if err := json.Unmarshal(b, &c); err != nil {
				panic(fmt.Sprintf("bad case line: %v", err))
			}
			runNCase(&c)
			out.Put(c)
		})
		return
	}
	r := hx.Rand(f.Seed)
	for i := 0; i < f.N; i++ {
		c := genNCase(r, i)
		runNCase(&c)
		out.Put(c)
	}
}
