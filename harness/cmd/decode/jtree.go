package main

// JSON documents as trees: the Loki JSON serialiser builds the tree, the wire text is its rendering, and the tree itself
// goes into the Coq case (coq/model/LokiJson.v walks it the way pushRequestDec walks the jx tokens). Objects are ordered
// member lists; repeated keys are allowed.

import (
	"fmt"
	"math/rand"
	"strconv"
	"strings"
	"time"
	"unicode"
	"unicode/utf8"
)

type JV struct {
	K string // null | bool | num | str | arr | obj
	B bool
	N string // the text of a number
	S string
	A []JV
	O []JKV
}
type JKV struct {
	Key string
	V   JV
}

func jS(s string) JV        { return JV{K: "str", S: s} }
func jN(text string) JV     { return JV{K: "num", N: text} }
func jA(xs ...JV) JV        { return JV{K: "arr", A: xs} }
func jO(ms ...JKV) JV       { return JV{K: "obj", O: ms} }
func kv(k string, v JV) JKV { return JKV{k, v} }

func (v JV) render(sb *strings.Builder) {
	switch v.K {
	case "null":
		sb.WriteString("null")
	case "bool":
		sb.WriteString(strconv.FormatBool(v.B))
	case "num":
		sb.WriteString(v.N)
	case "str":
		sb.WriteString(js(Str(v.S)))
	case "arr":
		sb.WriteByte('[')
		for i, x := range v.A {
			if i > 0 {
				sb.WriteByte(',')
			}
			x.render(sb)
		}
		sb.WriteByte(']')
	case "obj":
		sb.WriteByte('{')
		for i, m := range v.O {
			if i > 0 {
				sb.WriteByte(',')
			}
			sb.WriteString(js(Str(m.Key)) + ":")
			m.V.render(sb)
		}
		sb.WriteByte('}')
	}
}

func (v JV) coq() string {
	switch v.K {
	case "null":
		return "JNull"
	case "bool":
		return fmt.Sprintf("(JBool %v)", v.B)
	case "num":
		f, err := strconv.ParseFloat(v.N, 64)
		if err != nil {
			panic("number text " + v.N)
		}
		iv := "None" // jx Int64 takes integer literals within int64 only
		if z, err := strconv.ParseInt(v.N, 10, 64); err == nil && !strings.HasPrefix(v.N, "+") {
			iv = "(Some " + cz(z) + ")"
		}
		return "(JNum " + cn(bits(f)) + " " + iv + ")"
	case "str":
		return "(JStr " + cstr(Str(v.S)) + ")"
	case "arr":
		xs := make([]string, len(v.A))
		for i, x := range v.A {
			xs[i] = x.coq()
		}
		return "(JArr " + clist(xs) + ")"
	}
	xs := make([]string, len(v.O))
	for i, m := range v.O {
		xs[i] = "(" + cstr(Str(m.Key)) + ", " + m.V.coq() + ")"
	}
	return "(JObj " + clist(xs) + ")"
}

// walk calls f for every member (key, value) of every object of the tree
func (v JV) walk(f func(key string, v JV)) {
	for _, x := range v.A {
		x.walk(f)
	}
	for _, m := range v.O {
		f(m.Key, m.V)
		m.V.walk(f)
	}
}

// oracle tables of a document: time.Parse(RFC3339) on every string under ts / timestamp, unicode classes of the runes of
// every string under labels
func docOracles(doc JV) (rfc string, letters string, digits string) {
	var rows, ls, ds []string
	seenT, seenL, seenD := map[string]bool{}, map[string]bool{}, map[string]bool{}
	doc.walk(func(key string, v JV) {
		if v.K != "str" {
			return
		}
		if (key == "ts" || key == "timestamp") && !seenT[v.S] {
			seenT[v.S] = true
			if _, err := strconv.ParseInt(v.S, 10, 64); err == nil {
				return // time.Parse(RFC3339) fails on every decimal integer: an absent row means exactly that (tab_lookup = None)
			}
			o := "None"
			if t, err := time.Parse(time.RFC3339, v.S); err == nil {
				o = "(Some " + cz(t.UTC().UnixNano()) + ")"
			}
			rows = append(rows, "("+cstr(Str(v.S))+", "+o+")")
		}
		if key == "labels" {
			for i := 0; i < len(v.S); {
				rn, w := utf8.DecodeRuneInString(v.S[i:])
				if rn >= utf8.RuneSelf && !(rn == utf8.RuneError && w == 1) {
					s := v.S[i : i+w]
					if unicode.IsLetter(rn) && !seenL[s] {
						seenL[s] = true
						ls = append(ls, cstr(Str(s)))
					}
					if unicode.IsDigit(rn) && !seenD[s] {
						seenD[s] = true
						ds = append(ds, cstr(Str(s)))
					}
				}
				i += w
			}
		}
	})
	return clist(rows), clist(ls), clist(ds)
}

// tagLetters: the runes outside ASCII of every string under ddtags for which unicode.IsLetter (= \p{L}) holds
func tagLetters(doc JV) string {
	var ls []string
	seen := map[string]bool{}
	doc.walk(func(key string, v JV) {
		if key != "ddtags" || v.K != "str" {
			return
		}
		for i := 0; i < len(v.S); {
			rn, w := utf8.DecodeRuneInString(v.S[i:])
			if rn >= utf8.RuneSelf && !(rn == utf8.RuneError && w == 1) && unicode.IsLetter(rn) && !seen[v.S[i:i+w]] {
				seen[v.S[i:i+w]] = true
				ls = append(ls, cstr(Str(v.S[i:i+w])))
			}
			i += w
		}
	})
	return clist(ls)
}

var damageKeys = []string{"stream", "labels", "values", "entries", "ts", "timestamp", "line", "value", "streams", "x",
	"ddtags", "ddsource", "message", "service", "hostname", "source_type", "series", "metric", "resources", "points", "name"}
var damageTs = []string{"12a", "-5", "2021-01-01", "", "1700000000000000000", "2023-11-14T22:13:20.5Z", "2023-11-14t22:13:20z", "+7", "1e9", "99999999999999999999"}

func junk(r *rand.Rand) JV {
	switch r.Intn(7) {
	case 0:
		return JV{K: "null"}
	case 1:
		return JV{K: "bool", B: r.Intn(2) == 0}
	case 2:
		return jN(pick(r, []string{"0", "1", "-3", "2.5", "1e3", "1700000000000000000"}))
	case 3:
		return jS(pick(r, []string{"", "x", "{a=\"b\"}", "17", "-17", "2023-11-14T22:13:20Z"}))
	case 4:
		return jA()
	case 5:
		return jO()
	}
	return jA(jS("1"), jS("l"))
}

// damageDoc applies one edit somewhere in the tree (chosen while walking down with probability p per node)
func damageDoc(r *rand.Rand, v JV, depth int) (JV, bool) {
	here := r.Intn(4+2*depth) == 0 || (v.K != "arr" && v.K != "obj")
	if !here {
		// descend
		if v.K == "arr" && len(v.A) > 0 {
			i := r.Intn(len(v.A))
			c, ok := damageDoc(r, v.A[i], depth+1)
			a := append([]JV{}, v.A...)
			a[i] = c
			return JV{K: "arr", A: a}, ok
		}
		if v.K == "obj" && len(v.O) > 0 {
			i := r.Intn(len(v.O))
			c, ok := damageDoc(r, v.O[i].V, depth+1)
			o := append([]JKV{}, v.O...)
			o[i] = JKV{o[i].Key, c}
			return JV{K: "obj", O: o}, ok
		}
	}
	switch v.K {
	case "arr":
		a := append([]JV{}, v.A...)
		switch k := r.Intn(4); {
		case k == 0 && len(a) > 0:
			i := r.Intn(len(a))
			a = append(a[:i], a[i+1:]...)
		case k == 1 && len(a) > 0:
			i := r.Intn(len(a))
			a = append(a[:i+1], a[i:]...)
		case k == 2:
			i := r.Intn(len(a) + 1)
			a = append(a[:i], append([]JV{junk(r)}, a[i:]...)...)
		default:
			return junk(r), true
		}
		return JV{K: "arr", A: a}, true
	case "obj":
		o := append([]JKV{}, v.O...)
		switch k := r.Intn(5); {
		case k == 0 && len(o) > 0:
			i := r.Intn(len(o))
			o = append(o[:i], o[i+1:]...)
		case k == 1 && len(o) > 0:
			i := r.Intn(len(o))
			o = append(o, o[i])
		case k == 2 && len(o) > 0:
			i := r.Intn(len(o))
			o[i] = JKV{damageKeys[r.Intn(len(damageKeys))], o[i].V}
		case k == 3:
			o = append(o, JKV{damageKeys[r.Intn(len(damageKeys))], junk(r)})
		default:
			return junk(r), true
		}
		return JV{K: "obj", O: o}, true
	case "str":
		if r.Intn(2) == 0 {
			return jS(damageTs[r.Intn(len(damageTs))]), true
		}
	}
	return junk(r), true
}
