package main

import (
	"bytes"
	"encoding/hex"
	"encoding/json"
	"fmt"
	"math"
	"math/rand"
	"strconv"
	"strings"
	"time"
	"unicode"
	"unicode/utf8"

	"github.com/metrico/qryn/writer/utils/proto/logproto"
	"github.com/metrico/qryn/writer/utils/proto/prompb"
	otlpCommon "go.opentelemetry.io/proto/otlp/common/v1"
	otlpLogs "go.opentelemetry.io/proto/otlp/logs/v1"
	otlpRes "go.opentelemetry.io/proto/otlp/resource/v1"
	"google.golang.org/protobuf/proto"
)

// Str is a byte string that survives JSON: valid UTF-8 is written as a JSON string, anything else as
// {"x":"<hex>"}; long strings ending in a run of one byte as {"pre":..,"rep":"c","n":N}.
type Str string

type strAlt struct {
	X   *string `json:"x,omitempty"`
	Pre *Str    `json:"pre,omitempty"`
	Rep string  `json:"rep,omitempty"`
	N   int     `json:"n,omitempty"`
}

// runSuffix returns (prefix, byte, n) when s is longer than 512 bytes and ends in a run of >= len-64 equal bytes
func runSuffix(s string) (string, byte, int, bool) {
	if len(s) <= 512 {
		return "", 0, 0, false
	}
	c := s[len(s)-1]
	i := len(s)
	for i > 0 && s[i-1] == c {
		i--
	}
	if i <= 64 && c >= 0x20 && c < 0x7f && c != '"' && c != '\\' {
		return s[:i], c, len(s) - i, true
	}
	return "", 0, 0, false
}

func (s Str) MarshalJSON() ([]byte, error) {
	if pre, c, n, ok := runSuffix(string(s)); ok {
		p := Str(pre)
		return json.Marshal(strAlt{Pre: &p, Rep: string([]byte{c}), N: n})
	}
	if utf8.ValidString(string(s)) {
		return json.Marshal(string(s))
	}
	h := hex.EncodeToString([]byte(s))
	return json.Marshal(strAlt{X: &h})
}

func (s *Str) UnmarshalJSON(b []byte) error {
	if len(b) > 0 && b[0] == '"' {
		var t string
		if err := json.Unmarshal(b, &t); err != nil {
			return err
		}
		*s = Str(t)
		return nil
	}
	var a strAlt
	if err := json.Unmarshal(b, &a); err != nil {
		return err
	}
	if a.X != nil {
		d, err := hex.DecodeString(*a.X)
		if err != nil {
			return err
		}
		*s = Str(d)
		return nil
	}
	pre := ""
	if a.Pre != nil {
		pre = string(*a.Pre)
	}
	*s = Str(pre + strings.Repeat(a.Rep, a.N))
	return nil
}

func js(s Str) string {
	b, err := json.Marshal(string(s))
	if err != nil {
		panic(err)
	}
	return string(b)
}

func jfloat(v float64) string { return strconv.FormatFloat(v, 'g', -1, 64) }

// objectOf writes the members in an order drawn from r
func objectOf(r *rand.Rand, members []string) string {
	r.Shuffle(len(members), func(i, j int) { members[i], members[j] = members[j], members[i] })
	return "{" + strings.Join(members, ",") + "}"
}

func isIdent(s string) bool {
	if s == "" {
		return false
	}
	for i, ch := range s {
		if ch == utf8.RuneError {
			return false
		}
		if !(ch == '_' || unicode.IsLetter(ch) || (unicode.IsDigit(ch) && i > 0)) {
			return false
		}
	}
	return true
}

func lokiLabelString(l []KV) string {
	parts := make([]string, len(l))
	for i, kv := range l {
		parts[i] = string(kv.K) + "=" + strconv.Quote(string(kv.V))
	}
	return "{" + strings.Join(parts, ",") + "}"
}

func labelsAreIdents(l []KV) bool {
	if len(l) == 0 {
		return false // "{}" is rejected by parseLabelsLokiFormat
	}
	for _, kv := range l {
		if !isIdent(string(kv.K)) {
			return false
		}
	}
	return true
}

func rfc3339(ts int64) string { return time.Unix(0, ts).UTC().Format(time.RFC3339Nano) }

// member of a Loki JSON stream object, in the order it was written
type member struct {
	kind    string // lbl | ent | other
	node    JKV
	labels  []KV
	entries []LEntry
}

func shuffledObject(r *rand.Rand, ms []JKV) JV {
	r.Shuffle(len(ms), func(i, j int) { ms[i], ms[j] = ms[j], ms[i] })
	return JV{K: "obj", O: ms}
}

func lokiLabelMember(r *rand.Rand, l []KV) member {
	if labelsAreIdents(l) && r.Intn(2) == 0 {
		return member{kind: "lbl", labels: l, node: kv("labels", jS(lokiLabelString(l)))}
	}
	ms := make([]JKV, len(l))
	for i, x := range l {
		ms[i] = kv(string(x.K), jS(string(x.V)))
	}
	return member{kind: "lbl", labels: l, node: kv("stream", jO(ms...))}
}

func lokiEntryMember(r *rand.Rand, es []LEntry) member {
	// "values" arrays need a line in every entry; "entries" objects take anything
	allLines := true
	for _, e := range es {
		if e.Line == nil {
			allLines = false
		}
	}
	if allLines && r.Intn(3) != 0 {
		vs := make([]JV, len(es))
		for i, e := range es {
			el := []JV{jS(strconv.FormatInt(e.Ts, 10)), jS(string(*e.Line))}
			if e.Val != nil {
				el = append(el, jN(jfloat(*e.Val)))
			} else if r.Intn(4) == 0 {
				el = append(el, jO(kv("trace_id", jS("abc")))) // structured metadata: skipped by the decoder
			}
			if len(el) == 3 && r.Intn(8) == 0 {
				el = append(el, jA(jN("1")), JV{K: "null"}) // further elements are skipped
			}
			vs[i] = jA(el...)
		}
		return member{kind: "ent", entries: es, node: kv("values", jA(vs...))}
	}
	xs := make([]JV, len(es))
	for i, e := range es {
		key := "ts"
		if r.Intn(2) == 0 {
			key = "timestamp"
		}
		var tsv string
		if r.Intn(2) == 0 && len(es) < 500 { // negative nanoseconds are written as integers too (rejected before fix e276684); the oracle table of a long stream would be searched linearly
			tsv = rfc3339(e.Ts)
		} else {
			tsv = strconv.FormatInt(e.Ts, 10)
		}
		m := []JKV{kv(key, jS(tsv))}
		if e.Line != nil {
			m = append(m, kv("line", jS(string(*e.Line))))
		}
		if e.Val != nil {
			m = append(m, kv("value", jN(jfloat(*e.Val))))
		}
		if r.Intn(5) == 0 {
			m = append(m, kv("unknown", jA(jN("1"), jO(kv("a", JV{K: "null"})))))
		}
		xs[i] = shuffledObject(r, m)
	}
	return member{kind: "ent", entries: es, node: kv("entries", jA(xs...))}
}

// lokiJSON builds the document of the push as a tree: every stream an object whose members come in an order drawn from
// r; with Split set the labels and/or the entries are spread over two members (a repeated "stream" key, "values" next
// to "entries"). c.members records what was written, in order (the model's member list); c.doc is the tree, the wire
// text its rendering. With Damage set one edit is applied to the tree (the body of the case then means nothing).
func lokiJSON(c *Case, r *rand.Rand) []byte {
	var streams []JV
	c.members = nil
	for _, s := range c.Body.Loki {
		var ms []member
		if c.Split && len(s.Labels) >= 2 && r.Intn(2) == 0 {
			k := 1 + r.Intn(len(s.Labels)-1)
			ms = append(ms, lokiLabelMember(r, s.Labels[:k]), lokiLabelMember(r, s.Labels[k:]))
		} else {
			ms = append(ms, lokiLabelMember(r, s.Labels))
		}
		if c.Split && len(s.Entries) >= 2 && r.Intn(2) == 0 {
			k := 1 + r.Intn(len(s.Entries)-1)
			ms = append(ms, lokiEntryMember(r, s.Entries[:k]), lokiEntryMember(r, s.Entries[k:]))
		} else {
			ms = append(ms, lokiEntryMember(r, s.Entries))
		}
		if r.Intn(6) == 0 {
			ms = append(ms, member{kind: "other", node: kv("extra", jO(kv("x", jA(jN("1"), jN("2"), jN("3")))))})
		}
		r.Shuffle(len(ms), func(i, j int) { ms[i], ms[j] = ms[j], ms[i] })
		if c.KeyOrder != "" {
			// JSON key order is free: the entry arrays in front of (behind) the label members, the rest where the shuffle put it
			first, second := "ent", "lbl"
			if c.KeyOrder == "labels-first" {
				first, second = "lbl", "ent"
			}
			var a, b, o []member
			for _, m := range ms {
				switch m.kind {
				case first:
					a = append(a, m)
				case second:
					b = append(b, m)
				default:
					o = append(o, m)
				}
			}
			ms = append(append(a, o...), b...)
		}
		nodes := make([]JKV, len(ms))
		for i, m := range ms {
			nodes[i] = m.node
		}
		streams = append(streams, JV{K: "obj", O: nodes})
		c.members = append(c.members, ms)
	}
	top := []JKV{kv("streams", jA(streams...))}
	if r.Intn(5) == 0 {
		top = append(top, kv("meta", jS("ignored")))
	}
	doc := shuffledObject(r, top)
	if c.Damage {
		doc, _ = damageDoc(r, doc, 0)
	}
	c.doc = &doc
	var sb strings.Builder
	doc.render(&sb)
	return []byte(sb.String())
}

func floorDivMod(a, b int64) (int64, int64) {
	q, m := a/b, a%b
	if m < 0 {
		q--
		m += b
	}
	return q, m
}

func lokiPB(c *Case) []byte {
	req := &logproto.PushRequest{}
	for _, s := range c.Body.Loki {
		st := &logproto.StreamAdapter{Labels: lokiLabelString(s.Labels)}
		for _, e := range s.Entries {
			sec, ns := floorDivMod(e.Ts, 1000000000)
			line := ""
			if e.Line != nil {
				line = string(*e.Line)
			}
			st.Entries = append(st.Entries, &logproto.EntryAdapter{Timestamp: &logproto.Timestamp{Seconds: sec, Nanos: int32(ns)}, Line: line})
		}
		req.Streams = append(req.Streams, st)
	}
	b, err := proto.Marshal(req)
	if err != nil {
		panic(err)
	}
	return b
}

func prwPB(c *Case) []byte {
	req := &prompb.WriteRequest{}
	for _, s := range c.Body.Prw {
		ts := &prompb.TimeSeries{}
		for _, l := range s.Labels {
			ts.Labels = append(ts.Labels, &prompb.Label{Name: string(l.K), Value: string(l.V)})
		}
		for _, p := range s.Samples {
			ts.Samples = append(ts.Samples, &prompb.Sample{Timestamp: p.TsMs, Value: p.Val})
		}
		req.Timeseries = append(req.Timeseries, ts)
	}
	b, err := proto.Marshal(req)
	if err != nil {
		panic(err)
	}
	return b
}

func influxEsc(s string, chars string) string {
	var b strings.Builder
	for i := 0; i < len(s); i++ {
		if strings.IndexByte(chars, s[i]) >= 0 {
			b.WriteByte('\\')
		}
		b.WriteByte(s[i])
	}
	return b.String()
}

func influxLines(c *Case) []byte {
	var b bytes.Buffer
	for _, l := range c.Body.Influx {
		b.WriteString(influxEsc(string(l.Meas), ", "))
		for _, t := range l.Tags {
			b.WriteString("," + influxEsc(string(t.K), ",= ") + "=" + influxEsc(string(t.V), ",= "))
		}
		b.WriteByte(' ')
		for i, f := range l.Fields {
			if i > 0 {
				b.WriteByte(',')
			}
			b.WriteString(influxEsc(string(f.Name), ",= ") + "=")
			switch f.Kind {
			case "int":
				b.WriteString(strconv.FormatInt(f.I, 10) + "i")
			case "uint":
				b.WriteString(strconv.FormatInt(f.I, 10) + "u")
			case "float":
				b.WriteString(strconv.FormatFloat(f.F, 'f', -1, 64))
			case "bool":
				if f.I != 0 {
					b.WriteString("true")
				} else {
					b.WriteString("false")
				}
			case "str":
				b.WriteString(`"` + influxEsc(string(f.S), `"\`) + `"`)
			}
		}
		if l.NoTs {
			b.WriteString("\n")
		} else {
			b.WriteString(" " + strconv.FormatInt(l.Ts, 10) + "\n")
		}
	}
	return b.Bytes()
}

// ddLogJSON builds the document as a tree (an array of log objects, members in an order drawn from r); the wire text is
// its rendering and the tree goes into the Coq case (coq/model/DatadogJson.v walks it as DecodeEntry does)
func ddLogJSON(c *Case, r *rand.Rand) []byte {
	var items []JV
	for _, e := range c.Body.DDLog {
		var m []JKV
		if e.TagsText != nil {
			m = append(m, kv("ddtags", jS(string(*e.TagsText))))
		} else if len(e.Tags) > 0 || r.Intn(3) == 0 {
			parts := make([]string, len(e.Tags))
			for i, t := range e.Tags {
				parts[i] = string(t.K) + ":" + string(t.V)
			}
			m = append(m, kv("ddtags", jS(strings.Join(parts, ","))))
		}
		if e.Source != nil {
			m = append(m, kv("ddsource", jS(string(*e.Source))))
		}
		if e.Service != nil {
			m = append(m, kv("service", jS(string(*e.Service))))
		}
		if e.Hostname != nil {
			m = append(m, kv("hostname", jS(string(*e.Hostname))))
		}
		if e.SType != nil {
			m = append(m, kv("source_type", jS(string(*e.SType))))
		}
		if c.KeyOrder != "message-first" {
			m = append(m, kv("message", jS(string(e.Message))))
		}
		if e.TsMs != 0 {
			m = append(m, kv("timestamp", jN(strconv.FormatInt(e.TsMs, 10))))
		}
		if r.Intn(5) == 0 {
			m = append(m, kv("status", jS("info")))
		}
		o := shuffledObject(r, m)
		if c.KeyOrder == "message-first" { // the Datadog agent's order: the message, then the other keys
			o.O = append([]JKV{kv("message", jS(string(e.Message)))}, o.O...)
		}
		items = append(items, o)
	}
	doc := jA(items...)
	if c.Damage {
		doc, _ = damageDoc(r, doc, 0)
	}
	c.doc = &doc
	var sb strings.Builder
	doc.render(&sb)
	return []byte(sb.String())
}

// ddMetJSON builds the document as a tree ({"series":[...]}); the wire text is its rendering and the tree goes into the Coq
// case (coq/model/DatadogJson.v ddmet_document walks it as DecodeSeriesItem does)
func ddMetJSON(c *Case, r *rand.Rand) []byte {
	var items []JV
	for _, s := range c.Body.DDMet {
		var m []JKV
		if s.Metric != nil {
			m = append(m, kv("metric", jS(string(*s.Metric))))
		}
		if s.Resources != nil {
			rs := make([]JV, len(s.Resources))
			for i, res := range s.Resources {
				ms := make([]JKV, len(res))
				for j, l := range res {
					ms[j] = kv(string(l.K), jS(string(l.V)))
				}
				rs[i] = jO(ms...)
			}
			m = append(m, kv("resources", jA(rs...)))
		}
		ps := make([]JV, len(s.Points))
		for i, p := range s.Points {
			if p.NoTs {
				ps[i] = jO(kv("value", jN(jfloat(p.Val))))
				continue
			}
			ps[i] = shuffledObject(r, []JKV{kv("timestamp", jN(strconv.FormatInt(p.TsS, 10))), kv("value", jN(jfloat(p.Val)))})
		}
		m = append(m, kv("points", jA(ps...)))
		if r.Intn(4) == 0 {
			m = append(m, kv("type", jN("0")))
		}
		items = append(items, shuffledObject(r, m))
	}
	top := []JKV{kv("series", jA(items...))}
	if r.Intn(5) == 0 {
		top = append(top, kv("extra", JV{K: "null"}))
	}
	doc := shuffledObject(r, top)
	if c.Damage {
		doc, _ = damageDoc(r, doc, 0)
	}
	c.doc = &doc
	var sb strings.Builder
	doc.render(&sb)
	return []byte(sb.String())
}

func otlpAny(v OVal) *otlpCommon.AnyValue {
	switch v.Kind {
	case "str":
		return &otlpCommon.AnyValue{Value: &otlpCommon.AnyValue_StringValue{StringValue: string(v.S)}}
	case "bool":
		return &otlpCommon.AnyValue{Value: &otlpCommon.AnyValue_BoolValue{BoolValue: v.B}}
	case "int":
		return &otlpCommon.AnyValue{Value: &otlpCommon.AnyValue_IntValue{IntValue: v.I}}
	case "double":
		return &otlpCommon.AnyValue{Value: &otlpCommon.AnyValue_DoubleValue{DoubleValue: math.Float64frombits(v.F)}}
	case "bytes":
		return &otlpCommon.AnyValue{Value: &otlpCommon.AnyValue_BytesValue{BytesValue: []byte(v.S)}}
	case "arr":
		a := &otlpCommon.ArrayValue{}
		for _, x := range v.Items {
			it := otlpAny(x)
			if it == nil {
				it = &otlpCommon.AnyValue{} // an item without a value
			}
			a.Values = append(a.Values, it)
		}
		return &otlpCommon.AnyValue{Value: &otlpCommon.AnyValue_ArrayValue{ArrayValue: a}}
	case "kv":
		return &otlpCommon.AnyValue{Value: &otlpCommon.AnyValue_KvlistValue{KvlistValue: &otlpCommon.KeyValueList{Values: otlpKVs(v.KVs)}}}
	}
	return nil
}

func otlpKVs(l []OKV) []*otlpCommon.KeyValue {
	var out []*otlpCommon.KeyValue
	for _, kv := range l {
		out = append(out, &otlpCommon.KeyValue{Key: string(kv.K), Value: otlpAny(kv.V)})
	}
	return out
}

func otlpPB(c *Case) []byte {
	d := &otlpLogs.LogsData{}
	for _, rl := range c.Body.Otlp {
		x := &otlpLogs.ResourceLogs{}
		if rl.HasRes {
			x.Resource = &otlpRes.Resource{Attributes: otlpKVs(rl.Attrs)}
		}
		for _, sl := range rl.Scopes {
			y := &otlpLogs.ScopeLogs{}
			if sl.HasScope {
				y.Scope = &otlpCommon.InstrumentationScope{Name: "lib", Attributes: otlpKVs(sl.Attrs)}
			}
			for _, rec := range sl.Records {
				z := &otlpLogs.LogRecord{TimeUnixNano: rec.Ts, SeverityText: string(rec.Severity), Attributes: otlpKVs(rec.Attrs)}
				if rec.Body != nil {
					z.Body = &otlpCommon.AnyValue{Value: &otlpCommon.AnyValue_StringValue{StringValue: string(*rec.Body)}}
				}
				if rec.BodyV != nil {
					z.Body = otlpAny(*rec.BodyV)
					if z.Body == nil {
						z.Body = &otlpCommon.AnyValue{} // a body without a value
					}
				}
				y.LogRecords = append(y.LogRecords, z)
			}
			x.ScopeLogs = append(x.ScopeLogs, y)
		}
		d.ResourceLogs = append(d.ResourceLogs, x)
	}
	b, err := proto.Marshal(d)
	if err != nil {
		panic(err)
	}
	return b
}

func serialise(c *Case) []byte {
	r := rand.New(rand.NewSource(c.WSeed))
	switch c.Proto {
	case "loki_json":
		return lokiJSON(c, r)
	case "loki_pb":
		return lokiPB(c)
	case "prw":
		return prwPB(c)
	case "influx":
		return influxLines(c)
	case "ddlog":
		return ddLogJSON(c, r)
	case "ddmet":
		return ddMetJSON(c, r)
	case "otlp":
		return otlpPB(c)
	case "ddcf", "esbulk":
		return ndWire(c, r)
	}
	panic(fmt.Sprintf("unknown proto %q", c.Proto))
}
