// tracepb: correspondence harness for the protobuf branch of TempoController.Trace (property C15,
// model coq/model/TracePb.v).
//
// The REAL controllerv1.TempoController.Trace answers an httptest request with `Accept: application/protobuf`
// over a fake model.ITempoService whose Query hands out the scripted *model.SpanResponse values on a channel.
// The spans are real OTLP spans (random names, attributes of every AnyValue kind, events, links, status); the
// 8-byte span id carries the span identity the Coq model works with. The body is decoded with proto.Unmarshal
// into TracesData and laid out, per ResourceSpans, as what the property speaks about:
//
//	key / attr / strval / nattrs   first resource attribute (key, string value, is it a string value), number of attributes
//	sname / sver / nscopes         scope of the first ScopeSpans, number of ScopeSpans
//	ids                            span identities in document order (all ScopeSpans of the group, in order)
//	extra                          bytes left of the ResourceSpans message once the attribute, the scope name / version and
//	                               the spans are taken out (0 = nothing but the documented fields is there)
//	same                           per span: its re-marshalled bytes = the bytes of the input span of that identity
//
// One JSON line per case: "in" (replayable: service name hex, identity, content seed, flags), status, Content-Type,
// body (hex), valid (proto.Unmarshal accepted it), groups, panic. Kinds:
//
//	tracepb         generated / fixed cases over the fake service
//	tracepb-stored  fixed witnesses: stored payloads (payload_type, payload) are decoded by the REAL
//	                TempoService.OutputQuery over a scripted database/sql driver and its channel is what Trace ranges over
package main

import (
	"bytes"
	"context"
	"database/sql"
	"database/sql/driver"
	"encoding/binary"
	"encoding/json"
	"errors"
	"fmt"
	"io"
	"math/rand"
	"net/http"
	"net/http/httptest"
	"strings"
	"time"
	"unicode/utf8"

	"github.com/gorilla/mux"
	controllerv1 "github.com/metrico/qryn/reader/controller"
	"github.com/metrico/qryn/reader/model"
	"github.com/metrico/qryn/reader/service"
	commonv1 "go.opentelemetry.io/proto/otlp/common/v1"
	tracev1 "go.opentelemetry.io/proto/otlp/trace/v1"
	"google.golang.org/protobuf/proto"
	"verif/harness/hx"
)

// ---------------------------------------------------------------------------- cases

type SpanIn struct {
	Svc     string `json:"svc"`               // hex: SpanResponse.ServiceName
	Id      int64  `json:"id"`                // span identity (the span id, big endian)
	Content int64  `json:"content"`           // seed of everything else inside the span
	Nil     bool   `json:"nil,omitempty"`     // SpanResponse.Span == nil
	BadName bool   `json:"badname,omitempty"` // the span's name is not UTF-8
}

type Stored struct {
	Type    int    `json:"type"`    // payload_type
	Payload string `json:"payload"` // hex
}

type In struct {
	Spans  []SpanIn `json:"spans"`
	Stored []Stored `json:"stored,omitempty"`
}

type ChanItem struct {
	Svc string `json:"svc"` // hex
	Id  int64  `json:"id"`  // identity read off the span id (-1: no 8-byte span id)
	Nil bool   `json:"nil,omitempty"`
	Bad bool   `json:"bad,omitempty"` // the span alone cannot be marshalled (a string inside it is not UTF-8)
}

type Group struct {
	Key     string  `json:"key"`
	Attr    string  `json:"attr"`
	StrVal  bool    `json:"strval"`
	NAttrs  int     `json:"nattrs"`
	SName   string  `json:"sname"`
	SVer    string  `json:"sver"`
	NScopes int     `json:"nscopes"`
	Extra   int     `json:"extra"`
	Ids     []int64 `json:"ids"`
	Same    []bool  `json:"same"`
}

type Case struct {
	Id    int      `json:"id"`
	Kind  string   `json:"kind"`
	Class string   `json:"class"`
	Feat  []string `json:"feat,omitempty"` // features of the service names / the channel (generated cases)
	In    In       `json:"in"`
	Note  string   `json:"note,omitempty"`
	// observations
	Status    int        `json:"status"`
	Ct        string     `json:"ct"`
	Out       string     `json:"out"`
	Valid     bool       `json:"valid"`
	Groups    []Group    `json:"groups"`
	BytesSame bool       `json:"bytes_same"`
	BadSpan   bool       `json:"badspan"` // some span of the input carries a string that is not UTF-8
	BinIds    bool       `json:"binids"`  // Query was asked for binary ids
	Panic     string     `json:"panic,omitempty"`
	Chan      []ChanItem `json:"chan"`              // what went through the channel, in order: the input of the model
	SpanHex   []string   `json:"spanhex,omitempty"` // marshalled input spans (first 3), for the evidence samples
}

// ---------------------------------------------------------------------------- spans

var texts = []string{"", "GET /", "op", "a\"b", "x\\y", "日本", "é", "😀", "a\x00b", "line\nbreak", "<&>", " ", " ", strings.Repeat("n", 70)}

func genText(r *rand.Rand) string {
	if r.Intn(3) == 0 {
		n := r.Intn(6)
		b := make([]byte, n)
		for i := range b {
			b[i] = byte(32 + r.Intn(95))
		}
		return string(b)
	}
	return texts[r.Intn(len(texts))]
}

func genBytesN(r *rand.Rand, n int) []byte {
	b := make([]byte, n)
	r.Read(b)
	return b
}

func genValue(r *rand.Rand, depth int) *commonv1.AnyValue {
	k := r.Intn(8)
	if depth > 1 && k >= 5 {
		k = r.Intn(5)
	}
	switch k {
	case 0:
		return &commonv1.AnyValue{Value: &commonv1.AnyValue_StringValue{StringValue: genText(r)}}
	case 1:
		return &commonv1.AnyValue{Value: &commonv1.AnyValue_IntValue{IntValue: r.Int63() - r.Int63()}}
	case 2:
		return &commonv1.AnyValue{Value: &commonv1.AnyValue_BoolValue{BoolValue: r.Intn(2) == 0}}
	case 3:
		return &commonv1.AnyValue{Value: &commonv1.AnyValue_DoubleValue{DoubleValue: r.NormFloat64() * 1e3}}
	case 4:
		return &commonv1.AnyValue{Value: &commonv1.AnyValue_BytesValue{BytesValue: genBytesN(r, r.Intn(5))}}
	case 5:
		a := &commonv1.ArrayValue{}
		for i, n := 0, r.Intn(3); i < n; i++ {
			a.Values = append(a.Values, genValue(r, depth+1))
		}
		return &commonv1.AnyValue{Value: &commonv1.AnyValue_ArrayValue{ArrayValue: a}}
	case 6:
		l := &commonv1.KeyValueList{}
		for i, n := 0, r.Intn(3); i < n; i++ {
			l.Values = append(l.Values, &commonv1.KeyValue{Key: genText(r), Value: genValue(r, depth+1)})
		}
		return &commonv1.AnyValue{Value: &commonv1.AnyValue_KvlistValue{KvlistValue: l}}
	}
	return &commonv1.AnyValue{} // no value set
}

func genAttrs(r *rand.Rand, max int) []*commonv1.KeyValue {
	var l []*commonv1.KeyValue
	for i, n := 0, r.Intn(max+1); i < n; i++ {
		kv := &commonv1.KeyValue{Key: genText(r)}
		if r.Intn(8) != 0 {
			kv.Value = genValue(r, 0)
		}
		l = append(l, kv)
	}
	return l
}

func idBytes(id int64) []byte {
	b := make([]byte, 8)
	binary.BigEndian.PutUint64(b, uint64(id))
	return b
}

// mkSpan: everything inside the span is a function of (id, content)
func mkSpan(s SpanIn) *tracev1.Span {
	if s.Nil {
		return nil
	}
	r := rand.New(rand.NewSource(s.Content*1000003 + s.Id))
	sp := &tracev1.Span{
		TraceId:           genBytesN(r, 16),
		SpanId:            idBytes(s.Id),
		Name:              genText(r),
		Kind:              tracev1.Span_SpanKind(r.Intn(6)),
		StartTimeUnixNano: uint64(r.Int63()),
		EndTimeUnixNano:   uint64(r.Int63()),
		Attributes:        genAttrs(r, 3),
	}
	if r.Intn(2) == 0 {
		sp.ParentSpanId = genBytesN(r, 8)
	}
	if r.Intn(3) == 0 {
		sp.TraceState = genText(r)
	}
	if r.Intn(4) == 0 {
		sp.Flags = r.Uint32()
	}
	if r.Intn(4) == 0 {
		sp.DroppedAttributesCount = uint32(r.Intn(5))
	}
	for i, n := 0, r.Intn(3); i < n; i++ {
		sp.Events = append(sp.Events, &tracev1.Span_Event{TimeUnixNano: uint64(r.Int63()), Name: genText(r), Attributes: genAttrs(r, 2),
			DroppedAttributesCount: uint32(r.Intn(2))})
	}
	for i, n := 0, r.Intn(2); i < n; i++ {
		sp.Links = append(sp.Links, &tracev1.Span_Link{TraceId: genBytesN(r, 16), SpanId: genBytesN(r, 8), TraceState: genText(r), Attributes: genAttrs(r, 1)})
	}
	if r.Intn(2) == 0 {
		sp.Status = &tracev1.Status{Code: tracev1.Status_StatusCode(r.Intn(3)), Message: genText(r)}
	}
	if s.BadName {
		sp.Name = "op\xff"
	}
	return sp
}

var det = proto.MarshalOptions{Deterministic: true}

// ---------------------------------------------------------------------------- fake service

type fakeTempo struct {
	spans  []*model.SpanResponse
	binIds bool
}

func (f *fakeTempo) Query(ctx context.Context, startNS int64, endNS int64, traceId []byte, binIds bool) (chan *model.SpanResponse, error) {
	f.binIds = binIds
	ch := make(chan *model.SpanResponse)
	go func() {
		defer close(ch)
		for _, s := range f.spans {
			ch <- s
		}
	}()
	return ch, nil
}
func (f *fakeTempo) Tags(ctx context.Context) (chan string, error) {
	return nil, errors.New("not scripted")
}
func (f *fakeTempo) Values(ctx context.Context, tag string) (chan string, error) {
	return nil, errors.New("not scripted")
}
func (f *fakeTempo) ValuesV2(ctx context.Context, key string, query string, from time.Time, to time.Time, limit int) (chan string, error) {
	return nil, errors.New("not scripted")
}
func (f *fakeTempo) Search(ctx context.Context, tags string, minDurationNS int64, maxDurationNS int64, limit int, fromNS int64, toNS int64) (chan *model.TraceResponse, error) {
	return nil, errors.New("not scripted")
}
func (f *fakeTempo) SearchTraceQL(ctx context.Context, q string, limit int, from time.Time, to time.Time) (chan []model.TraceInfo, error) {
	return nil, errors.New("not scripted")
}
func (f *fakeTempo) TagsV2(ctx context.Context, query string, from time.Time, to time.Time, limit int) (chan string, error) {
	return nil, errors.New("not scripted")
}

// ---------------------------------------------------------------------------- scripted database (tracepb-stored)

type sdrv struct{}
type sconn struct{}
type srows struct {
	rows [][]driver.Value
	i    int
}

var storedRows [][]driver.Value

func (sdrv) Open(string) (driver.Conn, error)      { return &sconn{}, nil }
func (*sconn) Prepare(string) (driver.Stmt, error) { return nil, errors.New("prepare not supported") }
func (*sconn) Close() error                        { return nil }
func (*sconn) Begin() (driver.Tx, error)           { return nil, errors.New("no tx") }
func (*sconn) QueryContext(ctx context.Context, q string, args []driver.NamedValue) (driver.Rows, error) {
	return &srows{rows: storedRows}, nil
}
func (r *srows) Columns() []string {
	return []string{"trace_id", "span_id", "parent_id", "timestamp_ns", "duration_ns", "payload_type", "payload"}
}
func (r *srows) Close() error { return nil }
func (r *srows) Next(dest []driver.Value) error {
	if r.i >= len(r.rows) {
		return io.EOF
	}
	copy(dest, r.rows[r.i])
	r.i++
	return nil
}

var sdb *sql.DB

func init() {
	sql.Register("tracepb-scripted", sdrv{})
	var err error
	sdb, err = sql.Open("tracepb-scripted", "")
	if err != nil {
		panic(err)
	}
}

// storedService: ITempoService whose Query is the REAL OutputQuery over the scripted rows
type storedService struct{ fakeTempo }

func (f *storedService) Query(ctx context.Context, startNS int64, endNS int64, traceId []byte, binIds bool) (chan *model.SpanResponse, error) {
	f.binIds = binIds
	rows, err := sdb.QueryContext(ctx, "select")
	if err != nil {
		return nil, err
	}
	return (&service.TempoService{}).OutputQuery(binIds, rows)
}

// tap: the service the controller sees; it records what goes through the channel
type tap struct {
	model.ITempoService
	c    *Case
	want map[int64][]byte // identity -> bytes of the span as it went through the channel (first of that identity)
}

func (t *tap) Query(ctx context.Context, startNS int64, endNS int64, traceId []byte, binIds bool) (chan *model.SpanResponse, error) {
	in, err := t.ITempoService.Query(ctx, startNS, endNS, traceId, binIds)
	if err != nil {
		return nil, err
	}
	ch := make(chan *model.SpanResponse)
	go func() {
		defer close(ch)
		for s := range in {
			it := ChanItem{Svc: hx.Hex(s.ServiceName), Id: spanIdentity(s.Span), Nil: s.Span == nil}
			if s.Span == nil {
				t.want[it.Id] = []byte{} // a nil element of a repeated message field is the empty message on the wire
			}
			if s.Span != nil {
				b, err := det.Marshal(s.Span)
				it.Bad = err != nil
				if _, ok := t.want[it.Id]; !ok && err == nil {
					t.want[it.Id] = b
					if len(t.c.SpanHex) < 3 {
						t.c.SpanHex = append(t.c.SpanHex, hx.Hex(string(b)))
					}
				}
			}
			t.c.Chan = append(t.c.Chan, it)
			t.c.BadSpan = t.c.BadSpan || it.Bad
			ch <- s
		}
	}()
	return ch, nil
}

// ---------------------------------------------------------------------------- running a case

type rec struct {
	hdr  http.Header
	buf  []byte
	code int
}

func (r *rec) Header() http.Header { return r.hdr }
func (r *rec) WriteHeader(c int) {
	if r.code == 0 {
		r.code = c
	}
}
func (r *rec) Write(p []byte) (int, error) {
	if r.code == 0 {
		r.code = 200
	}
	r.buf = append(r.buf, p...)
	return len(p), nil
}

func spanIdentity(sp *tracev1.Span) int64 {
	if sp == nil || len(sp.SpanId) != 8 {
		return -1
	}
	return int64(binary.BigEndian.Uint64(sp.SpanId))
}

func run(c *Case) {
	c.Status, c.Ct, c.Out, c.Valid, c.Groups, c.BytesSame, c.Panic, c.SpanHex, c.Chan, c.BadSpan = 0, "", "", false, []Group{}, false, "", nil, []ChanItem{}, false
	var inner model.ITempoService
	var fk *fakeTempo
	if c.Kind == "tracepb-stored" {
		storedRows = nil
		for i, s := range c.In.Stored {
			storedRows = append(storedRows, []driver.Value{"0123456789abcdef", fmt.Sprintf("%08d", i+1), "", int64(1000 + i), int64(10), int64(s.Type), hx.UnHex(s.Payload)})
		}
		ss := &storedService{}
		inner, fk = ss, &ss.fakeTempo
	} else {
		fk = &fakeTempo{}
		for _, s := range c.In.Spans {
			fk.spans = append(fk.spans, &model.SpanResponse{ServiceName: hx.UnHex(s.Svc), Span: mkSpan(s)})
		}
		inner = fk
	}
	svc := &tap{ITempoService: inner, c: c, want: map[int64][]byte{}}
	want := svc.want
	w := &rec{hdr: http.Header{}}
	c.Panic = hx.Catch(func() {
		ctl := &controllerv1.TempoController{Service: svc}
		r := httptest.NewRequest("GET", "/api/traces/0123456789abcdef0123456789abcdef", nil)
		r.Header.Set("Accept", "application/protobuf")
		r = mux.SetURLVars(r, map[string]string{"traceId": "0123456789abcdef0123456789abcdef"})
		ctl.Trace(w, r)
	})
	c.Status = w.code
	if c.Status == 0 {
		c.Status = 200 // net/http answers 200 when the handler wrote nothing
	}
	c.Ct = w.hdr.Get("Content-Type")
	c.Out = hx.Hex(string(w.buf))
	c.BinIds = fk.binIds
	var td tracev1.TracesData
	c.Valid = proto.Unmarshal(w.buf, &td) == nil
	if !c.Valid || c.Status != 200 {
		return
	}
	c.BytesSame = true
	for _, rs := range td.ResourceSpans {
		g := Group{Ids: []int64{}, Same: []bool{}}
		rest := proto.Clone(rs).(*tracev1.ResourceSpans)
		if rs.Resource != nil {
			g.NAttrs = len(rs.Resource.Attributes)
			if g.NAttrs > 0 {
				a := rs.Resource.Attributes[0]
				g.Key = hx.Hex(a.GetKey())
				if sv, ok := a.GetValue().GetValue().(*commonv1.AnyValue_StringValue); ok {
					g.StrVal = true
					g.Attr = hx.Hex(sv.StringValue)
				}
				rest.Resource.Attributes = rest.Resource.Attributes[1:]
			}
		}
		g.NScopes = len(rs.ScopeSpans)
		for i, ss := range rs.ScopeSpans {
			if i == 0 && ss.Scope != nil {
				g.SName, g.SVer = hx.Hex(ss.Scope.Name), hx.Hex(ss.Scope.Version)
				rest.ScopeSpans[0].Scope.Name, rest.ScopeSpans[0].Scope.Version = "", ""
			}
			for _, sp := range ss.Spans {
				id := spanIdentity(sp)
				g.Ids = append(g.Ids, id)
				b, err := det.Marshal(sp)
				same := err == nil
				if same {
					wb, ok := want[id]
					same = ok && bytes.Equal(wb, b)
				}
				g.Same = append(g.Same, same)
				if !same {
					c.BytesSame = false
				}
			}
			rest.ScopeSpans[i].Spans = nil
		}
		// what is left once the documented fields are taken out (0 bytes = nothing else is there)
		if rest.Resource != nil && proto.Size(rest.Resource) == 0 {
			rest.Resource = nil
		}
		if len(rest.ScopeSpans) > 0 {
			if s0 := rest.ScopeSpans[0]; s0.Scope != nil && proto.Size(s0.Scope) == 0 {
				s0.Scope = nil
			}
			if proto.Size(rest.ScopeSpans[0]) == 0 {
				rest.ScopeSpans = rest.ScopeSpans[1:]
			}
		}
		g.Extra = proto.Size(rest)
		c.Groups = append(c.Groups, g)
	}
}

// ---------------------------------------------------------------------------- generator

var plain = []string{"frontend", "checkout", "svc-a", "db", "auth.v2", "OTLPResourceNoServiceName"}
var quoted = []string{"a\"b", "'x'", "back\\slash", "{\"k\":1}", "a|b~c"}
var multib = []string{"日本", "é", "😀 svc", " ", "café", "café"}
var ctrl = []string{"a\x00b", "a\nb", "\t", "\x7f"}
var confus = []string{"svc", "Svc", "SVC", "svc ", " svc", "svc\t", "svc\x00"}
var badutf = []string{"a\xff", "\xc3", "\xed\xa0\x80", "svc\xc0\xaf"}

func genCase(r *rand.Rand, id int) *Case {
	c := &Case{Id: id, Kind: "tracepb"}
	var tags, feat []string
	nsvc := []int{1, 2, 2, 3, 3, 3, 4, 4}[r.Intn(8)]
	if r.Intn(25) == 0 {
		nsvc = 0
	}
	var names []string
	fam := r.Intn(10)
	bad := false
	for len(names) < nsvc {
		var n string
		switch {
		case fam == 0: // names that differ only in case / white space
			n = confus[r.Intn(len(confus))]
		case fam == 1 && len(names) == 0:
			n = strings.Repeat("long-service-name/", 20+r.Intn(5))
		default:
			switch r.Intn(12) {
			case 0, 1:
				n = ""
			case 2, 3:
				n = quoted[r.Intn(len(quoted))]
			case 4, 5:
				n = multib[r.Intn(len(multib))]
			case 6:
				n = ctrl[r.Intn(len(ctrl))]
			case 7:
				if r.Intn(3) == 0 {
					n = badutf[r.Intn(len(badutf))]
				} else {
					n = genText(r)
				}
			default:
				n = plain[r.Intn(len(plain))]
			}
		}
		dup := false
		for _, m := range names {
			if m == n {
				dup = true
			}
		}
		if dup && r.Intn(4) != 0 {
			continue
		}
		names = append(names, n) // an equal name twice: the two "services" are one
	}
	nsp := 0
	if nsvc > 0 {
		nsp = 1 + r.Intn(8)
		if r.Intn(30) == 0 {
			nsp = 0
		}
	}
	content := r.Int63n(1 << 40)
	next := int64(1)
	mode := r.Intn(4) // 0: contiguous runs, else interleaved
	for i := 0; i < nsp; i++ {
		var k int
		if mode == 0 {
			k = i * nsvc / nsp
		} else {
			k = r.Intn(nsvc)
		}
		s := SpanIn{Svc: hx.Hex(names[k]), Content: content}
		if i > 0 && r.Intn(7) == 0 {
			s.Id = c.In.Spans[r.Intn(i)].Id // the same span delivered again (under any service)
		} else {
			s.Id = next
			if r.Intn(5) == 0 {
				s.Id = r.Int63() // any 8 bytes
			}
			next++
		}
		c.In.Spans = append(c.In.Spans, s)
	}
	// class
	used := map[string]bool{}
	ids := map[int64]bool{}
	inter, rep, empty, long, conf, mb, qt := false, false, false, false, false, false, false
	closed := map[string]bool{}
	prev := ""
	for i, s := range c.In.Spans {
		n := hx.UnHex(s.Svc)
		if i > 0 && n != prev {
			closed[prev] = true
		}
		if closed[n] {
			inter = true
		}
		prev = n
		used[n] = true
		if ids[s.Id] {
			rep = true
		}
		ids[s.Id] = true
		empty = empty || n == ""
		long = long || len(n) > 200
		bad = bad || !utf8.ValidString(n)
		mb = mb || (utf8.ValidString(n) && len(n) != utf8.RuneCountInString(n))
		qt = qt || strings.ContainsAny(n, "\"'\\|~")
	}
	low := map[string]int{}
	for n := range used {
		low[strings.ToLower(strings.TrimSpace(strings.Trim(n, "\x00")))]++
	}
	for _, k := range low {
		if k > 1 {
			conf = true
		}
	}
	switch {
	case len(c.In.Spans) == 0:
		tags = append(tags, "no spans")
	case len(used) == 1:
		tags = append(tags, "one service")
	case inter:
		tags = append(tags, fmt.Sprintf("%d services interleaved", len(used)))
	default:
		tags = append(tags, fmt.Sprintf("%d services in runs", len(used)))
	}
	for _, f := range []struct {
		on bool
		t  string
	}{{empty, "empty name"}, {conf, "names differing in case or space"}, {long, "long name"}, {mb, "multi-byte name"}, {qt, "quotes in name"},
		{rep, "span delivered twice"}, {bad, "name not UTF-8"}} {
		if f.on {
			feat = append(feat, f.t)
		}
	}
	c.Class, c.Feat = strings.Join(tags, ", "), feat
	return c
}

func sp(svc string, id int64) SpanIn { return SpanIn{Svc: hx.Hex(svc), Id: id, Content: 7} }

// zipkinJSON: a Zipkin v2 span as the writer stores it (payload_type 1)
func zipkinJSON(name, svc string) string {
	return `{"traceId":"0123456789abcdef","id":"00000001","name":"` + name + `","timestamp":1000,"duration":10,"localEndpoint":{"serviceName":"` + svc + `"}}`
}

func fixedCases() []*Case {
	okSpan, _ := proto.Marshal(&tracev1.Span{TraceId: genBytesN(rand.New(rand.NewSource(1)), 16), SpanId: idBytes(1), Name: "AAAA",
		Attributes: []*commonv1.KeyValue{{Key: "service.name", Value: &commonv1.AnyValue{Value: &commonv1.AnyValue_StringValue{StringValue: "shop"}}}}})
	badSpan := bytes.Replace(okSpan, []byte("AAAA"), []byte("AA\xff\xfe"), 1)
	otherSpan := bytes.Replace(bytes.Replace(okSpan, []byte("AAAA"), []byte("BBBB"), 1), idBytes(1), idBytes(2), 1)
	l := []*Case{
		{Kind: "tracepb", Class: "fixed: no spans", In: In{Spans: []SpanIn{}}},
		{Kind: "tracepb", Class: "fixed: empty service name between named ones", In: In{Spans: []SpanIn{sp("a", 1), sp("", 2), sp("a", 3), sp("", 4)}}},
		{Kind: "tracepb", Class: "fixed: three services interleaved, one span delivered twice",
			In: In{Spans: []SpanIn{sp("a", 1), sp("b", 2), sp("", 3), sp("a", 4), sp("b", 2), sp("", 5), sp("a", 6)}}},
		{Kind: "tracepb", Class: "fixed: names differing in case and trailing space", In: In{Spans: []SpanIn{sp("svc", 1), sp("Svc", 2), sp("svc ", 3), sp("svc", 4)}}},
		{Kind: "tracepb", Class: "fixed: nil Span", Note: "SpanResponse.Span == nil between two spans", In: In{Spans: []SpanIn{sp("a", 1), {Svc: hx.Hex("a"), Id: 2, Nil: true}, sp("b", 3)}}},
		{Kind: "tracepb", Class: "fixed: service name not UTF-8", In: In{Spans: []SpanIn{sp("a", 1), sp("a\xff", 2)}}},
		{Kind: "tracepb", Class: "fixed: span name not UTF-8", In: In{Spans: []SpanIn{sp("a", 1), {Svc: hx.Hex("a"), Id: 2, Content: 7, BadName: true}}}},
		{Kind: "tracepb-stored", Class: "fixed: stored OTLP payloads, all well-formed", In: In{Stored: []Stored{{2, hx.Hex(string(okSpan))}, {2, hx.Hex(string(otherSpan))}}}},
		{Kind: "tracepb-stored", Class: "fixed: stored OTLP protobuf payload with a name that is not UTF-8",
			Note: "proto.Unmarshal of the stored bytes refuses the span", In: In{Stored: []Stored{{2, hx.Hex(string(okSpan))}, {2, hx.Hex(string(badSpan))}, {2, hx.Hex(string(otherSpan))}}}},
		{Kind: "tracepb-stored", Class: "fixed: stored Zipkin JSON payload with a service name that is not UTF-8",
			Note: "fastjson hands the bytes out unchecked", In: In{Stored: []Stored{{1, hx.Hex(zipkinJSON("op", "shop"))}, {1, hx.Hex(zipkinJSON("op", "sh\xffop"))}}}},
		{Kind: "tracepb-stored", Class: "fixed: stored Zipkin JSON payload with a span name that is not UTF-8",
			In: In{Stored: []Stored{{1, hx.Hex(zipkinJSON("o\xffp", "shop"))}}}},
		{Kind: "tracepb-stored", Class: "fixed: stored payload of an unknown type", In: In{Stored: []Stored{{2, hx.Hex(string(okSpan))}, {7, hx.Hex("x")}, {2, hx.Hex(string(otherSpan))}}}},
	}
	for i, c := range l {
		c.Id = 1000000 + i
	}
	return l
}

func main() {
	fl := hx.ParseFlags()
	out := hx.OpenOut(fl.Out)
	defer out.Close()
	emit := func(c *Case) {
		if p := hx.Catch(func() { run(c) }); p != "" && c.Panic == "" {
			c.Panic = "harness: " + p
		}
		out.Put(c)
	}
	if fl.Cases != "" {
		hx.ReadLines(fl.Cases, func(line []byte) {
			c := &Case{}
			if err := json.Unmarshal(line, c); err != nil {
				panic(err)
			}
			emit(c)
		})
		return
	}
	for _, c := range fixedCases() {
		emit(c)
	}
	r := hx.Rand(fl.Seed)
	for i := 0; i < fl.N; i++ {
		emit(genCase(r, i))
	}
}
