// seriesit drives the real sample cursor of reader/model (Series.Iterator(): Next/Seek/At)
// with scripts of calls and prints what each call returned.
package main

import (
	"encoding/json"
	"math/rand"

	"github.com/metrico/qryn/reader/model"
	"verif/harness/hx"
)

type Op struct {
	K string `json:"k"` // "next" | "seek"
	T int64  `json:"t"`
}
type Obs struct {
	Ret bool   `json:"ret"`
	At  *int64 `json:"at"` // nil = At() panicked (index out of range)
	P   string `json:"panic,omitempty"`
}
type Case struct {
	ID      int     `json:"id"`
	Samples []int64 `json:"samples"`
	Ops     []Op    `json:"ops"`
	Obs     []Obs   `json:"obs"`
	Class   string  `json:"class"`
}

func gen(r *rand.Rand, id int) Case {
	c := Case{ID: id}
	n := 0
	switch r.Intn(10) {
	case 0:
		n = 0
		c.Class = "empty"
	case 1:
		n = 1
		c.Class = "single"
	case 2, 3:
		n = 2 + r.Intn(3)
		c.Class = "small"
	default:
		n = 3 + r.Intn(14)
		c.Class = "medium"
	}
	t := int64(r.Intn(40)) - 10
	dup := r.Intn(3) == 0
	for i := 0; i < n; i++ {
		c.Samples = append(c.Samples, t)
		if dup && r.Intn(3) == 0 {
			continue // repeated timestamp
		}
		t += int64(1 + r.Intn(15))
	}
	if dup && n > 1 {
		c.Class += "+dup"
	}
	lo, hi := int64(-12), t+12
	nops := 1 + r.Intn(10)
	for i := 0; i < nops; i++ {
		if r.Intn(3) == 0 {
			c.Ops = append(c.Ops, Op{K: "next"})
			continue
		}
		var tt int64
		if len(c.Samples) > 0 && r.Intn(2) == 0 {
			tt = c.Samples[r.Intn(len(c.Samples))] + int64(r.Intn(3)) - 1 // on / next to a sample
		} else {
			tt = lo + r.Int63n(hi-lo+1)
		}
		c.Ops = append(c.Ops, Op{K: "seek", T: tt})
	}
	return c
}

func run(c *Case) {
	s := &model.Series{}
	for _, t := range c.Samples {
		s.Samples = append(s.Samples, model.Sample{TimestampMs: t, Value: float64(t)})
	}
	it := s.Iterator()
	c.Obs = nil
	for _, o := range c.Ops {
		var ob Obs
		p := hx.Catch(func() {
			if o.K == "next" {
				ob.Ret = it.Next()
			} else {
				ob.Ret = it.Seek(o.T)
			}
		})
		if p != "" {
			ob.P = p
			c.Obs = append(c.Obs, ob)
			break // the cursor state after a panic is not defined; stop the script here
		}
		hx.Catch(func() {
			t, _ := it.At()
			ob.At = &t
		})
		c.Obs = append(c.Obs, ob)
	}
}

func main() {
	f := hx.ParseFlags()
	out := hx.OpenOut(f.Out)
	defer out.Close()
	if f.Cases != "" {
		hx.ReadLines(f.Cases, func(b []byte) {
			var c Case
			if err := json.Unmarshal(b, &c); err != nil {
				panic(err)
			}
			run(&c)
			out.Put(c)
		})
		return
	}
	r := hx.Rand(f.Seed)
	for i := 0; i < f.N; i++ {
		c := gen(r, i)
		run(&c)
		out.Put(c)
	}
}
