// logqlsql: LogQL text -> real parser -> real clickhouse_planner -> SQL text, together with the
// parsed script dumped as a term of coq/model/Logql.v (the planner model runs on the same AST).
package main

import (
	"encoding/json"
	"flag"
	"regexp/syntax"
	"strconv"
	"strings"
	"time"
	_ "time/tzdata" // the zone database inside the binary: a named zone loads whatever the machine has installed

	"github.com/metrico/cloki-config/config"
	"github.com/metrico/qryn/reader/logql/logql_parser"
	"github.com/metrico/qryn/reader/logql/logql_transpiler_v2"
	"github.com/metrico/qryn/reader/logql/logql_transpiler_v2/clickhouse_planner"
	"github.com/metrico/qryn/reader/logql/logql_transpiler_v2/shared"
	"github.com/metrico/qryn/reader/model"
	sql "github.com/metrico/qryn/reader/utils/sql_select"
	"github.com/metrico/qryn/reader/utils/tables"
	"verif/harness/coqx"
	"verif/harness/hx"
)

type Ctx struct {
	FromNs   int64 `json:"from_ns"`
	ToNs     int64 `json:"to_ns"`
	Limit    int64 `json:"limit"`
	Asc      bool  `json:"asc"`
	Cluster  bool  `json:"cluster"`
	Type     uint8 `json:"type"`
	Finalize bool  `json:"finalize"` // Plan(script, finalize)
	StepMs   int64 `json:"step_ms"`
	// TZ: the zone of the reader PROCESS for this case (IANA name, as the environment variable TZ would set it; "" = the
	// zone the harness process started with). The services build the window with time.Unix(0, ns), a time in that zone;
	// the planner model has no such parameter: the statement must not depend on it (C07 round 6, seeded C07-f).
	TZ string `json:"tz,omitempty"`
	// Overlap (C08 round 8, metric cases): the window [from_ns, to_ns] of a second request with the byte-identical query text that
	// is transpiled and processed completely while this case's request stands in the middle of its Process call; both requests go
	// through logql_transpiler_v2.Transpile + chain[0].Process as QueryRangeService does (overlap.go). The statement must not depend on it.
	Overlap *[2]int64 `json:"overlap,omitempty"`
	// NoCHFinalize (C07 round 8): the PlannerContext is built WITHOUT the flag CHFinalize (its zero value): MainFinalizerPlanner
	// returns the select under the outermost one. Default false = the flag is set, as the reader's services do.
	NoCHFinalize bool `json:"no_ch_finalize,omitempty"`
}

type Case struct {
	ID     int      `json:"id"`
	Query  string   `json:"query"`
	Ctx    Ctx      `json:"ctx"`
	Runs   int      `json:"runs"` // number of Process calls on the one plan object (C14)
	// Rewin (C07 round 7, optional): the windows [from_ns, to_ns) of the runs after the first (run k > 0 asks for
	// Rewin[k-1] under a context object of its own, as QueryRangeService.Tail builds one per tick; without an entry the window advances
	// by one second on the one context object as before) - a tail hands every tick its own window
	// to the one plan object. CtxMLRuns: the planner context of those runs as terms (filled only when Rewin is given).
	Rewin     [][2]int64 `json:"rewin,omitempty"`
	CtxMLRuns []string   `json:"ctx_ml_runs,omitempty"`
	Class  []string `json:"class"`
	AstCoq string   `json:"ast_coq,omitempty"`
	CtxCoq string   `json:"ctx_coq,omitempty"`
	AstML  string   `json:"ast_ml,omitempty"`
	// metric queries (C08): the whole script as a term of model/Logql.v `script`
	ScriptCoq string   `json:"script_coq,omitempty"`
	ScriptML  string   `json:"script_ml,omitempty"`
	Script1ML string   `json:"script1_ml,omitempty"` // the script handed to the planners, when logql_transpiler_v2.Plan rewrote it (ScriptML = the script as written)
	Bp        bool     `json:"bp,omitempty"`         // the script has a breakpoint: the reader does not hand it to clickhouse_planner.Plan whole
	Metric    bool     `json:"metric,omitempty"`
	Facts     *Facts   `json:"facts,omitempty"` // what the parsed script names (for the spec oracles of checks/c08.py)
	CtxML     string   `json:"ctx_ml,omitempty"`
	SQL       []string `json:"sql,omitempty"` // one per run
	Err       string   `json:"err,omitempty"` // parse | ast | plan | process | string
	ErrText   string   `json:"err_text,omitempty"`
	// --mode metricdb (C08): databases the statement is executed over (model/LogqlMetricExec.v)
	Dbs   []XDB  `json:"dbs,omitempty"`
	DbsML string `json:"dbs_ml,omitempty"`
	// the implementation's statement parsed back into the tree of model/Sql.v (impltree.go), for the cases that carry databases
	SqlTreeML  string `json:"sql_tree_ml,omitempty"`
	SqlTreeErr string `json:"sql_tree_err,omitempty"`
}

// ---------------------------------------------------------------- AST -> Coq

type dumpErr struct{ s string }

func fail(s string) { panic(dumpErr{s}) }

func unq(q *logql_parser.QuotedString) string {
	s, err := q.Unquote()
	if err != nil {
		fail("unquote: " + err.Error())
	}
	return s
}

func dumpMatcher(y coqx.Syn, c logql_parser.StrSelCmd) string {
	op := map[string]string{"=": "MEq", "!=": "MNeq", "=~": "MRe", "!~": "MNre"}[c.Op]
	if op == "" {
		fail("matcher op " + c.Op)
	}
	return y.Rec("m_name", y.Str(c.Label.Name), "m_op", op, "m_val", y.Str(unq(&c.Val)))
}

// the library call of LineFilterPlanner.re2Like, recomputed here as an oracle value
func re2Like(y coqx.Syn, val string) string {
	exp, err := syntax.Parse(val, syntax.PerlX)
	if err != nil {
		return y.None()
	}
	if exp.Op != syntax.OpLiteral || exp.Flags & ^(syntax.PerlX|syntax.FoldCase) != 0 {
		return y.None()
	}
	return y.Some(y.Pair(y.Str(string(exp.Rune)), y.Bool(exp.Flags&syntax.FoldCase != 0)))
}

func dumpSimpleLF(y coqx.Syn, s *logql_parser.SimpleLabelFilter) string {
	fn := map[string]string{"=": "LEq", "!=": "LNeq", "=~": "LRe", "!~": "LNre", "==": "LDeq", ">": "LGt", ">=": "LGe", "<": "LLt", "<=": "LLe"}[s.Fn]
	if fn == "" {
		fail("label filter fn " + s.Fn)
	}
	str := y.None()
	if s.StrVal != nil {
		str = y.Some(y.Str(unq(s.StrVal)))
	}
	num := y.None()
	if s.NumVal != "" {
		v, err := strconv.ParseFloat(s.NumVal, 64)
		if err == nil {
			num = y.Some(y.Pair(y.Str(s.NumVal), y.Str(floatValText(v))))
		}
	}
	return y.Rec("slf_label", y.Str(s.Label.Name), "slf_fn", fn, "slf_str", str, "slf_num", num)
}

func dumpLF(y coqx.Syn, f *logql_parser.LabelFilter) string {
	head := ""
	if f.Head.SimpleHead != nil {
		head = y.Ctor("HSimple", dumpSimpleLF(y, f.Head.SimpleHead))
	} else if f.Head.ComplexHead != nil {
		head = y.Ctor("HComplex", dumpLF(y, f.Head.ComplexHead))
	} else {
		fail("empty head")
	}
	op := y.None()
	switch f.Op {
	case "and":
		op = y.Some("true")
	case "or":
		op = y.Some("false")
	case "":
	default:
		fail("lf op " + f.Op)
	}
	tail := y.None()
	if f.Tail != nil {
		tail = y.Some(dumpLF(y, f.Tail))
	}
	return y.Ctor("LF", head, op, tail)
}

func dumpStage(y coqx.Syn, p *logql_parser.StrSelectorPipeline) string {
	switch {
	case p.LineFilter != nil:
		op := map[string]string{"|=": "LFContains", "!=": "LFNotContains", "|~": "LFRe", "!~": "LFNre"}[p.LineFilter.Fn]
		if op == "" {
			fail("line filter op")
		}
		v := unq(&p.LineFilter.Val)
		rl := y.None()
		if p.LineFilter.Fn == "|~" || p.LineFilter.Fn == "!~" {
			rl = re2Like(y, v)
		}
		return y.Ctor("PLineFilter", op, y.Str(v), rl)
	case p.LabelFilter != nil:
		return y.Ctor("PLabelFilter", dumpLF(y, p.LabelFilter))
	case p.Parser != nil:
		fn := map[string]string{"json": "PJson", "logfmt": "PLogfmt", "regexp": "PRegexp"}[p.Parser.Fn]
		var ps []string
		for _, pp := range p.Parser.ParserParams {
			label := ""
			if pp.Label != nil {
				label = pp.Label.Name
			}
			v := unq(&pp.Val)
			path := y.None()
			if p.Parser.Fn == "regexp" {
				// oracle of ParserPlanner.parseRe (exported for the harness by the verif hook): ast.String() :: collectGroupNames
				if re, names, err := clickhouse_planner.VerifParseRe(v); err == nil {
					xs := []string{y.Str(re)}
					for _, a := range names {
						xs = append(xs, y.Str(a))
					}
					path = y.Some(y.List(xs))
				}
			} else if arr, err := shared.JsonPathParamToArray(v); err == nil {
				// an [n] part (typed int by JsonPathParamToTypedArray) is handed over as the byte 0 followed by the digits
				// of n+1: the planner prints it as a bare number (model LogqlPlan.json_part); a key that begins with the
				// byte 0 gets that byte doubled
				typed, terr := shared.JsonPathParamToTypedArray(v)
				var xs []string
				for i, a := range arr {
					if terr == nil && i < len(typed) {
						if _, isIdx := typed[i].(int); isIdx {
							a = "\x00" + a
						} else if len(a) > 0 && a[0] == 0 {
							a = "\x00" + a // a key that begins with the byte 0: doubled, so that it is no index part
						}
					}
					xs = append(xs, y.Str(a))
				}
				path = y.Some(y.List(xs))
			}
			ps = append(ps, y.Rec("pp_label", y.Str(label), "pp_val", y.Str(v), "pp_path", path))
		}
		return y.Ctor("PParser", fn, y.List(ps))
	case p.LineFormat != nil:
		return y.Ctor("PLineFormat", y.Str(unq(&p.LineFormat.Val)))
	case p.LabelFormat != nil:
		return "PLabelFormat"
	case p.Unwrap != nil:
		return y.Ctor("PUnwrap", y.Str(p.Unwrap.Label.Name))
	case p.Drop != nil:
		var ps []string
		for _, d := range p.Drop.Params {
			v := y.None()
			if d.Val != nil {
				v = y.Some(y.Str(unq(d.Val)))
			}
			ps = append(ps, y.Pair(y.Str(d.Label.Name), v))
		}
		return y.Ctor("PDrop", y.List(ps))
	}
	fail("empty pipeline stage")
	return ""
}

func dumpStrSel(y coqx.Syn, s *logql_parser.StrSelector) string {
	var ms, ps []string
	for _, c := range s.StrSelCmds {
		ms = append(ms, dumpMatcher(y, c))
	}
	for i := range s.Pipelines {
		ps = append(ps, dumpStage(y, &s.Pipelines[i]))
	}
	return y.Rec("sel_matchers", y.List(ms), "sel_pipeline", y.List(ps))
}

func dumpCtx(y coqx.Syn, c Ctx, pc *shared.PlannerContext) string {
	return y.Rec("c_from_ns", y.Z(c.FromNs), "c_to_ns", y.Z(c.ToNs), "c_limit", y.Z(c.Limit), "c_asc", y.Bool(c.Asc),
		"c_cluster", y.Bool(c.Cluster), "c_type", y.Z(int64(c.Type)), "c_finalize", y.Bool(!c.NoCHFinalize), "c_step_ns", y.Z(c.StepMs*1000000),
		"t_gin", y.Str(pc.TimeSeriesGinTableName), "t_samples", y.Str(pc.SamplesTableName), "t_ts", y.Str(pc.TimeSeriesTableName),
		"t_ts_dist", y.Str(pc.TimeSeriesDistTableName), "t_m15", y.Str(pc.Metrics15sTableName))
}

// floatValText is the text sql.FloatVal prints for v (oracle value carried in the dumped AST): taken from the
// real object, so that the model follows the code whatever float format it uses
func floatValText(v float64) string {
	s, err := sql.NewFloatVal(v).String(&sql.Ctx{Params: map[string]sql.SQLObject{}, Result: map[string]sql.SQLObject{}})
	if err != nil {
		panic(err)
	}
	return s
}

// ---------------------------------------------------------------- run one case

// procLocal: the zone the harness process started with (TZ of the environment)
var procLocal = time.Local

// setZone makes name the zone of the process for the next case, exactly as starting the reader with TZ=name does
// (package time initialises time.Local from TZ once): time.Unix, time.Now and every Format of such a value follow it.
func setZone(name string) error {
	if name == "" {
		time.Local = procLocal
		return nil
	}
	loc, err := time.LoadLocation(name)
	if err != nil {
		return err
	}
	time.Local = loc
	return nil
}

// zoneOffset: seconds east of UTC of zone name at the instant ns
func zoneOffset(name string, ns int64) int64 {
	loc, err := time.LoadLocation(name)
	if err != nil {
		panic(err)
	}
	_, off := time.Unix(0, ns).In(loc).Zone()
	return int64(off)
}

// zoneCase gives one case in `share` a process zone, from a PRNG stream of its own (the other choices of the generator
// do not move); half of those get a window that starts next to the UTC midnight on the side where the calendar day of
// the zone (30 minutes before the start, the margin of FormatFromDate) is not the UTC day - a quarter exactly on the
// edge: the instant whose local time is 00:30, one nanosecond before, one after.
func zoneCase(seed int64, id int, zones []string, share int, c *Ctx) {
	if share <= 0 || len(zones) == 0 {
		return
	}
	rz := hx.Rand(seed*65537 + int64(id)*31 + 7)
	if rz.Intn(share) != 0 {
		return
	}
	c.TZ = zones[rz.Intn(len(zones))]
	if rz.Intn(2) == 0 {
		return
	}
	span := c.ToNs - c.FromNs
	day := int64(19700 + rz.Intn(30))
	off := zoneOffset(c.TZ, day*86400*1e9)
	// the local day of (start - 30 min) changes at the UTC time of day edge = 00:30 - offset
	edge := ((1800-off)%86400 + 86400) % 86400
	var tod int64 // nanoseconds into the UTC day
	switch k := rz.Intn(4); {
	case k == 0:
		tod = edge*1e9 + int64(rz.Intn(3)-1)
	case off >= 0: // east: from the edge to the end of the UTC day the zone is already on tomorrow
		tod = (edge + int64(rz.Intn(int(86400-edge)))) * 1e9
		if edge == 1800 { // UTC itself: the first hour after midnight, as the generator always did
			tod = int64(rz.Intn(3600)) * 1e9
		}
	default: // west: from 00:30 UTC to the edge the zone is still on yesterday
		tod = (1800 + int64(rz.Intn(int(edge-1800)))) * 1e9
	}
	c.FromNs = day*86400*1e9 + tod
	c.ToNs = c.FromNs + span
}

func mkCtx(c Ctx) *shared.PlannerContext {
	pc := &shared.PlannerContext{
		IsCluster:  c.Cluster,
		From:       time.Unix(0, c.FromNs),
		To:         time.Unix(0, c.ToNs),
		OrderASC:   c.Asc,
		Limit:      c.Limit,
		CHFinalize: !c.NoCHFinalize,
		Step:       time.Duration(c.StepMs) * time.Millisecond,
		Type:       c.Type,
	}
	db := &model.DataDatabasesMap{Config: &config.ClokiBaseDataBase{Name: "qryn"}}
	if c.Cluster {
		db.Config.ClusterName = "cl1"
	}
	tables.PopulateTableNames(pc, db)
	return pc
}

func run(c *Case) {
	c.SQL, c.Err, c.ErrText, c.AstCoq, c.AstML, c.ScriptCoq, c.ScriptML, c.Script1ML, c.Bp = nil, "", "", "", "", "", "", "", false
	c.CtxMLRuns = nil
	script, err := logql_parser.Parse(c.Query)
	if err != nil {
		c.Err, c.ErrText = "parse", err.Error()
		return
	}
	if err := setZone(c.Ctx.TZ); err != nil {
		c.Err, c.ErrText = "zone", err.Error()
		return
	}
	defer setZone("")
	pc := mkCtx(c.Ctx)
	c.CtxCoq = dumpCtx(coqx.Coq, c.Ctx, pc)
	c.CtxML = dumpCtx(coqx.ML, c.Ctx, pc)
	func() {
		defer func() {
			if r := recover(); r != nil {
				if de, ok := r.(dumpErr); ok {
					c.Err, c.ErrText = "ast", de.s
					return
				}
				panic(r)
			}
		}()
		if script.StrSelector == nil {
			if !c.Metric {
				fail("not a log query")
			}
			c.ScriptCoq = dumpScript(coqx.Coq, script)
			c.ScriptML = dumpScript(coqx.ML, script)
			c.Facts = scriptFacts(script)
			// the reader hands the script to the ClickHouse planners through logql_transpiler_v2.Plan, which rewrites the AST
			// in place before it plans (a vector aggregation without clause is given `by ()`); a script without breakpoint
			// reaches clickhouse_planner.Plan whole: let the real entry point see this AST and dump what it left.
			// script_ml = the script as written (C14 plans it with its own harness), script1_ml = the script the planners
			// get here, when the entry point changed it.
			if bp, err := logql_transpiler_v2.GetBreakpoint(script); err == nil && bp == logql_transpiler_v2.BreakpointNo {
				c.Bp = false
				hx.Catch(func() { logql_transpiler_v2.Plan(script) })
				if ml := dumpScript(coqx.ML, script); ml != c.ScriptML {
					c.Script1ML = ml
				}
			} else {
				c.Bp = true
			}
			return
		}
		c.AstCoq = dumpStrSel(coqx.Coq, script.StrSelector)
		c.AstML = dumpStrSel(coqx.ML, script.StrSelector)
	}()
	if c.Err != "" {
		return
	}
	planner, err := clickhouse_planner.Plan(script, c.Ctx.Finalize)
	if err != nil {
		c.Err, c.ErrText = "plan", err.Error()
		return
	}
	if c.Runs < 1 {
		c.Runs = 1
	}
	if c.Ctx.Overlap != nil && c.Metric && !c.Bp {
		d, _ := shared.GetDuration(script)
		stmt, kind, text := runOverlap(c, d.Nanoseconds())
		if kind != "" {
			c.Err, c.ErrText = kind, text
			return
		}
		c.SQL = []string{stmt}
		c.SqlTreeML, c.SqlTreeErr = "", ""
		if len(c.Dbs) > 0 {
			c.SqlTreeML, c.SqlTreeErr = implTree(c.SQL[0])
		}
		return
	}
	for k := 0; k < c.Runs; k++ {
		if k > 0 && k-1 < len(c.Rewin) { // live tail with the windows the case names: a NEW context per tick, as QueryRangeService.Tail builds it
			cx := c.Ctx
			cx.FromNs, cx.ToNs = c.Rewin[k-1][0], c.Rewin[k-1][1]
			pc = mkCtx(cx)
			c.CtxMLRuns = append(c.CtxMLRuns, dumpCtx(coqx.ML, cx, pc))
		} else if k > 0 { // live tail: the window advances, the plan object is re-used
			pc.From = pc.From.Add(time.Second)
			pc.To = pc.To.Add(time.Second)
		}
		var sel sql.ISelect
		var str string
		p := hx.Catch(func() {
			sel, err = planner.Process(pc)
			if err != nil {
				return
			}
			var opts []int
			if c.Ctx.Cluster {
				opts = []int{sql.STRING_OPT_INLINE_WITH}
			}
			str, err = sel.String(&sql.Ctx{Params: map[string]sql.SQLObject{}, Result: map[string]sql.SQLObject{}}, opts...)
		})
		if p != "" {
			c.Err, c.ErrText = "panic", p
			return
		}
		if err != nil {
			c.Err, c.ErrText = "process", err.Error()
			return
		}
		c.SQL = append(c.SQL, str)
	}
	c.SqlTreeML, c.SqlTreeErr = "", ""
	if len(c.Dbs) > 0 && len(c.SQL) > 0 {
		c.SqlTreeML, c.SqlTreeErr = implTree(c.SQL[0])
	}
}

func main() {
	mode := flag.String("mode", "log", "log: log queries (C07/C13/C14); metric: metric queries (C08); metricdb: metric queries with databases (C08); tpl: line_format templates alone")
	ndbs := flag.Int("dbs", 3, "databases per case (metricdb)")
	zonesFlag := flag.String("zones", "", "log mode: comma-separated IANA zones; one case in --zone-share runs with the process zone set to one of them (ctx.tz)")
	zoneShare := flag.Int("zone-share", 3, "log mode with --zones: one case in this many gets a zone")
	f := hx.ParseFlags()
	out := hx.OpenOut(f.Out)
	defer out.Close()
	if f.Cases != "" && *mode == "tpl" {
		hx.ReadLines(f.Cases, func(b []byte) {
			var c TplCase
			if err := json.Unmarshal(b, &c); err != nil {
				panic(err)
			}
			runTpl(&c)
			out.Put(c)
		})
		return
	}
	if f.Cases != "" {
		hx.ReadLines(f.Cases, func(b []byte) {
			var c Case
			if err := json.Unmarshal(b, &c); err != nil {
				panic(err)
			}
			run(&c)
			if len(c.Dbs) > 0 {
				fillDBs(nil, &c, 0)
			}
			out.Put(c)
		})
		return
	}
	r := hx.Rand(f.Seed)
	if *mode == "tpl" { // line_format templates alone (model/LogqlTemplate.v)
		for i := 0; i < f.N; i++ {
			c := genTplCase(r, i)
			runTpl(&c)
			out.Put(c)
		}
		return
	}
	if *mode == "metricdb" {
		for i := 0; i < f.N; i++ {
			c := genMetricDB(r, i, *ndbs)
			run(&c)
			out.Put(c)
		}
		return
	}
	if *mode == "metric" {
		for i := 0; i < f.N; i++ {
			q, class := genMetricQuery(r)
			c := Case{ID: i, Query: q, Class: class, Runs: 1, Metric: true, Ctx: genMetricCtx(r)}
			if r.Intn(10) == 0 {
				c.Runs = 2
			}
			run(&c)
			out.Put(c)
		}
		return
	}
	for i := 0; i < f.N; i++ {
		q, class := genQuery(r)
		from := int64(1700000000)*1e9 + int64(r.Intn(4*86400))*1e9 + int64(r.Intn(2))*int64(r.Intn(1e9))
		if r.Intn(8) == 0 { // windows next to midnight: the FormatFromDate margin
			from = (int64(19700+r.Intn(30))*86400 + int64(r.Intn(3600))) * 1e9
		}
		c := Case{ID: i, Query: q, Class: class, Runs: 1, Ctx: Ctx{
			FromNs: from, ToNs: from + int64(1+r.Intn(7200))*1e9,
			Limit: []int64{0, 1, 100, 5000}[r.Intn(4)], Asc: r.Intn(2) == 0, Cluster: r.Intn(4) == 0,
			Type: []uint8{0, 1, 1, 2}[r.Intn(4)], Finalize: r.Intn(5) != 0, StepMs: 1000,
		}}
		if *zonesFlag != "" {
			zoneCase(f.Seed, i, strings.Split(*zonesFlag, ","), *zoneShare, &c.Ctx)
		}
		if strings.Contains(q, "|~") || strings.Contains(q, "!~") || r.Intn(6) == 0 {
			c.Runs = 1 + r.Intn(3)
		}
		run(&c)
		out.Put(c)
	}
}
