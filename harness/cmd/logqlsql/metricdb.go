package main

// --mode metricdb (C08, execution of the metric statements): metric queries from a sub-grammar whose stages have a
// reference meaning in coq/model/LogqlSem.v (matchers = and =~, line filters, label filters, json parameters over
// "k=v;k=v" documents, drop, unwrap), every range function / vector operator / grouping / comparison, ranges and steps
// in all three orders, together with small databases (series sharing and not sharing grouped labels, lines on and
// around the window and range-bucket bounds). The real parser and planners produce the SQL (tie of the planner model);
// the model's statement is executed over the databases (model/LogqlMetricExec.v) and compared with metric_ref_db.

import (
	"encoding/hex"
	"fmt"
	"math/rand"
	"regexp"
	"strings"
	"time"
	"unicode/utf8"

	"verif/harness/coqx"
)

type XSeries struct {
	Day    int64       `json:"day"`
	Fp     int64       `json:"fp"`
	Labels [][2]string `json:"labels"`
	Type   int64       `json:"type"`
}
type XSample struct {
	Fp   int64  `json:"fp"`
	Ts   int64  `json:"ts"`
	Line string `json:"line"`
	// the bytes of a line that is not well-formed UTF-8, in hex (encoding/json would replace them by U+FFFD); overrides Line
	LineHex string `json:"line_hex,omitempty"`
	Type    int64  `json:"type"`
}

// the stored bytes of a sample
func (x XSample) bytes() string {
	if x.LineHex != "" {
		if b, err := hex.DecodeString(x.LineHex); err == nil {
			return string(b)
		}
	}
	return x.Line
}

func mkSample(fp, ts int64, line string, tp int64) XSample {
	if !utf8.ValidString(line) {
		return XSample{Fp: fp, Ts: ts, LineHex: hex.EncodeToString([]byte(line)), Type: tp}
	}
	return XSample{Fp: fp, Ts: ts, Line: line, Type: tp}
}
type XDB struct {
	Series  []XSeries `json:"series"`
	Samples []XSample `json:"samples"`
}

var xLines = []string{"x=3;lvl=a", "x=1.5;lvl=b", "x=10;lvl=a", "err x=2", "7", "2.5", "x=4", "x=;lvl=a", "lvl=b", "err", "",
	// bytes are not characters (seed C08-g: lengthUTF8 for length): 2-, 3- and 4-byte sequences, a combining mark, ill-formed bytes
	"x=3;lvl=a;m=\u65e5\u672c\u8a9e", "err \u00fc x=2", "x=4 \U0001F600", "e\u0301", "\u20ac", "\u65e5\u672c\u8a9e\u306e\u30ed\u30b0 lvl=b", "err \x80\xbf", "x=1.5;lvl=b \xe6\x97"}

func xMatchers(r *rand.Rand) string {
	ms := []string{`a="b"`}
	if !xPlain && r.Intn(3) == 0 {
		ms = append(ms, []string{`job="api"`, `level=~"err"`, `job=~"ap"`, `c="1"`}[r.Intn(4)])
	}
	return "{" + strings.Join(ms, ",") + "}"
}

func xStage(r *rand.Rand, class *[]string, jsonSeen *bool) string {
	switch r.Intn(9) {
	case 0, 1:
		*class = append(*class, "linefilter")
		return " " + []string{"|=", "!="}[r.Intn(2)] + " " + []string{`"x="`, `"err"`, `"lvl=a"`, `"7"`, `""`}[r.Intn(5)]
	case 2:
		*class = append(*class, "linefilter-re")
		return " " + []string{"|~", "!~"}[r.Intn(2)] + " " + []string{`"x=1"`, `"err"`, `"lvl"`}[r.Intn(3)]
	case 3, 4:
		*class = append(*class, "labelfilter")
		return " | " + []string{`level="error"`, `level!="error"`, `c="1"`, `c!="2"`, `job=~"ap"`, `c>1`, `c<=1`, `x="3"`, `x!=""`, `lvl="a"`, `x>2`, `c="1" or level="error"`, `c="2" and job="api"`}[r.Intn(13)]
	case 5, 6:
		*class = append(*class, "json")
		*jsonSeen = true
		return " | json " + []string{`x="x"`, `lvl="lvl"`, `x="x", lvl="lvl"`, `c="x"`, `y="x"`}[r.Intn(5)]
	default:
		*class = append(*class, "drop")
		return " | drop " + []string{`c`, `level`, `c, level`, `c="1"`, `job, c="2"`, `x`, `lvl`}[r.Intn(7)]
	}
}

func xPipeline(r *rand.Rand, class *[]string, unwrap bool) string {
	q := ""
	jsonSeen := false
	n := r.Intn(4)
	if xPlain {
		n = 0
	}
	if r.Intn(6) == 0 { // shortcut-friendly
		n = 0
		if r.Intn(2) == 0 {
			q += ` |= ""`
			*class = append(*class, "emptylinefilter")
		}
	}
	for i := 0; i < n; i++ {
		q += xStage(r, class, &jsonSeen)
	}
	if unwrap {
		*class = append(*class, "unwrap")
		l := []string{"x", "c", "_entry", "y"}[r.Intn(4)]
		if (l == "x" || l == "y") && !jsonSeen {
			q += ` | json x="x", y="x"`
		}
		q += " | unwrap " + l
	}
	return q
}

var xDurs = []string{"5s", "10s", "15s", "30s", "1m"}

// set while a topk / bottomk query is generated: long ranges, so that several series meet in one window and the selection drops some
var xLongRanges bool

// set for half of the topk / bottomk queries: the inner vector keeps every stream with a="b" (no second matcher, no stage, no inner
// threshold), so that more series than k meet in a window
var xPlain bool

func xDur(r *rand.Rand) string {
	if xLongRanges {
		return []string{"30s", "1m", "1m"}[r.Intn(3)]
	}
	return pick(r, xDurs)
}

func xGrouping(r *rand.Rand, class *[]string, p int) (string, string) {
	g := func() string {
		ls := [][]string{{"a"}, {"c"}, {"level"}, {"a", "c"}, {"x"}, {"lvl", "a"}, {"job", "level", "c"}}[r.Intn(7)]
		return []string{"by", "without"}[r.Intn(2)] + " (" + strings.Join(ls, ",") + ")"
	}
	switch r.Intn(p) {
	case 0:
		*class = append(*class, "bw-prefix")
		return " " + g(), ""
	case 1:
		*class = append(*class, "bw-suffix")
		return "", " " + g()
	}
	return "", ""
}

func xCmp(r *rand.Rand, class *[]string) string {
	if r.Intn(4) != 0 || xPlain {
		return ""
	}
	*class = append(*class, "cmp")
	return " " + []string{"==", "!=", ">", ">=", "<", "<="}[r.Intn(6)] + " " + []string{"0", "1", "2", "0.2", "0.4", "3", "10"}[r.Intn(7)]
}

// double: the range function is an unwrapped one and carries its own by/without (the vector aggregation above it groups again:
// two ByWithoutPlanner selects in one statement)
func xLRA(r *rand.Rand, class *[]string, double bool) string {
	unwrap := r.Intn(5) < 2 || double
	fn := pick(r, lraPlain)
	if unwrap {
		fn = pick(r, lraUnwrap)
	}
	*class = append(*class, fn)
	pre, suf := "", ""
	if unwrap && (double || r.Intn(2) == 0) {
		pre, suf = xGrouping(r, class, 2)
	}
	return fn + pre + " (" + xMatchers(r) + xPipeline(r, class, unwrap) + " [" + xDur(r) + "])" + suf + xCmp(r, class)
}

// ranges of at least 15 s written in units below the second. xSubSecond: NOT a whole number of seconds, the truncated seconds
// are a multiple of 15 (the roll-up table cannot answer them: a d-window is not a union of 15 s slots; seed C08-e tested whole
// seconds); xOddMultiples: whole multiples of 15 s in every unit (the shortcut applies); xNear: neither
var xSubSecond = []string{"15500ms", "30500ms", "15001ms", "45000000001ns", "15000001us", "30999ms", "60001ms", "15999999999ns"}
var xOddMultiples = []string{"15000ms", "30000ms", "45s", "45000000us", "15000000000ns", "60000ms"}
var xNear = []string{"15s", "30s", "16s", "20500ms", "14999ms"}

// a query the 15 s roll-up table could answer but for its range: rate / count_over_time, alone or under a vector aggregation /
// topk, over a pipeline of stream-label filters and line filters that keep every line
func xShortcutQuery(r *rand.Rand) (string, []string) {
	class := []string{"shortcut-shape"}
	var d string
	switch r.Intn(6) {
	case 0:
		d = pick(r, xOddMultiples)
		class = append(class, "range-odd-unit-multiple-of-15s")
	case 1:
		d = pick(r, xNear)
	default:
		d = pick(r, xSubSecond)
		class = append(class, "range-subsecond-ge-15s")
	}
	ppl := ""
	n := r.Intn(3)
	for i := 0; i < n; i++ {
		if r.Intn(2) == 0 {
			ppl += " " + []string{"|=", "|~"}[r.Intn(2)] + ` ""`
			class = append(class, "emptylinefilter")
		} else {
			ppl += " | " + []string{`level="error"`, `c="1"`, `c!="2"`, `job=~"ap"`, `level!="info"`}[r.Intn(5)]
			class = append(class, "labelfilter")
		}
	}
	fn := []string{"rate", "count_over_time"}[r.Intn(2)]
	class = append(class, fn)
	q := fn + " (" + xMatchers(r) + ppl + " [" + d + "])"
	switch r.Intn(5) {
	case 0, 1:
		q += xCmp(r, &class)
	case 2, 3:
		agg := []string{"sum", "min", "max", "avg", "count"}[r.Intn(5)]
		class = append(class, agg)
		pre, suf := xGrouping(r, &class, 3)
		if pre == "" && suf == "" {
			class = append(class, "agg-no-grouping")
		}
		q = agg + pre + " (" + q + ")" + suf + xCmp(r, &class)
	default:
		fn := []string{"topk", "bottomk"}[r.Intn(2)]
		class = append(class, fn)
		q = fn + "(" + []string{"1", "2", "3"}[r.Intn(3)] + ", " + q + ")"
	}
	return q, class
}

func xQuery(r *rand.Rand) (string, []string) {
	var class []string
	if r.Intn(8) == 0 {
		return xShortcutQuery(r)
	}
	if r.Intn(8) == 0 { // topk / bottomk over a range or vector aggregation
		fn := []string{"topk", "bottomk"}[r.Intn(2)]
		class = append(class, fn)
		xLongRanges = true
		xPlain = r.Intn(2) == 0
		if xPlain {
			class = append(class, "topk-plain")
		}
		defer func() { xLongRanges, xPlain = false, false }()
		var inner string
		if r.Intn(3) == 0 {
			inner = xLRA(r, &class, false)
		} else {
			agg := []string{"sum", "min", "max", "avg", "count"}[r.Intn(5)]
			class = append(class, agg)
			pre, suf := xGrouping(r, &class, 3)
			if pre == "" && suf == "" {
				class = append(class, "agg-no-grouping")
			}
			inner = agg + pre + " (" + xLRA(r, &class, false) + ")" + suf
		}
		xPlain = false
		return fn + "(" + []string{"0", "1", "1", "2", "3"}[r.Intn(5)] + ", " + inner + ")" + xCmp(r, &class), class
	}
	switch r.Intn(10) {
	case 0, 1, 2, 3:
		return xLRA(r, &class, false), class
	case 4, 5, 6, 7, 8:
		fn := []string{"sum", "min", "max", "avg", "stddev", "stdvar", "count"}[r.Intn(7)]
		class = append(class, fn)
		double := r.Intn(4) == 0
		p := 3
		if double {
			p = 2
		}
		pre, suf := xGrouping(r, &class, p)
		if pre == "" && suf == "" {
			class = append(class, "agg-no-grouping")
		}
		inner := xLRA(r, &class, double)
		if (pre != "" || suf != "") && strings.Contains(inner, "| unwrap") && (strings.Contains(inner, " by (") || strings.Contains(inner, " without (")) {
			class = append(class, "double-grouping")
		}
		return fn + pre + " (" + inner + ")" + suf + xCmp(r, &class), class
	default:
		class = append(class, "quantile")
		pre, suf := xGrouping(r, &class, 4)
		return "quantile_over_time" + pre + " (" + []string{"0.5", "0.99", "0.9"}[r.Intn(3)] + ", " + xMatchers(r) +
			xPipeline(r, &class, true) + " [" + pick(r, xDurs) + "])" + suf + xCmp(r, &class), class
	}
}

func xCtx(r *rand.Rand) Ctx {
	from := int64(1700000000)*1e9 + int64(r.Intn(86400))*1e9
	if r.Intn(2) == 0 {
		from = from / 60e9 * 60e9
	}
	to := from + int64(20+r.Intn(200))*1e9
	if r.Intn(2) == 0 { // whole 15 s slots: the window the roll-up table can answer exactly
		from, to = from/15e9*15e9, to/15e9*15e9+15e9
	}
	return Ctx{FromNs: from, ToNs: to, Limit: 0, Asc: true, Cluster: r.Intn(5) == 0,
		Type: []uint8{0, 1, 1}[r.Intn(3)], Finalize: true, StepMs: []int64{1000, 5000, 10000, 15000, 30000, 60000, 120000}[r.Intn(7)]}
}

// series: label sets that share and do not share the grouped labels; distinct fingerprints for distinct label sets
func xDB(r *rand.Rand, c Ctx) XDB {
	var db XDB
	day := (c.FromNs - 1800e9) / 86400e9
	n := 2 + r.Intn(4)
	seen := map[string]bool{}
	for i := 0; i < n; i++ {
		ls := [][2]string{{"a", []string{"b", "b", "b", "z"}[r.Intn(4)]}}
		if r.Intn(4) != 0 {
			ls = append(ls, [2]string{"c", []string{"1", "2", "3"}[r.Intn(3)]})
		}
		if r.Intn(2) == 0 {
			ls = append(ls, [2]string{"level", []string{"error", "info"}[r.Intn(2)]})
		}
		if r.Intn(3) == 0 {
			ls = append(ls, [2]string{"job", []string{"api", "db"}[r.Intn(2)]})
		}
		k := fmt.Sprint(ls)
		if seen[k] {
			continue
		}
		seen[k] = true
		tp := int64(1)
		if r.Intn(8) == 0 {
			tp = int64(r.Intn(3))
		}
		db.Series = append(db.Series, XSeries{Day: day + int64(r.Intn(2)), Fp: int64(1000 + 17*i + r.Intn(10)), Labels: ls, Type: tp})
	}
	// bucket bounds: multiples of 5 s (every range in whole seconds of the generator is one) or of the range of the query
	bound := int64(5e9)
	if xCurRange > 0 && r.Intn(2) == 0 {
		bound = xCurRange
	}
	for _, s := range db.Series {
		m := 1 + r.Intn(5)
		for j := 0; j < m; j++ {
			var ts int64
			switch r.Intn(8) {
			case 0:
				ts = c.FromNs - int64(1+r.Intn(3))*1e9 // before the window
			case 1:
				ts = c.ToNs + int64(r.Intn(3))*1e9 // at / after the end
			case 2:
				ts = c.FromNs
			case 3:
				ts = (c.FromNs/bound + int64(1+r.Intn(10))) * bound // on a bucket bound
			case 4:
				ts = (c.FromNs/bound+int64(1+r.Intn(10)))*bound - 1
			default:
				ts = c.FromNs + int64(r.Intn(int((c.ToNs-c.FromNs)/1e6)))*1e6
			}
			db.Samples = append(db.Samples, mkSample(s.Fp, ts, pick(r, xLines), s.Type))
		}
	}
	r.Shuffle(len(db.Samples), func(i, j int) { db.Samples[i], db.Samples[j] = db.Samples[j], db.Samples[i] })
	return db
}

func xdbML(db XDB) string {
	y := coqx.ML
	var gin, ser, sam []string
	for _, s := range db.Series {
		var ls []string
		for _, kv := range s.Labels {
			ls = append(ls, y.Pair(y.Str(kv[0]), y.Str(kv[1])))
			gin = append(gin, y.Rec("g_day", y.Z(s.Day), "g_key", y.Str(kv[0]), "g_val", y.Str(kv[1]), "g_fp", y.Z(s.Fp), "g_type", y.Z(s.Type)))
		}
		ser = append(ser, y.Rec("ts_day", y.Z(s.Day), "ts_fp", y.Z(s.Fp), "ts_labels", y.List(ls), "ts_type", y.Z(s.Type)))
	}
	for _, x := range db.Samples {
		sam = append(sam, y.Rec("x_fp", y.Z(x.Fp), "x_ts", y.Z(x.Ts), "x_line", y.Str(x.bytes()), "x_type", y.Z(x.Type)))
	}
	return y.Rec("d_gin", y.List(gin), "d_series", y.List(ser), "d_samples", y.List(sam))
}

var reRange = regexp.MustCompile(`\[(\d+(?:ns|us|ms|s|m|h))\]`)

// the range of the (one) range aggregation of a generated query, in ns; 0 when none
func xRangeNs(q string) int64 {
	m := reRange.FindStringSubmatch(q)
	if m == nil {
		return 0
	}
	d, err := time.ParseDuration(m[1])
	if err != nil {
		return 0
	}
	return d.Nanoseconds()
}

func genMetricDB(r *rand.Rand, id int, ndb int) Case {
	q, class := xQuery(r)
	c := Case{ID: id, Query: q, Class: class, Runs: 1, Metric: true, Ctx: xCtx(r)}
	// the window as FixPeriodPlanner hands it to the SQL: widened to whole range windows from the Unix epoch (fix_from / fix_to
	// of model/LogqlMetricSem.v, theorem fix_window_whole_ranges); half of the cases. A raw window reaches the planners only
	// when they are driven directly.
	if d := xRangeNs(q); d > 0 && r.Intn(2) == 0 {
		c.Ctx.FromNs = c.Ctx.FromNs / d * d
		c.Ctx.ToNs = (c.Ctx.ToNs + d - 1) / d * d
		c.Class = append(c.Class, "window-whole-ranges")
	}
	// topk / bottomk are judged when the step does not re-bucket the selection (step <= range): most of them get such a step
	if d := xRangeNs(q); d > 0 && (strings.HasPrefix(q, "topk") || strings.HasPrefix(q, "bottomk")) && r.Intn(4) != 0 {
		n := d / 1e6 // whole milliseconds of the range (rounded down: the step stays <= range)
		if c.Ctx.StepMs > n {
			c.Ctx.StepMs = []int64{1000, 5000, 10000, 15000, 30000}[r.Intn(5)]
			if c.Ctx.StepMs > n {
				c.Ctx.StepMs = n
			}
		}
	}
	fillDBs(r, &c, ndb)
	// overlapping requests for one expression (overlap.go; seeded C08-h): a third of the whole-range windows is asked for while a
	// second request with the same text and a window some days later (sometimes earlier) is answered in the middle of its Process call
	if d := xRangeNs(q); d > 0 && c.Ctx.FromNs%d == 0 && c.Ctx.ToNs%d == 0 && c.Ctx.ToNs-d >= c.Ctx.FromNs && r.Intn(3) == 0 {
		k := int64([]int{1, 2, 2, 3, 7, -1, -2}[r.Intn(7)]) * 86400e9
		c.Ctx.Overlap = &[2]int64{c.Ctx.FromNs + k, c.Ctx.ToNs - d + k}
		c.Class = append(c.Class, "overlap")
	}
	return c
}

// the range of the query the databases are generated for (bucket bounds of xDB)
var xCurRange int64

func fillDBs(r *rand.Rand, c *Case, ndb int) {
	xCurRange = xRangeNs(c.Query)
	if len(c.Dbs) == 0 {
		for i := 0; i < ndb; i++ {
			c.Dbs = append(c.Dbs, xDB(r, c.Ctx))
		}
	}
	var ds []string
	for _, d := range c.Dbs {
		ds = append(ds, xdbML(d))
	}
	c.DbsML = coqx.ML.List(ds)
}
