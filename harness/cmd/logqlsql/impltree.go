package main

// C08, execution of the IMPLEMENTATION's statement: the SQL text the real planners printed is parsed back into the
// object tree of coq/model/Sql.v (harness/sqlparse) and the fragments of the metric selects are brought into the shapes
// coq/model/SqlEvalAgg.v interprets. Everything here is UNTRUSTED: the Coq side (model/LogqlMetricExec.v impl_text)
// renders the prepared tree and the check requires the bytes of the implementation's statement back, and it is the Coq
// side that binds every WITH reference to the member of that alias in the statement's own WITH list.
//
//	toFloat64(COUNT()) / 1.5               -> Sep " / " [Raw call; Raw literal | IntV n]  (a literal with a fraction becomes a FloatV in prep)
//	intDiv(x, n) * m                       -> Sep " * " [Fn intDiv [Id x; IntV n]; IntV m]
//	mapFilter((k,v) -> k [NOT] IN (..), c) -> Sep "" [Raw; Raw op; Raw; Sep "," names; Raw; c; Raw]
//	mapFilter((k,v) -> 0, c)               -> Sep "" [Raw "mapFilter((k,v) -> 0, "; c; Raw ")"]
//	arraySlice(arraySort([lambda,]groupArray((..))), 1, k) -> the seven pieces of LogqlPlan.topk_slice
//	quantile(p)(value)                     -> Sep "" [Raw "quantile("; Raw p; Raw ")(value)"]
//	f(path, ...) for aggregate / scalar calls over column paths -> Raw text (SqlEvalAgg parses the call from its text)

import (
	"regexp"
	"strconv"
	"strings"

	"verif/harness/sqlparse"
)

var callNames = map[string]bool{"COUNT": true, "count": true, "any": true, "sum": true, "countMerge": true, "avg": true, "min": true,
	"max": true, "varPop": true, "stddevPop": true, "argMin": true, "argMax": true, "toFloat64": true, "length": true, "cityHash64": true}

// pure: a call tree over column paths only
func pure(n *sqlparse.Node) bool {
	switch n.Kind {
	case "id":
		return true
	case "fn":
		for _, k := range n.Kids {
			if !pure(k) {
				return false
			}
		}
		return true
	}
	return false
}

func ntext(n *sqlparse.Node) string {
	if n.Kind == "id" {
		return n.S
	}
	xs := make([]string, len(n.Kids))
	for i, k := range n.Kids {
		xs[i] = ntext(k)
	}
	return n.S + "(" + strings.Join(xs, ", ") + ")"
}

var reTopK = regexp.MustCompile(`^arraySlice\(arraySort\((x -> \(-?x\.1, x\.2(?:, x\.3)?\),)?groupArray\(\(par_a\.value, par_a\.fingerprint(, par_a\.labels)?\)\)\), 1, (\d+)\)$`)

// ntextAny: the text of a call tree whose leaves may be raw
func ntextAny(n *sqlparse.Node) string {
	switch n.Kind {
	case "id", "raw":
		return n.S
	case "int":
		return strconv.FormatInt(n.Z, 10)
	case "fn":
		xs := make([]string, len(n.Kids))
		for i, k := range n.Kids {
			xs[i] = ntextAny(k)
		}
		return n.S + "(" + strings.Join(xs, ", ") + ")"
	case "lop": // a parenthesised group read as a one-clause LogicalOp
		if len(n.Kids) == 1 {
			return "(" + ntextAny(n.Kids[0]) + ")"
		}
	}
	return "\x00"
}

func raw(s string) *sqlparse.Node { return &sqlparse.Node{Kind: "raw", S: s} }

var reDivLit = regexp.MustCompile(`^([A-Za-z0-9_]+\(.*\)) / (\d+(?:\.\d+)?)$`)
var reBucket = regexp.MustCompile(`^intDiv\(([A-Za-z0-9_.]+), (\d+)\) \* (\d+)$`)
var reQuantile = regexp.MustCompile(`^quantile\((\d+(?:\.\d+)?)\)\(value\)$`)

// splitPlus: top-level " + " separated parts of t (outside quotes and parentheses)
func splitPlus(t string) []string {
	var parts []string
	depth, last := 0, 0
	for i := 0; i < len(t); i++ {
		switch t[i] {
		case '\'':
			i++
			for i < len(t) && t[i] != '\'' {
				if t[i] == '\\' {
					i++
				}
				i++
			}
		case '(', '[':
			depth++
		case ')', ']':
			depth--
		case ' ':
			if depth == 0 && strings.HasPrefix(t[i:], " + ") {
				parts = append(parts, t[last:i])
				last = i + 3
				i += 2
			}
		}
	}
	return append(parts, t[last:])
}

func parseExpr(t string) *sqlparse.Node {
	sub, err := sqlparse.Parse(" SELECT " + t)
	if err != nil || len(sub.Sel.Cols) != 1 {
		return nil
	}
	return sub.Sel.Cols[0]
}

func mnorm(n *sqlparse.Node) *sqlparse.Node {
	if n == nil {
		return nil
	}
	// the two forms of the log part the parser keeps as raw leaves (as harness/cmd/logqlsem does for C07):
	// `<expr> IS NOT NULL` and the sum of shifted conditions under groupBitOr
	if n.Kind == "raw" && strings.HasSuffix(n.S, " IS NOT NULL") {
		if x := parseExpr(strings.TrimSuffix(n.S, " IS NOT NULL")); x != nil {
			return &sqlparse.Node{Kind: "sep", S: "", Kids: []*sqlparse.Node{mnorm(x), raw(" IS NOT NULL")}}
		}
	}
	if n.Kind == "fn" && n.S == "groupBitOr" && len(n.Kids) == 1 && n.Kids[0].Kind == "raw" {
		parts := splitPlus(n.Kids[0].S)
		if len(parts) > 1 {
			sep := &sqlparse.Node{Kind: "sep", S: " + "}
			for _, p := range parts {
				x := parseExpr(p)
				if x == nil {
					sep = nil
					break
				}
				sep.Kids = append(sep.Kids, x)
			}
			if sep != nil {
				n.Kids[0] = sep
			}
		}
	}
	switch n.Kind {
	case "raw":
		if m := reDivLit.FindStringSubmatch(n.S); m != nil {
			div := raw(m[2]) // a literal with a fraction becomes a FloatV in prep
			if z, err := strconv.ParseInt(m[2], 10, 64); err == nil && strconv.FormatInt(z, 10) == m[2] {
				div = &sqlparse.Node{Kind: "int", Z: z}
			}
			return &sqlparse.Node{Kind: "sep", S: " / ", Kids: []*sqlparse.Node{raw(m[1]), div}}
		}
		if m := reBucket.FindStringSubmatch(n.S); m != nil {
			a, e1 := strconv.ParseInt(m[2], 10, 64)
			b, e2 := strconv.ParseInt(m[3], 10, 64)
			if e1 == nil && e2 == nil {
				return &sqlparse.Node{Kind: "sep", S: " * ", Kids: []*sqlparse.Node{
					{Kind: "fn", S: "intDiv", Kids: []*sqlparse.Node{{Kind: "id", S: m[1]}, {Kind: "int", Z: a}}}, {Kind: "int", Z: b}}}
			}
		}
		if m := reQuantile.FindStringSubmatch(n.S); m != nil {
			return &sqlparse.Node{Kind: "sep", S: "", Kids: []*sqlparse.Node{raw("quantile("), raw(m[1]), raw(")(value)")}}
		}
		return n
	case "fn":
		if n.S == "arraySlice" { // TopKPlanner's slice column, in the seven pieces of LogqlPlan.topk_slice
			if m := reTopK.FindStringSubmatch(ntextAny(n)); m != nil {
				if k, err := strconv.ParseInt(m[3], 10, 64); err == nil {
					return &sqlparse.Node{Kind: "sep", S: "", Kids: []*sqlparse.Node{raw("arraySlice(arraySort("), raw(m[1]),
						raw("groupArray((par_a.value, par_a.fingerprint"), raw(m[2]), raw("))), 1, "), {Kind: "int", Z: k}, raw(")")}}
				}
			}
		}
		if callNames[n.S] && pure(n) {
			return raw(ntext(n))
		}
		if n.S == "mapFilter" && len(n.Kids) == 2 && n.Kids[0].Kind == "raw" && (n.Kids[0].S == "(k,v) -> 0" || n.Kids[0].S == "(k,v) -> 1") { // by ()
			return &sqlparse.Node{Kind: "sep", S: "", Kids: []*sqlparse.Node{raw("mapFilter(" + n.Kids[0].S + ", "), mnorm(n.Kids[1]), raw(")")}}
		}
		if n.S == "mapFilter" && len(n.Kids) == 2 && n.Kids[0].Kind == "in" && n.Kids[0].L != nil && n.Kids[0].L.Kind == "raw" {
			op := ""
			switch n.Kids[0].L.S {
			case "(k,v) -> k":
				op = "IN"
			case "(k,v) -> k NOT":
				op = "NOT IN"
			}
			if op != "" {
				return &sqlparse.Node{Kind: "sep", S: "", Kids: []*sqlparse.Node{raw("mapFilter((k,v) -> k "), raw(op), raw(" ("),
					{Kind: "sep", S: ",", Kids: n.Kids[0].Kids}, raw("), "), mnorm(n.Kids[1]), raw(")")}}
			}
		}
	case "sel", "subq":
		msel(n.Sel)
		return n
	}
	for i, k := range n.Kids {
		n.Kids[i] = mnorm(k)
	}
	n.L = mnorm(n.L)
	return n
}

func msel(s *sqlparse.Select) {
	ml := func(ns []*sqlparse.Node) {
		for i, k := range ns {
			ns[i] = mnorm(k)
		}
	}
	ml(s.Cols)
	s.From = mnorm(s.From)
	s.Where = mnorm(s.Where)
	s.Prewhere = mnorm(s.Prewhere)
	s.Having = mnorm(s.Having)
	ml(s.GroupBy)
	ml(s.OrderBy)
	s.Limit = mnorm(s.Limit)
	s.Offset = mnorm(s.Offset)
	for i := range s.Withs {
		msel(s.Withs[i].Q)
	}
	for i := range s.Joins {
		s.Joins[i].Table = mnorm(s.Joins[i].Table)
		s.Joins[i].On = mnorm(s.Joins[i].On)
	}
	for _, u := range s.Unions {
		msel(u)
	}
}

// implTree: the statement as an OCaml term of the extracted Sql.select (WITH references unbound: `WRef alias empty_select`)
func implTree(sql string) (string, string) {
	n, err := sqlparse.Parse(sql)
	if err != nil {
		return "", err.Error()
	}
	return mnorm(n).ML(), ""
}
