package main

import (
	"fmt"
	"math/rand"
	"strings"
)

// grammar-driven generator of LogQL log queries (the fragment transcribed in model/LogqlPlan.v)

var labelNames = []string{"a", "job", "level", "_x1", "pod_name", "status"}
var plainVals = []string{"b", "api", "error", "x", "200", "it", "d.*", "a|b", "^x$", "", "foo bar"}
var nastyVals = []string{"it's", "'q'", "''", "a\\b", "100%", "a_b", "%", "_", "\\%", "tab\there", "nl\nx", "é", "\x00z", "a\"b", "back`tick", "x\\", "\\", "'", "(?i)abc", "ab.c", "a\\.b", "[0-9]+", "(?i)a.c"}

func pick(r *rand.Rand, xs []string) string { return xs[r.Intn(len(xs))] }

func val(r *rand.Rand) string {
	if r.Intn(3) == 0 {
		return pick(r, nastyVals)
	}
	return pick(r, plainVals)
}

// quoted renders s as a LogQL string literal: double-quoted (JSON escapes) or back-ticked
func quoted(r *rand.Rand, s string) string {
	ok := true
	for i := 0; i < len(s); i++ {
		if s[i] == '`' || s[i] == '\\' || s[i] < 32 || s[i] >= 127 {
			ok = false
		}
	}
	if ok && r.Intn(4) == 0 {
		return "`" + s + "`"
	}
	var b strings.Builder
	b.WriteByte('"')
	for i := 0; i < len(s); i++ {
		c := s[i]
		switch {
		case c == '"':
			b.WriteString(`\"`)
		case c == '\\':
			b.WriteString(`\\`)
		case c == '\n':
			b.WriteString(`\n`)
		case c == '\t':
			b.WriteString(`\t`)
		case c < 32:
			b.WriteString(fmt.Sprintf(`\u%04x`, c))
		default:
			b.WriteByte(c)
		}
	}
	b.WriteByte('"')
	return b.String()
}

func genMatchers(r *rand.Rand) string {
	n := 1 + r.Intn(3)
	if r.Intn(12) == 0 {
		n = 4 + r.Intn(6)
	}
	var ms []string
	for i := 0; i < n; i++ {
		op := []string{"=", "!=", "=~", "!~"}[r.Intn(4)]
		ms = append(ms, pick(r, labelNames)+op+quoted(r, val(r)))
	}
	return "{" + strings.Join(ms, ",") + "}"
}

func genSimpleLF(r *rand.Rand) string {
	l := pick(r, labelNames)
	if r.Intn(2) == 0 {
		op := []string{"=", "!=", "=~", "!~"}[r.Intn(4)]
		return l + op + quoted(r, val(r))
	}
	op := []string{"==", "!=", ">", ">=", "<", "<="}[r.Intn(6)]
	num := []string{"1", "0", "200", "1.5", "10.25", "007", "3."}[r.Intn(7)]
	return l + " " + op + " " + num
}

func genLF(r *rand.Rand, depth int) string {
	head := ""
	if depth < 2 && r.Intn(4) == 0 {
		head = "(" + genLF(r, depth+1) + ")"
	} else {
		head = genSimpleLF(r)
	}
	if depth < 3 && r.Intn(3) == 0 {
		return head + []string{" and ", " or "}[r.Intn(2)] + genLF(r, depth+1)
	}
	return head
}

// templates of `| line_format`: text runs and actions of the fragment transcribed in model/LogqlTemplate.v (the dot, field
// chains, several operands, pipes, both trim markers), a few templates Parse refuses, text with bytes that matter to the SQL
// string literal or to ClickHouse's format() pattern
var tplTexts = []string{"", "x", "a b", " ", "  ", "\t", "{", "}", "{0}", "{}", "it's", "\\", "%", "é", "lvl=", " - ", "}}", "{ {", "\n"}
var tplFields = []string{"a", "job", "level", "_x1", "pod_name", "status", "Level", "x9", "a.b", "a.b.c", "job.level"}
var tplBad = []string{"{{ }}", "{{}}", "{{.a", "{{ | .a }}", "{{.a.}}", "{{..a}}", "{{.a | . }}", "{{ .a", "{{- }}", "{{ -}}", "{{.a | | .b}}", "{{. .}}"}

func genAction(r *rand.Rand) string {
	f := func() string { return "." + pick(r, tplFields) }
	body := ""
	switch r.Intn(12) {
	case 0, 1, 2, 3, 4:
		body = f()
	case 5:
		body = " " + f() + " "
	case 6:
		body = f() + " " + f()
	case 7:
		body = f() + []string{"|", " | ", "| ", " |"}[r.Intn(4)] + f()
	case 8:
		body = []string{".", " . ", ". " + f(), f() + " ."}[r.Intn(4)]
	case 9:
		body = f() + []string{"|", " | "}[r.Intn(2)]
	case 10:
		body = "\t" + f() + "\n"
	default:
		body = f() + "  " + f() + " | " + f()
	}
	l, rt := "{{", "}}"
	if r.Intn(5) == 0 {
		l = "{{- "
	}
	if r.Intn(5) == 0 {
		rt = " -}}"
	}
	return l + body + rt
}

func genTemplate(r *rand.Rand) string {
	t := ""
	n := r.Intn(5)
	for i := 0; i < n; i++ {
		if r.Intn(2) == 0 {
			t += pick(r, tplTexts)
		} else {
			t += genAction(r)
		}
	}
	if r.Intn(12) == 0 {
		t += pick(r, tplBad)
		if r.Intn(2) == 0 {
			t += pick(r, tplTexts)
		}
	}
	return t
}

func genStage(r *rand.Rand, class *[]string) string {
	switch r.Intn(11) {
	case 10:
		*class = append(*class, "lineformat")
		return " | line_format " + quoted(r, genTemplate(r))
	case 0, 1, 2, 3:
		*class = append(*class, "linefilter")
		op := []string{"|=", "!=", "|~", "!~"}[r.Intn(4)]
		return " " + op + " " + quoted(r, val(r))
	case 4, 5, 6:
		*class = append(*class, "labelfilter")
		return " | " + genLF(r, 0)
	case 7, 8:
		*class = append(*class, "json")
		n := 1 + r.Intn(3)
		var ps []string
		for i := 0; i < n; i++ {
			path := []string{"a", "a.b", "a[0]", "x.y.z", `["k 1"]`, `a["b"].c`}[r.Intn(6)]
			if r.Intn(3) == 0 {
				ps = append(ps, quoted(r, path))
			} else {
				ps = append(ps, pick(r, labelNames)+"="+quoted(r, path))
			}
		}
		return " | json " + strings.Join(ps, ", ")
	default:
		*class = append(*class, "drop")
		n := 1 + r.Intn(2)
		var ps []string
		for i := 0; i < n; i++ {
			if r.Intn(2) == 0 {
				ps = append(ps, pick(r, labelNames))
			} else {
				ps = append(ps, pick(r, labelNames)+"="+quoted(r, val(r)))
			}
		}
		return " | drop " + strings.Join(ps, ",")
	}
}

func genQuery(r *rand.Rand) (string, []string) {
	var class []string
	q := genMatchers(r)
	n := 0
	switch r.Intn(6) {
	case 0:
		n = 0
	case 1, 2:
		n = 1
	case 3, 4:
		n = 2 + r.Intn(2)
	default:
		n = 3 + r.Intn(3)
	}
	for i := 0; i < n; i++ {
		q += genStage(r, &class)
	}
	return q, class
}
