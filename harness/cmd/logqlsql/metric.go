package main

import (
	"fmt"
	"math/rand"
	"strconv"
	"strings"
	"time"

	"github.com/metrico/qryn/reader/logql/logql_parser"
	"github.com/metrico/qryn/reader/logql/logql_transpiler_v2/shared"
	"verif/harness/coqx"
)

// ---------------------------------------------------------------- metric AST -> Coq (model/Logql.v: lra, aggop, quantile, topk, script)

func dumpByWithout(y coqx.Syn, b *logql_parser.ByOrWithout) string {
	if b == nil {
		return y.None()
	}
	var ls []string
	for _, l := range b.Labels {
		ls = append(ls, y.Str(l.Name))
	}
	return y.Some(y.Rec("bw_by", y.Bool(strings.ToLower(b.Fn) == "by"), "bw_labels", y.List(ls)))
}

// cmp_val: fmt.Sprintf("%f", strconv.ParseFloat(Val)) as printed by sql.FloatVal (oracle value)
func dumpCmp(y coqx.Syn, c *logql_parser.Comparison) string {
	if c == nil {
		return y.None()
	}
	fn := map[string]string{"==": "CEq", "!=": "CNeq", ">": "CGt", ">=": "CGe", "<": "CLt", "<=": "CLe"}[c.Fn]
	if fn == "" {
		fail("comparison fn " + c.Fn)
	}
	v, err := strconv.ParseFloat(c.Val, 64)
	if err != nil {
		fail("comparison value " + c.Val)
	}
	return y.Some(y.Rec("cmp_fn", fn, "cmp_val", y.Str(floatValText(v))))
}

func durNs(t, unit string) int64 {
	d, err := time.ParseDuration(t + unit)
	if err != nil {
		fail("duration " + t + unit)
	}
	return d.Nanoseconds()
}

var lraFns = map[string]string{"rate": "FRate", "count_over_time": "FCountOverTime", "bytes_rate": "FBytesRate",
	"bytes_over_time": "FBytesOverTime", "absent_over_time": "FAbsentOverTime", "sum_over_time": "FSumOverTime",
	"avg_over_time": "FAvgOverTime", "max_over_time": "FMaxOverTime", "min_over_time": "FMinOverTime",
	"first_over_time": "FFirstOverTime", "last_over_time": "FLastOverTime", "stdvar_over_time": "FStdvarOverTime",
	"stddev_over_time": "FStddevOverTime"}

func dumpLRA(y coqx.Syn, l *logql_parser.LRAOrUnwrap) string {
	fn := lraFns[l.Fn]
	if fn == "" {
		fail("lra fn " + l.Fn)
	}
	return y.Rec("lra_f", fn, "lra_prefix", dumpByWithout(y, l.ByOrWithoutPrefix), "lra_sel", dumpStrSel(y, &l.StrSel),
		"lra_dur_ns", y.Z(durNs(l.Time, l.TimeUnit)), "lra_suffix", dumpByWithout(y, l.ByOrWithoutSuffix),
		"lra_cmp", dumpCmp(y, l.Comparison))
}

func dumpAgg(y coqx.Syn, a *logql_parser.AggOperator) string {
	fn := map[string]string{"sum": "ASum", "min": "AMin", "max": "AMax", "avg": "AAvg", "stddev": "AStddev", "stdvar": "AStdvar", "count": "ACount"}[a.Fn]
	if fn == "" {
		fail("agg fn " + a.Fn)
	}
	return y.Rec("agg_f", fn, "agg_prefix", dumpByWithout(y, a.ByOrWithoutPrefix), "agg_lra", dumpLRA(y, &a.LRAOrUnwrap),
		"agg_suffix", dumpByWithout(y, a.ByOrWithoutSuffix), "agg_cmp", dumpCmp(y, a.Comparison))
}

// q_param: fmt.Sprintf("%f", strconv.ParseFloat(Param)) (oracle value)
func dumpQuantile(y coqx.Syn, q *logql_parser.QuantileOverTime) string {
	v, err := strconv.ParseFloat(q.Param, 64)
	if err != nil {
		fail("quantile param " + q.Param)
	}
	return y.Rec("q_prefix", dumpByWithout(y, q.ByOrWithoutPrefix), "q_param", y.Str(fmt.Sprintf("%f", v)),
		"q_sel", dumpStrSel(y, &q.StrSel), "q_dur_ns", y.Z(durNs(q.Time, q.TimeUnit)),
		"q_suffix", dumpByWithout(y, q.ByOrWithoutSuffix), "q_cmp", dumpCmp(y, q.Comparison))
}

// tk_len: strconv.Atoi(Param); -1 when Atoi returns an error (the grammar admits no sign)
func dumpTopK(y coqx.Syn, t *logql_parser.TopK) string {
	n, err := strconv.Atoi(t.Param)
	if err != nil {
		n = -1
	}
	arg := ""
	switch {
	case t.LRAOrUnwrap != nil:
		arg = y.Ctor("TKLra", dumpLRA(y, t.LRAOrUnwrap))
	case t.AggOperator != nil:
		arg = y.Ctor("TKAgg", dumpAgg(y, t.AggOperator))
	case t.QuantileOverTime != nil:
		arg = y.Ctor("TKQuantile", dumpQuantile(y, t.QuantileOverTime))
	default:
		fail("empty topk")
	}
	return y.Rec("tk_top", y.Bool(t.Fn == "topk"), "tk_len", y.Z(int64(n)), "tk_arg", arg, "tk_cmp", dumpCmp(y, t.Comparison))
}

func dumpScript(y coqx.Syn, s *logql_parser.LogQLScript) string {
	switch {
	case s.StrSelector != nil:
		return y.Ctor("SLog", dumpStrSel(y, s.StrSelector))
	case s.LRAOrUnwrap != nil:
		return y.Ctor("SLra", dumpLRA(y, s.LRAOrUnwrap))
	case s.AggOperator != nil:
		return y.Ctor("SAgg", dumpAgg(y, s.AggOperator))
	case s.Macros != nil:
		return "SMacros"
	case s.TopK != nil:
		return y.Ctor("STopK", dumpTopK(y, s.TopK))
	case s.QuantileOverTime != nil:
		return y.Ctor("SQuantile", dumpQuantile(y, s.QuantileOverTime))
	}
	fail("empty script")
	return ""
}

// ---------------------------------------------------------------- generator of metric queries

var durations = []string{"1s", "5s", "15s", "1m", "5m"}
// incl. ranges of at least 15 s with a sub-second part whose whole seconds are a multiple of 15 (seed C08-e), and multiples of
// 15 s written in small units
var oddDurations = []string{"1ms", "1500ms", "14s", "16s", "30s", "90m", "2h", "999us", "1ns", "7s",
	"15500ms", "45000000001ns", "30001ms", "15000001us", "30000ms", "45000000us", "14999ms"}
var stepsMs = []int64{1000, 5000, 15000, 60000, 300000}

func genDur(r *rand.Rand) string {
	if r.Intn(8) == 0 {
		return pick(r, oddDurations)
	}
	return pick(r, durations)
}

func genByWithout(r *rand.Rand) string {
	n := 1 + r.Intn(3)
	var ls []string
	for i := 0; i < n; i++ {
		ls = append(ls, pick(r, labelNames))
	}
	return []string{"by", "without"}[r.Intn(2)] + " (" + strings.Join(ls, ",") + ")"
}

func genCmp(r *rand.Rand, class *[]string) string {
	if r.Intn(4) != 0 {
		return ""
	}
	*class = append(*class, "cmp")
	return " " + []string{"==", "!=", ">", ">=", "<", "<="}[r.Intn(6)] + " " + []string{"0", "1", "10", "0.5", "2.25", "100", "007", "3."}[r.Intn(8)]
}

// by/without in prefix and/or suffix position
func genGrouping(r *rand.Rand, class *[]string, p int) (string, string) {
	pre, suf := "", ""
	switch r.Intn(p) {
	case 0:
		pre = " " + genByWithout(r)
		*class = append(*class, "bw-prefix")
	case 1:
		suf = " " + genByWithout(r)
		*class = append(*class, "bw-suffix")
	case 2:
		if r.Intn(3) == 0 {
			pre, suf = " "+genByWithout(r), " "+genByWithout(r)
			*class = append(*class, "bw-both")
		}
	}
	return pre, suf
}

// metric pipeline stages: the log stages plus regexp parsers; shortcut-friendly pipelines are frequent
func genMetricPipeline(r *rand.Rand, class *[]string, unwrap bool) string {
	q := ""
	switch r.Intn(8) {
	case 0, 1, 2: // nothing
	case 3: // stages the 15 s shortcut analysis lets through
		n := 1 + r.Intn(2)
		for i := 0; i < n; i++ {
			switch r.Intn(4) {
			case 0:
				q += " " + []string{"|=", "!=", "|~", "!~"}[r.Intn(4)] + ` ""`
				*class = append(*class, "emptylinefilter")
			case 1:
				q += " | " + genLF(r, 1)
				*class = append(*class, "labelfilter")
			case 2:
				q += " | label_format " + pick(r, labelNames) + "=" + pick(r, labelNames)
				*class = append(*class, "labelformat")
			default:
				q += " |= " + quoted(r, val(r))
				*class = append(*class, "linefilter")
			}
		}
	default:
		n := 1 + r.Intn(3)
		for i := 0; i < n; i++ {
			if r.Intn(7) == 0 {
				*class = append(*class, "regexp")
				q += " | regexp " + quoted(r, []string{"(?P<a>[0-9]+)", "(?P<level>\\w+) (?P<status>\\d+)", "x(y)(?P<job>z.*)", "(?P<a>it's)>b", "((?P<pod_name>a)b)", "plain", "(?P<_x1>\\))"}[r.Intn(7)])
			} else {
				q += genStage(r, class)
			}
		}
	}
	if unwrap {
		*class = append(*class, "unwrap")
		if r.Intn(3) != 0 { // the unwrap planner needs a labels column: usually put a parser first
			if !strings.Contains(q, "| json") && !strings.Contains(q, "| regexp") {
				q += " | json " + pick(r, labelNames) + `="a.b"`
			}
		}
		q += " | unwrap " + []string{"a", "status", "_entry", "pod_name"}[r.Intn(4)]
	}
	return q
}

var lraPlain = []string{"rate", "count_over_time", "bytes_rate", "bytes_over_time"}
var lraUnwrap = []string{"rate", "sum_over_time", "avg_over_time", "max_over_time", "min_over_time", "first_over_time", "last_over_time", "stdvar_over_time", "stddev_over_time"}

func genLRA(r *rand.Rand, class *[]string) string {
	unwrap := r.Intn(3) == 0
	fn := ""
	if unwrap {
		fn = pick(r, lraUnwrap)
	} else {
		fn = pick(r, lraPlain)
		if r.Intn(40) == 0 {
			fn = pick(r, lraUnwrap) // an unwrap function without unwrap stage
		}
	}
	*class = append(*class, fn)
	pre, suf := "", ""
	if unwrap || r.Intn(10) == 0 {
		pre, suf = genGrouping(r, class, 5)
	}
	return fn + pre + " (" + genMatchers(r) + genMetricPipeline(r, class, unwrap) + " [" + genDur(r) + "])" + suf + genCmp(r, class)
}

func genAgg(r *rand.Rand, class *[]string) string {
	fn := []string{"sum", "min", "max", "avg", "stddev", "stdvar", "count"}[r.Intn(7)]
	*class = append(*class, fn)
	pre, suf := genGrouping(r, class, 4)
	return fn + pre + " (" + genLRA(r, class) + ")" + suf + genCmp(r, class)
}

func genQuantile(r *rand.Rand, class *[]string) string {
	*class = append(*class, "quantile")
	pre, suf := genGrouping(r, class, 5)
	return "quantile_over_time" + pre + " (" + []string{"0.5", "0.99", "0.9", "1", "0", "0.75"}[r.Intn(6)] + ", " +
		genMatchers(r) + genMetricPipeline(r, class, r.Intn(6) != 0) + " [" + genDur(r) + "])" + suf + genCmp(r, class)
}

func genTopK(r *rand.Rand, class *[]string) string {
	fn := []string{"topk", "bottomk"}[r.Intn(2)]
	*class = append(*class, fn)
	k := []string{"1", "2", "3", "10", "0", "007", "1.5"}[r.Intn(7)]
	if r.Intn(3) != 0 {
		k = []string{"1", "2", "3", "10"}[r.Intn(4)]
	}
	arg := ""
	switch r.Intn(5) {
	case 0, 1:
		arg = genLRA(r, class)
	case 2, 3:
		arg = genAgg(r, class)
	default:
		arg = genQuantile(r, class)
	}
	return fn + "(" + k + ", " + arg + ")" + genCmp(r, class)
}

func genMetricQuery(r *rand.Rand) (string, []string) {
	var class []string
	switch r.Intn(10) {
	case 0, 1, 2:
		return genLRA(r, &class), class
	case 3, 4, 5, 6:
		return genAgg(r, &class), class
	case 7, 8:
		return genTopK(r, &class), class
	default:
		return genQuantile(r, &class), class
	}
}

func genMetricCtx(r *rand.Rand) Ctx {
	from := int64(1700000000)*1e9 + int64(r.Intn(4*86400))*1e9 + int64(r.Intn(2))*int64(r.Intn(1e9))
	if r.Intn(8) == 0 {
		from = (int64(19700+r.Intn(30))*86400 + int64(r.Intn(3600))) * 1e9
	}
	if r.Intn(4) == 0 { // aligned to 15 s / to the minute
		from = from / 60e9 * 60e9
	}
	step := stepsMs[r.Intn(len(stepsMs))]
	if r.Intn(10) == 0 {
		step = []int64{1, 500, 1500, 7000, 3600000}[r.Intn(5)]
	}
	return Ctx{FromNs: from, ToNs: from + int64(1+r.Intn(7200))*1e9, Limit: []int64{0, 100}[r.Intn(2)], Asc: r.Intn(2) == 0,
		Cluster: r.Intn(4) == 0, Type: []uint8{0, 1, 1, 2}[r.Intn(4)], Finalize: r.Intn(5) != 0, StepMs: step}
}

// ---------------------------------------------------------------- facts of the parsed script

// Facts names, from the parse tree, the range function, its range, whether it aggregates an unwrapped value, and the
// vector operator: the inputs of the specification oracle that judges the implementation's SQL fragments.
type Facts struct {
	LraFn     string `json:"lra_fn,omitempty"`
	DurNs     int64  `json:"dur_ns,omitempty"`
	Unwrapped bool   `json:"unwrapped,omitempty"`
	AggFn     string `json:"agg_fn,omitempty"`
	Quantile  bool   `json:"quantile,omitempty"`
	// a label_format stage in the pipeline handed to the ClickHouse planners
	LabelFormat bool `json:"label_format,omitempty"`
	// the vector aggregation carries no by/without clause (LogQL: one series with the empty label set)
	AggNoGrouping bool `json:"agg_no_grouping,omitempty"`
}

func scriptFacts(s *logql_parser.LogQLScript) *Facts {
	f := &Facts{}
	for _, ppl := range shared.GetStrSelector(s).Pipelines {
		if ppl.LabelFormat != nil {
			f.LabelFormat = true
		}
	}
	var lra *logql_parser.LRAOrUnwrap
	agg := s.AggOperator
	switch {
	case s.LRAOrUnwrap != nil:
		lra = s.LRAOrUnwrap
	case s.TopK != nil:
		lra = s.TopK.LRAOrUnwrap
		if s.TopK.AggOperator != nil {
			agg = s.TopK.AggOperator
		}
		f.Quantile = s.TopK.QuantileOverTime != nil
	case s.QuantileOverTime != nil:
		f.Quantile = true
	}
	if agg != nil {
		f.AggFn = agg.Fn
		f.AggNoGrouping = agg.ByOrWithoutPrefix == nil && agg.ByOrWithoutSuffix == nil
		lra = &agg.LRAOrUnwrap
	}
	if lra != nil {
		f.LraFn = lra.Fn
		if d, err := time.ParseDuration(lra.Time + lra.TimeUnit); err == nil {
			f.DurNs = d.Nanoseconds()
		}
		n := len(lra.StrSel.Pipelines)
		f.Unwrapped = n > 0 && lra.StrSel.Pipelines[n-1].Unwrap != nil
	}
	return f
}
