package main

// Overlapping requests for ONE expression (C08 round 8, seeded C08-h). The reader answers a query_range / instant request with
// logql_transpiler_v2.Transpile(text) followed by chain[0].Process(plannerContext, nil) (QueryRangeService.prepareOutput). A
// case whose context carries `overlap` = [from_ns, to_ns] is driven that way: request A (the case's own window) goes through
// Transpile and chain[0].Process, and while A's Process call stands right behind its samples select (SqlMainInitPlanner
// returned: a point every Process call passes, behind MainFinalizerPlanner's reset of the WITH caches and before
// WithConnectorPlanner's look-up) a second request B with the byte-identical text and the window `overlap` is transpiled and
// processed completely; A goes on. This is one schedule of two goroutines, run on one goroutine: the point is reached through
// the repository's own plug-in hook (plugins.RegisterSqlMainInitPlannerPlugin), the stock planner is wrapped, nothing in /repo
// is changed. The statement A sends to ClickHouse (caught by the CHDb stand-in) is the case's sql[0]: text tie, parse-back,
// execution over the databases and the judge see the statement of the overlapped request.
//
// FixPeriodPlanner widens the window it is given to whole ranges (from/d*d, to/d*d+d) before the ClickHouse planners see it:
// an overlap case needs a context window made of whole ranges (from, to multiples of the range d, to-d >= from); A is asked
// for [from, to-d], so that the planners are handed exactly the case's window, the one the model plans for.

import (
	"context"
	dsql "database/sql"
	"errors"

	"github.com/metrico/qryn/reader/logql/logql_transpiler_v2"
	"github.com/metrico/qryn/reader/logql/logql_transpiler_v2/clickhouse_planner"
	"github.com/metrico/qryn/reader/logql/logql_transpiler_v2/shared"
	"github.com/metrico/qryn/reader/plugins"
	sql "github.com/metrico/qryn/reader/utils/sql_select"
	"verif/harness/hx"
)

var errCaught = errors.New("statement caught")

// captureDB stands where the ClickHouse connection stands: it keeps the statement and answers with an error (no rows are read)
type captureDB struct{ stmts []string }

func (d *captureDB) GetName() string { return "capture" }
func (d *captureDB) QueryCtx(_ context.Context, q string, _ ...any) (*dsql.Rows, error) {
	d.stmts = append(d.stmts, q)
	return nil, errCaught
}
func (d *captureDB) ExecCtx(context.Context, string, ...any) error { return errors.New("no exec") }
func (d *captureDB) Conn(context.Context) (*dsql.Conn, error)       { return nil, errors.New("no conn") }
func (d *captureDB) Begin() (*dsql.Tx, error)                        { return nil, errors.New("no tx") }
func (d *captureDB) Close()                                          {}

// the stock SqlMainInitPlanner; a Process call whose context has a continuation registered runs it once the samples select is built
type hookedMainInit struct {
	clickhouse_planner.SqlMainInitPlanner
}

var (
	overlapHooks     = map[*shared.PlannerContext]func(){}
	overlapInstalled bool
)

func (p *hookedMainInit) Process(ctx *shared.PlannerContext) (sql.ISelect, error) {
	res, err := p.SqlMainInitPlanner.Process(ctx)
	if f := overlapHooks[ctx]; f != nil {
		delete(overlapHooks, ctx)
		f()
	}
	return res, err
}

func requestCtx(c Ctx, fromNs, toNs int64, db *captureDB) *shared.PlannerContext {
	c.FromNs, c.ToNs = fromNs, toNs
	pc := mkCtx(c)
	pc.Ctx, pc.CancelCtx = context.WithCancel(context.Background())
	pc.CHDb = db
	pc.CHSqlCtx = &sql.Ctx{Params: map[string]sql.SQLObject{}, Result: map[string]sql.SQLObject{}}
	return pc
}

// one request as QueryRangeService.prepareOutput answers it, up to the statement sent to ClickHouse
func request(query string, pc *shared.PlannerContext) error {
	chain, err := logql_transpiler_v2.Transpile(query)
	if err != nil {
		return err
	}
	_, err = chain[0].Process(pc, nil)
	pc.CancelCtx()
	return err
}

// runOverlap fills c.SQL with the statement of request A; "" when the case cannot be driven this way (reason in errText)
func runOverlap(c *Case, durNs int64) (stmt string, errKind string, errText string) {
	if !overlapInstalled {
		plugins.RegisterSqlMainInitPlannerPlugin(func() shared.SQLRequestPlanner { return &hookedMainInit{} })
		overlapInstalled = true
	}
	from, to := c.Ctx.FromNs, c.Ctx.ToNs
	if durNs <= 0 || from%durNs != 0 || to%durNs != 0 || to-durNs < from || !c.Ctx.Finalize {
		return "", "overlap-window", "the window of an overlap case is made of whole ranges and the plan finalized"
	}
	dbA, dbB := &captureDB{}, &captureDB{}
	pcA := requestCtx(c.Ctx, from, to-durNs, dbA)
	pcB := requestCtx(c.Ctx, c.Ctx.Overlap[0], c.Ctx.Overlap[1], dbB)
	reached := false
	var errB error
	overlapHooks[pcA] = func() {
		reached = true
		errB = request(c.Query, pcB)
	}
	var errA error
	p := hx.Catch(func() { errA = request(c.Query, pcA) })
	delete(overlapHooks, pcA)
	if p != "" {
		return "", "panic", p
	}
	if errA != nil && !errors.Is(errA, errCaught) {
		return "", "process", errA.Error()
	}
	if !reached { // a plan without samples select (metrics_15s shortcut): A ran alone; its statement is judged all the same
		c.Class = append(c.Class, "overlap-unreached")
		if len(dbA.stmts) != 1 {
			return "", "overlap-stmts", "each request sends one statement"
		}
		return dbA.stmts[0], "", ""
	}
	if errB != nil && !errors.Is(errB, errCaught) {
		return "", "overlap-b", errB.Error()
	}
	if len(dbA.stmts) != 1 || len(dbB.stmts) != 1 {
		return "", "overlap-stmts", "each request sends one statement"
	}
	return dbA.stmts[0], "", ""
}
