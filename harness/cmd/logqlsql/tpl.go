package main

import (
	"math/rand"

	"github.com/metrico/qryn/reader/logql/logql_transpiler_v2/clickhouse_planner"
	sql "github.com/metrico/qryn/reader/utils/sql_select"
	"verif/harness/coqx"
	"verif/harness/hx"
)

// --mode tpl: the template text of a line_format stage, alone. The real LineFormatPlanner (Main = the exported
// SQLMainInitPlanner) processes it and prints its statement; the model (model/LogqlTemplate.v through
// LogqlCases.tpl_probe) classifies the same text as parsed / refused / outside the transcribed fragment and plans
// PLineFormatP t PMainInit. Templates come from the fragment generator of gen.go, from the rest of Go's template
// language (literals, variables, calls, parentheses, comments, control structures, unicode names) and from byte soup
// around the delimiters, so that the evidence can say how much of the language the fragment covers and that the
// model never claims a template it does not transcribe.

type TplCase struct {
	ID      int      `json:"id"`
	Tpl     string   `json:"tpl"`
	Class   string   `json:"class"`
	Ctx     Ctx      `json:"ctx"`
	TplML   string   `json:"tpl_ml,omitempty"`
	CtxML   string   `json:"ctx_ml,omitempty"`
	SQL     string   `json:"sql,omitempty"`
	Err     string   `json:"err,omitempty"` // process | panic | string
	ErrText string   `json:"err_text,omitempty"`
}

var tplOutside = []string{
	`{{ print .a }}`, `{{ .a | printf "%s" }}`, `{{ "x" }}`, `{{ 1 }}`, `{{ $x := .a }}{{ $x }}`, `{{ if .a }}x{{ end }}`,
	`{{ if .a }}{{ .b }}{{ else }}{{ .c }}{{ end }}`, `{{ range .a }}{{ . }}{{ end }}`, `{{/* c */}}`, `{{- /* c */ -}}`, `{{ (.a) }}`,
	`{{ (.a).b }}`, `{{ .a | ToUpper }}`, `{{ len .a }}`, `{{ .é }}`, `{{ index .a 1 }}`, `{{ .a.b | print .c }}`, `{{ with .a }}{{ .b }}{{ end }}`,
	`{{ true }}`, `{{ nil }}`, `{{ .a, .b }}`, `{{ .a = .b }}`, `{{ 'x' }}`, "{{ `raw` }}", `{{ .1a }}`, `{{ .a1 }}`, `{{ -1 }}`, `{{ .a -1 }}`,
	`{{ template "x" }}`, `{{ define "x" }}y{{ end }}`, `{{ end }}`, `{{ else }}`, `{{ break }}`, `{{ printf "%v %v" .a .b }}`, `{{ .a | len | print }}`,
	`{{ $ }}`, `{{ $.a }}`, `{{ .a}}}`, `{{{ .a }}`, `{{ .a }`, `{ { .a } }`, `{{ . a }}`, `{{ .a. b }}`, `{{ .a .}}`, `{{.a|.b|.c}}`, `{{ .a|. }}`,
	`{{.}}{{.}}`, `{{- . -}}`, `{{-.a}}`, `{{.a-}}`, `{{ - .a }}`, `{{ .a - }}`, "{{\n.a\n}}", `{{.a:}}`, `{{.a)}}`, `{{(.a}}`, `{{.a(}}`, `{{ .a | }}`, `{{ | }}`,
	`{{ html .a }}`, `{{ print .a .b }}`, `{{ print.a }}`, `{{ println }}`, `{{ urlquery .a | print }}`, `{{ foo }}`, `{{ .a | foo }}`, `{{ print . }}`, `{{/* */}}x`,
	`{{/* a */ }}`, `{{- /* a */}}`, `{{/* a */ -}}  y`, `{{ printx .a }}`, `{{ eq .a .b }}`, `{{ _ }}`, `{{ print_ }}`, `{{ print. }}`, `{{ .a|print|len }}`, `{{/* a`, `{{/**/}}`,
	`{{ .a || .b }}`, `{{ .A.B.C.D }}`, `{{ ._ }}`, `{{ .__a__ }}`, `{{ .a;.b }}`, `{{ .a#b }}`, `{{ .a "x" }}`, `{{ .a 1 }}`, `{{ and .a .b }}`, `{{ not .a }}`,
}

func genTplCase(r *rand.Rand, id int) TplCase {
	c := TplCase{ID: id}
	switch r.Intn(10) {
	case 0, 1, 2, 3, 4:
		c.Class, c.Tpl = "fragment", genTemplate(r)
	case 5, 6:
		c.Class = "outside"
		c.Tpl = pick(r, tplOutside)
		if r.Intn(2) == 0 {
			c.Tpl = pick(r, tplTexts) + c.Tpl + genTemplate(r)
		}
	case 7:
		c.Class = "mixed"
		c.Tpl = genTemplate(r) + pick(r, tplOutside) + genTemplate(r)
	default:
		c.Class = "soup"
		alphabet := []string{"{{", "}}", "{", "}", "-", " ", ".", "a", "b", "|", "_", "1", "\t", "\n", "é", "(", ")", "$", "\"", "/*", "*/", ",", ":", "=", "x"}
		n := 1 + r.Intn(10)
		for i := 0; i < n; i++ {
			c.Tpl += pick(r, alphabet)
		}
	}
	from := int64(1700000000)*1e9 + int64(r.Intn(86400))*1e9
	c.Ctx = Ctx{FromNs: from, ToNs: from + 3600*1e9, Limit: 100, Asc: r.Intn(2) == 0, Cluster: r.Intn(4) == 0, Type: 1, Finalize: true, StepMs: 1000}
	return c
}

func runTpl(c *TplCase) {
	c.SQL, c.Err, c.ErrText = "", "", ""
	pc := mkCtx(c.Ctx)
	c.CtxML = dumpCtx(coqx.ML, c.Ctx, pc)
	c.TplML = coqx.ML.Str(c.Tpl)
	p := &clickhouse_planner.LineFormatPlanner{Main: clickhouse_planner.NewSQLMainInitPlanner(), Template: c.Tpl}
	var str string
	var err error
	pn := hx.Catch(func() {
		var sel sql.ISelect
		sel, err = p.Process(pc)
		if err != nil {
			return
		}
		var opts []int
		if c.Ctx.Cluster {
			opts = []int{sql.STRING_OPT_INLINE_WITH}
		}
		str, err = sel.String(&sql.Ctx{Params: map[string]sql.SQLObject{}, Result: map[string]sql.SQLObject{}}, opts...)
	})
	if pn != "" {
		c.Err, c.ErrText = "panic", pn
		return
	}
	if err != nil {
		c.Err, c.ErrText = "process", err.Error()
		return
	}
	c.SQL = str
}
