// pyrojson: correspondence harness for the JSON bodies of the Pyroscope endpoints (property C15, model coq/model/JsonPyro.v).
//
// The REAL handlers of reader/controller.ProfController run over the real service.ProfService and a scripted
// database/sql driver (only what ClickHouse would answer is scripted):
//
//	pyronames / pyrovalues / pyroseries / pyrotypes / pyroselect
//	        LabelNames, LabelValues, Series, ProfileTypes, SelectSeries with Content-Type application/json:
//	        writeResponse -> defaultMarshaller -> protojson.Marshal (or defaultError when Marshal fails)
//	pyrodiff RenderDiff over scripted trees: json.NewEncoder(w).Encode(diff.FlamebearerProfileV1); the model's input is the
//	        *service.Flamebearer the exported ProfService.RenderDiff returns for the same answers
//	pyrofb  service.FlamebearerProfileV1 values of any content (nil / empty slices and maps, timeline, groups, heatmap),
//	        encoded exactly as the handler does (encoding/json struct walk of the real type: tags, null-ness, map order)
//	pyroerr requests that make the handlers answer through defaultError with a text that echoes request bytes
//
// One JSON line per case: the inputs ("in": replayable), the flat item list the Coq side decodes ("items", hex), the
// coin of protobuf's internal/detrand for this binary ("coin": a space after every comma, U+00A0 in error texts),
// status, body (hex), Content-Type as a server would send it, valid = encoding/json.Valid(body), class.
package main

import (
	"bytes"
	"context"
	"database/sql"
	"database/sql/driver"
	"encoding/json"
	"errors"
	"html"
	"io"
	"math"
	"math/rand"
	"net/http"
	"net/http/httptest"
	"net/url"
	"os"
	"sort"
	"strconv"
	"strings"
	"time"
	"unicode/utf8"

	clbase "github.com/metrico/cloki-config/config"
	controllerv1 "github.com/metrico/qryn/reader/controller"
	rmodel "github.com/metrico/qryn/reader/model"
	v1 "github.com/metrico/qryn/reader/prof/types/v1"
	rsvc "github.com/metrico/qryn/reader/service"
	"google.golang.org/protobuf/encoding/protojson"
	"verif/harness/hx"
)

// ---------------------------------------------------------------------------- scripted database

type sdrv struct{}
type sconn struct{}
type srows struct {
	cols int
	rows [][]driver.Value
	i    int
}

// what the database answers to the next statements (set by the case that is running; cases run one after the other)
var answer func(q string) (int, [][]driver.Value)

func (sdrv) Open(string) (driver.Conn, error) { return &sconn{}, nil }
func (*sconn) Prepare(string) (driver.Stmt, error) {
	return nil, errors.New("prepare not supported by the scripted driver")
}
func (*sconn) Close() error                             { return nil }
func (*sconn) Begin() (driver.Tx, error)                { return nil, errors.New("no tx") }
func (*sconn) CheckNamedValue(*driver.NamedValue) error { return nil }
func (*sconn) QueryContext(ctx context.Context, q string, args []driver.NamedValue) (driver.Rows, error) {
	if strings.Contains(q, "type='update'") {
		return &srows{cols: 2}, nil
	}
	if strings.Contains(q, "SHOW TABLES") || answer == nil {
		return &srows{cols: 1}, nil
	}
	c, r := answer(q)
	return &srows{cols: c, rows: r}, nil
}
func (*sconn) ExecContext(ctx context.Context, q string, args []driver.NamedValue) (driver.Result, error) {
	return driver.RowsAffected(0), nil
}
func (r *srows) Columns() []string {
	res := make([]string, r.cols)
	for i := range res {
		res[i] = "c" + string(rune('a'+i%26))
	}
	return res
}
func (r *srows) Close() error { return nil }
func (r *srows) Next(dest []driver.Value) error {
	if r.i >= len(r.rows) {
		return io.EOF
	}
	row := r.rows[r.i]
	r.i++
	for i := range dest {
		if i < len(row) {
			dest[i] = row[i]
		} else {
			dest[i] = nil
		}
	}
	return nil
}

type sfakeDB struct{ db *sql.DB }

func (f *sfakeDB) GetName() string { return "verif" }
func (f *sfakeDB) QueryCtx(ctx context.Context, query string, args ...any) (*sql.Rows, error) {
	return f.db.QueryContext(ctx, query, args...)
}
func (f *sfakeDB) ExecCtx(ctx context.Context, query string, args ...any) error {
	_, err := f.db.ExecContext(ctx, query, args...)
	return err
}
func (f *sfakeDB) Conn(ctx context.Context) (*sql.Conn, error) { return f.db.Conn(ctx) }
func (f *sfakeDB) Begin() (*sql.Tx, error)                     { return f.db.Begin() }
func (f *sfakeDB) Close()                                      {}

type sregistry struct{ m *rmodel.DataDatabasesMap }

func (r *sregistry) GetDB(ctx context.Context) (*rmodel.DataDatabasesMap, error) { return r.m, nil }
func (r *sregistry) Run()                                                        {}
func (r *sregistry) Stop()                                                       {}
func (r *sregistry) Ping() error                                                 { return nil }

var (
	svc *rsvc.ProfService
	pc  *controllerv1.ProfController
)

func setup() {
	sql.Register("verifpyrojson", sdrv{})
	db, err := sql.Open("verifpyrojson", "")
	if err != nil {
		panic(err)
	}
	db.SetMaxOpenConns(4)
	cfg := &clbase.ClokiBaseDataBase{Name: "qryn", Node: "n1"}
	svc = &rsvc.ProfService{DataSession: &sregistry{m: &rmodel.DataDatabasesMap{Config: cfg, Session: &sfakeDB{db: db}}}}
	pc = &controllerv1.ProfController{ProfService: svc}
}

// ---------------------------------------------------------------------------- cases

type SRow struct {
	Tp   string      `json:"tp"` // hex, as all strings below
	Pt   string      `json:"pt"`
	Pu   string      `json:"pu"`
	St   string      `json:"st"`
	Su   string      `json:"su"`
	Tags [][2]string `json:"tags"`
}
type PRow struct {
	Ts     int64       `json:"ts"`
	Fp     uint64      `json:"fp"`
	Bits   uint64      `json:"bits"` // math.Float64bits of the value
	Labels [][2]string `json:"labels"`
}
type TL struct {
	Start    int64      `json:"start"`
	Samples  []uint64   `json:"samples"`
	SamplesN bool       `json:"samples_nil"`
	Delta    int64      `json:"delta"`
	Marks    [][2]int64 `json:"marks"` // in any order; encoding/json sorts the keys as strings
	MarksN   bool       `json:"marks_nil"`
}
type Rows struct {
	Nil  bool      `json:"nil"`
	Rows [][]int64 `json:"rows"` // uint64 values of the heat map travel as int64 bit patterns
	RowN []bool    `json:"row_nil"`
}
type HM struct {
	Values Rows      `json:"values"`
	Nums   [8]uint64 `json:"nums"` // timeBuckets valueBuckets startTime endTime (int64 bit patterns) minValue maxValue minDepth maxDepth
}
type FB struct {
	NamesN  bool     `json:"names_nil"`
	Names   []string `json:"names"`
	Levels  Rows     `json:"levels"`
	Ticks   int64    `json:"ticks"`
	MaxSelf int64    `json:"maxself"`
}
type Group struct {
	Key string `json:"key"`
	TL  TL     `json:"tl"`
}
type Prof struct {
	FB      *FB     `json:"fb"`
	Format  string  `json:"format"`
	Spy     string  `json:"spy"`
	Rate    int64   `json:"rate"`
	Units   string  `json:"units"`
	Name    string  `json:"name"`
	TL      *TL     `json:"tl"`
	GroupsN bool    `json:"groups_nil"`
	Groups  []Group `json:"groups"`
	HM      *HM     `json:"hm"`
	Left    int64   `json:"left"`
	Right   int64   `json:"right"`
}
type Node struct {
	P uint64 `json:"p"`
	F uint64 `json:"f"`
	I uint64 `json:"i"`
	S int64  `json:"s"`
	T int64  `json:"t"`
}
type Fn struct {
	ID   uint64 `json:"id"`
	Name string `json:"name"`
}
type Tree struct {
	Nodes []Node `json:"nodes"`
	Funcs []Fn   `json:"funcs"`
}
type Req struct {
	Handler string            `json:"handler"` // renderdiff | labelvalues | labelnames
	Params  map[string]string `json:"params"`  // hex values; a missing key is a missing parameter
	Body    string            `json:"body"`    // hex
}
type In struct {
	Names  []string `json:"names,omitempty"`
	SRows  []SRow   `json:"srows,omitempty"`
	PRows  []PRow   `json:"prows,omitempty"`
	Prof   *Prof    `json:"prof,omitempty"`
	Left   *Tree    `json:"left,omitempty"`
	Right  *Tree    `json:"right,omitempty"`
	TypeID string   `json:"typeid,omitempty"` // hex; pyrodiff
	Req    *Req     `json:"req,omitempty"`
}
type Case struct {
	ID     int      `json:"id"`
	Kind   string   `json:"kind"`
	Class  string   `json:"class"`
	In     In       `json:"in"`
	Items  []string `json:"items"` // hex: what the Coq side decodes (model input)
	Coin   int      `json:"coin"`
	Status int      `json:"status"`
	Out    string   `json:"out"` // hex
	CT     string   `json:"ct"`
	Valid  bool     `json:"valid"`
	Panic  string   `json:"panic,omitempty"`
	Note   string   `json:"note,omitempty"`
}

// ---------------------------------------------------------------------------- generators

var pieces = []string{
	"a", "b", "job", "x y", "\"", "\\", "\n", "\r", "\t", "\b", "\f", "\x00", "\x01", "\x1f", "\x7f", "\a", "\v",
	"<", ">", "&", "/", "\u00e9", "\u65e5", "\U0001F600", "\u2028", "\u2029", "\ufffd", "\U000e0001", "\u00a0",
	"\xff", "\xc3", "\xe2\x82", "\xed\xa0\x80", "\xc0\xaf", "\xf4\x90\x80\x80",
	"\\u0041", "{", "}", "[", ",", ":", "'", "`", "|", "~", "%41",
}

func genStr(r *rand.Rand) string {
	switch r.Intn(10) {
	case 0:
		return ""
	case 1, 2, 3:
		return pieces[r.Intn(len(pieces))]
	case 4, 5:
		n := 1 + r.Intn(5)
		b := make([]byte, n)
		for i := range b {
			b[i] = byte(32 + r.Intn(95))
		}
		return string(b)
	case 6:
		n := 1 + r.Intn(4)
		b := make([]byte, n)
		for i := range b {
			b[i] = byte(r.Intn(256))
		}
		return string(b)
	default:
		var sb strings.Builder
		for k := 1 + r.Intn(3); k > 0; k-- {
			sb.WriteString(pieces[r.Intn(len(pieces))])
		}
		return sb.String()
	}
}

// mostly valid UTF-8 (the protojson endpoints refuse anything else, so most cases must not contain it)
func genText(r *rand.Rand, allowBad bool) string {
	for {
		s := genStr(r)
		if utf8.ValidString(s) || (allowBad && r.Intn(3) == 0) {
			return s
		}
	}
}
func genStrs(r *rand.Rand, allowBad bool) []string {
	n := r.Intn(8)
	res := make([]string, 0, n)
	for i := 0; i < n; i++ {
		if i > 0 && r.Intn(6) == 0 {
			res = append(res, res[r.Intn(len(res))]) // duplicate
			continue
		}
		res = append(res, hx.Hex(genText(r, allowBad)))
	}
	return res
}
func noColon(s string) string { return strings.ReplaceAll(s, ":", ";") }
func genPairs(r *rand.Rand, max int, allowBad bool) [][2]string {
	n := r.Intn(max + 1)
	res := make([][2]string, 0, n)
	for i := 0; i < n; i++ {
		k := []string{"job", "app", "", "a"}[r.Intn(4)]
		if r.Intn(3) == 0 {
			k = genText(r, allowBad)
		}
		res = append(res, [2]string{hx.Hex(k), hx.Hex(genText(r, allowBad))})
	}
	return res
}
func genSRow(r *rand.Rand, allowBad bool) SRow {
	word := func(def string) string {
		switch r.Intn(4) {
		case 0:
			return noColon(genText(r, allowBad))
		case 1:
			return ""
		}
		return def
	}
	pu := word("ns")
	if r.Intn(6) == 0 {
		pu = "a:b" // SplitN(.., 3): the period unit may hold colons
	}
	return SRow{Tp: hx.Hex(word("cpu")), Pt: hx.Hex(word("pt")), Pu: hx.Hex(pu), St: hx.Hex(word("st")), Su: hx.Hex(word("su")),
		Tags: genPairs(r, 2, allowBad)}
}
func genI64(r *rand.Rand) int64 {
	switch r.Intn(8) {
	case 0:
		return 0
	case 1:
		return math.MaxInt64
	case 2:
		return math.MinInt64
	case 3:
		return -int64(r.Intn(1000))
	case 4:
		return int64(r.Uint64())
	case 5:
		return 1700000000000 + int64(r.Intn(100000))
	}
	return int64(r.Intn(100))
}
func genF64(r *rand.Rand) float64 {
	switch r.Intn(14) {
	case 0:
		return 0
	case 1:
		return math.Copysign(0, -1)
	case 2:
		return math.NaN()
	case 3:
		return math.Inf(1)
	case 4:
		return math.Inf(-1)
	case 5:
		return float64(r.Intn(1000))
	case 6:
		return -float64(r.Intn(1000)) / 8
	case 7:
		return []float64{1e21, 1e-7, 5e-324, math.MaxFloat64, 1e20, 0.000001, 9.999999e-7, 123456789012345678, 2.5e-9}[r.Intn(9)]
	case 8:
		return math.Float64frombits(r.Uint64())
	}
	return r.NormFloat64() * 100
}
func genPRows(r *rand.Rand, allowBad bool) []PRow {
	var res []PRow
	nser := r.Intn(4)
	for s := 0; s < nser; s++ {
		fp := []uint64{0, 1, 7, math.MaxUint64, r.Uint64()}[r.Intn(5)]
		if s > 0 && r.Intn(5) == 0 {
			fp = res[len(res)-1].Fp // the same fingerprint again right away: the points join the previous series
		}
		lbls := genPairs(r, 2, allowBad)
		for k := 1 + r.Intn(3); k > 0; k-- {
			res = append(res, PRow{Ts: genI64(r), Fp: fp, Bits: math.Float64bits(genF64(r)), Labels: lbls})
		}
	}
	return res
}
func genU64(r *rand.Rand) uint64 {
	switch r.Intn(5) {
	case 0:
		return 0
	case 1:
		return math.MaxUint64
	case 2:
		return r.Uint64()
	}
	return uint64(r.Intn(1000))
}
func genRows(r *rand.Rand, gen func() int64) Rows {
	if r.Intn(5) == 0 {
		return Rows{Nil: true}
	}
	n := r.Intn(5)
	res := Rows{Rows: make([][]int64, n), RowN: make([]bool, n)}
	for i := range res.Rows {
		if r.Intn(6) == 0 {
			res.RowN[i] = true
			continue
		}
		m := r.Intn(9)
		res.Rows[i] = make([]int64, m)
		for j := range res.Rows[i] {
			res.Rows[i][j] = gen()
		}
	}
	return res
}
func genTL(r *rand.Rand) TL {
	t := TL{Start: genI64(r), Delta: genI64(r), SamplesN: r.Intn(3) == 0, MarksN: r.Intn(3) == 0}
	if !t.SamplesN {
		t.Samples = make([]uint64, r.Intn(4))
		for i := range t.Samples {
			t.Samples[i] = genU64(r)
		}
	}
	if !t.MarksN {
		seen := map[int64]bool{}
		for k := r.Intn(4); k > 0; k-- {
			key := []int64{0, 1, 2, 10, 9, -1, -10, 100, math.MaxInt64, math.MinInt64}[r.Intn(10)]
			if !seen[key] {
				seen[key] = true
				t.Marks = append(t.Marks, [2]int64{key, genI64(r)})
			}
		}
	}
	return t
}
func genProf(r *rand.Rand) *Prof {
	p := &Prof{Format: hx.Hex([]string{"single", "double", genStr(r)}[r.Intn(3)]), Spy: hx.Hex([]string{"", genStr(r)}[r.Intn(2)]),
		Rate: genI64(r), Units: hx.Hex([]string{"samples", "objects", genStr(r)}[r.Intn(3)]), Name: hx.Hex([]string{"cpu", genStr(r)}[r.Intn(2)]),
		Left: genI64(r), Right: genI64(r), GroupsN: r.Intn(2) == 0}
	if r.Intn(8) != 0 {
		fb := &FB{NamesN: r.Intn(5) == 0, Levels: genRows(r, func() int64 { return genI64(r) }), Ticks: genI64(r), MaxSelf: genI64(r)}
		if !fb.NamesN {
			fb.Names = make([]string, r.Intn(5))
			for i := range fb.Names {
				fb.Names[i] = hx.Hex(genStr(r))
			}
		}
		p.FB = fb
	}
	if r.Intn(3) == 0 {
		t := genTL(r)
		p.TL = &t
	}
	if !p.GroupsN {
		seen := map[string]bool{}
		for k := r.Intn(3); k > 0; k-- {
			key := genStr(r)
			if !seen[key] {
				seen[key] = true
				p.Groups = append(p.Groups, Group{Key: hx.Hex(key), TL: genTL(r)})
			}
		}
	}
	if r.Intn(4) == 0 {
		h := &HM{Values: genRows(r, func() int64 { return int64(genU64(r)) })}
		for i := range h.Nums {
			if i < 4 {
				h.Nums[i] = uint64(genI64(r))
			} else {
				h.Nums[i] = genU64(r)
			}
		}
		p.HM = h
	}
	return p
}
func genTree(r *rand.Rand, names []string) *Tree {
	t := &Tree{}
	nf := 1 + r.Intn(3)
	for i := 0; i < nf; i++ {
		t.Funcs = append(t.Funcs, Fn{ID: uint64(i + 1), Name: names[i%len(names)]})
	}
	if r.Intn(8) == 0 {
		return t // no nodes
	}
	// a small tree below the root 0
	ids := []uint64{0}
	nn := 1 + r.Intn(4)
	for i := 0; i < nn; i++ {
		parent := ids[r.Intn(len(ids))]
		id := uint64(10 + i)
		self := int64(r.Intn(5))
		if r.Intn(6) == 0 {
			self = int64(r.Intn(1 << 40))
		}
		t.Nodes = append(t.Nodes, Node{P: parent, F: uint64(1 + r.Intn(nf)), I: id, S: self, T: self + int64(r.Intn(7))})
		ids = append(ids, id)
	}
	sort.SliceStable(t.Nodes, func(i, j int) bool { return t.Nodes[i].P < t.Nodes[j].P })
	return t
}

// ---------------------------------------------------------------------------- flat items (decoded by model/JsonPyro.v)

func itoa(v int64) string  { return hx.Hex(strconv.FormatInt(v, 10)) }
func utoa(v uint64) string { return hx.Hex(strconv.FormatUint(v, 10)) }
func flag(isNil bool) string {
	if isNil {
		return hx.Hex("0")
	}
	return hx.Hex("1")
}
func pairsItems(ps [][2]string) []string {
	its := []string{itoa(int64(len(ps)))}
	for _, p := range ps {
		its = append(its, p[0], p[1])
	}
	return its
}
func srowItems(rows []SRow) []string {
	its := []string{itoa(int64(len(rows)))}
	for _, x := range rows {
		its = append(its, x.Tp, x.Pt, x.Pu, x.St, x.Su)
		its = append(its, pairsItems(x.Tags)...)
	}
	return its
}
func prowItems(rows []PRow) []string {
	its := []string{itoa(int64(len(rows)))}
	for _, x := range rows {
		its = append(its, itoa(x.Ts), utoa(x.Fp), utoa(x.Bits))
		its = append(its, pairsItems(x.Labels)...)
	}
	return its
}
func rowsItems(x Rows, unsigned bool) []string {
	if x.Nil {
		return []string{flag(true)}
	}
	its := []string{flag(false), itoa(int64(len(x.Rows)))}
	for i, row := range x.Rows {
		if x.RowN[i] {
			its = append(its, flag(true))
			continue
		}
		its = append(its, flag(false), itoa(int64(len(row))))
		for _, v := range row {
			if unsigned {
				its = append(its, utoa(uint64(v)))
			} else {
				its = append(its, itoa(v))
			}
		}
	}
	return its
}
func sortedMarks(t TL) [][2]int64 {
	m := append([][2]int64(nil), t.Marks...)
	sort.Slice(m, func(i, j int) bool { return strconv.FormatInt(m[i][0], 10) < strconv.FormatInt(m[j][0], 10) })
	return m
}
func tlItems(t TL) []string {
	its := []string{itoa(t.Start)}
	if t.SamplesN {
		its = append(its, flag(true))
	} else {
		its = append(its, flag(false), itoa(int64(len(t.Samples))))
		for _, s := range t.Samples {
			its = append(its, utoa(s))
		}
	}
	its = append(its, itoa(t.Delta))
	if t.MarksN {
		its = append(its, flag(true))
	} else {
		m := sortedMarks(t)
		its = append(its, flag(false), itoa(int64(len(m))))
		for _, kv := range m {
			its = append(its, itoa(kv[0]), itoa(kv[1]))
		}
	}
	return its
}
func profItems(p *Prof) []string {
	var its []string
	if p.FB == nil {
		its = append(its, flag(true))
	} else {
		its = append(its, flag(false))
		if p.FB.NamesN {
			its = append(its, flag(true))
		} else {
			its = append(its, flag(false), itoa(int64(len(p.FB.Names))))
			its = append(its, p.FB.Names...)
		}
		its = append(its, rowsItems(p.FB.Levels, false)...)
		its = append(its, itoa(p.FB.Ticks), itoa(p.FB.MaxSelf))
	}
	its = append(its, p.Format, p.Spy, itoa(p.Rate), p.Units, p.Name)
	if p.TL == nil {
		its = append(its, flag(true))
	} else {
		its = append(its, flag(false))
		its = append(its, tlItems(*p.TL)...)
	}
	if p.GroupsN {
		its = append(its, flag(true))
	} else {
		g := append([]Group(nil), p.Groups...)
		sort.Slice(g, func(i, j int) bool { return hx.UnHex(g[i].Key) < hx.UnHex(g[j].Key) })
		its = append(its, flag(false), itoa(int64(len(g))))
		for _, x := range g {
			its = append(its, x.Key)
			its = append(its, tlItems(x.TL)...)
		}
	}
	if p.HM == nil {
		its = append(its, flag(true))
	} else {
		its = append(its, flag(false))
		its = append(its, rowsItems(p.HM.Values, true)...)
		for i, n := range p.HM.Nums {
			if i < 4 {
				its = append(its, itoa(int64(n)))
			} else {
				its = append(its, utoa(n))
			}
		}
	}
	return append(its, itoa(p.Left), itoa(p.Right))
}

// ---------------------------------------------------------------------------- the real types

func toTL(t TL) rsvc.FlamebearerTimelineV1 {
	res := rsvc.FlamebearerTimelineV1{StartTime: t.Start, DurationDelta: t.Delta}
	if !t.SamplesN {
		res.Samples = append([]uint64{}, t.Samples...)
	}
	if !t.MarksN {
		res.Watermarks = map[int]int64{}
		for _, kv := range t.Marks {
			res.Watermarks[int(kv[0])] = kv[1]
		}
	}
	return res
}
func toProfile(p *Prof) rsvc.FlamebearerProfileV1 {
	res := rsvc.FlamebearerProfileV1{
		Metadata: rsvc.FlamebearerMetadataV1{Format: hx.UnHex(p.Format), SpyName: hx.UnHex(p.Spy), SampleRate: p.Rate,
			Units: hx.UnHex(p.Units), Name: hx.UnHex(p.Name)},
		LeftTicks: p.Left, RightTicks: p.Right}
	if p.FB != nil {
		fb := &rsvc.FlamebearerV1{NumTicks: int(p.FB.Ticks), MaxSelf: int(p.FB.MaxSelf)}
		if !p.FB.NamesN {
			fb.Names = []string{}
			for _, n := range p.FB.Names {
				fb.Names = append(fb.Names, hx.UnHex(n))
			}
		}
		if !p.FB.Levels.Nil {
			fb.Levels = [][]int64{}
			for i, row := range p.FB.Levels.Rows {
				if p.FB.Levels.RowN[i] {
					fb.Levels = append(fb.Levels, nil)
				} else {
					fb.Levels = append(fb.Levels, append([]int64{}, row...))
				}
			}
		}
		res.Flamebearer = fb
	}
	if p.TL != nil {
		t := toTL(*p.TL)
		res.Timeline = &t
	}
	if !p.GroupsN {
		res.Groups = map[string]rsvc.FlamebearerTimelineV1{}
		for _, g := range p.Groups {
			res.Groups[hx.UnHex(g.Key)] = toTL(g.TL)
		}
	}
	if p.HM != nil {
		h := &rsvc.Heatmap{TimeBuckets: int64(p.HM.Nums[0]), ValueBuckets: int64(p.HM.Nums[1]), StartTime: int64(p.HM.Nums[2]),
			EndTime: int64(p.HM.Nums[3]), MinValue: p.HM.Nums[4], MaxValue: p.HM.Nums[5], MinDepth: p.HM.Nums[6], MaxDepth: p.HM.Nums[7]}
		if !p.HM.Values.Nil {
			h.Values = [][]uint64{}
			for i, row := range p.HM.Values.Rows {
				if p.HM.Values.RowN[i] {
					h.Values = append(h.Values, nil)
					continue
				}
				u := make([]uint64, len(row))
				for j, v := range row {
					u[j] = uint64(v)
				}
				h.Values = append(h.Values, u)
			}
		}
		res.Heatmap = h
	}
	return res
}

// the value the service returned, as a Prof (model input of kind pyrodiff)
func fromFlamebearer(f *rsvc.Flamebearer) *Prof {
	v := f.FlamebearerProfileV1
	p := &Prof{Format: hx.Hex(v.Metadata.Format), Spy: hx.Hex(v.Metadata.SpyName), Rate: v.Metadata.SampleRate, Units: hx.Hex(v.Metadata.Units),
		Name: hx.Hex(v.Metadata.Name), Left: v.LeftTicks, Right: v.RightTicks, GroupsN: v.Groups == nil}
	if v.Flamebearer != nil {
		fb := &FB{NamesN: v.Flamebearer.Names == nil, Ticks: int64(v.Flamebearer.NumTicks), MaxSelf: int64(v.Flamebearer.MaxSelf)}
		for _, n := range v.Flamebearer.Names {
			fb.Names = append(fb.Names, hx.Hex(n))
		}
		fb.Levels.Nil = v.Flamebearer.Levels == nil
		for _, l := range v.Flamebearer.Levels {
			fb.Levels.Rows = append(fb.Levels.Rows, l)
			fb.Levels.RowN = append(fb.Levels.RowN, l == nil)
		}
		p.FB = fb
	}
	if v.Timeline != nil || v.Heatmap != nil || len(v.Groups) > 0 {
		panic("the service filled timeline / groups / heatmap: extend fromFlamebearer")
	}
	return p
}

// ---------------------------------------------------------------------------- running

func jsonReq(body string) *http.Request {
	r := httptest.NewRequest("POST", "/querier.v1.QuerierService/X", bytes.NewReader([]byte(body)))
	r.Header.Set("Content-Type", "application/json")
	return r
}
func observe(c *Case, f func(w http.ResponseWriter)) {
	w := httptest.NewRecorder()
	c.Panic = hx.Catch(func() { f(w) })
	c.Status = w.Code
	c.Out = hx.Hex(w.Body.String())
	c.CT = w.Result().Header.Get("Content-Type") // the header map as it was when the status line was written
	c.Valid = json.Valid(w.Body.Bytes())
}
func strRows(xs []string) func(string) (int, [][]driver.Value) {
	return func(string) (int, [][]driver.Value) {
		var r [][]driver.Value
		for _, x := range xs {
			r = append(r, []driver.Value{hx.UnHex(x)})
		}
		return 1, r
	}
}
func anyPairs(ps [][2]string) [][]any {
	res := [][]any{}
	for _, p := range ps {
		res = append(res, []any{hx.UnHex(p[0]), hx.UnHex(p[1])})
	}
	return res
}
func treeAnswer(t *Tree) []driver.Value {
	tree := [][]any{}
	for _, n := range t.Nodes {
		tree = append(tree, []any{n.P, n.F, n.I, n.S, n.T})
	}
	fs := [][]any{}
	for _, f := range t.Funcs {
		fs = append(fs, []any{f.ID, hx.UnHex(f.Name)})
	}
	return []driver.Value{tree, fs}
}

const okType = "process_cpu:cpu:nanoseconds:cpu:nanoseconds"

func diffParams(typeID string) url.Values {
	return url.Values{"leftQuery": {typeID + "{}"}, "rightQuery": {typeID + "{}"},
		"leftFrom": {"0"}, "leftUntil": {"1000"}, "rightFrom": {"1000"}, "rightUntil": {"2000"}}
}
func diffAnswer(c *Case) func(string) (int, [][]driver.Value) {
	return func(q string) (int, [][]driver.Value) {
		t := c.In.Left
		if strings.Contains(q, "(timestamp_ns) >= (1000000000)") {
			t = c.In.Right
		}
		if t == nil {
			return 2, nil
		}
		return 2, [][]driver.Value{treeAnswer(t)}
	}
}
func setErr(c *Case, msg string) {
	c.Items = []string{hx.Hex(msg)}
}

func run(c *Case) {
	defer func() { answer = nil }()
	switch c.Kind {
	case "pyronames":
		answer = strRows(c.In.Names)
		c.Items = c.In.Names
		observe(c, func(w http.ResponseWriter) { pc.LabelNames(w, jsonReq(`{"start":1,"end":2000}`)) })
	case "pyrovalues":
		answer = strRows(c.In.Names)
		c.Items = c.In.Names
		observe(c, func(w http.ResponseWriter) { pc.LabelValues(w, jsonReq(`{"name":"x","start":1,"end":2000}`)) })
	case "pyroseries":
		answer = func(string) (int, [][]driver.Value) {
			var rows [][]driver.Value
			for _, x := range c.In.SRows {
				rows = append(rows, []driver.Value{anyPairs(x.Tags), hx.UnHex(x.Tp) + ":" + hx.UnHex(x.Pt) + ":" + hx.UnHex(x.Pu),
					[]any{hx.UnHex(x.St), hx.UnHex(x.Su)}})
			}
			return 3, rows
		}
		c.Items = srowItems(c.In.SRows)
		observe(c, func(w http.ResponseWriter) { pc.Series(w, jsonReq(`{"start":1,"end":2000}`)) })
	case "pyrotypes":
		answer = func(string) (int, [][]driver.Value) {
			var rows [][]driver.Value
			for _, x := range c.In.SRows {
				rows = append(rows, []driver.Value{hx.UnHex(x.Tp) + ":" + hx.UnHex(x.Pt) + ":" + hx.UnHex(x.Pu), []any{hx.UnHex(x.St), hx.UnHex(x.Su)}})
			}
			return 2, rows
		}
		rows := make([]SRow, len(c.In.SRows))
		for i, x := range c.In.SRows {
			x.Tags = nil
			rows[i] = x
		}
		c.Items = srowItems(rows)
		observe(c, func(w http.ResponseWriter) { pc.ProfileTypes(w, jsonReq(`{"start":1,"end":2000}`)) })
	case "pyroselect":
		answer = func(string) (int, [][]driver.Value) {
			var rows [][]driver.Value
			for _, x := range c.In.PRows {
				rows = append(rows, []driver.Value{x.Ts, x.Fp, anyPairs(x.Labels), math.Float64frombits(x.Bits)})
			}
			return 4, rows
		}
		c.Items = prowItems(c.In.PRows)
		observe(c, func(w http.ResponseWriter) {
			pc.SelectSeries(w, jsonReq(`{"profile_typeID":"`+okType+`","label_selector":"{}","step":15,"start":1,"end":2000}`))
		})
	case "pyrofb":
		v := toProfile(c.In.Prof)
		c.Items = profItems(c.In.Prof)
		observe(c, func(w http.ResponseWriter) {
			// the two statements that end ProfController.RenderDiff, on a value of the real type
			w.Header().Set("Content-Type", "application/json")
			json.NewEncoder(w).Encode(v)
		})
	case "pyrodiff":
		typeID := hx.UnHex(c.In.TypeID)
		answer = diffAnswer(c)
		p := diffParams(typeID)
		fb, err := svc.RenderDiff(context.Background(), p.Get("leftQuery"), p.Get("rightQuery"), time.UnixMilli(0), time.UnixMilli(1000),
			time.UnixMilli(1000), time.UnixMilli(2000))
		if err != nil {
			c.Kind = "pyroerr" // e.g. "left tree is not positive": the handler answers through defaultError
			c.Note = "pyrodiff"
			setErr(c, err.Error())
		} else {
			c.Items = profItems(fromFlamebearer(fb))
		}
		observe(c, func(w http.ResponseWriter) {
			pc.RenderDiff(w, httptest.NewRequest("GET", "/pyroscope/render-diff?"+p.Encode(), nil))
		})
	case "pyroerr":
		runErr(c)
	default:
		panic("unknown kind " + c.Kind)
	}
}

// requests answered through defaultError; the expected text is computed apart from the handler
func runErr(c *Case) {
	q := c.In.Req
	get := func(k string) (string, bool) {
		v, ok := q.Params[k]
		if !ok {
			return "", false
		}
		return hx.UnHex(v), true
	}
	switch q.Handler {
	case "renderdiff":
		vals := url.Values{}
		for k := range q.Params {
			v, _ := get(k)
			vals[k] = []string{v}
		}
		answer = func(string) (int, [][]driver.Value) { return 2, nil }
		msg := ""
		for _, p := range []string{"leftQuery", "leftFrom", "leftUntil", "rightQuery", "rightFrom", "rightUntil"} {
			if v, ok := get(p); !ok || v == "" {
				msg = "Missing required parameter: " + p
				break
			}
		}
		if msg == "" {
			for _, p := range []string{"leftFrom", "leftUntil", "rightFrom", "rightUntil"} {
				v, _ := get(p)
				if _, err := strconv.ParseInt(v, 10, 64); err != nil {
					msg = "Invalid value for " + p + ": " + html.EscapeString(v)
					break
				}
			}
		}
		if msg == "" {
			l, _ := get("leftQuery")
			r, _ := get("rightQuery")
			_, err := svc.RenderDiff(context.Background(), l, r, time.UnixMilli(0), time.UnixMilli(0), time.UnixMilli(0), time.UnixMilli(0))
			if err != nil {
				msg = err.Error()
			} else {
				c.Note = "no error"
			}
		}
		setErr(c, msg)
		observe(c, func(w http.ResponseWriter) {
			pc.RenderDiff(w, httptest.NewRequest("GET", "/pyroscope/render-diff?"+vals.Encode(), nil))
		})
	case "labelvalues":
		body := hx.UnHex(q.Body)
		var req v1.LabelValuesRequest
		msg := ""
		if err := json.Unmarshal([]byte(body), &req); err != nil {
			msg = err.Error()
		} else if _, err := svc.LabelValues(context.Background(), req.Matchers, req.Name, time.UnixMilli(req.Start), time.UnixMilli(req.End)); err != nil {
			msg = err.Error()
		} else {
			c.Note = "no error"
		}
		setErr(c, msg)
		observe(c, func(w http.ResponseWriter) { pc.LabelValues(w, jsonReq(body)) })
	default:
		panic("unknown handler " + q.Handler)
	}
}

// ---------------------------------------------------------------------------- classes

func classOf(strs []string) string {
	if len(strs) == 0 {
		return "no strings"
	}
	bad, ctrl, sep, htmlc, quote, multi, del, empty := false, false, false, false, false, false, false, false
	for _, h := range strs {
		s := hx.UnHex(h)
		if s == "" {
			empty = true
		}
		if !utf8.ValidString(s) {
			bad = true
		}
		for _, r := range s {
			switch {
			case r < 0x20:
				ctrl = true
			case r == 0x7f:
				del = true
			case r == 0x2028 || r == 0x2029:
				sep = true
			case r == '<' || r == '>' || r == '&':
				htmlc = true
			case r == '"' || r == '\\':
				quote = true
			case r >= 0x80 && r != utf8.RuneError:
				multi = true
			}
		}
	}
	switch {
	case bad:
		return "invalid UTF-8"
	case ctrl:
		return "control bytes"
	case sep:
		return "U+2028/9"
	case htmlc:
		return "HTML characters"
	case quote:
		return "quotes, backslashes"
	case del:
		return "DEL"
	case multi:
		return "multi-byte UTF-8"
	case empty:
		return "empty strings"
	}
	return "printable"
}
func caseStrings(c *Case) []string {
	var res []string
	res = append(res, c.In.Names...)
	for _, x := range c.In.SRows {
		res = append(res, x.Tp, x.Pt, x.Pu, x.St, x.Su)
		for _, p := range x.Tags {
			res = append(res, p[0], p[1])
		}
	}
	for _, x := range c.In.PRows {
		for _, p := range x.Labels {
			res = append(res, p[0], p[1])
		}
	}
	if p := c.In.Prof; p != nil {
		res = append(res, p.Format, p.Spy, p.Units, p.Name)
		if p.FB != nil {
			res = append(res, p.FB.Names...)
		}
		for _, g := range p.Groups {
			res = append(res, g.Key)
		}
	}
	for _, t := range []*Tree{c.In.Left, c.In.Right} {
		if t != nil {
			for _, f := range t.Funcs {
				res = append(res, f.Name)
			}
		}
	}
	if q := c.In.Req; q != nil {
		for _, v := range q.Params {
			res = append(res, v)
		}
		res = append(res, q.Body)
	}
	return res
}

func genErrReq(r *rand.Rand) *Req {
	echo := func() string {
		s := genStr(r)
		for s == "" || strings.Contains(s, "{") {
			s = genStr(r) + "x"
			s = strings.ReplaceAll(s, "{", "(")
		}
		return s
	}
	if r.Intn(5) == 0 {
		switch r.Intn(3) {
		case 0: // a matcher the parser refuses
			b, _ := json.Marshal(map[string]any{"name": "x", "matchers": []string{"{a=\"b\"} !" + strings.ToValidUTF8(echo(), "?")}})
			return &Req{Handler: "labelvalues", Body: hx.Hex(string(b))}
		case 1: // a body that is not JSON
			return &Req{Handler: "labelvalues", Body: hx.Hex(echo())}
		default: // a member of the wrong type
			return &Req{Handler: "labelvalues", Body: hx.Hex(`{"name":7}`)}
		}
	}
	p := map[string]string{}
	for k, v := range diffParams(okType) {
		p[k] = hx.Hex(v[0])
	}
	switch r.Intn(6) {
	case 0, 1: // no "{": detachTypeId echoes the query
		p[[]string{"leftQuery", "rightQuery"}[r.Intn(2)]] = hx.Hex(echo())
	case 2: // time parameters are echoed after html.EscapeString
		p[[]string{"leftFrom", "leftUntil", "rightFrom", "rightUntil"}[r.Intn(4)]] = hx.Hex(echo())
	case 3:
		delete(p, []string{"leftQuery", "leftFrom", "leftUntil", "rightQuery", "rightFrom", "rightUntil"}[r.Intn(6)])
	case 4: // a type id that does not have five parts, or two different ones
		p["leftQuery"] = hx.Hex(strings.ReplaceAll(echo(), ":", ";") + "{}")
	default: // a selector the parser refuses
		p["leftQuery"] = hx.Hex(okType + "{a=\"b\"} !" + echo())
	}
	return &Req{Handler: "renderdiff", Params: p}
}

func genCase(r *rand.Rand, id int, kind string) Case {
	c := Case{ID: id, Kind: kind}
	bad := r.Intn(5) == 0 // one case in five may hold ill-formed UTF-8 (answered with status 500 by the protojson endpoints)
	switch kind {
	case "pyronames", "pyrovalues":
		c.In.Names = genStrs(r, bad)
	case "pyroseries", "pyrotypes":
		for k := r.Intn(4); k > 0; k-- {
			c.In.SRows = append(c.In.SRows, genSRow(r, bad))
		}
	case "pyroselect":
		c.In.PRows = genPRows(r, bad)
	case "pyrofb":
		c.In.Prof = genProf(r)
	case "pyrodiff":
		names := []string{hx.Hex(genStr(r)), hx.Hex(genStr(r)), hx.Hex("main")}
		c.In.Left, c.In.Right = genTree(r, names), genTree(r, names)
		if r.Intn(10) == 0 {
			c.In.Left = nil
		}
		if r.Intn(12) == 0 && len(c.In.Right.Nodes) > 0 {
			c.In.Right.Nodes[0].S = -1 // "right tree is not positive"
		}
		c.In.TypeID = hx.Hex([]string{okType, "memory:inuse_objects:count:space:bytes", "a:" + noColon(genStr(r)) + ":" + noColon(genStr(r)) + ":d:e"}[r.Intn(3)])
	case "pyroerr":
		c.In.Req = genErrReq(r)
	}
	return c
}

func main() {
	f := hx.ParseFlags()
	out := hx.OpenOut(f.Out)
	defer out.Close()
	if f.Out != "-" && f.Out != "" {
		// ProfService.queryCols prints every statement on the standard output
		if dn, err := os.OpenFile(os.DevNull, os.O_WRONLY, 0); err == nil {
			os.Stdout = dn
		}
	}
	setup()
	coin := 0
	if b, err := (protojson.MarshalOptions{}).Marshal(&v1.LabelValuesResponse{Names: []string{"a", "b"}}); err == nil && bytes.Contains(b, []byte(", ")) {
		coin = 1
	}
	finish := func(c *Case) {
		c.Coin = coin
		run(c)
		if c.Class == "witness" {
			c.Class = "witness " + c.Kind + ": " + classOf(caseStrings(c))
		} else {
			c.Class = c.Kind + ": " + classOf(caseStrings(c))
		}
		out.Put(c)
	}
	if f.Cases != "" {
		hx.ReadLines(f.Cases, func(b []byte) {
			var c Case
			if err := json.Unmarshal(b, &c); err != nil {
				panic(err)
			}
			if c.Note == "pyrodiff" {
				c.Kind = "pyrodiff"
			}
			c.Note, c.Items = "", nil
			finish(&c)
		})
		return
	}
	r := hx.Rand(f.Seed)
	mix := []string{"pyronames", "pyrovalues", "pyroseries", "pyrofb", "pyroselect", "pyrodiff", "pyroerr", "pyrotypes", "pyrofb", "pyrovalues",
		"pyroseries", "pyrodiff", "pyronames", "pyroselect", "pyroerr", "pyrofb"}
	for i := 0; i < f.N; i++ {
		c := genCase(r, i, mix[i%len(mix)])
		finish(&c)
	}
	for _, c := range witnesses(f.N) {
		finish(&c)
	}
}

// fixed cases run after the generated ones on every run: the inputs of the two defects of this slice
func witnesses(base int) []Case {
	p := func(over map[string]string) *Req {
		m := map[string]string{}
		for k, v := range diffParams(okType) {
			m[k] = hx.Hex(v[0])
		}
		for k, v := range over {
			m[k] = hx.Hex(v)
		}
		return &Req{Handler: "renderdiff", Params: m}
	}
	cs := []Case{
		{Kind: "pyroerr", In: In{Req: p(map[string]string{"leftQuery": "\x01\a\v \U000e0001 \xff"})}},
		{Kind: "pyroerr", In: In{Req: p(map[string]string{"rightUntil": "\x01x"})}},
		{Kind: "pyroerr", In: In{Req: p(map[string]string{"leftQuery": "cpu"})}},
		{Kind: "pyrovalues", In: In{Names: []string{hx.Hex("a"), hx.Hex("b\xff")}}},
		{Kind: "pyroseries", In: In{SRows: []SRow{{Tp: hx.Hex("cpu"), Pt: hx.Hex("pt"), Pu: hx.Hex("ns"), St: hx.Hex("st"), Su: hx.Hex("su"),
			Tags: [][2]string{{hx.Hex("k"), hx.Hex("\xc3")}}}}}},
		{Kind: "pyronames", In: In{}},
	}
	for i := range cs {
		cs[i].ID = base + i
		cs[i].Class = "witness"
	}
	return cs
}
