// metricpost: the Go post-processors of LogQL matrix results, FixPeriodPlanner (planner_from_fix.go) and
// ZeroEaterPlanner (planner_zero_eater.go), run for real over scripted batches of entries (a fake upstream
// RequestProcessor feeds them); the output batches are compared with model/LogqlMetricSem.v fix_period / zero_eater.
// Values are multiples of 1/4 (exact in float64 and in the model's rationals).
package main

import (
	"encoding/json"
	"math/rand"
	"time"

	logql_transpiler_v2 "github.com/metrico/qryn/reader/logql/logql_transpiler_v2"
	"github.com/metrico/qryn/reader/logql/logql_transpiler_v2/internal_planner"
	"github.com/metrico/qryn/reader/logql/logql_transpiler_v2/shared"
	"verif/harness/hx"
)

type Ent struct {
	Ts  int64  `json:"ts"`
	Fp  uint64 `json:"fp"`
	Val int64  `json:"v"` // quarters
}

type Case struct {
	ID     int     `json:"id"`
	Zero   bool    `json:"zero"` // ZeroEaterPlanner, else FixPeriodPlanner
	FromNs int64   `json:"from_ns"`
	ToNs   int64   `json:"to_ns"`
	StepNs int64   `json:"step_ns"`
	DurNs  int64   `json:"dur_ns"`
	In     [][]Ent `json:"in"`
	Out    [][]Ent `json:"out"`
	// the window FixPeriodPlanner hands to its Main (ctx.From / ctx.To after Truncate)
	SQLFrom int64    `json:"sql_from_ns"`
	SQLTo   int64    `json:"sql_to_ns"`
	Err     string   `json:"err,omitempty"`
	Class   []string `json:"class"`
}

type fakeMain struct {
	batches [][]Ent
	c       *Case
}

func (f *fakeMain) IsMatrix() bool { return true }
func (f *fakeMain) Process(ctx *shared.PlannerContext, in chan []shared.LogEntry) (chan []shared.LogEntry, error) {
	f.c.SQLFrom, f.c.SQLTo = ctx.From.UnixNano(), ctx.To.UnixNano()
	out := make(chan []shared.LogEntry)
	go func() {
		defer close(out)
		for _, b := range f.batches {
			es := make([]shared.LogEntry, len(b))
			for i, e := range b {
				es[i] = shared.LogEntry{TimestampNS: e.Ts, Fingerprint: e.Fp, Value: float64(e.Val) / 4,
					Labels: map[string]string{"fp": "x"}}
			}
			out <- es
		}
	}()
	return out, nil
}

func run(c *Case) {
	c.Out, c.Err = nil, ""
	ctx := &shared.PlannerContext{From: time.Unix(0, c.FromNs), To: time.Unix(0, c.ToNs), Step: time.Duration(c.StepNs)}
	var proc shared.RequestProcessor
	fm := &fakeMain{batches: c.In, c: c}
	if c.Zero {
		proc = &logql_transpiler_v2.ZeroEaterPlanner{GenericPlanner: internal_planner.GenericPlanner{Main: fm}}
	} else {
		proc = &logql_transpiler_v2.FixPeriodPlanner{Main: fm, Duration: time.Duration(c.DurNs)}
	}
	p := hx.Catch(func() {
		ch, err := proc.Process(ctx, nil)
		if err != nil {
			c.Err = "error: " + err.Error()
			return
		}
		for b := range ch {
			var es []Ent
			for _, e := range b {
				if e.Err != nil {
					c.Err = "entry error: " + e.Err.Error()
					continue
				}
				q := e.Value * 4
				if q != float64(int64(q)) {
					c.Err = "value is not a multiple of 1/4"
				}
				es = append(es, Ent{Ts: e.TimestampNS, Fp: e.Fingerprint, Val: int64(q)})
			}
			c.Out = append(c.Out, es)
		}
	})
	if p != "" {
		c.Err = "panic: " + p
	}
}

var sec = int64(1e9)

func gen(r *rand.Rand, id int) Case {
	durs := []int64{1, 5, 15, 60, 300, 7, 90}
	steps := []int64{1, 5, 15, 60, 300, 2, 45}
	c := Case{ID: id, Zero: r.Intn(5) == 0}
	d := durs[r.Intn(len(durs))] * sec
	st := steps[r.Intn(len(steps))] * sec
	if r.Intn(12) == 0 {
		st = []int64{500e6, 1500e6}[r.Intn(2)]
	}
	from := int64(1700000000)*sec + int64(r.Intn(100000))*sec
	if r.Intn(3) == 0 {
		from += int64(r.Intn(1e9))
	}
	if r.Intn(3) == 0 {
		from = from / (60 * sec) * (60 * sec)
	}
	span := int64(1+r.Intn(10)) * st
	if r.Intn(10) == 0 {
		span = int64(1+r.Intn(40)) * st
	}
	if r.Intn(5) == 0 {
		span = int64(1+r.Intn(600)) * sec
	}
	c.FromNs, c.ToNs, c.StepNs, c.DurNs = from, from+span, st, d
	if d < st {
		c.Class = append(c.Class, "step>range")
	} else if d == st {
		c.Class = append(c.Class, "step=range")
	} else {
		c.Class = append(c.Class, "step<range")
	}
	// rows as the SQL delivers them: ordered by fingerprint, timestamp; timestamps are window starts (multiples of
	// the range, or of the step when the step is longer), inside and slightly outside [from, to]
	nser := 1 + r.Intn(3)
	fps := []uint64{0, 1, 7, 7, 42, 1 << 63}
	var all []Ent
	fp0 := r.Intn(3)
	// the theorems hold for EVERY row stream: in half of the cases the series come in an arbitrary order of
	// fingerprints (fingerprint 0 after another series, a fingerprint that comes back as a later run)
	anyOrder := r.Intn(2) == 0
	if anyOrder {
		nser = 1 + r.Intn(4)
	}
	seen := map[uint64]bool{}
	var prev uint64
	for s := 0; s < nser; s++ {
		fp := fps[(fp0+s)%len(fps)]
		if anyOrder {
			fp = fps[r.Intn(len(fps))]
		}
		if s > 0 && fp == 0 && prev != 0 {
			c.Class = append(c.Class, "fp0-not-first")
		}
		if s > 0 && fp != prev && seen[fp] {
			c.Class = append(c.Class, "fp-recurs")
		}
		seen[fp], prev = true, fp
		unit := d
		if st > d {
			unit = st
		}
		lo := from/unit - 2
		n := span/unit + 5
		if n > 30 {
			lo += int64(r.Intn(int(n - 30)))
			n = 30
		}
		for k := int64(0); k < n; k++ {
			if r.Intn(3) == 0 {
				continue
			}
			v := int64(r.Intn(40))
			if r.Intn(4) == 0 {
				v = 0
			}
			if r.Intn(10) == 0 {
				v = -v
			}
			ts := (lo + k) * unit
			if r.Intn(15) == 0 {
				ts += int64(r.Intn(int(unit))) // not a window start
			}
			all = append(all, Ent{Ts: ts, Fp: fp, Val: v})
		}
	}
	if len(all) == 0 {
		c.Class = append(c.Class, "empty")
	}
	// split into batches
	for len(all) > 0 {
		k := 1 + r.Intn(6)
		if k > len(all) {
			k = len(all)
		}
		c.In = append(c.In, all[:k])
		all = all[k:]
	}
	if r.Intn(10) == 0 {
		c.In = append(c.In, []Ent{})
	}
	if c.Zero {
		c.Class = append(c.Class, "zeroeater")
	}
	return c
}

func main() {
	f := hx.ParseFlags()
	out := hx.OpenOut(f.Out)
	defer out.Close()
	if f.Cases != "" {
		hx.ReadLines(f.Cases, func(b []byte) {
			var c Case
			if err := json.Unmarshal(b, &c); err != nil {
				panic(err)
			}
			run(&c)
			out.Put(c)
		})
		return
	}
	r := hx.Rand(f.Seed)
	for i := 0; i < f.N; i++ {
		c := gen(r, i)
		run(&c)
		out.Put(c)
	}
}
