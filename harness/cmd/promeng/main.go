// promeng: PromQL range queries evaluated by the real Prometheus engine (configured as in
// reader/router/prometheusQueryRangeRouter.go) over the real storage adapter CLokiQueriable, whose SQL
// statements are answered by a scripted database/sql driver, and over an in-memory reference storage
// holding the same samples ("what Prometheus returns for the same samples").
//
// Two phases (the reference interpreter of coq/model/PromSem.v runs between them, in the check):
//
//	A  (no answers in the case)  the engine runs over the adapter with a recording driver that returns
//	   no rows: the case leaves with the SQL statements Select sent;
//	B  (answers present)         the driver answers every main statement with the rows the interpreter
//	   computed for its text, the labels request from the case's series; the result matrix is compared
//	   with the engine's result over the reference storage.
package main

import (
	"context"
	"database/sql"
	"database/sql/driver"
	"encoding/json"
	"errors"
	"fmt"
	"io"
	"math"
	"math/rand"
	"regexp"
	"sort"
	"strconv"
	"strings"
	"sync"
	"time"

	clconfig "github.com/metrico/cloki-config/config"
	"github.com/metrico/qryn/reader/model"
	"github.com/metrico/qryn/reader/service"
	"github.com/prometheus/prometheus/model/labels"
	"github.com/prometheus/prometheus/promql"
	"github.com/prometheus/prometheus/promql/parser"
	"github.com/prometheus/prometheus/storage"
	"github.com/prometheus/prometheus/tsdb/tsdbutil"
	"verif/harness/hx"
)

type DBSeries struct {
	Fp     uint64      `json:"fp"`
	Type   int64       `json:"type"`
	Labels [][2]string `json:"labels"`
	Days   []int64     `json:"days"`
}
type DBSample struct {
	Fp    uint64 `json:"fp"`
	Type  int64  `json:"type"`
	TsNs  int64  `json:"ts_ns"`
	Value int64  `json:"value"`
}
type DB struct {
	Series  []DBSeries `json:"series"`
	Samples []DBSample `json:"samples"`
}
type Row struct {
	Fp  uint64 `json:"fp"`
	Val int64  `json:"val"`
	Ts  int64  `json:"ts"`
}
type ReEntry struct {
	P      string `json:"p"`
	V      string `json:"v"`
	Search bool   `json:"search"`
}
type OutPoint struct {
	T int64  `json:"t"`
	V string `json:"v"` // strconv 'g' -1: exact
}
type OutSeries struct {
	Labels [][2]string `json:"labels"`
	Points []OutPoint  `json:"points"`
}
type Matcher struct {
	Name string `json:"n"`
	Op   string `json:"op"`
	Val  string `json:"v"`
}
type Case struct {
	ID      int      `json:"id"`
	Kind    string   `json:"kind"` // "engine"
	Class   []string `json:"class"`
	Expr    string   `json:"expr"`
	StartMs int64    `json:"start_ms"`
	EndMs   int64    `json:"end_ms"`
	StepMs  int64    `json:"step_ms"`
	DB      *DB      `json:"db"`
	// phase A output
	SQLs     []string    `json:"sqls,omitempty"`
	Oracle   []ReEntry   `json:"oracle,omitempty"`
	Matchers [][]Matcher `json:"matchers,omitempty"` // of every vector selector of the expression
	SelFps   [][]uint64  `json:"sel_fps,omitempty"`  // per selector: the stored metric series whose labels satisfy every matcher (labels.Matcher.Matches, absent label = "")
	// phase B input / output
	Answers   map[string][]Row `json:"answers,omitempty"`
	Got       []OutSeries      `json:"got,omitempty"`
	Want      []OutSeries      `json:"want,omitempty"`
	GotErr    string           `json:"got_err,omitempty"`
	WantErr   string           `json:"want_err,omitempty"`
	Equal     bool             `json:"equal"`
	Unanswerd []string         `json:"unanswered,omitempty"`
	Err       string           `json:"err,omitempty"`
}

// ---------------------------------------------------------------- scripted driver

type script struct {
	c          *Case
	mainSQL    []string
	unanswered []string
}

var (
	cur    *script
	curMtx sync.Mutex
)

type drv struct{}
type conn struct{}
type rowsT struct {
	cols int
	rows [][]driver.Value
	i    int
}

func (drv) Open(string) (driver.Conn, error)              { return &conn{}, nil }
func (*conn) Prepare(string) (driver.Stmt, error)         { return nil, errors.New("no prepare") }
func (*conn) Close() error                                { return nil }
func (*conn) Begin() (driver.Tx, error)                   { return nil, errors.New("no tx") }
func (*conn) CheckNamedValue(*driver.NamedValue) error    { return nil }
func (r *rowsT) Close() error                             { return nil }
func (r *rowsT) Columns() []string                        { return make([]string, r.cols) }
func (*conn) ExecContext(ctx context.Context, q string, args []driver.NamedValue) (driver.Result, error) {
	return driver.RowsAffected(0), nil
}
func (r *rowsT) Next(dest []driver.Value) error {
	if r.i >= len(r.rows) {
		return io.EOF
	}
	copy(dest, r.rows[r.i])
	r.i++
	return nil
}

var inList = regexp.MustCompile(`\(fingerprint IN \(([0-9,]*)\)\)`)
var reDates = regexp.MustCompile(`\(\(date\) >= \('(\d{4}-\d{2}-\d{2})'\)\) and \(\(date\) <= \('(\d{4}-\d{2}-\d{2})'\)\)`)

func (*conn) QueryContext(ctx context.Context, q string, args []driver.NamedValue) (driver.Rows, error) {
	curMtx.Lock()
	defer curMtx.Unlock()
	if strings.Contains(q, "type='update'") {
		return &rowsT{cols: 2}, nil
	}
	if strings.Contains(q, "SHOW TABLES") {
		return &rowsT{cols: 1}, nil
	}
	if cur == nil {
		return &rowsT{cols: 1}, nil
	}
	if strings.Contains(q, "JSONExtractKeysAndValues(labels") {
		// the labels request, answered from the case's series: one row per stored day between the two date
		// bounds of THIS statement (the reading fetch_rows of coq/model/PromSem.v)
		d1, d2 := int64(-1<<40), int64(1<<40)
		if m := reDates.FindStringSubmatch(q); m != nil {
			if t, err := time.Parse("2006-01-02", m[1]); err == nil {
				d1 = t.Unix() / 86400
			}
			if t, err := time.Parse("2006-01-02", m[2]); err == nil {
				d2 = t.Unix() / 86400
			}
		}
		want := map[uint64]bool{}
		if m := inList.FindStringSubmatch(q); m != nil {
			for _, x := range strings.Split(m[1], ",") {
				if v, err := strconv.ParseUint(x, 10, 64); err == nil {
					want[v] = true
				}
			}
		}
		var rows [][]driver.Value
		for _, s := range cur.c.DB.Series {
			if !want[s.Fp] {
				continue
			}
			for _, d := range s.Days {
				if d < d1 || d > d2 {
					continue
				}
				var l [][]interface{}
				for _, kv := range s.Labels {
					l = append(l, []interface{}{kv[0], kv[1]})
				}
				rows = append(rows, []driver.Value{s.Fp, l})
			}
		}
		return &rowsT{cols: 2, rows: rows}, nil
	}
	cur.mainSQL = append(cur.mainSQL, q)
	if cur.c.Answers == nil {
		return &rowsT{cols: 3}, nil
	}
	ans, ok := cur.c.Answers[q]
	if !ok {
		cur.unanswered = append(cur.unanswered, q)
		return &rowsT{cols: 3}, nil
	}
	var rows [][]driver.Value
	for _, r := range ans {
		rows = append(rows, []driver.Value{r.Fp, float64(r.Val), r.Ts})
	}
	return &rowsT{cols: 3, rows: rows}, nil
}

type fakeDB struct{ db *sql.DB }

func (f *fakeDB) GetName() string { return "verif" }
func (f *fakeDB) QueryCtx(ctx context.Context, query string, args ...any) (*sql.Rows, error) {
	return f.db.QueryContext(ctx, query, args...)
}
func (f *fakeDB) ExecCtx(ctx context.Context, query string, args ...any) error { return nil }
func (f *fakeDB) Conn(ctx context.Context) (*sql.Conn, error)                  { return f.db.Conn(ctx) }
func (f *fakeDB) Begin() (*sql.Tx, error)                                      { return f.db.Begin() }
func (f *fakeDB) Close()                                                       {}

type fakeRegistry struct{ m *model.DataDatabasesMap }

func (r *fakeRegistry) GetDB(ctx context.Context) (*model.DataDatabasesMap, error) { return r.m, nil }
func (r *fakeRegistry) Run()                                                        {}
func (r *fakeRegistry) Stop()                                                       {}
func (r *fakeRegistry) Ping() error                                                 { return nil }

var theDB *sql.DB

func registry() *fakeRegistry {
	if theDB == nil {
		sql.Register("verifpromeng", drv{})
		db, err := sql.Open("verifpromeng", "")
		if err != nil {
			panic(err)
		}
		db.SetMaxOpenConns(64)
		theDB = db
	}
	return &fakeRegistry{m: &model.DataDatabasesMap{Config: &clconfig.ClokiBaseDataBase{Name: "qryn", Node: "n1"},
		Session: &fakeDB{db: theDB}}}
}

// ---------------------------------------------------------------- reference storage

type smp struct {
	t int64
	v float64
}

func (s smp) T() int64   { return s.t }
func (s smp) V() float64 { return s.v }

type refQueryable struct{ db *DB }
type refQuerier struct{ db *DB }
type sliceSet struct {
	s []storage.Series
	i int
}

func (s *sliceSet) Next() bool                 { s.i++; return s.i <= len(s.s) }
func (s *sliceSet) At() storage.Series         { return s.s[s.i-1] }
func (s *sliceSet) Err() error                 { return nil }
func (s *sliceSet) Warnings() storage.Warnings { return nil }

func (q *refQueryable) Querier(ctx context.Context, mint, maxt int64) (storage.Querier, error) {
	return &refQuerier{q.db}, nil
}
func (q *refQuerier) LabelValues(string, ...*labels.Matcher) ([]string, storage.Warnings, error) {
	return nil, nil, nil
}
func (q *refQuerier) LabelNames(...*labels.Matcher) ([]string, storage.Warnings, error) {
	return nil, nil, nil
}
func (q *refQuerier) Close() error { return nil }

// every stored metric series whose labels satisfy the matchers (absent label = ""), with all its samples
func (q *refQuerier) Select(sortSeries bool, hints *storage.SelectHints, ms ...*labels.Matcher) storage.SeriesSet {
	var res []storage.Series
	for _, s := range q.db.Series {
		if s.Type != 2 && s.Type != 0 {
			continue
		}
		var ls labels.Labels
		for _, kv := range s.Labels {
			ls = append(ls, labels.Label{Name: kv[0], Value: kv[1]})
		}
		sort.Sort(ls)
		ok := true
		for _, m := range ms {
			if !m.Matches(ls.Get(m.Name)) {
				ok = false
			}
		}
		if !ok {
			continue
		}
		var sm []smp
		for _, x := range q.db.Samples {
			if x.Fp == s.Fp && (x.Type == 2 || x.Type == 0) {
				sm = append(sm, smp{x.TsNs / 1000000, float64(x.Value)})
			}
		}
		sort.SliceStable(sm, func(i, j int) bool { return sm[i].t < sm[j].t })
		var ts []tsdbutil.Sample
		for _, x := range sm {
			ts = append(ts, x)
		}
		res = append(res, storage.NewListSeries(ls, ts))
	}
	sort.Slice(res, func(i, j int) bool { return labels.Compare(res[i].Labels(), res[j].Labels()) < 0 })
	return &sliceSet{s: res}
}

// ---------------------------------------------------------------- engine

var eng = promql.NewEngine(promql.EngineOpts{
	MaxSamples:    50000000,
	Timeout:       30 * time.Second,
	LookbackDelta: 0,
})

func exec(q storage.Queryable, c *Case) ([]OutSeries, string) {
	var out []OutSeries
	var errText string
	p := hx.Catch(func() {
		qry, err := eng.NewRangeQuery(q, nil, c.Expr, time.UnixMilli(c.StartMs), time.UnixMilli(c.EndMs), time.Duration(c.StepMs)*time.Millisecond)
		if err != nil {
			errText = "parse: " + err.Error()
			return
		}
		res := qry.Exec(context.Background())
		defer qry.Close()
		if res.Err != nil {
			errText = res.Err.Error()
			return
		}
		m, err := res.Matrix()
		if err != nil {
			errText = err.Error()
			return
		}
		sort.Sort(m)
		for _, s := range m {
			o := OutSeries{Labels: [][2]string{}}
			for _, l := range s.Metric {
				o.Labels = append(o.Labels, [2]string{l.Name, l.Value})
			}
			for _, pt := range s.Points {
				o.Points = append(o.Points, OutPoint{pt.T, strconv.FormatFloat(pt.V, 'g', -1, 64)})
			}
			out = append(out, o)
		}
	})
	if p != "" {
		errText = "panic: " + p
	}
	return out, errText
}

func run(c *Case) {
	c.SQLs, c.Got, c.Want, c.GotErr, c.WantErr, c.Unanswerd, c.Err = nil, nil, nil, "", "", nil, ""
	expr, err := parser.ParseExpr(c.Expr)
	if err != nil {
		c.Err = "parse: " + err.Error()
		return
	}
	sc := &script{c: c}
	curMtx.Lock()
	cur = sc
	curMtx.Unlock()
	adapter := &service.CLokiQueriable{ServiceData: model.ServiceData{Session: registry()}, Ctx: context.Background()}
	c.Got, c.GotErr = exec(adapter, c)
	curMtx.Lock()
	cur = nil
	curMtx.Unlock()
	c.SQLs = sc.mainSQL
	c.Unanswerd = sc.unanswered
	if c.Answers == nil {
		// phase A: the matchers of the expression and the regex tables the interpreter needs
		c.Got, c.GotErr = nil, ""
		c.Matchers, c.Oracle = nil, nil
		vals := map[string]bool{"": true}
		for _, s := range c.DB.Series {
			for _, kv := range s.Labels {
				vals[kv[1]] = true
			}
		}
		done := map[string]bool{}
		for _, sel := range parser.ExtractSelectors(expr) {
			var ms []Matcher
			for _, m := range sel {
				ms = append(ms, Matcher{m.Name, m.Type.String(), m.Value})
				if (m.Type == labels.MatchRegexp || m.Type == labels.MatchNotRegexp) && !done[m.Value] {
					done[m.Value] = true
					pat := "^(?:" + m.Value + ")$"
					re, err := regexp.Compile(pat)
					// the value as it is, searched: what ClickHouse match() answers should a statement carry it unwrapped
					raw, rerr := regexp.Compile(m.Value)
					for v := range vals {
						e := ReEntry{P: pat, V: v}
						if err == nil {
							e.Search = re.MatchString(v)
						}
						c.Oracle = append(c.Oracle, e)
						if rerr == nil && m.Value != pat {
							c.Oracle = append(c.Oracle, ReEntry{P: m.Value, V: v, Search: raw.MatchString(v)})
						}
					}
				}
			}
			c.Matchers = append(c.Matchers, ms)
			fps := []uint64{}
			for _, s := range c.DB.Series {
				ok := s.Type == 2 || s.Type == 0
				for _, m := range sel {
					v := ""
					for _, kv := range s.Labels {
						if kv[0] == m.Name {
							v = kv[1]
						}
					}
					ok = ok && m.Matches(v)
				}
				if ok {
					fps = append(fps, s.Fp)
				}
			}
			c.SelFps = append(c.SelFps, fps)
		}
		sort.Slice(c.Oracle, func(i, j int) bool { return c.Oracle[i].P+"\x00"+c.Oracle[i].V < c.Oracle[j].P+"\x00"+c.Oracle[j].V })
		return
	}
	c.Want, c.WantErr = exec(&refQueryable{c.DB}, c)
	a, _ := json.Marshal(c.Got)
	b, _ := json.Marshal(c.Want)
	c.Equal = string(a) == string(b) && c.GotErr == c.WantErr && len(c.Unanswerd) == 0
}

// ---------------------------------------------------------------- generator

var pool = [][]string{
	{"__name__", "up", "http_requests_total", "cpu"},
	{"job", "api", "api-gw", "db"},
	{"instance", "h:9090", "h:9091"},
	{"env", "prod", "dev"},
}

func pick(r *rand.Rand, xs []string) string { return xs[r.Intn(len(xs))] }

func genSelector(r *rand.Rand) string {
	name := pool[0][1+r.Intn(3)]
	var ms []string
	n := r.Intn(3)
	for i := 0; i < n; i++ {
		p := pool[1+r.Intn(3)]
		switch r.Intn(7) {
		case 0:
			ms = append(ms, fmt.Sprintf(`%s!="%s"`, p[0], p[1+r.Intn(len(p)-1)]))
		case 1:
			ms = append(ms, fmt.Sprintf(`%s=~"%s"`, p[0], pick(r, []string{"api", "api.*", "pr.d", ".+", "h:909.", "d.*"})))
		case 2:
			ms = append(ms, fmt.Sprintf(`%s!~"%s"`, p[0], pick(r, []string{"api", "dev", "h:9090"})))
		default:
			ms = append(ms, fmt.Sprintf(`%s="%s"`, p[0], p[1+r.Intn(len(p)-1)]))
		}
	}
	if len(ms) == 0 {
		return name
	}
	return name + "{" + strings.Join(ms, ",") + "}"
}

func dur(ms int64) string { return fmt.Sprintf("%dms", ms) }

func genExpr(r *rand.Rand, step int64) (string, []string) {
	sel := genSelector(r)
	rng := []int64{2000, 5000, 10000, 20000, 30000, 60000, 120000}[r.Intn(7)]
	switch r.Intn(12) {
	case 0, 1:
		return sel, []string{"instant-bare"}
	case 2:
		return pick(r, []string{"abs", "ceil", "floor", "sqrt", "timestamp"}) + "(" + sel + ")", []string{"instant-func"}
	case 3:
		return pick(r, []string{"sum", "min", "max", "avg", "count"}) + "(" + sel + ")", []string{"aggregate"}
	case 4:
		return "sum by (job) (" + sel + ")", []string{"aggregate"}
	case 5, 6, 7:
		f := pick(r, []string{"rate", "irate", "increase", "delta", "sum_over_time", "count_over_time", "avg_over_time", "max_over_time", "min_over_time", "last_over_time"})
		return f + "(" + sel + "[" + dur(rng) + "])", []string{"range-func"}
	case 8:
		return "sum by (job) (rate(" + sel + "[" + dur(rng) + "]))", []string{"range-func", "aggregate"}
	case 9:
		return sel + " offset " + dur([]int64{5000, 30000}[r.Intn(2)]), []string{"instant-bare", "offset"}
	case 10:
		return sel + " + " + genSelector(r), []string{"binary"}
	default:
		return "quantile_over_time(0.5, " + sel + "[" + dur(rng) + "])", []string{"range-func"}
	}
}

// day-over-day queries: several selectors whose windows lie on different UTC days
func genChurnExpr(r *rand.Rand, metric string) (string, []string) {
	sel := metric
	if r.Intn(3) == 0 {
		sel = metric + `{job=~".+"}`
	}
	switch r.Intn(5) {
	case 0:
		return sel + " or " + sel + " offset 1d", []string{"churn", "instant-bare"}
	case 1:
		return "sum by (job) (" + sel + ") / sum by (job) (" + sel + " offset 1d)", []string{"churn", "aggregate"}
	case 2:
		return sel + " offset 1d or " + sel, []string{"churn", "instant-bare"}
	case 3:
		return "sum_over_time(" + sel + "[30s]) or sum_over_time(" + sel + "[30s] offset 1d)", []string{"churn", "range-func"}
	default:
		return "count(" + sel + ") + count(" + sel + " offset 2d)", []string{"churn", "aggregate"}
	}
}

func genCase(r *rand.Rand, id int) Case {
	step := []int64{1000, 5000, 7000, 10000, 13000, 20000, 30000, 60000}[r.Intn(8)]
	start := int64(1700000000000) + int64(r.Intn(86400))*1000
	switch r.Intn(3) {
	case 0:
		start -= start % step
	case 1:
		start -= start % 1000
	}
	if start%15000 == 0 {
		start += 1000 // keep the raw-sample path: the down-sampled tables are outside the property
	}
	end := start + int64(3+r.Intn(15))*step
	expr, class := genExpr(r, step)
	churn := r.Intn(4) == 0
	metric := pool[0][1+r.Intn(3)]
	if churn {
		expr, class = genChurnExpr(r, metric)
		start = start - start%86400000 + int64(3600+r.Intn(72000))*1000 + 1000 // away from midnight
		end = start + int64(3+r.Intn(15))*step
	}
	c := Case{ID: id, Kind: "engine", Class: class, Expr: expr, StartMs: start, EndMs: end, StepMs: step, DB: &DB{}}
	n := 2 + r.Intn(4)
	seen := map[string]bool{}
	for i := 0; i < n; i++ {
		var l [][2]string
		l = append(l, [2]string{"__name__", pool[0][1+r.Intn(3)]})
		if churn && r.Intn(5) != 0 {
			l[0][1] = metric
		}
		for _, p := range pool[1:] {
			if r.Intn(3) != 0 {
				l = append(l, [2]string{p[0], p[1+r.Intn(len(p)-1)]})
			}
		}
		k := fmt.Sprint(l)
		if seen[k] {
			continue
		}
		seen[k] = true
		s := DBSeries{Fp: r.Uint64(), Type: []int64{2, 2, 2, 0, 1}[r.Intn(5)], Labels: l}
		days := map[int64]bool{}
		// samples every 1..15 s from 6 min before the start, half of the series on the whole seconds (on window bounds);
		// with churn: the series lives today, yesterday / two days ago, or on all of them
		shifts := []int64{0}
		if churn {
			shifts = [][]int64{{0}, {86400000}, {86400000, 172800000}, {0, 86400000, 172800000}}[r.Intn(4)]
		}
		gap := int64(1+r.Intn(15)) * 1000
		v := int64(r.Intn(50))
		for _, sh := range shifts {
			t := start - sh - 360000 + int64(r.Intn(20000)) + 500
			if r.Intn(2) == 0 {
				t -= t % 1000 // on the whole seconds: samples exactly on window bounds [T - range, T], [T - 5 min, T] (fix f155c1f)
			}
			for t <= end-sh {
				if r.Intn(10) != 0 {
					c.DB.Samples = append(c.DB.Samples, DBSample{Fp: s.Fp, Type: s.Type, TsNs: t * 1000000, Value: v})
					days[t/86400000] = true
				}
				if r.Intn(25) == 0 {
					t += int64(r.Intn(400)) * 1000 // a hole: staleness
				}
				t += gap
				v += int64(r.Intn(7))
			}
		}
		for d := range days {
			s.Days = append(s.Days, d)
		}
		sort.Slice(s.Days, func(i, j int) bool { return s.Days[i] < s.Days[j] })
		if len(s.Days) > 0 {
			c.DB.Series = append(c.DB.Series, s)
		}
	}
	return c
}

func main() {
	_ = math.NaN
	f := hx.ParseFlags()
	out := hx.OpenOut(f.Out)
	defer out.Close()
	if f.Cases != "" {
		hx.ReadLines(f.Cases, func(b []byte) {
			var c Case
			if err := json.Unmarshal(b, &c); err != nil {
				panic(err)
			}
			run(&c)
			out.Put(c)
		})
		return
	}
	r := hx.Rand(f.Seed)
	for i := 0; i < f.N; i++ {
		c := genCase(r, i)
		run(&c)
		out.Put(c)
	}
}
