// profcollide searches a collision of getNodeId (writer/utils/unmarshal/golangPprof.go) between two
// DIFFERENT frames of depth 2:   getNodeId(P_a, CH64(name1), 2) == getNodeId(P_b, CH64(name2), 2)
// where P_a / P_b are the node ids of the root frames "p<a>" / "p<b>".  The node id keeps 55 bits of
// city.CH64 of the 16-byte (parent id, function id) buffer, so a collision costs about 2^28 hash
// evaluations (birthday bound); found with parallel distinguished-point trails (van Oorschot-Wiener).
// Property C16 (hint d): the witness it prints is stored in corpus/C16 and replayed on every run.
//
//	profcollide --parents 256        two frames under (most likely) different parents
//	profcollide --parents 1          two different functions under the same parent
//
// Not part of the check (the search is randomised and takes 10-60 s); kept for reproducibility.
package main

import (
	"encoding/binary"
	"flag"
	"fmt"
	"math/rand"
	"os"
	"strconv"
	"sync"
	"time"

	"github.com/go-faster/city"
)

const mask55 = (uint64(1) << 55) - 1

func nodeID(parent, fn uint64, level int) uint64 {
	buf := make([]byte, 16)
	binary.LittleEndian.PutUint64(buf[0:8], parent)
	binary.LittleEndian.PutUint64(buf[8:16], fn)
	if level > 511 {
		level = 511
	}
	return city.CH64(buf)>>9 | (uint64(level) << 55)
}

var parents []uint64
var nparents uint64
var prefix string

func nameOf(x uint64) (string, uint64) {
	return prefix + strconv.FormatUint(x, 16), x % nparents
}

func step(x uint64, buf []byte, nb []byte) uint64 {
	nb = append(nb[:0], prefix...)
	nb = strconv.AppendUint(nb, x, 16)
	fn := city.CH64(nb)
	binary.LittleEndian.PutUint64(buf[0:8], parents[x%nparents])
	binary.LittleEndian.PutUint64(buf[8:16], fn)
	return (city.CH64(buf) >> 9) & mask55
}

type trail struct {
	start, end uint64
	n          int
}

func main() {
	np := flag.Int("parents", 256, "number of root frames p0..p<n-1>")
	dbits := flag.Int("dbits", 14, "distinguished points: low bits zero")
	seed := flag.Int64("seed", time.Now().UnixNano(), "seed")
	pfx := flag.String("prefix", "main.f", "function name prefix")
	workers := flag.Int("workers", 12, "goroutines")
	flag.Parse()
	prefix = *pfx
	nparents = uint64(*np)
	for i := 0; i < *np; i++ {
		parents = append(parents, nodeID(0, city.CH64([]byte("main.p"+strconv.Itoa(i))), 1))
	}
	dmask := (uint64(1) << uint(*dbits)) - 1
	ch := make(chan trail, 1024)
	var wg sync.WaitGroup
	stop := make(chan struct{})
	for w := 0; w < *workers; w++ {
		wg.Add(1)
		go func(w int) {
			defer wg.Done()
			r := rand.New(rand.NewSource(*seed + int64(w)*7919))
			buf := make([]byte, 16)
			nb := make([]byte, 0, 32)
			for {
				select {
				case <-stop:
					return
				default:
				}
				s := r.Uint64() & mask55
				x := s
				n := 0
				for n < (20 << uint(*dbits)) {
					x = step(x, buf, nb)
					n++
					if x&dmask == 0 {
						break
					}
				}
				if x&dmask == 0 {
					ch <- trail{s, x, n}
				}
			}
		}(w)
	}
	seen := map[uint64]trail{}
	t0 := time.Now()
	total := 0
	buf := make([]byte, 16)
	nb := make([]byte, 0, 32)
	for tr := range ch {
		total += tr.n
		old, ok := seen[tr.end]
		if !ok {
			seen[tr.end] = tr
			continue
		}
		// walk both trails to the merge point
		a, b := old, tr
		xa, xb := a.start, b.start
		na, nb2 := a.n, b.n
		for na > nb2 {
			xa = step(xa, buf, nb)
			na--
		}
		for nb2 > na {
			xb = step(xb, buf, nb)
			nb2--
		}
		if xa == xb {
			continue // one trail starts on the other
		}
		for {
			ya, yb := step(xa, buf, nb), step(xb, buf, nb)
			if ya == yb {
				break
			}
			xa, xb = ya, yb
		}
		n1, p1 := nameOf(xa)
		n2, p2 := nameOf(xb)
		if *np > 1 && p1 == p2 {
			continue
		}
		id1 := nodeID(parents[p1], city.CH64([]byte(n1)), 2)
		id2 := nodeID(parents[p2], city.CH64([]byte(n2)), 2)
		fmt.Fprintf(os.Stderr, "steps %d trails %d time %s\n", total, len(seen), time.Since(t0))
		fmt.Printf("{\"parent1\":\"main.p%d\",\"fn1\":%q,\"parent2\":\"main.p%d\",\"fn2\":%q,\"id1\":%d,\"id2\":%d,\"pid1\":%d,\"pid2\":%d,\"fnid1\":%d,\"fnid2\":%d}\n",
			p1, n1, p2, n2, id1, id2, parents[p1], parents[p2], city.CH64([]byte(n1)), city.CH64([]byte(n2)))
		if id1 != id2 {
			fmt.Fprintln(os.Stderr, "BUG: ids differ")
			os.Exit(1)
		}
		close(stop)
		go func() {
			for range ch {
			}
		}()
		wg.Wait()
		return
	}
}
