// A fake ClickHouse server on the native TCP protocol (protocol part after harness/cmd/migrate/tcp.go of C18), so that
// the REAL path runs without any stand-in: ctrl.Rotate -> maintenance.InitDB (ConnectV2 without database, CREATE
// DATABASE IF NOT EXISTS, SHOW CREATE DATABASE) -> RotateAll -> rotateDB -> ConnectV2 with database -> Rotate, through
// the real clickhouse-go v2 client. The client binds the arguments into the statement text; the server recognises the
// bound forms of getSetting / putSetting / storage_policy and hands them, with their arguments restored, to the same
// fake (settings rows, table state, fault injection, call log) the in-process connection uses.
package main

import (
	"context"
	"errors"
	"fmt"
	"io"
	"net"
	"regexp"
	"strconv"
	"strings"
	"sync"

	chproto "github.com/ClickHouse/ch-go/proto"
)

type tcpServer struct {
	ln   net.Listener
	mu   sync.Mutex
	f    *fake    // the database of the current run
	errs []string // protocol-level problems of the fake server itself (must stay empty)
	boot []string // statements of the bootstrap (InitDB), not part of Rotate
}

func newTCPServer() (*tcpServer, error) {
	ln, err := net.Listen("tcp", "127.0.0.1:0")
	if err != nil {
		return nil, err
	}
	s := &tcpServer{ln: ln}
	go s.serve()
	return s, nil
}

func (s *tcpServer) port() uint32 { return uint32(s.ln.Addr().(*net.TCPAddr).Port) }

func (s *tcpServer) serve() {
	for {
		c, err := s.ln.Accept()
		if err != nil {
			return
		}
		go func() {
			defer c.Close()
			if err := s.handle(c); err != nil && !errors.Is(err, io.EOF) {
				s.mu.Lock()
				s.errs = append(s.errs, err.Error())
				s.mu.Unlock()
			}
		}()
	}
}

func flushBuf(c net.Conn, b *chproto.Buffer) error {
	_, err := c.Write(b.Buf)
	b.Reset()
	return err
}

type tcpResult struct {
	exc  string
	rows []string // a one-column String result
	name string
}

func (s *tcpServer) handle(c net.Conn) error {
	r := chproto.NewReader(c)
	buf := new(chproto.Buffer)
	code, err := r.UVarInt()
	if err != nil {
		return err
	}
	if chproto.ClientCode(code) != chproto.ClientCodeHello {
		return fmt.Errorf("fake server: first packet %d", code)
	}
	var hello chproto.ClientHello
	if err := hello.Decode(r); err != nil {
		return fmt.Errorf("fake server: hello: %w", err)
	}
	ver := hello.ProtocolVersion
	if ver > chproto.Version {
		ver = chproto.Version
	}
	sh := chproto.ServerHello{Name: "fake", Major: 24, Minor: 3, Revision: ver, Timezone: "UTC", DisplayName: "fake"}
	sh.EncodeAware(buf, ver)
	if err := flushBuf(c, buf); err != nil {
		return err
	}
	if chproto.FeatureAddendum.In(ver) {
		if _, err := r.Str(); err != nil {
			return err
		}
	}
	for {
		code, err := r.UVarInt()
		if err != nil {
			return err
		}
		switch chproto.ClientCode(code) {
		case chproto.ClientCodePing:
			chproto.ServerCodePong.Encode(buf)
			if err := flushBuf(c, buf); err != nil {
				return err
			}
		case chproto.ClientCodeQuery:
			var q chproto.Query
			if err := q.DecodeAware(r, ver); err != nil {
				return fmt.Errorf("fake server: query: %w", err)
			}
			dc, err := r.UVarInt()
			if err != nil {
				return err
			}
			if chproto.ClientCode(dc) != chproto.ClientCodeData {
				return fmt.Errorf("fake server: packet %d after query", dc)
			}
			var cd chproto.ClientData
			if err := cd.DecodeAware(r, ver); err != nil {
				return err
			}
			var blk chproto.Block
			if err := blk.DecodeBlock(r, ver, nil); err != nil {
				return fmt.Errorf("fake server: data block: %w", err)
			}
			s.mu.Lock()
			res := s.run(hello.Database, q.Body)
			s.mu.Unlock()
			if res.exc != "" {
				chproto.ServerCodeException.Encode(buf)
				(&chproto.Exception{Code: 60, Name: "DB::Exception", Message: res.exc}).EncodeAware(buf, ver)
				if err := flushBuf(c, buf); err != nil {
					return err
				}
				continue
			}
			if res.rows != nil {
				full := new(chproto.ColStr)
				for _, v := range res.rows {
					full.Append(v)
				}
				for _, col := range []*chproto.ColStr{new(chproto.ColStr), full} { // header block, then the data
					chproto.ServerCodeData.Encode(buf)
					buf.PutString("")
					b := chproto.Block{Info: chproto.BlockInfo{BucketNum: -1}, Columns: 1, Rows: col.Rows()}
					if err := b.EncodeBlock(buf, ver, []chproto.InputColumn{{Name: res.name, Data: col}}); err != nil {
						return err
					}
				}
			}
			chproto.ServerCodeEndOfStream.Encode(buf)
			if err := flushBuf(c, buf); err != nil {
				return err
			}
		default:
			return fmt.Errorf("fake server: packet %d", code)
		}
	}
}

const qstr = `'((?:[^'\\]|\\.)*)'`

var (
	reCreateDB = regexp.MustCompile("^CREATE DATABASE IF NOT EXISTS `([^`]*)`")
	reShowDB   = regexp.MustCompile("^SHOW CREATE DATABASE `([^`]*)`$")
	reGetB     = regexp.MustCompile(`(?s)^(SELECT argMax\(value, inserted_at\) as _value FROM \S+ WHERE fingerprint = )(\d+)( \nGROUP BY fingerprint HAVING argMax\(name, inserted_at\) != '')$`)
	rePutB     = regexp.MustCompile(`(?s)^(INSERT INTO settings \(fingerprint, type, name, value, inserted_at\)\nVALUES \()(\d+), ` + qstr + `, ` + qstr + `, ` + qstr + `, ((?:NOW\(\)|now64\(9\))\))$`)
	rePolB     = regexp.MustCompile("(?s)^(ALTER TABLE \\S+ (?: ON CLUSTER `[^`]*` )? MODIFY SETTING storage_policy=)" + qstr + "$")
)

// unquote undoes the client's escaping inside a quoted string literal
func unquote(s string) string {
	var b strings.Builder
	for i := 0; i < len(s); i++ {
		if s[i] == '\\' && i+1 < len(s) {
			i++
			switch s[i] {
			case 'n':
				b.WriteByte('\n')
			case 't':
				b.WriteByte('\t')
			case 'r':
				b.WriteByte('\r')
			case '0':
				b.WriteByte(0)
			default:
				b.WriteByte(s[i])
			}
			continue
		}
		b.WriteByte(s[i])
	}
	return b.String()
}

func (s *tcpServer) run(database, body string) tcpResult {
	f := s.f
	ctx := context.Background()
	q := strings.TrimSpace(body)
	if reCreateDB.MatchString(q) {
		s.boot = append(s.boot, q)
		return tcpResult{}
	}
	if m := reShowDB.FindStringSubmatch(q); m != nil {
		s.boot = append(s.boot, q)
		return tcpResult{name: "statement", rows: []string{"CREATE DATABASE " + m[1] + " ENGINE = Atomic"}}
	}
	f.use(dbKey(database))
	fail := func(err error) tcpResult { return tcpResult{exc: "fake clickhouse: " + err.Error()} }
	if m := reGetB.FindStringSubmatch(body); m != nil {
		fp, _ := strconv.ParseUint(m[2], 10, 32)
		rows, err := f.Query(ctx, m[1]+"$1"+m[3], uint32(fp))
		if err != nil {
			return fail(err)
		}
		out := []string{}
		for rows.Next() {
			var v string
			_ = rows.Scan(&v)
			out = append(out, v)
		}
		return tcpResult{name: "_value", rows: out}
	}
	if m := rePutB.FindStringSubmatch(body); m != nil {
		fp, _ := strconv.ParseUint(m[2], 10, 32)
		if err := f.Exec(ctx, m[1]+"$1, $2, $3, $4, "+m[6], uint32(fp), unquote(m[3]), unquote(m[4]), unquote(m[5])); err != nil {
			return fail(err)
		}
		return tcpResult{}
	}
	if m := rePolB.FindStringSubmatch(body); m != nil {
		if err := f.Exec(ctx, m[1]+"$1", unquote(m[2])); err != nil {
			return fail(err)
		}
		return tcpResult{}
	}
	if strings.HasPrefix(strings.ToUpper(q), "SELECT") {
		if _, err := f.Query(ctx, body); err != nil {
			return fail(err)
		}
		return tcpResult{name: "x", rows: []string{}}
	}
	if err := f.Exec(ctx, body); err != nil {
		return fail(err)
	}
	return tcpResult{}
}
