// Concurrent Rotate runs: several goroutines call the real maintenance.Rotate on one shared fake
// connection; a scheduler decides which instance may issue its next statement (every statement is
// atomic), so the interleaving is the one the case names and the run is deterministic.
package main

import (
	"context"
	"math/rand"
	"time"

	"github.com/ClickHouse/clickhouse-go/v2/lib/driver"
	"github.com/metrico/qryn/ctrl/qryn/maintenance"
	"verif/harness/hx"
)

type ConcCall struct {
	Inst int  `json:"inst"`
	Call Call `json:"call"`
}

type Conc struct {
	Cfgs  []Cfg `json:"cfgs"`  // one configuration per instance
	Sched []int `json:"sched"` // which instance issues the next statement (finished instances are skipped)
	Crash []bool `json:"crash"` // instances that stop for good when the schedule ends (never drained)
	// Faults: per instance (nil = none): its At-th own statement returns an error, having taken effect or not; the
	// instance's Rotate then returns that error (a connection fault in the middle of concurrent runs)
	Faults []*Fault `json:"faults,omitempty"`
	// observations
	Eff   []int      `json:"eff"`  // the instances in the order their statements were granted (schedule, then drain)
	Log   []ConcCall `json:"log"`
	Errs  []bool     `json:"errs"`
	Done  []bool     `json:"done"` // the instance's Rotate returned
	Panic string     `json:"panic,omitempty"`
	State State      `json:"state"`
}

type gate struct {
	req   []chan struct{}
	grant []chan struct{}
	rel   chan struct{}
	fin   []chan struct{}
}

// gated is the connection one instance sees.
type gated struct {
	*fake
	id    int
	g     *gate
	out   *[]ConcCall
	own   int    // statements this instance has issued
	fault *Fault // its own fault
}

func (c *gated) faulty() bool {
	hit := c.fault != nil && c.own == c.fault.At
	c.own++
	return hit
}

func (c *gated) turn(do func()) {
	c.g.req[c.id] <- struct{}{} // parked: the scheduler has seen the request
	<-c.g.grant[c.id]
	do()
	*c.out = append(*c.out, ConcCall{Inst: c.id, Call: c.fake.log[len(c.fake.log)-1]})
	c.g.rel <- struct{}{}
}

func (c *gated) Exec(ctx context.Context, query string, args ...any) (err error) {
	c.turn(func() {
		if !c.faulty() {
			err = c.fake.Exec(ctx, query, args...)
			return
		}
		if c.fault.Eff {
			_ = c.fake.Exec(ctx, query, args...)
			c.fake.log[len(c.fake.log)-1].OK = false
		} else {
			c.fake.logFailed(false, query, args)
		}
		err = errInjected
	})
	return
}

func (c *gated) Query(ctx context.Context, query string, args ...any) (rows driver.Rows, err error) {
	c.turn(func() {
		if !c.faulty() {
			rows, err = c.fake.Query(ctx, query, args...)
			return
		}
		c.fake.logFailed(true, query, args)
		err = errInjected
	})
	return
}

func runConc(f *fake, cc *Conc) {
	n := len(cc.Cfgs)
	g := &gate{rel: make(chan struct{})}
	f.log, f.n, f.fault = nil, 0, nil
	cc.Log = []ConcCall{}
	cc.Eff = []int{}
	cc.Errs = make([]bool, n)
	pn := make([]string, n)
	for i := 0; i < n; i++ {
		g.req = append(g.req, make(chan struct{}))
		g.grant = append(g.grant, make(chan struct{}))
		g.fin = append(g.fin, make(chan struct{}))
	}
	for i := 0; i < n; i++ {
		i := i
		cfg := cc.Cfgs[i]
		days := make([]maintenance.RotatePolicy, len(cfg.Days))
		for j, p := range cfg.Days {
			days[j] = maintenance.RotatePolicy{TTL: time.Duration(p.NS), MoveTo: p.Disk}
		}
		conn := &gated{fake: f, id: i, g: g, out: &cc.Log}
		if i < len(cc.Faults) {
			conn.fault = cc.Faults[i]
		}
		go func() {
			defer close(g.fin[i])
			pn[i] = hx.Catch(func() {
				err := maintenance.Rotate(conn, cfg.Cluster, cfg.Dist, days, cfg.Drop, cfg.Policy, nolog{})
				cc.Errs[i] = err != nil
			})
		}()
	}
	finished := make([]bool, n)
	// an instance is always either parked before its next statement or finished when the scheduler looks at it
	await := func(k int) {
		select {
		case <-g.req[k]:
		case <-g.fin[k]:
			finished[k] = true
		}
	}
	for k := 0; k < n; k++ {
		await(k)
	}
	stepOf := func(k int) {
		if k < 0 || k >= n || finished[k] {
			return
		}
		cc.Eff = append(cc.Eff, k)
		g.grant[k] <- struct{}{}
		<-g.rel
		await(k)
	}
	for _, k := range cc.Sched {
		stepOf(k)
	}
	for k := 0; k < n; k++ { // drain: the remaining instances one after the other, except the crashed ones
		if k < len(cc.Crash) && cc.Crash[k] {
			continue
		}
		for !finished[k] {
			stepOf(k)
		}
	}
	cc.Done = finished
	if cc.Crash == nil {
		cc.Crash = make([]bool, n)
	}
	for _, p := range pn {
		if p != "" {
			cc.Panic = p
		}
	}
	cc.State = f.state()
}

func genSched(r *rand.Rand, n int) []int {
	out := []int{}
	L := r.Intn(130)
	for len(out) < L {
		k := r.Intn(n)
		burst := 1
		switch r.Intn(4) {
		case 0:
			burst = 1 + r.Intn(12)
		case 1:
			burst = 1 + r.Intn(3)
		}
		for j := 0; j < burst; j++ {
			out = append(out, k)
		}
	}
	return out
}

// genConc: 0..2 sequential runs, then 2..3 concurrent instances with the same (or, 30 %, different) configurations.
func genConc(r *rand.Rand, id int) Case {
	c := Case{ID: id, Class: "conc-same"}
	a := genCfg(r)
	for i, m := 0, r.Intn(3); i < m; i++ {
		c.Runs = append(c.Runs, Run{Cfg: a})
		if r.Intn(2) == 0 {
			a = mutateCfg(r, a)
		}
	}
	n := 2 + r.Intn(2)
	b := a
	if r.Intn(3) > 0 {
		b = mutateCfg(r, a)
	}
	cc := &Conc{}
	for i := 0; i < n; i++ {
		cc.Cfgs = append(cc.Cfgs, b)
	}
	if r.Intn(10) < 3 {
		c.Class = "conc-different"
		cc.Cfgs[r.Intn(n)] = mutateCfg(r, b)
	}
	cc.Sched = genSched(r, n)
	cc.Crash = make([]bool, n)
	if r.Intn(3) == 0 { // some instances die where the schedule leaves them; later runs complete the work
		c.Class += "+crash"
		for i := 0; i < n; i++ {
			cc.Crash[i] = r.Intn(2) == 0
		}
	}
	if r.Intn(3) == 0 { // connection faults in the middle of the concurrent runs: the instance's Rotate returns the error
		c.Class += "+fault"
		cc.Faults = make([]*Fault, n)
		for i := 0; i < n; i++ {
			if r.Intn(3) > 0 {
				cc.Faults[i] = &Fault{At: r.Intn(30), Eff: r.Intn(2) == 0}
			}
		}
	}
	c.Conc = cc
	last := cc.Cfgs[n-1]
	for i, m := 0, r.Intn(3); i < m; i++ {
		c.After = append(c.After, Run{Cfg: last})
	}
	return c
}
