// STUB. checks/c19.py replaces this file at build time (go build -overlay) by verbatim copies of
// rotateDB and RotateAll (ctrl/qryn/maintenance/maintain.go) and of boolEnv and portCHEnv (main.go of the
// repository under test, package main: cannot be imported), compiled against gluemaint.ConnectV2.
// Built without the overlay the glue cases report "not generated".
package main

import (
	"errors"

	clconfig "github.com/metrico/cloki-config"
	"github.com/metrico/cloki-config/config"
	qlogger "github.com/metrico/qryn/ctrl/logger"
)

const glueGenerated = false

func RotateAll(base []config.ClokiBaseDataBase, l qlogger.ILogger) error {
	return errors.New("glue not generated")
}

func portCHEnv(cfg *clconfig.ClokiConfig) error { return errors.New("glue not generated") }

func initDB(cfg *clconfig.ClokiConfig) { panic("glue not generated") }
