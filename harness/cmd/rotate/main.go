// rotate drives the exported maintenance.Rotate of ctrl/qryn/maintenance against a fake
// clickhouse-go v2 driver.Conn that models the `settings` table (latest value per fingerprint)
// and remembers what every ALTER did to the seven data tables. A case is a history of runs
// (configuration + optional fault at a call index); for every run the harness prints the
// statement log, whether Rotate returned an error and the database state afterwards.
package main

import (
	"context"
	"encoding/json"
	"errors"
	"flag"
	"fmt"
	"math"
	"math/rand"
	"reflect"
	"regexp"
	"sort"
	"strings"
	"time"

	"github.com/ClickHouse/clickhouse-go/v2/lib/driver"
	"github.com/metrico/qryn/ctrl/qryn/maintenance"
	"verif/harness/hx"
)

// ---------------------------------------------------------------- case format

type Policy struct {
	NS   int64  `json:"ns"`   // time.Duration of the tier
	Disk string `json:"disk"` // MoveTo ("" = none)
}
type Cfg struct {
	Cluster string   `json:"cluster"`
	Dist    bool     `json:"dist"`
	Days    []Policy `json:"days"`
	Drop    int      `json:"drop"`
	Policy  string   `json:"policy"`
}
type Fault struct {
	At  int  `json:"at"`  // index of the failing call within the run (0-based)
	Eff bool `json:"eff"` // the statement took effect before the error was reported
}
type Arg struct {
	S *string `json:"s,omitempty"`
	N *int64  `json:"n,omitempty"`
}
type Call struct {
	Q    bool   `json:"q"` // Query (true) or Exec (false)
	SQL  string `json:"sql"`
	Args []Arg  `json:"args"`
	OK   bool   `json:"ok"`
}
type TState struct {
	Name   string `json:"name"`
	TTL    string `json:"ttl"`
	Policy string `json:"policy"`
}
type SRow struct {
	FP    int64  `json:"fp"`
	Value string `json:"value"`
}
type State struct {
	Tables   []TState `json:"tables"`
	Settings []SRow   `json:"settings"`
}
type Run struct {
	Cfg   Cfg    `json:"cfg"`
	Fault *Fault `json:"fault"`
	Glue  *Glue  `json:"glue,omitempty"` // through RotateAll / portCHEnv (glue.go) instead of a direct Rotate call
	// observations
	Log   []Call `json:"log"`
	Err   bool   `json:"err"`
	Panic string `json:"panic,omitempty"`
	State State  `json:"state"`
	States []NamedState `json:"states,omitempty"` // the databases with a name of their own ("vdb_..."), sorted by name
}
type NamedState struct {
	DB    string `json:"db"`
	State State  `json:"state"`
}
type Case struct {
	ID    int      `json:"id"`
	Class string   `json:"class"`
	Init  []SRow   `json:"init"`        // settings rows present before the first run
	InitT []TState `json:"init_tables"` // table state before the first run (absent tables: "<initial>")
	Runs  []Run    `json:"runs"`
	Conc  *Conc    `json:"conc,omitempty"` // after the runs: concurrent instances on the same database (conc.go)
	After []Run    `json:"after"`          // sequential runs after the concurrent instances
	// TickNS: how far the server clock advances per statement (0 = 1.5 s: every statement in a second of its own).
	// The fake stamps a settings row with the clock truncated to the second for NOW() and with the full clock for
	// now64(9), and a read returns the value of the row with the greatest stamp, the FIRST inserted among equals.
	TickNS int64 `json:"tick_ns"`
	// Clock: "" = the clock advances by the tick BEFORE every statement; otherwise the time a statement takes is added
	// AFTER it: "sel-alt" = a tick for every SELECT and ALTER that was executed, nothing for an INSERT or a failed
	// statement (the hypothesis clock_advances of model/RotateStamp.v, at its boundary); "alt" = a tick for every ALTER
	// only; "sel" = a tick for every SELECT only (the two witnesses of nondecreasing_clock_is_not_enough).
	Clock string `json:"clock,omitempty"`
	// LastFrom > 0: from that statement of the history on, the LAST inserted row wins a tie instead of the first.
	LastFrom int `json:"last_from,omitempty"`
	// GapNS: time between two runs
	GapNS int64 `json:"gap_ns,omitempty"`
}

// ---------------------------------------------------------------- fake connection

var tableNames = []string{"time_series", "time_series_gin", "samples_v3", "tempo_traces",
	"tempo_traces_attrs_gin", "tempo_traces_kv", "metrics_15s"}

const getTpl = "SELECT argMax(value, inserted_at) as _value FROM %s WHERE fingerprint = $1 \nGROUP BY fingerprint HAVING argMax(name, inserted_at) != ''"
var rePut = regexp.MustCompile("^INSERT INTO settings \\(fingerprint, type, name, value, inserted_at\\)\nVALUES \\(\\$1, \\$2, \\$3, \\$4, (NOW\\(\\)|now64\\(9\\))\\)$")

var reTTL = regexp.MustCompile("(?s)^ALTER TABLE (\\S+) (?: ON CLUSTER `[^`]*` )? MODIFY TTL (.*)$")
var rePol = regexp.MustCompile("(?s)^ALTER TABLE (\\S+) (?: ON CLUSTER `[^`]*` )? MODIFY SETTING storage_policy=\\$1$")

type tst struct{ ttl, policy string }

type srow struct {
	val   string
	named bool
	ts    int64 // inserted_at in ns
}

// dbst: one database of the server (its settings rows and its data tables)
type dbst struct {
	rows   map[uint32][]srow // the settings table: every row ever inserted, per fingerprint, in insertion order
	tables map[string]*tst
}

func newDbst() *dbst {
	d := &dbst{rows: map[uint32][]srow{}, tables: map[string]*tst{}}
	for _, t := range tableNames {
		d.tables[t] = &tst{ttl: "<initial>", policy: "<initial>"}
	}
	return d
}

func (d *dbst) copy() *dbst {
	g := &dbst{rows: map[uint32][]srow{}, tables: map[string]*tst{}}
	for k, v := range d.rows {
		g.rows[k] = append([]srow{}, v...)
	}
	for k, v := range d.tables {
		g.tables[k] = &tst{v.ttl, v.policy}
	}
	return g
}

// fake: the server: one clock, one statement log, one fault counter; several databases, the statements going to the
// one selected by use (the database of the connection). Histories that never name a database live in "".
type fake struct {
	*dbst                    // the selected database
	dbs    map[string]*dbst  // all databases by name
	clock  int64             // server clock, ns
	tick   int64             // advance per statement
	log      []Call
	fault    *Fault
	n        int
	mode     string // Case.Clock
	pending  int64  // time the statement being executed takes (added when it ends)
	total    int    // statements of the whole history
	lastFrom int    // Case.LastFrom
}

func (f *fake) use(name string) {
	d, ok := f.dbs[name]
	if !ok {
		d = newDbst()
		f.dbs[name] = d
	}
	f.dbst = d
}

func newFake() *fake {
	f := &fake{dbs: map[string]*dbst{}, clock: 1790000000 * 1e9, tick: 1500 * 1e6}
	f.use("")
	return f
}

func (f *fake) clone() *fake {
	g := &fake{dbs: map[string]*dbst{}}
	for k, v := range f.dbs {
		g.dbs[k] = v.copy()
		if v == f.dbst {
			g.dbst = g.dbs[k]
		}
	}
	g.clock, g.tick = f.clock, f.tick
	g.mode, g.total, g.lastFrom = f.mode, f.total, f.lastFrom
	return g
}

func toArgs(args []any) []Arg {
	out := []Arg{}
	for _, a := range args {
		switch v := a.(type) {
		case string:
			s := v
			out = append(out, Arg{S: &s})
		default:
			rv := reflect.ValueOf(a)
			var n int64
			switch rv.Kind() {
			case reflect.Int, reflect.Int8, reflect.Int16, reflect.Int32, reflect.Int64:
				n = rv.Int()
			case reflect.Uint, reflect.Uint8, reflect.Uint16, reflect.Uint32, reflect.Uint64:
				n = int64(rv.Uint())
			default:
				s := fmt.Sprintf("<%T>%v", a, a)
				out = append(out, Arg{S: &s})
				continue
			}
			out = append(out, Arg{N: &n})
		}
	}
	return out
}

// begin records the call and decides whether it fails / takes effect.
func (f *fake) begin(q bool, sql string, args []any) (fail bool, effect bool) {
	idx := f.n
	f.n++
	f.total++
	fail = f.fault != nil && f.fault.At == idx
	isAlter := !q && strings.HasPrefix(sql, "ALTER")
	f.pending = 0
	switch f.mode {
	case "":
		f.clock += f.tick
	case "sel-alt":
		if (q || isAlter) && !fail {
			f.pending = f.tick
		}
	case "alt":
		if isAlter {
			f.pending = f.tick
		}
	case "sel":
		if q {
			f.pending = f.tick
		}
	}
	effect = !fail || f.fault.Eff
	f.log = append(f.log, Call{Q: q, SQL: sql, Args: toArgs(args), OK: !fail})
	return
}

var errInjected = errors.New("injected fault")

// logFailed: a statement that failed without taking effect (used by the per-instance faults of concurrent runs)
func (f *fake) logFailed(q bool, sql string, args []any) {
	f.n++
	f.total++
	if f.mode == "" {
		f.clock += f.tick
	}
	f.log = append(f.log, Call{Q: q, SQL: sql, Args: toArgs(args), OK: false})
}

func (f *fake) end() { f.clock += f.pending; f.pending = 0 }

func (f *fake) Exec(ctx context.Context, query string, args ...any) error {
	fail, effect := f.begin(false, query, args)
	defer f.end()
	if effect {
		f.apply(query, args)
	}
	if fail {
		return errInjected
	}
	return nil
}

func (f *fake) apply(query string, args []any) {
	if m := rePut.FindStringSubmatch(query); m != nil && len(args) == 4 {
		fp, ok1 := args[0].(uint32)
		name, ok2 := args[2].(string)
		val, ok3 := args[3].(string)
		if ok1 && ok2 && ok3 {
			ts := f.clock
			if m[1] == "NOW()" { // DateTime: whole seconds
				ts -= ts % 1e9
			}
			f.rows[fp] = append(f.rows[fp], srow{val, name != "", ts})
		}
		return
	}
	if m := reTTL.FindStringSubmatch(query); m != nil {
		if t, ok := f.tables[m[1]]; ok {
			t.ttl = m[2]
		}
		return
	}
	if m := rePol.FindStringSubmatch(query); m != nil && len(args) == 1 {
		if t, ok := f.tables[m[1]]; ok {
			if p, ok := args[0].(string); ok {
				t.policy = p
			}
		}
		return
	}
}

type rows struct {
	vals []string
	i    int
}

func (r *rows) Next() bool { r.i++; return r.i <= len(r.vals) }
func (r *rows) Scan(dest ...any) error {
	if len(dest) != 1 {
		return errors.New("fake rows: one column")
	}
	p, ok := dest[0].(*string)
	if !ok {
		return errors.New("fake rows: *string expected")
	}
	*p = r.vals[r.i-1]
	return nil
}
func (r *rows) ScanStruct(dest any) error        { return errors.New("unsupported") }
func (r *rows) ColumnTypes() []driver.ColumnType { return nil }
func (r *rows) Totals(dest ...any) error         { return nil }
func (r *rows) Columns() []string                { return []string{"_value"} }
func (r *rows) Close() error                     { return nil }
func (r *rows) Err() error                       { return nil }

func (f *fake) Query(ctx context.Context, query string, args ...any) (driver.Rows, error) {
	fail, _ := f.begin(true, query, args)
	defer f.end()
	if fail {
		return nil, errInjected
	}
	if (query == fmt.Sprintf(getTpl, "settings") || query == fmt.Sprintf(getTpl, "settings_dist")) && len(args) == 1 {
		if fp, ok := args[0].(uint32); ok {
			if r, ok := f.read(fp); ok && r.named {
				return &rows{vals: []string{r.val}}, nil
			}
		}
	}
	return &rows{}, nil
}

// read: argMax(value, inserted_at) / argMax(name, inserted_at): the row with the greatest stamp, the first inserted
// among rows with equal stamps.
func (f *fake) read(fp uint32) (srow, bool) {
	rs := f.rows[fp]
	if len(rs) == 0 {
		return srow{}, false
	}
	best := rs[0]
	last := f.lastFrom > 0 && f.total > f.lastFrom // f.total counts the statement being executed
	for _, r := range rs[1:] {
		if r.ts > best.ts || (last && r.ts == best.ts) {
			best = r
		}
	}
	return best, true
}

func (f *fake) Contributors() []string                            { return nil }
func (f *fake) ServerVersion() (*driver.ServerVersion, error)     { return nil, errors.New("unsupported") }
func (f *fake) Select(context.Context, any, string, ...any) error { return errors.New("unsupported") }
func (f *fake) QueryRow(context.Context, string, ...any) driver.Row {
	panic("QueryRow unsupported")
}
func (f *fake) PrepareBatch(context.Context, string, ...driver.PrepareBatchOption) (driver.Batch, error) {
	return nil, errors.New("unsupported")
}
func (f *fake) AsyncInsert(context.Context, string, bool, ...any) error {
	return errors.New("unsupported")
}
func (f *fake) Ping(context.Context) error { return nil }
func (f *fake) Stats() driver.Stats        { return driver.Stats{} }
func (f *fake) Close() error               { return nil }

func (f *fake) state() State {
	st := State{}
	for _, t := range tableNames {
		st.Tables = append(st.Tables, TState{Name: t, TTL: f.tables[t].ttl, Policy: f.tables[t].policy})
	}
	keys := []int64{}
	for k := range f.rows {
		if r, ok := f.read(k); ok && r.named {
			keys = append(keys, int64(k))
		}
	}
	sort.Slice(keys, func(i, j int) bool { return keys[i] < keys[j] })
	st.Settings = []SRow{}
	for _, k := range keys {
		r, _ := f.read(uint32(k))
		st.Settings = append(st.Settings, SRow{FP: k, Value: r.val})
	}
	return st
}

type nolog struct{}

func (nolog) Error(args ...any) {}
func (nolog) Debug(args ...any) {}
func (nolog) Info(args ...any)  {}

// rotateOnce runs the real Rotate on f; returns number of calls issued.
func rotateOnce(f *fake, cfg *Cfg, fault *Fault) (log []Call, failed bool, pnc string) {
	f.log = nil
	f.n = 0
	f.fault = fault
	days := make([]maintenance.RotatePolicy, len(cfg.Days))
	for i, p := range cfg.Days {
		days[i] = maintenance.RotatePolicy{TTL: time.Duration(p.NS), MoveTo: p.Disk}
	}
	pnc = hx.Catch(func() {
		err := maintenance.Rotate(f, cfg.Cluster, cfg.Dist, days, cfg.Drop, cfg.Policy, nolog{})
		failed = err != nil
	})
	f.fault = nil
	return f.log, failed, pnc
}

func runCase(c *Case) {
	f := newFake()
	for _, r := range c.Init {
		f.rows[uint32(r.FP)] = append(f.rows[uint32(r.FP)], srow{r.Value, true, f.clock - 3600*1e9})
	}
	if c.TickNS > 0 {
		f.tick = c.TickNS
	}
	f.mode, f.lastFrom = c.Clock, c.LastFrom
	for _, t := range c.InitT {
		if x, ok := f.tables[t.Name]; ok {
			x.ttl, x.policy = t.TTL, t.Policy
		}
	}
	if c.InitT == nil {
		c.InitT = []TState{}
	}
	doRun := func(r *Run) {
		if r.Cfg.Days == nil {
			r.Cfg.Days = []Policy{}
		}
		f.clock += c.GapNS
		if r.Glue != nil {
			r.Log, r.Err, r.Panic = glueOnce(f, r.Glue, r.Fault)
		} else {
			r.Log, r.Err, r.Panic = rotateOnce(f, &r.Cfg, r.Fault)
		}
		if r.Log == nil {
			r.Log = []Call{}
		}
		names := []string{}
		for k := range f.dbs {
			if k != "" {
				names = append(names, k)
			}
		}
		sort.Strings(names)
		for _, k := range names {
			f.use(k)
			r.States = append(r.States, NamedState{k, f.state()})
		}
		f.use("")
		r.State = f.state()
	}
	for i := range c.Runs {
		doRun(&c.Runs[i])
	}
	defer func() {
		for i := range c.After {
			doRun(&c.After[i])
		}
		if c.After == nil {
			c.After = []Run{}
		}
	}()
	if c.Init == nil {
		c.Init = []SRow{}
	}
	if c.Runs == nil {
		c.Runs = []Run{}
	}
	if c.Conc != nil {
		for i := range c.Conc.Cfgs {
			if c.Conc.Cfgs[i].Days == nil {
				c.Conc.Cfgs[i].Days = []Policy{}
			}
		}
		runConc(f, c.Conc)
	}
}

// ---------------------------------------------------------------- generators

var disks = []string{"", "", "cold", "s3_main", "disk-2", "hdd.1", "warm"}
var policies = []string{"tiered", "hot_cold", "default", "p1"}
var clusters = []string{"c1", "qryn_cluster"}

func genDuration(r *rand.Rand) int64 {
	const sec = int64(time.Second)
	switch r.Intn(12) {
	case 0: // below one minute
		return (1 + r.Int63n(59)) * sec
	case 1: // between the two minima
		return (60 + r.Int63n(86400-60)) * sec
	case 2: // exactly at / next to a minimum
		return []int64{59, 60, 61, 86399, 86400, 86401}[r.Intn(6)] * sec
	case 3: // days
		return (1 + r.Int63n(400)) * 86400 * sec
	case 4: // hours
		return (1 + r.Int63n(2000)) * 3600 * sec
	case 5: // around the int32 boundary in seconds (68 years)
		return (int64(math.MaxInt32) + r.Int63n(5) - 2) * sec
	case 6: // beyond int32: up to 100 years and up to the largest Duration
		if r.Intn(2) == 0 {
			return (int64(math.MaxInt32) + 1 + r.Int63n(100*365*86400-int64(math.MaxInt32))) * sec
		}
		return math.MaxInt64 - r.Int63n(1000)
	case 7: // with a sub-second part
		return (r.Int63n(200000))*sec + r.Int63n(int64(time.Second))
	case 8: // large with a sub-second part close to the next second (float rounding)
		return (int64(1)<<24+r.Int63n(int64(1)<<30))*sec + int64(time.Second) - 1 - r.Int63n(3)
	case 9: // zero / negative
		return []int64{0, -1, -sec, -90 * sec, -int64(math.MaxInt32) * sec, math.MinInt64}[r.Intn(6)]
	default: // log-uniform 1 s .. 100 years
		e := r.Float64() * math.Log(100*365*86400)
		return int64(math.Exp(e)) * sec
	}
}

func genCfg(r *rand.Rand) Cfg {
	c := Cfg{}
	if r.Intn(10) < 4 {
		c.Cluster = clusters[r.Intn(len(clusters))]
	}
	c.Dist = c.Cluster != ""
	if r.Intn(12) == 0 {
		c.Dist = !c.Dist
	}
	n := r.Intn(4)
	c.Days = []Policy{}
	for i := 0; i < n; i++ {
		d := disks[r.Intn(len(disks))]
		if r.Intn(8) == 0 {
			b := make([]byte, 1+r.Intn(8))
			for j := range b {
				b[j] = "abcdefghijklmnopqrstuvwxyz0123456789_"[r.Intn(37)]
			}
			d = string(b)
		}
		c.Days = append(c.Days, Policy{NS: genDuration(r), Disk: d})
	}
	switch r.Intn(20) {
	case 0:
		c.Drop = 0
	case 1:
		c.Drop = -r.Intn(30)
	default:
		c.Drop = 1 + r.Intn(3650)
	}
	if r.Intn(10) < 6 {
		c.Policy = policies[r.Intn(len(policies))]
	}
	return c
}

func mutateCfg(r *rand.Rand, c Cfg) Cfg {
	d := c
	d.Days = append([]Policy{}, c.Days...)
	switch r.Intn(6) {
	case 0:
		d.Drop = 1 + r.Intn(3650)
	case 1:
		if d.Policy == "" {
			d.Policy = policies[r.Intn(len(policies))]
		} else if r.Intn(3) == 0 {
			d.Policy = ""
		} else {
			d.Policy = policies[r.Intn(len(policies))]
		}
	case 2:
		if len(d.Days) > 0 {
			d.Days[r.Intn(len(d.Days))].NS = genDuration(r)
		} else {
			d.Days = append(d.Days, Policy{NS: genDuration(r), Disk: disks[r.Intn(len(disks))]})
		}
	case 3:
		if len(d.Days) > 0 {
			d.Days[r.Intn(len(d.Days))].Disk = disks[r.Intn(len(disks))]
		} else {
			d.Drop++
		}
	case 4:
		if len(d.Days) > 0 {
			d.Days = d.Days[:len(d.Days)-1]
		} else {
			d.Days = append(d.Days, Policy{NS: genDuration(r), Disk: disks[r.Intn(len(disks))]})
		}
	case 5:
		if d.Cluster == "" {
			d.Cluster = clusters[r.Intn(len(clusters))]
		} else {
			d.Cluster = ""
		}
		d.Dist = d.Cluster != ""
	}
	return d
}

// callCount: how many calls an uninterrupted run of cfg would issue from the current state of f.
func callCount(f *fake, cfg *Cfg) int {
	g := f.clone()
	log, _, _ := rotateOnce(g, cfg, nil)
	return len(log)
}

// genSeq: a history of 1..6 runs with configuration changes and faults, executed while generated
// (fault indexes are drawn below the length of the run they interrupt).
func genSeq(r *rand.Rand, id int) Case {
	c := Case{ID: id, Class: "seq"}
	f := newFake()
	cur := genCfg(r)
	prevs := []Cfg{cur}
	n := 1 + r.Intn(6)
	for i := 0; i < n; i++ {
		if i > 0 {
			switch x := r.Intn(20); {
			case x < 9: // unchanged
			case x < 15:
				cur = mutateCfg(r, cur)
			case x < 18: // back to an earlier configuration
				cur = prevs[r.Intn(len(prevs))]
			default:
				cur = genCfg(r)
			}
			prevs = append(prevs, cur)
		}
		run := Run{Cfg: cur}
		if r.Intn(100) < 35 {
			L := callCount(f, &run.Cfg)
			run.Fault = &Fault{At: r.Intn(L + 1), Eff: r.Intn(10) < 3}
		}
		rotateOnce(f, &run.Cfg, run.Fault)
		c.Runs = append(c.Runs, run)
	}
	return c
}

// genExhaustive: configurations A then B; one case per call index k of the run of B after A:
// [A, B failing at k, B, B] or the revert history [A, B failing at k, A, A].
func genExhaustive(r *rand.Rand, id *int, revert bool, max int) []Case {
	a := genCfg(r)
	b := mutateCfg(r, a)
	if r.Intn(4) == 0 {
		b = genCfg(r)
	}
	f := newFake()
	fresh := r.Intn(5) == 0
	if !fresh {
		rotateOnce(f, &a, nil)
	}
	L := callCount(f, &b)
	ks := []int{}
	for k := 0; k < L; k++ {
		ks = append(ks, k)
	}
	if max > 0 && len(ks) > max {
		r.Shuffle(len(ks), func(i, j int) { ks[i], ks[j] = ks[j], ks[i] })
		ks = ks[:max]
		sort.Ints(ks)
	}
	out := []Case{}
	for _, k := range ks {
		for _, eff := range []bool{false, true} {
			if eff && r.Intn(3) != 0 {
				continue
			}
			c := Case{ID: *id}
			*id++
			if !fresh {
				c.Runs = append(c.Runs, Run{Cfg: a})
			}
			c.Runs = append(c.Runs, Run{Cfg: b, Fault: &Fault{At: k, Eff: eff}})
			if revert {
				c.Class = "fault-then-revert"
				c.Runs = append(c.Runs, Run{Cfg: a}, Run{Cfg: a})
			} else {
				c.Class = "fault-then-complete"
				c.Runs = append(c.Runs, Run{Cfg: b}, Run{Cfg: b})
			}
			if fresh {
				c.Class += "+fresh"
			}
			out = append(out, c)
		}
	}
	return out
}

// genLegacy: a database left by the code before the metrics_15s settings were separated: after a complete run
// of configuration A the shared name "metrics_15s" holds the TTL expression (the TTL group ran last) and there
// is no row for the storage policy of metrics_15s. Obtained from a run of today's code by dropping that row.
func genLegacy(r *rand.Rand, id int) Case {
	a := genCfg(r)
	if a.Policy == "" {
		a.Policy = policies[r.Intn(len(policies))]
	}
	f := newFake()
	rotateOnce(f, &a, nil)
	st := f.state()
	c := Case{ID: id, Class: "legacy-settings", InitT: st.Tables}
	newKey := int64(djb(fmt.Sprintf(`{"type":%q, "name":%q`, "rotate", "metrics_15s_storage_policy")))
	for _, row := range st.Settings {
		if row.FP != newKey {
			c.Init = append(c.Init, row)
		}
	}
	cur := a
	n := 2 + r.Intn(3)
	for i := 0; i < n; i++ {
		if i > 0 && r.Intn(3) == 0 {
			cur = mutateCfg(r, cur)
		}
		run := Run{Cfg: cur}
		if i > 0 && r.Intn(4) == 0 {
			run.Fault = &Fault{At: r.Intn(12), Eff: r.Intn(3) == 0}
		}
		c.Runs = append(c.Runs, run)
	}
	return c
}

// djb: the harness's own copy of the fingerprint function, used only to seed legacy rows.
func djb(s string) uint32 {
	var h int32 = 5381
	for i := len(s) - 1; i > -1; i-- {
		h = (h * 33) ^ int32(uint16(s[i]))
	}
	return uint32(h)
}

// genTick: the server clock per statement: a second and a half (every statement in its own second), or 1 us .. 1 s
// (several statements, or several runs, within one second).
func genTick(r *rand.Rand) int64 {
	if r.Intn(5) < 2 {
		return 0
	}
	return []int64{1000, 1000000, 50000000, 400000000, 1000000000}[r.Intn(5)]
}

func main() {
	exh := flag.Int("exhaustive", 0, "additionally: this many configuration pairs with a fault at EVERY call index")
	f := hx.ParseFlags()
	out := hx.OpenOut(f.Out)
	defer out.Close()
	if f.Cases != "" {
		hx.ReadLines(f.Cases, func(b []byte) {
			var c Case
			if err := json.Unmarshal(b, &c); err != nil {
				panic(err)
			}
			runCase(&c)
			out.Put(c)
		})
		return
	}
	r := hx.Rand(f.Seed)
	id := 0
	runs := 0
	// --n is a budget of Rotate runs
	for runs < f.N {
		var cs []Case
		switch x := r.Intn(30); {
		case id < 4 && runs < 16: // whatever the seed: several databases on one cluster through initDB / RotateAll
			cs = []Case{genInitSeqL(r, id, true)}
			id++
		case x >= 26:
			cs = []Case{genConc(r, id)}
			id++
			runs += 3
		case x >= 23:
			cs = []Case{genGlueSeq(r, id)}
			id++
		case x >= 20:
			cs = []Case{genInitSeq(r, id)}
			id++
		case x < 10:
			cs = []Case{genSeq(r, id)}
			id++
		case x < 14:
			cs = genExhaustive(r, &id, false, 4)
		case x < 17:
			cs = genExhaustive(r, &id, true, 4)
		default:
			cs = []Case{genLegacy(r, id)}
			id++
		}
		for i := range cs {
			cs[i].TickNS = genTick(r)
			if cs[i].Conc == nil && r.Intn(3) == 0 {
				// the boundary of the clock hypothesis: only executed SELECTs and ALTERs take time; ties resolved either way
				cs[i].Clock = "sel-alt"
				cs[i].Class += "+insert-takes-no-time"
				if r.Intn(2) == 0 {
					cs[i].LastFrom = 1 + r.Intn(80)
				}
				if r.Intn(3) == 0 {
					cs[i].GapNS = []int64{1, 1000000, 3000000000}[r.Intn(3)]
				}
			}
			runCase(&cs[i])
			runs += len(cs[i].Runs)
			out.Put(cs[i])
		}
	}
	for k := 0; k < *exh; k++ {
		cs := genExhaustive(r, &id, k%3 == 2, 0)
		for i := range cs {
			cs[i].TickNS = genTick(r)
			runCase(&cs[i])
			out.Put(cs[i])
		}
	}
}
