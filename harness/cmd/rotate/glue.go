// Glue around Rotate: the configuration object -> RotatePolicy conversion (rotateDB), the loop over the
// configured databases (RotateAll) and the environment -> configuration step of package main (portCHEnv).
// The code under test is compiled in verbatim from the repository (see glue_gen.go).
package main

import (
	"errors"
	"fmt"
	"math/rand"
	"os"
	"sort"
	"strings"
	"time"

	"io"

	"github.com/ClickHouse/clickhouse-go/v2"
	clconfig "github.com/metrico/cloki-config"
	"github.com/metrico/cloki-config/config"
	"github.com/metrico/qryn/ctrl"
	ctrllogger "github.com/metrico/qryn/ctrl/logger"
	"verif/harness/gluectrl"
	"verif/harness/gluemaint"
	"verif/harness/hx"
)

type TTLElem struct {
	Timeout string `json:"timeout"`
	MoveTo  string `json:"move_to"`
}

// Dbo: the fields of config.ClokiBaseDataBase that rotateDB reads.
type Dbo struct {
	Cluster   string    `json:"cluster"`
	TTLPolicy []TTLElem `json:"ttl_policy"`
	TTLDays   int       `json:"ttl_days"`
	Policy    string    `json:"policy"`
	DB        string    `json:"db,omitempty"` // the database (Name) this object configures; "" = the history's only database
}

// Parsed: what time.ParseDuration says about one timeout text (the model takes the parser as an oracle).
type Parsed struct {
	S  string `json:"s"`
	OK bool   `json:"ok"`
	NS int64  `json:"ns"`
}

type EnvVar struct {
	K string `json:"k"`
	V string `json:"v"`
}

// Glue: when present in a Run, the run goes through the extracted code instead of maintenance.Rotate.
type Glue struct {
	Kind   string   `json:"kind"`   // "all": RotateAll(dbos); "env": portCHEnv on env (+preset), then RotateAll; "ctrl": the real ctrl.Rotate over TCP
	Dbos   []Dbo    `json:"dbos"`   // all: the configuration objects; env: DATABASE_DATA present before portCHEnv
	Env    []EnvVar `json:"env"`    // env: the variables set (everything else portCHEnv reads is unset)
	// observations
	Parsed []Parsed `json:"parsed"`
	EnvErr bool     `json:"env_err"`
	EnvOut []Dbo    `json:"env_out"` // DATABASE_DATA after portCHEnv
	Connects int    `json:"connects"`
	Boot     int    `json:"boot"`     // ctrl: bootstrap statements (CREATE / SHOW CREATE DATABASE) the server saw
	SrvErrs  []string `json:"srv_errs,omitempty"`
	// kind "init": func initDB of package main (verbatim copy) with ctrl.Init recorded and ctrl.Rotate the real one
	InitFails bool `json:"init_fails,omitempty"` // input: ctrl.Init returns an error
	Init      *InitObs `json:"init,omitempty"`
}

// InitObs: what initDB did
type InitObs struct {
	Panicked      bool   `json:"panicked"`
	PanicText     string `json:"panic_text"`
	InitCalls     int    `json:"init_calls"`
	RotateCalls   int    `json:"rotate_calls"`
	InitFirst     bool   `json:"init_first"`   // Init had returned before Rotate was called
	SameCfg       bool   `json:"same_cfg"`     // both got the configuration initDB was given
	Projects      string `json:"projects"`     // the project names passed, joined by ","
}

var srv *tcpServer

// ctrlOnce: the real ctrl.Rotate (InitDB for every database, then RotateAll -> rotateDB -> ConnectV2 -> Rotate)
// through the real clickhouse-go client against the fake TCP server.
func ctrlOnce(f *fake, g *Glue, fault *Fault) (log []Call, failed bool, pnc string) {
	if srv == nil {
		var err error
		if srv, err = newTCPServer(); err != nil {
			return nil, true, "fake server: " + err.Error()
		}
		ctrllogger.Logger.SetOutput(io.Discard)
	}
	f.log, f.n, f.fault = nil, 0, fault
	srv.mu.Lock()
	srv.f, srv.boot, srv.errs = f, nil, nil
	srv.mu.Unlock()
	if g.Dbos == nil {
		g.Dbos = []Dbo{}
	}
	g.Env, g.EnvOut = []EnvVar{}, []Dbo{}
	base := toBase(g.Dbos)
	for i := range base {
		base[i].Host, base[i].Port = "127.0.0.1", srv.port()
		if g.Dbos[i].DB == "" {
			base[i].Name = "qryn_test"
		}
		base[i].User, base[i].Password = "default", ""
	}
	g.Parsed = parseTable(g.Dbos)
	pnc = hx.Catch(func() {
		cfg := clconfig.New(clconfig.CLOKI_READER, nil, "", "")
		cfg.Setting.DATABASE_DATA = base
		err := ctrl.Rotate(cfg, "qryn")
		failed = err != nil
	})
	srv.mu.Lock()
	g.Boot, g.SrvErrs = len(srv.boot), srv.errs
	srv.f = nil
	srv.mu.Unlock()
	f.fault = nil
	return f.log, failed, pnc
}

// initOnce: func initDB of package main, verbatim, on a configuration with the databases of g: boolEnv decides whether
// anything happens, ctrl.Init is recorded (and fails when told to), ctrl.Rotate is the real one over TCP.
func initOnce(f *fake, g *Glue, fault *Fault) (log []Call, failed bool, pnc string) {
	if !glueGenerated {
		return nil, true, "glue not generated: build the harness through checks/c19.py"
	}
	if srv == nil {
		var err error
		if srv, err = newTCPServer(); err != nil {
			return nil, true, "fake server: " + err.Error()
		}
		ctrllogger.Logger.SetOutput(io.Discard)
	}
	f.log, f.n, f.fault = nil, 0, fault
	srv.mu.Lock()
	srv.f, srv.boot, srv.errs = f, nil, nil
	srv.mu.Unlock()
	if g.Dbos == nil {
		g.Dbos = []Dbo{}
	}
	if g.Env == nil {
		g.Env = []EnvVar{}
	}
	g.EnvOut = []Dbo{}
	base := toBase(g.Dbos)
	for i := range base {
		base[i].Host, base[i].Port = "127.0.0.1", srv.port()
		if g.Dbos[i].DB == "" {
			base[i].Name = "qryn_test"
		}
		base[i].User, base[i].Password = "default", ""
	}
	g.Parsed = parseTable(g.Dbos)
	for _, b := range base { // every configured database exists on the server (and is reported) even if no statement reaches it
		f.use(dbKey(b.Name))
	}
	f.use("")
	obs := &InitObs{}
	g.Init = obs
	cfg := clconfig.New(clconfig.CLOKI_READER, nil, "", "")
	cfg.Setting.DATABASE_DATA = base
	same := true
	projects := []string{}
	gluectrl.InitHook = func(c *clconfig.ClokiConfig, project string) error {
		obs.InitCalls++
		same = same && c == cfg
		projects = append(projects, project)
		if g.InitFails {
			return errors.New("injected: ctrl.Init failed")
		}
		return nil
	}
	initReturned := false
	gluectrl.RotateHook = func(c *clconfig.ClokiConfig, project string) error {
		obs.RotateCalls++
		obs.InitFirst = initReturned
		same = same && c == cfg
		projects = append(projects, project)
		return ctrl.Rotate(c, project)
	}
	for _, k := range append([]string{"OMIT_CREATE_TABLES"}, envVars...) {
		os.Unsetenv(k)
	}
	for _, kv := range g.Env {
		os.Setenv(kv.K, kv.V)
	}
	// initReturned: Init has returned by the time Rotate is called iff its call count is 1 then
	wrapInit := gluectrl.InitHook
	gluectrl.InitHook = func(c *clconfig.ClokiConfig, project string) error {
		err := wrapInit(c, project)
		initReturned = true
		return err
	}
	p := hx.Catch(func() { initDB(cfg) })
	for _, kv := range g.Env {
		os.Unsetenv(kv.K)
	}
	obs.Panicked, obs.PanicText = p != "", p
	obs.SameCfg = same
	obs.Projects = strings.Join(projects, ",")
	srv.mu.Lock()
	g.Boot, g.SrvErrs = len(srv.boot), srv.errs
	srv.f = nil
	srv.mu.Unlock()
	f.fault = nil
	return f.log, obs.Panicked, ""
}

var envVars = []string{"CLICKHOUSE_DB", "CLUSTER_NAME", "CLICKHOUSE_SERVER", "CLICKHOUSE_PORT", "CLICKHOUSE_AUTH",
	"ADVANCED_SAMPLES_ORDERING", "CLICKHOUSE_PROTO", "SELF_SIGNED_CERT", "key", "SAMPLES_DAYS", "STORAGE_POLICY"}

// dbKey: the fake's database for a configured database name: the names the harness gives to distinguished databases
// start with "vdb_"; every other name (qryn, cloki, CLICKHOUSE_DB ...) means the history's only database "".
func dbKey(name string) string {
	if strings.HasPrefix(name, "vdb_") {
		return name
	}
	return ""
}

func toBase(dbos []Dbo) []config.ClokiBaseDataBase {
	out := []config.ClokiBaseDataBase{}
	for _, d := range dbos {
		name := "qryn"
		if d.DB != "" {
			name = d.DB
		}
		o := config.ClokiBaseDataBase{Name: name, Host: "localhost", Port: 9000,
			ClusterName: d.Cluster, TTLDays: d.TTLDays, StoragePolicy: d.Policy}
		for _, e := range d.TTLPolicy {
			o.TTLPolicy = append(o.TTLPolicy, struct {
				Timeout string `json:"ttl_policy" mapstructure:"ttl_policy" default:""`
				MoveTo  string `json:"move_to" mapstructure:"move_to" default:""`
			}{e.Timeout, e.MoveTo})
		}
		out = append(out, o)
	}
	return out
}

func fromBase(base []config.ClokiBaseDataBase) []Dbo {
	out := []Dbo{}
	for _, b := range base {
		d := Dbo{Cluster: b.ClusterName, TTLDays: b.TTLDays, Policy: b.StoragePolicy, TTLPolicy: []TTLElem{}, DB: dbKey(b.Name)}
		for _, e := range b.TTLPolicy {
			d.TTLPolicy = append(d.TTLPolicy, TTLElem{e.Timeout, e.MoveTo})
		}
		out = append(out, d)
	}
	return out
}

func parseTable(dbos []Dbo) []Parsed {
	seen := map[string]bool{}
	out := []Parsed{}
	for _, d := range dbos {
		for _, e := range d.TTLPolicy {
			if seen[e.Timeout] {
				continue
			}
			seen[e.Timeout] = true
			v, err := time.ParseDuration(e.Timeout)
			out = append(out, Parsed{S: e.Timeout, OK: err == nil, NS: int64(v)})
		}
	}
	return out
}

// glueOnce runs the extracted code on f; same observations as rotateOnce.
func glueOnce(f *fake, g *Glue, fault *Fault) (log []Call, failed bool, pnc string) {
	if g.Kind == "ctrl" {
		return ctrlOnce(f, g, fault)
	}
	if g.Kind == "init" {
		return initOnce(f, g, fault)
	}
	if !glueGenerated {
		return nil, true, "glue not generated: build the harness through checks/c19.py"
	}
	f.log = nil
	f.n = 0
	f.fault = fault
	g.Connects = 0
	gluemaint.Connect = func(dbObject *config.ClokiBaseDataBase, database bool) (clickhouse.Conn, error) {
		g.Connects++
		f.use(dbKey(dbObject.Name))
		return f, nil
	}
	if g.Dbos == nil {
		g.Dbos = []Dbo{}
	}
	if g.Env == nil {
		g.Env = []EnvVar{}
	}
	g.EnvOut = []Dbo{}
	pnc = hx.Catch(func() {
		base := toBase(g.Dbos)
		if g.Kind == "env" {
			for _, k := range envVars {
				os.Unsetenv(k)
			}
			for _, kv := range g.Env {
				os.Setenv(kv.K, kv.V)
			}
			cfg := clconfig.New(clconfig.CLOKI_READER, nil, "", "")
			cfg.Setting.DATABASE_DATA = base
			err := portCHEnv(cfg)
			for _, k := range envVars {
				os.Unsetenv(k)
			}
			g.EnvErr = err != nil
			g.EnvOut = fromBase(cfg.Setting.DATABASE_DATA)
			if err != nil {
				failed = true
				return
			}
			base = cfg.Setting.DATABASE_DATA
		}
		g.Parsed = parseTable(fromBase(base))
		err := RotateAll(base, nolog{})
		failed = err != nil
	})
	if g.Parsed == nil {
		g.Parsed = []Parsed{}
	}
	f.fault = nil
	return f.log, failed, pnc
}

// ---------------------------------------------------------------- generators

var goodTimeouts = []string{"1h", "24h", "36h", "90m", "45s", "30s", "1h30m", "168h", "720h", "8760h", "876000h",
	"2562047h", "1.5h", "0.5m", "1m0.5s", "100ms", "-5m", "+2h", "0", "86400s", "86399s", "60s", "59s", "61s",
	"2147483647s", "2147483648s", "1us", "1µs", "1.h", "23h59m59.999999999s", "1440m", "2h45m30s"}
var badTimeouts = []string{"", " ", "7d", "1w", "60", "1 h", "h", ".h", "1h ", "2562048h", "abc", "1hh", "30D", "1H",
	"1h;", "--1h", "1e3s", "9223372036854775808ns", "１h"}

func genTimeout(r *rand.Rand, bad bool) string {
	if bad {
		return badTimeouts[r.Intn(len(badTimeouts))]
	}
	if r.Intn(4) == 0 {
		units := []string{"ns", "us", "ms", "s", "m", "h"}
		s := ""
		for i, n := 0, 1+r.Intn(2); i < n; i++ {
			s += fmt.Sprintf("%d%s", r.Intn(100000), units[r.Intn(len(units))])
		}
		return s
	}
	return goodTimeouts[r.Intn(len(goodTimeouts))]
}

func genDbo(r *rand.Rand, allowBad bool) Dbo {
	d := Dbo{TTLPolicy: []TTLElem{}}
	if r.Intn(10) < 4 {
		d.Cluster = clusters[r.Intn(len(clusters))]
	}
	n := r.Intn(4)
	for i := 0; i < n; i++ {
		bad := allowBad && r.Intn(6) == 0
		e := TTLElem{Timeout: genTimeout(r, bad), MoveTo: disks[r.Intn(len(disks))]}
		if bad && r.Intn(3) == 0 { // a blank element
			e = TTLElem{}
		}
		d.TTLPolicy = append(d.TTLPolicy, e)
	}
	switch r.Intn(20) {
	case 0:
		d.TTLDays = 0
	case 1:
		d.TTLDays = -r.Intn(30)
	default:
		d.TTLDays = 1 + r.Intn(3650)
	}
	if r.Intn(10) < 6 {
		d.Policy = policies[r.Intn(len(policies))]
	}
	return d
}

func mutateDbo(r *rand.Rand, d Dbo) Dbo {
	e := d
	e.TTLPolicy = append([]TTLElem{}, d.TTLPolicy...)
	switch r.Intn(5) {
	case 0:
		e.TTLDays = 1 + r.Intn(3650)
	case 1:
		if e.Policy == "" || r.Intn(2) == 0 {
			e.Policy = policies[r.Intn(len(policies))]
		} else {
			e.Policy = ""
		}
	case 2:
		if len(e.TTLPolicy) > 0 {
			e.TTLPolicy[r.Intn(len(e.TTLPolicy))].Timeout = genTimeout(r, r.Intn(5) == 0)
		} else {
			e.TTLPolicy = append(e.TTLPolicy, TTLElem{genTimeout(r, false), disks[r.Intn(len(disks))]})
		}
	case 3:
		if len(e.TTLPolicy) > 0 {
			e.TTLPolicy = e.TTLPolicy[:len(e.TTLPolicy)-1]
		} else {
			e.TTLPolicy = append(e.TTLPolicy, TTLElem{})
		}
	case 4:
		if e.Cluster == "" {
			e.Cluster = clusters[r.Intn(len(clusters))]
		} else {
			e.Cluster = ""
		}
	}
	return e
}

var daysTexts = []string{"7", "30", "0", "-1", "+14", "365", "007", "1_000", " 7", "7 ", "7d", "1e3", "3.5",
	"9223372036854775807", "9223372036854775808", "-9223372036854775808", "-9223372036854775809",
	"99999999999999999999", "0x10", "٣", "-", "+", "1-", "999999999999999999", "1000000000000000000"}
var portTexts = []string{"9000", "9440", "abc", "70000", "4294967295", "4294967296", "-1", "+9000", "0", " 9000", "9_000"}
var keyTexts = []string{"yes", "maybe", "0", "true", "n", "TRUE", "1"}

func genEnv(r *rand.Rand) []EnvVar {
	m := map[string]string{}
	if r.Intn(10) < 7 {
		if r.Intn(3) == 0 {
			m["SAMPLES_DAYS"] = fmt.Sprint(r.Intn(4000) - 20)
		} else {
			m["SAMPLES_DAYS"] = daysTexts[r.Intn(len(daysTexts))]
		}
	}
	if r.Intn(2) == 0 {
		m["STORAGE_POLICY"] = policies[r.Intn(len(policies))]
	}
	if r.Intn(10) < 4 {
		m["CLUSTER_NAME"] = clusters[r.Intn(len(clusters))]
	}
	if r.Intn(4) == 0 {
		m["CLICKHOUSE_PORT"] = portTexts[r.Intn(len(portTexts))]
	}
	if r.Intn(5) == 0 {
		m["SELF_SIGNED_CERT"] = []string{"true", "x", "0"}[r.Intn(3)]
	}
	if r.Intn(5) == 0 {
		m["key"] = keyTexts[r.Intn(len(keyTexts))]
	}
	if r.Intn(6) == 0 {
		m["CLICKHOUSE_PROTO"] = []string{"https", "tls", "http"}[r.Intn(3)]
	}
	if r.Intn(6) == 0 {
		m["CLICKHOUSE_DB"] = "qryn"
	}
	if r.Intn(8) == 0 {
		m["CLICKHOUSE_AUTH"] = []string{"default:pw", "user", "a:b:c"}[r.Intn(3)]
	}
	ks := []string{}
	for k := range m {
		ks = append(ks, k)
	}
	sort.Strings(ks)
	out := []EnvVar{}
	for _, k := range ks {
		out = append(out, EnvVar{k, m[k]})
	}
	return out
}

// genGlueSeq: a history of 1..5 runs through RotateAll / portCHEnv with configuration changes and faults.
func genGlueSeq(r *rand.Rand, id int) Case {
	c := Case{ID: id, Class: "glue-all"}
	f := newFake()
	env := r.Intn(3) == 0
	if env {
		c.Class = "glue-env"
	}
	viaCtrl := !env && r.Intn(2) == 0
	if viaCtrl {
		c.Class = "glue-ctrl"
	}
	cur := []Dbo{genDbo(r, true)}
	if r.Intn(5) == 0 {
		cur = append(cur, genDbo(r, true))
		c.Class += "+multi"
	}
	curEnv := genEnv(r)
	n := 1 + r.Intn(5)
	for i := 0; i < n; i++ {
		if i > 0 {
			switch x := r.Intn(10); {
			case x < 4:
			case x < 8:
				cur = append([]Dbo{}, cur...)
				j := r.Intn(len(cur))
				cur[j] = mutateDbo(r, cur[j])
				if env {
					curEnv = genEnv(r)
				}
			default:
				cur = []Dbo{genDbo(r, true)}
				curEnv = genEnv(r)
			}
		}
		g := &Glue{Kind: "all", Dbos: cur}
		if viaCtrl {
			g.Kind = "ctrl"
		}
		if env {
			g = &Glue{Kind: "env", Env: curEnv, Dbos: []Dbo{}}
			if r.Intn(8) == 0 {
				g.Dbos = cur // DATABASE_DATA came from a configuration file: portCHEnv leaves it alone
			}
		}
		run := Run{Glue: g}
		if r.Intn(100) < 25 {
			h := f.clone()
			gg := *g
			log, _, _ := glueOnce(h, &gg, nil)
			run.Fault = &Fault{At: r.Intn(len(log) + 1), Eff: r.Intn(10) < 3}
		}
		gg := *g
		glueOnce(f, &gg, run.Fault)
		c.Runs = append(c.Runs, run)
	}
	return c
}

// genInitSeq: a history of 1..4 process starts: func initDB of package main on a configuration with one to three
// databases (each with a state of its own on the server; two objects may name the same database), the boolEnv
// variable ("key"; OMIT_CREATE_TABLES itself is not what boolEnv reads), a failing ctrl.Init, faults.
func genInitSeq(r *rand.Rand, id int) Case { return genInitSeqL(r, id, false) }

// genInitSeqL: forceShared = the layout "several databases on ONE ClickHouse cluster" (one database per tenant, or logs and
// traces kept apart): two or three objects with DIFFERENT database names and the SAME non-empty cluster_name. The free
// generator draws that layout in about one history of twenty only (round 8: seeded C19-h, RotateAll skipping an object whose
// cluster_name was "already rotated", went unseen), so half of the histories with several objects are forced into it, and
// the harness emits a few of them before anything else, whatever the seed.
func genInitSeqL(r *rand.Rand, id int, forceShared bool) Case {
	c := Case{ID: id, Class: "glue-init"}
	f := newFake()
	dbNames := []string{"vdb_a", "vdb_b", "vdb_c"}
	n := 1 + r.Intn(3)
	if forceShared && n < 2 {
		n = 2
	}
	shared := n > 1 && (forceShared || r.Intn(2) == 0)
	cur := []Dbo{}
	perm := r.Perm(len(dbNames))
	cluster := clusters[r.Intn(len(clusters))]
	sameRetention := shared && r.Intn(3) == 0
	for i := 0; i < n; i++ {
		d := genDbo(r, r.Intn(4) == 0 && !(shared && i == 0))
		d.DB = dbNames[r.Intn(len(dbNames))]
		if shared {
			if i > 0 && sameRetention { // the tenants of one cluster configured alike: same retention, different databases
				d = cur[0]
				d.TTLPolicy = append([]TTLElem{}, cur[0].TTLPolicy...)
			}
			d.DB, d.Cluster = dbNames[perm[i]], cluster
		}
		cur = append(cur, d)
	}
	if n > 1 {
		c.Class += "+multi"
	}
	if shared {
		c.Class += "+one-cluster-several-databases"
	}
	if sameRetention {
		c.Class += "+same-retention"
	}
	genKey := func() []EnvVar {
		out := []EnvVar{}
		switch r.Intn(10) {
		case 0:
			out = append(out, EnvVar{"key", []string{"yes", "true", "1", "y"}[r.Intn(4)]})
		case 1:
			out = append(out, EnvVar{"key", []string{"maybe", "TRUE", "2"}[r.Intn(3)]})
		case 2:
			out = append(out, EnvVar{"key", []string{"no", "0", "false", "n"}[r.Intn(4)]})
		}
		if r.Intn(4) == 0 {
			out = append(out, EnvVar{"OMIT_CREATE_TABLES", []string{"true", "false", "junk"}[r.Intn(3)]})
		}
		return out
	}
	runs := 1 + r.Intn(4)
	for i := 0; i < runs; i++ {
		if i > 0 && r.Intn(10) < 5 {
			cur = append([]Dbo{}, cur...)
			j := r.Intn(len(cur))
			db, cl := cur[j].DB, cur[j].Cluster
			cur[j] = mutateDbo(r, cur[j])
			cur[j].DB = db
			if shared {
				cur[j].Cluster = cl
			}
		}
		g := &Glue{Kind: "init", Dbos: cur, Env: genKey(), InitFails: r.Intn(12) == 0}
		run := Run{Glue: g}
		if r.Intn(100) < 25 {
			h := f.clone()
			gg := *g
			log, _, _ := glueOnce(h, &gg, nil)
			run.Fault = &Fault{At: r.Intn(len(log) + 1), Eff: r.Intn(10) < 3}
		}
		gg := *g
		glueOnce(f, &gg, run.Fault)
		c.Runs = append(c.Runs, run)
	}
	return c
}
