// Package gluemaint stands in for github.com/metrico/qryn/ctrl/maintenance in the verbatim copy of
// rotateDB that checks/c19.py extracts from ctrl/qryn/maintenance/maintain.go and compiles into the
// rotate harness (go build -overlay): ConnectV2 hands out the harness's fake connection instead of
// dialling ClickHouse. Nothing else of that package is used by rotateDB / RotateAll.
package gluemaint

import (
	"github.com/ClickHouse/clickhouse-go/v2"
	"github.com/metrico/cloki-config/config"
)

// Connect is set by the harness before it calls the extracted code.
var Connect func(dbObject *config.ClokiBaseDataBase, database bool) (clickhouse.Conn, error)

func ConnectV2(dbObject *config.ClokiBaseDataBase, database bool) (clickhouse.Conn, error) {
	return Connect(dbObject, database)
}
