// Package coqx prints Go values as terms of the Coq models, in Coq syntax (for case files
// evaluated by coqc) or in OCaml syntax (for case files compiled against the extracted models).
package coqx

import (
	"fmt"
	"strings"
)

// Syn selects the concrete syntax.
type Syn struct{ ML bool }

var Coq = Syn{false}
var ML = Syn{true}

// Str renders arbitrary bytes as a string term.
func (y Syn) Str(s string) string {
	if y.ML {
		var b strings.Builder
		b.WriteString(`(s "`)
		for i := 0; i < len(s); i++ {
			c := s[i]
			if c >= 32 && c < 127 && c != '"' && c != '\\' {
				b.WriteByte(c)
			} else {
				b.WriteString(fmt.Sprintf(`\%03d`, c))
			}
		}
		b.WriteString(`")`)
		return b.String()
	}
	return Str(s)
}

// Str renders arbitrary bytes as a Coq string term (string_scope open, `String`/`ascii_of_nat` in scope).
func Str(s string) string {
	plain := true
	for i := 0; i < len(s); i++ {
		c := s[i]
		if c < 32 || c >= 127 || c == '"' {
			plain = false
			break
		}
	}
	if plain {
		return `"` + s + `"`
	}
	var parts []string
	var cur strings.Builder
	flush := func() {
		if cur.Len() > 0 {
			parts = append(parts, `"`+cur.String()+`"`)
			cur.Reset()
		}
	}
	for i := 0; i < len(s); i++ {
		c := s[i]
		if c >= 32 && c < 127 && c != '"' {
			cur.WriteByte(c)
		} else {
			flush()
			parts = append(parts, fmt.Sprintf("(String (ascii_of_nat %d) EmptyString)", c))
		}
	}
	flush()
	if len(parts) == 1 {
		return parts[0]
	}
	return "(" + strings.Join(parts, " ++ ") + ")%string"
}

func (y Syn) Z(n int64) string {
	if y.ML {
		return fmt.Sprintf("(z (%d))", n)
	}
	return Z(n)
}
func (y Syn) N(n uint64) string {
	if y.ML {
		return fmt.Sprintf("(n %d)", n)
	}
	return fmt.Sprintf("%d%%N", n)
}

func Z(n int64) string {
	if n < 0 {
		return fmt.Sprintf("(%d)%%Z", n)
	}
	return fmt.Sprintf("%d%%Z", n)
}

func Bool(b bool) string {
	if b {
		return "true"
	}
	return "false"
}
func (y Syn) Bool(b bool) string { return Bool(b) }

func List(xs []string) string         { return "[" + strings.Join(xs, "; ") + "]" }
func (y Syn) List(xs []string) string { return List(xs) }

func (y Syn) Some(x string) string { return "(Some " + x + ")" }
func (y Syn) None() string         { return "None" }
func (y Syn) Pair(a, b string) string { return "(" + a + ", " + b + ")" }

// Ctor applies a constructor: Coq `(C a b)`, OCaml `(C (a, b))`.
func (y Syn) Ctor(name string, args ...string) string {
	if len(args) == 0 {
		return name
	}
	if y.ML {
		if len(args) == 1 {
			return "(" + name + " " + args[0] + ")"
		}
		return "(" + name + " (" + strings.Join(args, ", ") + "))"
	}
	return "(" + name + " " + strings.Join(args, " ") + ")"
}

// Rec builds a record from alternating field names and values.
func (y Syn) Rec(kv ...string) string {
	var fs []string
	for i := 0; i+1 < len(kv); i += 2 {
		if y.ML {
			fs = append(fs, kv[i]+" = "+kv[i+1])
		} else {
			fs = append(fs, kv[i]+" := "+kv[i+1])
		}
	}
	if y.ML {
		return "{ " + strings.Join(fs, "; ") + " }"
	}
	return "{| " + strings.Join(fs, "; ") + " |}"
}

func OptStr(s *string) string {
	if s == nil {
		return "None"
	}
	return "(Some " + Str(*s) + ")"
}
