// Package hx: helpers shared by the correspondence harness commands.
package hx

import (
	"bufio"
	"encoding/hex"
	"encoding/json"
	"flag"
	"fmt"
	"math/rand"
	"os"
)

// Flags common to all harness commands.
type Flags struct {
	Seed  int64
	N     int
	Out   string
	Cases string
}

func ParseFlags() *Flags {
	f := &Flags{}
	flag.Int64Var(&f.Seed, "seed", 1, "PRNG seed (every random choice derives from it)")
	flag.IntVar(&f.N, "n", 100, "number of generated cases")
	flag.StringVar(&f.Out, "out", "-", "output file (JSON lines), - for stdout")
	flag.StringVar(&f.Cases, "cases", "", "run the cases of this JSON-lines file instead of generating")
	flag.Parse()
	return f
}

func Rand(seed int64) *rand.Rand { return rand.New(rand.NewSource(seed)) }

// Writer of JSON lines.
type Out struct {
	f *os.File
	w *bufio.Writer
}

func OpenOut(path string) *Out {
	if path == "-" || path == "" {
		return &Out{f: os.Stdout, w: bufio.NewWriterSize(os.Stdout, 1<<20)}
	}
	f, err := os.Create(path)
	if err != nil {
		panic(err)
	}
	return &Out{f: f, w: bufio.NewWriterSize(f, 1<<20)}
}

func (o *Out) Put(v interface{}) {
	b, err := json.Marshal(v)
	if err != nil {
		panic(err)
	}
	o.w.Write(b)
	o.w.WriteByte('\n')
}

func (o *Out) Close() {
	o.w.Flush()
	if o.f != os.Stdout {
		o.f.Close()
	}
}

// ReadLines decodes every JSON line of path into fresh values made by mk.
func ReadLines(path string, each func(line []byte)) {
	f, err := os.Open(path)
	if err != nil {
		panic(err)
	}
	defer f.Close()
	sc := bufio.NewScanner(f)
	sc.Buffer(make([]byte, 1<<20), 1<<28)
	for sc.Scan() {
		if len(sc.Bytes()) == 0 {
			continue
		}
		b := append([]byte(nil), sc.Bytes()...)
		each(b)
	}
}

// Hex transports arbitrary byte strings.
func Hex(s string) string { return hex.EncodeToString([]byte(s)) }
func UnHex(s string) string {
	b, err := hex.DecodeString(s)
	if err != nil {
		panic(err)
	}
	return string(b)
}

// Catch runs f and reports a panic as a string.
func Catch(f func()) (p string) {
	defer func() {
		if r := recover(); r != nil {
			p = fmt.Sprint(r)
		}
	}()
	f()
	return ""
}
