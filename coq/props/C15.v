(* Property C15 — query responses are always one well-formed document of the documented shape.
   Only statements; proofs by reference to proofs/JsonStreamProofs.v.

   Reading guide: [enc_* bs] is the token stream the hand-written encoder emits for the batches
   [bs] of result rows (flag variables transcribed from the Go code), [render] turns tokens into
   the bytes jsoniter writes, [parse_bytes] is an independent JSON reader (RFC 8259 lexer +
   LL(1) parser), [doc_* bs] is the intended document: rows grouped by runs of equal fingerprint. *)
From Coq Require Import List NArith ZArith Bool Ascii String.
From Qryn Require Import model.GoFloat model.JsonStream proofs.JsonStreamProofs proofs.JsonSpliceProofs
  proofs.GoFloatProofs proofs.JsonNumProofs proofs.JsonSeriesProofs proofs.GoMarshalProofs proofs.GoFloatReadProofs proofs.GoFloatRoundProofs
  proofs.GoFloatExactProofs proofs.GoFloatShortestProofs proofs.GoFloatMsProofs model.RespOptimizer proofs.RespOptimizerProofs model.JsonPyro proofs.JsonPyroProofs proofs.TraceqlDurationProofs model.TracePb proofs.TracePbProofs proofs.TraceChunkProofs.
Import ListNotations.
Open Scope string_scope.
Open Scope list_scope.

(* jsoniter-escaped strings decode to the original bytes, whatever the bytes are: the reader,
   started after the opening quote of [quote s], returns exactly [s] and stops after the closing quote *)
Theorem string_escaping : forall s rest,
  lex_str (quote_body s ++ String (chr 34) rest)%string = Some (s, rest).
Proof. exact lex_str_quote_body. Qed.
Print Assumptions string_escaping.

(* the same for strings written by encoding/json.Marshal (labels, label values, tempo tags after fix
   #24): the reader returns the string with every byte that is not part of a valid UTF-8 sequence
   replaced by U+FFFD (JSON text is UTF-8), and exactly the original bytes for ASCII strings *)
Theorem string_escaping_gojson : forall s rest,
  lex_str (gojson_body s ++ String (chr 34) rest)%string = Some (sanitize s, rest).
Proof. intros s rest. exact (lex_str_gj (String.length s) s rest (le_n _)). Qed.
Print Assumptions string_escaping_gojson.

Theorem gojson_ascii_lossless : forall s, all_ascii s = true -> sanitize s = s.
Proof. exact sanitize_ascii. Qed.
Print Assumptions gojson_ascii_lossless.
Example gojson_utf8_lossless :
  let s := String (chr 195) (String (chr 169) (String (chr 226) (String (chr 128) (String (chr 168)
             (String (chr 240) (String (chr 159) (String (chr 152) (String (chr 128) "<&>")))))))) in
  sanitize s = s /\ all_ascii "a""\<" = true.
Proof. split; reflexivity. Qed.

(* any document whose numbers are JSON numbers, serialised canonically and rendered the jsoniter
   way, is read back as exactly that document (lexer and parser are inverse to the printer) *)
Theorem reader_inverts_printer : forall d, nums_ok d = true -> parse_bytes (render (tokens_of d)) = Some d.
Proof. exact parse_bytes_render. Qed.
Print Assumptions reader_inverts_printer.

(* ... and the reader accepts nothing else: a token list is read as d exactly when, white space and
   quoting style aside, it is the canonical serialisation of d (so the specification oracle cannot
   accept a malformed body) *)
Theorem reader_accepts_only_canonical : forall ts d, parse ts = Some d <-> prep ts = tokens_of d.
Proof. exact parse_iff. Qed.
Print Assumptions reader_accepts_only_canonical.

(* the lexer is compositional: two texts that are readable on their own are readable when joined,
   as the concatenation of their tokens, provided the second does not start with a number character *)
Theorem lexer_compositional : forall a b ta tb,
  lex_bytes a = Some ta -> lex_bytes b = Some tb -> delim_start b = true ->
  lex_bytes (a ++ b)%string = Some (ta ++ tb).
Proof. exact lex_bytes_app. Qed.
Print Assumptions lexer_compositional.

(* exportStreamsValue: for every list of batches without a failing entry (any number of series, any
   distribution over batches, empty batches, batch boundaries inside a series, io.EOF markers
   anywhere, fingerprint 0 anywhere) the body is ONE JSON document, namely the intended one *)
Theorem doc_wellformed_streams : forall bs, forallb (forallb no_fail) bs = true ->
  parse_bytes (render (enc_streams cur_hdr bs)) = Some (doc_streams bs).
Proof. exact streams_bytes. Qed.
Print Assumptions doc_wellformed_streams.

(* one frame of Tail *)
Theorem doc_wellformed_tail : forall bs, forallb (forallb no_fail) bs = true ->
  parse_bytes (render (enc_tail cur_hdr bs)) = Some (doc_tail bs).
Proof. exact tail_bytes. Qed.
Print Assumptions doc_wellformed_tail.

(* the matrix writer of QueryRange; the texts printed by fmt %f are JSON numbers (hypothesis on the
   float printer, checked on every generated case) *)
Theorem doc_wellformed_matrix : forall bs, forallb (forallb no_fail) bs = true ->
  forallb (fun e => num_ok (e_tsf e)) (rows_matrix bs) = true ->
  parse_bytes (render (enc_matrix bs)) = Some (doc_matrix bs).
Proof. exact matrix_bytes. Qed.
Print Assumptions doc_wellformed_matrix.
Example matrix_guard_met :
  let e := {| e_fp := 0; e_lbls := [("a", "b")]; e_ts := 1500; e_msg := ""; e_tsf := "0.000002"; e_val := "1e+21"; e_err := ENone |} in
  forallb (forallb no_fail) [[e]; []; [e]] = true /\ forallb (fun e => num_ok (e_tsf e)) (rows_matrix [[e]; []; [e]]) = true.
Proof. split; reflexivity. Qed.

(* QueryInstant, vector branch. [order] is the iteration order of the Go map of latest samples; for
   every order the body is one document with one object per picked fingerprint ... *)
Theorem doc_wellformed_vector : forall order bs, forallb (forallb no_fail) bs = true ->
  forallb (fun e => num_ok (e_tsf e)) (rows_matrix bs) = true ->
  parse_bytes (render (enc_vector order bs)) = Some (doc_vector order bs).
Proof. exact vector_bytes. Qed.
Print Assumptions doc_wellformed_vector.

(* ... the map holds every fingerprint of the rows exactly once, with a sample no other row of that
   fingerprint is newer than; an order that enumerates the map's fingerprints yields exactly them *)
Theorem vector_one_per_fingerprint : forall es,
  NoDup (map e_fp (last_values es)) /\ (forall f, In f (map e_fp es) -> In f (map e_fp (last_values es))).
Proof. intros es. split; [apply last_values_nodup|apply last_values_complete]. Qed.
Print Assumptions vector_one_per_fingerprint.

Theorem vector_latest_sample : forall es x y, In x (last_values es) -> In y es -> e_fp y = e_fp x ->
  In x es /\ (e_ts y <= e_ts x)%Z.
Proof. intros es x y Hx Hy E. split; [now apply last_values_in|now apply (last_values_latest es x y)]. Qed.
Print Assumptions vector_latest_sample.

Theorem vector_order_respected : forall order m,
  (forall f, In f order -> In f (map e_fp m)) -> map e_fp (pick order m) = order.
Proof. exact pick_fps. Qed.
Print Assumptions vector_order_respected.

(* Prometheus query responses (writeResponse -> writeMatrix / writeVector / writeScalar) and PromError:
   any list of series, any label slices (duplicate names included), any number of points *)
Theorem doc_wellformed_prom_matrix : forall ss, series_nums_ok ss = true ->
  parse_bytes (render (enc_prom_matrix ss)) = Some (doc_prom_matrix ss).
Proof. exact prom_matrix_bytes. Qed.
Print Assumptions doc_wellformed_prom_matrix.

Theorem doc_wellformed_prom_vector : forall ss, series_nums_ok ss = true ->
  parse_bytes (render (enc_prom_vector ss)) = Some (doc_prom_vector ss).
Proof. exact prom_vector_bytes. Qed.
Print Assumptions doc_wellformed_prom_vector.

Theorem doc_wellformed_prom_scalar : forall p, num_ok (ps_t p) = true ->
  parse_bytes (render (enc_prom_scalar p)) = Some (doc_prom_scalar p).
Proof. exact prom_scalar_bytes. Qed.
Print Assumptions doc_wellformed_prom_scalar.

Theorem doc_wellformed_prom_error : forall msg,
  parse_bytes (render (enc_prom_error msg)) = Some (doc_prom_error msg).
Proof. exact prom_error_bytes. Qed.
Print Assumptions doc_wellformed_prom_error.
Example prom_guard_met :
  series_nums_ok [{| pr_lbls := [("a", "b"); ("a", "c")]; pr_pts := [{| ps_t := "1.5"; ps_v := "NaN" |}; {| ps_t := "1e-07"; ps_v := "2" |}] |};
                  {| pr_lbls := []; pr_pts := [] |}] = true.
Proof. reflexivity. Qed.

(* list endpoints. Tempo tag names / tag values (TempoController.Tags, Values) and Loki/Prometheus
   labels / label values (GenericLabelReq): for every list of byte strings the body is one document
   holding the (sanitised) strings in order *)
Theorem doc_wellformed_tempo_tags : forall key xs,
  parse_bytes (render (enc_tempo_list key xs)) = Some (doc_tempo_list key xs).
Proof. exact tempo_list_bytes. Qed.
Print Assumptions doc_wellformed_tempo_tags.

Theorem doc_wellformed_labels : forall xs, parse_bytes (render (enc_labels xs)) = Some (doc_labels xs).
Proof. exact labels_bytes. Qed.
Print Assumptions doc_wellformed_labels.

(* splicing endpoints: /series writes the stored label documents verbatim, the tempo Trace (JSON) and
   Search handlers write what json.Marshal produced for every span / trace, between hand-written
   chunks and commas. Whenever every piece is itself a JSON value not starting with a number
   character (an object, as all of these are), the body is the one intended document *)
Theorem doc_wellformed_series : forall xs ds, Forall2 piece_ok xs ds ->
  parse_bytes (enc_series_bytes xs) = Some (doc_series_of ds).
Proof. exact JsonSpliceProofs.series_bytes. Qed.
Print Assumptions doc_wellformed_series.

Theorem doc_wellformed_trace : forall xs ds, Forall2 piece_ok xs ds ->
  parse_bytes (enc_trace_bytes xs) = Some (doc_trace_of ds).
Proof. exact trace_bytes. Qed.
Print Assumptions doc_wellformed_trace.

Theorem doc_wellformed_search : forall xs ds, Forall2 piece_ok xs ds ->
  parse_bytes (enc_search_bytes xs) = Some (doc_search_of ds).
Proof. exact search_bytes. Qed.
Print Assumptions doc_wellformed_search.
Example pieces_met :
  Forall2 piece_ok ["{""a"":""b""}"; " {""x"" : [1, 2.5e3, true, null], ""y"": ""\ud83d\ude00""} "; "{}"]
                   [JObj [("a", JStr "b")];
                    JObj [("x", JArr [JNum "1"; JNum "2.5e3"; JBool true; JNull]);
                          ("y", JStr (String (chr 240) (String (chr 159) (String (chr 152) (String (chr 128) EmptyString)))))];
                    JObj []].
Proof. repeat constructor; vm_compute; reflexivity. Qed.
(* ... and it is not when a spliced text is not JSON: what /series did before the repair c1ef9d9 with the
   strconv.Quote text the writer stored (C04 #12); the handler no longer splices, see doc_wellformed_series_reencoded *)
Example series_with_bad_stored_text : parse_bytes (enc_series_bytes ["{""a"":""\x01""}"]) = None.
Proof. vm_compute. reflexivity. Qed.

(* regression witness of defect #24: what strconv.Quote wrote for the tag a<01>b is not JSON *)
Example strconv_quote_is_not_json : parse_bytes "{""tagNames"": [""a\x01b""]}" = None.
Proof. vm_compute. reflexivity. Qed.

(* content: reading the (labels, value) rows back out of the document gives every input row
   exactly once and in input order (values), with the labels of its own entry whenever labels are
   a function of the fingerprint *)
Theorem doc_content_values : forall key vd es,
  map snd (rows_of_result (map (series_doc key vd) (group es))) = map vd es.
Proof. exact rows_of_result_values. Qed.
Print Assumptions doc_content_values.

Theorem doc_content_rows : forall key vd es,
  (forall a b, In a es -> In b es -> e_fp a = e_fp b -> e_lbls a = e_lbls b) ->
  rows_of_result (map (series_doc key vd) (group es)) = map (row_doc vd) es.
Proof. exact rows_of_result_rows. Qed.
Print Assumptions doc_content_rows.

(* grouping: neighbouring objects never carry the same fingerprint (a run is never split), and when
   equal fingerprints are contiguous in the input (ORDER BY fingerprint) no fingerprint gets two objects *)
Theorem run_never_split : forall es g1 g2 gs, group es = g1 :: g2 :: gs -> e_fp (fst g1) <> e_fp (fst g2).
Proof. exact group_adjacent. Qed.
Print Assumptions run_never_split.

Theorem one_object_per_stream_partial : forall es, fps_contiguous (map e_fp es) -> NoDup (heads es).
Proof. exact one_object_per_fingerprint. Qed.
Print Assumptions one_object_per_stream_partial.
(* and conversely: no fingerprint gets two objects exactly when equal fingerprints are contiguous *)
Theorem one_object_per_stream_iff : forall es, NoDup (heads es) <-> fps_contiguous (map e_fp es).
Proof. exact one_object_iff_contiguous. Qed.
Print Assumptions one_object_per_stream_iff.

(* the unconditional statement is false: rows of one fingerprint separated by another one give two
   objects (an upstream stage that regroups rows in windows can deliver that) *)
Theorem one_object_per_stream_refuted : exists es, ~ NoDup (heads es).
Proof. eexists. exact heads_split_example. Qed.
Print Assumptions one_object_per_stream_refuted.

(* timestamps of log lines (fmt %d of an int64) are rendered without loss *)
Theorem timestamp_text_lossless : forall z,
  match DecimalString.NilZero.int_of_string (fmt_d z) with Some d => Z.of_int d = z | None => False end.
Proof. exact fmt_d_lossless. Qed.
Print Assumptions timestamp_text_lossless.

Example contiguous_met : fps_contiguous [0; 0; 7]%N.
Proof.
  intros a f b c E x Hx. destruct a as [|a0 a].
  - cbn in E. injection E as <- E. destruct b as [|b0 b]; [destruct Hx|]. cbn in E. injection E as <- E.
    destruct Hx as [<-|Hx]; [reflexivity|]. destruct b as [|b1 b]; [destruct Hx|]. cbn in E. injection E as <- E.
    destruct b; discriminate E.
  - cbn in E. injection E as <- E. destruct a as [|a1 a].
    + cbn in E. injection E as <- E. destruct b as [|b0 b]; [destruct Hx|]. cbn in E. injection E as <- E.
      destruct b; discriminate E.
    + cbn in E. injection E as <- E. destruct a as [|a2 a].
      * cbn in E. injection E as <- E. destruct b; discriminate E.
      * cbn in E. injection E as <- E. destruct a; discriminate E.
Qed.

(* ------------------------------------------------------------------------------------------ *)
(* number texts. model/GoFloat.v computes every number text of a response from the number itself:
   float64(TimestampNS)/1e9 and float64(T)/1000 with IEEE rounding, fmt %f, strconv.FormatFloat(v,'f',-1,64),
   jsoniter WriteFloat64, %d / WriteInt64 (tied byte for byte to the Go library functions by the kind numfmt
   of the correspondence, and to Coq's SpecFloat for the two quotients). *)

(* grammar: every text of the layout  -? digits (. digits)?  that the printers produce is a JSON number
   (n / 10^k: the integer part is "0" or starts with a non-zero digit, k fraction digits) ... *)
Theorem number_text_plain_decimal : forall neg n k, (0 <= n)%Z -> num_ok (fixed_text neg n k) = true.
Proof. exact fixed_text_num_ok. Qed.
Print Assumptions number_text_plain_decimal.

(* ... and so is the 'e' layout  -? d (. ddd)? e [+-] dd+  WriteFloat64 switches to below 1e-6 / from 1e21 on *)
Theorem number_text_exponent : forall neg D P, (0 <= D)%Z -> num_ok (exp_text neg D P) = true.
Proof. exact exp_text_num_ok. Qed.
Print Assumptions number_text_exponent.

(* %d / WriteInt64 of any integer *)
Theorem int_text_is_number : forall z, num_ok (int_text z) = true.
Proof. exact int_text_num_ok. Qed.
Print Assumptions int_text_is_number.

(* every printer, on every finite float64 (any sign, denormals, the largest and smallest magnitudes): a JSON number.
   For NaN and the infinities %f and 'f' -1 print NaN, +Inf, -Inf and WriteFloat64 prints nothing: the encoders put
   such values between quotes only (sample values are strings in the Loki / Prometheus shape) *)
Theorem float_texts_are_numbers : forall bits, fl_finite (fl_of_bits bits) = true ->
  num_ok (f6_text (fl_of_bits bits)) = true /\ num_ok (shortest_text (fl_of_bits bits)) = true /\
  num_ok (wfloat64_text (fl_of_bits bits)) = true.
Proof.
  intros bits H. pose proof (fl_of_bits_nonneg bits) as Hn.
  split; [apply f6_text_num_ok|split; [apply shortest_text_num_ok|apply wfloat64_text_num_ok]]; assumption.
Qed.
Print Assumptions float_texts_are_numbers.
Example float_texts_met :
  fl_finite (fl_of_bits 1) = true /\ fl_finite (fl_of_bits 9218868437227405311) = true /\
  wfloat64_text (fl_of_bits 1) = "5e-324" /\ f6_text (fl_of_bits 4575657221408423936) = "0.007812" /\
  shortest_text (fl_of_bits 4591870180066957722) = "0.1" /\ shortest_text (fl_of_bits 9221120237041090560) = "NaN".
Proof. repeat split; vm_compute; reflexivity. Qed.

(* the timestamps the writers print in number position, for EVERY integer: %f of float64(ns)/1e9 (matrix),
   WriteFloat64 and %f of float64(ms)/1000 (Prometheus) *)
Theorem timestamp_texts_are_numbers : forall t,
  num_ok (f6_text (ts_seconds t)) = true /\ num_ok (wfloat64_text (ms_seconds t)) = true /\ num_ok (f6_text (ms_seconds t)) = true.
Proof. intros t. split; [apply ts_text_num_ok|apply ms_text_num_ok]. Qed.
Print Assumptions timestamp_texts_are_numbers.

(* sample values are rendered without loss: the decimal FormatFloat(v,'f',-1,64) prints lies in the rounding
   interval of v (between the midpoints to the two neighbouring float64 values, the midpoints included exactly when
   the mantissa is even), so every correctly rounding reader (strconv.ParseFloat, an IEEE 754 strtod) returns v *)
Theorem value_text_lossless : forall m e, (0 < m)%Z ->
  in_interval (interval m e) (fst (shortest m e)) (snd (shortest m e)) = true.
Proof. exact shortest_in_interval. Qed.
Print Assumptions value_text_lossless.
Example value_text_lossless_met :   (* 0.1 = 7205759403792794 * 2^-56: the decimal 1 * 10^-1; MaxFloat64: 17 digits *)
  shortest 7205759403792794 (-56) = (1, -1)%Z /\ shortest 9007199254740991 971 = (17976931348623157, 292)%Z.
Proof. split; vm_compute; reflexivity. Qed.

(* the row encoders with the texts computed from the rows: no hypothesis on number texts is left.
   QueryRange matrix: any batches of rows without a failing entry, any int64 timestamps, any float64 bit patterns *)
Theorem doc_wellformed_matrix_rows : forall bs, rows_no_fail bs = true ->
  parse_bytes (render (enc_matrix (rows_with matrix_row bs))) = Some (doc_matrix (rows_with matrix_row bs)).
Proof. exact matrix_rows_bytes. Qed.
Print Assumptions doc_wellformed_matrix_rows.

Theorem doc_wellformed_vector_rows : forall order bs, rows_no_fail bs = true ->
  parse_bytes (render (enc_vector order (rows_with vector_row bs))) = Some (doc_vector order (rows_with vector_row bs)).
Proof. exact vector_rows_bytes. Qed.
Print Assumptions doc_wellformed_vector_rows.
Example rows_guard_met :
  let r := {| r_fp := 0; r_lbls := [("a", "b")]; r_ts := (-9223372036854775808)%Z; r_msg := ""; r_bits := 9221120237041090560; r_err := ENone |} in
  rows_no_fail [[r]; []; [r]] = true /\
  map (map e_tsf) (rows_with matrix_row [[r]]) = [["-9223372036.854776"]] /\ map (map e_val) (rows_with matrix_row [[r]]) = [["NaN"]] /\
  map (map e_tsf) (rows_with vector_row [[r]]) = [["-9223372036"]].
Proof. repeat split; vm_compute; reflexivity. Qed.

(* Prometheus writers: any series (label slices, int64 millisecond timestamps, float64 values) *)
Theorem doc_wellformed_prom_matrix_rows : forall bs ls,
  parse_bytes (render (enc_prom_matrix (series_of bs ls))) = Some (doc_prom_matrix (series_of bs ls)).
Proof. exact prom_matrix_rows_bytes. Qed.
Print Assumptions doc_wellformed_prom_matrix_rows.

Theorem doc_wellformed_prom_vector_rows : forall bs ls,
  parse_bytes (render (enc_prom_vector (series_of bs ls))) = Some (doc_prom_vector (series_of bs ls)).
Proof. exact prom_vector_rows_bytes. Qed.
Print Assumptions doc_wellformed_prom_vector_rows.

Theorem doc_wellformed_prom_scalar_row : forall r,
  parse_bytes (render (enc_prom_scalar (prom_scalar_of r))) = Some (doc_prom_scalar (prom_scalar_of r)).
Proof. exact prom_scalar_row_bytes. Qed.
Print Assumptions doc_wellformed_prom_scalar_row.

(* /loki/api/v1/series after the repair: every stored label text is decoded (JSON, or the strconv.Quote form of
   rows written before the writer was repaired; a text that is neither is skipped) and the label map is encoded again
   with json.Marshal. For EVERY list of label maps - any bytes in names and values - the body is one document:
   the maps in order, names and values with invalid UTF-8 replaced by U+FFFD. No hypothesis on stored texts is left. *)
Theorem doc_wellformed_series_reencoded : forall ms, parse_bytes (render (enc_series ms)) = Some (doc_series ms).
Proof. exact series_reencoded_bytes. Qed.
Print Assumptions doc_wellformed_series_reencoded.
Example series_reencoded_met :
  render (enc_series [[("a", String (chr 1) "")]; []]) = "{""status"":""success"", ""data"":[{""a"":""\u0001""},{}]}".
Proof. vm_compute. reflexivity. Qed.

(* ------------------------------------------------------------------------------------------ *)
(* tempo Trace (JSON) and Search with the json.Marshal-ed struct values modelled as field walks (names, order, omitempty,
   nil slice = null; strings through encoding/json's escaper, integers %d, float64 in encoding/json's layout): the
   hypothesis "every spliced piece is a JSON value" of doc_wellformed_trace / _search is discharged.
   [tokensJ_of v] is what json.Marshal writes for the value v, [sanitize_doc v] what a reader decodes. *)

(* generic: whatever values are marshalled between the hand-written chunks, if their numbers are JSON numbers *)
Theorem doc_wellformed_search_marshalled : forall vs, forallb nums_ok vs = true ->
  parse_bytes (render (enc_search vs)) = Some (doc_search_of (map sanitize_doc vs)).
Proof. exact search_marshalled_bytes. Qed.
Print Assumptions doc_wellformed_search_marshalled.

Theorem doc_wellformed_trace_marshalled : forall vs, forallb nums_ok vs = true ->
  parse_bytes (render (enc_trace vs)) = Some (doc_trace_of (map sanitize_doc vs)).
Proof. exact trace_marshalled_bytes. Qed.
Print Assumptions doc_wellformed_trace_marshalled.

(* Search by tags: EVERY list of model.TraceResponse values (any bytes in the names, any int64) *)
Theorem doc_wellformed_search_tags : forall ts,
  parse_bytes (render (enc_search (map trace_response_val ts))) =
  Some (doc_search_of (map sanitize_doc (map trace_response_val ts))).
Proof. exact search_tags_bytes. Qed.
Print Assumptions doc_wellformed_search_tags.

(* Search by TraceQL: every list of model.TraceInfo values (nil or non-nil span sets, spans, attributes) whose
   durationMs is finite; json.Marshal refuses NaN / infinities and the handler ignores that error (see design.d) *)
Theorem doc_wellformed_search_traceql : forall ts, forallb (fun t => fl_finite (fl_of_bits (ti_dur t))) ts = true ->
  parse_bytes (render (enc_search (map trace_info_val ts))) =
  Some (doc_search_of (map sanitize_doc (map trace_info_val ts))).
Proof. exact search_traceql_bytes. Qed.
Print Assumptions doc_wellformed_search_traceql.
Example traceql_guard_met :
  let set := {| ss_spans := None; ss_matched := 1 |} in
  let t := {| ti_id := "ab"; ti_svc := String (chr 255) "<"; ti_name := ""; ti_start := "17"; ti_dur := 4502148214488346440;
              ti_set := set; ti_sets := None |} in
  forallb (fun t => fl_finite (fl_of_bits (ti_dur t))) [t] = true /\
  render (tokensJ_of (trace_info_val t)) =
  "{""traceID"":""ab"",""rootServiceName"":""\ufffd\u003c"",""rootTraceName"":"""",""startTimeUnixNano"":""17"",""durationMs"":1e-7,""spanSet"":{""spans"":null,""matched"":1},""spanSets"":null}".
Proof. split; vm_compute; reflexivity. Qed.

(* Trace: EVERY list of model.JSONSpan values (parentSpanId and status present or omitted, any attributes and events) *)
Theorem doc_wellformed_trace_spans : forall ss,
  parse_bytes (render (enc_trace (map jspan_val ss))) = Some (doc_trace_of (map sanitize_doc (map jspan_val ss))).
Proof. exact trace_spans_bytes. Qed.
Print Assumptions doc_wellformed_trace_spans.

(* encoding/json prints every finite float64 as a JSON number *)
Theorem gojson_float_is_number : forall bits, fl_finite (fl_of_bits bits) = true ->
  num_ok (gojson_float_text (fl_of_bits bits)) = true.
Proof. exact gojson_float_text_num_ok. Qed.
Print Assumptions gojson_float_is_number.

(* ------------------------------------------------------------------------------------------ *)
(* number texts read back. [read_fixed] reads  -? digits (. digits)?  as (sign, all digits as one integer, number of
   fraction digits). The layout is exact: the text of n / 10^k reads back as (n, k) ... *)
Theorem plain_decimal_reads_back : forall neg n k, (0 <= n)%Z -> read_fixed (fixed_text neg n k) = Some (neg, n, k).
Proof. exact read_fixed_text. Qed.
Print Assumptions plain_decimal_reads_back.

(* ... so the 'f' -1 text of a float64 denotes exactly the decimal D * 10^P of value_text_lossless (n / 10^k = D * 10^P):
   sample values are rendered without loss *)
Theorem value_text_reads_back : forall neg D P, (0 <= D)%Z ->
  exists n k, read_fixed (fixed_of_dec neg D P) = Some (neg, n, k) /\
              (n * 10 ^ Z.max (- P) 0 = D * 10 ^ Z.max P 0 * 10 ^ Z.of_nat k)%Z.
Proof. exact fixed_of_dec_reads_back. Qed.
Print Assumptions value_text_reads_back.

(* ... and the %f text of a matrix / scalar timestamp denotes exactly the float64 quotient rounded half-to-even at the
   sixth decimal (microseconds): what is lost is the rounding of float64(ns)/1e9 itself and the digits after the sixth *)
Theorem f6_text_reads_back : forall neg m e, (0 <= m)%Z ->
  read_fixed (f6_text (FFin neg m e)) =
  Some (neg, round_half_even (m * 1000000 * 2 ^ Z.max e 0) (2 ^ Z.max (- e) 0), 6%nat).
Proof. exact f6_reads_back. Qed.
Print Assumptions f6_text_reads_back.
Example f6_reads_back_met :   (* 1700000000.123456789 s: the float64 quotient is 1700000000.1234567165..., printed to the microsecond *)
  ts_seconds 1700000000123456789 = FFin false 7130316800517815 (-22) /\
  read_fixed (f6_text (ts_seconds 1700000000123456789)) = Some (false, 1700000000123457%Z, 6%nat).
Proof. split; vm_compute; reflexivity. Qed.

(* the keep-alive frame of the Tail websocket is the Tail frame of no rows *)
Example tail_keepalive_frame : render (enc_tail cur_hdr []) = "{""streams"":[]}".
Proof. vm_compute. reflexivity. Qed.

(* a response written by one json.Marshal: the bytes are the one document the value decodes to ... *)
Theorem doc_wellformed_marshalled_value : forall v, nums_ok v = true ->
  parse_bytes (render (tokensJ_of v)) = Some (sanitize_doc v).
Proof. exact marshal_value_bytes. Qed.
Print Assumptions doc_wellformed_marshalled_value.

(* ... TempoController.TagsV2 and ValuesV2 (map[string]any with sorted keys, the collected slice nil = null when empty),
   for every list of byte strings *)
Theorem doc_wellformed_tempo_tags_v2 : forall xs,
  parse_bytes (render (tokensJ_of (tagsv2_val xs))) = Some (sanitize_doc (tagsv2_val xs)) /\
  parse_bytes (render (tokensJ_of (valuesv2_val xs))) = Some (sanitize_doc (valuesv2_val xs)).
Proof. intros xs. split; [apply tagsv2_bytes|apply valuesv2_bytes]. Qed.
Print Assumptions doc_wellformed_tempo_tags_v2.
Example tags_v2_met :
  render (tokensJ_of (tagsv2_val [])) = "{""scopes"":[{""name"":""unscoped"",""tags"":null}]}" /\
  render (tokensJ_of (valuesv2_val ["a<"; String (chr 200) ""])) =
  "{""tagValues"":[{""type"":""string"",""value"":""a\u003c""},{""type"":""string"",""value"":""\ufffd""}]}".
Proof. split; vm_compute; reflexivity. Qed.

(* Trace from the OTLP spans: unmarshal.SpanToJSONSpan is part of the model ([span_to_jspan]: hex ids, parentSpanId dropped when
   empty or all zero, the last non-empty service.name, attribute values as text: %v of bool / int64 / float64, base64 of bytes);
   for EVERY list of spans the body is one document *)
Theorem doc_wellformed_trace_otlp : forall spans,
  parse_bytes (render (enc_trace (map (fun o => jspan_val (span_to_jspan o)) spans))) =
  Some (doc_trace_of (map sanitize_doc (map (fun o => jspan_val (span_to_jspan o)) spans))).
Proof. intros spans. rewrite <- (map_map span_to_jspan jspan_val). exact (trace_spans_bytes (map span_to_jspan spans)). Qed.
Print Assumptions doc_wellformed_trace_otlp.
Example span_conversion_met :
  let o := {| o_trace := String (chr 171) "A"; o_span := "z"; o_parent := String (chr 0) (String (chr 0) ""); o_name := "n";
              o_start := 5%Z; o_end := 7%Z;
              o_attrs := [("service.name", OStr "svc"); ("d", ODouble 4728779608739020800); ("y", OBytes "Ma"); ("b", OBool true)];
              o_events := []; o_status := None |} in
  render (tokensJ_of (jspan_val (span_to_jspan o))) =
  "{""traceID"":""ab41"",""traceId"":""ab41"",""spanID"":""7a"",""spanId"":""7a"",""name"":""n"",""startTimeUnixNano"":5,""endTimeUnixNano"":7,""parentSpanId"":""0000"",""serviceName"":""svc"",""attributes"":[{""key"":""service.name"",""value"":{""stringValue"":""svc""}},{""key"":""d"",""value"":{""stringValue"":""1.34217728e+08""}},{""key"":""y"",""value"":{""stringValue"":""TWE=""}},{""key"":""b"",""value"":{""stringValue"":""true""}}],""events"":[]}".
Proof. vm_compute. reflexivity. Qed.

(* the canned answer of Query for the probe vector(1)+vector(1) is the vector body of one sample without labels (the clock's
   second, value 2): an instance of doc_wellformed_vector_rows *)
Example shortcut_is_a_vector_body :
  let r := {| r_fp := 0; r_lbls := []; r_ts := 1700000000000000000%Z; r_msg := ""; r_bits := 4611686018427387904; r_err := ENone |} in
  render (enc_vector [0%N] (rows_with vector_row [[r]])) =
  "{""status"":""success"",""data"":{""resultType"":""vector"",""result"":[{""metric"":{},""value"":[1700000000,""2""]}]}}".
Proof. vm_compute. reflexivity. Qed.

(* integers (%d of the log timestamps in nanoseconds, WriteInt64 of the vector timestamps in whole seconds) read back exactly *)
Theorem int_text_lossless : forall z, read_fixed (int_text z) = Some ((z <? 0)%Z, Z.abs z, O).
Proof. exact int_text_reads_back. Qed.
Print Assumptions int_text_lossless.

(* the two canned bodies of the label service are the encoders' bodies of no item: Values with an empty label name
   writes the literal of GenericLabelReq without rows, Series without match[] the literal of Series without rows *)
Example canned_label_bodies :
  render (enc_labels []) = "{""status"": ""success"",""data"": []}" /\
  render (enc_series []) = "{""status"":""success"", ""data"":[]}".
Proof. split; vm_compute; reflexivity. Qed.

(* the rounding of model/GoFloat.v (float64(int64), float64(ns)/1e9, float64(ms)/1000) is correct rounding: the result
   m * 2^e of [rne a b] is within half a unit of the last place of a / b, i.e. |m * 2^e - a/b| <= 2^e / 2, for all positive a, b
   (stated without fractions; the agreement with Coq's IEEE 754 specification is evaluated on every generated timestamp) *)
Theorem float_quotient_correctly_rounded : forall a b, (0 < a)%Z -> (0 < b)%Z ->
  (2 * Z.abs (fst (rne a b) * 2 ^ Z.max (snd (rne a b)) 0 * b - a * 2 ^ Z.max (- snd (rne a b)) 0)
   <= b * 2 ^ Z.max (snd (rne a b)) 0)%Z.
Proof. exact rne_half_ulp. Qed.
Print Assumptions float_quotient_correctly_rounded.
Example rne_met : rne 1700000000123456789 1 = (6640625000482253, 8)%Z /\ rne 1 1000 = (4611686018427388, -62)%Z.
Proof. split; vm_compute; reflexivity. Qed.

(* ------------------------------------------------------------------------------------------ *)
(* "rendered without loss", matrix timestamps: fmt.Sprintf("%f", float64(TimestampNS)/1e9). Both float operations round
   (the conversion from 2^53 ns on, the division always), and still: a microsecond-aligned TimestampNS in [0, 2^61)
   (until the year 2043) is printed as exactly that many microseconds - for every such timestamp, not per case *)
Theorem matrix_timestamp_microseconds_exact : forall u, (0 <= u)%Z -> (1000 * u < 2 ^ 61)%Z ->
  read_fixed (f6_text (ts_seconds (1000 * u))) = Some (false, u, 6%nat).
Proof. exact f6_timestamp_exact. Qed.
Print Assumptions matrix_timestamp_microseconds_exact.
Example matrix_timestamp_met : (0 <= 1727740800654321)%Z /\ (1000 * 1727740800654321 < 2 ^ 61)%Z /\
  f6_text (ts_seconds (1000 * 1727740800654321)) = "1727740800.654321" /\
  fl_of_int (1000 * 1727740800654321) <> FFin false (1000 * 1727740800654321) 0.   (* beyond 2^53: the conversion itself rounds *)
Proof. split; [|split; [|split]]; vm_compute; congruence. Qed.

(* the oracle evaluated on every generated matrix row can never fire *)
Theorem matrix_timestamp_oracle_holds : forall ts, ts_us_exact ts = true.
Proof. exact ts_us_exact_holds. Qed.
Print Assumptions matrix_timestamp_oracle_holds.

(* and for EVERY TimestampNS in [0, 2^61), aligned or not: the text is within 866 ns of the timestamp (half a microsecond of
   the format plus 0.366 us of the two float roundings) *)
Theorem matrix_timestamp_error_bound : forall ts, (0 <= ts < 2 ^ 61)%Z ->
  exists n, read_fixed (f6_text (ts_seconds ts)) = Some (false, n, 6%nat) /\ (Z.abs (n * 1000 - ts) <= 866)%Z.
Proof. exact f6_timestamp_error_bound. Qed.
Print Assumptions matrix_timestamp_error_bound.

(* Prometheus timestamps: WriteFloat64(float64(T)/1000) of an int64 millisecond timestamp. Below 2^43 seconds (the year 280 700)
   two neighbouring float64 values are less than a millisecond apart and the shortest decimal of the quotient is T/1000 itself:
   the text denotes exactly T milliseconds, for every such T *)
Theorem prom_timestamp_milliseconds_exact : forall t, (0 <= t < 2 ^ 43 * 1000)%Z ->
  exists n k, read_fixed (wfloat64_text (ms_seconds t)) = Some (false, n, k) /\ (n * 1000 = t * 10 ^ Z.of_nat k)%Z.
Proof. exact ms_timestamp_exact. Qed.
Print Assumptions prom_timestamp_milliseconds_exact.
Example prom_timestamp_met : (0 <= 1727740800123 < 2 ^ 43 * 1000)%Z /\ wfloat64_text (ms_seconds 1727740800123) = "1727740800.123".
Proof. split; [split|]; vm_compute; congruence. Qed.

(* the oracle evaluated on every generated Prometheus point can never fire *)
Theorem prom_timestamp_oracle_holds : forall t, ms_exact t = true.
Proof. exact ms_exact_holds. Qed.
Print Assumptions prom_timestamp_oracle_holds.

(* the bound claimed earlier (2^53 ms) is false: from 2^43 s on float64 values are 1/512 s apart and
   8796093022208001 ms is printed as 8796093022208.002 (inherent to seconds-as-float64, the format of the Prometheus API) *)
Theorem prom_timestamp_exact_below_2p53_refuted : exists t, (0 <= t < 2 ^ 53)%Z /\ ms_exact_2p53 t = false.
Proof. exact ms_exact_2p53_refuted. Qed.
Print Assumptions prom_timestamp_exact_below_2p53_refuted.

(* strconv's shortest formatting (every sample value, every Prometheus timestamp): the fall-back of [shortest] (the exact
   expansion, taken when the 17-position search finds nothing or its result fails the final interval test) is unreachable:
   for every finite non-zero float64 bit pattern the search succeeds, its stripped result lies in the rounding interval, and
   that is what [shortest] returns *)
Theorem shortest_fallback_unreachable : forall b neg m e, fl_of_bits b = FFin neg m e ->
  let iv := interval m e in
  let P := (dec_exp (iv_xn iv) (iv_den iv) - 1)%Z in
  exists D P',
    search 17 (iv_incl iv) P (iv_xn iv * 10 ^ Z.max (- P) 0)%Z (iv_ln iv * 10 ^ Z.max (- P) 0)%Z
           (iv_un iv * 10 ^ Z.max (- P) 0)%Z (10 ^ Z.max P 0 * iv_den iv)%Z = Some (D, P')
    /\ in_interval iv (fst (strip_zeros 20 D P')) (snd (strip_zeros 20 D P')) = true
    /\ shortest m e = strip_zeros 20 D P'.
Proof. exact shortest_no_fallback_bits. Qed.
Print Assumptions shortest_fallback_unreachable.
Example shortest_met : fl_of_bits 4591870180066957722 = FFin false 7205759403792794 (-56) /\ shortest 7205759403792794 (-56) = (1, -1)%Z /\
  fl_of_bits 1 = FFin false 1 (-1074) /\ shortest 1 (-1074) = (5, -324)%Z.
Proof. repeat split; vm_compute; reflexivity. Qed.

(* ------------------------------------------------------------------------------------------ *)
(* The stage in front of exportStreamsValue: internal_planner.ResponseOptimizerPlanner regroups the rows by fingerprint in
   windows of (at least) 3000 rows and hands the encoder one channel batch per fingerprint and window, in the order the Go map
   is visited. [optimize thr os bs]: threshold, observed visiting order (any), the channel batches it receives.
   For EVERY threshold, every split of the rows into channel batches and every visiting order: *)

(* every row is handed on exactly once (as a multiset), and the rows of one stream keep their order *)
Theorem optimizer_rows_once : forall thr os bs, Permutation.Permutation (rows_streams (optimize thr os bs)) (rows_streams bs).
Proof. exact optimize_live_rows_once. Qed.
Print Assumptions optimizer_rows_once.

Theorem optimizer_rows_per_stream_in_order : forall thr os bs f,
  filter (fp_is f) (rows_streams (optimize thr os bs)) = filter (fp_is f) (rows_streams bs).
Proof. exact optimize_live_rows_per_stream. Qed.
Print Assumptions optimizer_rows_per_stream_in_order.

(* every batch it sends is non-empty and carries one fingerprint *)
Theorem optimizer_batches_one_stream : forall thr os bs b, In b (optimize thr os bs) ->
  b <> [] /\ exists k, forall e, In e b -> e_fp e = k.
Proof. exact optimize_batches_one_stream. Qed.
Print Assumptions optimizer_batches_one_stream.

(* the response of the pipeline is one document, the intended document of the batches handed on ... *)
Theorem doc_wellformed_streams_optimized : forall thr os bs, forallb (forallb no_fail) bs = true ->
  parse_bytes (render (enc_streams cur_hdr (optimize thr os bs))) = Some (doc_streams (optimize thr os bs)).
Proof. exact optimized_streams_bytes. Qed.
Print Assumptions doc_wellformed_streams_optimized.

(* ... whose rows, read back in document order, are the rows handed on (= the rows received, see above) *)
Theorem doc_content_rows_optimized : forall thr os bs,
  (forall a b, In a (List.concat bs) -> In b (List.concat bs) -> e_fp a = e_fp b -> e_lbls a = e_lbls b) ->
  rows_of_result (map (series_doc "stream" log_value_doc) (group (rows_streams (optimize thr os bs)))) =
  map (row_doc log_value_doc) (rows_streams (optimize thr os bs)).
Proof. exact optimized_document_rows. Qed.
Print Assumptions doc_content_rows_optimized.

(* exactly one object per stream as long as no window is closed before the input ends (fewer rows than the threshold),
   whatever the batching and the visiting order *)
Theorem one_object_per_stream_optimized_partial : forall thr os bs, (total_rows bs < thr)%Z ->
  NoDup (heads (rows_streams (optimize thr os bs))).
Proof. exact optimize_one_object_per_stream. Qed.
Print Assumptions one_object_per_stream_optimized_partial.
Example optimized_guard_met : (total_rows ex_bs < flush_threshold)%Z /\
  map (map e_ts) (optimize flush_threshold [22; 11; 0]%N ex_bs) = [[3; 5; 6]; [1; 2; 4; 7]; [0]]%Z.
Proof. split; vm_compute; reflexivity. Qed.

(* at the threshold of the code the unconditional statement is false, and no visiting order saves it: 3000 rows of two streams
   in the first channel batch close a window, both streams have a row after it; one of them heads two objects
   (finding optimizer-window-splits-stream) *)
Theorem one_object_per_stream_optimized_refuted : exists bs, forall os,
  ~ NoDup (heads (rows_streams (optimize flush_threshold os bs))).
Proof. eexists. exact optimize_splits_streams_at_3000. Qed.
Print Assumptions one_object_per_stream_optimized_refuted.

(* channel batches never show: the body is a function of the row sequence alone - two ways of cutting the same rows into batches
   (any boundaries, empty batches, io.EOF markers anywhere) give the same bytes; with doc_wellformed_* and doc_content_rows:
   every row once and one object per run of equal fingerprints, for every batching *)
Theorem streams_batching_invisible : forall bs bs',
  forallb (forallb no_fail) bs = true -> forallb (forallb no_fail) bs' = true ->
  rows_streams bs = rows_streams bs' -> enc_streams cur_hdr bs = enc_streams cur_hdr bs'.
Proof. exact RespOptimizerProofs.streams_batching_invisible. Qed.
Print Assumptions streams_batching_invisible.
Theorem tail_batching_invisible : forall bs bs',
  forallb (forallb no_fail) bs = true -> forallb (forallb no_fail) bs' = true ->
  rows_streams bs = rows_streams bs' -> enc_tail cur_hdr bs = enc_tail cur_hdr bs'.
Proof. exact RespOptimizerProofs.tail_batching_invisible. Qed.
Print Assumptions tail_batching_invisible.
Theorem matrix_batching_invisible : forall bs bs',
  forallb (forallb no_fail) bs = true -> forallb (forallb no_fail) bs' = true ->
  rows_matrix bs = rows_matrix bs' -> enc_matrix bs = enc_matrix bs'.
Proof. exact RespOptimizerProofs.matrix_batching_invisible. Qed.
Print Assumptions matrix_batching_invisible.

(* ------------------------------------------------------------------------------------------ *)
(* the default: branch of unmarshal.SpanToJSONSpan (array / key-value list attribute values, an AnyValue without oneof):
   the attribute text, json.Marshal of the oneof wrapper, is itself ONE JSON document, the field walk [oval_json v] of the
   value, whenever no NaN / infinity sits anywhere inside ... *)
Theorem nested_attribute_text_is_json : forall v, oval_default v = true -> oval_finite v = true ->
  parse_bytes (oval_text v) = Some (sanitize_doc (oval_json v)).
Proof. exact nested_value_text_bytes. Qed.
Print Assumptions nested_attribute_text_is_json.
(* ... and the empty text otherwise (json.Marshal fails, SpanToJSONSpan drops the error) *)
Theorem nested_attribute_text_nonfinite_empty : forall v, oval_default v = true -> oval_finite v = false ->
  oval_text v = EmptyString.
Proof. exact nested_value_text_nonfinite. Qed.
Print Assumptions nested_attribute_text_nonfinite_empty.
Example nested_attribute_met : oval_default nested_example = true /\ oval_finite nested_example = true /\
  parse_bytes (oval_text nested_example) = Some (sanitize_doc (oval_json nested_example)).
Proof. exact nested_example_met. Qed.
Example nested_attribute_nan : oval_default (OArr [OInt 1; OKv [("a", Some (ODouble 9221120237041090560))]]) = true /\
  oval_finite (OArr [OInt 1; OKv [("a", Some (ODouble 9221120237041090560))]]) = false /\
  oval_text (OArr [OInt 1; OKv [("a", Some (ODouble 9221120237041090560))]]) = EmptyString.
Proof. vm_compute. repeat split. Qed.
(* the whole Trace body with such attributes: doc_wellformed_trace_otlp above, unchanged statement, now over the larger [oval] *)
Example span_with_nested_attribute :
  let o := {| o_trace := "t"; o_span := "s"; o_parent := ""; o_name := "n"; o_start := 1%Z; o_end := 2%Z;
              o_attrs := [("k", nested_example); ("u", OUnset); ("bad", OArr [ODouble 9218868437227405312])];
              o_events := []; o_status := None |} in
  parse_bytes (render (enc_trace [jspan_val (span_to_jspan o)])) = Some (doc_trace_of [sanitize_doc (jspan_val (span_to_jspan o))]) /\
  map sa_val (js_attrs (span_to_jspan o)) = [oval_text nested_example; "null"; ""].
Proof. vm_compute. split; reflexivity. Qed.

(* ------------------------------------------------------------------------------------------ *)
(* Search by TraceQL drops the error of json.Marshal(trace); the only value that can make it fail is a NaN / infinite
   durationMs. That value is the ClickHouse column toFloat64(<Int64 expression>) / 1000000 (text compared with the source on
   every run): an Int64 converted to Float64 and divided by a non-zero constant is finite, for every Int64 - the guard of
   doc_wellformed_search_traceql is met by everything the stored data can produce, the `[,]` body is unreachable *)
Theorem traceql_duration_always_finite : forall z c, fl_finite (fl_div_int (fl_of_int z) c) = true.
Proof. exact int_quotient_finite. Qed.
Print Assumptions traceql_duration_always_finite.

Theorem doc_wellformed_search_traceql_stored : forall ts, (forall t, In t ts -> duration_from_store (ti_dur t)) ->
  parse_bytes (render (enc_search (map trace_info_val ts))) = Some (doc_search_of (map sanitize_doc (map trace_info_val ts))).
Proof. exact search_traceql_stored_bytes. Qed.
Print Assumptions doc_wellformed_search_traceql_stored.
Example traceql_stored_guard_met : duration_from_store 4609434218613702656.   (* 1500000 ns: 1.5 ms *)
Proof. exact duration_from_store_met. Qed.

(* ------------------------------------------------------------------------------------------ *)
(* Pyroscope JSON bodies (reader/controller/profController.go). writeResponse for a JSON client is protojson.Marshal of the
   response message: [pyro_body sp v] are its bytes for the message v (a tree of fields in declaration order: lowerCamel names,
   unpopulated fields omitted, int64 between quotes, NaN / infinities as strings, protojson's own escaper [pj_body]); [sp] is the
   per-binary coin of protojson (a space after every comma): every theorem holds for both values. *)

(* protojson's escaper: the reader returns exactly the bytes (the message only reaches it when they are UTF-8) *)
Theorem pyro_string_escaping : forall s rest, lex_str (pj_body s ++ String (chr 34) rest)%string = Some (s, rest).
Proof. exact pj_string_escaping. Qed.
Print Assumptions pyro_string_escaping.

Theorem doc_wellformed_protojson : forall sp d, nums_ok d = true -> parse_bytes (render_pj (pj_tokens sp d)) = Some d.
Proof. exact protojson_bytes. Qed.
Print Assumptions doc_wellformed_protojson.

(* every message whose strings are UTF-8: one document, the protojson mapping of the message *)
Theorem doc_wellformed_pyro_response_partial : forall sp v, pj_bad v = None -> parse_bytes (pyro_body sp v) = Some (pj_json v).
Proof. exact pyro_ok_bytes. Qed.
Print Assumptions doc_wellformed_pyro_response_partial.

(* a message holding a string that is not UTF-8 is refused by Marshal: status 500, the body is one JSON string (the error text),
   none of the rows (finding pyro-invalid-utf8-answered-500) *)
Theorem pyro_refusal_is_one_string : forall sp v f, pj_bad v = Some f ->
  pyro_status v = 500%N /\ parse_bytes (pyro_body sp v) = Some (JStr (pj_err_msg sp f)).
Proof. exact pyro_refusal_bytes. Qed.
Print Assumptions pyro_refusal_is_one_string.

(* so "strings containing any bytes" is false of these endpoints: one stored label value with the byte 0xff and the
   body is not the document of the rows, for either coin *)
Theorem doc_wellformed_pyro_response_refuted : exists names, forall sp,
  parse_bytes (pyro_body sp (msg_label_values names)) <> Some (sanitize_doc (pj_json (msg_label_values names))).
Proof. exact pyro_any_bytes_refuted. Qed.
Print Assumptions doc_wellformed_pyro_response_refuted.

(* the endpoints, with the messages as the handlers and ProfService fill them *)
Theorem doc_wellformed_pyro_label_names : forall sp names, forallb utf8_ok names = true ->
  parse_bytes (pyro_body sp (msg_label_names names)) = Some (doc_label_names names).
Proof. exact label_names_bytes. Qed.
Print Assumptions doc_wellformed_pyro_label_names.

Theorem doc_wellformed_pyro_label_values : forall sp names, forallb utf8_ok names = true ->
  parse_bytes (pyro_body sp (msg_label_values names)) = Some (doc_label_values names).
Proof. exact label_values_bytes. Qed.
Print Assumptions doc_wellformed_pyro_label_values.

Theorem doc_wellformed_pyro_series : forall sp rows, pj_bad (msg_series rows) = None ->
  parse_bytes (pyro_body sp (msg_series rows)) = Some (pj_json (msg_series rows)).
Proof. exact JsonPyroProofs.series_bytes. Qed.
Print Assumptions doc_wellformed_pyro_series.

Theorem doc_wellformed_pyro_profile_types : forall sp rows, pj_bad (msg_profile_types rows) = None ->
  parse_bytes (pyro_body sp (msg_profile_types rows)) = Some (pj_json (msg_profile_types rows)).
Proof. exact profile_types_bytes. Qed.
Print Assumptions doc_wellformed_pyro_profile_types.

Theorem doc_wellformed_pyro_select_series : forall sp rows, pj_bad (msg_select_series rows) = None ->
  parse_bytes (pyro_body sp (msg_select_series rows)) = Some (pj_json (msg_select_series rows)).
Proof. exact select_series_bytes. Qed.
Print Assumptions doc_wellformed_pyro_select_series.

(* SelectSeries groups the rows by runs of equal fingerprint (`lastFp != fp || lastFp == 0`): every point is listed once, in order *)
Theorem pyro_select_series_every_point_once : forall rows, flat_map ps_points (select_series rows) = map row_point rows.
Proof. exact select_series_points. Qed.
Print Assumptions pyro_select_series_every_point_once.

(* /pyroscope/render-diff: json.NewEncoder(w).Encode(FlamebearerProfileV1), the encoding/json struct walk plus a line break:
   one document for EVERY profile value (names of any bytes, nil slices and maps, any numbers) *)
Theorem doc_wellformed_pyro_render_diff : forall p, parse_bytes (render (enc_render_diff p)) = Some (doc_render_diff p).
Proof. exact render_diff_bytes. Qed.
Print Assumptions doc_wellformed_pyro_render_diff.

(* the error answers (defaultError) after the repair: json.Marshal of the message is one JSON string for EVERY message ... *)
Theorem doc_wellformed_pyro_error_body : forall msg, parse_bytes (gojson_quote msg) = Some (JStr (sanitize msg)).
Proof. exact error_body_bytes. Qed.
Print Assumptions doc_wellformed_pyro_error_body.

(* ... while strconv.Quote, which it used before, is not JSON for some ASCII message (a query text with the byte 0x01 echoed
   by the parse error) and is the JSON string only for the safe characters *)
Theorem pyro_error_body_before_repair_refuted : exists msg, ascii_only msg = true /\ parse_bytes (go_quote_ascii msg) = None.
Proof. exact go_quote_not_json. Qed.
Print Assumptions pyro_error_body_before_repair_refuted.

(* ------------------------------------------------------------------------------------------ *)
(* Trace, protobuf branch (Accept: application/protobuf): the handler keeps a map service name -> ResourceSpans, appends every
   span of the channel to the entry of its service and marshals the map's values in map order. [group_by_service order spans]:
   the visiting order (any) and the channel content (service name bytes, span identity). For EVERY order and channel content:
   exactly one group per service name, a group exactly for the names present, the spans of a service in channel order, every
   span once, no empty group; the oracle the check runs on the decoded real body is sound, and accepts the model's document *)
Theorem trace_pb_one_group_per_service : forall order spans, NoDup (map fst (group_by_service order spans)).
Proof. exact groups_one_per_service. Qed.
Print Assumptions trace_pb_one_group_per_service.
Theorem trace_pb_group_iff_service : forall order spans s,
  In s (map fst (group_by_service order spans)) <-> In s (map fst spans).
Proof. exact groups_cover_services. Qed.
Print Assumptions trace_pb_group_iff_service.
Theorem trace_pb_spans_in_channel_order : forall order spans s,
  tp_get (group_by_service order spans) s = map snd (filter (fun p => String.eqb (fst p) s) spans).
Proof. exact groups_spans_in_order. Qed.
Print Assumptions trace_pb_spans_in_channel_order.
Theorem trace_pb_every_span_once : forall order spans,
  Permutation.Permutation (List.concat (map (fun g => map (fun x => (fst g, x)) (snd g)) (group_by_service order spans))) spans.
Proof. exact groups_every_span_once. Qed.
Print Assumptions trace_pb_every_span_once.
Theorem trace_pb_no_empty_group : forall order spans s l, In (s, l) (group_by_service order spans) -> l <> [].
Proof. exact groups_never_empty. Qed.
Print Assumptions trace_pb_no_empty_group.
Theorem trace_pb_oracle_sound : forall c, pb_violation c = false ->
  tp_status c = 200%Z /\ tp_valid c = true /\
  NoDup (map o_attr (tp_obs c)) /\
  (forall s, In s (map o_attr (tp_obs c)) <-> In s (map fst (tp_spans c))) /\
  (forall o, In o (tp_obs c) ->
     o_ids o = tp_ids_of (o_attr o) (tp_spans c) /\ o_ids o <> [] /\
     o_key o = tp_key_service_name /\ o_strval o = true /\ o_nattrs o = 1%N /\
     o_sname o = tp_scope_name /\ o_sver o = tp_scope_version /\ o_nscopes o = 1%N /\ o_extra o = 0%N) /\
  Permutation.Permutation (tp_flat (map obs_group (tp_obs c))) (tp_spans c).
Proof. exact pb_oracle_sound. Qed.
Print Assumptions trace_pb_oracle_sound.
Theorem trace_pb_model_passes_oracle : forall id order spans,
  pb_violation {| tp_id := id; tp_spans := spans; tp_badspan := false; tp_status := 200; tp_valid := true;
                  tp_obs := pb_doc order spans |} = false.
Proof. exact pb_doc_passes_oracle. Qed.
Print Assumptions trace_pb_model_passes_oracle.

(* round 8: TempoController.Trace (JSON branch) as a sequence of Write calls (proofs/TraceChunkProofs.v): the spans may be
   handed to the writer in pieces of ANY size (threshold thr; 0 = the code of today, one piece per span); with the comma keyed
   on "a span was already encoded" what the client reads is always the unchunked body of doc_wellformed_trace_* *)
Theorem trace_chunking_invisible : forall thr xs,
  sconcat (trace_writes thr xs) = enc_trace_bytes xs.
Proof. exact trace_chunked_is_unchunked. Qed.
Print Assumptions trace_chunking_invisible.
(* the comma keyed on "the buffer is not empty" (seeded change C15-h) agrees below the threshold ... *)
Theorem trace_comma_by_buffer_below_threshold : forall thr xs buf,
  (forall x, In x xs -> x <> "") ->
  (String.length (buf ++ bytes_loop xs (0 <? String.length buf)%nat) < thr)%nat ->
  chunk_loop_buf thr xs buf = chunk_loop thr xs (0 <? String.length buf)%nat buf.
Proof. exact chunk_loop_buf_below. Qed.
Print Assumptions trace_comma_by_buffer_below_threshold.
(* ... and loses the comma after every hand-over *)
Theorem trace_comma_by_buffer_refuted :
  exists thr xs, sconcat (trace_writes_buf thr xs) <> enc_trace_bytes xs /\
                 sconcat (trace_writes_buf thr xs) = (trace_hdr ++ "{}{}" ++ trace_ftr)%string.
Proof. exact trace_chunked_by_buffer_refuted. Qed.
Print Assumptions trace_comma_by_buffer_refuted.
