(* Property C16 -- profile call trees conserve weight from ingest to flame graph.
   Only statements; proofs by reference (proofs/PprofProofs.v, proofs/ProfTreeProofs.v).
   [h] is the hash of the 16-byte (parent id, function id) buffer: every theorem holds for every h.
   Values are int64: equalities are modulo 2^64 (wrap64), exactly what Go's += computes. *)
From Coq Require Import List NArith ZArith Bool.
From Coq Require Import Permutation.
From Qryn Require Import model.Pprof model.ProfTree model.ProfDiff model.ProfSql proofs.PprofProofs proofs.ProfTreeProofs proofs.ProfSqlProofs proofs.ProfDiffProofs proofs.ProfNestProofs model.ProfMerge proofs.ProfMergeProofs proofs.ProfDiffNestProofs.
Import ListNotations.
Open Scope Z_scope.

(* tree_conserves.  For every profile (any number of sample types, samples, stack depths, recursive
   and shared frames -- a stack is any list of function ids, a sample without locations is kept as one
   "n/a" frame: stored_tree = post_process on the normalized samples), every sample type k, and every hash h
   under which the node id determines the parent on the (parent, function, depth) triples that occur:
   the stored rows have distinct non-zero ids, each node's total equals its self value plus the totals
   of the rows naming it as parent, and the rows under the root add up to the sum of ALL the profile's
   sample values. *)
Theorem tree_conserves : forall (h : N -> N -> N) (na : N) (nt : nat) (ss : list sample) (k : nat),
  (k < nt)%nat -> parent_determined h (triples h (normalize na ss)) ->
  let t := stored_tree h na nt ss in
  NoDup (map n_id t) /\
  (forall n, In n t -> n_id n <> 0%N /\ length (n_vals n) = nt) /\
  (forall n, In n t -> snd (val_at k n) = wrap64 (fst (val_at k n) + child_tot k t (n_id n))) /\
  wrap64 (child_tot k t 0%N) = wrap64 (full_weight k ss).
Proof. exact stored_tree_conserves. Qed.
Print Assumptions tree_conserves.

(* What the stored numbers are, for EVERY hash (no hypothesis): a row's total is the sum over the
   samples of value * (number of the sample's frames whose node id is the row's id), its self value
   counts the sample's leaf frame only -- modulo 2^64.  With node ids injective on paths this reads:
   total = weight of the samples passing through the node, self = weight of the samples ending there. *)
Theorem stored_node_meaning : forall (h : N -> N -> N) (nt : nat) (ss : list sample) (k : nat) (n : node),
  (k < nt)%nat -> In n (post_process h nt ss) ->
  snd (val_at k n) = wrap64 (sumZ (map (fun s => nth k (s_values s) 0 * cnt (n_id n) (sample_ids h s)) ss)) /\
  fst (val_at k n) = wrap64 (sumZ (map (fun s => nth k (s_values s) 0 * leaf_cnt (n_id n) (sample_ids h s)) ss)).
Proof. exact PprofProofs.stored_node_meaning. Qed.
Print Assumptions stored_node_meaning.

(* ... and all self values together are the weight of the samples that have a frame (every hash) *)
Theorem self_values_add_up : forall (h : N -> N -> N) (nt : nat) (ss : list sample) (k : nat),
  (k < nt)%nat -> eqm (self_sum k (post_process h nt ss)) (weight k ss).
Proof. exact self_sum_is_weight. Qed.
Print Assumptions self_values_add_up.

(* What survives a collision of node ids: for EVERY hash (no hypothesis) the rows under the root add up to the sum of
   all sample values of the profile (the level is part of the node id, so a level-1 frame never shares its node with
   a deeper one) -- and by self_values_add_up so do the self values. *)
Theorem root_sum_any_hash : forall (h : N -> N -> N) (na : N) (nt : nat) (ss : list sample) (k : nat),
  (k < nt)%nat -> wrap64 (child_tot k (stored_tree h na nt ss) 0%N) = wrap64 (full_weight k ss).
Proof. exact PprofProofs.root_sum_any_hash. Qed.
Print Assumptions root_sum_any_hash.

(* ... but the hypothesis of tree_conserves cannot be dropped, under the REAL hash (city.CH64 on the 16-byte buffer,
   modelled exactly by city16): for the two-sample profile collision_profile (main.p71 -> main.f42920d41cc6b47, value 3;
   main.p247 -> main.f56bc77c3d4dbf7, value 5; function ids = city.CH64 of the names) two frames with different parents
   get one node id, and a stored node's total differs from its self value plus its children's totals.  Replayed on the
   real code by the corpus case node-id-collision-in-profile (finding node-id-collision-in-profile). *)
Theorem tree_conserves_needs_hypothesis :
  ~ parent_determined city16 (triples city16 collision_profile) /\
  let t := post_process city16 1 collision_profile in
  length t = 3%nat /\
  exists n, In n t /\ snd (val_at 0 n) <> wrap64 (fst (val_at 0 n) + child_tot 0 t (n_id n)).
Proof. exact collision_profile_breaks. Qed.
Print Assumptions tree_conserves_needs_hypothesis.

(* a collision that keeps the parent (two functions under one parent, second witness): the hypothesis holds, the tree
   conserves, and the two frames are one stored row carrying the first function's id *)
Example same_parent_collision :
  parent_determined city16 (triples city16 same_parent_collision_profile) /\
  map (fun n => (n_fn n, n_vals n)) (post_process city16 1 same_parent_collision_profile) =
  [ (coll_p0, [(0, 8)]); (coll_g1, [(8, 8)]) ].
Proof. exact same_parent_collision_merges. Qed.

(* The 511-level clamp.  The level field of a node id is min(depth, 511): beyond level 511 the ids stop carrying the
   depth (deep_levels_clamped) but the walk goes on: for every hash, every number of frames (no bound), every frame of
   every sample has its node in the stored tree -- nothing is truncated; with tree_conserves (no bound on the depth
   either) and self_values_add_up the leaf of a 600-frame stack receives its self value like any other. *)
Theorem node_level_clamped : forall (h : N -> N -> N) (p f d : N),
  level_of (node_id h p f d) = N.min d depth_clamp /\
  ((depth_clamp <= d)%N -> node_id h p f d = node_id h p f depth_clamp).
Proof. exact node_level_and_clamp. Qed.
Print Assumptions node_level_clamped.

Theorem every_frame_stored : forall (h : N -> N -> N) (nt : nat) (ss : list sample) (s : sample) (y : N),
  In s ss -> In y (sample_ids h s) -> In y (map n_id (post_process h nt ss)).
Proof. exact PprofProofs.every_frame_stored. Qed.
Print Assumptions every_frame_stored.

(* the hypothesis follows from injectivity of getNodeId on the occurring triples *)
Theorem tree_conserves_injective : forall (h : N -> N -> N) (nt : nat) (ss : list sample) (k : nat),
  (k < nt)%nat -> node_id_injective_on h (triples h ss) ->
  rows_wellformed nt (post_process h nt ss) = true /\ rows_conserve k (post_process h nt ss) ss = true.
Proof. exact tree_conserves_injective_proof. Qed.
Print Assumptions tree_conserves_injective.

(* the hypotheses are met by a non-trivial profile under the real hash (city.CH64 on 16 bytes):
   two sample types, recursion, shared prefixes (ex_profile in proofs/PprofProofs.v) *)
Example tree_conserves_applies : parent_determined city16 (triples city16 ex_profile) /\
  length (post_process city16 2 ex_profile) = 6%nat /\ (forall s, In s ex_profile -> s_stack s <> []).
Proof. exact ex_profile_hypotheses. Qed.

(* no sample value negative and values x stack depths within int64: every stored self and total is
   non-negative, self <= total, and both are the exact sums (no wrap-around) -- for every hash *)
Theorem stored_values_nonneg : forall (h : N -> N -> N) (nt : nat) (ss : list sample) (k : nat) (n : node),
  (k < nt)%nat -> (forall s, In s ss -> 0 <= nth k (s_values s) 0) ->
  sumZ (map (fun s => nth k (s_values s) 0 * Z.of_nat (length (s_stack s))) ss) < two63 ->
  In n (post_process h nt ss) ->
  0 <= fst (val_at k n) <= snd (val_at k n) /\
  snd (val_at k n) = sumZ (map (fun s => nth k (s_values s) 0 * cnt (n_id n) (sample_ids h s)) ss) /\
  fst (val_at k n) = sumZ (map (fun s => nth k (s_values s) 0 * leaf_cnt (n_id n) (sample_ids h s)) ss).
Proof. exact PprofProofs.stored_values_nonneg. Qed.
Print Assumptions stored_values_nonneg.

(* since the fix of defect 10 a request emits its ProfileData exactly once, over-size or not *)
Theorem profile_emitted_once : forall (A : Type) (over : bool) (pd : A), emitted over pd = [pd].
Proof. exact @emitted_once. Qed.
Print Assumptions profile_emitted_once.

(* ProcessRequest does not modify its request: whatever the number of failed inserts before the accepted
   one, every block handed to the ClickHouse client for a profile request is exactly that request's row
   (the harness compares the blocks of failed and accepted attempts of the real service with the parser output) *)
Theorem process_request_idempotent : forall (A : Type) (fails : nat) (pd : A),
  length (push_with_retry fails pd) = S fails /\ Forall (eq [pd]) (push_with_retry fails pd).
Proof. exact @push_with_retry_blocks. Qed.
Print Assumptions process_request_idempotent.

(* ------------------------------------------------------------------------------------------------
   merge_is_sum.  Tree.MergeTrie on a fresh tree, for ANY list of int64 rows (any order, duplicates,
   several profiles mixed) not longer than the node limit: the node of key (parent id, node id) exists
   iff some row has that key, and its (self, total) are the sums of those rows' values modulo 2^64.
   No hypothesis on the hash is needed here. *)
Theorem merge_is_sum : forall (limit : Z) (rows : list row) (fs : list (N * Z)),
  Z.of_nat (length rows) <= limit -> Forall row_in_range rows ->
  forall p i, vals_at (m_nodes (merge_trie limit new_tree rows fs)) p i =
              if has_key rows p i then Some (wrap64 (sum_self rows p i), wrap64 (sum_total rows p i)) else None.
Proof. exact merge_is_sum_proof. Qed.
Print Assumptions merge_is_sum.

(* ... hence the order of the rows (of the profiles, and of the rows inside a profile) is irrelevant *)
Theorem merge_order_irrelevant : forall (limit : Z) (rows rows' : list row) (fs fs' : list (N * Z)),
  Permutation rows rows' -> Z.of_nat (length rows) <= limit -> Forall row_in_range rows ->
  forall p i, vals_at (m_nodes (merge_trie limit new_tree rows fs)) p i =
              vals_at (m_nodes (merge_trie limit new_tree rows' fs')) p i.
Proof. exact merge_order_irrelevant_proof. Qed.
Print Assumptions merge_order_irrelevant.

(* The guard is needed, for every value of the node limit: with limit+1 rows of fresh node ids the
   last one is dropped (MergeTrie returns at the limit). The real limit is 2 000 000, the same
   number the SQL puts in its LIMIT (tied by translate/gen_proftree), so the guard is what the query
   guarantees. *)
Theorem merge_is_sum_refuted : forall limit : Z, 0 <= limit -> exists rows : list row,
  Forall row_in_range rows /\ exists p i,
  vals_at (m_nodes (merge_trie limit new_tree rows [])) p i <>
  (if has_key rows p i then Some (wrap64 (sum_self rows p i), wrap64 (sum_total rows p i)) else None).
Proof. exact merge_is_sum_refuted_any_limit. Qed.
Print Assumptions merge_is_sum_refuted.

(* Merging the stored rows of any list of profiles (each projected on its selected sample type, or
   lacking it), taken in any order: the merged tree conserves (additive form: for every id x <> 0 the
   totals of the nodes with id x = their self values + the totals of the nodes whose parent is x) and
   the nodes under the root add up to the sum of the profiles' weights. *)
Theorem merged_tree_conserves : forall (h : N -> N -> N) (na : N) (limit : Z) (Ps : list stored) (rows : list row) (fs : list (N * Z)),
  Forall (stored_ok h na) Ps ->
  Permutation rows (concat (map (stored_rows h na) Ps)) ->
  Z.of_nat (length rows) <= limit ->
  let out := rows_of (m_nodes (merge_trie limit new_tree rows fs)) in
  rconserves out /\ eqm (rchild_tot out 0%N) (sumZ (map stored_weight Ps)).
Proof. exact merged_profiles_conserve. Qed.
Print Assumptions merged_tree_conserves.

(* node-by-node reading of the same, when every node id occurs once in the merged tree: each node's
   total is its self value plus the totals of the nodes naming it as parent (modulo 2^64) *)
Theorem merged_nodes_conserve : forall (limit : Z) (rows : list row) (fs : list (N * Z)),
  Z.of_nat (length rows) <= limit -> Forall row_in_range rows -> rconserves rows ->
  let out := rows_of (m_nodes (merge_trie limit new_tree rows fs)) in
  NoDup (map r_id out) ->
  forall o, In o out -> r_id o <> 0%N -> r_total o = wrap64 (r_self o + rchild_tot out (r_id o)).
Proof. exact ProfTreeProofs.merged_nodes_conserve. Qed.
Print Assumptions merged_nodes_conserve.

(* Tree.Total() of the merged tree is the sum of the root totals of the rows (modulo 2^64) *)
Theorem flamegraph_total_is_sum : forall (limit : Z) (rows : list row) (fs : list (N * Z)),
  Z.of_nat (length rows) <= limit ->
  total_of (merge_trie limit new_tree rows fs) = wrap64 (rchild_tot rows 0%N).
Proof. exact total_is_sum_proof. Qed.
Print Assumptions flamegraph_total_is_sum.

(* The read path as ProfService.getTree runs it.  The statement of PlanMergeTraces (coq/model/ProfSql.v: parsed from the
   text the real service sends, rendered back byte for byte and evaluated on the stored rows by the check) returns the
   stored rows of the profiles inside its time window, projected on the selected sample type, grouped by (parent,
   function, node) with wrapping sums, in any order.  For every hash under which each profile of the window meets the
   hypothesis of tree_conserves, any window, any order of the returned rows (at most the node limit = the statement's
   LIMIT): the tree MergeTrie folds them into conserves and the bars under its root add up to the weights of the
   profiles in the window. *)
Theorem read_path_conserves : forall (h : N -> N -> N) (na : N) (limit : Z) (db : list (Z * stored)) (from to : Z)
    (rows : list row) (fs : list (N * Z)),
  let Ps := map snd (filter (in_window from to) db) in
  Forall (stored_ok h na) Ps ->
  Permutation rows (group_rows (concat (map (stored_rows h na) Ps))) ->
  Z.of_nat (length rows) <= limit ->
  let out := rows_of (m_nodes (merge_trie limit new_tree rows fs)) in
  rconserves out /\ eqm (rchild_tot out 0%N) (sumZ (map stored_weight Ps)).
Proof. exact ProfSqlProofs.read_path_conserves. Qed.
Print Assumptions read_path_conserves.

Example read_path_applies :
  let Ps := map snd (filter (in_window 0 2000000000) ex_db) in
  length Ps = 2%nat /\ Forall (stored_ok city16 0%N) Ps /\
  length (concat (map (stored_rows city16 0%N) Ps)) = 12%nat /\
  length (group_rows (concat (map (stored_rows city16 0%N) Ps))) = 6%nat.
Proof. exact ex_db_hypotheses. Qed.

(* What a statement of the accepted shape computes: for every statement accepted by stmt_ok (the check evaluates stmt_ok on
   the statement parsed from the text the real service sends), every database of stored `tree` arrays with int64 values,
   the generic evaluator eval_merge_stmt returns -- up to order -- the GROUP BY (parent, function, node) sums of the
   stored elements of the profiles inside the window, projected on the selected type by arrayFirst, provided the groups
   fit the statement's LIMIT. *)
Theorem statement_semantics : forall (toks : list Z) (ty : nat) (s : merge_stmt) (db : list sprof),
  stmt_ok ty s = true ->
  let pre := pre_rows (nth ty toks (-2)) s db in
  Forall row_in_range pre -> Z.of_nat (length (group_rows pre)) <= ms_limit s ->
  exists rows, eval_merge_stmt toks s db = Some rows /\ Permutation rows (group_rows pre).
Proof. exact stmt_semantics. Qed.
Print Assumptions statement_semantics.

(* ... hence the whole read path under the statement the service really sends: the database holds, for every ingested
   profile (timestamp, names of its sample types, samples), the tree the writer stores for it (stored_tree); for a
   statement of the accepted shape the answer exists and whatever MergeTrie makes of it conserves, and the bars under
   its root add up to the weights of the profiles in the statement's window that have the selected type.
   [fcol] = the `functions` column of every entry: any (a statement of the accepted shape never looks at it). *)
Theorem statement_read_path : forall (h : N -> N -> N) (na : N) (fcol : pentry -> list (N * Z)) (toks : list Z) (ty : nat)
    (s : merge_stmt) (D : list pentry),
  stmt_ok ty s = true ->
  let tok := nth ty toks (-2) in
  let Ps := map snd (filter (in_window (ms_from s) (ms_to s)) (map (stored_of tok) D)) in
  Forall (stored_ok h na) Ps ->
  Z.of_nat (length (concat (map (stored_rows h na) Ps))) <= ms_limit s ->
  exists rows, eval_merge_stmt toks s (map (sprof_of h na fcol) D) = Some rows /\
    forall fs, let out := rows_of (m_nodes (merge_trie (ms_limit s) new_tree rows fs)) in
               rconserves out /\ eqm (rchild_tot out 0%N) (sumZ (map stored_weight Ps)).
Proof. exact ProfSqlProofs.statement_read_path. Qed.
Print Assumptions statement_read_path.

Example statement_read_path_applies :
  stmt_ok 0 ex_stmt = true /\
  let Ps := map snd (filter (in_window (ms_from ex_stmt) (ms_to ex_stmt)) (map (stored_of 0) ex_D)) in
  Forall (stored_ok city16 0%N) Ps /\ length (concat (map (stored_rows city16 0%N) Ps)) = 12%nat /\
  option_map (@length row) (eval_merge_stmt [0] ex_stmt (map (sprof_of city16 0%N (fun _ => [])) ex_D)) = Some 6%nat.
Proof. exact ex_stmt_hypotheses. Qed.

(* SELECT DISTINCT in the innermost (raw) select -- a shape stmt_ok refuses (accepted_shape_has_no_distinct) and the
   evaluator interprets: rows of `raw` (one per stored profile: projected tree array, functions array) that are equal
   collapse BEFORE the ARRAY JOIN / GROUP BY sum.  For EVERY statement and database: the statement with DISTINCT answers
   what the statement without it answers on the window with the repeated profiles removed (distinct_profiles: the first
   profile of every class of equal raw rows) ... *)
Theorem accepted_shape_has_no_distinct : forall (ty : nat) (s : merge_stmt), stmt_ok ty s = true -> ms_distinct s = false.
Proof. exact stmt_ok_not_distinct. Qed.
Print Assumptions accepted_shape_has_no_distinct.

Theorem distinct_reads_distinct_profiles : forall (toks : list Z) (s : merge_stmt) (db : list sprof),
  ms_distinct s = true ->
  eval_merge_stmt toks s db = eval_merge_stmt toks (undistinct s) (distinct_profiles toks s db).
Proof. exact eval_distinct. Qed.
Print Assumptions distinct_reads_distinct_profiles.

(* ... so, with the rest of the shape as accepted, it computes the GROUP BY sums over the window WITHOUT its repeated
   profiles (a multiset of stored profiles is read as a set) ... *)
Theorem distinct_statement_semantics : forall (toks : list Z) (ty : nat) (s : merge_stmt) (db : list sprof),
  ms_distinct s = true -> stmt_ok ty (undistinct s) = true ->
  let pre := pre_rows (nth ty toks (-2)) (undistinct s) (distinct_profiles toks s db) in
  Forall row_in_range pre -> Z.of_nat (length (group_rows pre)) <= ms_limit s ->
  exists rows, eval_merge_stmt toks s db = Some rows /\ Permutation rows (group_rows pre).
Proof. exact stmt_semantics_distinct. Qed.
Print Assumptions distinct_statement_semantics.

(* ... it is harmless exactly when no two profiles of the window give the same raw row ... *)
Theorem distinct_harmless_without_repeats : forall (toks : list Z) (s : merge_stmt) (db : list sprof),
  ForallOrdPairs (fun p q => same_raw toks s p q = false) (filter (in_win s) db) ->
  eval_merge_stmt toks s db = eval_merge_stmt toks (undistinct s) db.
Proof. exact ProfSqlProofs.distinct_harmless_without_repeats. Qed.
Print Assumptions distinct_harmless_without_repeats.

(* ... and it is NOT harmless for the property: for every hash, every profile whose weight on the selected type is not 0
   modulo 2^64, ingested twice inside the window (same functions column), the flame graph the statement with DISTINCT
   yields carries the weight of ONE copy -- not the sum of the inputs.  (Replayed on the real planner with the seeded
   change C16-e: corpus classes same-profile-twice, profile-repeated-a-b-a.) *)
Theorem distinct_statement_refuted : forall (h : N -> N -> N) (na : N) (fcol : pentry -> list (N * Z)) (toks : list Z) (ty : nat)
    (s : merge_stmt) (ts1 ts2 : Z) (names : list Z) (nt : nat) (ss : list sample),
  ms_distinct s = true -> stmt_ok ty (undistinct s) = true ->
  ms_from s <= ts1 < ms_to s -> ms_from s <= ts2 < ms_to s ->
  fcol (ts1, names, nt, ss) = fcol (ts2, names, nt, ss) ->
  let tok := nth ty toks (-2) in
  let P := {| sp_nt := nt; sp_samples := ss; sp_sel := first_index tok names |} in
  stored_ok h na P -> Z.of_nat (length (stored_rows h na P)) <= ms_limit s ->
  ~ eqm (stored_weight P) 0 ->
  exists rows, eval_merge_stmt toks s (map (sprof_of h na fcol) [(ts1, names, nt, ss); (ts2, names, nt, ss)]) = Some rows /\
    forall fs, let out := rows_of (m_nodes (merge_trie (ms_limit s) new_tree rows fs)) in
               eqm (rchild_tot out 0%N) (stored_weight P) /\
               ~ eqm (rchild_tot out 0%N) (stored_weight P + stored_weight P).
Proof. exact ProfSqlProofs.distinct_statement_refuted. Qed.
Print Assumptions distinct_statement_refuted.

(* the hypotheses are met by ex_profile scraped twice and read on its first sample type: total 12 with DISTINCT, 24 without *)
Example distinct_statement_refuted_applies :
  let P := {| sp_nt := 2; sp_samples := ex_profile; sp_sel := first_index 0 [0; 1] |} in
  ms_distinct ex_stmt_distinct = true /\ stmt_ok 0 (undistinct ex_stmt_distinct) = true /\
  stored_ok city16 0%N P /\ Z.of_nat (length (stored_rows city16 0%N P)) <= ms_limit ex_stmt_distinct /\
  stored_weight P mod two64 = 12 /\
  option_map (fun rows => rchild_tot (rows_of (m_nodes (merge_trie the_limit new_tree rows []))) 0%N)
    (eval_merge_stmt [0] ex_stmt_distinct
       (map (sprof_of city16 0%N (fun _ => [])) [(0, [0; 1], 2%nat, ex_profile); (1000000000, [0; 1], 2%nat, ex_profile)]))
  = Some 12 /\
  option_map (fun rows => rchild_tot (rows_of (m_nodes (merge_trie the_limit new_tree rows []))) 0%N)
    (eval_merge_stmt [0] ex_stmt
       (map (sprof_of city16 0%N (fun _ => [])) [(0, [0; 1], 2%nat, ex_profile); (1000000000, [0; 1], 2%nat, ex_profile)]))
  = Some 24.
Proof. exact ProfSqlProofs.distinct_statement_refuted_applies. Qed.

(* The evaluator also interprets, and stmt_ok also refuses: DISTINCT in pre_joined (equal tree elements of different profiles
   collapse), max in place of sum, a window written with > (the profile stored exactly at its start is lost) or with <= (a
   profile stored exactly at its end is read: in a diff, on both sides).  On ex_profile stored twice (a third copy at the end
   of the window): 24 as it should be, 12 / 12 / 12 / 36 under the four shapes. *)
Example refused_shapes_change_the_total :
  ex_total ex_stmt ex_D2 = Some 24 /\ ex_total ex_stmt ex_D3 = Some 24 /\
  (stmt_ok 0 (ex_variant false true false false the_out) = false /\ ex_total (ex_variant false true false false the_out) ex_D2 = Some 12) /\
  (stmt_ok 0 (ex_variant false false false false max_out) = false /\ ex_total (ex_variant false false false false max_out) ex_D2 = Some 12) /\
  (stmt_ok 0 (ex_variant false false true false the_out) = false /\ ex_total (ex_variant false false true false the_out) ex_D2 = Some 12) /\
  (stmt_ok 0 (ex_variant false false false true the_out) = false /\ ex_total (ex_variant false false false true the_out) ex_D3 = Some 36).
Proof. exact ProfSqlProofs.refused_shapes_change_the_total. Qed.

(* GROUP BY with wrapping sums keeps conservation and never needs more rows than the raw hand-over *)
Theorem grouping_keeps_conservation : forall rows : list row,
  (rconserves rows -> rconserves (group_rows rows)) /\ (length (group_rows rows) <= length rows)%nat.
Proof. exact grouping_facts. Qed.
Print Assumptions grouping_keeps_conservation.

(* The diff view (RenderDiff: mergeNodes + computeFlameGraphDiff, coq/model/ProfDiff.v).  mergeChildren, for ANY two
   child lists: both results list the same node ids in the same order, the left result carries exactly the weight of
   the left input and the right result that of the right input (the nodes filled in are zero) ... *)
Theorem diff_alignment_keeps_weights : forall a b : list tnode,
  map t_id (fst (merge_children a b)) = map t_id (snd (merge_children a b)) /\
  sum_total_of (fst (merge_children a b)) = sum_total_of a /\ sum_self_of (fst (merge_children a b)) = sum_self_of a /\
  sum_total_of (snd (merge_children a b)) = sum_total_of b /\ sum_self_of (snd (merge_children a b)) = sum_self_of b.
Proof. exact merge_children_aligned. Qed.
Print Assumptions diff_alignment_keeps_weights.

(* ... and the ticks of the diff are the sums of the inputs: left/right = the rows under the root of each side
   (modulo 2^64), total = their sum, for any rows in any order. *)
Theorem diff_ticks_are_sums : forall (limit : Z) (lrows rrows : list row) (lfs rfs : list (N * Z)),
  Z.of_nat (length lrows) <= limit -> Z.of_nat (length rrows) <= limit ->
  let o := compute_diff (merge_trie limit new_tree lrows lfs) (merge_trie limit new_tree rrows rfs) in
  o_left o = wrap64 (rchild_tot lrows 0%N) /\ o_right o = wrap64 (rchild_tot rrows 0%N) /\
  o_total o = wrap64 (rchild_tot lrows 0%N + rchild_tot rrows 0%N).
Proof. exact ProfDiffProofs.diff_ticks_are_sums. Qed.
Print Assumptions diff_ticks_are_sums.

(* The pprof payload merge (ProfService.MergeProfiles, profMerge_v2; coq/model/ProfMerge.v).  The merged profile conserves
   weight for ANY comparison of sample keys (so also under a collision of GetSampleKey: weight then moves to another
   sample, it is not lost), any number of profiles in any order whose samples carry n values each, every sample type
   k < n: the values of the merged samples add up to the values of all input samples (modulo 2^64). *)
Theorem merged_profile_conserves : forall (eqb : list Z -> list Z -> bool) (n k : nat) (ps : list (list msample)),
  (k < n)%nat -> Forall (wf n) ps ->
  eqm (col_sum k (merge_samples eqb ps)) (sumZ (map (col_sum k) ps)).
Proof. exact ProfMergeProofs.merged_profile_conserves. Qed.
Print Assumptions merged_profile_conserves.

(* Every level's bars of the DIFF view nest inside their parent's span, on the left and on the right side.  For two
   trees that are good (tree_good: what flamegraph_nests_from_ingest derives from ingest), whose totals fit int64, whose
   node ids are distinct under every parent key (true of every tree MergeTrie builds) and of which neither holds children
   under an id the other has under a parent where it lacks it (no_orphans: true when node ids determine the parent across
   both sides and every non-root parent key is a node): in the bars computeFlameGraphDiff lays out (mergeNodes alignment,
   queue, absolute offsets) every bar of every level but the first lies, in both coordinate systems, inside the bar one
   level up of the node it names as parent -- for whatever the loop emitted.  diff_gaps_reconstruct: its last pass (gaps
   instead of offsets) loses nothing, the absolute spans are recovered from the emitted numbers as the check's oracle does. *)
Theorem diff_levels_nest : forall t1 t2 : mtree,
  tree_good t1 -> root_total t1 < two63 -> tree_good t2 -> root_total t2 < two63 ->
  ids_nodup (m_nodes t1) -> ids_nodup (m_nodes t2) ->
  no_orphans (m_nodes t1) (m_nodes t2) -> no_orphans (m_nodes t2) (m_nodes t1) ->
  dnested (ds_levels (diff_bars t1 t2)).
Proof. exact diff_levels_nest_trees. Qed.
Print Assumptions diff_levels_nest.

(* From ingest to the nested DIFF view, no hypothesis on the trees left: two sets of ingested profiles (left and right side
   of RenderDiff) whose node ids determine the parent jointly over BOTH sets, non-negative values, each side's sum of
   value x stack depth below 2^63, each side's stored rows in any order, raw or grouped. *)
Theorem diff_nests_from_ingest : forall (h : N -> N -> N) (na : N) (limit : Z) (PsL PsR : list stored)
    (rowsL rowsR : list row) (fsL fsR : list (N * Z)),
  let RL := concat (map (stored_rows h na) PsL) in
  let RR := concat (map (stored_rows h na) PsR) in
  parent_determined h (all_triples h na (PsL ++ PsR)) ->
  Forall sel_ok PsL -> Forall sel_ok PsR ->
  sumZ (map (prof_depth_weight na) PsL) < two63 -> sumZ (map (prof_depth_weight na) PsR) < two63 ->
  Forall (fun P => 0 <= prof_depth_weight na P) PsL -> Forall (fun P => 0 <= prof_depth_weight na P) PsR ->
  Permutation rowsL RL \/ Permutation rowsL (group_rows RL) ->
  Permutation rowsR RR \/ Permutation rowsR (group_rows RR) ->
  Z.of_nat (length rowsL) <= limit -> Z.of_nat (length rowsR) <= limit ->
  dnested (ds_levels (diff_bars (merge_trie limit new_tree rowsL fsL) (merge_trie limit new_tree rowsR fsR))).
Proof. exact ProfDiffNestProofs.diff_nests_from_ingest. Qed.
Print Assumptions diff_nests_from_ingest.

(* the hypotheses of diff_nests_from_ingest are met with the first copy of ex_profile on the left and the second on the
   right (firstn 1 ex_Ps ++ skipn 1 ex_Ps is ex_Ps) *)
Example diff_nests_from_ingest_applies :
  parent_determined city16 (all_triples city16 0%N (firstn 1 ex_Ps ++ skipn 1 ex_Ps)) /\
  Forall sel_ok (firstn 1 ex_Ps) /\ Forall sel_ok (skipn 1 ex_Ps) /\
  sumZ (map (prof_depth_weight 0%N) (firstn 1 ex_Ps)) < two63 /\ sumZ (map (prof_depth_weight 0%N) (skipn 1 ex_Ps)) < two63.
Proof. exact ex_diff_ingest_hypotheses. Qed.

Theorem diff_gaps_reconstruct : forall (l : list dbar) (cl cr : Z),
  (forall b, In b l -> 0 <= d_xl b /\ d_xl b + d_tl b < two63 /\ 0 <= d_tl b /\
                       0 <= d_xr b /\ d_xr b + d_tr b < two63 /\ 0 <= d_tr b) ->
  0 <= cl < two63 -> 0 <= cr < two63 ->
  dabs_values 0 cl (relativise cl cr l) = map (fun b => (d_xl b, d_xl b + d_tl b)) l /\
  dabs_values 3 cr (relativise cl cr l) = map (fun b => (d_xr b, d_xr b + d_tr b)) l.
Proof. exact relativise_reconstructs. Qed.
Print Assumptions diff_gaps_reconstruct.

(* mergeNodes for ANY two Nodes maps: both results list the same node ids under every key, each side keeps its weight *)
Theorem diff_merge_nodes_aligned : forall (n1 n2 : list (N * list tnode)) (k : N),
  map t_id (children (fst (merge_nodes n1 n2)) k) = map t_id (children (snd (merge_nodes n1 n2)) k) /\
  sum_total_of (children (fst (merge_nodes n1 n2)) k) = sum_total_of (children n1 k) /\
  sum_total_of (children (snd (merge_nodes n1 n2)) k) = sum_total_of (children n2 k).
Proof. exact merge_nodes_facts. Qed.
Print Assumptions diff_merge_nodes_aligned.

Example diff_levels_nest_applies :
  tree_good ex_tree /\ root_total ex_tree < two63 /\ ids_nodup (m_nodes ex_tree) /\
  no_orphans (m_nodes ex_tree) (m_nodes ex_tree) /\ length (ds_levels (diff_bars ex_tree ex_tree)) = 5%nat.
Proof. exact ex_diff_hypotheses. Qed.

(* ------------------------------------------------------------------------------------------------
   levels_nest.  For a tree with non-negative self and total values and exact conservation under every
   parent key, whose root total fits in int64: the first level BFS returns is the single bar
   [0, root total); in every later level offsets and totals are non-negative and every bar lies inside
   the bar, one level up, of the node named by its parent id (nest_levels, bar_inside); bars of one
   level do not overlap (levels_disjoint). Holds for whatever BFS returns, also when its cycle guard
   stops it early. *)
Theorem levels_nest : forall t : mtree, tree_good t -> root_total t < two63 ->
  exists ls, bfs t = [root_bar (root_total t)] :: ls /\ nest_levels [root_bar (root_total t)] ls.
Proof. exact levels_nest_proof. Qed.
Print Assumptions levels_nest.

(* From ingest to the nested flame graph, no hypothesis on the merged tree left.  Any list of ingested profiles whose
   node ids determine the parent JOINTLY (no collision inside or between the profiles: all_triples), read on a sample
   type whose values are non-negative, with the sum of value x stack depth over everything read below 2^63 (so no int64
   sum can wrap); the stored rows handed to MergeTrie in ANY order, raw or grouped by the statement (group_rows): the
   merged tree meets tree_good, hence level 0 is [0, total) and every bar of every level lies inside the bar of its
   parent one level up (nest_levels). *)
Theorem flamegraph_nests_from_ingest : forall (h : N -> N -> N) (na : N) (limit : Z) (Ps : list stored) (rows : list row) (fs : list (N * Z)),
  let R := concat (map (stored_rows h na) Ps) in
  parent_determined h (all_triples h na Ps) ->
  Forall sel_ok Ps ->
  sumZ (map (prof_depth_weight na) Ps) < two63 ->
  Forall (fun P => 0 <= prof_depth_weight na P) Ps ->
  Permutation rows R \/ Permutation rows (group_rows R) ->
  Z.of_nat (length rows) <= limit ->
  let t := merge_trie limit new_tree rows fs in
  tree_good t /\ root_total t < two63 /\
  exists ls, bfs t = [root_bar (root_total t)] :: ls /\ nest_levels [root_bar (root_total t)] ls.
Proof. exact ingest_to_nested_levels. Qed.
Print Assumptions flamegraph_nests_from_ingest.

Example flamegraph_nests_from_ingest_applies :
  parent_determined city16 (all_triples city16 0%N ex_Ps) /\ Forall sel_ok ex_Ps /\
  sumZ (map (prof_depth_weight 0%N) ex_Ps) < two63 /\ Forall (fun P => 0 <= prof_depth_weight 0%N P) ex_Ps /\
  length (concat (map (stored_rows city16 0%N) ex_Ps)) = 12%nat.
Proof. exact ex_Ps_hypotheses. Qed.

(* the same for every tree accepted by the boolean tree_regular (distinct parent keys and node ids, ids <> 0,
   self, total >= 0, exact conservation, root total < 2^63) -- the precondition the check evaluates on the
   OBSERVED merged trees before it applies the nesting oracle to the observed levels *)
Theorem levels_nest_checkable : forall t : mtree, tree_regular (m_nodes t) = true ->
  exists ls, bfs t = [root_bar (root_total t)] :: ls /\ nest_levels [root_bar (root_total t)] ls.
Proof. exact levels_nest_regular. Qed.
Print Assumptions levels_nest_checkable.

Theorem levels_disjoint : forall (l : list bar) (c : Z), (forall b, In b l -> 0 <= b_off b /\ 0 <= b_total b) ->
  ForallOrdPairs (fun x y => snd (fst x) <= fst (fst y)) (abs_level c l).
Proof. exact abs_level_disjoint. Qed.
Print Assumptions levels_disjoint.

(* the hypotheses of the merge and level theorems are met by the merged stored rows of ex_profile
   (6 nodes, root total 12, 6 levels) *)
Example merge_and_levels_apply :
  Z.of_nat (length ex_rows) <= the_limit /\ Forall row_in_range ex_rows /\
  tree_good ex_tree /\ root_total ex_tree < two63 /\ length (bfs ex_tree) = 6%nat /\ root_total ex_tree = 12.
Proof. exact ex_tree_hypotheses. Qed.

(* ---- the re-indexing of the pprof payload merge (ProfService.MergeProfiles: sanitizeProfile, then the string, function,
   mapping, location and sample tables of ProfileMergeV2; model/ProfRewrite.v) *)
From Qryn Require Import model.ProfRewrite proofs.ProfRewriteProofs.

(* payload_merge_is_sum.  A profile denotes weighted stacks: a sample's stack resolved, through the profile's own location,
   function and string tables, to the functions (start line, name, system name, file name) of the lines of its locations;
   [weight P k p] adds up the values of sample type k over the samples of p whose resolved stack satisfies P.  For ANY
   number of payloads, each with its own string table and ids, merged in the order given (merge_all = the loop of
   MergeProfiles with exact key comparisons: the 64-bit hashes of the printed keys are taken as collision free) without a
   refusal, every payload that takes part being sane after sanitizeProfile (ids 1..n, references in range: what sanitizeProfile
   establishes for the payloads the writer stores -- evaluated on every payload of every run) with n sample types, and fewer than
   2^32 merged functions (hashLines keeps 32 bits of a function id): for EVERY predicate P on resolved stacks -- in particular
   "is this stack" -- and every sample type k the merged profile gives the selected stacks the sum of the weights the payloads
   give them (modulo 2^64, as int64 += computes).  So the merged profile denotes the multiset union of the input samples with
   resolved stacks: nothing is lost, nothing moves to another stack. *)
Theorem payload_merge_is_sum : forall (ps : list pprofile) (st : mstate) (n : nat),
  merge_all exact_keqs mstate0 ps = inl st -> payloads_sane n ps -> Z.of_nat (length (ms_funs st)) < two32 ->
  forall (P : list (list fden) -> bool) (k : nat), (k < n)%nat ->
  eqm (ProfRewrite.weight P k (merged_profile st)) (payload_weights P k ps).
Proof. exact ProfRewriteProofs.payload_merge_is_sum. Qed.
Print Assumptions payload_merge_is_sum.

(* ... in any order: two merges of the same payloads in different orders (different merged string tables, ids and sample
   order) give every selection of resolved stacks the same weight. *)
Theorem payload_merge_order_irrelevant : forall (ps ps' : list pprofile) (st st' : mstate) (n : nat),
  Permutation ps ps' ->
  merge_all exact_keqs mstate0 ps = inl st -> merge_all exact_keqs mstate0 ps' = inl st' -> payloads_sane n ps ->
  Z.of_nat (length (ms_funs st)) < two32 -> Z.of_nat (length (ms_funs st')) < two32 ->
  forall (P : list (list fden) -> bool) (k : nat), (k < n)%nat ->
  eqm (ProfRewrite.weight P k (merged_profile st)) (ProfRewrite.weight P k (merged_profile st')).
Proof. exact ProfRewriteProofs.payload_merge_order_irrelevant. Qed.
Print Assumptions payload_merge_order_irrelevant.

(* First part of "sanitizeProfile makes every payload sane" (the hypothesis payloads_sane above, evaluated per payload by the
   check) proved for EVERY payload, well formed or not: after the three renumbering passes the ids of functions, mappings
   (the lazily appended empty mapping included) and locations are 1..n in order, and the first string is the empty one. *)
From Qryn Require Import proofs.ProfSanitizeProofs.
Theorem sanitize_ids_positional : forall p : pprofile,
  positional f_id (p_funs (sanitize p)) 1 = true /\ positional m_id (p_maps (sanitize p)) 1 = true /\
  positional l_id (p_locs (sanitize p)) 1 = true.
Proof. exact ProfSanitizeProofs.sanitize_ids_positional. Qed.
Print Assumptions sanitize_ids_positional.

Theorem sanitize_first_string_empty : forall p : pprofile, nth 0 (p_strs (sanitize p)) (-1) = 0.
Proof. exact ProfSanitizeProofs.sanitize_first_string_empty. Qed.
Print Assumptions sanitize_first_string_empty.

(* Round 8: the REST of "sanitizeProfile makes every payload sane" -- every reference resolves after the renumbering passes (a
   location names an existing mapping, a line an existing function, a sample existing locations), every string index lies in
   the string table, every sample has one value per sample type -- for EVERY decoded payload, well formed or not: the dropping
   branches of sanitizeProfile establish it.  All ten conjuncts of sane_b; nothing of it is evaluated per payload any more. *)
From Qryn Require Import proofs.ProfSaneProofs.
Theorem sanitize_sane : forall p : pprofile, sane_b (sanitize p) = true.
Proof. exact ProfSaneProofs.sanitize_sane. Qed.
Print Assumptions sanitize_sane.

(* payload_merge_is_sum with NO hypothesis on the payloads: any decoded payloads (dangling references, duplicate ids, string
   indices out of range, wrong value counts, any sample types), merged without a refusal (a merge that is not refused has one
   number of sample types: merge_all_types), fewer than 2^32 merged functions: for every predicate on resolved stacks and every
   sample type of the merged profile, the merged weight is the sum of the weights of the sanitized payloads. *)
Theorem payload_merge_is_sum_all : forall (ps : list pprofile) (st : mstate),
  merge_all exact_keqs mstate0 ps = inl st -> Z.of_nat (length (ms_funs st)) < two32 ->
  forall (P : list (list fden) -> bool) (k : nat), (k < length (p_types (merged_profile st)))%nat ->
  eqm (ProfRewrite.weight P k (merged_profile st)) (payload_weights P k ps).
Proof. exact ProfSaneProofs.payload_merge_is_sum_all. Qed.
Print Assumptions payload_merge_is_sum_all.

Theorem payload_merge_order_irrelevant_all : forall (ps ps' : list pprofile) (st st' : mstate),
  Permutation ps ps' ->
  merge_all exact_keqs mstate0 ps = inl st -> merge_all exact_keqs mstate0 ps' = inl st' ->
  Z.of_nat (length (ms_funs st)) < two32 -> Z.of_nat (length (ms_funs st')) < two32 ->
  forall (P : list (list fden) -> bool) (k : nat), (k < length (p_types (merged_profile st)))%nat ->
  eqm (ProfRewrite.weight P k (merged_profile st)) (ProfRewrite.weight P k (merged_profile st')).
Proof. exact ProfSaneProofs.payload_merge_order_irrelevant_all. Qed.
Print Assumptions payload_merge_order_irrelevant_all.

(* merged_profile_closed.  Whatever the payloads, the merged message MergeProfiles answers is closed: function and location
   ids 1..n in order, the string indices of the functions inside the merged string table, every function id of a line and
   every location id of a sample names an existing element, every sample has one value per sample type.  The check judges the
   OBSERVED merged message of every answered merge by closed_b -- malformed payloads included (rw_spec code 5). *)
Theorem merged_profile_closed : forall (ps : list pprofile) (st : mstate),
  merge_all exact_keqs mstate0 ps = inl st -> Z.of_nat (length (ms_funs st)) < two32 ->
  closed_b (length (p_types (merged_profile st))) (merged_profile st) = true.
Proof. exact ProfSaneProofs.merged_profile_closed. Qed.
Print Assumptions merged_profile_closed.

(* sanitize_keeps_samples / payload_merge_totals_raw.  sanitizeProfile drops no sample of a well-formed payload (wf_raw_b: what the
   writer stores -- an obligation of the check on every stored payload): every mapping, function and location reference is found
   again by the renumbering passes, so no location and no sample is removed and no value is touched.  Hence, for any number of
   payloads whose merged ones are well formed, merged without a refusal: for every sample type the values of the merged
   profile add up to the sum of the sample values of the RAW payloads (mod 2^64) -- "totals are the sums of the inputs" for
   the payload merge, stated on the stored messages themselves, not on their sanitized form.  (A payload Merge skips -- no
   samples, or fewer than two strings -- contributes nothing: raw_totals says so.) *)
From Qryn Require Import proofs.ProfKeepProofs.
Theorem sanitize_keeps_samples : forall p : pprofile,
  wf_raw_b p = true -> map s_vals (p_samps (sanitize p)) = map s_vals (p_samps p).
Proof. exact ProfKeepProofs.sanitize_keeps_samples. Qed.
Print Assumptions sanitize_keeps_samples.

Theorem payload_merge_totals_raw : forall (ps : list pprofile) (st : mstate),
  merge_all exact_keqs mstate0 ps = inl st -> Z.of_nat (length (ms_funs st)) < two32 ->
  Forall (fun p => merged_in p = true -> wf_raw_b p = true) ps ->
  forall k : nat, (k < length (p_types (merged_profile st)))%nat ->
  eqm (ProfRewrite.weight all_stacks k (merged_profile st)) (raw_totals k ps).
Proof. exact ProfKeepProofs.payload_merge_totals_raw. Qed.
Print Assumptions payload_merge_totals_raw.

(* sanitize_keeps_weight / payload_merge_is_sum_raw.  ... and stack by stack: for a well-formed payload (distinct non-zero ids,
   references resolve, function string indices in range, one value per type) the renumbered ids, looked up in the renumbered
   tables through the swapped string table, resolve to the same functions, so EVERY selection of resolved stacks keeps its
   weight through sanitizeProfile.  Hence payload_merge_is_sum on the RAW stored payloads: any number of payloads whose merged
   ones are well formed (an obligation of the check on every writer-stored payload), merged without a refusal, fewer than 2^32
   merged functions: for every predicate on resolved stacks and every sample type the merged profile gives the selected stacks
   the sum of the weights the payloads THEMSELVES give them (mod 2^64). *)
From Qryn Require Import proofs.ProfKeepWeightProofs.
Theorem sanitize_keeps_weight : forall p : pprofile, wf_raw_b p = true ->
  forall (P : list (list fden) -> bool) (k : nat), ProfRewrite.weight P k (sanitize p) = ProfRewrite.weight P k p.
Proof. exact ProfKeepWeightProofs.sanitize_keeps_weight. Qed.
Print Assumptions sanitize_keeps_weight.

Theorem payload_merge_is_sum_raw : forall (ps : list pprofile) (st : mstate),
  merge_all exact_keqs mstate0 ps = inl st -> Z.of_nat (length (ms_funs st)) < two32 ->
  Forall (fun p => merged_in p = true -> wf_raw_b p = true) ps ->
  forall (P : list (list fden) -> bool) (k : nat), (k < length (p_types (merged_profile st)))%nat ->
  eqm (ProfRewrite.weight P k (merged_profile st)) (raw_weights P k ps).
Proof. exact ProfKeepWeightProofs.payload_merge_is_sum_raw. Qed.
Print Assumptions payload_merge_is_sum_raw.

(* ---- the exact class of node-id collisions, acyclicity of stored trees, int64 overflow (proofs/ProfCycleProofs.v) *)
From Qryn Require Import proofs.ProfCycleProofs.

(* node_id_eq_iff / collision_class.  getNodeId hashes (parent id, function id) and carries min(depth, 511) in 9 bits: two
   frames get one node id exactly when their clamped levels agree and the upper 55 bits of the two 64-bit hashes agree.  The
   hypothesis of tree_conserves (parent_determined) fails exactly when two occurring frames of this kind have different
   parents -- the class of the recorded findings node-id-collision-in-profile / -across-profiles (a client can construct a
   member in about 2^28 hash evaluations: harness/cmd/profcollide, 2 s); outside the class everything holds
   (tree_conserves, flamegraph_nests_from_ingest, diff_nests_from_ingest). *)
Theorem node_id_eq_iff : forall (h : N -> N -> N) (p f d p' f' d' : N),
  node_id h p f d = node_id h p' f' d' <->
  N.min d depth_clamp = N.min d' depth_clamp /\ hash_bits h p f = hash_bits h p' f'.
Proof. exact ProfCycleProofs.node_id_eq_iff. Qed.
Print Assumptions node_id_eq_iff.

Theorem collision_class : forall (h : N -> N -> N) (T : list (N * N * N)),
  ~ parent_determined h T <->
  exists p f d p' f' d', In (p, f, d) T /\ In (p', f', d') T /\ p <> p' /\
    N.min d depth_clamp = N.min d' depth_clamp /\ hash_bits h p f = hash_bits h p' f'.
Proof. exact ProfCycleProofs.collision_class. Qed.
Print Assumptions collision_class.

(* stored_rows_acyclic.  computeFlameGraphDiff has no guard against a cyclic Nodes map (BFS has one).  For EVERY hash --
   collisions included -- and every depth: the rows of one stored tree have a rank (the position in insertion order) that
   strictly decreases from every row to the row it names as parent.  No stored tree holds a cycle, not even a self loop. *)
Theorem stored_rows_acyclic : forall (h : N -> N -> N) (na : N) (nt : nat) (ss : list sample),
  let t := stored_tree h na nt ss in
  forall n, In n t -> n_parent n <> 0%N -> (pos_of (n_parent n) t < pos_of (n_id n) t)%nat.
Proof. exact stored_rows_rank. Qed.
Print Assumptions stored_rows_acyclic.

(* merged_cycle_only_at_clamp.  Across profiles, for EVERY hash: a stored row's level field is min(level of its parent + 1,
   511) (stored_rows_levels), so along any chain of rows taken from any stored trees the level reaches at least
   min(level of the start + 1, 511).  A cycle in a merged tree therefore consists of ids of level 511 only: it needs rows
   whose parent already sits at depth >= 511, from at least two profiles (one stored tree is acyclic), chained by
   collisions of the 55 hash bits (a self loop or a 2-cycle has probability 2^-55 per attempt and no birthday short cut;
   not constructed).  Profiles whose stacks have at most 511 frames never put a row on a cycle (shallow_rows_below_clamp +
   no_cycle_through_row_below_clamp). *)
Theorem stored_rows_levels : forall (h : N -> N -> N) (na : N) (nt : nat) (ss : list sample) (n : node),
  In n (stored_tree h na nt ss) -> level_of (n_id n) = N.min (level_of (n_parent n) + 1) depth_clamp.
Proof. exact ProfCycleProofs.stored_rows_levels. Qed.
Print Assumptions stored_rows_levels.

Theorem merged_cycle_only_at_clamp : forall (rs : list node) (x : N),
  (forall r, In r rs -> level_of (n_id r) = N.min (level_of (n_parent r) + 1) depth_clamp) ->
  rs <> [] -> chain x rs x -> (depth_clamp <= level_of x)%N.
Proof. exact cycle_only_at_clamp. Qed.
Print Assumptions merged_cycle_only_at_clamp.

Theorem shallow_profiles_never_on_a_cycle : forall (h : N -> N -> N) (na : N) (nt : nat) (ss : list sample),
  (forall s, In s ss -> (length (s_stack s) <= 511)%nat) ->
  forall (rs : list node) (r : node) (rest : list node) (x : N),
    (forall q, In q rs -> level_of (n_id q) = N.min (level_of (n_parent q) + 1) depth_clamp) ->
    rs = r :: rest -> In r (stored_tree h na nt ss) -> ~ chain x rs x.
Proof. exact ProfCycleProofs.shallow_profiles_never_on_a_cycle. Qed.
Print Assumptions shallow_profiles_never_on_a_cycle.

(* int64 overflow.  All stored and merged numbers are int64 sums that wrap silently (the equalities of this file are modulo
   2^64; the check replays wrapping profiles on the real code every run: classes with values >= 2^62).  The bound on the
   input under which the flame-graph total of a profile IS the sum of its sample values, for every hash: the absolute values
   of the selected sample type add up to less than 2^63 (for the merged, nested flame graph: flamegraph_nests_from_ingest
   states the bound sum of value x depth < 2^63 over everything read).  One step beyond the bound -- two samples of 2^62 --
   the total is -2^63. *)
Theorem root_total_exact : forall (h : N -> N -> N) (na : N) (nt : nat) (ss : list sample) (k : nat),
  (k < nt)%nat -> abs_weight k ss < two63 ->
  wrap64 (child_tot k (stored_tree h na nt ss) 0%N) = full_weight k ss.
Proof. exact ProfCycleProofs.root_total_exact. Qed.
Print Assumptions root_total_exact.

Theorem root_total_wraps_beyond_bound : forall (h : N -> N -> N) (na : N),
  abs_weight 0 overflow_profile = two63 /\ full_weight 0 overflow_profile = two63 /\
  wrap64 (child_tot 0 (stored_tree h na 1 overflow_profile) 0%N) = - two63.
Proof. exact ProfCycleProofs.root_total_wraps_beyond_bound. Qed.
Print Assumptions root_total_wraps_beyond_bound.
