(* Property C16 -- profile call trees conserve weight from ingest to flame graph.
   Only statements; proofs by reference (proofs/PprofProofs.v, proofs/ProfTreeProofs.v).
   [h] is the hash of the 16-byte (parent id, function id) buffer: every theorem holds for every h.
   Values are int64: equalities are modulo 2^64 (wrap64), exactly what Go's += computes. *)
From Coq Require Import List NArith ZArith Bool.
From Qryn Require Import model.Pprof proofs.PprofProofs.
Import ListNotations.
Open Scope Z_scope.

(* tree_conserves.  For every profile (any number of sample types, samples, stack depths, recursive
   and shared frames -- a stack is any list of function ids), every sample type k, and every hash h
   under which the node id determines the parent on the (parent, function, depth) triples that occur:
   the stored rows have distinct non-zero ids, each node's total equals its self value plus the totals
   of the rows naming it as parent, and the rows under the root add up to the weight of the samples
   that have at least one frame. *)
Theorem tree_conserves : forall (h : N -> N -> N) (nt : nat) (ss : list sample) (k : nat),
  (k < nt)%nat -> parent_determined h (triples h ss) ->
  let t := post_process h nt ss in
  NoDup (map n_id t) /\
  (forall n, In n t -> n_id n <> 0%N /\ length (n_vals n) = nt) /\
  (forall n, In n t -> snd (val_at k n) = wrap64 (fst (val_at k n) + child_tot k t (n_id n))) /\
  wrap64 (child_tot k t 0%N) = wrap64 (weight k ss).
Proof. exact post_process_conserves. Qed.
Print Assumptions tree_conserves.

(* the hypothesis follows from injectivity of getNodeId on the occurring triples *)
Theorem tree_conserves_injective : forall (h : N -> N -> N) (nt : nat) (ss : list sample) (k : nat),
  (k < nt)%nat -> node_id_injective_on h (triples h ss) ->
  rows_wellformed nt (post_process h nt ss) = true /\ rows_conserve k (post_process h nt ss) ss = true.
Proof. exact tree_conserves_injective_proof. Qed.
Print Assumptions tree_conserves_injective.

(* the hypotheses are met by a non-trivial profile under the real hash (city.CH64 on 16 bytes):
   two sample types, recursion, shared prefixes (ex_profile in proofs/PprofProofs.v) *)
Example tree_conserves_applies : parent_determined city16 (triples city16 ex_profile) /\
  length (post_process city16 2 ex_profile) = 6%nat /\ (forall s, In s ex_profile -> s_stack s <> []).
Proof. exact ex_profile_hypotheses. Qed.

(* The root sum against ALL samples of the profile (the literal statement) fails: a sample without
   frames carries weight that no node receives. *)
Theorem root_sum_refuted : exists (h : N -> N -> N) (nt : nat) (ss : list sample) (k : nat),
  (k < nt)%nat /\ parent_determined h (triples h ss) /\
  wrap64 (child_tot k (post_process h nt ss) 0%N) <> wrap64 (full_weight k ss).
Proof. exact root_sum_refuted_proof. Qed.
Print Assumptions root_sum_refuted.

(* ... and holds when every sample has at least one frame *)
Theorem root_sum_partial : forall (h : N -> N -> N) (nt : nat) (ss : list sample) (k : nat),
  (k < nt)%nat -> parent_determined h (triples h ss) ->
  (forall s, In s ss -> s_stack s <> []) ->
  wrap64 (child_tot k (post_process h nt ss) 0%N) = wrap64 (full_weight k ss).
Proof. exact root_sum_partial_proof. Qed.
Print Assumptions root_sum_partial.
(* since the fix of defect 10 a request emits its ProfileData exactly once, over-size or not *)
Theorem profile_emitted_once : forall (A : Type) (over : bool) (pd : A), emitted over pd = [pd].
Proof. exact @emitted_once. Qed.
Print Assumptions profile_emitted_once.
