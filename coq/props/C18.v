(* Property C18 -- schema initialisation survives failure at any statement and can simply be re-run.
   Only statements; proofs by reference (proofs/MigrateProofs.v generic, proofs/MigrateConcrete.v over the
   script lists regenerated from ctrl/qryn/sql/*.sql). *)
From Coq Require Import List String NArith ZArith Bool Arith.
From Qryn Require Import model.Migrate model.MigrateRepair proofs.MigrateProofs proofs.MigrateClusterProofs proofs.MigrateConcProofs
  proofs.MigrateClassProofs proofs.MigrateClassExact proofs.MigrateSoloProofs proofs.MigrateRepairProofs proofs.MigrateBootProofs proofs.MigrateShardProofs gen.GenScripts proofs.MigrateConcrete proofs.MigrateAnyHostProofs.
Import ListNotations.
Open Scope nat_scope.

(* For ANY statement semantics (also of statements that complete on some hosts only: pexec) and ANY script
   lists, any configuration, any number of process starts with any placement of failures (before / after the
   effect of any database call, or a statement completing on some hosts only): the monitor accepts the whole
   call log -- a script only ever takes effect when all its predecessors of the stream did (file order, no
   gaps) and when its own version is not recorded yet (what is recorded is never run again); a version v is
   only recorded when scripts 0..v-1 were applied -- and in the resulting database the version of every
   stream is at least what the log recorded and at most the number of scripts applied. *)
Theorem version_never_ahead :
  forall (cat stmt : Type) (exec : stmt -> cat -> option cat) (pexec : list bool -> stmt -> cat -> cat)
         (scripts : stream -> list stmt) (c : cfg) (runs : list (list outcome)) (c0 : cat),
  exists m, mon_run mst0 (snd (multi_run cat stmt exec pexec scripts c runs (db0 cat c0))) = Some m /\
            forall k, m_rec m k <= d_vers (fst (multi_run cat stmt exec pexec scripts c runs (db0 cat c0))) k /\
                      d_vers (fst (multi_run cat stmt exec pexec scripts c runs (db0 cat c0))) k <= m_app m k.
Proof. exact never_ahead. Qed.
Print Assumptions version_never_ahead.

(* On a database whose recorded versions are current, Update (with or without failures) issues no script
   statement and no version write, leaves catalogue and versions alone, and succeeds if nothing fails. *)
Theorem noop_when_current :
  forall (cat stmt : Type) (exec : stmt -> cat -> option cat) (pexec : list bool -> stmt -> cat -> cat)
         (scripts : stream -> list stmt) (c : cfg) (os : list outcome) (d : db cat),
  (forall k, In k (streams_of c) -> List.length (scripts k) <= d_vers d k) ->
  let r := update cat stmt exec pexec scripts c os d in
  d_cat (r_db r) = d_cat d /\ d_vers (r_db r) = d_vers d /\ filter is_script_event (r_log r) = [] /\
  (os = [] -> r_ok r = true /\ r_os r = []).
Proof. intros cat stmt exec pexec scripts c. exact (run_streams_noop cat stmt exec pexec scripts c (streams_of c)). Qed.
Print Assumptions noop_when_current.

(* General convergence lemma, one server (a statement takes effect or it does not: pexec_one): if along the
   uninterrupted run every statement succeeds and is re-executable
   right after itself (reexec_streams, a computation), then after any number of interrupted runs one run
   without failures returns nil, ends in the catalogue of the uninterrupted migration, with every stream's
   version at its script count. *)
Theorem rerun_converges :
  forall (cat stmt : Type) (exec : stmt -> cat -> option cat) (scripts : stream -> list stmt)
         (cat_eqb : cat -> cat -> bool), (forall a b, cat_eqb a b = true -> a = b) ->
  forall (c : cfg) (c0 : cat) (runs : list (list outcome)),
  reexec_streams cat stmt exec scripts cat_eqb (streams_of c) c0 = true ->
  let d := fst (multi_run cat stmt exec pexec_one scripts c runs (db0 cat c0)) in
  let r := update cat stmt exec pexec_one scripts c [] d in
  r_ok r = true /\ apply_streams cat stmt exec scripts (streams_of c) c0 = Some (d_cat (r_db r)) /\
  forall k, In k (streams_of c) -> d_vers (r_db r) k = List.length (scripts k).
Proof. exact converges. Qed.
Print Assumptions rerun_converges.

(* The premise holds for the script lists regenerated from the repository, in all eight configurations
   (hypothesis of rerun_converges met by a non-trivial value: 75 statements). *)
Theorem scripts_reexecutable : forall c : cfg,
  reexec_streams cat stmt (exec_ch (cloud c)) gen_scripts cat_eqb (streams_of c) cat0 = true.
Proof. exact gen_reexec. Qed.
Print Assumptions scripts_reexecutable.

(* General convergence lemma, cluster of 1 + n hosts (any n), generic in the per-host statement semantics:
   hosts run a statement independently; an ON CLUSTER statement may complete on any subset of the hosts while
   the caller sees an error (OPartial skip, for every skip), a host may reject what another accepts, a
   statement without ON CLUSTER reaches the connected host only.  If, per host, along the uninterrupted run
   every statement that host receives is accepted and re-executable right after itself (cl_reexec_streams, a
   computation over two catalogues, independent of n), then after any number of interrupted starts one
   undisturbed start returns nil, the connected host ends where its uninterrupted run ends, every other host
   where the ON CLUSTER statements alone lead, and every stream's version is at its script count. *)
Theorem rerun_converges_cluster :
  forall (hcat hstmt : Type) (hexec : hstmt -> hcat -> option hcat) (hcat_eqb : hcat -> hcat -> bool),
  (forall a b, hcat_eqb a b = true -> a = b) ->
  forall (cscripts : stream -> list (cstmt hstmt)) (c : cfg) (h0 ho : hcat) (n : nat) (runs : list (list outcome)),
  cl_reexec_streams hcat hstmt hexec hcat_eqb cscripts (streams_of c) h0 ho = true ->
  let d := fst (multi_run (ccat hcat) (cstmt hstmt) (cl_exec hcat hstmt hexec) (cl_pexec hcat hstmt hexec) cscripts c runs
                  (db0 (ccat hcat) (h0 :: repeat ho n))) in
  let r := update (ccat hcat) (cstmt hstmt) (cl_exec hcat hstmt hexec) (cl_pexec hcat hstmt hexec) cscripts c [] d in
  r_ok r = true /\
  (exists a b, cl_track_streams hcat hstmt hexec cscripts (streams_of c) h0 ho = Some (a, b) /\
               d_cat (r_db r) = a :: repeat b n) /\
  forall k, In k (streams_of c) -> d_vers (r_db r) k = List.length (cscripts k).
Proof. exact cl_converges. Qed.
Print Assumptions rerun_converges_cluster.

(* Its premise holds for the repository's scripts with their {{.OnCluster}} flags, in all eight
   configurations (hypothesis met by a non-trivial value: 75 statements, 63 of them ON CLUSTER). *)
Theorem scripts_reexecutable_cluster : forall c : cfg,
  cl_reexec_streams cat stmt (exec_ch (cloud c)) cat_eqb (cl_scripts gen_scripts gen_oncluster c) (streams_of c) cat0 cat0 = true.
Proof. exact gen_cl_reexec. Qed.
Print Assumptions scripts_reexecutable_cluster.

(* Hence, for the repository's scripts under the modelled ClickHouse semantics, on a cluster of 1 + n hosts
   (n = 0: one server): whatever failures, partially completed ON CLUSTER statements and restarts happened
   before, the next undisturbed start completes, every host reaches exactly the schema it has after a
   migration that was never interrupted, every stream's version is recorded, and a further start runs no
   script. *)
Theorem rerun_converges_scripts : forall (c : cfg) (n : nat) (runs : list (list outcome)),
  let d := fst (cl_multi c runs (db0 (ccat cat) (hosts0 (S n)))) in
  let r := ch_update gen_scripts gen_oncluster c [] d in
  r_ok r = true /\
  d_cat (r_db r) = d_cat (expected_final gen_scripts gen_oncluster c (S n)) /\
  (forall k, In k (streams_of c) -> d_vers (r_db r) k = List.length (gen_scripts k)) /\
  (forall os, filter is_script_event (r_log (ch_update gen_scripts gen_oncluster c os (r_db r))) = []).
Proof. exact gen_converges. Qed.
Print Assumptions rerun_converges_scripts.

(* The connected host ends exactly where the one-server model ends; the other hosts of a cluster do not end
   in the same schema as the connected one (statements without {{.OnCluster}} -- the type_v2 ALIAS columns,
   the settings rows -- reach the connected host only).  Uninterrupted and interrupted runs agree on this. *)
Theorem cluster_hosts_final : forall c : cfg, hosts_final_ok c = true.
Proof. exact gen_hosts_final. Qed.
Print Assumptions cluster_hosts_final.

(* No script touches the version tables (the protocol model keeps them outside the scripts' catalogue). *)
Theorem scripts_leave_ver_alone :
  forallb (fun k => forallb (fun s => negb (touches_ver s)) (gen_scripts k)) all_streams = true.
Proof. exact gen_frame. Qed.
Print Assumptions scripts_leave_ver_alone.

(* The oracle that checks/c18.py evaluates on the call logs observed from the real maintenance.Update
   (scripts identified by the id of their classified content, stream = the one whose version was read
   last) never rejects a log the model can produce, whatever the failures: a rejected observation is a
   property violation or a model/implementation difference, not an artefact of the oracle. *)
Theorem oracle_accepts_model_logs_scripts : forall (c : cfg) (hs : ccat cat) (runs : list (list outcome)),
  omon_ok gen_sids (map (abs_event gen_sids) (snd (cl_multi c runs (db0 (ccat cat) hs)))) = true.
Proof. exact gen_oracle_accepts. Qed.
Print Assumptions oracle_accepts_model_logs_scripts.

(* The premise of rerun_converges cannot be dropped: a RENAME TABLE without IF EXISTS of an object created
   earlier (the shape log.sql had before the fix) passes an undisturbed run, but after one failure between
   the RENAME and its version row every later start fails at the RENAME and the version stays behind. *)
Theorem reexecutability_needed : old_shape_stuck = true /\
  r_ok (update cat stmt (exec_ch false) pexec_one old_shape cfg_single [] (db0 cat cat0)) = true.
Proof. exact (conj old_shape_does_not_converge old_shape_clean_run_ok). Qed.
Print Assumptions reexecutability_needed.

(* The same on a cluster: the unguarded RENAME sent ON CLUSTER to two hosts and completed on the connected one
   only leaves every later start failing; and the monitor rejects a version recorded after a statement that
   completed on some hosts only, while it accepts it once the statement was re-executed to completion. *)
Theorem partial_application_matters : old_shape_cl_stuck = true /\
  mon_ok [EScript SLog 0 (RFPartial); EInsVer SLog 1 ROk] = false /\
  mon_ok [EScript SLog 0 (RFPartial); EScript SLog 0 ROk; EInsVer SLog 1 ROk] = true.
Proof. exact (conj old_shape_cl_does_not_converge partial_then_recorded_rejected). Qed.
Print Assumptions partial_application_matters.

(* Two starters initialising one database at the same time (any interleaving of their database calls, any
   failures, any statement semantics and scripts): each process writes a version only right after it saw the
   script of that version complete -- "no version for a script that did not complete" survives concurrency. *)
Theorem concurrent_version_after_own_script :
  forall (cat stmt : Type) (exec : stmt -> cat -> option cat) (pexec : list bool -> stmt -> cat -> cat)
         (scripts : stream -> list stmt) (c : cfg) (sched : list (bool * outcome)) (d : db cat),
  pmon None (plog false (snd (conc_run cat stmt exec pexec scripts c sched (proc0 c) (proc0 c) d))) = true /\
  pmon None (plog true (snd (conc_run cat stmt exec pexec scripts c sched (proc0 c) (proc0 c) d))) = true.
Proof. exact conc_version_after_own_script. Qed.
Print Assumptions concurrent_version_after_own_script.

(* ... but file order and convergence do not: with the repository's scripts on a single node there is an
   interleaving of two starters (conc_sched) whose merged log the monitor rejects and after which every
   undisturbed start returns nil with all versions current while table samples_read is missing
   (findings.d: concurrent-starters). *)
Theorem concurrent_starters_refuted : conc_witness = true.
Proof. exact conc_witness_holds. Qed.
Print Assumptions concurrent_starters_refuted.

(* The per-process oracle the check evaluates on the observed logs of two concurrent starters (a version write
   must directly follow the completed statement that is script v-1 of that stream, statements identified by id)
   accepts every log the model can produce under any schedule: its alarms are never artefacts. *)
Theorem concurrent_oracle_accepts_model_logs : forall (c : cfg) (sched : list (bool * outcome)) (hs : ccat cat) (who : bool),
  opmon gen_sids None (oplog who (map (fun e => (fst e, abs_event gen_sids (snd e)))
     (snd (ch_conc gen_scripts gen_oncluster c sched (proc0 c) (proc0 c) (db0 (ccat cat) hs))))) = true.
Proof. exact gen_conc_oracle_accepts. Qed.
Print Assumptions concurrent_oracle_accepts_model_logs.

(* ---- idempotence per statement CLASS (session 3).  Under the modelled ClickHouse semantics, on a catalogue
   without duplicate object names (wf; kept by every statement), a statement of a guarded class -- CREATE TABLE /
   VIEW / MATERIALIZED VIEW IF NOT EXISTS, DROP TABLE IF EXISTS, RENAME TABLE IF EXISTS, ALTER TABLE whose ADD
   COLUMNs all say IF NOT EXISTS and whose MODIFY ORDER BY commands carry one key, INSERT of a settings row --
   that is accepted is accepted again right after itself and changes nothing.  For every statement of these
   shapes, every catalogue: no computation over a script list. *)
Theorem guarded_statements_reexecutable : forall (cloud : bool) (s : stmt) (c c1 : cat),
  wf c -> guarded s = true -> exec_ch cloud s c = Some c1 -> exec_ch cloud s c1 = Some c1 /\ wf c1.
Proof. exact guarded_reexec. Qed.
Print Assumptions guarded_statements_reexecutable.

(* The classification is exact: wherever a statement is accepted (duplicate-free catalogue), it is re-executable right
   after itself if and only if it is of a guarded class -- a statement outside the classes is rejected when sent once
   more.  So a statement that fails the syntactic test is a genuine obstacle to re-running, never a false alarm. *)
Theorem guarded_classification_exact : forall (cloud : bool) (s : stmt) (c c1 : cat),
  wf c -> exec_ch cloud s c = Some c1 -> (guarded s = true <-> exec_ch cloud s c1 = Some c1).
Proof. exact guarded_exact. Qed.
Print Assumptions guarded_classification_exact.

(* Hence convergence for ANY script lists and ON CLUSTER flags (a future script is covered by the translator's
   classification alone): if every statement is of a guarded class and the uninterrupted run is accepted (on the
   connected host, and the ON CLUSTER statements on any other host), then on 1 + n hosts, after any failures,
   partially completed statements and restarts, one undisturbed start returns nil, every host ends where its
   uninterrupted run ends and every version is recorded. *)
Theorem rerun_converges_guarded :
  forall (scripts : stream -> list stmt) (oncl : stream -> list bool) (c : cfg) (a b : cat) (n : nat) (runs : list (list outcome)),
  (forall k, In k (streams_of c) -> forallb guarded (scripts k) = true) ->
  cl_track_streams cat stmt (exec_ch (cloud c)) (cl_scripts scripts oncl c) (streams_of c) cat0 cat0 = Some (a, b) ->
  let d := fst (multi_run (ccat cat) (cstmt stmt) (cl_exec cat stmt (exec_ch (cloud c))) (cl_pexec cat stmt (exec_ch (cloud c)))
                  (cl_scripts scripts oncl c) c runs (db0 (ccat cat) (hosts0 (S n)))) in
  let r := ch_update scripts oncl c [] d in
  r_ok r = true /\ d_cat (r_db r) = a :: repeat b n /\
  forall k, In k (streams_of c) -> d_vers (r_db r) k = List.length (cl_scripts scripts oncl c k).
Proof. exact scripts_converge_if_guarded. Qed.
Print Assumptions rerun_converges_guarded.

(* Its hypotheses for the repository: all 75 regenerated statements are of a guarded class (a syntactic test, no
   statement is executed) and the uninterrupted run is accepted on both tracks in all eight configurations.
   rerun_converges_scripts above is now derived from these two facts and the class theorem. *)
Theorem scripts_guarded :
  forallb (fun k => forallb guarded (gen_scripts k)) all_streams = true /\
  forall c : cfg, is_some (cl_track_streams cat stmt (exec_ch (cloud c)) (cl_scripts gen_scripts gen_oncluster c) (streams_of c) cat0 cat0) = true.
Proof. exact (conj gen_guarded gen_track_accepted). Qed.
Print Assumptions scripts_guarded.

(* ---- the small-step process model used for two concurrent starters refines the big-step update IN GENERAL (was:
   8 computed runs): one process alone, stepped calls_bound times (3 + 2 per script, per stream) under the same
   outcome list, makes exactly the calls of update, ends in the same database and returns the same verdict --
   any statement semantics, scripts, configuration, outcomes, start database. *)
Theorem small_step_refines_update :
  forall (cat stmt : Type) (exec : stmt -> cat -> option cat) (pexec : list bool -> stmt -> cat -> cat)
         (scripts : stream -> list stmt) (c : cfg) (os : list outcome) (d : db cat),
  solo_run cat stmt exec pexec scripts c (calls_bound stmt scripts c) (proc0 c) os d =
  (p_done (r_ok (update cat stmt exec pexec scripts c os d)), r_db (update cat stmt exec pexec scripts c os d),
   r_log (update cat stmt exec pexec scripts c os d)).
Proof. exact solo_refines_update. Qed.
Print Assumptions small_step_refines_update.

(* ---- a candidate repair of finding concurrent-starters, examined in the model and NOT landed: re-reading max(ver)
   immediately before every script and jumping ahead (model/MigrateRepair.v).  Under every interleaving a process
   then sends script i only directly after it read, itself, a version <= i of that stream ... *)
Theorem reread_script_after_own_read :
  forall (cat stmt : Type) (exec : stmt -> cat -> option cat) (pexec : list bool -> stmt -> cat -> cat)
         (scripts : stream -> list stmt) (c : cfg) (sched : list (bool * outcome)) (d : db cat),
  pmonR None (plog false (snd (conc_runR cat stmt exec pexec scripts c sched (procR0 c) (procR0 c) d))) = true /\
  pmonR None (plog true (snd (conc_runR cat stmt exec pexec scripts c sched (procR0 c) (procR0 c) d))) = true.
Proof. exact reread_script_after_own_read. Qed.
Print Assumptions reread_script_after_own_read.

(* ... which closes the recorded witness shape (a starter holding a version read long ago) but not the finding: the
   other starter can pass script i between that read and the statement.  With the repository's scripts: q alone up
   to its re-read before script 3, then p runs the whole initialisation, then q sends DROP TABLE IF EXISTS
   samples_read -- both return nil, every later start is a no-op, samples_read is missing for good. *)
Theorem reread_repair_insufficient : reread_closes_stale_start = true /\ reread_witness = true /\
  (* the statements that change the finished single-node schema when sent once more: log.sql #3, #18, #21, profiles.sql #11 *)
  stale_harmful cfg_single = [(1%N, 3); (1%N, 18); (1%N, 21); (5%N, 11)].
Proof. exact (conj (proj1 reread_repair_examined) (conj (proj2 reread_repair_examined) stale_harmful_single)). Qed.
Print Assumptions reread_repair_insufficient.

(* ---- the real entry point: ctrl.Init = InitDB (CREATE DATABASE IF NOT EXISTS, error dropped; SHOW CREATE DATABASE,
   error = panic), then UpgradeAll -> upgradeDB (ttl_days check) -> Update.  For any statement semantics and scripts:
   the Update parts of any sequence of starts through the bootstrap are a sequence of plain Update starts on the same
   database, so the monitor accepts the whole log and no version is ever ahead. *)
Theorem init_version_never_ahead :
  forall (cat stmt : Type) (exec : stmt -> cat -> option cat) (pexec : list bool -> stmt -> cat -> cat)
         (scripts : stream -> list stmt) (bc : bcfg) (runs : list (list outcome)) (c0 : cat) (e : bool),
  exists m, mon_run mst0 (snd (init_multi cat stmt exec pexec scripts bc runs {| bd_exists := e; bd_db := db0 cat c0 |})) = Some m /\
            forall k, m_rec m k <= d_vers (bd_db (fst (init_multi cat stmt exec pexec scripts bc runs {| bd_exists := e; bd_db := db0 cat c0 |}))) k /\
                      d_vers (bd_db (fst (init_multi cat stmt exec pexec scripts bc runs {| bd_exists := e; bd_db := db0 cat c0 |}))) k <= m_app m k.
Proof. exact init_never_ahead. Qed.
Print Assumptions init_version_never_ahead.

(* For the repository's scripts on 1 + n hosts: whatever happened in earlier starts of ctrl.Init (failures of the
   bootstrap calls, panics, failures anywhere in Update, partially completed ON CLUSTER statements), the next
   undisturbed start gets through the bootstrap, returns nil, every host ends in the schema of an uninterrupted
   migration with every version recorded, and a further start (under any failures) runs no script. *)
Theorem init_rerun_converges_scripts : forall (bc : bcfg) (n : nat) (runs : list (list outcome)), b_ttl0 bc = false ->
  let d := fst (cl_init_multi bc runs {| bd_exists := false; bd_db := db0 (ccat cat) (hosts0 (S n)) |}) in
  let r := ch_init gen_scripts gen_oncluster bc [] d in
  br_ok r = true /\
  d_cat (bd_db (br_db r)) = d_cat (expected_final gen_scripts gen_oncluster (b_cfg bc) (S n)) /\
  (forall k, In k (streams_of (b_cfg bc)) -> d_vers (bd_db (br_db r)) k = List.length (gen_scripts k)) /\
  (forall os, filter is_script_event (br_log (ch_init gen_scripts gen_oncluster bc os (br_db r))) = []).
Proof. exact gen_init_converges. Qed.
Print Assumptions init_rerun_converges_scripts.

(* ---- round 7: where the version rows live on a cluster.  INSERT INTO ver goes to the local table of the connected
   host (a Replicated ver shares it within one shard); ver_dist reads every shard.  For every sequence of version
   writes, each through any shard: what ver_dist answers is exactly the model's d_vers (one function of the stream,
   raised by set_ver) -- so the protocol theorems above do not depend on the host a start is connected to as long as
   the version is read through ver_dist, which is what updateScripts does whenever a cluster name is set. *)
Theorem version_read_through_ver_dist_is_the_models :
  forall (cat : Type) (ws : list (nat * stream * nat)) (st : vstore) (d : db cat),
  Forall (fun w => fst (fst w) < List.length st) ws ->
  (forall k, read_dist st k = d_vers d k) ->
  forall k, read_dist (writes ws st) k = d_vers (model_writes cat ws d) k.
Proof. exact dist_read_follows_model. Qed.
Print Assumptions version_read_through_ver_dist_is_the_models.

(* ... while the local table of another shard never shows a write: a start that reaches the cluster through another
   shard and reads `ver` finds version 0 of a fully migrated database (Example two_shards: 28 recorded through shard
   0, shard 1 answers 0, ver_dist 28).  Reading the local table on a cluster is therefore outside the model; the
   harness lets the last start of a history connect to another host and judges what it executes. *)
Theorem version_read_from_local_table_misses_other_shards :
  forall (st : vstore) (s s' : nat) (k : stream) (v : nat) (k' : stream), s <> s' ->
  read_local s' (ins s k v st) k' = read_local s' st k'.
Proof. exact local_read_misses. Qed.
Print Assumptions version_read_from_local_table_misses_other_shards.

(* A start through ANY host of the cluster (the host list with hosts 0 and j exchanged for the duration of the start)
   on an up-to-date database, under any failures: no script statement, no version write, every host's catalogue and
   the versions unchanged -- noop_when_current does not depend on the connected host. *)
Theorem noop_when_current_through_any_host :
  forall (scripts : stream -> list stmt) (oncl : stream -> list bool) (c : cfg) (j : nat) (os : list outcome) (d : db (ccat cat)),
  (forall k, In k (streams_of c) -> List.length (cl_scripts scripts oncl c k) <= d_vers d k) ->
  let m := fst (start_at scripts oncl c j os d) in
  let d1 := snd (start_at scripts oncl c j os d) in
  d_cat d1 = d_cat d /\ d_vers d1 = d_vers d /\ filter is_script_event (r_log m) = [].
Proof. exact noop_through_any_host. Qed.
Print Assumptions noop_when_current_through_any_host.

(* Round 8: histories in which EVERY start may reach the cluster through a different host (multi_run_at: a list of
   (connected host, injected outcomes) per start; a load-balanced address or several configured nodes).  For ANY script
   lists and ON CLUSTER flags, any configuration, any host catalogues to start from (any number of hosts), any
   failures or partially completed ON CLUSTER statements: the monitor accepts the whole call log and every recorded
   version lies between what the log recorded and what it completed.  "A version is never recorded for a script that
   did not complete; scripts in file order, none skipped; nothing recorded runs again" does not depend on the host a
   start is connected to (was: stated for starts that all go through host 0). *)
Theorem version_never_ahead_through_any_hosts :
  forall (scripts : stream -> list stmt) (oncl : stream -> list bool) (c : cfg) (runs : list (nat * list outcome)) (hs : ccat cat),
  exists m, mon_run mst0 (snd (multi_run_at scripts oncl c runs (db0 (ccat cat) hs))) = Some m /\
            forall k, m_rec m k <= d_vers (fst (multi_run_at scripts oncl c runs (db0 (ccat cat) hs))) k /\
                      d_vers (fst (multi_run_at scripts oncl c runs (db0 (ccat cat) hs))) k <= m_app m k.
Proof. exact never_ahead_any_host. Qed.
Print Assumptions version_never_ahead_through_any_hosts.

(* The repository's scripts, 1 + n hosts, every start through the SAME host j -- whichever j (guard of the statement
   below): after any failures, partial applications, restarts, the next undisturbed start through j returns nil, the
   hosts end in the schema of the uninterrupted run with hosts 0 and j exchanged, every version is recorded, and a
   further start through ANY host j' under any failures runs no script.  (Example any_host_examples: 3 hosts, j = 2.) *)
Theorem rerun_converges_scripts_through_one_host : forall (c : cfg) (n j : nat) (runs : list (list outcome)),
  let d := fst (multi_run_at gen_scripts gen_oncluster c (map (fun os => (j, os)) runs) (db0 (ccat cat) (hosts0 (S n)))) in
  let m := fst (start_at gen_scripts gen_oncluster c j [] d) in
  let d1 := snd (start_at gen_scripts gen_oncluster c j [] d) in
  r_ok m = true /\
  d_cat d1 = swap_hosts j (d_cat (expected_final gen_scripts gen_oncluster c (S n))) /\
  (forall k, In k (streams_of c) -> d_vers d1 k = List.length (gen_scripts k)) /\
  (forall j' os, filter is_script_event (r_log (fst (start_at gen_scripts gen_oncluster c j' os d1))) = []).
Proof. exact gen_converges_same_host. Qed.
Print Assumptions rerun_converges_scripts_through_one_host.

(* The guard cannot be dropped (finding resumed-start-through-another-host): cluster name set, plain engines, 2 hosts.
   A start through host 0 is cut off after log.sql #24 (ALTER TABLE .. ADD COLUMN type_v2 .. ALIAS, sent WITHOUT ON
   CLUSTER) and its version row; the next start goes through host 1 and completes.  The monitor accepts the whole log,
   the following start (through host 1) returns nil and runs no script, every version is recorded -- and the hosts'
   schemas equal those of NO uninterrupted run, through whichever host j' it is made: "ends in the same schema as an
   uninterrupted run" fails when a RESUMED start reaches the cluster through another host. *)
Theorem resumed_start_through_another_host_refuted :
  exists (c : cfg) (runs : list (nat * list outcome)) (j : nat),
    let r := multi_run_at gen_scripts gen_oncluster c runs (db0 (ccat cat) (hosts0 2)) in
    let s := start_at gen_scripts gen_oncluster c j [] (fst r) in
    mon_ok (snd r) = true /\ r_ok (fst s) = true /\
    (forall k, In k (streams_of c) -> d_vers (snd s) k = List.length (gen_scripts k)) /\
    filter is_script_event (r_log (fst s)) = [] /\
    forall j', list_eqb cat_eqb (d_cat (snd s)) (swap_hosts j' (d_cat (expected_final gen_scripts gen_oncluster c 2))) = false.
Proof. exact resumed_elsewhere_witness. Qed.
Print Assumptions resumed_start_through_another_host_refuted.
