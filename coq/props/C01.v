(* Property C01 -- a push is acknowledged only after ClickHouse accepted all of its rows.
   Only statements; proofs by reference.  Model: model/Ingest.v (one insert worker), model/PushHandler.v (all
   workers, promise store, HTTP push handlers with retry); monitors: model/IngestSpec.v. *)
From Coq Require Import List NArith ZArith Bool.
From Qryn Require Import model.IngestRobust model.IngestPipe.   (* C05's parser pipeline (for the bridge at the end); first: C01's names win *)
From Qryn Require Import model.Ingest model.PushHandler model.IngestSpec model.IngestSched proofs.IngestBase proofs.IngestAck
  proofs.IngestSpecProofs proofs.IngestHandler proofs.IngestDrain proofs.IngestLive proofs.IngestLiveAll proofs.IngestRows
  proofs.IngestWait proofs.IngestStop model.IngestFair proofs.IngestFairProofs model.IngestRegions proofs.IngestRegionsProofs model.PushConfirm proofs.IngestConfirm
  model.IngestConfirmSched proofs.IngestConfirmInv proofs.IngestConfirmLive model.PushRead proofs.PushReadProofs
  model.IngestConfirmFair proofs.IngestConfirmFairProofs model.IngestBridge proofs.IngestBridgeProofs.
From Qryn Require model.SeriesIndex proofs.PushReadIndex.
From Qryn Require Import model.IngestSwap2 proofs.IngestSwap2Proofs.
From Qryn Require proofs.IngestBatchIndep.
From Qryn Require proofs.IngestBatchIndepSys.
From Qryn Require model.PromiseHB proofs.PromiseHBProofs.
Import ListNotations.

(* For every configuration (workers of any kind / round-robin group / maxQueueSize, retry count), every
   interleaving of requests, timer/size/forced flushes, dials, Do outcomes, parser chunks, retries and answers in
   which the submitted requests are well formed: whenever a promise is completed with success, and whenever a
   handler answers success, every cell of the request (of every sub-request of every chunk of the handler) is in
   a block whose Do had returned without error before. *)
Theorem ack_sound : forall cfg n tr g es,
  forallb act_wf tr = true ->
  grun (ginit cfg n) tr = Some (g, es) ->
  run_mon (amon_step true) (amon_init (length cfg)) es <> None.
Proof. intros cfg n tr g es H. apply ack_sound_gen. now apply trace_wf_ok. Qed.
Print Assumptions ack_sound.

(* The same for ARBITRARY requests fails: a request whose key column is empty is answered success at once,
   whatever its other columns hold ... *)
Theorem ack_sound_any_request_refuted : ~ (forall cfg n tr g es,
  grun (ginit cfg n) tr = Some (g, es) ->
  run_mon (amon_step true) (amon_init (length cfg)) es <> None).
Proof.
  intros H.
  specialize (H [(KSamples, 0%nat, 0%Z)] 1%N
                [GEnvReq 0 KSamples 1%N [[(7%N, 0%nat)]; []; [(7%N, 2%nat)]; [(7%N, 3%nat)]; [(7%N, 4%nat)]] 10%Z]).
  vm_compute in H. eapply H; reflexivity.
Qed.
Print Assumptions ack_sound_any_request_refuted.

(* ... and what remains true of arbitrary requests: success is reported only after a successful INSERT that
   contained every cell ProcessRequest appended for the request, unless nothing was `inserted` (empty key column). *)
Theorem ack_sound_partial : forall cfg n tr g es,
  grun (ginit cfg n) tr = Some (g, es) ->
  run_mon (amon_step false) (amon_init (length cfg)) es <> None.
Proof. intros cfg n tr g es. apply ack_sound_gen. apply trace_weak_ok. Qed.
Print Assumptions ack_sound_partial.

(* For arbitrary requests: a promise is completed either by Request itself -- only with an error (service
   stopped) or because nothing was inserted (empty key column) -- or in the burst that directly follows the
   return of the Do whose portion holds it, with exactly that Do's outcome; a worker never has two Do calls in
   flight and never sends an empty portion. *)
Theorem promise_resolved_with_its_block : forall cfg n tr g es,
  grun (ginit cfg n) tr = Some (g, es) ->
  run_mon (smon_step MLenient) (smon_init (length cfg)) es <> None.
Proof. intros cfg n tr g es. apply spec_sound_gen. apply act_q_lenient. Qed.
Print Assumptions promise_resolved_with_its_block.

(* No promise is completed twice and no handler answers twice, in any trace. *)
Theorem one_answer : forall cfg n tr g es,
  grun (ginit cfg n) tr = Some (g, es) -> one_answer_b es = true.
Proof. exact one_answer_holds. Qed.
Print Assumptions one_answer.

(* A handler that has answered success has, for every sub-push of every chunk, an attempt whose promise was
   completed with success (and, by ack_sound, whose rows a successful INSERT contained) ... *)
Theorem success_needs_a_successful_attempt : forall cfg n tr g es h hd i sp,
  grun (ginit cfg n) tr = Some (g, es) ->
  nth_error (hs g) h = Some hd -> nth_error (h_subs hd) i = Some sp ->
  h_answer hd = Some true ->
  exists k v, lookup_store (PSub h i k) (store g) = Some (v, true).
Proof. exact success_needs_successful_attempt. Qed.
Print Assumptions success_needs_a_successful_attempt.

(* ... hence: if every completed attempt of some sub-push failed -- in particular when all RetryAttempts attempts
   were completed with an error, and also when RetryAttempts = 0 -- the handler has not answered success, and
   (completed promises never change) never will. *)
Theorem exhaustion_is_error : forall cfg n tr g es h hd i sp,
  grun (ginit cfg n) tr = Some (g, es) ->
  nth_error (hs g) h = Some hd -> nth_error (h_subs hd) i = Some sp ->
  (forall k v ok, lookup_store (PSub h i k) (store g) = Some (v, ok) -> ok = false) ->
  h_answer hd <> Some true.
Proof.
  intros cfg n tr g es h hd i sp Hrun Hh Hi Hall Ha.
  destruct (success_needs_successful_attempt _ _ _ _ _ _ _ _ _ Hrun Hh Hi Ha) as (k & v & L).
  specialize (Hall _ _ _ L). discriminate.
Qed.
Print Assumptions exhaustion_is_error.

(* "Every request eventually gets an answer while the database keeps answering", as absence of wedged states, for one
   worker: from every state a running worker can reach (requests of any accounted size), the continuation drain
   (return of the Do that is out, PlanFlush, dial, swapBuffers, Do, successful return) is executable, completes
   every pending promise with success and leaves the worker empty. *)
Theorem can_always_drain : forall k g mq tr s vs,
  srun (svc_init k g mq) tr = Some (s, vs) -> running s = true ->
  exists s' vs', srun s (drain s) = Some (s', vs') /\ results s' = [] /\ inflight s' = None /\
    dones vs' = map (fun pr => (fst pr, true))
                    (match inflight s with Some po => p_res po | None => [] end ++ results s).
Proof. intros k g mq tr s vs _ Hrun. now apply svc_can_always_drain. Qed.
Print Assumptions can_always_drain.

(* The same lifted to the whole system -- all workers, the promise store and the HTTP handlers doParse / doPush with
   their retries.  next_act db (model/IngestSched.v) is a scheduler that only takes steps of the system itself (the
   flush timer / PlanFlush, dial, swapBuffers, the call of Do, the return of a Do with the outcome db chooses,
   doParse receiving an item, a doPush goroutine starting an attempt or returning from Get(), doParse answering): no
   new push, no new direct request.  In every state reachable by a trace without Stop in which every sub-request is
   routed to an existing service and does not make ProcessRequest panic, for EVERY policy db of INSERT outcomes (the
   database may refuse every INSERT: the retries run out), the step it picks is enabled and decreases the variant mu;
   and when it picks nothing, every push has its answer, every sub-push its result and every worker is empty. *)
Theorem scheduler_never_stuck : forall cfg n tr g es (db : gstate -> nat -> bool),
  grun (ginit cfg n) tr = Some (g, es) -> forallb (act_live (sig_of_cfg cfg)) tr = true ->
  match next_act db g with
  | Some a => internal a = true /\ act_live (sig_of_cfg cfg) a = true /\
              (forall s ok, a = GSvc s (SDoReturn ok) -> ok = db g s) /\
              exists g' es', gstep g a = Some (g', es') /\ (mu g' < mu g)%nat
  | None => all_done g = true
  end.
Proof. intros cfg n tr g es db Hrun Hl. apply sched_progress. eapply reachable_PI; eauto. Qed.
Print Assumptions scheduler_never_stuck.

(* Hence: from every such state there is a schedule tr' of at most mu g steps of the system itself, following the
   database policy db, after which everything is finished (all_done), and in the event log of the whole run every
   push that had arrived has EXACTLY ONE answer event (one_answer: no schedule can produce a second one). *)
Theorem every_push_is_answered_exactly_once : forall cfg n tr g es (db : gstate -> nat -> bool),
  grun (ginit cfg n) tr = Some (g, es) -> forallb (act_live (sig_of_cfg cfg)) tr = true ->
  exists tr' g' es',
    grun g tr' = Some (g', es') /\ forallb internal tr' = true /\ follows db g tr' = true /\ (length tr' <= mu g)%nat /\
    all_done g' = true /\ length (hs g') = length (hs g) /\
    forall h, (h < length (hs g))%nat -> count_occ Nat.eq_dec (answered (es ++ es')) h = 1%nat.
Proof. exact every_push_answered_once. Qed.
Print Assumptions every_push_is_answered_exactly_once.

(* ack_sound for ARBITRARY requests, stated over rows.  The rows of a request are what ProcessRequest reports as
   `inserted`: the entries it appended to the key column (nrows).  On every trace the lenient monitor accepts, and what it
   demands of a success (of a promise, of a handler) is: the request has no row -- Request then acknowledges it at once,
   there is nothing an INSERT could contain -- or every cell of every column it appended is in ONE block whose Do
   returned without error.  (What the cells such a row-less request leaves in the buffers do to the next block is C02's
   bad_request_poisons_batch.) *)
Theorem ack_sound_over_rows : forall cfg n tr g es,
  grun (ginit cfg n) tr = Some (g, es) ->
  run_mon (amon_step false) (amon_init (length cfg)) es <> None /\
  (forall m e m', amon_step false m e = Some m' ->
     match e with
     | EResolve _ k r true =>
         exists r', eff k r = Some r' /\ (nrows k r' = 0%nat \/ exists b, In b (a_acked m) /\ cells_subb r' b = true)
     | EAnswer _ reqs true =>
         forall k r, In (k, r) reqs ->
           exists r', eff k r = Some r' /\ (nrows k r' = 0%nat \/ exists b, In b (a_acked m) /\ cells_subb r' b = true)
     | _ => True
     end).
Proof.
  intros cfg n tr g es H. split; [|exact lenient_means_rows]. revert H. apply ack_sound_gen. apply trace_weak_ok.
Qed.
Print Assumptions ack_sound_over_rows.

(* Bounded waiting, counted in steps of the worker's own fetch loop instead of seconds: rank p sv is the number of
   fetch-loop / database steps (fair_b: return of the Do that is out, expiry of the flush timer, dial, swapBuffers, call
   of Do, return of that Do) a promise p held by worker sv still needs; it is at most 7, no request, PlanFlush or failed
   dial interleaved in any way makes it grow (only a failing watchdog ping or Stop could: not `harmless`), every
   fetch-loop step lowers it, and after seven of them p is completed.  In time: at most the rest of one Do, one flush
   interval, one dial and one more Do. *)
Theorem a_held_promise_waits_at_most_seven_worker_steps : forall sv tr sv' vs p n,
  running sv = true -> forallb harmless tr = true -> srun sv tr = Some (sv', vs) -> rank p sv = Some n ->
  (n <= 7)%nat /\
  (done_in p vs = true \/ exists n', rank p sv' = Some n' /\ (n' + fairs sv tr <= n)%nat) /\
  ((7 <= fairs sv tr)%nat -> done_in p vs = true).
Proof.
  intros sv tr sv' vs p n R H S K. split; [eapply rank_le_7; eauto|]. split; [eapply bounded_wait_gen; eauto|].
  intros F. eapply bounded_wait; eauto.
Qed.
Print Assumptions a_held_promise_waits_at_most_seven_worker_steps.

(* Why the liveness theorems exclude Stop: whatever happens to a stopped worker afterwards (any action list), its open
   batch stays as it is -- Run has returned, nobody calls swapBuffers, the promises in svc.results are never completed. *)
Theorem stopped_worker_never_flushes : forall tr sv sv' vs,
  running sv = false -> srun sv tr = Some (sv', vs) -> running sv' = false /\ results sv' = results sv.
Proof. exact IngestStop.stopped_worker_never_flushes. Qed.
Print Assumptions stopped_worker_never_flushes.

(* "... while the database keeps answering", with a database that also REFUSES connections and leaves watchdog pings
   unanswered (model/IngestFair.v).  fetchLoopIteration answers a refused connection by returning with insertCtx still
   done -- Run calls it again, it dials again --, a failed ping by dropping the client.  An adversary adv picks the
   moments of these faults (a dial can only be refused while the worker dials, a ping only fails between two inserts);
   the fairness hypothesis is that it does so finitely often: at most b times, b arbitrary.  For every reachable state
   (no Stop, routed sub-requests), every policy db of INSERT outcomes, every adversary and every budget: the step
   next_act_f picks -- the adversary's fault if it is enabled and the budget allows, else the system's own next step --
   is enabled, brings no new work, and decreases the variant mu g + 2 b; when nothing is picked everything is finished. *)
Theorem scheduler_never_stuck_while_the_database_answers : forall cfg n tr g es (db : gstate -> nat -> bool) adv b,
  grun (ginit cfg n) tr = Some (g, es) -> forallb (act_live (sig_of_cfg cfg)) tr = true ->
  match next_act_f db adv g b with
  | Some (a, b') => nonew a = true /\ act_live (sig_of_cfg cfg) a = true /\
                    (forall s ok, a = GSvc s (SDoReturn ok) -> ok = db g s) /\
                    b = (b' + (if is_fault a then 1 else 0))%nat /\
                    exists g' es', gstep g a = Some (g', es') /\ (mu g' + 2 * b' < mu g + 2 * b)%nat
  | None => all_done g = true
  end.
Proof.
  intros cfg n tr g es db adv b Hrun Hl.
  exact (sched_f_progress (sig_of_cfg cfg) db adv g b (reachable_PI _ _ _ _ _ Hrun Hl)).
Qed.
Print Assumptions scheduler_never_stuck_while_the_database_answers.

(* Hence the run of that scheduler (at most mu g + 2 b steps, tr') ends with everything finished, the adversary having
   injected count_faults tr' = b - b' faults, and in the event log of the whole run every push that had arrived has
   exactly one answer. *)
Theorem every_push_is_answered_exactly_once_while_the_database_answers :
  forall cfg n tr g es (db : gstate -> nat -> bool) adv b,
  grun (ginit cfg n) tr = Some (g, es) -> forallb (act_live (sig_of_cfg cfg)) tr = true ->
  exists tr' g' b' es',
    run_sched_f db adv (muf g b) g b = (g', b', tr', es') /\
    grun g tr' = Some (g', es') /\ forallb nonew tr' = true /\ follows db g tr' = true /\ (length tr' <= mu g + 2 * b)%nat /\
    (count_faults tr' + b' = b)%nat /\
    all_done g' = true /\ length (hs g') = length (hs g) /\
    forall h, (h < length (hs g))%nat -> count_occ Nat.eq_dec (answered (es ++ es')) h = 1%nat.
Proof. exact every_push_answered_once_f. Qed.
Print Assumptions every_push_is_answered_exactly_once_while_the_database_answers.

(* The fairness hypothesis is needed, (a): refusals must be finite.  A refused connection leaves the system exactly
   where it was, so any number m of them is a schedule of steps without new work that ends where it began ... *)
Theorem refused_connections_lead_nowhere : forall g s g1 e1, gstep g (GSvc s (SDial false)) = Some (g1, e1) ->
  forall m, grun g (repeat (GSvc s (SDial false)) m) = Some (g, repeat (EDial s false) m) /\
            forallb nonew (repeat (GSvc s (SDial false)) m) = true.
Proof. exact refused_dials_lead_nowhere. Qed.
Print Assumptions refused_connections_lead_nowhere.

(* ... hence without a bound on the refusals no number of steps guarantees the answers (witness dial_demo_state: a
   reachable state with an open push whose worker is dialling). *)
Theorem completion_without_fairness_refuted :
  ~ (forall cfg n tr g es, grun (ginit cfg n) tr = Some (g, es) -> forallb (act_live (sig_of_cfg cfg)) tr = true ->
       exists bound, forall tr' g' es', forallb nonew tr' = true -> grun g tr' = Some (g', es') ->
         (bound <= length tr')%nat -> all_done g' = true).
Proof. exact bounded_completion_needs_finite_refusals. Qed.
Print Assumptions completion_without_fairness_refuted.

(* The fairness hypothesis is needed, (b): a Do must return.  blocked g h k: push h is unanswered, its parser has
   finished and its first sub-push is blocked in Get() of an attempt whose promise is not completed.  NO continuation
   in which no Do returns -- new pushes, direct requests, flushes, dials, Stop included -- answers push h: it stays
   blocked and no EAnswer h is emitted.  (dial_demo_state: such states are reachable.) *)
Theorem unanswered_until_a_do_returns : forall tr g g' es h k,
  blocked g h k -> forallb no_do_return tr = true -> grun g tr = Some (g', es) ->
  blocked g' h k /\ ~ In h (answered es).
Proof. exact grun_blocked. Qed.
Print Assumptions unanswered_until_a_do_returns.

(* Mutex atomicity.  The model treats each mutex hold of genericInsertService.go as one atomic step.  The Lock/Unlock
   regions of the methods of InsertServiceV2 are regenerated from the source on every run (translate/gen_c01_regions:
   fields written with a classification of the value, fields read, calls, what is returned; and every access to a
   receiver field outside any region) and must equal regions_model / outside_model.  Over these: every step kind of
   sstep that may change a field other goroutines touch (columns, size, results, insertCtx/insertCancel, running) is
   exactly one region whose writes are the step's; the steps without a region (dial, call and return of Do, ping)
   change only client and the portion in flight, which belong to the Run goroutine alone; every region is exactly one
   step kind (or Init); outside the regions no shared field is written and it is read only at three listed places; and
   swapBuffers returns (columns, results, size) as they were and re-initialises all three with fresh / empty values, so
   no alias of the portion stays in the service (what the seeded changes C01-a, C01-b and C02-b broke). *)
Theorem model_steps_are_the_critical_sections : regions_ok regions_model outside_model = true.
Proof. exact IngestRegionsProofs.model_steps_are_the_critical_sections. Qed.
Print Assumptions model_steps_are_the_critical_sections.

(* ... and the frame side of it, for every state: a step changes only the model fields listed for its kind. *)
Theorem a_step_changes_only_the_fields_of_its_region : forall s a s' vs m,
  sstep s a = Some (s', vs) -> mem_mfield m (step_writes (kind_of a)) = false -> same_on m s s'.
Proof. exact sstep_frame. Qed.
Print Assumptions a_step_changes_only_the_fields_of_its_region.

(* unmarshal.ConfirmSeries (the announcement cache of the time_series rows, /repo 00ba95e) inside the model:
   model/PushConfirm.v wraps the system with the cache and the confirmation loop of doParse, which runs after the in-order
   Get() loop found no error and before doParse returns nil (the status is written after that).  The wrapped system
   refines the plain one -- its runs, with the confirmation steps erased, are runs of model/PushHandler.v with the same
   events --, so every theorem above holds of it. *)
Theorem confirming_system_refines : forall tr c c' es, crun c tr = Some (c', es) ->
  grun (base c) (base_trace tr) = Some (base c', base_events es).
Proof. exact crun_refines. Qed.
Print Assumptions confirming_system_refines.

(* A series row is announced as stored only after it was stored: for every configuration and interleaving of well-formed
   requests, whenever the confirmation loop of push h runs, its keys are those of the series requests of the push and
   EVERY sub-request of every chunk of the push is covered by blocks whose Do had returned without error (m: the state
   of the acknowledgement monitor of ack_sound on the events so far). *)
Theorem series_confirmed_only_after_all_inserts : forall cfg n tr c ces,
  forallb act_wf (base_trace tr) = true -> crun (cinit cfg n) tr = Some (c, ces) ->
  forall ces1 h keys ces2, ces = ces1 ++ EConfirm h keys :: ces2 ->
  exists reqs m, series_keys reqs = Some keys /\
    run_mon (amon_step true) (amon_init (length cfg)) (base_events ces1) = Some m /\
    forallb (fun kr => covered true (a_acked m) (fst kr) (snd kr)) reqs = true.
Proof. exact confirm_only_after_all_inserts. Qed.
Print Assumptions series_confirmed_only_after_all_inserts.

(* The cache holds exactly what the confirmation loops entered. *)
Theorem cache_holds_only_confirmed_series : forall tr c c' es, crun c tr = Some (c', es) ->
  fpcache c' = (fpcache c ++ concat (map snd (confirm_events es)))%list.
Proof. exact cache_grows_only_by_confirmations. Qed.
Print Assumptions cache_holds_only_confirmed_series.

(* Skipped on failure: the loop runs only when the parser finished without error, nothing was answered and every
   sub-push of the push has its result and that result is success; once per push. *)
Theorem confirmation_needs_every_sub_push_to_succeed : forall c h c' es, cstep c (CConfirm h) = Some (c', es) ->
  exists hd, nth_error (hs (base c)) h = Some hd /\ h_items hd = [] /\ h_answer hd = None /\
    (forall sp, In sp (h_subs hd) -> sp_result sp = Some true) /\ mem_nat h (confirmed c) = false /\
    mem_nat h (confirmed c') = true.
Proof. exact IngestConfirm.confirmation_needs_every_sub_push_to_succeed. Qed.
Print Assumptions confirmation_needs_every_sub_push_to_succeed.

(* ... and it comes before the status: a success answer is only given by a push that has run it. *)
Theorem success_answer_needs_confirmation : forall c h c' es reqs,
  cstep c (CBase (GAnswer h)) = Some (c', es) -> In (CE (EAnswer h reqs true)) es -> mem_nat h (confirmed c) = true.
Proof. exact IngestConfirm.success_answer_needs_confirmation. Qed.
Print Assumptions success_answer_needs_confirmation.

(* ---- ConfirmSeries as a RUN invariant, and the liveness of the wrapped system (round 4) --------------------------------

   In the state reached by ANY run of the wrapped system (every configuration, every interleaving, any requests): a push
   that answered an error has not run its confirmation loop (and, the answer being final, never will), a push that
   answered success has, and a push that has confirmed has received everything its parser sent and every one of its
   sub-pushes has succeeded. *)
Theorem confirmation_matches_the_answer : forall cfg n tr c ces, crun (cinit cfg n) tr = Some (c, ces) ->
  forall h hd, nth_error (hs (base c)) h = Some hd ->
    (h_answer hd = Some false -> mem_nat h (confirmed c) = false) /\
    (h_answer hd = Some true -> mem_nat h (confirmed c) = true) /\
    (mem_nat h (confirmed c) = true ->
       h_items hd = [] /\ (forall sp, In sp (h_subs hd) -> sp_result sp = Some true) /\ h_answer hd <> Some false).
Proof. exact IngestConfirmInv.confirmation_matches_the_answer. Qed.
Print Assumptions confirmation_matches_the_answer.

(* ... and on the event log of the whole run: no push has both a confirmation and an error answer, whichever came first. *)
Theorem error_answer_never_confirmed : forall cfg n tr c ces, crun (cinit cfg n) tr = Some (c, ces) ->
  forall h keys reqs, In (EConfirm h keys) ces -> ~ In (CE (EAnswer h reqs false)) ces.
Proof. exact IngestConfirmInv.error_answer_never_confirmed. Qed.
Print Assumptions error_answer_never_confirmed.

(* The scheduler of the wrapped system: next_act_c follows next_act and, where that would let a push answer success, first
   runs the push's confirmation loop.  In every state whose plain part satisfies the invariant of the liveness theorems
   (PI) and whose series requests do not make ConfirmSeries panic (HQ confirm_safe: MFingerprint / MType not shorter than
   MDate -- every table), for every policy of INSERT outcomes: the picked step is enabled and decreases the variant
   mu_c = mu + (pushes that have neither answered nor confirmed); a plain step it picks brings no new work and follows the
   policy; when nothing is picked everything is finished. *)
Theorem wrapped_scheduler_never_stuck : forall sig db c, PI sig (base c) -> HQ confirm_safe (base c) ->
  match next_act_c db c with
  | Some a => (forall b, a = CBase b -> internal b = true /\ act_live sig b = true /\
                                        (forall s ok, b = GSvc s (SDoReturn ok) -> ok = db (base c) s)) /\
              exists c' es, cstep c a = Some (c', es) /\ mu_c c' < mu_c c
  | None => all_done (base c) = true
  end.
Proof. exact sched_c_progress. Qed.
Print Assumptions wrapped_scheduler_never_stuck.

(* Hence, from every state the wrapped system reaches by a trace without Stop whose sub-requests are routed and make
   neither ProcessRequest nor ConfirmSeries panic, for every policy of INSERT outcomes: a schedule of at most mu_c system
   steps that follows the policy ends with every worker empty and every push answered; in the state reached a push that
   answered success has confirmed its series and a push that answered an error has not; and in the event log of the whole
   run no promise is completed twice and no push answers twice. *)
Theorem every_push_is_answered_and_confirmed_accordingly : forall cfg n tr c ces (db : gstate -> nat -> bool),
  crun (cinit cfg n) tr = Some (c, ces) ->
  forallb (act_live (sig_of_cfg cfg)) (base_trace tr) = true -> forallb (act_q confirm_safe) (base_trace tr) = true ->
  exists tr' c' ces', crun c tr' = Some (c', ces') /\ forallb cinternal tr' = true /\
    follows db (base c) (base_trace tr') = true /\ length tr' <= mu_c c /\
    all_done (base c') = true /\
    (forall h hd, nth_error (hs (base c')) h = Some hd ->
       (h_answer hd = Some true -> mem_nat h (confirmed c') = true) /\
       (h_answer hd = Some false -> mem_nat h (confirmed c') = false)) /\
    one_answer_b (base_events (ces ++ ces')) = true.
Proof. exact wrapped_system_completes. Qed.
Print Assumptions every_push_is_answered_and_confirmed_accordingly.

(* tables are safe for ConfirmSeries (so act_wf traces meet the hypothesis above) *)
Theorem tables_are_safe_to_confirm : forall k r, wf_reqb k r = true -> confirm_safe k r = true.
Proof. exact wf_confirm_safe. Qed.
Print Assumptions tables_are_safe_to_confirm.

(* ---- the parsers' READ of the announcement cache (round 4; model/PushRead.v) ------------------------------------------

   A push arrives through its parser, which leaves out the series rows it finds in the cache (maybeAddFp = !Has): RPush full
   omit, enabled iff every row of omit was confirmed (the rows left out are ANY subset of the confirmed rows: the parser
   reads while other pushes confirm, and the cache may lose entries).  A series row is named by what it is about (day,
   fingerprint, type), as the cache key is.  The system is a refinement of the wrapped one -- every theorem above holds of
   it, with the requests actually sent. *)
Theorem reading_system_refines : forall tr c c' es, rrun c tr = Some (c', es) -> crun c (map cact_of tr) = Some (c', es).
Proof. exact rrun_refines. Qed.
Print Assumptions reading_system_refines.

(* A series row a parser leaves out is stored: the confirmation loop of an earlier push entered it into the cache, and when
   that loop ran every sub-request of that push -- the series request holding the row among them -- was covered by blocks
   whose Do had returned without error. *)
Theorem omitted_series_rows_are_stored : forall cfg n tr1 full omit tr2 c ces,
  forallb act_wf (base_trace (map cact_of tr1)) = true ->
  rrun (cinit cfg n) (tr1 ++ RPush full omit :: tr2) = Some (c, ces) ->
  forall id, In id omit ->
  exists c1 ces1 cesa h keys cesb reqs m, rrun (cinit cfg n) tr1 = Some (c1, ces1) /\ ces1 = cesa ++ EConfirm h keys :: cesb /\ In id keys /\
    series_keys reqs = Some keys /\
    run_mon (amon_step true) (amon_init (length cfg)) (base_events cesa) = Some m /\
    forallb (fun kr => covered true (a_acked m) (fst kr) (snd kr)) reqs = true.
Proof. exact omitted_rows_are_stored. Qed.
Print Assumptions omitted_series_rows_are_stored.

(* THE ACKNOWLEDGEMENT WITH THE READ: for every configuration and every run in which pushes arrive through parsers that read
   the cache (full emissions and direct requests being tables), whenever a push answers success, every request its BODY
   gives rise to -- the full emission, the series rows its parser left out included -- is stored: every row of its series
   requests has all its cells in one block whose Do returned without error (this push's block, or the block of the earlier
   push whose confirmation put the row into the cache), every other request is covered by one such block.  `tr` is any run,
   `a` the step that writes the answer: every success answer of every run is one (prefixes of runs are runs). *)
Theorem full_request_is_stored : forall cfg n tr a c1 ces1 c2 es2 h reqs full omit,
  forallb ract_wf (tr ++ [a]) = true ->
  rrun (cinit cfg n) tr = Some (c1, ces1) -> rstep c1 a = Some (c2, es2) -> In (CE (EAnswer h reqs true)) es2 ->
  nth_error (arrivals tr) h = Some (full, omit) ->
  exists m, run_mon (amon_step true) (amon_init (length cfg)) (base_events ces1) = Some m /\
    forallb (stored_req (a_acked m)) (item_reqs full) = true.
Proof. exact PushReadProofs.full_request_is_stored. Qed.
Print Assumptions full_request_is_stored.

(* What "leaves out the rows it finds in the cache" is in C04's model of onEntries (model/SeriesIndex.v, reused as it is):
   the series rows a body gives rise to against a cache are those it gives rise to against the empty cache -- the `full`
   emission -- that the cache does not hold, in the same order. *)
Theorem left_out_rows_are_the_cached_ones : forall C ss,
  snd (SeriesIndex.parse C ss) = filter (fun x => negb (SeriesIndex.mem_row x C)) (snd (SeriesIndex.parse [] ss)).
Proof. exact PushReadIndex.parse_is_strip. Qed.
Print Assumptions left_out_rows_are_the_cached_ones.

(* The wrapped system under the fault adversary of model/IngestFair.v (refused connections, failed pings; budget b): from every
   reachable state (no Stop, routed, no panic in ProcessRequest / ConfirmSeries), for every INSERT policy, adversary and budget,
   the schedule run_sched_cf of at most mu_c + 2 b steps without new work -- faults taken + budget left = b -- ends with
   every worker empty and every push answered; the confirmations match the answers; one answer per push in the whole log. *)
Theorem every_push_is_answered_and_confirmed_accordingly_while_the_database_answers :
  forall cfg n tr c ces (db : gstate -> nat -> bool) adv b,
  crun (cinit cfg n) tr = Some (c, ces) ->
  forallb (act_live (sig_of_cfg cfg)) (base_trace tr) = true -> forallb (act_q confirm_safe) (base_trace tr) = true ->
  exists tr' c' ces' b', run_sched_cf db adv (mucf c b) c b = (c', b', tr', ces') /\ crun c tr' = Some (c', ces') /\
    forallb cnonew tr' = true /\ length tr' <= mucf c b /\ length (filter cis_fault tr') + b' = b /\
    all_done (base c') = true /\
    (forall h hd, nth_error (hs (base c')) h = Some hd ->
       (h_answer hd = Some true -> mem_nat h (confirmed c') = true) /\ (h_answer hd = Some false -> mem_nat h (confirmed c') = false)) /\
    one_answer_b (base_events (ces ++ ces')) = true.
Proof. exact wrapped_system_completes_with_faults. Qed.
Print Assumptions every_push_is_answered_and_confirmed_accordingly_while_the_database_answers.

(* ack_sound END TO END (props/C02.v, model/IngestBridge.v): in every interleaving whose pushes are what the parser goroutine of
   some route sends for some stream of decoder events (the regenerated append programs of onSpan / onEntries / onProfile at cell
   level; the decoders keeping onEntries' equal-length contract) -- no hypothesis on the requests -- a promise is completed with
   success, and a push answers success, only when every cell of the request(s) is in a block whose Do returned without error. *)
Theorem parsed_pushes_are_acknowledged_soundly : forall cfg n tr g es,
  Forall (act_parsed on_span_cols_model spans_fields_model attrs_fields_model on_entries_cols_model spl_fields_model tsd_fields_model) tr ->
  grun (ginit cfg n) tr = Some (g, es) ->
  run_mon (amon_step true) (amon_init (length cfg)) es <> None.
Proof. exact (parsed_pushes_ack _ _ _ _ _ _ bridge_model_ok). Qed.
Print Assumptions parsed_pushes_are_acknowledged_soundly.

(* The promise at the grain of its synchronisation operations (round 5, after the seeded change C01-e).  The theorems above take
   the completion of a promise as ONE step.  In writer/utils/promise/promise.go Done is a CompareAndSwap on `pending`, the store of
   res, the store of err and close(lock); Get is a receive on lock and two reads; GetCtx a select between ctx.Done() and lock.
   model/PromiseHB.v: programs of such micro-operations (regenerated from promise.go on every run and compared with done_model /
   get_model / getctx_model), a small-step semantics of any number of threads on one promise, and the syntactic happens-before
   check hb_ok (Done = the winning CAS, then stores of plain fields, then the close; a getter reads fields only after a receive on
   the channel -- an atomic load of `pending` orders nothing, the stores come AFTER the CAS).  For EVERY Done program and EVERY
   list of getter programs passing hb_ok, every number nd of concurrent Done calls and every interleaving (threads that cannot
   move are skipped; `alt` lets a context be cancelled at any time): there is ONE value w -- the arguments of one Done call --
   such that every getter that returned field values returned w in every position, after the close, with pending = 0.  No getter
   sees the zero values (0, nil) = "success, 0 rows", no getter sees a mixture of two Done calls, no two getters disagree. *)
Theorem promise_completion_is_atomic : forall done getters nd sched s' ts',
  PromiseHB.hb_ok done getters = true ->
  PromiseHB.sys_run PromiseHB.pinit (repeat (PromiseHB.writer done) nd ++ map PromiseHB.reader getters) sched = (s', ts') ->
  exists w, forall t o, In t ts' -> PromiseHB.t_out t = Some o ->
    o = [] \/ (PromiseHB.closed s' = true /\ w <> O /\ PromiseHB.pend s' = 0%Z /\ Forall (eq w) o).
Proof. exact PromiseHBProofs.promise_completion_is_atomic. Qed.
Print Assumptions promise_completion_is_atomic.

(* The programs of the unchanged promise.go pass the check (so the theorem is about them); the fast path of seeded C01-e
   (`if atomic.LoadInt32(&p.pending) == 0 { return p.res, p.err }` in front of the receive) does not. *)
Theorem unchanged_promise_passes_and_the_fast_path_does_not :
  PromiseHB.hb_ok PromiseHB.done_model [PromiseHB.get_model; PromiseHB.getctx_model] = true
  /\ PromiseHB.hb_ok PromiseHB.done_model [PromiseHB.get_fast; PromiseHB.getctx_model] = false
  /\ PromiseHB.hb_ok PromiseHB.done_model [PromiseHB.get_model; PromiseHB.getctx_fast] = false.
Proof.
  exact (conj PromiseHBProofs.unchanged_promise_passes
              (conj (proj1 PromiseHBProofs.fast_path_is_rejected) (proj1 (proj2 PromiseHBProofs.fast_path_is_rejected)))).
Qed.
Print Assumptions unchanged_promise_passes_and_the_fast_path_does_not.

(* ... and the check is right to reject it: one Done call and one Get with the fast path; after Done's CAS the Get returns the zero
   values (0, nil) while the channel is still open -- success for the INSERT whose failure Done is about to store. *)
Theorem fast_path_refuted : exists sched s' ts',
  PromiseHB.sys_run PromiseHB.pinit (repeat (PromiseHB.writer PromiseHB.done_model) 1 ++ map PromiseHB.reader [PromiseHB.get_fast]) sched = (s', ts') /\
  PromiseHB.pend s' = 0%Z /\ PromiseHB.closed s' = false /\ PromiseHB.outs ts' = [[0; 0]]%nat.
Proof. exact PromiseHBProofs.fast_path_refuted. Qed.
Print Assumptions fast_path_refuted.

(* Round 6 (seeded C02-f).  ack_sound depends on swapBuffers being ONE critical section: over the variant of the model in which the waiting
   promises are taken in a first hold of the mutex and the columns are swapped in a second one (model/IngestSwap2.v), the statement is false --
   a request served between the two halves is acknowledged with the outcome of the NEXT block while its row travelled in the one being
   taken.  The variant's runs without such a window are runs of the unchanged model (props/C02.v windowless_two_step_runs_are_sound); that the
   source has the one region is model_steps_are_the_critical_sections + the regenerated regions of every run, and the harness operation
   mreq puts a request into the window of the real service. *)
Theorem ack_sound_two_step_swap_refuted :
  ~ (forall cfg n tr x es,
       forallb act2_wf tr = true ->
       grun2 (ginit2 cfg n) tr = Some (x, es) ->
       run_mon (amon_step true) (amon_init (length cfg)) es <> None).
Proof. exact IngestSwap2Proofs.ack_sound_two_step_swap_refuted. Qed.
Print Assumptions ack_sound_two_step_swap_refuted.

(* The source shape of that variant -- the regions translate/gen_c01_regions regenerates from a swapBuffers that takes the waiters in a
   region of its own, acquires the next columns outside any region and swaps them in a second region -- fails the structural obligation of
   every run for three independent reasons: no single region writes all the shared fields the step SSwap changes, the first region is the
   region of no step of the model, and the region that re-initialises results / size is not the one that hands out the portion. *)
Theorem split_swap_regions_are_rejected :
  regions_ok regions_c02f outside_c02f = false /\
  step_ok regions_c02f KSwap = false /\
  existsb (fun r => Nat.eqb (region_owner_count r) 0) regions_c02f = true /\
  swap_fresh regions_c02f = false /\
  List.length regions_c02f = 6%nat.
Proof. exact IngestRegionsProofs.split_swap_regions_are_rejected. Qed.
Print Assumptions split_swap_regions_are_rejected.

(* Round 8 (seeded C01-h: the time_series closure skipped rows another request of the same batch had already queued; such a request was
   answered success at once by the `inserted == 0` branch although the INSERT of the batch holding "its" row could still fail).
   Whether Request ties a promise to the open batch depends on the request alone: a running worker, a request that carries a row -- whatever
   the open batch, the portion in flight and the flush state are, Request completes nothing, the promise waits in `results`, every column is
   appended.  In particular two pushes carrying the same series row both wait for the batch (which holds the row twice). *)
Theorem request_with_rows_joins_the_batch : forall s p r sz r',
  running s = true ->
  eff (kd s) r = Some r' ->
  nth (keycol (kd s)) r' [] <> [] ->
  exists s', sstep s (SRequest p r sz) = Some (s', []) /\
             results s' = results s ++ [(p, r)] /\
             cols s' = zip_app (cols s) r' /\
             inflight s' = inflight s.
Proof. exact IngestBatchIndep.request_with_rows_joins_the_batch. Qed.
Print Assumptions request_with_rows_joins_the_batch.

(* The seeded variant as a step function (`sstep_skip`: a series request all of whose rows are queued in the open batch appends nothing and
   is completed with success) does not have that property; witness: row 1 requested twice, the second promise completed before any block
   was sent (Example IngestBatchIndep.skipping_variant_answers_before_any_insert).  On the real services: HTTP class `repeat inflightfail`. *)
Theorem skipping_queued_rows_is_not_the_model :
  ~ (forall s p r sz r',
       running s = true -> eff (kd s) r = Some r' -> nth (keycol (kd s)) r' [] <> [] ->
       exists s', IngestBatchIndep.sstep_skip s (SRequest p r sz) = Some (s', []) /\ results s' = results s ++ [(p, r)]).
Proof. exact IngestBatchIndep.skipping_queued_rows_is_not_the_model. Qed.
Print Assumptions skipping_queued_rows_is_not_the_model.

(* Round 8x: the same for the WHOLE system and for every history (proofs/IngestBatchIndepSys.v).  The table of queued series rows of the seeded
   change C01-h is shared by all workers of the service: a request is then answered by what sits in ANOTHER worker's batch.  In the model, in
   every system state (any number of workers and round robins, whatever their batches, portions in flight, the promise store and the handlers
   hold), a request with rows served by worker s completes no promise (the only event is the call, `imm = None`; the store is unchanged), what
   worker s does with it is `sstep` of s's OWN state and the request, and no other worker is touched.
   Example IngestBatchIndepSys.waits_hypotheses_met (row 1 queued in worker 0, requested again on worker 1 of the same round robin). *)
Theorem a_request_with_rows_waits_whatever_is_queued_elsewhere : forall g s sv n r sz r',
  nth_error (svcs g) s = Some sv ->
  running sv = true ->
  rr_pick_ok g s = true ->
  eff (kd sv) r = Some r' ->
  nth (keycol (kd sv)) r' [] <> [] ->
  exists sv' g',
    gstep g (GEnvReq s (kd sv) n r sz) = Some (g', [EReq s (PEnv n) (kd sv) r sz None]) /\
    sstep sv (SRequest (PEnv n) r sz) = Some (sv', []) /\
    nth_error (svcs g') s = Some sv' /\
    results sv' = results sv ++ [(PEnv n, r)] /\ cols sv' = zip_app (cols sv) r' /\ inflight sv' = inflight sv /\
    (forall t, t <> s -> nth_error (svcs g') t = nth_error (svcs g) t) /\
    store g' = store g /\ hs g' = hs g.
Proof. exact IngestBatchIndepSys.a_request_with_rows_waits_whatever_is_queued_elsewhere. Qed.
Print Assumptions a_request_with_rows_waits_whatever_is_queued_elsewhere.

(* ... and for an attempt of a sub-push of an HTTP handler (doPush calling Request on the worker the round robin picked): the attempt is
   registered, the goroutine is blocked in Get() on a promise that nothing has completed.  Example IngestBatchIndepSys.attempt_hypotheses_met. *)
Theorem an_attempt_with_rows_waits_whatever_is_queued_elsewhere : forall g h i s hd sp sv r',
  nth_error (hs g) h = Some hd -> nth_error (h_subs hd) i = Some sp ->
  sp_result sp = None -> sp_cur sp = None -> N.ltb (sp_used sp) (attempts g) = true -> may_take g s sp = true ->
  nth_error (svcs g) s = Some sv -> running sv = true ->
  eff (kd sv) (sp_req sp) = Some r' -> nth (keycol (kd sv)) r' [] <> [] ->
  exists sv' g',
    gstep g (GSubReq h i s) = Some (g', [EReq s (PSub h i (sp_used sp)) (kd sv) (sp_req sp) (sp_sz sp) None]) /\
    sstep sv (SRequest (PSub h i (sp_used sp)) (sp_req sp) (sp_sz sp)) = Some (sv', []) /\
    svcs g' = upd s sv' (svcs g) /\
    results sv' = results sv ++ [(PSub h i (sp_used sp), sp_req sp)] /\ cols sv' = zip_app (cols sv) r' /\
    store g' = store g /\
    (exists hd' sp', nth_error (hs g') h = Some hd' /\ nth_error (h_subs hd') i = Some sp' /\
                     sp_cur sp' = Some (sp_used sp) /\ sp_result sp' = None /\
                     lookup_store (PSub h i (sp_used sp)) (store g') = lookup_store (PSub h i (sp_used sp)) (store g)).
Proof. exact IngestBatchIndepSys.an_attempt_with_rows_waits_whatever_is_queued_elsewhere. Qed.
Print Assumptions an_attempt_with_rows_waits_whatever_is_queued_elsewhere.

(* Every history from EVERY state (reachable or not; any actions: requests, flushes, dials, Do outcomes, Stop, pings, pushes, retries): if the
   log says that `Request` itself completed a promise with success, the request carried no row (its key column after ProcessRequest is empty).
   A request with a row is acknowledged only through the release of a block.  Example request_acknowledges_an_empty_request (the premise occurs). *)
Theorem request_never_acknowledges_rows_by_itself : forall tr g g' es s p k r sz r',
  grun g tr = Some (g', es) ->
  In (EReq s p k r sz (Some true)) es ->
  eff k r = Some r' ->
  nth (keycol k) r' [] = [].
Proof. exact IngestBatchIndepSys.request_never_acknowledges_rows_by_itself. Qed.
Print Assumptions request_never_acknowledges_rows_by_itself.

(* The variant with ONE table of queued rows for all workers of a service (`gstep_shared_skip`: a series request all of whose rows are queued in
   some worker of the round robin is completed with success by Request) violates ack_sound: two workers, row 1 queued in worker 0, requested
   again on worker 1 and acknowledged at once, worker 0's INSERT refused (Example shared_skip_answers_for_another_workers_batch, which also runs
   the unchanged system on the same actions).  On the real services: harness `ingest --samerows`, the scripts of class samerows+parallel. *)
Theorem ack_sound_shared_queue_table_refuted :
  ~ (forall cfg n tr g es,
       forallb act_wf tr = true ->
       IngestBatchIndepSys.grun_shared_skip (ginit cfg n) tr = Some (g, es) ->
       run_mon (amon_step true) (amon_init (length cfg)) es <> None).
Proof. exact IngestBatchIndepSys.ack_sound_shared_queue_table_refuted. Qed.
Print Assumptions ack_sound_shared_queue_table_refuted.
