(* C12 -- no query can crash, hang or leak work on the read side.
   Models: model/ReaderGoroutines.v (+ gen/GenGoroutinesReader.v, regenerated from reader/ on every run),
   model/Pipeline.v (generic channel LTS), model/ReadPath.v (the concrete stages, controller prelude,
   unrecovered arithmetic). Proofs: proofs/PipelineProofs.v, proofs/ReadPathProofs.v. *)
From Coq Require Import List ZArith Bool.
From Qryn Require Import model.ReaderGoroutines model.ReaderFlow proofs.ReaderFlowProofs gen.GenGoroutinesReader model.Pipeline model.ReadPath model.ReadFwd
  model.ReadProm model.ReadConv proofs.PipelineProofs proofs.ReadPathProofs proofs.ReadFwdProofs proofs.ReadPromProofs proofs.ReadConvProofs.
From Qryn Require model.TailSession proofs.TailSessionProofs.   (* qualified: its step / star / init are not the pipeline's *)
From Qryn Require model.ProfTree model.ProfDiff model.ReadProf proofs.ReadProfProofs.   (* qualified: ProfTree.row is not ReadPath.row *)
From Qryn Require model.ReadPool proofs.ReadPoolProofs.   (* qualified: short constructor names *)
Import ListNotations.
Open Scope Z_scope.

(* Every `go` statement under reader/ either starts its body with an EFFECTIVE recover (recover() called by the
   deferred function itself) or is on the allow-list with exactly the fault-capable operations recorded there;
   no allow-listed site has disappeared (the drainers); the pipeline stages and OutputQuery do recover. *)
Theorem reader_unrecovered_goroutines_accounted : inventory_ok reader_goroutines = true.
Proof. vm_compute. reflexivity. Qed.
Print Assumptions reader_unrecovered_goroutines_accounted.

(* Contract K at the HTTP end: over the regenerated inventory of reader/controller, every `for x := range ch` /
   for-select receive loop of a handler either cannot leave before its channel is closed (no return / break in its
   body -- in particular not on a failed w.Write when the client has gone away) or is allow-listed with what
   covers it (not a channel; a deferred drainer; an encoding error that cannot occur). *)
Theorem handler_loops_receive_until_close : loops_ok reader_loops = true.
Proof. vm_compute. reflexivity. Qed.
Print Assumptions handler_loops_receive_until_close.

(* Over the regenerated inventory of reader/: every Lock()/RLock() statement is given back on every way out of its
   region (deferred Unlock, or an explicit Unlock with every return in between unlocking first) -- a lock kept on an
   error path (e.g. GetVersionInfo when SHOW TABLES fails) would block every later request forever.
   AND, over the generated control-flow model of every function body / function literal that takes a mutex (one model per
   mutex; every Lock statement of the inventory occurs in one): on EVERY path through the body -- any branch, any number of
   loop iterations, break / continue, return, falling off the end, and (unless the region is on the reviewed list, none of
   whose entries is stale) a panic of any statement that can panic -- the mutex is free once the deferred calls have run,
   it is never locked twice and never unlocked while free. *)
Theorem locks_released_on_every_path :
  locks_ok reader_locks = true /\
  total_acq reader_lock_flows = List.length reader_locks /\ stale_reviews reader_lock_flows = [] /\
  forall f, In f reader_lock_flows -> forall o st',
    exec (f_body f) (h0_of (f_kind f), 0%nat) o st' -> safe_exit (strict_of f) o st'.
Proof.
  split; [vm_compute; reflexivity|]. split; [vm_compute; reflexivity|]. split; [vm_compute; reflexivity|].
  apply flows_ok_sound. vm_compute. reflexivity.
Qed.
Print Assumptions locks_released_on_every_path.

(* Over the generated control-flow model of every goroutine body that sends on a channel (one model per channel): on EVERY
   path through the body the channel is closed exactly once when the goroutine ends -- also when it ends by a panic, if the
   body recovers (WrapProcess, MatrixStepPlanner, OutputQuery) -- so the receiver's `for x := range ch` always ends
   ("return = close own channel" is what the LTS of model/Pipeline.v assumes of every cell). *)
Theorem sending_goroutines_close_on_every_path :
  forall f, In f reader_close_flows -> forall o st',
    exec (f_body f) (h0_of (f_kind f), 0%nat) o st' -> safe_exit (strict_of f) o st'.
Proof. apply flows_ok_sound. vm_compute. reflexivity. Qed.
Print Assumptions sending_goroutines_close_on_every_path.

(* Over the regenerated inventory of the channel operations of every goroutine body under reader/: the blocking sends,
   blocking receives, selects, range loops and close calls are the reviewed ones (compared with the cell that models the
   body), no select can block without a Done case or a default, and a body that sends has a close. *)
Theorem channel_ops_accounted : chanops_ok reader_chanops = true.
Proof. vm_compute. reflexivity. Qed.
Print Assumptions channel_ops_accounted.

(* ... and that is needed: a handler loop that returns at the first failed write breaks the contract. *)
Theorem handler_must_not_stop_at_a_failed_write : ~ good_node (handler_node (S:=st) (M:=msg) false).
Proof. exact handler_must_keep_receiving. Qed.
Print Assumptions handler_must_not_stop_at_a_failed_write.

(* Each allow-listed body that has a model has its lemma: Scan (contract, no fault, index inside the buffer),
   FixPeriodPlanner (contract; no fault under fix_guard), the encoders (contract, no fault), the row forwarders of the
   label / series / Tempo tag and search endpoints and the channel forwarders (contract, no fault), the TraceQL row
   goroutine (contract; no fault on rows whose array columns are consistent). *)
Theorem allowlisted_bodies_covered : forall a, In a allow_list -> class_obligation_all (a_class a).
Proof. exact allowlisted_bodies_have_their_lemmas. Qed.
Print Assumptions allowlisted_bodies_covered.

(* Generic: for every state and message type, every chain length, every row script and every behaviour of the
   nodes that (K) never stop receiving without leaving a drainer and (nofault) cannot fault -- the last node being
   the HTTP handler loop, the client going away (context cancelled, writes failing) at ANY moment being a step of
   the environment -- EVERY interleaving is finite, never crashes, and whenever no goroutine can move, every
   goroutine has returned: all channels closed (each once: a returned cell makes no further step), the cursor
   released, no send left blocked. *)
Theorem pipeline_terminates : forall (S M : Type) (rows : list M) (stages : list (cell S M)),
  Forall (fun c => good_node (c_node c)) stages ->
  Forall (fun c => nofault_node (c_node c)) stages ->
  Forall fresh_stage stages ->
  let c0 := init_config rows stages in
  Acc (fun c' c : config S M => step c c') c0 /\
  forall c, star c0 c -> crashed c = false /\ (quiescent c -> all_done (cells c)).
Proof. exact chain_terminates. Qed.
Print Assumptions pipeline_terminates.

(* The same without fault-freedom: no goroutine is ever left behind; the only other way to stop is the crash. *)
Theorem pipeline_never_leaks : forall (S M : Type) (rows : list M) (stages : list (cell S M)),
  Forall (fun c => good_node (c_node c)) stages ->
  Forall fresh_stage stages ->
  let c0 := init_config rows stages in
  Acc (fun c' c : config S M => step c c') c0 /\
  forall c, star c0 c -> quiescent c -> crashed c = true \/ all_done (cells c).
Proof. exact chain_no_leak. Qed.
Print Assumptions pipeline_never_leaks.

(* A returned goroutine stays returned (its channel is closed exactly once). *)
Theorem closed_once : forall (S M : Type) canc (l : list (cell S M)) canc' k l',
  lstep canc l canc' k l' ->
  forall i c, nth_error l i = Some c -> closed_st (c_st c) = true -> nth_error l' i = Some c.
Proof. exact done_stable. Qed.
Print Assumptions closed_once.

(* Scan/ScanMatrix, then ANY number of WrapProcess stages with ANY OnEntry/OnAfterEntriesSlice/OnAfterEntries
   callbacks (returning ok, an error or panicking at any point; cancelling the context at any point), then an
   encoder: for every row script (rows, conversion errors, early end) every schedule ends with all goroutines
   returned and the cursor closed -- or in a crash, which needs a callback that exhausts the memory. *)
Theorem wrapprocess_chains_never_leak : forall (opsl : list ops) (k : enck) (rows : list row),
  let c0 := init_config (map MRow rows) (wrap_chain opsl k) in
  Acc (fun c' c : config st msg => step c c') c0 /\
  forall c, star c0 c -> quiescent c -> crashed c = true \/ all_done (cells c).
Proof. exact wrap_chain_no_leak. Qed.
Print Assumptions wrapprocess_chains_never_leak.

Theorem wrapprocess_chains_terminate : forall (opsl : list ops) (k : enck) (rows : list row),
  Forall ops_nofatal opsl ->
  let c0 := init_config (map MRow rows) (wrap_chain opsl k) in
  Acc (fun c' c : config st msg => step c c') c0 /\
  forall c, star c0 c -> crashed c = false /\ (quiescent c -> all_done (cells c)).
Proof. exact wrap_chain_terminates. Qed.
Print Assumptions wrapprocess_chains_terminate.

(* The four pipeline shapes of /loki/api/v1/query_range and /query (log, log | json, CH matrix, | json matrix)
   never leak, whatever the parameters and rows; *)
Theorem read_pipelines_never_leak : forall (sh : shape) (c : pctx) (rows : list row),
  let c0 := init_config (map MRow rows) (stages_of sh c) in
  Acc (fun c' c1 : config st msg => step c1 c') c0 /\
  forall cf, star c0 cf -> quiescent cf -> crashed cf = true \/ all_done (cells cf).
Proof. exact read_chain_no_leak. Qed.
Print Assumptions read_pipelines_never_leak.

(* and under shape_guard (positive step and range, start <= end, bounded number of points) never crash. *)
Theorem read_pipelines_terminate : forall (sh : shape) (c : pctx) (rows : list row),
  shape_guard sh c = true ->
  let c0 := init_config (map MRow rows) (stages_of sh c) in
  Acc (fun c' c1 : config st msg => step c1 c') c0 /\
  forall cf, star c0 cf -> crashed cf = false /\ (quiescent cf -> all_done (cells cf)).
Proof. exact read_chain_terminates. Qed.
Print Assumptions read_pipelines_terminate.

(* GET /api/traces/{id}: OutputQuery over any stored rows (decode errors, panicking payloads, unknown types). *)
Theorem trace_pipeline_terminates : forall rows : list spank,
  let c0 := init_config (map MSpanRow rows) trace_stages in
  Acc (fun c' c1 : config st msg => step c1 c') c0 /\
  forall cf, star c0 cf -> crashed cf = false /\ (quiescent cf -> all_done (cells cf)).
Proof. exact trace_chain_terminates. Qed.
Print Assumptions trace_pipeline_terminates.

(* One tick of the live tail (/loki/api/v1/tail): Scan, any in-process stages, the tail encoder, and the websocket loop
   that returns at the first failed write or context cancellation, leaving its deferred drainer behind. *)
Theorem tail_tick_pipeline_terminates : forall (opsl : list ops) (rows : list row), Forall ops_nofatal opsl ->
  let c0 := init_config (map MRow rows) (tail_tick opsl) in
  Acc (fun c' c1 : config st msg => step c1 c') c0 /\
  forall cf, star c0 cf -> crashed cf = false /\ (quiescent cf -> all_done (cells cf)).
Proof. exact tail_tick_terminates. Qed.
Print Assumptions tail_tick_pipeline_terminates.

(* Scan's entries[i] stays inside its 100-slot buffer for every row script. *)
Theorem scan_index_in_buffer : forall rows, 0 <= scan_index rows 0 < 100.
Proof. intros rows. apply scan_index_bound. split; [apply Z.le_refl|reflexivity]. Qed.
Print Assumptions scan_index_in_buffer.

(* The arithmetic of the FixPeriodPlanner goroutine (no recover) is safe under fix_guard: no division by zero,
   no negative or oversized make, no slice out of bounds, no fastFill on an empty slice -- for all entries. *)
Theorem no_fault_in_unrecovered_code_partial : forall c : fpctx, fix_guard c = true -> nofault_node (fixperiod_node c).
Proof. exact fix_nofault. Qed.
Print Assumptions no_fault_in_unrecovered_code_partial.

(* What the controllers and the planner accept satisfies the whole guard: positive step and range, start <= end, at most
   11,000 points per series and 100,000 range windows (the caps of fix 5180be1; before it the number of points was
   unbounded and `start=0&step=1` ended in an allocation failure of the unrecovered goroutine). *)
Theorem accepted_requests_have_safe_context : forall q sh c, prelude_of q = PRun sh c -> shape_guard sh c = true.
Proof. exact accepted_guard. Qed.
Print Assumptions accepted_requests_have_safe_context.

(* Hence, for EVERY request that gets past the controller and the planner and EVERY result set: every interleaving of
   its pipeline (client leaving at any moment) is finite, never crashes -- the goroutine without recover included --
   and can only end with every goroutine returned. *)
Theorem no_fault_in_unrecovered_code : forall q sh c rows, prelude_of q = PRun sh c ->
  let c0 := init_config (map MRow rows) (stages_of sh c) in
  Acc (fun c' c1 : config st msg => step c1 c') c0 /\
  forall cf, star c0 cf -> crashed cf = false /\ (quiescent cf -> all_done (cells cf)).
Proof. exact accepted_chain_terminates. Qed.
Print Assumptions no_fault_in_unrecovered_code.

(* the former witness of the refutation (start=0, end=1.7e9 s, step=1 s on rate({..}[1m])) is refused now *)
Definition huge_range_request : request :=
  mkReq false true (Some ShRate) 60 (PNum 0) (PNum 1700000000) (PNum 1000) PAbsent
        [mkRow 1 1699999000000000000 2 ROk] (-1) false false.
Theorem unbounded_window_is_refused : model_outcome huge_range_request = O5xx.
Proof. vm_compute. reflexivity. Qed.
Print Assumptions unbounded_window_is_refused.

(* ------------------------------------------------------------------ the remaining streaming endpoints (model/ReadFwd.v) *)

(* The generic theorem relative to a predicate on messages: when what the database delivers is acceptable and every
   body is fault-free on acceptable messages and emits only acceptable ones, every interleaving (the client leaving at
   any moment included) is finite, never crashes and can only end with every goroutine returned. *)
Theorem pipeline_terminates_on_acceptable_rows : forall (S M : Type) (okm : M -> bool) (rows : list M) (stages : list (cell S M)),
  forallb okm rows = true ->
  Forall (fun c => good_node (c_node c)) stages ->
  Forall (fun c => nofault_node_on okm (c_node c)) stages ->
  Forall fresh_stage stages -> Forall (pend_ok okm) stages ->
  let c0 := init_config rows stages in
  Acc (fun c' c : config S M => step c c') c0 /\
  forall c, star c0 c -> crashed c = false /\ (quiescent c -> all_done (cells c)).
Proof. exact chain_terminates_on. Qed.
Print Assumptions pipeline_terminates_on_acceptable_rows.

(* Loki / Prometheus labels, label values, series; Tempo tags, tag values, search by tags; the batch forwarders of
   /api/v2/search/tags|tag/../values and of TraceQL search; the TraceQL row goroutine with its two consumers -- whatever
   arrives on the first channel (any rows, conversion errors, arrays of any lengths, early end) and wherever the client
   goes away: every interleaving is finite, never crashes and can only end with every goroutine returned. *)
Theorem forwarding_pipelines_terminate : forall (c : fchain) (rows : list fmsg),
  let c0 := init_config rows (fstages c) in
  Acc (fun c' c1 : config Z fmsg => step c1 c') c0 /\
  forall cf, star c0 cf -> crashed cf = false /\ (quiescent cf -> all_done (cells cf)).
Proof. exact fwd_chain_terminates. Qed.
Print Assumptions forwarding_pipelines_terminate.

(* With or without the comparison of the three array lengths in TraceQLRequestProcessor (k): no goroutine is left behind. *)
Theorem forwarding_pipelines_never_leak : forall (k : bool) (c : fchain) (rows : list fmsg),
  let c0 := init_config rows (fstages_gen k c) in
  Acc (fun c' c1 : config Z fmsg => step c1 c') c0 /\
  forall cf, star c0 cf -> quiescent cf -> crashed cf = true \/ all_done (cells cf).
Proof. exact fwd_chain_no_leak. Qed.
Print Assumptions forwarding_pipelines_never_leak.

(* That comparison (fix 51fb0f7) is needed: TraceQLRequestProcessor runs without recover and indexes durations and
   timestamps by the positions of span_ids; without it the body faults on a ragged row, the witness chain crashes
   (observed on the real code: corpus traceql-ragged-arrays), and the chains terminated only on rows whose arrays are
   long enough (instance of pipeline_terminates_on_acceptable_rows). *)
Theorem traceql_length_check_needed :
  ~ nofault_node (tq_node_gen false) /\
  fst (run run_fuel false (cells (init_config (map FRow ragged_rows) (fstages_gen false ChTraceQL)))) = RCrash /\
  fwd_outcome ragged_request = (O2xx, 2) /\
  forall (c : fchain) (rows : list fmsg), forallb fmsg_ok rows = true ->
    let c0 := init_config rows (fstages_gen false c) in
    forall cf, star c0 cf -> crashed cf = false /\ (quiescent cf -> all_done (cells cf)).
Proof.
  split; [exact tq_faults_on_ragged_rows|]. split; [exact traceql_ragged_row_crashed_before|].
  split; [exact traceql_ragged_row_answered|]. intros c rows H. exact (proj2 (fwd_chain_terminates_on false c rows H)).
Qed.
Print Assumptions traceql_length_check_needed.

(* Bounded work: a request of these endpoints issues at most 2 SQL statements (version bootstrap not counted), except a
   TraceQL search whose complexity estimate cx reaches the threshold: 1 + ceil(cx / 10^7), the portion loop of
   ComplexRequestProcessor running portions - i down to 0 (it is the structurally decreasing argument of portion_loop). *)
Theorem read_statements_bounded : forall q : frequest, 0 <= snd (fwd_outcome q) <= stmt_bound q.
Proof. exact fwd_statements_bounded. Qed.
Print Assumptions read_statements_bounded.

(* Prometheus /api/v1/query and /api/v1/query_range (fix 234ea6b). checkSubquerySteps adds the query window and the ranges
   of nested subqueries in int64 nanoseconds, where a sum can wrap around; still, for EVERY expression tree the parser can
   produce (ranges in (0, 2^63), steps in [0, 2^63)) and every window, a query that passes the check makes the engine create
   only subquery evaluators of at most 11,000 steps (exact arithmetic): the sum at every enclosing subquery was checked
   too, so a wrapped sum shows up as a negative one. *)
Theorem subquery_check_sound_under_wraparound : forall (e : pexpr) (window : Z),
  - two63 <= window < two63 -> pwf e = true -> sq_ok window e = true ->
  forallb eval_bounded (evals window e) = true.
Proof. exact sq_ok_sound. Qed.
Print Assumptions subquery_check_sound_under_wraparound.

(* For every request the two Prometheus controllers hand to the PromQL engine: positive step, at most 11,000 steps of the
   query itself and of every subquery evaluator -- the engine reserves one point per step and series before it counts a
   sample (the recorded request up[30d:1ms] reserved 2.6e9 points: out of memory, process exit). *)
Theorem prom_accepted_requests_bounded : forall r : prequest, prwf r = true -> engine_bounded (prom_outcome r).
Proof. exact prom_accepted_bounded. Qed.
Print Assumptions prom_accepted_requests_bounded.

(* The live-tail session (GET /loki/api/v1/tail over a websocket; model/TailSession.v: the tail goroutine with its ticker,
   the handler's select loop, the drainer it leaves behind, the client going away at any moment, database errors at any
   tick). With or without the repair 5d78c0a, under EVERY schedule: whenever the tail goroutine is blocked in its send on
   the unbuffered result channel, a receiver is there -- it never blocks forever. *)
Theorem tail_never_blocks_on_send : forall (fixed : bool) (s : TailSession.state),
  TailSessionProofs.star (TailSession.step fixed) TailSession.init s -> TailSession.send_stuck s = false.
Proof. exact TailSessionProofs.never_blocked_on_send. Qed.
Print Assumptions tail_never_blocks_on_send.

(* Once the client has gone away, or the tail goroutine has ended after a database error: every schedule is finite (time
   passes only when no channel operation is ready) and can only stop with the tail goroutine, the handler and the
   drainer all returned. *)
Theorem tail_session_winds_down : forall s : TailSession.state,
  TailSessionProofs.star (TailSession.step true) TailSession.init s -> TailSession.winding s = true ->
  Acc (fun s' s0 => TailSession.ustep true s0 s') s /\
  forall s', TailSessionProofs.star (TailSession.ustep true) s s' -> TailSession.usuccs true s' = [] -> TailSession.all_done s' = true.
Proof. exact TailSessionProofs.winds_down. Qed.
Print Assumptions tail_session_winds_down.

(* No busy loop since 5d78c0a: while no ticker fires and the client does nothing, only finitely many steps happen in any
   reachable state. Before the repair this was false: after a database error the handler received from the closed
   channel and wrote an empty message, again and again (replayed: 2999 empty websocket messages in 14 ms). *)
Theorem tail_has_no_busy_loop :
  (forall s : TailSession.state, TailSessionProofs.star (TailSession.step true) TailSession.init s ->
     Acc (fun s' s0 => TailSession.istep true s0 s') s) /\
  (TailSessionProofs.star (TailSession.step false) TailSession.init TailSessionProofs.spinning /\ TailSession.istep false TailSessionProofs.spinning TailSessionProofs.spinning /\
   ~ TailSession.istep true TailSessionProofs.spinning TailSessionProofs.spinning).
Proof. split; [exact TailSessionProofs.no_busy_loop | exact TailSessionProofs.busy_loop_before_fix]. Qed.
Print Assumptions tail_has_no_busy_loop.

(* int64 wrap-around in the window arithmetic (fix 7e7939d): for every matrix request the planner accepts, end - start
   fits int64 nanoseconds, so FixPeriodPlanner's _to - _from (which wraps) is the true length -- start = -5e18, end = 5e18,
   step = 1e6 s had 10,000 points by the saturating check and a negative length in the allocation: makeslice panic in a
   goroutine nothing recovers, process exit (replayed; corpus matrix-window-wraps-int64). *)
Theorem accepted_matrix_window_fits_int64 : forall sh0 q from_s to_s ms lim sh c, 0 < q_dur_s q ->
  plan sh0 q from_s to_s ms lim = PRun sh c -> is_matrix sh = true ->
  f_to (p_fix c) - f_from (p_fix c) < int64_limit.
Proof. exact plan_window_fits. Qed.
Print Assumptions accepted_matrix_window_fits_int64.

(* ---------------------------------------------------------------------------------------------------------------------
   Session 4: the Pyroscope read handlers (model/ReadProf.v; were test-only) and the loops of the flame-graph code. *)

(* For EVERY request (body that decodes or not, selector that parses / plans or not, type id, window, step) and EVERY
   result set the statement's column types allow (NULL cells, a stored type id with fewer than three parts, payloads that
   do not decode, tree rows with cycles, self loops, shared ids, negative values; the connection lost after any row, the
   statement failing) the eleven handlers end in a 2xx, 4xx or 5xx response -- since fix 5950165 (deferred tamePanic). *)
Theorem pyroscope_requests_are_answered : forall q : ReadProf.pfreq,
  ReadProf.pf_orderly (fst (ReadProf.prof_outcome q)) = true.
Proof. exact ReadProfProofs.prof_answered. Qed.
Print Assumptions pyroscope_requests_are_answered.

(* The recover is needed: the same model without it (the code before 5950165) leaves the client of ProfileTypes without a
   response when a stored type id has fewer than three parts (replayed on the real code: index out of range [1] with
   length 1, connection closed; corpus prof-short-type-id). *)
Theorem pyroscope_recover_needed :
  fst (ReadProf.prof_outcome_gen false ReadProfProofs.short_type_request) = ReadProf.PfAbort /\
  fst (ReadProf.prof_outcome ReadProfProofs.short_type_request) = ReadProf.Pf5xx.
Proof. exact ReadProfProofs.prof_recover_needed. Qed.
Print Assumptions pyroscope_recover_needed.

(* A Pyroscope request issues at most one SQL statement, render-diff at most two. *)
Theorem pyroscope_statements_bounded : forall q : ReadProf.pfreq,
  0 <= snd (ReadProf.prof_outcome q) <= (match ReadProf.pf_ep q with ReadProf.EpRenderDiff => 2 | _ => 1 end).
Proof. exact ReadProfProofs.prof_statements_bounded. Qed.
Print Assumptions pyroscope_statements_bounded.

(* int64(req.Step) of SelectSeries is implementation-defined for NaN, the infinities and doubles beyond 2^63: modelled as
   ANY int64. It only reaches the statement text (as the window does, through time.UnixMilli): the outcome class and the
   number of statements do not depend on it. *)
Theorem pyroscope_outcome_independent_of_step_conversion : forall (q : ReadProf.pfreq) (any_int64 a b : Z),
  ReadProf.prof_outcome (ReadProf.with_step q any_int64) = ReadProf.prof_outcome q /\
  ReadProf.prof_outcome (ReadProf.with_window q a b) = ReadProf.prof_outcome q.
Proof. intros q s a b. split; [exact (ReadProfProofs.prof_outcome_independent_of_step q s) | exact (ReadProfProofs.prof_outcome_independent_of_window q a b)]. Qed.
Print Assumptions pyroscope_outcome_independent_of_step_conversion.

(* Tree.BFS (SelectMergeStacktraces): the loop `for len(currentLevelNodes) > 0` ends for EVERY Nodes map, i.e. whatever rows
   the statement returned -- cycles, self loops and ids shared between parents included: every level consists of ids met
   for the first time (the reviewed map) and every id is the id of a stored node, so the count_nodes + 2 iterations the
   model allows are never used up (more fuel changes nothing). *)
Theorem flamegraph_bfs_ends_on_every_result_set : forall (t : ProfTree.mtree) (k : nat),
  let total := ProfTree.total_of t in
  let root := {| ProfTree.t_fn := 0%N; ProfTree.t_id := 0%N; ProfTree.t_self := 0; ProfTree.t_total := total |} in
  ProfTree.bfs_loop (ProfTree.count_nodes t + 2 + k) t
    [[ {| ProfTree.b_off := 0; ProfTree.b_total := total; ProfTree.b_self := 0; ProfTree.b_name := 0;
          ProfTree.b_id := 0%N; ProfTree.b_parent := 0%N |} ]] [root] [] [] = ProfTree.bfs t.
Proof. exact ReadProfProofs.bfs_ends. Qed.
Print Assumptions flamegraph_bfs_ends_on_every_result_set.

(* computeFlameGraphDiff (render-diff) has no reviewed map. One stored row whose node is its own parent -- (parent 0,
   function 1, id 0) -- and the queue never empties: after any number of iterations one item is waiting (replayed: the
   request hung and the level list grew until the memory ran out; corpus prof-diff-self-loop, prof-diff-cycle). Since fix
   3463224 the walk makes at most 2 * nodes + 2 iterations, which is exactly the fuel of ProfDiff.diff_bars: the model of
   property C16 and the code agree on EVERY pair of trees, cyclic ones included (4 bars for the self loop). *)
Theorem diff_walk_needs_its_budget :
  (forall fuel it, ProfTree.t_id (ProfDiff.q_l it) = 0%N -> ProfTree.t_id (ProfDiff.q_r it) = 0%N ->
     exists it', ReadProf.walk_queue fuel ReadProfProofs.selfloop_nodes ReadProfProofs.selfloop_nodes [it] = [it'] /\
                 ProfTree.t_id (ProfDiff.q_l it') = 0%N /\ ProfTree.t_id (ProfDiff.q_r it') = 0%N) /\
  (ProfTree.m_nodes (ProfTree.merge_trie ProfTree.the_limit ProfTree.new_tree [ReadProf.trow 0 1 0 1 5] []) = ReadProfProofs.selfloop_nodes /\
   ProfDiff.merge_nodes ReadProfProofs.selfloop_nodes ReadProfProofs.selfloop_nodes = (ReadProfProofs.selfloop_nodes, ReadProfProofs.selfloop_nodes)) /\
  (let t := ProfTree.merge_trie ProfTree.the_limit ProfTree.new_tree [ReadProf.trow 0 1 0 1 5] [] in
   ReadProf.diff_budget ReadProfProofs.selfloop_nodes = 4%nat /\ length (ProfDiff.ds_levels (ProfDiff.diff_bars t t)) = 4%nat).
Proof.
  split; [exact ReadProfProofs.selfloop_walk_never_ends|].
  split; [exact ReadProfProofs.selfloop_is_what_the_rows_give | exact ReadProfProofs.selfloop_walk_budgeted].
Qed.
Print Assumptions diff_walk_needs_its_budget.

(* ---------------------------------------------------------------------------------------------------------------------
   Float -> int64 conversion of request parameters (model/ReadConv.v). Go leaves int64(f) implementation-defined for a
   NaN, an infinity and |f| >= 2^63 (amd64: -2^63; arm64: saturation, NaN -> 0): the model takes ANY integer for it. *)

(* Loki query_range at nanosecond granularity, start / end through getRequiredNs and step through parseDuration: whatever
   the three conversions yield (any_s, any_e, any_step range over ALL integers), a request the controller and the planner
   let through has a safe context, so for every result set every interleaving of its pipeline is finite, never crashes
   -- the goroutine without recover included -- and ends with every goroutine returned. *)
Theorem float_conversion_cannot_break_the_pipeline : forall q s e stp any_s any_e any_step sh c rows,
  range_prelude_ns q s e stp any_s any_e any_step = PRun sh c ->
  let c0 := init_config (map MRow rows) (stages_of sh c) in
  Acc (fun c' c1 : config st msg => step c1 c') c0 /\
  forall cf, star c0 cf -> crashed cf = false /\ (quiescent cf -> all_done (cells cf)).
Proof. exact conv_chain_terminates. Qed.
Print Assumptions float_conversion_cannot_break_the_pipeline.

(* the hypothesis is met, and the outcome CLASS does depend on the value (so it is the guards, not the value, that give
   the safety): start = NaN on a log query runs with the amd64 value and with the arm64 value; a rate query over the
   amd64 value is refused (window beyond int64); end = NaN is refused with 0 as with -2^63 ... unless the conversion
   happens to yield a sensible end, in which case the request runs *)
Theorem float_conversion_examples :
  (exists c, range_prelude_ns (nan_start_request ShLog) (FpNum FUndef) (FpNum (FExact 1700000340000000000)) FpAbsent
               (-9223372036854775808) 0 0 = PRun ShLog c) /\
  (exists c, range_prelude_ns (nan_start_request ShLog) (FpNum FUndef) (FpNum (FExact 1700000340000000000)) FpAbsent 0 0 0 = PRun ShLog c) /\
  range_prelude_ns (nan_start_request ShRate) (FpNum FUndef) (FpNum (FExact 1700000340000000000)) FpAbsent
               (-9223372036854775808) 0 0 = PResp O5xx /\
  range_prelude_ns (nan_start_request ShRate) (FpNum (FExact 1700000040000000000)) (FpNum FUndef) FpAbsent
               0 (-9223372036854775808) 0 = PResp O4xx /\
  (exists c, range_prelude_ns (nan_start_request ShRate) (FpNum (FExact 1700000040000000000)) (FpNum FUndef) (FpNum FUndef)
               0 1700000340000000000 15000 = PRun ShRate c).
Proof. exact conv_examples. Qed.
Print Assumptions float_conversion_examples.

(* Prometheus query / query_range: ParseTimeSecOrRFC converts a text of digits and dots with int64(t), parseDuration lets a
   NaN through its range check (both comparisons are false) and float64(MaxInt64) is 2^63 itself. Whatever integers the
   conversions yield for start, end and step: the controller refuses the request or hands the engine a positive step, at
   most 11,000 points and subquery evaluators of at most 11,000 steps. *)
Theorem prom_conversion_any_value_is_bounded : forall (inst : bool) (now any_start any_end any_step : Z) (e : pexpr),
  pwf e = true -> engine_bounded (prom_outcome (mkPR inst now (PNum any_start) (PNum any_end) (PNum any_step) (PQ e))).
Proof. intros inst now a b c e H. apply prom_accepted_bounded. exact H. Qed.
Print Assumptions prom_conversion_any_value_is_bounded.

(* ---------------------------------------------------------------------------------------------------------------------
   StableSqlxDBWrapper (reader/utils/dsn/sqlxWrap.go, model/ReadPool.v): the object every statement of every read
   endpoint goes through. One RWMutex: a statement runs under the read lock; when it fails, the wrapper takes the write
   lock and rebuilds the connection pool. Threads = requests served by one process, each any sequence of read / write
   sections; the mutex state is what the threads hold; Go's writer preference (an announced writer keeps new readers out). *)

(* ANY number of concurrent threads, each ANY sequence of sections in which a lock taken is given back before the next one
   is asked for (the shape locks_released_on_every_path establishes for every unit of the file), EVERY interleaving: the
   schedule is finite, and it can only stop with every thread through and the mutex free -- nobody waits for ever. *)
Theorem pool_wrapper_never_wedges : forall progs, forallb (ReadPool.pl_ok ReadPool.MOut) progs = true ->
  let init := map ReadPool.pl_fresh progs in
  Acc (fun b a => ReadPool.pl_step a b) init /\
  forall ts, ReadPool.pl_star init ts -> ReadPool.pl_stuck ts ->
             forallb (fun t => andb (ReadPool.pl_done t) (ReadPool.pl_free t)) ts = true.
Proof. exact ReadPoolProofs.pool_never_wedges. Qed.
Print Assumptions pool_wrapper_never_wedges.

(* the instance: any number of concurrent read requests, each issuing any number of statements through QueryCtx, the
   database doing anything with each of them (answers / refuses / the caller gave up mid-statement) *)
Theorem read_requests_never_wedge_the_pool : forall reqs : list (list ReadPool.pl_event),
  let init := map (fun evs => ReadPool.pl_fresh (ReadPool.pl_request ReadPool.pl_query_ctx evs)) reqs in
  Acc (fun b a => ReadPool.pl_step a b) init /\
  forall ts, ReadPool.pl_star init ts -> ReadPool.pl_stuck ts ->
             forallb (fun t => andb (ReadPool.pl_done t) (ReadPool.pl_free t)) ts = true.
Proof. exact ReadPoolProofs.read_requests_never_wedge. Qed.
Print Assumptions read_requests_never_wedge_the_pool.

(* histories (requests served one after the other -- what the harness replays through the real wrapper): every request
   of every history is answered and the pool is rebuilt exactly once per failed statement *)
Theorem every_history_through_the_wrapper_is_answered : forall reqs,
  ReadPool.pl_history ReadPool.pl_query_ctx [] reqs = map (fun evs => (true, ReadPool.pl_failed evs)) reqs.
Proof. exact ReadPoolProofs.every_history_is_answered. Qed.
Print Assumptions every_history_through_the_wrapper_is_answered.

(* the release on every path is NEEDED (seeded change C12-e: an early return before the RUnlock when the statement failed
   with the caller's context cancelled). Once a finished thread has kept a read lock, in every reachable state every
   thread that has a pool rebuild ahead still has it ahead (it is never answered); and once one of them has announced
   itself, every thread that has a read lock ahead still has it ahead: the whole read side hangs. Witness history: a
   caller gives up mid-statement, the database refuses a statement, a healthy request -- answered (with 1, 1, 0 rebuilds)
   by the wrapper as it is; with the early return the second and third are never answered. *)
Theorem pool_wrapper_needs_the_release_on_every_path :
  (forall a b, ReadPool.pl_star a b -> existsb ReadPoolProofs.pl_leaked a = true ->
     existsb ReadPoolProofs.pl_leaked b = true /\ map ReadPoolProofs.pl_wants_write b = map ReadPoolProofs.pl_wants_write a) /\
  (forall a b, ReadPool.pl_star a b -> ReadPoolProofs.pl_wedged a = true ->
     ReadPoolProofs.pl_wedged b = true /\ map ReadPoolProofs.pl_wants_read b = map ReadPoolProofs.pl_wants_read a) /\
  ReadPool.pl_history ReadPool.pl_query_ctx [] ReadPoolProofs.pl_witness = [(true, 1); (true, 1); (true, 0)] /\
  ReadPool.pl_history ReadPool.pl_query_ctx_leaky [] ReadPoolProofs.pl_witness = [(true, 0); (false, 0); (false, 0)].
Proof.
  exact (conj ReadPoolProofs.leaked_read_lock_blocks_every_rebuild
        (conj ReadPoolProofs.wedged_pool_blocks_every_reader ReadPoolProofs.pl_witness_runs)).
Qed.
Print Assumptions pool_wrapper_needs_the_release_on_every_path.

(* ---------------------------------------------------------------- round 6: the CONNECTION POOL as a resource *)
From Qryn Require model.ReadConn proofs.ReadConnProofs.   (* qualified: short constructor names *)

(* Over the generated connection flow of every function body / literal of reader/ per result-set variable
   (`rows, err := X.QueryCtx(..)`) and per channel of a lending call (`ch, err := f(..)`, f may issue a statement and
   returns a channel: the goroutine feeding it holds the result set): on EVERY path through the body -- any branch, any
   number of loop iterations, break / continue / return -- no connection is asked for (a statement of its own, or a call of
   a function that may issue one: least fixpoint over the call graph) while the variable holds one. The connection is given
   back by Close(), by reading the rows to the end (`for rows.Next()` left because Next() = false), and for a lent one by
   reading the channel until it is closed; `defer rows.Close()` acts only when the function is left (that is seeded change
   C12-f: the complex processor called from inside the rows loop of the complexity statement, rows still open). Every
   statement site of the inventory is the acquisition of a flow (or reviewed: the wrapper's own forwarding). AND when the body is left the variable holds nothing its caller does not know
   about: an open result set only under a registered `defer rows.Close()`, a lent one only if the function returns a channel
   (its callers' flows then have the call as a lending call); a return with a non-nil error gives the request up; five bodies
   whose early return ends the request are reviewed (ReadConn.exit_reviewed; no entry is stale). *)
Theorem no_request_asks_for_a_connection_while_holding_one :
  ReadConn.conn_inventory_ok reader_conn_flows reader_query_sites reader_untracked_lends = true /\
  forall f, In f reader_conn_flows -> forall o st',
    ReadConn.cexec (ReadConn.cf_body f) ReadConn.Free o st' ->
    o <> ReadConn.COWait /\ (o = ReadConn.CONormal \/ o = ReadConn.COReturn) /\
    (ReadConn.exit_is_reviewed f = false ->
     ReadConn.exit_state_ok (ReadConn.cf_deferred_close f) (ReadConn.cf_returns_chan f) st' = true).
Proof.
  split; [vm_compute; reflexivity|]. apply ReadConnProofs.cflows_ok_sound. vm_compute. reflexivity.
Qed.
Print Assumptions no_request_asks_for_a_connection_while_holding_one.

(* the analysis is sound for EVERY body (induction on the syntax, inner induction on the path for loops) *)
Theorem connection_flow_analysis_sound : forall body, ReadConn.cbody_ok body = true ->
  forall o st', ReadConn.cexec body ReadConn.Free o st' ->
    o <> ReadConn.COWait /\ (o = ReadConn.CONormal \/ o = ReadConn.COReturn).
Proof. exact ReadConnProofs.cbody_ok_sound. Qed.
Print Assumptions connection_flow_analysis_sound.

(* The pool: ANY size >= 1 (max_open_connection), ANY number of concurrent requests, each ANY sequence of asks / gives /
   other work in which a connection is asked for only while none is held and none is kept at the end (kn_ok), EVERY
   interleaving: finite, and a state in which nobody can move has every request through and every connection back. *)
Theorem connection_pool_never_wedged_by_one_at_a_time_requests : forall cap ts, (1 <= cap)%nat ->
  forallb ReadConn.kt_ok ts = true ->
  Acc (fun b a => ReadConn.kstep cap a b) ts /\
  forall ts', Relation_Operators.clos_refl_trans_1n _ (ReadConn.kstep cap) ts ts' -> (forall ts'', ~ ReadConn.kstep cap ts' ts'') ->
    forallb ReadConnProofs.kdone ts' = true /\ ReadConn.kheld ts' = 0%nat.
Proof.
  intros cap ts Hcap Hok. split; [apply ReadConnProofs.pool_schedules_finite|].
  exact (ReadConnProofs.disciplined_threads_reach_the_end cap ts Hcap Hok).
Qed.
Print Assumptions connection_pool_never_wedged_by_one_at_a_time_requests.

(* ... and the discipline is NEEDED, for every pool size: as many requests as the pool has connections, each holding one
   and asking for another (whatever they would do afterwards): nobody can move, nobody is through, the pool is empty. The
   request of seeded change C12-f reaches that state on a pool of one; the request as the code is passes kn_ok. *)
Theorem hold_and_wait_wedges_the_connection_pool : forall cap q, (1 <= cap)%nat ->
  let ts := repeat (1%nat, ReadConn.KAcq :: q) cap in
  (forall ts', ~ ReadConn.kstep cap ts ts') /\ forallb ReadConnProofs.kdone ts = false /\ ReadConn.kheld ts = cap.
Proof. exact ReadConnProofs.hold_and_wait_wedges_the_pool. Qed.
Print Assumptions hold_and_wait_wedges_the_connection_pool.

(* ---- round 7: stored label documents on the series endpoints. storedLabels runs in the row-streaming goroutine of
   QueryLabelsService.Series, which has no recover (allow-listed above with its operations): its fallback decoder (the path
   of every row encoding/json refuses) is modelled with Go's panicking operations explicit (model/ReadLabelDoc.v: s[i], s[n:]).
   For EVERY stored text and every strconv.QuotedPrefix that returns a prefix of its argument, the decoder as it is on main
   ends in Malformed or Decoded. *)
From Qryn Require model.ReadLabelDoc proofs.ReadLabelDocProofs.
Theorem stored_label_documents_cannot_crash_the_reader : forall qp, ReadLabelDocProofs.returns_a_prefix qp ->
  forall doc, ReadLabelDoc.stored_labels_fallback qp ReadLabelDoc.VMain doc <> ReadLabelDoc.Panic.
Proof. exact ReadLabelDocProofs.stored_labels_never_panics. Qed.
Print Assumptions stored_label_documents_cannot_crash_the_reader.

(* ... and the length test matters: the variant of seeded change C12-g (rest[0] compared with ':' after a label name, no
   look at len(rest)) panics on a document cut right after a quoted name, where main answers Malformed; with the length
   test the stricter check is harmless (guarded_check_never_panics in the proofs file). *)
Theorem label_name_check_without_length_test_panics : ReadLabelDocProofs.seeded_variant_panics_main_does_not.
Proof. exact ReadLabelDocProofs.unguarded_index_panics. Qed.
Print Assumptions label_name_check_without_length_test_panics.

(* ---- round 8: the decoder loop of storedLabels ENDS (the goroutine of Series has no deadline of its own: a loop that does not
   end is a request blocked forever). Until this round the model ran the loop on fuel len(doc)+1 and termination was tested.
   ReadLabelDoc.loop_run is Go's loop without fuel (no derivation = it spins forever). For EVERY stored text, every variant of
   the decoder and every strconv.QuotedPrefix that consumes at least one byte and at most its argument (the real one returns at
   least the two quotes; checked on every suffix of every generated row on each run): the loop ends after at most len(doc)/2
   completed rounds, its outcome is unique, and it is the outcome the executable model computes -- the fuel is never the reason
   of an answer. *)
Theorem stored_label_decoder_terminates : forall qp v, ReadLabelDocProofs.consumes_something qp -> forall doc,
  exists k, ReadLabelDoc.loop_run qp v (ReadLabelDoc.decoder_start doc) 0 k (ReadLabelDoc.stored_labels_fallback qp v doc) /\
            (2 * k <= List.length doc)%nat /\
            forall k' o', ReadLabelDoc.loop_run qp v (ReadLabelDoc.decoder_start doc) 0 k' o' ->
                          k' = k /\ o' = ReadLabelDoc.stored_labels_fallback qp v doc.
Proof. exact ReadLabelDocProofs.decoder_loop_terminates. Qed.
Print Assumptions stored_label_decoder_terminates.

(* Together with round 7: on main the unrecovered goroutine's decoder, for every stored text, ends and does not panic. *)
Theorem stored_label_documents_cannot_crash_or_hang_the_reader : forall qp, ReadLabelDocProofs.consumes_something qp -> forall doc,
  exists k o, ReadLabelDoc.loop_run qp ReadLabelDoc.VMain (ReadLabelDoc.decoder_start doc) 0 k o /\ o <> ReadLabelDoc.Panic /\
              (2 * k <= List.length doc)%nat.
Proof. exact ReadLabelDocProofs.series_decoder_total_on_main. Qed.
Print Assumptions stored_label_documents_cannot_crash_or_hang_the_reader.

(* ... and the hypothesis is needed: with a QuotedPrefix that reports success on an empty prefix the loop, started on a single
   quote, has no run at all -- it spins (the fuel model answers Malformed there: that answer would be the cut-off's). The
   hypothesis is satisfiable: ReadLabelDocProofs.qp_scan_consumes; a run of two rounds: decoder_runs_two_rounds. *)
Theorem stored_label_decoder_needs_a_consuming_quoted_prefix : forall n k o,
  ~ ReadLabelDoc.loop_run ReadLabelDoc.qp_nothing ReadLabelDoc.VMain ReadLabelDoc.one_quote n k o.
Proof. exact ReadLabelDocProofs.decoder_needs_a_consuming_quoted_prefix. Qed.
Print Assumptions stored_label_decoder_needs_a_consuming_quoted_prefix.

(* ---- round 8, second item: fastFill, the doubling loop the goroutine of FixPeriodPlanner (no recover, no deadline) runs for
   every entry (model/ReadFastFill.v; ReadPath.fix_entry held of it only `v[0]` on an empty slice). Slice = list, v[0] = val and
   v[l:] with their panics explicit, the loop a relation WITHOUT fuel. For EVERY non-empty slice of cells of any type: fastFill
   ends after k rounds with 2^k < 2 len(v), does not panic, leaves every cell holding val -- and that is its only run. *)
From Qryn Require model.ReadFastFill proofs.ReadFastFillProofs.
Theorem fast_fill_ends_without_a_panic_on_every_nonempty_slice : forall (A : Type) (v : list A) (x : A), v <> [] ->
  exists k, ReadFastFill.fast_fill_run v x k (Some (repeat x (List.length v))) /\ (2 ^ k < 2 * List.length v)%nat /\
            forall k' o', ReadFastFill.fast_fill_run v x k' o' -> k' = k /\ o' = Some (repeat x (List.length v)).
Proof. exact (@ReadFastFillProofs.fast_fill_total). Qed.
Print Assumptions fast_fill_ends_without_a_panic_on_every_nonempty_slice.

(* The hypothesis is needed -- on an empty slice every run is a panic (the crash of seeded change C12-h: the planner's guard
   `idxTo < 0 || idxFrom >= len(values)` without its first disjunct hands values[0:0] over; with the guard the slice has at least
   one cell: no_fault_in_unrecovered_code_partial) -- and so is the doubling: with a step that leaves l where it is the loop on
   two cells runs out of every fuel. Non-trivial runs: ReadFastFillProofs.fast_fill_five_cells (3 rounds). *)
Theorem fast_fill_needs_a_cell_and_a_growing_step :
  (forall (A : Type) (x : A) k o, ReadFastFill.fast_fill_run [] x k o -> k = 0%nat /\ o = None) /\
  (forall fuel (v : list nat), List.length v = 2%nat -> ReadFastFill.ff_exec (fun l => l) fuel v 1 = None).
Proof. split; [exact (@ReadFastFillProofs.fast_fill_on_an_empty_slice_panics) | exact ReadFastFillProofs.fast_fill_needs_a_growing_step]. Qed.
Print Assumptions fast_fill_needs_a_cell_and_a_growing_step.
